(* C02 — per-operator lemmas: what each producer closure yields, given what its operands yield. *)
From FunV Require Import Base.Tac Model.IterAlgebra Proofs.IterAlgebra_base.

Arguments rd : simpl never.
Arguments do_close : simpl never.

(* A call of [s] that, without returning, becomes a call of [s1] (a retry of the loop). *)
Definition Tau (s s1 : st) : Prop := exists n0, forall n, n0 <= n -> rd (S n) s = rd n s1.

Lemma tau_step s s1 o s2 : Tau s s1 -> Step s1 o s2 -> Step s o s2.
Proof.
  intros [n0 Hn] H. destruct (step_ge _ _ _ H) as [n1 H1].
  exists (S (n0 + n1)). rewrite Hn by lia. apply H1. lia.
Qed.

Lemma tau_reads s s1 vs o s' : Tau s s1 -> Reads s1 vs o s' -> Reads s vs o s'.
Proof.
  intros HT R. inv R.
  - apply Reads_end; [eapply tau_step|]; eauto.
  - eapply Reads_val; [eapply tau_step|]; eauto.
  - eapply Reads_skip; [eapply tau_step|]; eauto.
Qed.

Ltac use_step H n0 Hn := destruct (step_ge _ _ _ H) as [n0 Hn].
Ltac one_step n0 Hn := exists (S n0); rewrite rd_S; cbn [rd_body]; rewrite Hn by lia.
Ltac one_tau n0 Hn := exists n0; intros ? ?; rewrite rd_S; cbn [rd_body]; rewrite Hn by lia.

(* ------------------------------------------------------------------ sources *)

Lemma queue_reads q : Reads (SQueue q) q OEof (SQueue []).
Proof.
  induction q as [|x q IH].
  - apply Reads_end; [|exact I]. exists 1. reflexivity.
  - eapply Reads_val; [|exact IH]. exists 1. reflexivity.
Qed.

Lemma slice_reads_from l : forall m k, m = length l - k -> k <= length l ->
  Reads (SSlice l (Z.of_nat k - 1)) (skipn k l) OEof (SSlice l (Z.of_nat (length l) - 1)).
Proof.
  induction m as [|m IH]; intros k Hm Hk.
  - assert (k = length l) by lia. subst k. rewrite skipn_all.
    apply Reads_end; [|exact I]. exists 1. rewrite rd_S. cbn [rd_body].
    replace (Z.of_nat (length l) <=? Z.of_nat (length l) - 1 + 1)%Z with true by lia. reflexivity.
  - assert (Hlt : k < length l) by lia.
    assert (E : skipn k l = nth k l 0%Z :: skipn (S k) l).
    { clear - Hlt. revert k Hlt. induction l as [|a l IHl]; intros k Hlt; simpl in *; [lia|].
      destruct k; [reflexivity|]. apply IHl. lia. }
    rewrite E. eapply Reads_val.
    + exists 1. rewrite rd_S. cbn [rd_body].
      replace (Z.of_nat (length l) <=? Z.of_nat k - 1 + 1)%Z with false by lia.
      replace (Z.to_nat (Z.of_nat k - 1 + 1)) with k by lia. reflexivity.
    + replace (Z.of_nat k - 1 + 1)%Z with (Z.of_nat (S k) - 1)%Z by lia. apply IH; lia.
Qed.

Lemma slice_reads l : Reads (SSlice l (-1)) l OEof (SSlice l (Z.of_nat (length l) - 1)).
Proof. apply (slice_reads_from l (length l) 0); lia. Qed.

(* the generator's table as the raw producer sees it *)
Fixpoint gen_raw (tbl : list out) : list Z * out :=
  match tbl with
  | [] => ([], OEof)
  | OVal z :: tbl' => let '(vs, o) := gen_raw tbl' in (z :: vs, o)
  | OSkip :: tbl' => gen_raw tbl'
  | o :: _ => ([], o)
  end.

Lemma gen_den_raw tbl : gen_den tbl = (fst (gen_raw tbl), conv (snd (gen_raw tbl)), coll (snd (gen_raw tbl))).
Proof.
  induction tbl as [|o tbl IH]; [reflexivity|].
  destruct o; simpl; try reflexivity.
  - rewrite IH. destruct (gen_raw tbl). reflexivity.
  - exact IH.
Qed.

Lemma gen_raw_stops tbl : stops (snd (gen_raw tbl)).
Proof.
  induction tbl as [|o tbl IH]; [exact I|]. destruct o; simpl; auto.
  destruct (gen_raw tbl). exact IH.
Qed.

Lemma gen_reads_from tbl : forall pre, exists p',
  Reads (SGen (pre ++ tbl) (length pre)) (fst (gen_raw tbl)) (snd (gen_raw tbl)) p'.
Proof.
  induction tbl as [|x tbl IH]; intros pre.
  - eexists. apply Reads_end; [|exact I]. exists 1. rewrite rd_S. cbn [rd_body].
    rewrite app_nil_r, nth_overflow by lia. reflexivity.
  - assert (St : Step (SGen (pre ++ x :: tbl) (length pre)) x (SGen ((pre ++ [x]) ++ tbl) (length (pre ++ [x])))).
    { exists 1. rewrite rd_S. cbn [rd_body]. rewrite app_nth2, Nat.sub_diag by lia. simpl.
      rewrite <- app_assoc, app_length. simpl. rewrite Nat.add_1_r. reflexivity. }
    destruct (IH (pre ++ [x])) as [p' R].
    destruct x; simpl.
    + destruct (gen_raw tbl) as [vs o] eqn:E. simpl in *. eexists. eapply Reads_val; eauto.
    + eexists. eapply Reads_skip; eauto.
    + eexists. apply Reads_end; [eauto|exact I].
    + eexists. apply Reads_end; [eauto|exact I].
    + eexists. apply Reads_end; [eauto|exact I].
    + eexists. apply Reads_end; [eauto|exact I].
Qed.

Lemma gen_reads tbl : exists p', Reads (SGen tbl 0) (fst (gen_raw tbl)) (snd (gen_raw tbl)) p'.
Proof. apply (gen_reads_from tbl []). Qed.

(* ------------------------------------------------------------------ Filter *)

Lemma filter_reads p c vs fin c' : ReadsI c vs fin c' ->
  Reads (SFilterP p c) (filter p vs) fin (SFilterP p c').
Proof.
  induction 1 as [c o c' H Hs|c v ca vs o c' H HR IH].
  - use_step H n0 Hn. apply Reads_end; [|assumption].
    one_step n0 Hn. destruct o; simpl in Hs; try tauto; reflexivity.
  - use_step H n0 Hn. simpl. destruct (p v) eqn:Hp.
    + eapply Reads_val; [|exact IH]. one_step n0 Hn. rewrite Hp. reflexivity.
    + eapply tau_reads; [|exact IH]. one_tau n0 Hn. rewrite Hp. reflexivity.
Qed.

(* ------------------------------------------------------------------ Transform.Producer *)

Definition tfin (fin : out) (e : option out) : out := match e with Some o => o | None => fin end.

Lemma tvals_stops f : forall vs k o, snd (tvals f k vs) = Some o -> stops o.
Proof.
  induction vs as [|x vs IH]; simpl; intros k o H; [discriminate|].
  destruct (f k x) eqn:E; simpl in H; try (inv H; exact I).
  - destruct (tvals f (S k) vs) eqn:E2. simpl in H. eapply IH. rewrite E2. exact H.
  - eapply IH; eauto.
Qed.

Lemma transform_reads f c vs fin c' : ReadsI c vs fin c' -> forall k,
  exists p', Reads (STransformP f k c) (fst (tvals f k vs)) (tfin fin (snd (tvals f k vs))) p'.
Proof.
  induction 1 as [c o c' H Hs|c v ca vs o c' H HR IH]; intros k.
  - use_step H n0 Hn. eexists. apply Reads_end; [|exact Hs].
    one_step n0 Hn. destruct o; simpl in Hs; try tauto; reflexivity.
  - use_step H n0 Hn. destruct (IH (S k)) as [p' R]. simpl.
    destruct (f k v) eqn:Ef.
    + destruct (tvals f (S k) vs) as [ys e] eqn:Et. simpl in *. eexists.
      eapply Reads_val; [|exact R]. one_step n0 Hn. rewrite Ef. reflexivity.
    + eexists. eapply tau_reads; [|exact R]. one_tau n0 Hn. rewrite Ef. reflexivity.
    + eexists. apply Reads_end; [|exact I]. one_step n0 Hn. rewrite Ef. reflexivity.
    + eexists. apply Reads_end; [|exact I]. one_step n0 Hn. rewrite Ef. reflexivity.
    + eexists. apply Reads_end; [|exact I]. one_step n0 Hn. rewrite Ef. reflexivity.
    + eexists. apply Reads_end; [|exact I]. one_step n0 Hn. rewrite Ef. reflexivity.
Qed.

(* ------------------------------------------------------------------ Producer.Join *)

Lemma join_second fe se a b vb fb b' : Reads b vb fb b' ->
  exists s', Reads (SJoinP 2 fe se a b) vb fb s'.
Proof.
  induction 1 as [b o b' H Hs|b v ba vs o b' H HR IH|b ba vs o b' H HR IH].
  - use_step H n0 Hn. destruct o; simpl in Hs; try tauto;
      (eexists; apply Reads_end; [|exact I]; one_step n0 Hn; cbn; reflexivity).
  - use_step H n0 Hn. destruct IH as [s' R]. eexists. eapply Reads_val; [|exact R].
    one_step n0 Hn. cbn. reflexivity.
  - use_step H n0 Hn. destruct IH as [s' R]. eexists. eapply tau_reads; [|exact R].
    one_tau n0 Hn. cbn. reflexivity.
Qed.

Definition join2 (va : list Z) (fa : out) (vb : list Z) (fb : out) : list Z * out :=
  match fa with OEof => (va ++ vb, fb) | _ => (va, fa) end.

Lemma join_first fe se a va fa a' b vb fb b' : Reads a va fa a' -> Reads b vb fb b' ->
  exists s', Reads (SJoinP 0 fe se a b) (fst (join2 va fa vb fb)) (snd (join2 va fa vb fb)) s'.
Proof.
  intros Ra Rb. revert fe se.
  induction Ra as [a o a' H Hs|a v aa vs o a' H HR IH|a aa vs o a' H HR IH]; intros fe se.
  - use_step H n0 Hn. destruct o; simpl in Hs; try tauto; unfold join2; simpl.
    + eexists. apply Reads_end; [|exact I]. one_step n0 Hn. cbn. reflexivity.
    + destruct (join_second fe se a' b vb fb b' Rb) as [s' R]. eexists.
      eapply tau_reads; [|exact R]. one_tau n0 Hn. cbn. reflexivity.
    + eexists. apply Reads_end; [|exact I]. one_step n0 Hn. cbn. reflexivity.
    + eexists. apply Reads_end; [|exact I]. one_step n0 Hn. cbn. reflexivity.
  - use_step H n0 Hn. destruct (IH fe se) as [s' R].
    assert (E : join2 (v :: vs) o vb fb = (v :: fst (join2 vs o vb fb), snd (join2 vs o vb fb))).
    { unfold join2. destruct o; reflexivity. }
    rewrite E. simpl. eexists. eapply Reads_val; [|exact R].
    one_step n0 Hn. cbn. reflexivity.
  - use_step H n0 Hn. destruct (IH fe se) as [s' R]. eexists. eapply tau_reads; [|exact R].
    one_tau n0 Hn. cbn. reflexivity.
Qed.

(* ------------------------------------------------------------------ Uniq, DropZeroValues *)

Lemma uniq_reads c vs fin c' : ReadsI c vs fin c' -> forall seen,
  exists seen', Reads (SUniqP seen c) (dedupe seen vs) OEof (SUniqP seen' c').
Proof.
  induction 1 as [c o c' H Hs|c v ca vs o c' H HR IH]; intros seen.
  - use_step H n0 Hn. exists seen. apply Reads_end; [|exact I].
    one_step n0 Hn. destruct o; simpl in Hs; try tauto; reflexivity.
  - use_step H n0 Hn. simpl. destruct (existsb (Z.eqb v) seen) eqn:Hp.
    + destruct (IH seen) as [seen' R]. exists seen'. eapply tau_reads; [|exact R].
      one_tau n0 Hn. rewrite Hp. reflexivity.
    + destruct (IH (v :: seen)) as [seen' R]. exists seen'. eapply Reads_val; [|exact R].
      one_step n0 Hn. rewrite Hp. reflexivity.
Qed.

Lemma dropzero_reads c vs fin c' : ReadsI c vs fin c' ->
  Reads (SDropZeroP c) (filter nonzero vs) fin (SDropZeroP c').
Proof.
  induction 1 as [c o c' H Hs|c v ca vs o c' H HR IH].
  - use_step H n0 Hn. apply Reads_end; [|assumption].
    one_step n0 Hn. destruct o; simpl in Hs; try tauto; reflexivity.
  - use_step H n0 Hn. simpl. unfold nonzero at 1. destruct (v =? 0)%Z eqn:Hp; simpl.
    + eapply tau_reads; [|exact IH]. one_tau n0 Hn. rewrite Hp. reflexivity.
    + eapply Reads_val; [|exact IH]. one_step n0 Hn. rewrite Hp. reflexivity.
Qed.

(* ------------------------------------------------------------------ the drain-and-replay operators *)

Lemma pipe_pop kd q c : Reads (SPipeP kd true q c) q OEof (SPipeP kd true [] c).
Proof.
  induction q as [|x q IH].
  - apply Reads_end; [|exact I]. exists 1. reflexivity.
  - eapply Reads_val; [|exact IH]. exists 1. reflexivity.
Qed.

Lemma pipe_reads kd c vs fin c' : ReadsI c vs fin c' ->
  Reads (SPipeP kd false [] c) (pipe_vals kd vs) OEof (SPipeP kd true [] (pipe_post kd fin c')).
Proof.
  intros R. destruct (drain_of_ReadsI _ _ _ _ R) as [n0 Hn].
  assert (E : forall n, n0 <= n -> rd (S n) (SPipeP kd false [] c) =
              pop_q (fun q' => SPipeP kd true q' (pipe_post kd fin c')) (pipe_vals kd vs)).
  { intros n Hle. rewrite rd_S. cbn [rd_body]. rewrite Hn by lia. reflexivity. }
  destruct (pipe_vals kd vs) as [|x q] eqn:Eq.
  - apply Reads_end; [|exact I]. exists (S n0). rewrite E by lia. reflexivity.
  - eapply Reads_val; [|apply pipe_pop]. exists (S n0). rewrite E by lia. reflexivity.
Qed.

Lemma flat_pop g q ec c : Reads (SFlatP g true q ec c) q OEof (SFlatP g true [] ec c).
Proof.
  induction q as [|x q IH].
  - apply Reads_end; [|exact I]. exists 1. reflexivity.
  - eapply Reads_val; [|exact IH]. exists 1. reflexivity.
Qed.

Lemma flat_reads g c vs fin c' : ReadsI c vs fin c' ->
  Reads (SFlatP g false [] [] c) (flat_map g vs) OEof (SFlatP g true [] (ctx_err fin) c').
Proof.
  intros R. destruct (drain_of_ReadsI _ _ _ _ R) as [n0 Hn].
  assert (E : forall n, n0 <= n -> rd (S n) (SFlatP g false [] [] c) =
              pop_q (fun q' => SFlatP g true q' (ctx_err fin) c') (flat_map g vs)).
  { intros n Hle. rewrite rd_S. cbn [rd_body]. rewrite Hn by lia. reflexivity. }
  destruct (flat_map g vs) as [|x q] eqn:Eq.
  - apply Reads_end; [|exact I]. exists (S n0). rewrite E by lia. reflexivity.
  - eapply Reads_val; [|apply flat_pop]. exists (S n0). rewrite E by lia. reflexivity.
Qed.

(* itertool.Chain: every operand is an iterator with its own specification *)
Definition dtriple := (list Z * out * list Z)%type.
Definition d_vals (d : dtriple) := fst (fst d).
Definition d_fin (d : dtriple) := snd (fst d).
Definition d_errs (d : dtriple) := snd d.

Definition spec_of (s : st) (d : dtriple) : Prop := IterSpec s (d_vals d) (d_fin d) (d_errs d).

Lemma chain_run_spec ops ds : Forall2 spec_of ops ds ->
  exists n0, forall n k q ec done, n0 <= n -> n0 <= k ->
    exists ec1 ops1, chain_run (rd n) k ops q ec done = Some (q ++ concat (map d_vals ds), ec1, ops1) /\
                     same_set ec1 (ec ++ concat (map d_errs ds)).
Proof.
  induction 1 as [|o d ops ds Ho HF IH].
  - exists 0. intros. simpl. rewrite !app_nil_r. eexists _, _. split; [reflexivity|apply same_set_refl].
  - destruct Ho as (Ht & o' & R & Hc & Hes). destruct IH as [n1 IH].
    destruct (drain_of_ReadsI _ _ _ _ R) as [n0 Hn].
    exists (n0 + n1). intros n k q ec done Hle Hk. simpl.
    rewrite Hn by lia. simpl. rewrite (do_close_closed _ Hc).
    destruct (IH n k (q ++ d_vals d) (ec ++ errs_of o') (done ++ [o'])) as (ec1 & ops1 & E & HS); [lia|lia|].
    exists ec1, ops1. split.
    + rewrite E. rewrite <- app_assoc. reflexivity.
    + eapply same_set_trans; [exact HS|]. rewrite <- app_assoc.
      apply same_set_app; [apply same_set_refl|]. apply same_set_app; [exact Hes|apply same_set_refl].
Qed.

Lemma chain_pop q ec ops : Reads (SChainP true q ec ops) q OEof (SChainP true [] ec ops).
Proof.
  induction q as [|x q IH].
  - apply Reads_end; [|exact I]. exists 1. reflexivity.
  - eapply Reads_val; [|exact IH]. exists 1. reflexivity.
Qed.

Lemma chain_reads ops ds : Forall2 spec_of ops ds ->
  exists ec1 ops1, Reads (SChainP false [] [] ops) (concat (map d_vals ds)) OEof (SChainP true [] ec1 ops1) /\
                   same_set ec1 (concat (map d_errs ds)).
Proof.
  intros HF. destruct (chain_run_spec _ _ HF) as [n0 Hn].
  destruct (Hn n0 n0 [] [] [] (le_n _) (le_n _)) as (ec1 & ops1 & E & HS). simpl in E, HS.
  exists ec1, ops1. split; [|exact HS].
  assert (E' : forall n, n0 <= n -> rd (S n) (SChainP false [] [] ops) =
              pop_q (fun q' => SChainP true q' ec1 ops1) (concat (map d_vals ds))).
  { intros n Hle. rewrite rd_S. cbn [rd_body].
    rewrite (chain_run_mono (rd n0) (rd n) (rd_mono n0 n Hle) n0 n Hle _ _ _ _ _ E). reflexivity. }
  destruct (concat (map d_vals ds)) as [|x q] eqn:Eq.
  - apply Reads_end; [|exact I]. exists (S n0). rewrite E' by lia. reflexivity.
  - eapply Reads_val; [|apply chain_pop]. exists (S n0). rewrite E' by lia. reflexivity.
Qed.
