(* Sequential facts about the WaitGroup model (counter arithmetic). *)
From FunV Require Import Base.Tac Conc.Monitor Model.WaitGroupModel.
Open Scope Z_scope.

Lemma wg_add_ok c n : 0 <= c + n -> wg_add c n = (c + n, RUnit, (c + n =? 0)).
Proof. intros H. unfold wg_add. destruct (Z.leb_spec 0 (c + n)); [reflexivity|lia]. Qed.

(* an Add that would make the counter negative panics, writes nothing and wakes nobody *)
Lemma wg_add_negative c n : c + n < 0 -> wg_add c n = (c, RPanic, false).
Proof. intros H. unfold wg_add. destruct (Z.leb_spec 0 (c + n)); [lia|reflexivity]. Qed.

Lemma wg_add_panics_iff c n : snd (fst (wg_add c n)) = RPanic <-> c + n < 0.
Proof. unfold wg_add. destruct (Z.leb_spec 0 (c + n)); simpl; split; intros; try lia; try discriminate; auto. Qed.

Lemma negative_add_panics_unchanged_seq c n :
  c + n < 0 -> wg_step c (WAdd n) = (c, RPanic) /\ add_body n c = (c, []).
Proof. intros H. unfold wg_step, add_body. rewrite (wg_add_negative c n H). auto. Qed.

Lemma wg_add_nonneg c n : 0 <= c -> 0 <= fst (fst (wg_add c n)).
Proof. intros H. unfold wg_add. destruct (Z.leb_spec 0 (c + n)); simpl; lia. Qed.

Lemma wg_step_counter c o :
  fst (wg_step c o) = c + match delta_of o, snd (wg_step c o) with Some n, RUnit => n | _, _ => 0 end.
Proof.
  destruct o; simpl; try lia; unfold wg_add;
    match goal with |- context [0 <=? ?x] => destruct (Z.leb_spec 0 x) end; simpl; lia.
Qed.

(* after any operation sequence, the counter is the start value plus the sum of the arguments of the
   Add/Inc/Done calls that completed without panicking *)
Lemma wg_run_counter_sum ops : forall c, fst (wg_run c ops) = c + sum_completed c ops.
Proof.
  induction ops as [|o r IH]; intros c; simpl; [lia|].
  destruct (wg_step c o) as [c1 x] eqn:E. specialize (IH c1).
  destruct (wg_run c1 r) as [c2 xs]. simpl in *.
  pose proof (wg_step_counter c o) as S. rewrite E in S. simpl in S. lia.
Qed.

Lemma wg_run_nonneg ops : forall c, 0 <= c -> 0 <= fst (wg_run c ops).
Proof.
  induction ops as [|o r IH]; intros c H; simpl; [lia|].
  destruct (wg_step c o) as [c1 x] eqn:E. specialize (IH c1).
  destruct (wg_run c1 r) as [c2 xs]. simpl in *. apply IH.
  replace c1 with (fst (wg_step c o)) by (rewrite E; reflexivity).
  rewrite wg_step_counter.
  destruct o; simpl; try lia; unfold wg_add;
    match goal with |- context [0 <=? ?x] => destruct (Z.leb_spec 0 x) end; simpl; lia.
Qed.

(* try-form Wait: returns by itself exactly when the counter is zero *)
Lemma wg_wait_try c : snd (wg_step c WWait) = RReturned <-> c = 0.
Proof. simpl. destruct (Z.eqb_spec c 0); split; intros; try discriminate; auto; contradiction. Qed.

Example wg_run_example :
  wg_run 0 [WAdd 2; WDone; WWait; WAdd (-2); WNum; WDone; WWait; WIsDone]
  = (0, [RUnit; RUnit; RBlocked; RPanic; RNum 1; RUnit; RReturned; RBool true]).
Proof. reflexivity. Qed.
