(* The C06 statements, proved from the refinement; non-vacuity examples; LockedObject instance. *)
From FunV Require Import Base.Tac Base.ListX Model.DequeHeap Proofs.DequeHeap_ring Proofs.DequeHeap_refine.
From FunV Require Conc.LockedObject.
From Coq Require Import PrimFloat.
Local Open Scope Z_scope.

(* a state reachable from a deque built by NewDeque with valid options, by any operation list *)
Definition reach (d : deque) : Prop :=
  exists o d0 ops, new_deque o = Some d0 /\ d = fst (run d0 ops).

Lemma reach_refines d : reach d -> exists s, refines d s /\ sinv s.
Proof.
  intros (o & d0 & ops & N & ->). destruct (deque_refines_run o d0 ops N) as (_ & R & S). eauto.
Qed.

Lemma reach_step d o : reach d -> reach (fst (step d o)).
Proof.
  intros (op & d0 & ops & N & ->). exists op, d0, (ops ++ [o]). split; [assumption|].
  clear N. revert d0. induction ops as [|x ops IH]; intros d0; simpl.
  - destruct (step d0 o); reflexivity.
  - destruct (step d0 x) as [d1 r]. specialize (IH d1).
    destruct (run d1 ops) as [d2 rs]. destruct (run d1 (ops ++ [o])) as [d3 rs']. simpl in *. assumption.
Qed.

(* ------------------------------------------------------------------ well-formedness, refinement *)

Lemma ring_wf_preserved o d0 ops : new_deque o = Some d0 -> exists l, wf (fst (run d0 ops)) l.
Proof. intros N. destruct (deque_refines_run o d0 ops N) as (_ & (l & W & _) & _). eauto. Qed.

Lemma refines_list o d0 ops : new_deque o = Some d0 ->
  let s0 := spec_of_tracker (trk d0) in
  snd (run d0 ops) = snd (s_run s0 ops) /\
  refines (fst (run d0 ops)) (fst (s_run s0 ops)) /\
  contents (fst (run d0 ops)) = items (fst (s_run s0 ops)) /\
  contents_bwd (fst (run d0 ops)) = rev (items (fst (s_run s0 ops))).
Proof.
  intros N s0. destruct (deque_refines_run o d0 ops N) as (A & B & _).
  split; [assumption|]. split; [assumption|].
  split; [apply contents_refines|apply contents_bwd_refines]; assumption.
Qed.

(* ------------------------------------------------------------------ Len <= capacity *)

Lemma hard_cap_add t : hard_cap (fst (t_add t)) = hard_cap t.
Proof.
  destruct t as [l|c l|sq hl l cr]; simpl; [reflexivity| |].
  - destruct (c <=? l); reflexivity.
  - destruct (sq <=? l); [destruct (l =? hl); [|destruct (PrimFloat.ltb cr 1)]|]; reflexivity.
Qed.

Lemma hard_cap_remove t : hard_cap (t_remove t) = hard_cap t.
Proof.
  destruct t as [l|c l|sq hl l cr]; simpl.
  - destruct (l =? 0); reflexivity.
  - destruct (l =? 0); reflexivity.
  - destruct (l - 1 <? sq); reflexivity.
Qed.

Lemma hard_cap_add_after d v a : hard_cap (trk (fst (add_after d v a))) = hard_cap (trk d).
Proof.
  unfold add_after. destruct (closed d); [reflexivity|].
  pose proof (hard_cap_add (trk d)) as H. destruct (t_add (trk d)) as [t' e]. simpl in H.
  destruct e; simpl; auto.
Qed.

Lemma hard_cap_pop d it : hard_cap (trk (fst (pop d it))) = hard_cap (trk d).
Proof. unfold pop. destruct (closed d || Nat.eqb it ROOT); simpl; [reflexivity|apply hard_cap_remove]. Qed.

Lemma hard_cap_step d o : hard_cap (trk (fst (step d o))) = hard_cap (trk d).
Proof.
  destruct o as [v|v| | |v|v| | |v|v| | ]; simpl.
  - pose proof (hard_cap_add_after d v ROOT). destruct (add_after d v ROOT); assumption.
  - pose proof (hard_cap_add_after d v (back_of d)). destruct (add_after d v (back_of d)); assumption.
  - pose proof (hard_cap_pop d (front_of d)). destruct (pop d (front_of d)); assumption.
  - pose proof (hard_cap_pop d (back_of d)). destruct (pop d (back_of d)); assumption.
  - set (d1 := if t_cap (trk d) =? t_len (trk d) then fst (pop d (back_of d)) else d).
    assert (hard_cap (trk d1) = hard_cap (trk d)).
    { unfold d1. destruct (t_cap (trk d) =? t_len (trk d)); [apply hard_cap_pop|reflexivity]. }
    pose proof (hard_cap_add_after d1 v ROOT). destruct (add_after d1 v ROOT). simpl in *. congruence.
  - set (d1 := if t_cap (trk d) =? t_len (trk d) then fst (pop d (front_of d)) else d).
    assert (hard_cap (trk d1) = hard_cap (trk d)).
    { unfold d1. destruct (t_cap (trk d) =? t_len (trk d)); [apply hard_cap_pop|reflexivity]. }
    pose proof (hard_cap_add_after d1 v (back_of d1)). destruct (add_after d1 v (back_of d1)). simpl in *. congruence.
  - unfold wait_pop. pose proof (hard_cap_pop d (front_of d)). destruct (pop d (front_of d)) as [d' [x|]]; simpl in *;
      [assumption|destruct (closed d); reflexivity].
  - unfold wait_pop. pose proof (hard_cap_pop d (back_of d)). destruct (pop d (back_of d)) as [d' [x|]]; simpl in *;
      [assumption|destruct (closed d); reflexivity].
  - unfold wait_push. destruct (t_len (trk d) <? t_cap (trk d)).
    + pose proof (hard_cap_add_after d v ROOT). destruct (add_after d v ROOT); assumption.
    + destruct (closed d); reflexivity.
  - unfold wait_push. destruct (t_len (trk d) <? t_cap (trk d)).
    + pose proof (hard_cap_add_after d v (back_of d)). destruct (add_after d v (back_of d)); assumption.
    + destruct (closed d); reflexivity.
  - reflexivity.
  - reflexivity.
Qed.

Lemma hard_cap_run ops : forall d, hard_cap (trk (fst (run d ops))) = hard_cap (trk d).
Proof.
  induction ops as [|o ops IH]; intros d; simpl; [reflexivity|].
  pose proof (hard_cap_step d o) as H. destruct (step d o) as [d1 r]. specialize (IH d1).
  destruct (run d1 ops) as [d2 rs]. simpl in *. congruence.
Qed.

(* Len() is exactly the number of items in the ring and never exceeds the fixed capacity
   (capacity of a fixed-capacity deque, hard limit of the queue-options tracker; none if unlimited) *)
Lemma len_le_capacity o d0 ops : new_deque o = Some d0 ->
  let d := fst (run d0 ops) in
  t_len (trk d) = Z.of_nat (length (contents d)) /\
  0 <= t_len (trk d) /\
  match hard_cap (trk d0) with Some c => t_len (trk d) <= c | None => True end.
Proof.
  intros N d. destruct (deque_refines_run o d0 ops N) as (_ & R & [TI TL]).
  fold d in R. rewrite (contents_refines _ _ R).
  destruct R as (l & _ & _ & T & _). rewrite T.
  split; [assumption|]. split; [lia|].
  rewrite <- (hard_cap_run ops d0). fold d. rewrite T. apply t_len_le_cap. assumption.
Qed.

(* ------------------------------------------------------------------ a failing push has no effect *)

Lemma add_after_fail_same d v a d' e : add_after d v a = (d', e) -> e <> ENil -> d' = d.
Proof.
  unfold add_after. destruct (closed d); [intros E _; inv E; reflexivity|].
  destruct (t_add (trk d)) as [t' e']. destruct e'; intros E N; inv E; congruence.
Qed.

Definition is_plain_push (o : op) : bool :=
  match o with PushFront _ | PushBack _ => true | _ => false end.

Lemma push_fail_no_effect d o d' e :
  is_plain_push o = true -> step d o = (d', RErr e) -> e <> ENil -> d' = d.
Proof.
  destruct o; try discriminate; intros _; simpl.
  - destruct (add_after d v ROOT) as [d1 e1] eqn:A. intros E N. inv E. eapply add_after_fail_same; eauto.
  - destruct (add_after d v (back_of d)) as [d1 e1] eqn:A. intros E N. inv E. eapply add_after_fail_same; eauto.
Qed.

(* ... and on a full open deque it does fail, with ErrQueueFull *)
Lemma push_full_fails d o c :
  reach d -> closed d = false -> hard_cap (trk d) = Some c -> t_len (trk d) = c ->
  is_plain_push o = true -> step d o = (d, RErr EFull).
Proof.
  intros Re Cl H L P. destruct (reach_refines d Re) as (s & (l & _ & _ & T & _) & [TI _]).
  rewrite <- T in TI.
  assert (A : t_add (trk d) = (trk d, EFull)).
  { destruct (trk d) as [l0|c0 l0|sq hl l0 cr]; simpl in *; [discriminate| |].
    - inversion H; subst. destruct (Z.leb_spec c c); [reflexivity|lia].
    - inversion H; subst. destruct (Z.leb_spec sq c); [|lia]. rewrite Z.eqb_refl. reflexivity. }
  destruct o; try discriminate; simpl; unfold add_after; rewrite Cl, A; reflexivity.
Qed.

(* ------------------------------------------------------------------ Force push *)

Lemma s_force_front s v : sinv s -> sclosed s = false -> t_cap (strk s) = t_len (strk s) ->
  items s <> [] /\
  exists t', s_step s (ForcePushFront v) = (mkSpec (v :: removelast (items s)) t' false, RErr ENil).
Proof.
  intros [TI TL] Cl E. destruct (t_force _ TI E) as (P & t' & A).
  assert (NE : items s <> []) by (intros Z; rewrite Z in TL; simpl in TL; lia).
  split; [assumption|]. exists t'. simpl. rewrite E, Z.eqb_refl. unfold s_pop. rewrite Cl.
  destruct (items s) as [|x tl] eqn:EI; [congruence|]. simpl. unfold s_push. simpl. rewrite A. reflexivity.
Qed.

Lemma s_force_back s v : sinv s -> sclosed s = false -> t_cap (strk s) = t_len (strk s) ->
  items s <> [] /\
  exists t', s_step s (ForcePushBack v) = (mkSpec (tl (items s) ++ [v]) t' false, RErr ENil).
Proof.
  intros [TI TL] Cl E. destruct (t_force _ TI E) as (P & t' & A).
  assert (NE : items s <> []) by (intros Z; rewrite Z in TL; simpl in TL; lia).
  split; [assumption|]. exists t'. simpl. rewrite E, Z.eqb_refl. unfold s_pop. rewrite Cl.
  destruct (items s) as [|x tl] eqn:EI; [congruence|]. simpl. unfold s_push. simpl. rewrite A. reflexivity.
Qed.

(* at capacity (cap() = len()) an open deque holds at least one item; ForcePushFront removes exactly
   the item at the back and adds v at the front, ForcePushBack removes exactly the item at the
   front and adds v at the back; both succeed and leave Len unchanged.  Below capacity a Force
   push is the plain push. *)
Lemma force_push_evicts d v :
  reach d -> closed d = false -> t_cap (trk d) = t_len (trk d) ->
  contents d <> [] /\
  (exists d', step d (ForcePushFront v) = (d', RErr ENil) /\
              contents d' = v :: removelast (contents d) /\ t_len (trk d') = t_len (trk d)) /\
  (exists d', step d (ForcePushBack v) = (d', RErr ENil) /\
              contents d' = tl (contents d) ++ [v] /\ t_len (trk d') = t_len (trk d)).
Proof.
  intros Re Cl E. destruct (reach_refines d Re) as (s & R & SI).
  pose proof (contents_refines _ _ R) as CE.
  assert (T : trk d = strk s) by (destruct R as (l & _ & _ & T & _); exact T).
  assert (C : sclosed s = false) by (destruct R as (l & _ & _ & _ & C); congruence).
  rewrite T in E.
  assert (LEN : forall d' s', refines d' s' -> sinv s' -> length (items s') = length (items s) ->
                              t_len (trk d') = t_len (trk d)).
  { intros d' s' (l' & _ & _ & T' & _) [_ TL'] EL. destruct SI as [_ TL]. rewrite T', T, TL', TL, EL. reflexivity. }
  destruct (s_force_front s v SI C E) as (NE & t1 & F1).
  destruct (s_force_back s v SI C E) as (_ & t2 & F2).
  rewrite CE. split; [assumption|]. split.
  - pose proof (step_sim d s (ForcePushFront v) R SI) as H. rewrite F1 in H.
    destruct (step d (ForcePushFront v)) as [d' r]. destruct H as (-> & R' & SI').
    exists d'. split; [reflexivity|]. split; [apply (contents_refines _ _ R')|].
    apply (LEN _ _ R' SI'). simpl.
    destruct (items s) as [|x tl]; [congruence|].
    destruct (exists_last (l:=x :: tl)) as (l0 & y & EQ); [discriminate|]. rewrite EQ, removelast_last, app_length. simpl. lia.
  - pose proof (step_sim d s (ForcePushBack v) R SI) as H. rewrite F2 in H.
    destruct (step d (ForcePushBack v)) as [d' r]. destruct H as (-> & R' & SI').
    exists d'. split; [reflexivity|]. split; [apply (contents_refines _ _ R')|].
    apply (LEN _ _ R' SI'). simpl.
    destruct (items s) as [|x tl]; [congruence|]. simpl. rewrite app_length. simpl. lia.
Qed.

Lemma force_push_below_capacity d v : t_cap (trk d) <> t_len (trk d) ->
  step d (ForcePushFront v) = step d (PushFront v) /\ step d (ForcePushBack v) = step d (PushBack v).
Proof.
  intros N. simpl. destruct (Z.eqb_spec (t_cap (trk d)) (t_len (trk d))); [contradiction|]. split; reflexivity.
Qed.

(* ------------------------------------------------------------------ pops return the item at the requested end *)

Lemma pop_returns_end d :
  reach d -> closed d = false ->
  match contents d with
  | [] => step d PopFront = (d, RPop None) /\ step d PopBack = (d, RPop None)
  | x :: r =>
      (exists d', step d PopFront = (d', RPop (Some x)) /\ contents d' = r) /\
      (exists d', step d PopBack = (d', RPop (Some (last (contents d) 0))) /\ contents d' = removelast (contents d))
  end.
Proof.
  intros Re Cl. destruct (reach_refines d Re) as (s & R & SI).
  pose proof (contents_refines _ _ R) as CE.
  assert (C : sclosed s = false) by (destruct R as (l & _ & _ & _ & C); congruence).
  pose proof (step_sim d s PopFront R SI) as HF. pose proof (step_sim d s PopBack R SI) as HB.
  simpl in HF, HB. unfold s_pop in HF, HB. rewrite C in HF, HB. rewrite CE.
  destruct (items s) as [|x tl] eqn:EI.
  - clear HF HB. destruct R as (l & [Rg B] & V & _). rewrite EI in V. destruct l; [|discriminate].
    simpl. unfold pop, front_of, back_of. rewrite Cl, (root_next _ _ Rg), (root_prev _ _ Rg). simpl. split; reflexivity.
  - split.
    + simpl. destruct (pop d (front_of d)) as [d' r]. destruct HF as (E & R' & _). rewrite E.
      exists d'. split; [reflexivity|]. apply (contents_refines _ _ R').
    + simpl step. destruct (pop d (back_of d)) as [d' r]. destruct HB as (E & R' & _). rewrite E.
      exists d'. split; [reflexivity|]. apply (contents_refines _ _ R').
Qed.

(* ------------------------------------------------------------------ closed *)

Definition closed_res (d : deque) (o : op) : res :=
  match o with
  | PushFront _ | PushBack _ | ForcePushFront _ | ForcePushBack _
  | WaitPushFront _ | WaitPushBack _ | WaitFront | WaitBack => RErr EClosed
  | PopFront | PopBack => RPop None
  | Len => RLen (t_len (trk d))
  | Close => RErr ENil
  end.

Lemma closed_step d o : closed d = true -> step d o = (d, closed_res d o).
Proof.
  intros C. destruct o; simpl; unfold wait_pop, wait_push, add_after, pop; rewrite ?C; simpl;
    try reflexivity.
  - destruct (t_cap (trk d) =? t_len (trk d)); simpl; rewrite C; reflexivity.
  - destruct (t_cap (trk d) =? t_len (trk d)); simpl; rewrite C; reflexivity.
  - destruct (t_len (trk d) <? t_cap (trk d)); reflexivity.
  - destruct (t_len (trk d) <? t_cap (trk d)); reflexivity.
  - destruct d; simpl in *; subst; reflexivity.
Qed.

(* once closed: every push fails with ErrQueueClosed, every pop reports not-ok, every Wait fails
   with ErrQueueClosed, and nothing changes - for every continuation *)
Lemma closed_all_fail_run d ops : closed d = true -> run d ops = (d, map (closed_res d) ops).
Proof.
  intros C. induction ops as [|o ops IH]; simpl; [reflexivity|].
  rewrite (closed_step d o C), IH. reflexivity.
Qed.

Lemma close_closes d : closed (fst (step d Close)) = true /\ contents (fst (step d Close)) = contents d
  /\ snd (step d Close) = RErr ENil.
Proof. simpl. auto. Qed.

(* ------------------------------------------------------------------ the monitor instance *)

Definition is_blocked (r : res) : bool := match r with RBlocked => true | _ => false end.
Definition cancelled : res := RErr ECtx.       (* the context error *)

Notation lo_run d0 := (LockedObject.run deque op res d0 step is_blocked cancelled).
Notation lo_legal := (LockedObject.legal deque op res step is_blocked cancelled).
Notation lo_legal_spec := (LockedObject.legal spec op res s_step is_blocked cancelled).

(* a legal sequence of the pointer-level model is a legal sequence of the abstract two-ended list *)
Lemma legal_refines d l d' : lo_legal d l d' ->
  forall s, refines d s -> sinv s -> exists s', lo_legal_spec s l s' /\ refines d' s' /\ sinv s'.
Proof.
  induction 1 as [d|d e l d1 d2 Hc Hs Hb Hl IH|d e l d2 Hc Hr Hl IH]; intros s R SI.
  - exists s. split; [constructor|auto].
  - pose proof (step_sim d s (LockedObject.le_op e) R SI) as H. rewrite Hs in H.
    destruct (s_step s (LockedObject.le_op e)) as [s1 r'] eqn:ES. destruct H as (Er & R1 & SI1).
    destruct (IH s1 R1 SI1) as (s' & L' & R' & SI').
    exists s'. split; [|auto]. eapply LockedObject.legal_op; eauto. rewrite ES, Er. reflexivity.
  - destruct (IH s R SI) as (s' & L' & R' & SI').
    exists s'. split; [|auto]. eapply LockedObject.legal_cancel; eauto.
Qed.

Lemma linearizable_spec o d0 tr c : new_deque o = Some d0 -> lo_run d0 tr = Some c ->
  exists s', lo_legal_spec (spec_of_tracker (trk d0)) (LockedObject.lin c) s' /\
             refines (LockedObject.st c) s' /\ contents (LockedObject.st c) = items s'.
Proof.
  intros N Rn. destruct (new_deque_refines _ _ N) as [R0 S0].
  pose proof (LockedObject.lo_linearizable _ _ _ d0 step is_blocked cancelled tr c Rn) as L.
  destruct (legal_refines _ _ _ (LockedObject.lz_legal _ _ _ _ _ _ _ _ _ L) _ R0 S0) as (s' & A & B & _).
  exists s'. split; [assumption|]. split; [assumption|]. apply contents_refines. assumption.
Qed.

(* ------------------------------------------------------------------ non-vacuity *)

Definition ex_opts : dopts := mkD false 2 None.
Definition ex_ops : list op :=
  [PushBack 1; PushBack 2; PushBack 3; ForcePushFront 4; WaitBack; Len; PopFront; WaitFront; Close; PushFront 5; PopBack].

Example ex_new : exists d0, new_deque ex_opts = Some d0.
Proof. vm_compute. eauto. Qed.

Example ex_run :
  match new_deque ex_opts with
  | Some d0 => snd (run d0 ex_ops) =
      [RErr ENil; RErr ENil; RErr EFull; RErr ENil; RGot 1; RLen 1; RPop (Some 4); RBlocked; RErr ENil; RErr EClosed; RPop None]
      /\ contents (fst (run d0 [PushBack 1; PushBack 2; ForcePushFront 4])) = [4; 1]
      /\ contents (fst (run d0 [PushBack 1; PushBack 2; ForcePushBack 4])) = [2; 4]
  | None => False
  end.
Proof. vm_compute. repeat split; reflexivity. Qed.

(* the hypotheses of force_push_evicts are satisfiable: a reachable, open, full deque *)
Example ex_full_reachable :
  exists d, reach d /\ closed d = false /\ t_cap (trk d) = t_len (trk d) /\ contents d = [1; 2].
Proof.
  exists (fst (run (make_deque (THard 2 0)) [PushBack 1; PushBack 2])).
  split.
  - exists ex_opts, (make_deque (THard 2 0)), [PushBack 1; PushBack 2]. split; reflexivity.
  - repeat split; vm_compute; reflexivity.
Qed.

(* quota tracker with burst credit: float arithmetic evaluates as in Go *)
Example ex_quota :
  match new_deque (mkD false 0 (Some (mkQ 2 0 0%float))) with
  | Some d0 => snd (run d0 [PushBack 1; PushBack 2; PopFront; PopFront; PushBack 3; WaitPushBack 4; PushBack 5; ForcePushBack 6; Len]) =
      [RErr ENil; RErr ENil; RPop (Some 1); RPop (Some 2); RErr ENil; RBlocked; RErr ENil; RErr ENil; RLen 2]
  | None => False
  end.
Proof. vm_compute. reflexivity. Qed.

(* a concurrent trace of the monitor: thread 0's WaitFront parks on the empty deque, thread 1
   pushes, thread 0 re-runs its critical section and takes the item; thread 2 gives up. *)
Example ex_trace :
  match new_deque ex_opts with
  | Some d0 =>
      match lo_run d0 [LockedObject.Inv 0%nat WaitFront; LockedObject.Crit 0%nat; LockedObject.Inv 1%nat (PushBack 7);
                       LockedObject.Inv 2%nat WaitBack; LockedObject.Crit 1%nat; LockedObject.Crit 0%nat;
                       LockedObject.Crit 2%nat; LockedObject.Cancel 2%nat; LockedObject.Ret 0%nat] with
      | Some c => map (fun e => (LockedObject.le_tid e, LockedObject.le_res e)) (LockedObject.lin c)
                  = [(1%nat, RErr ENil); (0%nat, RGot 7); (2%nat, RErr ECtx)]
      | None => False
      end
  | None => False
  end.
Proof. vm_compute. reflexivity. Qed.
