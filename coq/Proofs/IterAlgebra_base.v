(* C02 — fuel monotonicity, the big-step reading relation [Reads], and the generic lemmas about
   Iterator.ReadOne ([SIter]) and about the drain loops. *)
From FunV Require Import Base.Tac Model.IterAlgebra.

Arguments rd : simpl never.
Arguments do_close : simpl never.

Lemma rd_S n s : rd (S n) s = rd_body (rd n) n s.
Proof. reflexivity. Qed.

(* ------------------------------------------------------------------ monotonicity in the fuel *)

Definition le_fun (f g : st -> option (out * st)) : Prop := forall s r, f s = Some r -> g s = Some r.

Lemma drain_with_mono f g : le_fun f g ->
  forall k c acc r, drain_with f k c acc = Some r -> forall k', k <= k' -> drain_with g k' c acc = Some r.
Proof.
  intros Hfg. induction k as [|k IH]; simpl; intros c acc r H k' Hk; [discriminate|].
  destruct k' as [|k']; [lia|]. simpl.
  destruct (f c) as [[o c']|] eqn:E; [|discriminate]. rewrite (Hfg _ _ E).
  destruct o; auto; apply IH with (k' := k') in H; auto; lia.
Qed.

Lemma chain_run_mono f g : le_fun f g ->
  forall k k', k <= k' -> forall ops q ec done r,
    chain_run f k ops q ec done = Some r -> chain_run g k' ops q ec done = Some r.
Proof.
  intros Hfg k k' Hk. induction ops as [|o ops IH]; simpl; intros q ec done r H; [assumption|].
  destruct (drain_with f k o []) as [[[vs fin] o']|] eqn:E; [|discriminate].
  rewrite (drain_with_mono f g Hfg _ _ _ _ E k' Hk). auto.
Qed.

Lemma reduce_loop_mono f g : le_fun f g ->
  forall r k calls v s x, reduce_loop f r k calls v s = Some x ->
  forall k', k <= k' -> reduce_loop g r k' calls v s = Some x.
Proof.
  intros Hfg r. induction k as [|k IH]; simpl; intros calls v s x H k' Hk; [discriminate|].
  destruct k' as [|k']; [lia|]. simpl.
  destruct (f s) as [[o s']|] eqn:E; [|discriminate]. rewrite (Hfg _ _ E).
  destruct o; auto. destruct (r calls z v); auto; apply IH with (k' := k') in H; auto; lia.
Qed.

Ltac mono_tac Hfg :=
  repeat match goal with
  | H : match ?f ?c with _ => _ end = Some _ |- _ =>
      match type of (f c) with
      | option (out * st) =>
          let E := fresh "E" in
          destruct (f c) as [[? ?]|] eqn:E; [|discriminate H]; rewrite (Hfg _ _ E)
      end
  | H : match ?o with OVal _ => _ | _ => _ end = Some _ |- _ => destruct o
  | H : (if ?b then _ else _) = Some _ |- _ => destruct b
  end; auto.

Lemma rd_body_mono f g k k' : le_fun f g -> k <= k' -> le_fun (rd_body f k) (rd_body g k').
Proof.
  intros Hfg Hk s r H. destruct s; cbn [rd_body] in *; try assumption.
  - (* Filter *) mono_tac Hfg.
  - (* Transform *) mono_tac Hfg.
  - (* JoinP *) mono_tac Hfg.
  - (* Uniq *) mono_tac Hfg.
  - (* DropZero *) mono_tac Hfg.
  - (* Pipe *) destruct started; [assumption|].
    destruct (drain_with f k s []) as [[[vs fin] c']|] eqn:E; [|discriminate].
    rewrite (drain_with_mono f g Hfg _ _ _ _ E k' Hk). assumption.
  - (* Chain *) destruct started; [assumption|].
    destruct (chain_run f k ops [] [] []) as [[[q1 ec1] ops1]|] eqn:E; [|discriminate].
    rewrite (chain_run_mono f g Hfg k k' Hk _ _ _ _ _ E). assumption.
  - (* Flat *) destruct started; [assumption|].
    destruct (drain_with f k s []) as [[[vs fin] c']|] eqn:E; [|discriminate].
    rewrite (drain_with_mono f g Hfg _ _ _ _ E k' Hk). assumption.
  - (* Iter *) mono_tac Hfg.
Qed.

Lemma rd_mono_S n : le_fun (rd n) (rd (S n)).
Proof.
  induction n as [|n IH]; intros s r H; [discriminate|].
  rewrite rd_S in *. exact (rd_body_mono (rd n) (rd (S n)) n (S n) IH (Nat.le_succ_diag_r n) s r H).
Qed.

Lemma rd_mono n m : n <= m -> le_fun (rd n) (rd m).
Proof.
  induction 1 as [|m Hle IH]; intros s r H; [assumption|]. apply rd_mono_S. auto.
Qed.

(* ------------------------------------------------------------------ steps and reads *)

(* one producer call returns [o] and leaves state [s'] (for all sufficiently large fuel) *)
Definition Step (s : st) (o : out) (s' : st) : Prop := exists n, rd n s = Some (o, s').

Lemma step_ge s o s' : Step s o s' -> exists n0, forall n, n0 <= n -> rd n s = Some (o, s').
Proof. intros [n H]. exists n. intros m Hm. eapply rd_mono; eauto. Qed.

Lemma step_det s o1 s1 o2 s2 : Step s o1 s1 -> Step s o2 s2 -> o1 = o2 /\ s1 = s2.
Proof.
  intros [n H1] [m H2].
  assert (A : rd (n + m) s = Some (o1, s1)) by (eapply rd_mono; [|eauto]; lia).
  assert (B : rd (n + m) s = Some (o2, s2)) by (eapply rd_mono; [|eauto]; lia).
  rewrite A in B. inv B. auto.
Qed.

Definition stops (o : out) : Prop := match o with OVal _ | OSkip => False | _ => True end.
Definition term (o : out) : Prop := is_term o = true.

Lemma term_stops o : term o -> stops o.
Proof. destruct o; simpl; auto; discriminate. Qed.

(* Reading a producer to its end: the values returned with a nil error, in order (calls that return
   ErrIteratorSkip contribute nothing), then the first other outcome [o], leaving state [s']. *)
Inductive Reads : st -> list Z -> out -> st -> Prop :=
| Reads_end s o s' : Step s o s' -> stops o -> Reads s [] o s'
| Reads_val s v s1 vs o s' : Step s (OVal v) s1 -> Reads s1 vs o s' -> Reads s (v :: vs) o s'
| Reads_skip s s1 vs o s' : Step s OSkip s1 -> Reads s1 vs o s' -> Reads s vs o s'.

(* The same without skip steps: how an Iterator is read (ReadOne never returns ErrIteratorSkip). *)
Inductive ReadsI : st -> list Z -> out -> st -> Prop :=
| ReadsI_end s o s' : Step s o s' -> stops o -> ReadsI s [] o s'
| ReadsI_val s v s1 vs o s' : Step s (OVal v) s1 -> ReadsI s1 vs o s' -> ReadsI s (v :: vs) o s'.

Lemma ReadsI_Reads s vs o s' : ReadsI s vs o s' -> Reads s vs o s'.
Proof. induction 1; [apply Reads_end|eapply Reads_val]; eauto. Qed.

Lemma ReadsI_stops s vs o s' : ReadsI s vs o s' -> stops o.
Proof. induction 1; auto. Qed.

Lemma ReadsI_det s vs1 o1 s1 : ReadsI s vs1 o1 s1 -> forall vs2 o2 s2, ReadsI s vs2 o2 s2 -> vs1 = vs2 /\ o1 = o2 /\ s1 = s2.
Proof.
  induction 1 as [s o s' H Hs|s v sa vs o s' H HR IH]; intros vs2 o2 s2 R2; inv R2.
  - destruct (step_det _ _ _ _ _ H H0); subst; auto.
  - destruct (step_det _ _ _ _ _ H H0); subst. contradiction.
  - destruct (step_det _ _ _ _ _ H H0); subst. contradiction.
  - destruct (step_det _ _ _ _ _ H H0) as [E1 E2]. inv E1.
    destruct (IH _ _ _ H1) as (? & ? & ?); subst; auto.
Qed.

(* the drain loop computes exactly what ReadsI describes *)
Lemma drain_of_ReadsI s vs o s' : ReadsI s vs o s' ->
  exists n0, forall n k acc, n0 <= n -> n0 <= k -> drain_with (rd n) k s acc = Some (acc ++ vs, o, s').
Proof.
  induction 1 as [s o s' H Hs|s v sa vs o s' H HR IH].
  - destruct (step_ge _ _ _ H) as [n0 Hn]. exists (S n0). intros n k acc Hn1 Hk.
    destruct k as [|k]; [lia|]. simpl. rewrite Hn by lia. rewrite app_nil_r. destruct o; simpl in Hs; tauto.
  - destruct (step_ge _ _ _ H) as [n0 Hn]. destruct IH as [n1 IH].
    exists (S (n0 + n1)). intros n k acc Hn1 Hk.
    destruct k as [|k]; [lia|]. simpl. rewrite Hn by lia.
    rewrite IH by lia. rewrite <- app_assoc. reflexivity.
Qed.

(* ------------------------------------------------------------------ Iterator.ReadOne *)

Definition conv (o : out) : out := match o with OErr _ => OEof | _ => o end.
Definition coll (o : out) : list Z := match o with OErr e => [e] | _ => [] end.

Lemma do_close_closed s : is_closed s = true -> do_close s = s.
Proof. destruct s; simpl; try reflexivity. destruct closed; [reflexivity|discriminate]. Qed.

Lemma do_close_is_closed c es h p : is_closed (do_close (SIter c es h p)) = true.
Proof. destruct c; simpl; [reflexivity|]. destruct h; try reflexivity; destruct p; reflexivity. Qed.

Lemma do_close_idem s : do_close (do_close s) = do_close s.
Proof.
  destruct s; try reflexivity. apply do_close_closed. apply do_close_is_closed.
Qed.

(* a closed iterator returns io.EOF and does not change *)
Lemma closed_step s : is_closed s = true -> forall n, rd (S n) s = Some (OEof, s).
Proof.
  destruct s; simpl; try discriminate. intros -> n. reflexivity.
Qed.

(* ReadOne over a producer that is read as (vs, o): yields vs, then conv o; a plain error is collected. *)
Lemma iter_reads p vs o p' : Reads p vs o p' ->
  forall es h, ReadsI (SIter false es h p) vs (conv o) (do_close (SIter false (es ++ coll o) h p')).
Proof.
  induction 1 as [p o p' H Hs|p v pa vs o p' H HR IH|p pa vs o p' H HR IH]; intros es h.
  - destruct (step_ge _ _ _ H) as [n0 Hn]. apply ReadsI_end.
    + exists (S n0). rewrite rd_S. cbn [rd_body]. rewrite Hn by lia.
      destruct o; simpl in Hs; try tauto; simpl; rewrite ?app_nil_r; reflexivity.
    + destruct o; simpl in *; tauto.
  - destruct (step_ge _ _ _ H) as [n0 Hn]. eapply ReadsI_val; [|apply IH].
    exists (S n0). rewrite rd_S. cbn [rd_body]. rewrite Hn by lia. reflexivity.
  - (* the retry: ReadOne calls the operation again *)
    destruct (step_ge _ _ _ H) as [n0 Hn]. specialize (IH es h).
    inv IH.
    + destruct (step_ge _ _ _ H0) as [n1 Hn1]. apply ReadsI_end; [|assumption].
      exists (S (n0 + n1)). rewrite rd_S. cbn [rd_body]. rewrite Hn by lia. apply Hn1. lia.
    + destruct (step_ge _ _ _ H0) as [n1 Hn1]. eapply ReadsI_val; [|eassumption].
      exists (S (n0 + n1)). rewrite rd_S. cbn [rd_body]. rewrite Hn by lia. apply Hn1. lia.
Qed.

(* What an iterator is, as a sequence: the values it yields, the terminating error that ends it, the
   (set of) errors its Close reports; at the end it is closed. *)
Definition same_set (a b : list Z) : Prop := forall e, In e a <-> In e b.

Definition IterSpec (s : st) (vs : list Z) (fin : out) (es : list Z) : Prop :=
  term fin /\ exists s', ReadsI s vs fin s' /\ is_closed s' = true /\ same_set (errs_of s') es.

Lemma same_set_refl a : same_set a a.
Proof. intros e; tauto. Qed.

Lemma same_set_app a a' b b' : same_set a a' -> same_set b b' -> same_set (a ++ b) (a' ++ b').
Proof. intros H1 H2 e. rewrite !in_app_iff, (H1 e), (H2 e). tauto. Qed.

Lemma same_set_trans a b c : same_set a b -> same_set b c -> same_set a c.
Proof. intros H1 H2 e. rewrite (H1 e). apply H2. Qed.

Lemma same_set_sym a b : same_set a b -> same_set b a.
Proof. intros H e. symmetry. apply H. Qed.

Lemma same_set_dup a b : same_set ((a ++ a) ++ b) (a ++ b).
Proof. intros e. rewrite !in_app_iff. tauto. Qed.

(* after an iterator has returned an error it is closed *)
Lemma iter_step_closes n c es h p o s' :
  rd n (SIter c es h p) = Some (o, s') -> is_val o = false -> is_closed s' = true /\ o <> OSkip /\ term o.
Proof.
  revert c es h p o s'. induction n as [|n IH]; intros c es h p o s' H Hv; [discriminate|].
  rewrite rd_S in H. cbn [rd_body] in H. destruct c.
  - inv H. split; [reflexivity|]. split; [discriminate|reflexivity].
  - destruct (rd n p) as [[o1 p1]|] eqn:E; [|discriminate].
    destruct o1.
    + inv H. discriminate.
    + eapply IH; eauto.
    + injection H as <- <-. split; [apply do_close_is_closed|split; [discriminate|reflexivity]].
    + injection H as <- <-. split; [apply do_close_is_closed|split; [discriminate|reflexivity]].
    + injection H as <- <-. split; [apply do_close_is_closed|split; [discriminate|reflexivity]].
    + injection H as <- <-. split; [apply do_close_is_closed|split; [discriminate|reflexivity]].
Qed.
