(* The statements exported by Props/C16_stack.v, proved from the simulation in StackHeap_sim.v. *)
From FunV Require Import Base.Tac Model.StackHeap Proofs.StackHeap_ref Proofs.StackHeap_wf Proofs.StackHeap_sim.
Local Open Scope Z_scope.

(* ------------------------------------------------------------------ C16_stack *)

Definition C16_stack_statement_guarded : Prop :=
  forall eager ops, avoids_remove_head eager rsinit ops = true ->
    run eager init_sess ops = rrun eager rsinit ops.

Lemma C16_stack_proof : C16_stack_statement_guarded.
Proof. intros eager ops A. apply run_sim; [apply RS_init|exact A]. Qed.

(* the unrestricted statement, and its refutation by the known finding (Remove of the head item) *)
Definition C16_stack_statement : Prop :=
  forall eager ops, run eager init_sess ops = rrun eager rsinit ops.

Definition remove_head_witness : list op := [OPush 0 1; OPush 0 2; OHead 0; IRemove 0].

Lemma C16_item_remove_refuted_proof : ~ C16_stack_statement.
Proof.
  intros S. specialize (S true remove_head_witness). vm_compute in S. discriminate.
Qed.

(* what the model (= the code) shows after the witness: Len 1, but both 2 and 1 still on the walk, and the
   removed item is no longer In the stack *)
Example remove_head_witness_obs :
  last (run true init_sess remove_head_witness) (SObs RUnit [] []) =
  SObs (RBool true) [mkSobs [2; 1] [2; 1] 1; mkSobs [] [] 0] [(4, 2)].
Proof. vm_compute. reflexivity. Qed.

(* ------------------------------------------------------------------ observations of the reference are sequences by construction *)

Definition sobs_ok (eager : bool) (o : sobs) : Prop :=
  o_len o = Z.of_nat (length (o_iter o)) /\ (eager = true -> o_walk o = o_iter o).

Definition stepobs_ok (eager : bool) (so : stepobs) : Prop :=
  match so with SObs _ sts _ => Forall (sobs_ok eager) sts end.

Lemma robserve_stacks_ok eager : forall l r, Forall (sobs_ok eager) (snd (robserve_stacks eager r l)).
Proof.
  induction l as [|s l IH]; intros r; simpl; [constructor|].
  specialize (IH (if eager then r_init r s else r)).
  destruct (robserve_stacks eager (if eager then r_init r s else r) l) as (r2, os). simpl in *.
  constructor; [|exact IH]. split; simpl.
  - unfold r_values. now rewrite map_length.
  - intros ->. reflexivity.
Qed.

Lemma rrun_ok eager : forall ops rs, Forall (stepobs_ok eager) (rrun eager rs ops).
Proof.
  induction ops as [|o ops IH]; intros rs; simpl; [constructor|].
  destruct (rstep rs o) as [[rs1 x]| |]; try (constructor; [constructor|constructor]).
  unfold robserve. pose proof (robserve_stacks_ok eager (rstab rs1) (rsr rs1)) as OK.
  destruct (robserve_stacks eager (rsr rs1) (rstab rs1)) as (r1, os). simpl in *.
  constructor; [exact OK|apply IH].
Qed.

(* after every step of every guarded run of the MODEL: Head/Next walk = iterator output and Len = its length *)
Lemma C16_stack_walk_iter_len_proof : forall eager ops, avoids_remove_head eager rsinit ops = true ->
  Forall (stepobs_ok eager) (run eager init_sess ops).
Proof. intros eager ops A. rewrite (C16_stack_proof eager ops A). apply rrun_ok. Qed.

(* ------------------------------------------------------------------ In(s) is membership *)

Lemma in_iff_member_proof ss rs i s : RS ss rs ->
  (i_in (sw ss) (Some i) s = Ok true <-> (In i (rseq (rsr rs) s) \/ rsen (rsr rs) s = Some i)).
Proof.
  intros H. pose proof (rs_R _ _ H) as HR. unfold i_in.
  rewrite <- (wf_owner_iff _ _ _ (r_wf _ _ HR)).
  destruct (onat_eqb_spec (istack (items (sw ss) i)) (Some s)); split; congruence.
Qed.

(* ------------------------------------------------------------------ rejected operations *)

(* Item.Append either is rejected — nothing changes and the receiver comes back — or conses the argument on the
   receiver's stack; it is accepted exactly when the receiver belongs to a stack and the argument is a valid item
   that belongs to none *)
Lemma r_append_spec_proof r it n r' y : r_append r it n = Ok (r', y) ->
  (r' = r /\ y = it /\
     (n = None \/ (exists i, it = Some i /\ r_owner r i = None) \/
      (exists n', n = Some n' /\ (r_owner r n' <> None \/ rok r n' = false)))) \/
  (exists i s n', it = Some i /\ n = Some n' /\ r_owner r i = Some s /\ r_owner r n' = None /\ rok r n' = true /\
                  r' = r_cons r s n' /\ y = Some n').
Proof.
  unfold r_append. intros E. destruct n as [n'|]; [|inv E; left; auto].
  destruct it as [i|]; [|discriminate].
  destruct (r_owner r i) as [s|] eqn:Oi; [|inv E; left; split; [auto|split; [auto|right; left; eauto]]].
  destruct (r_owner r n') as [t|] eqn:On.
  - inv E. left. split; [auto|split; [auto|right; right; exists n'; split; [auto|left; congruence]]].
  - destruct (rok r n') eqn:K; simpl in E; inv E.
    + right. exists i, s, n'. auto 10.
    + left. split; [auto|split; [auto|right; right; exists n'; auto]].
Qed.

(* ------------------------------------------------------------------ the heap invariant on its own *)

Definition h_is_top (w : world) (i : nat) : bool :=
  match istack (items w i) with
  | Some s => onat_eqb (shead (stacks w s)) (Some i) && iok (items w i)
  | None => false
  end.

(* decidable on the model alone: the operation is not Remove of the item its stack's head points to, and not Detach *)
Definition avoids_remove_head_step (ss : sess) (o : op) : bool :=
  match o with
  | IRemove h => match handle ss h with Some i => negb (h_is_top (sw ss) i) | None => true end
  | IDetach _ => false
  | _ => true
  end.

Record WFsess (ss : sess) : Prop := {
  ws_wf : WFs (sw ss);
  ws_hlt : Forall (fun i => (i < ifresh (sw ss))%nat) (htab ss);
  ws_slt : Forall (fun s => (s < sfresh (sw ss))%nat) (stab ss);
  ws_s0 : (0 < sfresh (sw ss))%nat;
}.

Definition abs_of (w : world) (ch : nat -> list nat) (sn : nat -> option nat) : rstate :=
  mkR ch sn (fun x => ivalue (items w x)) (fun x => iok (items w x)) (fun x => inext (items w x)) (ifresh w) (sfresh w).

Lemma R_abs_of w ch sn : WF w ch sn -> R w (abs_of w ch sn).
Proof. intros W. constructor; simpl; auto. Qed.

Lemma is_top_sim w r i : R w r -> r_is_top r i = h_is_top w i.
Proof.
  intros HR. pose proof (r_wf _ _ HR) as W. unfold r_is_top, h_is_top. rewrite (owner_sim _ _ _ HR).
  destruct (istack (items w i)) as [s|] eqn:E; [|reflexivity].
  destruct (R_owner_init _ _ _ _ HR E) as (h & Hd). rewrite Hd.
  pose proof (wf_head_top _ _ _ W _ _ Hd) as T.
  destruct (rseq r s) as [|x l] eqn:L.
  - symmetry. apply andb_false_iff. destruct (onat_eqb_spec (Some h) (Some i)) as [Q|]; [right|now left].
    inv Q. symmetry in T. now apply (wf_sentinel _ _ _ W) in T.
  - inv T. destruct (Nat.eqb_spec x i) as [->|NE].
    + rewrite onat_eqb_refl. simpl. symmetry. apply (wf_member _ _ _ W s). rewrite L. now left.
    + destruct (onat_eqb_spec (Some x) (Some i)) as [Q|]; [congruence|reflexivity].
Qed.

Lemma stack_wf_preserved_proof ss o : WFsess ss -> avoids_remove_head_step ss o = true ->
  match step ss o with
  | Ok (ss', _) => WFsess ss'
  | Panic => True
  | Hang => False
  end.
Proof.
  intros [(ch & sn & W) HL SL S0] G.
  set (rs := mkRS (abs_of (sw ss) ch sn) (htab ss) (stab ss)).
  assert (H : RS ss rs) by (constructor; simpl; auto using R_abs_of).
  assert (G' : rguard rs o = true).
  { destruct o; simpl in *; auto. unfold rhandle, handle in *. simpl.
    destruct (h <? 0); [auto|]. destruct (nth_error (htab ss) (Z.to_nat h)) as [i|]; [|auto].
    now rewrite (is_top_sim _ _ i (R_abs_of _ _ _ W)). }
  pose proof (step_sim _ _ o H G') as SS.
  destruct (step ss o) as [[ss1 x]| |]; destruct (rstep rs o) as [[rs1 x']| |]; try contradiction; auto.
  destruct SS as (_ & H1). constructor; try apply H1.
  exists (rseq (rsr rs1)), (rsen (rsr rs1)). apply (r_wf _ _ (rs_R _ _ H1)).
Qed.

Lemma WFsess_init : WFsess init_sess.
Proof.
  constructor; simpl; auto; try (repeat constructor; fail).
  exists (fun _ => []), (fun _ => None). apply (r_wf _ _ R_init).
Qed.

(* a well-formed stack's length field is the number of items its iterator yields *)
Lemma wf_iter_len w s : WFs w -> exists l, s_iter w s = Ok l /\ s_len w s = Z.of_nat (length l).
Proof.
  intros (ch & sn & W). pose proof (R_abs_of _ _ _ W) as HR.
  exists (r_values (abs_of w ch sn) s). split; [apply (iter_sim _ _ s HR)|].
  rewrite (len_sim _ _ s HR). unfold r_values. now rewrite map_length.
Qed.

(* ... which is what Remove of the head item destroys (Len 1, two items on the chain) *)
Definition world_after (ops : list op) : world :=
  sw (fold_left (fun ss o => match step ss o with Ok (ss', _) => ss' | _ => ss end) ops init_sess).

Lemma stack_wf_lost_by_remove_head_proof : ~ WFs (world_after remove_head_witness).
Proof.
  intros W. destruct (wf_iter_len _ 0%nat W) as (l & E & L).
  vm_compute in E. inv E. vm_compute in L. discriminate.
Qed.

(* ------------------------------------------------------------------ non-vacuity *)

(* a guarded run that exercises: Pop on a zero-value stack, Push after it, a walk, Remove of a middle item,
   two rejected (argument in a stack; receiver in none) and an accepted Item.Append, JSON in both directions, PopIterator, Attach, a nil receiver *)
Definition demo_ops : list op :=
  [OPop 0; OPush 0 1; OPush 0 2; OPush 0 3; OHead 0; INext 1; IRemove 2; OWalk 0;
   OPush 1 7; OHead 1; IAppend 1 3; ONewItem 9; IAppend 2 4; IAppend 1 4; OMarshal 0; OUnmarshal 1 [5; 6];
   IAttach 3 (Some 0%nat); OPopIter 1; IRemove (-1); INext (-1)].

Example demo_guarded : avoids_remove_head true rsinit demo_ops = true /\ avoids_remove_head false rsinit demo_ops = true.
Proof. split; vm_compute; reflexivity. Qed.

Example demo_results :
  map (fun so => match so with SObs x _ _ => x end) (run false init_sess demo_ops) =
  [RItem 0; RUnit; RUnit; RUnit; RItem 1; RItem 2; RBool true; RList [3; 1];
   RUnit; RItem 3; RItem 1; RItem 4; RItem 2; RItem 4; RList [9; 3; 1]; RBool true;
   RBool true; RList [1; 3; 9; 5; 6; 7]; RBool false; RPanic].
Proof. vm_compute. reflexivity. Qed.

Fixpoint all_guarded (ss : sess) (ops : list op) : bool :=
  match ops with
  | [] => true
  | o :: ops' => avoids_remove_head_step ss o &&
                 all_guarded (match step ss o with Ok (ss', _) => ss' | _ => ss end) ops'
  end.

Lemma WFsess_fold ops : forall ss, WFsess ss -> all_guarded ss ops = true ->
  WFsess (fold_left (fun ss o => match step ss o with Ok (ss', _) => ss' | _ => ss end) ops ss).
Proof.
  induction ops as [|o ops IH]; intros ss W G; simpl in *; [exact W|].
  apply andb_true_iff in G. destruct G as (G1 & G2).
  pose proof (stack_wf_preserved_proof ss o W G1) as P.
  destruct (step ss o) as [[ss1 x]| |]; [apply IH; auto|apply IH; auto|contradiction].
Qed.

Example demo_wf : WFsess (fold_left (fun ss o => match step ss o with Ok (ss', _) => ss' | _ => ss end)
                                     demo_ops init_sess).
Proof. apply WFsess_fold; [apply WFsess_init|vm_compute; reflexivity]. Qed.
