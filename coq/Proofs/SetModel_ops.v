(* Simulation lemmas for the remaining operations of Model/SetModel.v. *)
From FunV Require Import Base.Tac Base.ListX Model.SetModel Proofs.SetModel_base Proofs.SetModel_inv.
Local Open Scope Z_scope.

Lemma h_del_absent m v : ~ In v (h_keys m) -> h_del m v = m.
Proof.
  intros N. unfold h_del. apply filter_all. intros [k e] Hin. simpl.
  destruct (Z.eqb_spec k v); [|reflexivity]. subst. exfalso. apply N. unfold h_keys. apply in_map_iff. exists (v, e). auto.
Qed.

Lemma st_remove_fst (st : store) (h : handle) :
  map fst (fst (st_remove st h)) = filter (fun x => negb (Z.eqb x h)) (map fst st).
Proof.
  unfold st_remove. cbn [fst].
  induction st as [|[h' k] st IH]; simpl; [reflexivity|]. destruct (Z.eqb h' h); simpl; [|f_equal]; exact IH.
Qed.

Lemma nodup_fst_inj (st : store) h a b : NoDup (map fst st) -> In (h, a) st -> In (h, b) st -> a = b.
Proof.
  induction st as [|[h' k'] st IH]; simpl; [tauto|].
  intros ND. inversion ND as [|? ? Hn ND']; subst. intros [E1|H1] [E2|H2].
  - congruence.
  - inv E1. exfalso. apply Hn. apply in_map_iff. exists (h, b). auto.
  - inv E2. exfalso. apply Hn. apply in_map_iff. exists (h, a). auto.
  - auto.
Qed.

(* ------------------------------------------------------------------ DeleteCheck *)
Lemma abs_del s r v :
  abs s r -> abs (fst (delete_check s v)) (fst (r_del r v)) /\ snd (delete_check s v) = snd (r_del r v).
Proof.
  intros A0. pose proof (abs_lock _ _ A0) as A. unfold delete_check, r_del.
  pose proof (abs_mem _ _ v A) as M. unfold h_check in M.
  set (s1 := s_lock s) in *. set (m := hm s1) in *.
  destruct A as ((Hs & Ok) & O & P & L). fold m in Hs, Ok, P.
  destruct (h_get m v) as [e|] eqn:G; rewrite <- M; cbn [fst snd]; (split; [|reflexivity]).
  - (* present *)
    assert (Pd : Permutation (h_keys (h_del m v)) (filter (fun x => negb (x =? v)) (r_elems r))).
    { rewrite h_keys_del. apply filter_perm, P. }
    destruct (s_list s1) as [st|] eqn:EL.
    + destruct Ok as (ND1 & ND2 & G1 & G2 & Fr).
      destruct (G1 v e G) as (h & -> & Hin).
      eapply abs_ordered_intro with (st := fst (st_remove st h)); cbn [s_hash s_list s_next s_mtx fst r_ordered r_elems]; auto.
      * unfold SetInv, hm; cbn [s_hash s_list s_next s_mtx]. split; [apply h_sorted_del, Hs|].
        unfold store_ok. repeat split.
        -- rewrite st_remove_fst. apply NoDup_filter, ND1.
        -- rewrite (st_remove_items' st h v ND1 ND2 Hin). apply NoDup_filter, ND2.
        -- intros k e0 E. destruct (Z.eq_dec k v) as [->|N]; [rewrite h_get_del_same in E; discriminate|].
           rewrite h_get_del_other in E by exact N. destruct (G1 k e0 E) as (h0 & -> & Hin0).
           exists h0. split; [reflexivity|]. apply st_remove_in. split; [exact Hin0|]. simpl. intros ->.
           apply N. eapply nodup_fst_inj; eauto.
        -- intros h0 k Hin0. apply st_remove_in in Hin0. destruct Hin0 as [Hin0 Nh]. simpl in Nh.
           assert (k <> v).
           { intros ->. apply Nh. pose proof (G2 _ _ Hin0) as E1. pose proof (G2 _ _ Hin) as E2. congruence. }
           rewrite h_get_del_other by assumption. apply G2, Hin0.
        -- intros h0 k Hin0. apply st_remove_in in Hin0. eapply Fr, Hin0.
      * unfold is_ordered in O. rewrite EL in O. auto.
      * rewrite (st_remove_items' st h v ND1 ND2 Hin). rewrite L. reflexivity.
    + assert (E' : match e with Some _ => None | None => @None store end = None) by (destruct e; reflexivity).
      unfold abs, SetInv, is_ordered, hm; simpl.
      replace (match e with Some _ => None | None => None end) with (@None store) by (destruct e; reflexivity).
      split; [split; [apply h_sorted_del, Hs|exact I]|].
      split; [unfold is_ordered in O; rewrite EL in O; exact O|]. split; [exact Pd|exact I].
  - (* absent: the deferred delete removes nothing *)
    assert (Nk : ~ In v (h_keys m)) by (apply h_get_none_notin; exact G).
    rewrite (h_del_absent m v Nk).
    unfold abs, SetInv, is_ordered, hm; simpl. fold m. unfold is_ordered in O. tauto.
Qed.

(* ------------------------------------------------------------------ Check / Len / Populate / Synchronize *)
Lemma abs_check s r v : abs s r -> abs (fst (check s v)) r /\ snd (check s v) = r_mem r v.
Proof.
  intros A. pose proof (abs_lock _ _ A) as A1. unfold check. cbn [fst snd]. split; [exact A1|apply abs_mem, A1].
Qed.

Lemma abs_len_op s r : abs s r -> abs (fst (len s)) r /\ snd (len s) = r_len r.
Proof.
  intros A. pose proof (abs_lock _ _ A) as A1. unfold len. cbn [fst snd]. split; [exact A1|apply abs_len, A1].
Qed.

Lemma abs_populate vs : forall s r, abs s r -> abs (populate s vs) (r_populate r vs).
Proof.
  induction vs as [|v vs IH]; intros s r A; [exact A|].
  unfold populate, r_populate. simpl. apply IH. apply abs_add, A.
Qed.

Lemma abs_synchronize s r l : abs s r -> abs (synchronize s l) r.
Proof. unfold abs, SetInv, is_ordered, synchronize, hm. simpl. tauto. Qed.

Lemma abs_with_lock s r l : abs s r -> abs (fst (with_lock s l)) r.
Proof.
  unfold with_lock. destruct (Z.eqb l 0); [auto|]. destruct (mtx_set (s_mtx s) l) as [m ok].
  unfold abs, SetInv, is_ordered, hm. simpl. tauto.
Qed.

Lemma abs_unmarshal items : forall s r, abs s r ->
  abs (fst (unmarshal s items)) (fst (r_unmarshal r items)) /\ snd (unmarshal s items) = snd (r_unmarshal r items).
Proof.
  induction items as [|[v|] items IH]; intros s r A; simpl; auto.
  apply IH. apply abs_add, A.
Qed.

(* ------------------------------------------------------------------ Order *)
Lemma keys_nil m : h_keys m = [] -> m = [].
Proof. destruct m; [reflexivity|discriminate]. Qed.

Lemma abs_order s r :
  abs s r -> abs (fst (order s)) (fst (r_order r)) /\ snd (order s) = snd (r_order r).
Proof.
  intros A0. pose proof (abs_lock _ _ A0) as A. unfold order, r_order.
  pose proof (abs_len _ _ A) as Len. set (s1 := s_lock s) in *.
  destruct A as ((Hs & Ok) & O & P & L). unfold is_ordered in O.
  destruct (s_list s1) as [st|] eqn:EL; rewrite <- O.
  - cbn [fst snd]. split; [|reflexivity]. unfold abs, SetInv, is_ordered. rewrite EL. tauto.
  - rewrite Len. unfold r_len. destruct (r_elems r) as [|x xs] eqn:ER; cbn [length Z.of_nat Z.eqb fst snd].
    + split; [|reflexivity].
      assert (Hm : hm s1 = []) by (apply keys_nil; apply Permutation_nil; symmetry; exact P).
      eapply abs_ordered_intro with (st := []); cbn [s_list r_ordered r_elems]; auto.
      unfold SetInv. cbn [s_list s_next].
      change (hm (mkSet (s_hash s1) (Some []) (s_next s1) (s_mtx s1))) with (hm s1). rewrite Hm. split; [exact I|].
      unfold store_ok. simpl. repeat split; try constructor; try tauto. intros; discriminate.
    + split; [|destruct (Z.of_nat (length (x :: xs))) eqn:E; [simpl in E; lia|reflexivity|reflexivity]].
      destruct (Z.of_nat (length (x :: xs)) =? 0) eqn:E; [apply Z.eqb_eq in E; simpl in E; lia|].
      cbn [fst]. unfold abs, SetInv, is_ordered. rewrite EL, ER. tauto.
Qed.

(* ------------------------------------------------------------------ Sort *)
Lemma store_ok_perm_store m st st' nx : Permutation st' st -> store_ok m st nx -> store_ok m st' nx.
Proof.
  intros P (ND1 & ND2 & G1 & G2 & Fr). unfold store_ok. repeat split.
  - eapply Permutation_NoDup; [symmetry; apply Permutation_map, P|exact ND1].
  - eapply Permutation_NoDup; [symmetry; apply Permutation_map, P|exact ND2].
  - intros k e E. destruct (G1 k e E) as (h & -> & Hin). exists h. split; [reflexivity|].
    eapply Permutation_in; [symmetry; exact P|exact Hin].
  - intros h k Hin. apply G2. eapply Permutation_in; eauto.
  - intros h k Hin. eapply Fr. eapply Permutation_in; eauto.
Qed.

Lemma force_fill_spec ks : forall m st nx m' st' nx',
  force_fill ks m st nx = (m', st', nx') ->
  h_sorted m -> NoDup (st_items st ++ ks) -> (forall k, In k ks -> In k (h_keys m)) ->
  NoDup (map fst st) -> (forall h k, In (h, k) st -> h < nx) ->
  (forall h k, In (h, k) st -> h_get m k = Some (Some h)) ->
  h_sorted m' /\ h_keys m' = h_keys m /\ st_items st' = st_items st ++ ks /\
  NoDup (map fst st') /\ (forall h k, In (h, k) st' -> h < nx') /\
  (forall h k, In (h, k) st' -> h_get m' k = Some (Some h)).
Proof.
  induction ks as [|k ks IH]; intros m st nx m' st' nx' E Hs ND Hk ND1 Fr G2; simpl in E.
  - inv E. rewrite app_nil_r. auto 10.
  - apply IH in E.
    + destruct E as (A & B & C & D & F & G). repeat split; auto.
      * rewrite B. apply h_keys_set_present; [exact Hs|apply Hk; left; reflexivity].
      * rewrite C, st_items_push, <- app_assoc. reflexivity.
    + apply h_sorted_set, Hs.
    + rewrite st_items_push, <- app_assoc. exact ND.
    + intros k' Hin. rewrite h_keys_set_present; [apply Hk; right; exact Hin|exact Hs|apply Hk; left; reflexivity].
    + unfold st_push_back. rewrite map_app. simpl. apply nodup_snoc; [exact ND1|].
      intros Hin. apply in_map_iff in Hin. destruct Hin as ([h k'] & E' & Hin). simpl in E'. subst.
      specialize (Fr _ _ Hin). lia.
    + intros h k' Hin. unfold st_push_back in Hin. apply in_app_or in Hin. destruct Hin as [Hin|[E'|[]]].
      * specialize (Fr _ _ Hin). lia.
      * inv E'. lia.
    + intros h k' Hin. unfold st_push_back in Hin. apply in_app_or in Hin. destruct Hin as [Hin|[E'|[]]].
      * assert (k' <> k).
        { intros ->. apply NoDup_remove_2 in ND. apply ND. apply in_or_app. left.
          unfold st_items. apply in_map_iff. exists (h, k). auto. }
        rewrite h_get_set_other by assumption. apply G2, Hin.
      * inv E'. apply h_get_set_same.
Qed.

Lemma abs_sort lt choice s r :
  abs s r ->
  match sort lt choice s, r_sort lt choice r with
  | Some s', Some r' => abs s' r'
  | None, None => True
  | _, _ => False
  end.
Proof.
  intros A0. pose proof (abs_lock _ _ A0) as A. unfold sort, r_sort.
  set (s1 := s_lock s) in *. destruct A as ((Hs & Ok) & O & P & L). unfold is_ordered in O.
  destruct (s_list s1) as [st|] eqn:EL; rewrite <- O.
  - eapply abs_ordered_intro with (st := st_sort lt st); cbn [s_list r_ordered r_elems]; auto.
    + unfold SetInv, hm. cbn [s_hash s_list s_next]. fold (hm s1). split; [exact Hs|].
      eapply store_ok_perm_store; [apply st_sort_perm|exact Ok].
    + rewrite st_sort_items, L. reflexivity.
  - rewrite (perm_b_congr choice _ _ P). destruct (perm_b choice (r_elems r)) eqn:PB; [|exact I].
    apply perm_b_spec in PB.
    assert (PK : Permutation choice (h_keys (hm s1))) by (etransitivity; [exact PB|symmetry; exact P]).
    destruct (force_fill choice (hm s1) [] (s_next s1)) as [[m' st'] nx'] eqn:FF.
    apply force_fill_spec in FF; simpl; auto.
    + destruct FF as (A & B & C & D & F & G). simpl in C.
      assert (Ok' : store_ok m' st' nx').
      { unfold store_ok. repeat split; auto.
        - rewrite C. eapply Permutation_NoDup; [symmetry; exact PK|apply h_sorted_nodup, Hs].
        - intros k e E.
          assert (Hin : In k (st_items st')).
          { rewrite C. eapply Permutation_in; [symmetry; exact PK|]. rewrite <- B. apply h_get_in. congruence. }
          unfold st_items in Hin. apply in_map_iff in Hin. destruct Hin as ([h k'] & E' & Hin). simpl in E'. subst.
          exists h. split; [|exact Hin]. rewrite (G _ _ Hin) in E. congruence. }
      eapply abs_ordered_intro with (st := st_sort lt st'); cbn [s_list r_ordered r_elems]; auto.
      * unfold SetInv, hm. cbn [s_hash s_list s_next]. split; [exact A|].
        eapply store_ok_perm_store; [apply st_sort_perm|exact Ok'].
      * rewrite st_sort_items, C. reflexivity.
    + eapply Permutation_NoDup; [symmetry; exact PK|apply h_sorted_nodup, Hs].
    + intros k Hin. eapply Permutation_in; eauto.
    + constructor.
    + intros h k [].
    + intros h k [].
Qed.

(* ------------------------------------------------------------------ Iterator *)
Lemma abs_iterate s r choice : abs s r -> iterate s choice = (s_lock s, r_iterate r choice).
Proof.
  intros A0. pose proof (abs_lock _ _ A0) as A. unfold iterate, r_iterate.
  destruct A as (_ & O & P & L). unfold is_ordered in O.
  destruct (s_list (s_lock s)) as [st|]; rewrite <- O; [rewrite L; reflexivity|].
  rewrite (perm_b_congr choice _ _ P). reflexivity.
Qed.

Lemma abs_iter_canon s r : abs s r ->
  Permutation (iter_canon s) (r_elems r) /\ (r_ordered r = true -> iter_canon s = r_elems r).
Proof.
  intros (I & O & P & L). unfold iter_canon, is_ordered in *. destruct (s_list s) as [st|].
  - rewrite L. split; [reflexivity|reflexivity].
  - split; [exact P|]. intros E. congruence.
Qed.

(* ------------------------------------------------------------------ Equal *)
Lemma eq_walk_spec a : forall b, length a = length b -> (eq_walk a b = true <-> a = b).
Proof.
  induction a as [|x a IH]; intros [|y b] Hl; simpl in *; try discriminate; [tauto|].
  destruct (Z.eqb_spec x y).
  - subst. rewrite IH by lia. split; [intros ->; reflexivity|intros E; inv E; reflexivity].
  - split; [discriminate|intros E; inv E; contradiction].
Qed.

Lemma abs_equal s o r ro :
  abs s r -> abs o ro -> equal s o = (s_lock s, s_lock o, r_equal r ro).
Proof.
  intros A0 B0. pose proof (abs_lock _ _ A0) as A. pose proof (abs_lock _ _ B0) as B.
  unfold equal, r_equal. rewrite (abs_len _ _ A), (abs_len _ _ B).
  pose proof (abs_nodup _ _ A) as NDa. pose proof (abs_nodup _ _ B) as NDb.
  destruct A as (_ & Oa & Pa & La). destruct B as (_ & Ob & Pb & Lb).
  rewrite Oa, Ob. unfold is_ordered in Oa, Ob. unfold r_len.
  destruct (Bool.eqb (r_ordered r) (r_ordered ro)) eqn:EO.
  2:{ rewrite orb_true_r. reflexivity. }
  apply Bool.eqb_prop in EO. rewrite <- EO in Ob. simpl negb at 2. rewrite orb_false_r. simpl andb.
  destruct (Z.of_nat (length (r_elems r)) =? Z.of_nat (length (r_elems ro))) eqn:EL; simpl.
  - apply Z.eqb_eq in EL. apply Nat2Z.inj in EL.
    destruct (s_list (s_lock s)) as [a|], (s_list (s_lock o)) as [b|]; rewrite <- Oa in *; try discriminate.
    + rewrite La, Lb. f_equal. apply bool_eq_iff. rewrite eq_walk_spec by exact EL.
      destruct (list_eq_dec Z.eq_dec (r_elems r) (r_elems ro)); intuition congruence.
    + f_equal. apply bool_eq_iff. rewrite perm_b_spec, forallb_forall. split.
      * intros H. apply NoDup_Permutation_bis; [exact NDa|lia|].
        intros x Hx. assert (Hk : In x (h_keys (hm (s_lock s)))) by (eapply Permutation_in; [symmetry; exact Pa|exact Hx]).
        specialize (H x Hk). apply h_check_in in H. eapply Permutation_in; eauto.
      * intros Pm x Hx. apply h_check_in. eapply Permutation_in; [symmetry; exact Pb|].
        eapply Permutation_in; [exact Pm|]. eapply Permutation_in; eauto.
  - f_equal. symmetry. apply Z.eqb_neq in EL.
    destruct (r_ordered r).
    + destruct (list_eq_dec Z.eq_dec (r_elems r) (r_elems ro)) as [E|]; [rewrite E in EL; contradiction|reflexivity].
    + destruct (perm_b (r_elems r) (r_elems ro)) eqn:PB; [|reflexivity].
      apply perm_b_spec, Permutation_length in PB. rewrite PB in EL. contradiction.
Qed.
