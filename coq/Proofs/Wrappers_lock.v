(* C15 — Lock / WithLock: mutual exclusion in every reachable state of the lock net. *)
From FunV Require Import Base.Tac Model.LaunchNet.
Local Open Scope Z_scope.

Lemma upd_same {A} (f : Z -> A) t a : upd f t a t = a.
Proof. unfold upd. now rewrite Z.eqb_refl. Qed.

Lemma upd_other {A} (f : Z -> A) t a x : x <> t -> upd f t a x = f x.
Proof. unfold upd. intros H. apply Z.eqb_neq in H. now rewrite H. Qed.

(* invariant: a thread is inside the wrapped function iff it holds the mutex *)
Definition minv (s : mstate) : Prop := forall t, m_pc s t = MIn <-> m_mtx s = Some t.

Lemma minv_init : minv minit.
Proof. intros t; simpl; split; discriminate. Qed.

Lemma minv_step s l s' : minv s -> mstep_exec s l = Some s' -> minv s'.
Proof.
  intros I H. destruct l as [t|t|t]; simpl in H.
  - destruct (m_pc s t) eqn:E; inv H; intros x; simpl;
      (destruct (Z.eq_dec x t) as [->|N]; [rewrite upd_same; split; [discriminate|]; intros M; apply I in M; congruence
                                         | rewrite upd_other by exact N; apply I]).
  - destruct (m_pc s t) eqn:E; try discriminate. destruct (m_mtx s) eqn:M; inv H.
    intros x; simpl. destruct (Z.eq_dec x t) as [->|N].
    + rewrite upd_same. tauto.
    + rewrite upd_other by exact N. split.
      * intros X. apply I in X. congruence.
      * intros X. inv X. congruence.
  - destruct (m_pc s t) eqn:E; inv H.
    intros x; simpl. destruct (Z.eq_dec x t) as [->|N].
    + rewrite upd_same. split; discriminate.
    + rewrite upd_other by exact N. split; [|discriminate].
      intros X. apply I in X. apply I in E. congruence.
Qed.

Lemma minv_reach s : mreach s -> minv s.
Proof. induction 1; eauto using minv_init, minv_step. Qed.

Theorem lock_mutual_exclusion_proof :
  forall s, mreach s -> forall t1 t2, m_pc s t1 = MIn -> m_pc s t2 = MIn -> t1 = t2.
Proof.
  intros s R t1 t2 H1 H2. apply minv_reach in R.
  apply R in H1. apply R in H2. congruence.
Qed.

(* non-vacuity: a state with a thread inside is reachable, and a second thread can get in after it left *)
Example lock_nonvacuous :
  exists s, mreach s /\ m_pc s 2 = MIn /\ m_pc s 1 = MOut /\ m_execs s = 2%nat.
Proof.
  eexists. split.
  - eapply mreach_step with (l := MAcquire 2).
    eapply mreach_step with (l := MRelease 1).
    eapply mreach_step with (l := MCall 2).
    eapply mreach_step with (l := MAcquire 1).
    eapply mreach_step with (l := MCall 1).
    apply mreach_init. all: reflexivity.
  - repeat split.
Qed.
