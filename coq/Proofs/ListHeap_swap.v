(* Known finding #1 on the faithful model: a successful Element.Swap corrupts the ring. *)
From FunV Require Import Base.Tac Model.SortSpec Model.ListHeap.
Local Open Scope Z_scope.

(* [1;2;3;4]; handles: element 1 is node 1, 2 is node 2, ... (node 0 is the sentinel of list 0) *)
Definition swap_witness_ops : list op :=
  [OPushBack 0 1; OPushBack 0 2; OPushBack 0 3; OPushBack 0 4; OSwap (Some 2%nat) (Some 3%nat)].

Fixpoint run_ops (ops : list op) (w : world) : option world :=
  match ops with
  | [] => Some w
  | o :: ops' => match step o w with Ret _ w' => run_ops ops' w' | _ => None end
  end.

Definition walks_agree (w : world) (l : nat) : Prop := fwd_vals w l = rev (bwd_vals w l).

Lemma swap_breaks_walks :
  exists w, run_ops swap_witness_ops empty_world = Some w /\
            fwd_vals w 0 = [1; 3; 4] /\ bwd_vals w 0 = [4; 3; 2; 2; 1] /\ llen (lists w 0) = 4 /\
            ~ walks_agree w 0.
Proof.
  eexists. split; [vm_compute; reflexivity|].
  repeat split; try (vm_compute; reflexivity).
  unfold walks_agree. vm_compute. discriminate.
Qed.
