(* C15 — Limit (limitExec and Operation.Limit) and Once, sequential, over ALL scripts, n and call counts. *)
From FunV Require Import Base.Tac Model.Wrappers Proofs.Wrappers_retry.
Local Open Scope Z_scope.

Definition is_pan (r : result) : bool := match r with Pan _ => true | Ret _ _ => false end.
Definition is_ret (r : result) : bool := negb (is_pan r).
Definition count_pan (rs : list result) : nat := length (filter is_pan rs).
Definition count_ret (rs : list result) : nat := length (filter is_ret rs).
(* the most recent result that is not a panic (d if there is none) *)
Definition last_ret (rs : list result) (d : result) : result := last (filter is_ret rs) d.

Lemma count_pan_ret rs : (count_pan rs + count_ret rs = length rs)%nat.
Proof.
  unfold count_pan, count_ret, is_ret. induction rs as [|r rs IH]; simpl; [reflexivity|].
  destruct (is_pan r); simpl; lia.
Qed.

Lemma last_cons_indep {A} (a : A) l d d' : last (a :: l) d = last (a :: l) d'.
Proof. revert a. induction l as [|b l IH]; intros a; [reflexivity|]. cbn [last]. apply IH. Qed.

Lemma last_ret_cons_ret v e rs d : last_ret (Ret v e :: rs) d = last_ret rs (Ret v e).
Proof.
  unfold last_ret. cbn [filter is_ret is_pan negb].
  destruct (filter is_ret rs) eqn:E; [reflexivity|]. cbn [last]. apply last_cons_indep.
Qed.

Lemma last_ret_cons_pan p rs d : last_ret (Pan p :: rs) d = last_ret rs d.
Proof. reflexivity. Qed.

Lemma set_call_log i w : wlog (set_call i w) = wlog w. Proof. reflexivity. Qed.
Lemma set_call_call i w : wcall (set_call i w) = i. Proof. reflexivity. Qed.

Lemma run_limit_exec n f cnt cv ce s w :
  run (FLimitExec n f) (SLimit cnt cv ce s) w =
  if cnt =? n then (Ret cv ce, SLimit cnt cv ce s, w)
  else if cnt <? n then
    match run f s w with
    | (Ret v e, s', w') => (Ret v e, SLimit (Z.min n (cnt + 1)) v e s', w')
    | (Pan p, s', w') => (Pan p, SLimit cnt cv ce s', w')
    end
  else (Ret cv ce, SLimit cnt cv ce s, w).
Proof. reflexivity. Qed.

Definition outcome_panics (o : outcome) : bool := match o with OPanic _ => true | _ => false end.

Lemma outcome_result_pan k o : is_pan (outcome_result k o) = outcome_panics o.
Proof. destruct o; simpl; try reflexivity; destruct k; reflexivity. Qed.

(* ------------------------------------------------------------------ limitExec over a scripted function *)
Section LimitExec.
Variables (k : kind) (id : Z) (sc : list outcome) (n : Z).
Hypothesis Hn : 0 < n.
Let F := FLimitExec n (FBase k id sc).

Lemma limit_calls : forall c cnt cv ce rest w i d,
  0 <= cnt <= n -> (cnt = 0 \/ Ret cv ce = d) ->
  exists rs cnt' cv' ce' rest' w',
    run_calls F (SLimit cnt cv ce (SBase rest)) w i c = (rs, SLimit cnt' cv' ce' (SBase rest'), w') /\
    length rs = c /\
    cnt' = Z.min n (cnt + Z.of_nat (count_ret rs)) /\
    invocations id (wlog w') = invocations id (wlog w) + (cnt' - cnt) + Z.of_nat (count_pan rs) /\
    (cnt' = 0 \/ Ret cv' ce' = last_ret rs d) /\
    (* nothing but the function's own panics reaches the caller *)
    (forallb (fun o => negb (outcome_panics o)) rest = true -> count_pan rs = 0%nat) /\
    (* once n executions have completed nothing changes any more *)
    (cnt = n -> rs = repeat (Ret cv ce) c /\ rest' = rest /\ wlog w' = wlog w /\ cv' = cv /\ ce' = ce).
Proof.
  induction c as [|c IH]; intros cnt cv ce rest w i d Hc Hd.
  - exists [], cnt, cv, ce, rest, w. cbn. repeat split; try lia; try tauto.
  - cbn [run_calls]. unfold F in *. rewrite run_limit_exec.
    destruct (cnt =? n) eqn:En.
    + (* the fast path *)
      apply Z.eqb_eq in En.
      destruct (IH cnt cv ce rest (set_call i w) (i + 1) (Ret cv ce)) as (rs & cnt' & cv' & ce' & rest' & w' & E & L & C & I & LR & NP & ST); [lia|now right|].
      rewrite E. exists (Ret cv ce :: rs), cnt', cv', ce', rest', w'.
      destruct (ST En) as (S1 & S2 & S3 & S4 & S5).
      split; [reflexivity|]. split; [simpl; lia|].
      unfold count_ret, count_pan in *. cbn [filter is_ret is_pan negb length].
      split; [lia|]. split; [rewrite I, set_call_log; lia|].
      split; [right; rewrite last_ret_cons_ret; destruct LR as [Z0|LR]; [lia|exact LR]|].
      split; [exact NP|]. intros _. rewrite S1, S2, S3, S4, S5. repeat split; reflexivity.
    + apply Z.eqb_neq in En. assert (Lt : cnt <? n = true) by (apply Z.ltb_lt; lia). rewrite Lt.
      rewrite run_base. set (o := head_outcome rest).
      fold (base_world id o (set_call i w)).
      destruct (outcome_result k o) as [v e|p] eqn:R.
      * (* an execution that returns: cached, counted *)
        destruct (IH (Z.min n (cnt + 1)) v e (tl rest) (base_world id o (set_call i w)) (i + 1) (Ret v e))
          as (rs & cnt' & cv' & ce' & rest' & w' & E & L & C & I & LR & NP & ST); [lia|now right|].
        rewrite E. exists (Ret v e :: rs), cnt', cv', ce', rest', w'.
        split; [reflexivity|]. split; [simpl; lia|].
        unfold count_ret, count_pan in *. cbn [filter is_ret is_pan negb length].
        split; [lia|].
        split; [rewrite I, base_world_log, set_call_log, invocations_cons_same; lia|].
        split; [rewrite last_ret_cons_ret; exact LR|].
        split; [|intros X; lia].
        intros Hnp. apply NP. destruct rest; [reflexivity|]. simpl in Hnp. apply andb_prop in Hnp. tauto.
      * (* an execution that panics: counter and cache untouched *)
        destruct (IH cnt cv ce (tl rest) (base_world id o (set_call i w)) (i + 1) d)
          as (rs & cnt' & cv' & ce' & rest' & w' & E & L & C & I & LR & NP & ST); [lia|exact Hd|].
        rewrite E. exists (Pan p :: rs), cnt', cv', ce', rest', w'.
        split; [reflexivity|]. split; [simpl; lia|].
        unfold count_ret, count_pan in *. cbn [filter is_ret is_pan negb length].
        split; [lia|].
        split; [rewrite I, base_world_log, set_call_log, invocations_cons_same; lia|].
        split; [rewrite last_ret_cons_pan; exact LR|].
        split; [|intros X; lia].
        intros Hnp. exfalso.
        assert (P : is_pan (outcome_result k o) = true) by (rewrite R; reflexivity).
        rewrite outcome_result_pan in P. subst o. destruct rest; [discriminate|].
        simpl in Hnp, P. rewrite P in Hnp. discriminate.
Qed.

(* Limit(n) executes the function min(n, calls) times; an execution that panics is not counted
   against the limit (limitExec bumps its counter only after op has returned) *)
Theorem limit_exec_runs c :
  let '(rs, _, w) := run_calls F (init F) w0 0 c in
  invocations id (wlog w) = Z.min n (Z.of_nat c - Z.of_nat (count_pan rs)) + Z.of_nat (count_pan rs)
  /\ (forallb (fun o => negb (outcome_panics o)) sc = true -> invocations id (wlog w) = Z.min n (Z.of_nat c)).
Proof.
  destruct (limit_calls c 0 0 [] sc w0 0 (Ret 0 [])) as (rs & cnt' & cv' & ce' & rest' & w' & E & L & C & I & LR & NP & ST); [lia|now left|].
  unfold F in *. cbn [init]. rewrite E.
  pose proof (count_pan_ret rs) as CPR.
  assert (X : invocations id (wlog w') = Z.min n (Z.of_nat c - Z.of_nat (count_pan rs)) + Z.of_nat (count_pan rs)).
  { rewrite I. simpl wlog. unfold invocations at 1. simpl. lia. }
  split; [exact X|]. intros Hnp. rewrite X, (NP Hnp). lia.
Qed.

(* ... and thereafter returns the last result: once n executions have completed, every further
   call returns the result of the last (the n-th) completed execution, and nothing runs *)
Theorem limit_exec_last_result c1 c2 :
  let '(rs1, s1, w1) := run_calls F (init F) w0 0 c1 in
  n <= Z.of_nat (count_ret rs1) ->
  let '(rs2, s2, w2) := run_calls F s1 w1 (Z.of_nat c1) c2 in
  rs2 = repeat (last_ret rs1 (Ret 0 [])) c2 /\ s2 = s1 /\ wlog w2 = wlog w1.
Proof.
  destruct (limit_calls c1 0 0 [] sc w0 0 (Ret 0 [])) as (rs & cnt' & cv' & ce' & rest' & w' & E & L & C & I & LR & NP & ST); [lia|now left|].
  unfold F in *. cbn [init]. rewrite E. intros Hge.
  assert (Cn : cnt' = n) by lia.
  destruct (limit_calls c2 cnt' cv' ce' rest' w' (Z.of_nat c1) (Ret cv' ce')) as (rs2 & cnt2 & cv2 & ce2 & rest2 & w2 & E2 & L2 & C2 & I2 & LR2 & NP2 & ST2); [lia|now right|].
  unfold F in E2. rewrite E2. destruct (ST2 Cn) as (S1 & S2 & S3 & S4 & S5).
  destruct LR as [Z0|LR]; [lia|].
  split; [rewrite S1, LR; reflexivity|]. split; [|exact S3].
  rewrite S2, S4, S5. f_equal. lia.
Qed.
End LimitExec.

(* ------------------------------------------------------------------ limitExec over an ARBITRARY wrapped stack f (all stackings) *)
Lemma last_cons_default {A} (a : A) l d : last (a :: l) d = last l a.
Proof. destruct l; [reflexivity|]. cbn [last]. apply last_cons_indep. Qed.

Lemma limit_full_calls n f cv ce s : forall c w i,
  exists w', run_calls (FLimitExec n f) (SLimit n cv ce s) w i c = (repeat (Ret cv ce) c, SLimit n cv ce s, w')
             /\ wlog w' = wlog w /\ wcancelled w' = wcancelled w.
Proof.
  induction c as [|c IH]; intros w i.
  - exists w. repeat split.
  - cbn [run_calls]. rewrite run_limit_exec, Z.eqb_refl. destruct (IH (set_call i w) (i + 1)) as (w' & E & L & C).
    rewrite E. exists w'. repeat split; assumption.
Qed.

(* As long as the executions of f return (no panic reaches the caller), c calls of Limit(n) over f execute f exactly
   min(c, n - cnt) times — f's state, the order log and the context afterwards are those of that many direct calls of f —
   the callers see f's results, and every later caller sees the last of them. *)
Lemma limit_general_calls n f : 0 < n -> forall c cnt cv ce s w i,
  0 <= cnt <= n ->
  let b := Z.to_nat (n - cnt) in
  forall rs_in s_in w_in,
  run_calls f s w i (Nat.min c b) = (rs_in, s_in, w_in) ->
  Forall (fun r => is_pan r = false) rs_in ->
  exists cv' ce' w',
    run_calls (FLimitExec n f) (SLimit cnt cv ce s) w i c
      = (rs_in ++ repeat (last rs_in (Ret cv ce)) (c - b), SLimit (Z.min n (cnt + Z.of_nat c)) cv' ce' s_in, w')
    /\ wlog w' = wlog w_in /\ wcancelled w' = wcancelled w_in /\ Ret cv' ce' = last rs_in (Ret cv ce).
Proof.
  intros Hn. induction c as [|c IH]; intros cnt cv ce s w i Hc b rs_in s_in w_in E NP.
  - cbn in E. inv E. cbn. exists cv, ce, w_in. replace (Z.min n (cnt + 0)) with cnt by lia. repeat split.
  - destruct (Z.eq_dec cnt n) as [->|Ne].
    + (* limit already reached: nothing runs *)
      assert (B0 : b = 0%nat) by (subst b; lia). rewrite B0 in *. rewrite Nat.min_0_r in E. cbn in E. inv E.
      destruct (limit_full_calls n f cv ce s_in (S c) w_in i) as (w' & E & L & C). rewrite E.
      exists cv, ce, w'. replace (Z.min n (n + Z.of_nat (S c))) with n by lia. cbn [app last]. rewrite Nat.sub_0_r.
      repeat split; assumption.
    + assert (Bs : b = S (Z.to_nat (n - (cnt + 1)))) by (subst b; lia).
      rewrite Bs in *. cbn [Nat.min] in E. change (Nat.min (S c) (S ?x)) with (S (Nat.min c x)) in E.
      cbn [run_calls] in E |- *. rewrite run_limit_exec.
      assert (X1 : cnt =? n = false) by (apply Z.eqb_neq; exact Ne). assert (X2 : cnt <? n = true) by (apply Z.ltb_lt; lia).
      rewrite X1, X2.
      destruct (run f s (set_call i w)) as [[r s1] w1] eqn:R.
      destruct (run_calls f s1 w1 (i + 1) (Nat.min c (Z.to_nat (n - (cnt + 1))))) as [[rs' s'] w''] eqn:E'.
      inv E. inv NP. destruct r as [v e|p]; [|discriminate].
      destruct (IH (Z.min n (cnt + 1)) v e s1 w1 (i + 1)) with (rs_in := rs') (s_in := s_in) (w_in := w_in)
        as (cv' & ce' & w' & E2 & L & C & LR); try lia.
      { replace (Z.min n (cnt + 1)) with (cnt + 1) by lia. exact E'. }
      { assumption. }
      rewrite E2. exists cv', ce', w'.
      replace (n - Z.min n (cnt + 1)) with (n - (cnt + 1)) by lia.
      replace (Z.min n (Z.min n (cnt + 1) + Z.of_nat c)) with (Z.min n (cnt + Z.of_nat (S c))) by lia.
      rewrite last_cons_default. cbn [app]. replace (S c - S (Z.to_nat (n - (cnt + 1))))%nat with (c - Z.to_nat (n - (cnt + 1)))%nat by lia.
      repeat split; assumption.
Qed.

Theorem limit_general n f c s w i : 0 < n ->
  forall rs_in s_in w_in,
  run_calls f s w i (Nat.min c (Z.to_nat n)) = (rs_in, s_in, w_in) ->
  Forall (fun r => is_pan r = false) rs_in ->
  exists cv' ce' w',
    run_calls (FLimitExec n f) (SLimit 0 0 [] s) w i c
      = (rs_in ++ repeat (last rs_in (Ret 0 [])) (c - Z.to_nat n), SLimit (Z.min n (Z.of_nat c)) cv' ce' s_in, w')
    /\ wlog w' = wlog w_in /\ wcancelled w' = wcancelled w_in.
Proof.
  intros Hn rs_in s_in w_in E NP.
  destruct (limit_general_calls n f Hn c 0 0 [] s w i) with (rs_in := rs_in) (s_in := s_in) (w_in := w_in)
    as (cv' & ce' & w' & E2 & L & C & _); try lia; try assumption.
  { replace (n - 0) with n by lia. exact E. }
  exists cv', ce', w'. replace (n - 0) with n in E2 by lia. cbn [Z.add] in E2. repeat split; assumption.
Qed.

Example limit_over_retry_example :
  observe (FLimitExec 2 (FRetryW 2 (FBase KWorker 1 [OErr 0 1; OOk 0; OErr 0 2; OErr 0 3; OOk 0]))) 4
  = ([Ret 0 []; Ret 0 [LErr 3; LErr 2]; Ret 0 [LErr 3; LErr 2]; Ret 0 [LErr 3; LErr 2]], [(1, 0); (1, 0); (1, 1); (1, 1)]).
Proof. reflexivity. Qed.

(* ------------------------------------------------------------------ Operation.Limit (CAS counter) *)
Lemma run_limit_cas n f cnt s w :
  run (FLimitCAS n f) (SCnt cnt s) w =
  if n <=? cnt then (Ret 0 [], SCnt cnt s, w)
  else match run f s w with
       | (Ret _ _, s', w') => (Ret 0 [], SCnt (cnt + 1) s', w')
       | (Pan p, s', w') => (Pan p, SCnt (cnt + 1) s', w')
       end.
Proof. reflexivity. Qed.

Lemma limit_cas_calls k id sc n : forall c cnt rest w i,
  0 <= cnt <= n ->
  exists rs cnt' rest' w',
    run_calls (FLimitCAS n (FBase k id sc)) (SCnt cnt (SBase rest)) w i c = (rs, SCnt cnt' (SBase rest'), w') /\
    cnt' = Z.min n (cnt + Z.of_nat c) /\
    invocations id (wlog w') = invocations id (wlog w) + (cnt' - cnt).
Proof.
  induction c as [|c IH]; intros cnt rest w i Hc.
  - exists [], cnt, rest, w. cbn. repeat split; lia.
  - cbn [run_calls]. rewrite run_limit_cas. destruct (n <=? cnt) eqn:Le.
    + apply Z.leb_le in Le.
      destruct (IH cnt rest (set_call i w) (i + 1)) as (rs & cnt' & rest' & w' & E & C & I); [lia|].
      rewrite E. eexists _, cnt', rest', w'. split; [reflexivity|]. split; [lia|]. rewrite I, set_call_log. lia.
    + apply Z.leb_gt in Le. rewrite run_base.
      fold (base_world id (head_outcome rest) (set_call i w)).
      destruct (IH (cnt + 1) (tl rest) (base_world id (head_outcome rest) (set_call i w)) (i + 1)) as (rs & cnt' & rest' & w' & E & C & I); [lia|].
      destruct (outcome_result k (head_outcome rest)); rewrite E; eexists _, cnt', rest', w';
        (split; [reflexivity|]; split; [lia|]; rewrite I, base_world_log, set_call_log, invocations_cons_same; lia).
Qed.

(* Operation.Limit(n) starts the operation exactly min(n, calls) times, for every script (a panicking run is counted) *)
Theorem limit_cas_runs k id sc n c : 0 < n ->
  let F := FLimitCAS n (FBase k id sc) in
  let '(_, _, w) := run_calls F (init F) w0 0 c in
  invocations id (wlog w) = Z.min n (Z.of_nat c).
Proof.
  intros Hn F. destruct (limit_cas_calls k id sc n c 0 sc w0 0) as (rs & cnt' & rest' & w' & E & C & I); [lia|].
  unfold F. cbn [init]. rewrite E, I. simpl wlog. unfold invocations at 1. simpl. lia.
Qed.

(* ------------------------------------------------------------------ Once, over an ARBITRARY wrapped stack f *)
Lemma run_once f done cv ce s w :
  run (FOnce f) (SOnce done cv ce s) w =
  if done then (Ret cv ce, SOnce true cv ce s, w)
  else match run f s w with
       | (Ret v e, s', w') => (Ret v e, SOnce true v e s', w')
       | (Pan p, s', w') => (Pan p, SOnce true cv ce s', w')
       end.
Proof. reflexivity. Qed.

Lemma once_done_calls f cv ce s : forall c w i,
  exists w', run_calls (FOnce f) (SOnce true cv ce s) w i c = (repeat (Ret cv ce) c, SOnce true cv ce s, w')
             /\ wlog w' = wlog w /\ wcancelled w' = wcancelled w.
Proof.
  induction c as [|c IH]; intros w i.
  - exists w. repeat split.
  - cbn [run_calls]. rewrite run_once. destruct (IH (set_call i w) (i + 1)) as (w' & E & L & C).
    rewrite E. exists w'. repeat split; assumption.
Qed.

(* what later callers see of the single execution: its result, or the zero value if it panicked (sync.Once) *)
Definition once_cached (r : result) : result := match r with Ret v e => Ret v e | Pan _ => Ret 0 [] end.

(* f is executed by the first call and by no other; every later caller sees that execution's result *)
Theorem once_general f s w i c :
  let '(r, s1, w1) := run f s (set_call i w) in
  exists w' cv ce,
    run_calls (FOnce f) (SOnce false 0 [] s) w i (S c) = (r :: repeat (once_cached r) c, SOnce true cv ce s1, w')
    /\ wlog w' = wlog w1 /\ wcancelled w' = wcancelled w1.
Proof.
  destruct (run f s (set_call i w)) as [[r s1] w1] eqn:R.
  cbn [run_calls]. rewrite run_once, R. destruct r as [v e|p].
  - destruct (once_done_calls f v e s1 c w1 (i + 1)) as (w' & E & L & C). rewrite E. exists w', v, e. repeat split; assumption.
  - destruct (once_done_calls f 0 [] s1 c w1 (i + 1)) as (w' & E & L & C). rewrite E. exists w', 0, []. repeat split; assumption.
Qed.

(* over a scripted function: it executes min(1, calls) times, the first caller sees what it produced, all others the same
   (the zero value if it panicked) *)
Theorem once_base k id sc c :
  let F := FOnce (FBase k id sc) in
  let '(rs, _, w) := run_calls F (init F) w0 0 c in
  invocations id (wlog w) = Z.min 1 (Z.of_nat c) /\
  rs = match c with
       | O => []
       | S c' => outcome_result k (head_outcome sc) :: repeat (once_cached (outcome_result k (head_outcome sc))) c'
       end.
Proof.
  intros F. destruct c as [|c].
  - cbn. split; reflexivity.
  - unfold F. cbn [init]. pose proof (once_general (FBase k id sc) (SBase sc) w0 0 c) as G.
    rewrite run_base in G. destruct G as (w' & cv & ce & E & L & _). rewrite E. split; [|reflexivity].
    rewrite L. fold (base_world id (head_outcome sc) (set_call 0 w0)). rewrite base_world_log.
    rewrite invocations_cons_same. cbn [wlog set_call w0]. unfold invocations. cbn [filter length]. lia.
Qed.

(* ------------------------------------------------------------------ non-vacuity *)
Example limit_example :
  observe (FLimitExec 2 (FBase KWorker 1 [OErr 0 1; OErr 0 2; OErr 0 3])) 5
  = ([Ret 0 [LErr 1]; Ret 0 [LErr 2]; Ret 0 [LErr 2]; Ret 0 [LErr 2]; Ret 0 [LErr 2]], [(1, 0); (1, 1)]).
Proof. reflexivity. Qed.

(* a panicking execution is not counted by limitExec (3 executions for n = 2), but is by Operation.Limit *)
Example limit_example_panic :
  observe (FLimitExec 2 (FBase KWorker 1 [OPanic 7; OErr 0 2; OErr 0 3; OErr 0 4])) 4
  = ([Pan 7; Ret 0 [LErr 2]; Ret 0 [LErr 3]; Ret 0 [LErr 3]], [(1, 0); (1, 1); (1, 2)])
  /\ observe (FLimitCAS 2 (FBase KOperation 1 [OPanic 7; OOk 0; OOk 0])) 4
  = ([Pan 7; Ret 0 []; Ret 0 []; Ret 0 []], [(1, 0); (1, 1)]).
Proof. split; reflexivity. Qed.

Example once_example :
  observe (FOnce (FBase KProducer 1 [OErr 4 1; OOk 5])) 3 = ([Ret 4 [LErr 1]; Ret 4 [LErr 1]; Ret 4 [LErr 1]], [(1, 0)])
  /\ observe (FOnce (FBase KWorker 1 [OPanic 2; OErr 0 1])) 3 = ([Pan 2; Ret 0 []; Ret 0 []], [(1, 0)]).
Proof. split; reflexivity. Qed.
