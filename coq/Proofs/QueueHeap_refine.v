(* Refinement: the pointer-level queue (entries, links, front sentinel, back) implements the abstract
   FIFO specification, for every operation and hence for every operation list. *)
From FunV Require Import Base.Tac Model.QueueHeap Proofs.QueueHeap_tracker Proofs.QueueHeap_spec.
Local Open Scope Z_scope.

(* the entries after p are exactly addrs, in link order, and the last one has a nil link *)
Fixpoint chain (h : heap) (p : nat) (addrs : list nat) : Prop :=
  match addrs with
  | [] => link (h p) = None
  | a :: rest => link (h p) = Some a /\ chain h a rest
  end.

(* representation invariant with its witness: the queued entries, oldest first *)
Definition repr (q : queue) (addrs : list nat) : Prop :=
  chain (qheap q) (front q) addrs /\
  back q = last addrs (front q) /\
  NoDup (front q :: addrs) /\
  Forall (fun a => (a < nalloc q)%nat) (front q :: addrs).

Definition wfq (q : queue) : Prop := exists addrs, repr q addrs.

Lemma hupd_same h a e : hupd h a e a = e.
Proof. unfold hupd. rewrite Nat.eqb_refl. reflexivity. Qed.

Lemma hupd_other h a e b : b <> a -> hupd h a e b = h b.
Proof. unfold hupd. intros. destruct (Nat.eqb_spec b a); congruence. Qed.

Lemma last_cons_default {A} (a : A) rest p : last (a :: rest) p = last rest a.
Proof.
  revert a p. induction rest as [|b rest IH]; intros a p; [reflexivity|].
  change (last (a :: b :: rest) p) with (last (b :: rest) p).
  rewrite (IH b p), (IH b a). reflexivity.
Qed.

Lemma last_in {A} (rest : list A) a : In (last rest a) (a :: rest).
Proof.
  revert a. induction rest as [|b rest IH]; intros a; [left; reflexivity|].
  rewrite last_cons_default. right. apply IH.
Qed.

Lemma NoDup_app_snoc {A} (l : list A) e : NoDup l -> ~ In e l -> NoDup (l ++ [e]).
Proof.
  induction 1 as [|x l Hx ND IH]; intros NI; simpl.
  - constructor; [intros []|constructor].
  - constructor.
    + intros X. apply in_app_or in X. destruct X as [X|[X|[]]]; [contradiction|]. apply NI. left. symmetry. assumption.
    + apply IH. intros X. apply NI. right. assumption.
Qed.

Lemma chain_ext h h' addrs : forall p,
  (forall x, In x (p :: addrs) -> link (h' x) = link (h x)) -> chain h p addrs -> chain h' p addrs.
Proof.
  induction addrs as [|a rest IH]; intros p E C; simpl in *.
  - rewrite E by auto. assumption.
  - destruct C as [C1 C2]. split; [rewrite E by auto; assumption|].
    apply IH; [|assumption]. intros x Hx. apply E. right. assumption.
Qed.

(* appending a fresh entry e behind the last one: exactly doAdd's three writes *)
Lemma chain_snoc h v e addrs : forall p,
  chain h p addrs -> NoDup (p :: addrs) -> ~ In e (p :: addrs) ->
  let h1 := hupd h e (mkEnt v None) in
  let b := last addrs p in
  chain (hupd h1 b (set_link (h1 b) (Some e))) p (addrs ++ [e]).
Proof.
  induction addrs as [|a rest IH]; intros p C ND NI; simpl in *.
  - split.
    + rewrite hupd_same. reflexivity.
    + rewrite hupd_other by (intros X; apply NI; auto). rewrite hupd_same. reflexivity.
  - destruct C as [C1 C2]. inv ND. rename H1 into Np. rename H2 into ND'.
    pose proof (last_in rest a) as Lin.
    assert (Eb : match rest with [] => a | _ :: _ => last rest p end = last rest a).
    { pose proof (last_cons_default a rest p) as X. simpl in X. exact X. }
    rewrite Eb. split.
    + rewrite hupd_other.
      * rewrite hupd_other by (intros X; apply NI; auto). assumption.
      * intros X. apply Np. rewrite X. assumption.
    + apply IH; [assumption|assumption|]. intros X. apply NI. right. assumption.
Qed.

Lemma walk_chain h addrs : forall p fuel, chain h p addrs -> (length addrs <= fuel)%nat ->
  walk h fuel p = map (fun a => item (h a)) addrs.
Proof.
  induction addrs as [|a rest IH]; intros p fuel C L; simpl in *.
  - destruct fuel; [reflexivity|]. simpl. rewrite C. reflexivity.
  - destruct C as [C1 C2]. destruct fuel; [lia|]. simpl. rewrite C1. f_equal. apply IH; [assumption|lia].
Qed.

Lemma bounded_nodup_length (l : list nat) n : NoDup l -> Forall (fun a => (a < n)%nat) l -> (length l <= n)%nat.
Proof.
  intros ND F. rewrite <- (seq_length n 0). apply NoDup_incl_length; [assumption|].
  intros x Hx. rewrite Forall_forall in F. apply in_seq. specialize (F x Hx). lia.
Qed.

Lemma contents_repr q addrs : repr q addrs -> contents q = map (fun a => item (qheap q a)) addrs.
Proof.
  intros (C & B & ND & F). unfold contents. apply walk_chain; [assumption|].
  pose proof (bounded_nodup_length _ _ ND F) as L. simpl in L. lia.
Qed.

Lemma make_queue_repr t : repr (make_queue t) [].
Proof.
  unfold repr; simpl. split; [reflexivity|]. split; [reflexivity|].
  split; [constructor; [intros []|constructor]|]. constructor; [lia|constructor].
Qed.

Lemma make_queue_wf t : wfq (make_queue t).
Proof. exists []. apply make_queue_repr. Qed.

Lemma make_queue_abs t : abs (make_queue t) = spec_init t.
Proof. reflexivity. Qed.

(* ---- doAdd *)

Lemma do_add_refines q v addrs : repr q addrs ->
  wfq (fst (do_add q v)) /\ s_add (abs q) v = (abs (fst (do_add q v)), RErr (snd (do_add q v))).
Proof.
  intros R. pose proof R as (C & B & ND & F).
  rewrite s_add_spec. unfold do_add. simpl sclosed. simpl strk.
  destruct (closed q) eqn:Cl.
  - simpl. split; [exists addrs; assumption|]. unfold abs. rewrite Cl. reflexivity.
  - pose proof (t_add_error_unchanged (trk q)) as U.
    destruct (t_add (trk q)) as [t' err] eqn:TA. simpl in U. simpl snd. simpl fst.
    assert (Keep : err <> ENil ->
              wfq (fst (set_trk q t', err)) /\
              (abs q, RErr err) = (abs (fst (set_trk q t', err)), RErr (snd (set_trk q t', err)))).
    { intros N. rewrite U by assumption. simpl. split; [exists addrs; destruct q; exact R|].
      destruct q; reflexivity. }
    destruct err; try (apply Keep; discriminate).
    (* success: three writes *)
    set (e := nalloc q).
    assert (NI : ~ In e (front q :: addrs)).
    { intros X. rewrite Forall_forall in F. specialize (F e X). unfold e in F. lia. }
    simpl fst. simpl snd.
    set (h1 := hupd (qheap q) e (mkEnt v None)).
    set (h2 := hupd h1 (back q) (set_link (h1 (back q)) (Some e))).
    assert (C2 : chain h2 (front q) (addrs ++ [e])).
    { unfold h2, h1. rewrite B. apply chain_snoc; assumption. }
    assert (Items : forall x, In x (front q :: addrs) -> item (h2 x) = item (qheap q x)).
    { intros x Hx. assert (x <> e) by (intros X; subst; contradiction).
      unfold h2. destruct (Nat.eq_dec x (back q)) as [Eq|Ne].
      - subst x. rewrite hupd_same. simpl. unfold h1. rewrite hupd_other by assumption. reflexivity.
      - rewrite hupd_other by assumption. unfold h1. rewrite hupd_other by assumption. reflexivity. }
    assert (Ie : item (h2 e) = v).
    { unfold h2. destruct (Nat.eq_dec e (back q)) as [Eq|Ne].
      - exfalso. apply NI. rewrite Eq, B. apply last_in.
      - rewrite hupd_other by assumption. unfold h1. rewrite hupd_same. reflexivity. }
    assert (R' : repr (mkQ h2 (S e) (front q) e false t') (addrs ++ [e])).
    { unfold repr; simpl. split; [assumption|]. split.
      - rewrite last_last. reflexivity.
      - split.
        + change (front q :: addrs ++ [e]) with ((front q :: addrs) ++ [e]).
          apply NoDup_app_snoc; assumption.
        + change (front q :: addrs ++ [e]) with ((front q :: addrs) ++ [e]).
          apply Forall_app. split.
          * eapply Forall_impl; [|exact F]. simpl. intros a Ha. unfold e. lia.
          * constructor; [lia|constructor]. }
    split; [exists (addrs ++ [e]); exact R'|].
    unfold abs. rewrite (contents_repr _ _ R'), (contents_repr _ _ R). simpl.
    rewrite map_app. simpl. rewrite Ie.
    f_equal. f_equal. f_equal. apply map_ext_in. intros a Ha. symmetry. apply Items. right. assumption.
Qed.

(* ---- popFront *)

Lemma pop_front_refines q a rest : repr q (a :: rest) ->
  pop_front q = (mkQ (qheap q) (nalloc q) a (back q) (closed q) (t_remove (trk q)), Some (item (qheap q a))) /\
  repr (mkQ (qheap q) (nalloc q) a (back q) (closed q) (t_remove (trk q))) rest.
Proof.
  intros (C & B & ND & F). simpl in C. destruct C as [C1 C2].
  unfold pop_front. rewrite C1. split; [reflexivity|].
  unfold repr; simpl. split; [assumption|]. split.
  - rewrite B. apply last_cons_default.
  - split; [inv ND; assumption|inv F; assumption].
Qed.

Lemma pop_refines q : wfq q -> s_ok (abs q) -> t_len (trk q) <> 0 ->
  wfq (fst (res_of_pop (pop_front q))) /\
  s_pop (abs q) = (abs (fst (res_of_pop (pop_front q))), snd (res_of_pop (pop_front q))).
Proof.
  intros [addrs R] K L.
  destruct (s_pop_nonempty _ K L) as (v & rest & E & P & _).
  simpl in E. rewrite (contents_repr _ _ R) in E.
  destruct addrs as [|a arest]; [discriminate|]. simpl in E. inv E.
  destruct (pop_front_refines q a arest R) as [PF R'].
  rewrite PF. simpl. split; [exists arest; assumption|].
  rewrite P. unfold abs. rewrite (contents_repr _ _ R'). reflexivity.
Qed.

(* ---- every operation *)

Lemma add_step_refines q v : wfq q ->
  wfq (fst (add_step q v)) /\ s_add (abs q) v = (abs (fst (add_step q v)), snd (add_step q v)).
Proof.
  intros [addrs R]. destruct (do_add_refines q v addrs R) as [W E].
  unfold add_step. destruct (do_add q v) as [q' e]. simpl in *. split; assumption.
Qed.

Lemma remove_step_refines q : wfq q -> s_ok (abs q) ->
  wfq (fst (remove_step q)) /\ s_remove (abs q) = (abs (fst (remove_step q)), snd (remove_step q)).
Proof.
  intros W K. unfold remove_step, s_remove. simpl strk.
  destruct (t_len (trk q) =? 0) eqn:L; [split; [assumption|reflexivity]|].
  apply pop_refines; [assumption|assumption|lia].
Qed.

Lemma wait_step_refines q : wfq q -> s_ok (abs q) ->
  wfq (fst (wait_step q)) /\ s_wait (abs q) = (abs (fst (wait_step q)), snd (wait_step q)).
Proof.
  intros W K. unfold wait_step, s_wait. simpl strk. simpl sclosed.
  destruct (t_len (trk q) =? 0) eqn:L.
  - destruct (closed q); split; try assumption; reflexivity.
  - apply pop_refines; [assumption|assumption|lia].
Qed.

Theorem q_step_refines q o : wfq q -> s_ok (abs q) ->
  wfq (fst (q_step q o)) /\ spec_step (abs q) o = (abs (fst (q_step q o)), snd (q_step q o)).
Proof.
  intros W K. destruct o.
  - apply add_step_refines; assumption.
  - simpl. destruct (closed q) eqn:Cl; [split; [assumption|reflexivity]|].
    destruct (t_cap (trk q) >? t_len (trk q)); [apply add_step_refines; assumption|split; [assumption|reflexivity]].
  - apply remove_step_refines; assumption.
  - apply wait_step_refines; assumption.
  - simpl. split; [assumption|reflexivity].
  - simpl. split; [|reflexivity]. destruct W as [addrs R]. exists addrs. exact R.
  - apply add_step_refines; assumption.
  - change (spec_step (abs q) OReceive) with
      (match s_remove (abs q) with (s', RNotOk) => s_wait s' | r => r end).
    change (q_step q OReceive) with (match remove_step q with (q', RNotOk) => wait_step q' | r => r end).
    destruct (remove_step_refines q W K) as [W1 E1]. rewrite E1.
    destruct (remove_step q) as [q1 r1] eqn:RS. simpl in *.
    destruct r1; try (split; [assumption|reflexivity]).
    (* not ok: the queue was empty and is unchanged; continue with Wait *)
    assert (q1 = q).
    { unfold remove_step in RS. destruct (t_len (trk q) =? 0); [inv RS; reflexivity|].
      unfold res_of_pop in RS. destruct (pop_front q) as [q2 [v|]]; discriminate. }
    subst q1. apply wait_step_refines; assumption.
  - simpl. split; [assumption|reflexivity].
Qed.

(* the invariant pair carried along runs *)
Definition q_inv (q : queue) : Prop := wfq q /\ s_ok (abs q).

Lemma q_step_inv q o : q_inv q -> q_inv (fst (q_step q o)).
Proof.
  intros [W K]. destruct (q_step_refines q o W K) as [W' E]. split; [assumption|].
  pose proof (spec_step_ok (abs q) o K) as K'. rewrite E in K'. exact K'.
Qed.

Lemma make_queue_inv t : t_ok t -> t_len t = 0 -> q_inv (make_queue t).
Proof. intros A B. split; [apply make_queue_wf|]. rewrite make_queue_abs. apply spec_init_ok; assumption. Qed.

(* refinement along arbitrary operation lists: same results, related final states *)
Theorem run_refines ops : forall q, q_inv q ->
  run_ops spec_step (abs q) ops = (abs (fst (run_ops q_step q ops)), snd (run_ops q_step q ops)) /\
  q_inv (fst (run_ops q_step q ops)).
Proof.
  induction ops as [|o ops IH]; intros q I; simpl; [split; [reflexivity|assumption]|].
  destruct I as [W K]. destruct (q_step_refines q o W K) as [W' E]. rewrite E.
  pose proof (q_step_inv q o (conj W K)) as I'.
  destruct (q_step q o) as [q1 r1]; simpl in *.
  destruct (IH q1 I') as [E2 I2]. rewrite E2.
  destruct (run_ops q_step q1 ops) as [q2 rs]; simpl in *. split; [reflexivity|assumption].
Qed.

(* the same for the try-form (cancelled context) *)
Lemma try_step_refines q o : q_inv q ->
  q_inv (fst (q_try q o)) /\ spec_try (abs q) o = (abs (fst (q_try q o)), snd (q_try q o)).
Proof.
  intros I. pose proof I as [W K]. destruct (q_step_refines q o W K) as [W' E].
  pose proof (q_step_inv q o I) as I'.
  unfold q_try, spec_try, try_of. rewrite E. destruct (q_step q o) as [q1 r1]; simpl in *.
  destruct (is_blocked r1); simpl; split; try assumption; reflexivity.
Qed.

Theorem run_try_refines ops : forall q, q_inv q ->
  run_ops spec_try (abs q) ops = (abs (fst (run_ops q_try q ops)), snd (run_ops q_try q ops)) /\
  q_inv (fst (run_ops q_try q ops)).
Proof.
  induction ops as [|o ops IH]; intros q I; simpl; [split; [reflexivity|assumption]|].
  destruct (try_step_refines q o I) as [I' E]. rewrite E.
  destruct (q_try q o) as [q1 r1]; simpl in *.
  destruct (IH q1 I') as [E2 I2]. rewrite E2.
  destruct (run_ops q_try q1 ops) as [q2 rs]; simpl in *. split; [reflexivity|assumption].
Qed.

(* reachable states of the pointer-level queue *)
Definition qreach (t : tracker) (q : queue) : Prop := exists ops, q = fst (run_ops q_step (make_queue t) ops).

Lemma qreach_inv t q : t_ok t -> t_len t = 0 -> qreach t q -> q_inv q.
Proof.
  intros A B [ops E]. subst q. apply (run_ops_inv q_step q_inv).
  - intros s o. apply q_step_inv.
  - apply make_queue_inv; assumption.
Qed.

(* no nil-pointer panic in popFront, ever *)
Lemma q_step_no_panic q o : q_inv q -> snd (q_step q o) <> RPanic.
Proof.
  intros [W K]. destruct (q_step_refines q o W K) as [_ E].
  pose proof (spec_step_no_panic (abs q) o K) as N. rewrite E in N. exact N.
Qed.

(* non-vacuity: a pointer-level run, its contents and the spec's items coincide *)
Example refine_example :
  let ops := [OAdd 1; OAdd 2; ORemove; ORemove; OAdd 3; OBlockingAdd 4; OAdd 5; OLen] in
  match validate_opts 2 0 f_zero with
  | Some t =>
      snd (run_ops q_try (make_queue t) ops) =
        [RErr ENil; RErr ENil; RItem 1; RItem 2; RErr ENil; RErr ECtx; RErr ENil; RLen 2] /\
      contents (fst (run_ops q_try (make_queue t) ops)) = [3; 5]
  | None => False
  end.
Proof. vm_compute. split; reflexivity. Qed.
