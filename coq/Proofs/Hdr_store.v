(* C19: several live histograms.  In the model histograms and snapshots are values, so an operation on
   one store entry leaves every other entry untouched; Export/Import/New only append.  The proofs are
   list bookkeeping -- the content of the statement is that the IMPLEMENTATION must match this model
   (checked by the multi-histogram correspondence cases and the per-histogram oracles of the driver). *)
From FunV Require Import Base.Tac Model.Hdr.
Local Open Scope Z_scope.

Lemma nth_error_set_nth_other {A} (l : list A) : forall i j x, i <> j -> nth_error (set_nth l i x) j = nth_error l j.
Proof.
  induction l as [|a l IH]; intros i j x Hne; [destruct i; reflexivity|].
  destruct i as [|i], j as [|j]; cbn; try reflexivity; [congruence|]. apply IH. congruence.
Qed.

Lemma length_set_nth {A} (l : list A) : forall i x, length (set_nth l i x) = length l.
Proof. induction l as [|a l IH]; intros [|i] x; cbn; try reflexivity. rewrite IH. reflexivity. Qed.

Lemma nth_error_app_old {A} (l : list A) x j : (j < length l)%nat -> nth_error (l ++ [x]) j = nth_error l j.
Proof. intros H. apply nth_error_app1. assumption. Qed.

(* every histogram entry other than the operation's target is unchanged, entries are never removed,
   and snapshots change only by MScribble on that snapshot (or by appending) *)
Theorem export_import_independent lo hi sig st o st' r :
  mstep lo hi sig st o = Ok (st', r) ->
  (forall j, (j < length (ms_h st))%nat -> mop_target o <> Some j ->
             nth_error (ms_h st') j = nth_error (ms_h st) j) /\
  (length (ms_h st) <= length (ms_h st'))%nat /\
  (forall k, (k < length (ms_s st))%nat -> (forall j d, o <> MScribble k j d) ->
             nth_error (ms_s st') k = nth_error (ms_s st) k) /\
  (length (ms_s st) <= length (ms_s st'))%nat.
Proof.
  intros E. destruct o as [|i v n|i|i|k|k j d|i j]; cbn [mstep mop_target] in *.
  - destruct (new_hist lo hi sig); inversion E; subst; cbn.
    repeat split; intros; try (rewrite app_length; cbn; lia); try reflexivity.
    apply nth_error_app_old; assumption.
  - destruct (nth_error (ms_h st) i); [destruct (record_values h v n)|]; inversion E; subst; cbn.
    + repeat split; intros; try (rewrite length_set_nth; lia); try reflexivity.
      apply nth_error_set_nth_other. congruence.
    + repeat split; intros; auto.
  - destruct (nth_error (ms_h st) i); inversion E; subst; cbn.
    + repeat split; intros; try (rewrite length_set_nth; lia); try reflexivity.
      apply nth_error_set_nth_other. congruence.
    + repeat split; intros; auto.
  - destruct (nth_error (ms_h st) i); inversion E; subst; cbn.
    + repeat split; intros; try (rewrite app_length; cbn; lia); try reflexivity.
      apply nth_error_app_old; assumption.
    + repeat split; intros; auto.
  - destruct (nth_error (ms_s st) k); [destruct (import s)|]; inversion E; subst; cbn.
    + repeat split; intros; try (rewrite app_length; cbn; lia); try reflexivity.
      apply nth_error_app_old; assumption.
    + repeat split; intros; auto.
  - destruct (nth_error (ms_s st) k); inversion E; subst; cbn.
    + repeat split; intros; try (rewrite length_set_nth; lia); try reflexivity.
      apply nth_error_set_nth_other. intros ->. eapply H0. reflexivity.
    + repeat split; intros; auto.
  - destruct (nth_error (ms_h st) i); [destruct (nth_error (ms_h st) j)|].
    + destruct (merge h h0) as [[t' d]| |]; inversion E; subst; cbn.
      repeat split; intros; try (rewrite length_set_nth; lia); try reflexivity.
      apply nth_error_set_nth_other. congruence.
    + inversion E; subst. repeat split; intros; auto.
    + inversion E; subst. repeat split; intros; auto.
Qed.

(* Export then Import, with anything done to the source in between, yields the state as exported *)
Theorem export_is_a_copy lo hi sig st i h :
  nth_error (ms_h st) i = Some h ->
  exists st', mstep lo hi sig st (MExport i) = Ok (st', []) /\
              nth_error (ms_s st') (length (ms_s st)) = Some (export h) /\ ms_h st' = ms_h st.
Proof.
  intros E. cbn [mstep]. rewrite E. eexists. split; [reflexivity|]. cbn. split; [|reflexivity].
  rewrite nth_error_app2 by lia. rewrite Nat.sub_diag. reflexivity.
Qed.

Example store_example :
  match new_hist 1 1000 2 with
  | Ok h0 =>
      match mstep 1 1000 2 (mkMS [h0] []) (MRecord 0 500 3) with
      | Ok (s1, _) =>
        match mstep 1 1000 2 s1 (MExport 0) with
        | Ok (s2, _) =>
          match mstep 1 1000 2 s2 (MReset 0) with
          | Ok (s3, _) =>
            match mstep 1 1000 2 s3 (MImport 0) with
            | Ok (s4, _) => map h_total (ms_h s4) = [0; 3]
            | _ => False end
          | _ => False end
        | _ => False end
      | _ => False end
  | _ => False
  end.
Proof. vm_compute. reflexivity. Qed.
