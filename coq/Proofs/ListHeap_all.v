(* Every operation of the model preserves the invariant; operation sequences; the C16 statements. *)
From FunV Require Import Base.Tac Base.ListX Model.SortSpec Model.ListHeap
  Proofs.ListHeap_ring Proofs.ListHeap_wf Proofs.ListHeap_splice Proofs.ListHeap_ops Proofs.ListHeap_obs
  Proofs.ListHeap_step Proofs.ListHeap_loops Proofs.ListHeap_sortq Proofs.ListHeap_msort Proofs.ListHeap_sortm.
Local Open Scope Z_scope.

(* the executable stable sort used for SortQuick is a permutation *)
Lemma sins_perm lt x l : Permutation (sins lt x l) (x :: l).
Proof.
  induction l as [|y l IH]; simpl; [reflexivity|].
  destruct (lt (snd y) (snd x)); [|reflexivity].
  rewrite IH. apply perm_swap.
Qed.

Lemma stable_sort_perm lt kv : Permutation (stable_sort lt kv) kv.
Proof.
  induction kv as [|x kv IH]; simpl; [reflexivity|]. unfold stable_sort in *. simpl.
  rewrite sins_perm. constructor. exact IH.
Qed.

Theorem step_WF w E o :
  WF w E -> op_valid w o -> avoids_swap w o = true -> nil_receiver w o = false -> step_good w o.
Proof.
  intros W V AS NR. destruct (basic o) eqn:B; [eapply step_WF_basic; eauto|].
  unfold step_good. destruct o; simpl in B; try discriminate; simpl in V; simpl step.
  - (* Extend *)
    destruct V as (V1 & V2 & V3).
    destruct (Extend_spec w E l input W V1 V2 V3) as (w' & Run & W' & P & _).
    unfold bind. rewrite Run. eauto 10 using pr_ext.
  - (* Copy *)
    destruct (Copy_spec w E l W V) as (w' & ns & Run & W' & _ & P & _).
    unfold bind. rewrite Run. unfold get. eauto 10 using pr_ext.
  - (* Slice *)
    destruct (Iterate_fwd_WF w E l W V) as (w' & Run & Run1).
    unfold bind, SliceL. rewrite Run. do 3 eexists. split; [reflexivity|]. apply (lazy_ext w E l w' W V Run1).
  - (* iterators *)
    destruct k.
    + destruct (Iterate_fwd_WF w E l W V) as (w' & Run & Run1).
      unfold bind. rewrite Run. do 3 eexists. split; [reflexivity|]. apply (lazy_ext w E l w' W V Run1).
    + destruct (Iterate_rev_WF w E l W V) as (w' & Run & Run1).
      unfold bind. rewrite Run. do 3 eexists. split; [reflexivity|]. apply (lazy_ext w E l w' W V Run1).
    + destruct (Iterate_pop_WF true w E l W V) as (w' & Run & W' & P & _).
      unfold bind. simpl in Run. rewrite Run. eauto 10 using pr_ext.
    + destruct (Iterate_pop_WF false w E l W V) as (w' & Run & W' & P & _).
      unfold bind. simpl in Run. rewrite Run. eauto 10 using pr_ext.
  - (* JSON *)
    destruct V as (V1 & V2).
    unfold bind. rewrite (MarshalJSON_spec w E src W V1).
    destruct (UnmarshalJSON_spec w E dst (abs w E src) W V2) as (w' & ns & Run & W' & _ & P & _).
    rewrite Run. eauto 10 using pr_ext.
  - (* SortQuick *)
    destruct (SortQuickWith_spec (stable_sort (lt_of ltk)) (stable_sort_perm (lt_of ltk)) w E l W V) as (w' & Run & W' & P & _).
    unfold bind, SortQuick. rewrite Run. eauto 10 using pr_ext.
  - (* SortMerge *)
    destruct (SortMerge_spec (lt_of ltk) w E l W V) as (w' & E' & Run & W' & P & _).
    unfold bind. rewrite Run. eauto 10 using pr_ext.
  - (* IsSorted *)
    unfold bind. rewrite (IsSorted_spec (lt_of ltk) w E l W V). eauto 10 using ext_refl.
Qed.

(* ---------------------------------------------------------------- operation sequences *)
Lemma WF_empty : WF empty_world (fun _ => []).
Proof.
  split; simpl.
  - intros l _. auto.
  - intros n l Hn. lia.
  - intros l n _ I. unfold cyc_of in I. simpl in I. destruct I.
Qed.

(* worlds reachable from the empty world (two zero-value lists) by valid operations, none of which
   is a successful Swap (known finding #1) *)
Inductive reach : world -> Prop :=
| reach0 : reach empty_world
| reachS w o out w' : reach w -> op_valid w o -> avoids_swap w o = true -> step o w = Ret out w' -> reach w'.

Theorem reach_WF w : reach w -> exists E, WF w E.
Proof.
  induction 1 as [|w o out w' R [E W] V AS Run].
  - exists (fun _ => []). apply WF_empty.
  - destruct (nil_receiver w o) eqn:NR.
    + rewrite (nil_receiver_panics w o NR) in Run. discriminate.
    + destruct (step_WF w E o W V AS NR) as (out1 & w1 & E1 & Run1 & W1 & _).
      rewrite Run in Run1. injection Run1 as <- <-. eauto.
Qed.

(* no operation hangs; the only panics are method calls on a nil receiver *)
Theorem reach_progress w o :
  reach w -> op_valid w o -> avoids_swap w o = true ->
  (nil_receiver w o = true /\ step o w = Panic) \/ (exists out w', step o w = Ret out w' /\ reach w').
Proof.
  intros R V AS. destruct (reach_WF w R) as [E W]. destruct (nil_receiver w o) eqn:NR.
  - left. split; auto. apply nil_receiver_panics; auto.
  - right. destruct (step_WF w E o W V AS NR) as (out1 & w1 & E1 & Run1 & W1 & _).
    exists out1, w1. split; auto. eapply reachS; eauto.
Qed.

(* what the walks, Len, Slice and the iterators show of a well-formed world *)
Definition observably_consistent (w : world) (l : nat) : Prop :=
  fwd_vals w l = rev (bwd_vals w l) /\
  llen (lists w l) = Z.of_nat (List.length (fwd_vals w l)) /\
  (exists w1, SliceL l w = Ret (fwd_vals w l) w1) /\
  (exists w1, Iterate PFwd l w = Ret (fwd_vals w l) w1) /\
  (exists w1, Iterate PRev l w = Ret (rev (fwd_vals w l)) w1) /\
  (forall n, (n < nfresh w)%nat ->
     (nowner (nodes w n) = Some l <-> lroot (lists w l) = Some n \/ In n (fwd_nodes w l))).

Lemma WF_observably_consistent w E l : WF w E -> (l < lfresh w)%nat -> observably_consistent w l.
Proof.
  intros W Hl. destruct (obs_WF w E l W Hl) as (F & B & Len). destruct (walks_WF w E l W Hl) as [FN BN].
  unfold observably_consistent. rewrite F, B, rev_involutive. split; [reflexivity|]. split; [exact Len|].
  destruct (Iterate_fwd_WF w E l W Hl) as (w1 & R1 & _). destruct (Iterate_rev_WF w E l W Hl) as (w2 & R2 & _).
  split; [exists w1; exact R1|]. split; [exists w1; exact R1|]. split; [exists w2; exact R2|].
  intros n Hn. rewrite (wf_own _ _ W n l Hn), FN. unfold cyc_of.
  destruct (lroot (lists w l)) as [r|] eqn:Hr.
  - simpl. split; [intros [_ [->|I]]; auto|intros [H|I]; [injection H as ->|]; auto].
  - split; [intros [_ []]|intros [H|I]; [discriminate|]].
    pose proof (wf_lists _ _ W l Hl) as L. rewrite Hr in L. destruct L as [_ L]. rewrite L in I. destruct I.
Qed.

Theorem reach_consistent w l : reach w -> (l < lfresh w)%nat -> observably_consistent w l.
Proof. intros R Hl. destruct (reach_WF w R) as [E W]. eapply WF_observably_consistent; eauto. Qed.

(* rejected operations change nothing at all *)
Definition rejected (w : world) (o : op) : bool :=
  match o with
  | OAppend (Some e) n => negb (can_append w e n)
  | ORemove (Some e) | ODrop (Some e) => negb (can_remove w e)
  | OSwap e x => negb (swap_succeeds w e x)
  | OSet None _ => true
  | OSet (Some e) _ => is_root w e
  | _ => false
  end.

Definition reject_value (o : op) : out :=
  match o with
  | OAppend e _ => RElem e
  | ODrop _ => RUnit
  | _ => RBool false
  end.

Theorem rejected_unchanged w o : rejected w o = true -> step o w = Ret (reject_value o) w.
Proof.
  destruct o; simpl; try discriminate.
  - destruct e as [e|]; [|discriminate]. intros H. apply negb_true_iff in H. unfold bind. rewrite (Append_reject _ _ _ H). reflexivity.
  - destruct e as [e|]; [|discriminate]. intros H. apply negb_true_iff in H. unfold bind. rewrite (Remove_reject _ _ H). reflexivity.
  - destruct e as [e|]; [|discriminate]. intros H. apply negb_true_iff in H. unfold bind. rewrite (Drop_reject _ _ H). reflexivity.
  - intros H. apply negb_true_iff in H. unfold bind. rewrite (Swap_reject _ _ _ H). reflexivity.
  - destruct e as [e|]; intros H; unfold bind; [rewrite SetV_run, H|]; reflexivity.
Qed.

(* ... and they are exactly the ones the documentation rejects (on a well-formed world):
   Append of nil / a not-ok element / an element that already belongs to a list, or onto a detached element;
   Remove/Drop of the root or of a detached element; Swap across lists, with nil, with itself, of detached
   elements; Set on nil or on the root. *)
Lemma can_append_iff w e n :
  can_append w e n = true <->
  exists nn, n = Some nn /\ nok (nodes w nn) = true /\ nowner (nodes w e) <> None /\ nowner (nodes w nn) = None.
Proof.
  unfold can_append. destruct n as [nn|]; [|split; [discriminate|intros (? & ? & _); discriminate]].
  split.
  - intros H. apply andb_prop in H. destruct H as [H H3]. apply andb_prop in H. destruct H as [H1 H2].
    exists nn. split; [reflexivity|]. split; [exact H1|]. split.
    + destruct (nowner (nodes w e)); [discriminate|discriminate H2].
    + destruct (nowner (nodes w nn)); [discriminate H3|reflexivity].
  - intros (x & Hx & a & b & c). injection Hx as <-. rewrite a, c.
    destruct (nowner (nodes w e)); [reflexivity|congruence].
Qed.

Lemma can_remove_iff w E e :
  WF w E -> (e < nfresh w)%nat ->
  (can_remove w e = true <-> exists l, (l < lfresh w)%nat /\ In e (E l)).
Proof.
  intros W He. split.
  - intros C. destruct (can_remove_true _ _ _ W He C) as (l & r & Hl & _ & _ & Hin). eauto.
  - intros (l & Hl & Hin). pose proof (wf_lists _ _ W l Hl) as L.
    destruct (lroot (lists w l)) as [r|] eqn:Hr; [|destruct L as [_ L]; rewrite L in Hin; destruct Hin].
    eapply can_remove_attached; eauto.
Qed.
