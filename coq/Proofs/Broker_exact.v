(* Exactly once at quiescence, and the refutation of the in-flight clause. *)
From FunV Require Import Base.Tac Model.BrokerModel Proofs.Broker_base Proofs.Broker_safety Proofs.Broker_order Proofs.Broker_live Proofs.Broker_once.

Section S.
Variable c : cfg.
Variable wake : state -> nat -> bool.
Hypothesis LL : lossless c.
Hypothesis NB : stalebreak c = false.

(* safety half: an owed message has been delivered or is still on its way to s *)
Lemma owed_delivered_or_pending : forall st s m, reach c wake st -> live st = true ->
  ~ In s (unsubcalled st) -> In m (owed st s) -> In m (rcv st s) \/ pend_for st s m.
Proof.
  intros st s m R LV Hn Ho. destruct (ie_owed _ (inve_reach c wake LL NB st R) LV s m Hn Ho) as [X|X]; auto.
  left. unfold log in X. destruct LL as [B0 _].
  rewrite (io_ch0 _ _ (invo_reach c wake st R) B0 s), app_nil_r in X. auto.
Qed.

Hypothesis SK : skipstop c = false.
Hypothesis wake_spec : forall st w, wk st w = WParked -> (dist st <> [] \/ live st = false) -> wake st w = true.

(* C08 exactly once: at quiescence with a live context, every message published while s was subscribed
   (and s never called Unsubscribe) is in s's log exactly once *)
Lemma exactly_once : forall st s m, wf_cfg c -> sigbuf c = true -> reach c wake st ->
  quiescent c wake st -> live st = true -> ~ In s (unsubcalled st) -> In m (owed st s) ->
  count_occ Nat.eq_dec (rcv st s) m = 1.
Proof.
  intros st s m WF SB R Q LV Hn Ho.
  destruct (quiescent_live c wake SK wake_spec st WF SB R Q LV) as (D & L & _).
  destruct (only_published_no_dup c wake st s R) as (_ & _ & ND).
  destruct (owed_delivered_or_pending st s m R LV Hn Ho) as [X|[X|(w & r & v & mu & p & Hw & _)]].
  - apply NoDup_count_occ' ; auto.
  - rewrite D, L in X. destruct X.
  - exfalso. eapply busy_not_quiescent; eauto. apply (invl_reach c wake SK); auto.
Qed.

End S.

(* ---------- the clause "... and before its Unsubscribe was called" is false for buffered back-ends.
   `owed st s` holds exactly the messages whose Publish rendezvous happened while s was subscribed and
   before Unsubscribe(s) was *called*.  API-level schedule (5 events): Subscribe returns; Publish returns
   (message accepted by the queue); Unsubscribe is called and processed; the worker takes the message
   and finds no subscriber; everything is idle - the message is lost. *)
Definition queue_cfg : cfg := mkCfg 1 false 0 false None PBlock true 0 0 false false.

Definition inflight_statement : Prop :=
  forall c wake st s m, lossless c -> stalebreak c = false -> wf_cfg c -> sigbuf c = true -> skipstop c = false ->
    (forall st w, wk st w = WParked -> (dist st <> [] \/ live st = false) -> wake st w = true) ->
    reach c wake st -> quiescent c wake st -> live st = true ->
    In m (owed st s) -> In m (rcv st s).

Definition inflight_schedule : list event :=
  [ECall 0 (OpSub 0); ESubSend 0; ECall 1 (OpPub 7); EPub 1; ELoopPush;
   ECall 0 (OpUnsub 0); EUnsubSend 0; ETake 0; ERangeEnd 0; EEnd 0; EPark 0].

Definition inflight_final : state := Eval vm_compute in
  match run queue_cfg wake_exact init inflight_schedule with Some st => st | None => init end.

Lemma inflight_run : run queue_cfg wake_exact init inflight_schedule = Some inflight_final.
Proof. vm_compute. reflexivity. Qed.

Lemma inflight_quiescent : quiescent queue_cfg wake_exact inflight_final.
Proof.
  intros e I. destruct e; try discriminate I; try reflexivity.
  all: try (destruct k as [|[|k]]; reflexivity).
  all: try (destruct w as [|w]; reflexivity).
  all: try (destruct s as [|s]; reflexivity).
Qed.

Lemma unsubscribe_inflight_refuted : ~ inflight_statement.
Proof.
  intros S.
  assert (X : In 7 (rcv inflight_final 0)).
  { apply (S queue_cfg wake_exact inflight_final 0 7).
    - repeat split; auto.
    - reflexivity.
    - intros _; discriminate.
    - reflexivity.
    - reflexivity.
    - intros st w _ [H|H]; unfold wake_exact; [destruct (dist st); [congruence|reflexivity] | rewrite H; apply orb_true_r].
    - eapply run_reach; [constructor | apply inflight_run].
    - apply inflight_quiescent.
    - reflexivity.
    - vm_compute. auto. }
  vm_compute in X. exact X.
Qed.

(* non-vacuity: the same schedule without the Unsubscribe delivers the message, and the state is a
   live quiescent one to which exactly_once applies *)
Definition delivered_schedule : list event :=
  [ECall 0 (OpSub 0); ESubSend 0; ECall 1 (OpPub 7); EPub 1; ELoopPush;
   ETake 0; ERangeNext 0 0; ESend 0 0; ERangeEnd 0; EEnd 0; EPark 0].

Definition delivered_final : state := Eval vm_compute in
  match run queue_cfg wake_exact init delivered_schedule with Some st => st | None => init end.

Example delivered_once :
  run queue_cfg wake_exact init delivered_schedule = Some delivered_final /\
  rcv delivered_final 0 = [7] /\ owed delivered_final 0 = [7] /\ live delivered_final = true /\
  unsubcalled delivered_final = [] /\ quiescent queue_cfg wake_exact delivered_final.
Proof.
  repeat split; try (vm_compute; reflexivity).
  intros e I. destruct e; try discriminate I; try reflexivity.
  all: try (destruct k as [|[|k]]; reflexivity).
  all: try (destruct w as [|w]; reflexivity).
  all: try (destruct s as [|s]; reflexivity).
Qed.

(* ---------- C09: why Stats' signal channel has to be buffered (defect #23, repaired in /repo).
   With the original unbuffered channel (sigbuf = false) a Stats call whose context ends between
   handing its closure to the loop and receiving the answer leaves the loop blocked in
   `signal <- stats` for ever: after Stop nothing can move and the loop never calls wg.Done. *)
Definition unbuffered_cfg : cfg := mkCfg 1 false 0 false None PBlock false 0 0 false false.

Definition stats_wedge_schedule : list event :=
  [ECall 0 OpStats; EStats1 0; ECallerCtx 0; ECallerAbort 0; ECancel; EWExit 0].

Definition stats_wedge_final : state := Eval vm_compute in
  match run unbuffered_cfg wake_exact init stats_wedge_schedule with Some st => st | None => init end.

Lemma stats_unbuffered_wedges :
  run unbuffered_cfg wake_exact init stats_wedge_schedule = Some stats_wedge_final /\
  quiescent unbuffered_cfg wake_exact stats_wedge_final /\
  live stats_wedge_final = false /\ all_done unbuffered_cfg stats_wedge_final = false.
Proof.
  repeat split; try (vm_compute; reflexivity).
  intros e I. destruct e; try discriminate I; try reflexivity.
  all: try (destruct k as [|[|k]]; reflexivity).
  all: try (destruct w as [|w]; reflexivity).
  all: try (destruct s as [|s]; reflexivity).
Qed.

(* non-vacuity of the shutdown theorem: Stop with a message still buffered; the worker drains it *)
Definition shutdown_schedule : list event :=
  [ECall 1 (OpPub 7); EPub 1; ELoopPush; ECancel; ELoopExit; ETake 0; ERangeEnd 0; EEnd 0; EWExit 0].

Definition shutdown_final : state := Eval vm_compute in
  match run queue_cfg wake_exact init shutdown_schedule with Some st => st | None => init end.

Example shutdown_reached :
  run queue_cfg wake_exact init shutdown_schedule = Some shutdown_final /\
  quiescent queue_cfg wake_exact shutdown_final /\ live shutdown_final = false /\
  all_done queue_cfg shutdown_final = true.
Proof.
  repeat split; try (vm_compute; reflexivity).
  intros e I. destruct e; try discriminate I; try reflexivity.
  all: try (destruct k as [|[|k]]; reflexivity).
  all: try (destruct w as [|w]; reflexivity).
  all: try (destruct s as [|s]; reflexivity).
Qed.

Lemma wake_exact_ok : forall st w, wk st w = WParked -> (dist st <> [] \/ live st = false) -> wake_exact st w = true.
Proof.
  intros st w _ [H|H]; unfold wake_exact; [destruct (dist st); [congruence|reflexivity] | rewrite H; apply orb_true_r].
Qed.

(* non-vacuity of the order theorem: one worker, two subscribers, two publishers; both logs are in
   rendezvous order *)
Definition order_schedule : list event :=
  [ECall 0 (OpSub 0); ESubSend 0; ECall 1 (OpSub 1); ESubSend 1;
   ECall 2 (OpPub 7); ECall 3 (OpPub 8); EPub 3; ELoopPush; EPub 2; ELoopPush;
   ETake 0; ERangeNext 0 1; ESend 0 1; ERangeNext 0 0; ESend 0 0; ERangeEnd 0; EEnd 0;
   ETake 0; ERangeNext 0 0; ESend 0 0; ERangeNext 0 1; ESend 0 1; ERangeEnd 0; EEnd 0; EPark 0].

Example order_reached :
  match run queue_cfg wake_exact init order_schedule with
  | Some st => nw queue_cfg = 1 /\ pubd st = [8; 7] /\ rcv st 0 = [8; 7] /\ rcv st 1 = [8; 7]
  | None => False
  end.
Proof. vm_compute. auto. Qed.

(* ---------- redundant Unsubscribe calls.  The subscriber set is a map: Unsubscribe of a channel that
   is not (or no longer) subscribed, or that the broker never handed out, is a no-op on it; such calls
   are ordinary events of the model (ECall k (OpUnsub s) has no guard). *)
Lemma redundant_unsub_noop : forall s st, ~ In s (subs st) -> subs (do_unsub s st) = subs st.
Proof. intros s st H. unfold do_unsub, set_subs, set_wk; simpl. apply rem_notin; auto. Qed.

Lemma redundant_unsub_keeps : forall s s' st, In s' (subs st) -> s' <> s -> In s' (subs (do_unsub s st)).
Proof. intros s s' st H N. unfold do_unsub, set_subs, set_wk; simpl. apply In_rem; auto. Qed.

(* keeper 0 and leaver 1; the leaver is unsubscribed twice, a channel 5 that was never subscribed once;
   the message published afterwards is owed to the keeper, who never unsubscribed, and is delivered:
   the state satisfies every premise of C08_subscribed_throughout_exactly_once *)
Definition redundant_schedule : list event :=
  [ECall 0 (OpSub 0); ESubSend 0; ECall 1 (OpSub 1); ESubSend 1;
   ECall 2 (OpUnsub 1); EUnsubSend 2; ECall 3 (OpUnsub 1); EUnsubSend 3; ECall 4 (OpUnsub 5); EUnsubSend 4;
   ECall 6 (OpPub 7); EPub 6; ELoopPush; ETake 0; ERangeNext 0 0; ESend 0 0; ERangeEnd 0; EEnd 0; EPark 0].

Definition redundant_final : state := Eval vm_compute in
  match run queue_cfg wake_exact init redundant_schedule with Some st => st | None => init end.

Example redundant_unsub_exactly_once :
  run queue_cfg wake_exact init redundant_schedule = Some redundant_final /\
  subs redundant_final = [0] /\ unsubcalled redundant_final = [1; 1; 5] /\
  owed redundant_final 0 = [7] /\ rcv redundant_final 0 = [7] /\ rcv redundant_final 1 = [] /\
  live redundant_final = true /\ quiescent queue_cfg wake_exact redundant_final.
Proof.
  repeat split; try (vm_compute; reflexivity).
  intros e I. destruct e; try discriminate I; try reflexivity.
  all: try (destruct k as [|[|[|[|[|[|[|k]]]]]]]; reflexivity).
  all: try (destruct w as [|w]; reflexivity).
  all: try (destruct s as [|[|s]]; reflexivity).
Qed.

(* ---------- C09: a worker must not return when Receive yields ErrCurrentOpSkip (defect repaired in
   /repo).  With the original reaction (skipstop = true) the single worker of a broker over an
   output-filtered queue is gone after the first rejected message; the next accepted message stays in
   the buffer for ever although the context is live and nothing else can happen. *)
Definition outfilter_orig_cfg : cfg := mkCfg 1 false 0 false None PBlock true 0 2 true false.

Definition outfilter_schedule : list event :=
  [ECall 0 (OpSub 0); ESubSend 0; ECall 1 (OpPub 2); EPub 1; ELoopPush; ESkip 0;
   ECall 1 (OpPub 3); EPub 1; ELoopPush].

Definition outfilter_final : state := Eval vm_compute in
  match run outfilter_orig_cfg wake_exact init outfilter_schedule with Some st => st | None => init end.

Lemma output_filter_original_stalls :
  run outfilter_orig_cfg wake_exact init outfilter_schedule = Some outfilter_final /\
  quiescent outfilter_orig_cfg wake_exact outfilter_final /\
  live outfilter_final = true /\ dist outfilter_final = [3] /\ rcv outfilter_final 0 = [].
Proof.
  repeat split; try (vm_compute; reflexivity).
  intros e I. destruct e; try discriminate I; try reflexivity.
  all: try (destruct k as [|[|k]]; reflexivity).
  all: try (destruct w as [|w]; reflexivity).
  all: try (destruct s as [|s]; reflexivity).
Qed.

(* the repaired reaction on the same inputs: the rejected message is skipped, the next one delivered *)
Definition outfilter_cfg : cfg := mkCfg 1 false 0 false None PBlock true 0 2 false false.

Example output_filter_repaired :
  match run outfilter_cfg wake_exact init
          (outfilter_schedule ++ [ETake 0; ERangeNext 0 0; ESend 0 0; ERangeEnd 0; EEnd 0]) with
  | Some st => rcv st 0 = [3] /\ skipped st = [2] /\ dist st = [] /\ acc st = [2; 3] /\ done st = [3]
  | None => False
  end.
Proof. vm_compute. auto. Qed.

(* ---------- why a key the Range yielded but that is no longer subscribed must be SKIPPED, never end the
   dispatch.  /repo's loop sends to every key the Range yields (stalebreak = false).  In the variant
   that re-checks the key and leaves the loop at the first stale one (stalebreak = true, `break` where
   `continue` is meant) a subscriber that stays subscribed and keeps receiving loses the message:
   subscribers 0, 1, 2; one message; the dispatch is blocked on 0; 1 unsubscribes; the Range yields the
   stale key 1 and the loop ends; 2 never gets the message although it is owed to it. *)
Definition stalebreak_cfg : cfg := mkCfg 1 false 0 false None PBlock true 0 0 false true.

Definition stalebreak_schedule : list event :=
  [ECall 0 (OpSub 0); ESubSend 0; ECall 1 (OpSub 1); ESubSend 1; ECall 2 (OpSub 2); ESubSend 2;
   ECall 3 (OpPub 7); EPub 3; ELoopPush; ETake 0; ERangeNext 0 0;
   ECall 1 (OpUnsub 1); EUnsubSend 1; ESend 0 0; ERangeStale 0 1; EEnd 0; EPark 0].

Definition stalebreak_final : state := Eval vm_compute in
  match run stalebreak_cfg wake_exact init stalebreak_schedule with Some st => st | None => init end.

Lemma stale_key_break_refuted :
  run stalebreak_cfg wake_exact init stalebreak_schedule = Some stalebreak_final /\
  quiescent stalebreak_cfg wake_exact stalebreak_final /\ live stalebreak_final = true /\
  In 2 (subs stalebreak_final) /\ ~ In 2 (unsubcalled stalebreak_final) /\
  owed stalebreak_final 2 = [7] /\ rcv stalebreak_final 2 = [] /\ rcv stalebreak_final 0 = [7].
Proof.
  repeat split; try (vm_compute; reflexivity); try (vm_compute; tauto).
  - intros e I. destruct e; try discriminate I; try reflexivity.
    all: try (destruct k as [|[|[|[|k]]]]; reflexivity).
    all: try (destruct w as [|w]; reflexivity).
    all: try (destruct s as [|[|[|s]]]; reflexivity).
  - vm_compute. intros [H|[]]. discriminate.
Qed.

(* with the skip semantics of the model (the Range simply does not yield the deleted key) the same inputs
   deliver the message to the stayer *)
Example stale_key_skipped :
  match run queue_cfg wake_exact init
    [ECall 0 (OpSub 0); ESubSend 0; ECall 1 (OpSub 1); ESubSend 1; ECall 2 (OpSub 2); ESubSend 2;
     ECall 3 (OpPub 7); EPub 3; ELoopPush; ETake 0; ERangeNext 0 0;
     ECall 1 (OpUnsub 1); EUnsubSend 1; ESend 0 0; ERangeNext 0 2; ESend 0 2; ERangeEnd 0; EEnd 0; EPark 0] with
  | Some st => rcv st 0 = [7] /\ rcv st 1 = [] /\ rcv st 2 = [7]
  | None => False
  end.
Proof. vm_compute. auto. Qed.

(* ---------- an API call that leaves through its ctx.Done arm has no effect on the broker
   (cf. lo_cancel_no_effect): only the caller's own program counter (and the ghost `created`) change *)
Definition same_broker (a b : state) : Prop :=
  live a = live b /\ loop a = loop b /\ subs a = subs b /\ subq a = subq b /\ unsubq a = unsubq b /\
  dist a = dist b /\ wk a = wk b /\ ch a = ch b /\ rcv a = rcv b /\ owed a = owed b /\ acc a = acc b.

Lemma cancelled_call_no_effect : forall c wake st k st',
  step c wake st (ECallerAbort k) = Some st' -> same_broker st st'.
Proof.
  intros c wake st k st' H. unfold step in H. destruct (cctx st k); [discriminate|].
  destruct (call st k); inv H; repeat split.
Qed.

Lemma dead_ctx_subscribe_no_effect : forall c wake st k s st',
  cctx st k = false -> step c wake st (ECall k (OpSub s)) = Some st' ->
  same_broker st st' /\ call st' k = call st k.
Proof.
  intros c wake st k s st' D H. unfold step in H. destruct (call st k) eqn:E; try discriminate.
  destruct (memb s (created st)); [discriminate|]. rewrite D in H. inv H. simpl. rewrite E. repeat split.
Qed.
