(* Proofs/QueueMonitor_proofs.v — the wake-up discipline of pubsub.Queue (Model/QueueMonitor.v) and what
   follows from it by the generic theorems of Conc/Monitor.v.  Stdlib + lia; no axioms. *)
From FunV Require Import Base.Tac Conc.Monitor Model.QueueMonitor Proofs.QueueMonitor_exec.
From Coq Require Import PrimFloat.
From Coq Require Uint63.
Local Open Scope Z_scope.

(* ================================================================== a generic lemma: a monotone flag whose
   setting broadcasts every cond (Close) leaves nobody parked — in EVERY reachable state, any schedule *)
Section Flag.
Variable Data : Type.
Variable prog : tid -> op Data.
Variable d0 : Data.
Variable hl : bool.
Variable F : Data -> bool.

Definition flag_discipline : Prop :=
  (forall t w, prog t = OWaiter w -> forall d, F d = true -> w_wake w d = true) /\
  (forall t b, body_of Data prog t b -> forall d, F d = true -> F (fst (b d)) = true) /\
  (forall t b, body_of Data prog t b -> forall d, F d = false -> F (fst (b d)) = true ->
     forall u w, prog u = OWaiter w -> In (Broadcast (w_cond w)) (snd (b d))).

Definition none_parked (s : state Data) : Prop :=
  forall u w, prog u = OWaiter w -> thr s u <> Parked /\ thr s u <> Parking.

Lemma flag_body_keeps s t b bb d' sg th' :
  flag_discipline -> mutex_inv Data s -> (F (dat s) = true -> none_parked s) ->
  body_of Data prog t bb -> thr s t = InCrit b -> bb (dat s) = (d', sg) -> sigs_steps Data prog sg (thr s) th' ->
  F d' = true -> forall u w, u <> t -> prog u = OWaiter w -> th' u <> Parked /\ th' u <> Parking.
Proof.
  intros (Hw & Hm & Hb) M IH Hbody Hs Hd Hsg HF u w N Hp.
  split.
  - destruct (F (dat s)) eqn:F0.
    + eapply sigs_not_parked; eauto. apply (IH eq_refl u w Hp).
    + pose proof (Hb t bb Hbody (dat s) F0) as X. rewrite Hd in X. simpl in X.
      specialize (X HF u w Hp). eapply sigs_bcast; eauto.
      unfold cond_of. rewrite Hp. reflexivity.
  - intros E. apply (sigs_eq_parking Data prog _ _ _ _ Hsg) in E.
    apply N. apply (mutex_two Data s); auto; [rewrite E|rewrite Hs]; reflexivity.
Qed.

Theorem flag_none_parked ok s :
  flag_discipline -> reach Data prog d0 hl ok s -> F (dat s) = true -> none_parked s.
Proof.
  intros FD R. induction R as [|s l s' R IH _ St].
  { intros _ u w _. simpl. split; discriminate. }
  pose proof (mon_mutex _ _ _ _ _ _ R) as M.
  pose proof FD as (Hw & Hm & Hb).
  unfold none_parked in *.
  inversion St; subst; simpl; intros HF u wu Hp;
    try (destruct (Nat.eq_dec u t) as [->|N];
         [rewrite upd_same; split; discriminate|rewrite upd_other by auto; eauto]).
  - (* effect *) eapply (flag_body_keeps s t b e); eauto. left; auto.
  - (* wait ok *) eapply (flag_body_keeps s t b (w_succ w)); eauto. right; eauto.
  - (* decide: the thread parks only if its wake predicate is false, so F is false *)
    destruct (Nat.eq_dec u t) as [->|N]; [|rewrite upd_other by auto; eauto].
    exfalso. assert (X : w_wake w (dat s) = true) by (eapply Hw; eauto).
    unfold w_wake in X. rewrite H1, H2 in X. discriminate.
  - (* park *)
    destruct (Nat.eq_dec u t) as [->|N]; [|rewrite upd_other by auto; eauto].
    exfalso. destruct (IH HF t wu Hp) as [_ X]. auto.
  - (* ctx end *) eauto.
  - (* helper *)
    destruct (IH HF u wu Hp) as [A B]. split.
    + intros E. destruct (wake_all_cases Data prog c (thr s) u) as [X|(_ & _ & X)]; congruence.
    + intros E. apply wake_all_eq_parking in E. auto.
Qed.

End Flag.

(* ================================================================== trackers *)

Lemma t_add_len t t' : t_add t = (t', ENil) -> t_len t' = t_len t + 1.
Proof.
  destruct t; simpl; repeat destr_if; intros H; inv H; simpl; lia.
Qed.

Lemma t_add_err t t' e : t_add t = (t', e) -> e <> ENil -> t' = t.
Proof.
  destruct t; simpl; repeat destr_if; intros H; inv H; auto; congruence.
Qed.

(* with room (cap() > len()) add() succeeds — for every tracker kind *)
Lemma t_add_room t : has_room t = true -> snd (t_add t) = ENil.
Proof.
  unfold has_room. destruct t; simpl; intros H; auto; repeat destr_if; simpl; auto; lia.
Qed.

(* the hypothesis of DESIGN section 9 #20, as a lemma: for the unlimited and the hard-limit tracker no add() can
   succeed while a capacity waiter's predicate is false (so a Signal for "new item" can never be swallowed by a
   producer that has to park again) — it fails for the quota tracker, which admits adds on burst credit. *)
Definition not_quota (t : tracker) : bool := match t with TQuota _ _ _ _ => false | _ => true end.

Lemma no_add_while_full t :
  not_quota t = true -> t_len t < max_int -> has_room t = false -> snd (t_add t) <> ENil.
Proof.
  unfold has_room. destruct t; simpl; try discriminate; intros _ Hl H.
  - lia.
  - destr_if; simpl; [discriminate|lia].
Qed.

(* ... and it does fail for the quota tracker: soft quota 1 reached, credit available *)
Example add_while_full_quota :
  has_room (TQuota 1 3 1 2%float) = false /\ snd (t_add (TQuota 1 3 1 2%float)) = ENil.
Proof. vm_compute. auto. Qed.

(* ================================================================== the Queue's bodies *)

Lemma do_add_unchanged_or_bcast v d :
  fst (fst (do_add true v d)) = d \/ In (Broadcast NUPDATES) (snd (fst (do_add true v d))).
Proof.
  unfold do_add. destruct (q_closed d); [left; reflexivity|].
  destruct (t_add (q_trk d)) as [t' e]. destruct e; simpl; auto.
  right. apply in_or_app. right. simpl. auto.
Qed.

Lemma pop_front_unchanged_or_bcast d :
  fst (fst (pop_front d)) = d \/ In (Broadcast NUPDATES) (snd (fst (pop_front d))).
Proof. unfold pop_front. destruct (q_items d); simpl; auto. Qed.

(* every critical section of the repaired Queue either leaves the data alone or broadcasts nupdates *)
Lemma qbody_unchanged_or_bcast o d :
  fst (qbody true o d) = d \/ In (Broadcast NUPDATES) (snd (qbody true o d)).
Proof.
  unfold qbody, qop_run. destruct o; simpl; auto.
  - pose proof (do_add_unchanged_or_bcast v d) as X. destruct (do_add true v d) as [[d' sg] e]. exact X.
  - unfold do_remove. destr_if; simpl; auto. apply pop_front_unchanged_or_bcast.
  - unfold do_remove. destr_if; simpl; auto. apply pop_front_unchanged_or_bcast.
  - pose proof (do_add_unchanged_or_bcast v d) as X. destruct (do_add true v d) as [[d' sg] e]. exact X.
Qed.

Definition qW (d : qdata) : bool := q_nonempty d || q_closed d.

(* every critical section (either variant) that makes the queue non-empty-or-closed signals or broadcasts nempty *)
Lemma qbody_nempty bc o d :
  qW d = false -> qW (fst (qbody bc o d)) = true ->
  In (Signal NEMPTY) (snd (qbody bc o d)) \/ In (Broadcast NEMPTY) (snd (qbody bc o d)).
Proof.
  unfold qW, q_nonempty. intros H0 H1. apply orb_false_iff in H0. destruct H0 as [Hl Hc].
  apply negb_false_iff in Hl. apply Z.eqb_eq in Hl.
  assert (ADD : forall v, qW (fst (fst (do_add bc v d))) = true -> In (Signal NEMPTY) (snd (fst (do_add bc v d)))).
  { intros v. unfold do_add, qW, q_nonempty. rewrite Hc.
    destruct (t_add (q_trk d)) as [t' e] eqn:E. destruct e; simpl; try (rewrite Hc, Hl; simpl; discriminate).
    intros _. apply t_add_len in E. apply in_or_app. left.
    replace (t_len t' =? 1) with true by (symmetry; apply Z.eqb_eq; lia). simpl. auto. }
  unfold qbody, qop_run in *. destruct o; simpl in *.
  - specialize (ADD v). destruct (do_add bc v d) as [[d' sg] e]. left. apply ADD. exact H1.
  - unfold do_remove in *. rewrite Hl in *. simpl in *. unfold qW, q_nonempty in H1. rewrite Hl, Hc in H1. discriminate.
  - right. auto.
  - unfold qW, q_nonempty in H1. rewrite Hl, Hc in H1. discriminate.
  - unfold do_remove in *. rewrite Hl in *. simpl in *. unfold qW, q_nonempty in H1. rewrite Hl, Hc in H1. discriminate.
  - specialize (ADD v). destruct (do_add bc v d) as [[d' sg] e]. left. apply ADD. exact H1.
  - unfold qW, q_nonempty in H1. rewrite Hl, Hc in H1. discriminate.
Qed.

Lemma qbody_closed_mono bc o d : q_closed d = true -> q_closed (fst (qbody bc o d)) = true.
Proof.
  unfold qbody, qop_run. intros H. destruct o; simpl; auto.
  - unfold do_add. rewrite H. simpl. exact H.
  - unfold do_remove, pop_front. destr_if; simpl; auto. destruct (q_items d); simpl; auto.
  - unfold do_remove, pop_front. destr_if; simpl; auto. destruct (q_items d); simpl; auto.
  - unfold do_add. rewrite H. simpl. exact H.
Qed.

Lemma qbody_closes bc o d :
  q_closed d = false -> q_closed (fst (qbody bc o d)) = true ->
  In (Broadcast NEMPTY) (snd (qbody bc o d)) /\ In (Broadcast NUPDATES) (snd (qbody bc o d)).
Proof.
  unfold qbody, qop_run. intros H H1. destruct o; simpl in *; try congruence.
  - unfold do_add in H1. rewrite H in H1. destruct (t_add (q_trk d)) as [t' e]. destruct e; simpl in H1; congruence.
  - unfold do_remove, pop_front in H1. destr_if_in H1; simpl in H1; try congruence. destruct (q_items d); simpl in H1; congruence.
  - auto.
  - unfold do_remove, pop_front in H1. destr_if_in H1; simpl in H1; try congruence. destruct (q_items d); simpl in H1; congruence.
  - unfold do_add in H1. rewrite H in H1. destruct (t_add (q_trk d)) as [t' e]. destruct e; simpl in H1; congruence.
Qed.

(* ================================================================== programs of Queue operations *)
Section QueueProg.
Variable bc : bool.
Variable prog : tid -> op qdata.
Hypothesis QP : queue_prog bc prog.

Lemma qp_body t b : body_of qdata prog t b -> exists o, b = qbody bc o.
Proof.
  destruct (QP t) as [o Ho]. intros [H|(w & H & ->)]; rewrite Ho in H; destruct o; simpl in H; inv H; eauto;
    eexists; reflexivity.
Qed.

Lemma qp_waiter t w :
  prog t = OWaiter w -> w = wait_w bc \/ (exists v, w = badd_w bc v) \/ (exists seen, w = iter_w bc seen).
Proof.
  destruct (QP t) as [o Ho]. rewrite Ho. destruct o; simpl; intros H; inv H; eauto.
Qed.

Lemma qp_waiter_nempty t w : prog t = OWaiter w -> w_cond w = NEMPTY -> w = wait_w bc.
Proof.
  intros H Hc. destruct (qp_waiter t w H) as [->|[[v ->]|[seen ->]]]; auto; simpl in Hc; discriminate.
Qed.

Lemma qp_waiter_closed t w d : prog t = OWaiter w -> w_closed w d = q_closed d.
Proof. intros H. destruct (qp_waiter t w H) as [->|[[v ->]|[seen ->]]]; reflexivity. Qed.

Lemma qp_waiter_cond t w : prog t = OWaiter w -> w_cond w = NEMPTY \/ w_cond w = NUPDATES.
Proof. intros H. destruct (qp_waiter t w H) as [->|[[v ->]|[seen ->]]]; simpl; auto. Qed.

(* nempty: Signal on 0 -> 1 plus the exit-broadcast cascade *)
Theorem q_cascade_nempty : cascade_discipline qdata prog NEMPTY qW.
Proof.
  split.
  - intros t w H Hc d. rewrite (qp_waiter_nempty t w H Hc). reflexivity.
  - intros t b Hb d H0 H1. destruct (qp_body t b Hb) as [o ->]. apply qbody_nempty; auto.
Qed.

(* Close: monotone flag, set only by a body that broadcasts both conds *)
Theorem q_flag_closed : flag_discipline qdata prog q_closed.
Proof.
  split; [|split].
  - intros t w H d Hc. unfold w_wake. rewrite (qp_waiter_closed t w d H), Hc. apply orb_true_r.
  - intros t b Hb d Hc. destruct (qp_body t b Hb) as [o ->]. apply qbody_closed_mono; auto.
  - intros t b Hb d H0 H1 u w Hu. destruct (qp_body t b Hb) as [o ->].
    destruct (qbody_closes bc o d H0 H1) as [A B].
    destruct (qp_waiter_cond u w Hu) as [-> | ->]; auto.
Qed.

End QueueProg.

(* nupdates (capacity waiters AND iterators, any mix): Broadcast discipline — for the repaired code *)
Theorem q_bcast_nupdates prog : queue_prog true prog -> bcast_discipline qdata prog NUPDATES.
Proof.
  intros QP t b Hb d u w Hu Hc H0 H1. destruct (qp_body true prog QP t b Hb) as [o ->].
  destruct (qbody_unchanged_or_bcast o d) as [E|E]; auto.
  rewrite E in H1. congruence.
Qed.

(* ================================================================== statements (used by Props/C07.v) *)

Definition is_wait (bc : bool) (prog : tid -> op qdata) (t : tid) : Prop := prog t = OWaiter (wait_w bc).

(* C07_queue_consumers.  For every program of Queue operations (any number of consumers, producers, iterators,
   Adds, Removes, Closes), every schedule allowed by `ok`, every reachable state:
   (1) a consumer parked on nempty while the queue is non-empty or closed has a wake-up pending;
   (2) at quiescence no consumer is parked unless the queue is empty and open. *)
Definition queue_consumers_stmt (bc hl : bool) (ok : state qdata -> label -> Prop) : Prop :=
  forall prog d0 s, queue_prog bc prog -> reach qdata prog d0 hl ok s ->
    (forall t, is_wait bc prog t -> thr s t = Parked -> qW (dat s) = true -> token prog NEMPTY s) /\
    (quiescent s -> forall t, is_wait bc prog t -> thr s t = Parked ->
       t_len (q_trk (dat s)) = 0 /\ q_closed (dat s) = false).

Theorem queue_consumers bc hl ok : ctx_guard qdata hl ok -> queue_consumers_stmt bc hl ok.
Proof.
  intros G prog d0 s QP R. split.
  - intros t Ht Hs HW.
    eapply (mon_cascade_pending_wake qdata prog d0 hl ok NEMPTY qW s t (wait_w bc)); eauto.
    apply q_cascade_nempty with (bc := bc); auto.
  - intros Q t Ht Hs.
    destruct (mon_no_lost_wakeup_cascade qdata prog d0 hl ok NEMPTY qW s t (wait_w bc) G
                (q_cascade_nempty bc prog QP) R Q Ht eq_refl Hs) as [A B].
    simpl in A, B. unfold q_nonempty in A. apply negb_false_iff in A. apply Z.eqb_eq in A. auto.
Qed.

(* C07_queue_producers / mixed waiters on nupdates.  In EVERY reachable state of EVERY schedule (no guard, not only
   at quiescence) a thread parked — or about to park — on nupdates has a false predicate: a parked BlockingAdd
   sees cap() <= len() and an open queue, a parked iterator has seen the newest entry. *)
Definition queue_nupdates_stmt : Prop :=
  forall prog d0 hl ok s, queue_prog true prog -> reach qdata prog d0 hl ok s ->
    forall t, (thr s t = Parked \/ thr s t = Parking) ->
      (forall v, prog t = OWaiter (badd_w true v) ->
         has_room (q_trk (dat s)) = false /\ q_closed (dat s) = false) /\
      (forall seen, prog t = OWaiter (iter_w true seen) ->
         q_ver (dat s) <= seen /\ q_closed (dat s) = false).

Theorem queue_nupdates : queue_nupdates_stmt.
Proof.
  intros prog d0 hl ok s QP R t Hs.
  pose proof (mon_parked_not_enabled qdata prog d0 hl ok NUPDATES s (q_bcast_nupdates prog QP) R) as PI.
  assert (Hs' : thr s t = Parking \/ thr s t = Parked) by tauto.
  split.
  - intros v Hp. pose proof (PI t _ Hp eq_refl Hs') as X. unfold w_wake in X. simpl in X.
    apply orb_false_iff in X. destruct X as [X Y]. rewrite Y in X. simpl in X. auto.
  - intros seen Hp. pose proof (PI t _ Hp eq_refl Hs') as X. unfold w_wake in X. simpl in X.
    apply orb_false_iff in X. destruct X as [X Y]. apply Z.ltb_ge in X. auto.
Qed.

(* C07_close_wakes_all (Queue): once the queue is closed NO waiter of any kind is parked or about to park — in every
   reachable state of every schedule; and a waiter returns RClosed only from a critical section in which the queue
   was closed and its predicate false (mon_safety). *)
Definition queue_close_stmt (bc : bool) : Prop :=
  forall prog d0 hl ok s, queue_prog bc prog -> reach qdata prog d0 hl ok s -> q_closed (dat s) = true ->
    forall t w, prog t = OWaiter w -> thr s t <> Parked /\ thr s t <> Parking.

Theorem queue_close bc : queue_close_stmt bc.
Proof.
  intros prog d0 hl ok s QP R Hc.
  exact (flag_none_parked qdata prog d0 hl q_closed ok s (q_flag_closed bc prog QP) R Hc).
Qed.

(* the verdicts: Wait returns an item only if there was one, ErrQueueClosed only if closed and empty, the context
   error only if its context ended *)
Definition queue_verdicts_stmt (bc : bool) : Prop :=
  forall prog d0 hl ok s l s' t r, queue_prog bc prog -> reach qdata prog d0 hl ok s -> step qdata prog hl s l s' ->
    is_wait bc prog t -> thr s t <> Done r -> thr s' t = Done r ->
    match r with
    | ROk => t_len (q_trk (dat s)) <> 0 /\ dat s' = fst (qbody bc QWait (dat s))
    | RClosed => t_len (q_trk (dat s)) = 0 /\ q_closed (dat s) = true /\ dat s' = dat s
    | RCancelled => ended s t = true /\ dat s' = dat s
    end.

Theorem queue_verdicts bc : queue_verdicts_stmt bc.
Proof.
  intros prog d0 hl ok s l s' t r QP R St Ht Hn Hd.
  pose proof (mon_safety qdata prog d0 hl ok s l s' t (wait_w bc) r R St Ht Hn Hd) as X.
  destruct r; simpl in X.
  - destruct X as (_ & A & B). unfold q_nonempty in A. apply negb_true_iff in A. apply Z.eqb_neq in A. auto.
  - destruct X as (_ & A & B & C). unfold q_nonempty in A. apply negb_false_iff in A. apply Z.eqb_eq in A. auto.
  - destruct X as (_ & A & B). auto.
Qed.

(* C07_already_true_no_block (Queue): a waiter that holds the lock for a check while its predicate holds cannot
   park: the only step that changes its state is its own return with ROk *)
Definition queue_no_block_stmt (bc : bool) : Prop :=
  forall prog d0 hl ok s l s' t w b, queue_prog bc prog -> reach qdata prog d0 hl ok s -> step qdata prog hl s l s' ->
    prog t = OWaiter w -> thr s t = InCrit b -> w_P w (dat s) = true ->
    (thr s' t = InCrit b /\ dat s' = dat s) \/ (l = LBody t /\ thr s' t = Done ROk).

Theorem queue_no_block bc : queue_no_block_stmt bc.
Proof. intros prog d0 hl ok s l s' t w b _ R St. eapply mon_already_true_no_block; eauto. Qed.

(* C07_ctx_wakes (Queue): a parked waiter whose context has ended has its helper's broadcast pending, and at
   quiescence no parked waiter's context has ended — for helpers that broadcast under the lock, or for runs without
   the cancellation race (Monitor.v: ctx_guard) *)
Definition queue_ctx_stmt (bc hl : bool) (ok : state qdata -> label -> Prop) : Prop :=
  forall prog d0 s, queue_prog bc prog -> reach qdata prog d0 hl ok s ->
    forall t w, prog t = OWaiter w -> thr s t = Parked ->
      (ended s t = true -> In (w_cond w) (pendingB s)) /\ (quiescent s -> ended s t = false).

Theorem queue_ctx bc hl ok : ctx_guard qdata hl ok -> queue_ctx_stmt bc hl ok.
Proof.
  intros G prog d0 s _ R t w Hp Hs. split.
  - intros He. apply (proj1 (mon_ctx_inv qdata prog d0 hl ok s G R) t w); auto.
  - intros Q. eapply mon_no_lost_cancel; eauto.
Qed.

(* ================================================================== concrete schedules (non-vacuity, refutations) *)
Local Close Scope Z_scope.

(* -- the cascade at work: two parked consumers, a burst of two Adds (one Signal), both are served *)
Definition ex_ops : list qop := [QWait; QWait; QAdd 10%Z; QAdd 20%Z].
Definition ex_sched : list elabel :=
  run_to_park 0 ++ run_to_park 1 ++
  run_effect 2 [Some 0] ++                 (* Add: len 0 -> 1, Signal nempty wakes thread 0 *)
  run_effect 3 [] ++                       (* Add: len 1 -> 2, no Signal on nempty *)
  run_recheck 0 [] ++                      (* consumer 0 takes item 10 and leaves: its helper is released *)
  [EHelper NEMPTY] ++                      (* ... and broadcasts nempty: consumer 1 is woken *)
  run_recheck 1 [] ++ [EHelper NEMPTY].    (* consumer 1 takes item 20; its helper's broadcast finds nobody *)

Example ex_cascade_runs :
  match exec_run (qprog true ex_ops) false 4 (init qdata (qinit (TNoLimit 0%Z))) ex_sched with
  | Some s => thr s 0 = Done ROk /\ thr s 1 = Done ROk /\ q_items (dat s) = [] /\ quiescentb 4 s = true
  | None => False
  end.
Proof. vm_compute. repeat split; reflexivity. Qed.

Lemma qprog_is_queue_prog bc ops : queue_prog bc (qprog bc ops).
Proof. intros t. eexists. reflexivity. Qed.

(* -- the cancellation race (helpers that broadcast WITHOUT the lock, hl = false): consumer 0's context ends between
   its `select` and cond.Wait's registration, its helper broadcasts into the void, it parks.  The next Signal is
   spent on it; it takes one of two items and leaves without a helper to release: consumer 1 stays parked on a
   non-empty queue, nothing runnable, nothing pending. *)
Definition race_ops : list qop := [QWait; QWait; QAdd 10%Z; QAdd 20%Z].
Definition race_sched (bc : bool) : list elabel :=
  [EInvoke 0; EAcquire 0; EBody 0 []] ++   (* consumer 0: empty, open, ctx live: decides to park *)
  [ECtxEnd 0; EHelper NEMPTY] ++           (* ... its context ends, the helper broadcasts: nobody is registered yet *)
  [EPark 0] ++
  run_to_park 1 ++
  run_effect 2 (if bc then [Some 0] else [Some 0; None]) ++
  run_effect 3 (if bc then [] else [None]) ++
  run_recheck 0 [].

Definition lost_consumer (bc hl : bool) : Prop :=
  exists prog d0 s t, queue_prog bc prog /\ reachable qdata prog d0 hl s /\ quiescent s /\
    is_wait bc prog t /\ thr s t = Parked /\ t_len (q_trk (dat s)) <> 0%Z.

Lemma opt_witness {A} (o : option A) (Q : A -> Prop) :
  match o with Some s => Q s | None => False end -> exists s, o = Some s /\ Q s.
Proof. destruct o; [eauto|tauto]. Qed.

Theorem queue_consumers_unlocked_helper_refuted bc : lost_consumer bc false.
Proof.
  destruct (opt_witness (exec_run (qprog bc race_ops) false 4 (init qdata (qinit (TNoLimit 0%Z))) (race_sched bc))
              (fun s => quiescentb 4 s = true /\ thr s 1 = Parked /\ (t_len (q_trk (dat s)) =? 0)%Z = false))
    as (s & E & Q & Hs & Hl).
  { destruct bc; vm_compute; repeat split; reflexivity. }
  destruct (exec_from_init qdata (qprog bc race_ops) (qinit (TNoLimit 0%Z)) false 4 (race_sched bc) s E) as [R B].
  exists (qprog bc race_ops), (qinit (TNoLimit 0%Z)), s, 1.
  split; [apply qprog_is_queue_prog|]. split; [exact R|].
  split; [apply (quiescentb_sound qdata (qprog bc race_ops) 4 s B Q)|].
  split; [reflexivity|]. split; [exact Hs|]. apply Z.eqb_neq. exact Hl.
Qed.

(* hence the guard of queue_consumers cannot be dropped for the unlocked helper *)
Corollary queue_consumers_needs_guard bc : ~ queue_consumers_stmt bc false any_step.
Proof.
  intros H. destruct (queue_consumers_unlocked_helper_refuted bc) as (prog & d0 & s & t & QP & R & Q & Ht & Hs & Hl).
  destruct (H prog d0 s QP R) as [_ X]. destruct (X Q t Ht Hs) as [A _]. contradiction.
Qed.

(* -- DESIGN section 9 #20: the code BEFORE fixes_pending/C20-nupdates-broadcast.diff (doAdd Signals nupdates).  Quota
   tracker (hard 3, soft 1, credit 2): one item queued; a BlockingAdd parks (cap() = 1 <= len); an iterator that has
   seen the item parks; an Add succeeds on burst credit (soft quota -> 2, len 2) and its single Signal wakes the
   producer, which finds cap() <= len again and re-parks: the iterator stays parked although a new entry exists —
   no guard violated, no context involved, quiescent. *)
Definition starve_tracker : tracker := TQuota 1%Z 3%Z 1%Z 2%float.
Definition starve_d0 : qdata := mkQD [1%Z] starve_tracker false 1%Z.
Definition starve_ops : list qop := [QBlockingAdd 2%Z; QIterWait 1%Z; QAdd 3%Z].
Definition starve_sched : list elabel :=
  run_to_park 0 ++ run_to_park 1 ++
  run_effect 2 [Some 0] ++             (* Add on credit: Signal nupdates wakes the producer (thread 0) *)
  run_repark 0.

Definition starved_iterator (bc : bool) : Prop :=
  exists prog d0 s t seen, queue_prog bc prog /\ reach qdata prog d0 true (@no_ctx_race qdata) s /\ quiescent s /\
    prog t = OWaiter (iter_w bc seen) /\ thr s t = Parked /\ (seen < q_ver (dat s))%Z.

Theorem nupdates_signal_variant_refuted : starved_iterator false.
Proof.
  destruct (opt_witness (exec_run_nr qdata (qprog false starve_ops) true 3 (init qdata starve_d0) starve_sched)
              (fun s => quiescentb 3 s = true /\ thr s 1 = Parked /\ (1 <? q_ver (dat s))%Z = true))
    as (s & E & Q & Hs & Hl).
  { vm_compute; repeat split; reflexivity. }
  destruct (exec_nr_from_init qdata (qprog false starve_ops) starve_d0 true 3 starve_sched s E) as [R B].
  exists (qprog false starve_ops), starve_d0, s, 1, 1%Z.
  split; [apply qprog_is_queue_prog|]. split; [exact R|].
  split; [apply (quiescentb_sound qdata (qprog false starve_ops) 3 s B Q)|].
  split; [reflexivity|]. split; [exact Hs|]. apply Z.ltb_lt. exact Hl.
Qed.

(* the repaired code admits no such state (queue_nupdates), for any tracker and any mix of waiters *)
Corollary nupdates_broadcast_variant_ok : ~ starved_iterator true.
Proof.
  intros (prog & d0 & s & t & seen & QP & R & _ & Hp & Hs & Hv).
  destruct (queue_nupdates prog d0 true _ s QP R t (or_introl Hs)) as [_ X].
  destruct (X seen Hp) as [A _]. lia.
Qed.

(* non-vacuity of queue_nupdates: a producer really parks on a full queue and is served by a Remove *)
Definition prod_ops : list qop := [QBlockingAdd 7%Z; QRemove].
Example ex_producer_served :
  match exec_run (qprog true prod_ops) false 2 (init qdata (mkQD [1%Z] (TQuota 1%Z 1%Z 1%Z 1%float) false 1%Z))
          (run_to_park 0 ++ run_effect 1 [] ++ run_recheck 0 [None] ++ [EHelper NUPDATES]) with
  | Some s => thr s 0 = Done ROk /\ q_items (dat s) = [7%Z] /\ quiescentb 2 s = true
  | None => False
  end.
Proof. vm_compute. repeat split; reflexivity. Qed.

(* non-vacuity of queue_close / queue_verdicts: Close wakes two parked consumers, both return ErrQueueClosed *)
Example ex_close_wakes :
  match exec_run (qprog true [QWait; QWait; QClose]) true 3 (init qdata (qinit (TNoLimit 0%Z)))
          (run_to_park 0 ++ run_to_park 1 ++ run_effect 2 [] ++ run_recheck 0 [] ++ run_recheck 1 [] ++
           [EHelper NEMPTY; EHelper NEMPTY]) with
  | Some s => thr s 0 = Done RClosed /\ thr s 1 = Done RClosed /\ quiescentb 3 s = true
  | None => False
  end.
Proof. vm_compute. repeat split; reflexivity. Qed.

(* non-vacuity of queue_ctx, and the repair at work (helper_locked = true): the context ends inside the window; the
   helper cannot broadcast while the waiter holds the lock (exec_step = None), only after cond.Wait has registered
   the waiter and released the lock; the waiter is woken and returns the context error *)
Example ex_ctx_window_locked_helper :
  let p := qprog true [QWait] in
  let s0 := init qdata (qinit (TNoLimit 0%Z)) in
  match exec_run p true 1 s0 [EInvoke 0; EAcquire 0; EBody 0 []; ECtxEnd 0] with
  | Some s1 =>
      exec_step p true 1 s1 (EHelper NEMPTY) = None /\
      match exec_run p true 1 s1 ([EPark 0; EHelper NEMPTY] ++ run_recheck 0 []) with
      | Some s => thr s 0 = Done RCancelled /\ quiescentb 1 s = true
      | None => False
      end
  | None => False
  end.
Proof. vm_compute. repeat split; reflexivity. Qed.

(* ================================================================== the exit broadcast is part of the cascade,
   whatever the waiter's context (seeded change C07-ind2-3: "no watcher goroutine for contexts that can never end").

   In the model every waiter that has been through the wait loop releases its helper when it leaves
   (Monitor.v: exit_pending) - independently of `ended` and of whether its context can end at all: the code always
   derives a cancellable context and runs `defer cancel()`.  (a) The cascade theorem therefore covers consumers
   whose context NEVER ends: it holds for all runs without any LCtxEnd step, for either helper shape.  (b) The
   variant in which the released helpers never broadcast (= waiters without a watcher: runs without LHelper steps)
   loses a consumer: two consumers with contexts that never end, a burst of two Adds. *)
Definition never_ctx_end (s : state qdata) (l : label) : Prop :=
  match l with LCtxEnd _ => False | _ => True end.

Theorem queue_consumers_noncancellable hl : queue_consumers_stmt true hl never_ctx_end.
Proof.
  apply queue_consumers. right. intros s l H. destruct l; simpl in *; auto; contradiction.
Qed.

Definition no_watcher (s : state qdata) (l : label) : Prop :=
  match l with LCtxEnd _ | LHelper _ => False | _ => True end.
Definition no_watcherb (s : state qdata) (l : elabel) : bool :=
  match l with ECtxEnd _ | EHelper _ => false | _ => true end.

(* nothing can run any more, although the exit broadcasts the variant does not have are still "pending" *)
Definition stalled (s : state qdata) : Prop := lock s = None /\ forall t, runnable (thr s t) = false.

Definition lost_consumer_without_exit_broadcast : Prop :=
  exists prog d0 s t, queue_prog true prog /\ reach qdata prog d0 true no_watcher s /\ stalled s /\
    is_wait true prog t /\ thr s t = Parked /\ t_len (q_trk (dat s)) <> 0%Z.

Definition nowatch_sched : list elabel :=
  run_to_park 0 ++ run_to_park 1 ++ run_effect 2 [Some 0] ++ run_effect 3 [] ++ run_recheck 0 [].

Lemma no_watcherb_ok : forall s l, no_watcherb s l = true -> no_watcher s (erase l).
Proof. intros s l H. destruct l; simpl in *; auto; discriminate. Qed.

Theorem cascade_needs_exit_broadcast : lost_consumer_without_exit_broadcast.
Proof.
  pose (p := qprog true race_ops). pose (i0 := qinit (TNoLimit 0%Z)).
  destruct (opt_witness (exec_run_g qdata p true 4 no_watcherb (init qdata i0) nowatch_sched)
              (fun s => is_none (lock s) = true /\ forallb (fun t => negb (runnable (thr s t))) (seq 0 4) = true /\
                        thr s 1 = Parked /\ (t_len (q_trk (dat s)) =? 0)%Z = false))
    as (s & E & L & Rn & Hs & Hl).
  { vm_compute; repeat split; reflexivity. }
  destruct (exec_g_from_init qdata p i0 true 4 no_watcherb no_watcher no_watcherb_ok nowatch_sched s E) as [R B].
  exists p, i0, s, 1. split; [apply qprog_is_queue_prog|]. split; [exact R|]. split.
  - split; [apply is_none_true; exact L|]. intros t. destruct (le_lt_dec 4 t) as [G|G].
    + rewrite (B t G). reflexivity.
    + rewrite forallb_forall in Rn. apply negb_true_iff. apply Rn. apply in_seq. lia.
  - split; [reflexivity|]. split; [exact Hs|]. apply Z.eqb_neq. exact Hl.
Qed.
