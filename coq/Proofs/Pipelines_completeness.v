(* C01_complete for un-aborted runs: no abort => no context cancelled and no channel closed while a sender
   runs => no send gives up => nothing dropped; terminated => input, hands and buffers empty => what was
   delivered is a permutation of the input.
   Part 1: generic (any network). Part 2: GenerateParallel with an end-of-stream generator, any number of
   workers, any input, any interleaving. *)
From FunV Require Import Base.Tac Base.ListX Model.Pipelines
  Proofs.Pipelines_conserve Proofs.Pipelines_quiesce Proofs.Pipelines_nets Proofs.Pipelines_complete Proofs.Pipelines_closer
  Proofs.Pipelines_release Proofs.Pipelines_nodrop.

(* ---- C01_no_abort_no_drop, generic: while no context is cancelled and no channel is closed, no step of
        any network that respects the hand discipline drops anything ---- *)
Theorem no_cancel_no_close_no_drop N s l s' :
  hinv N s -> s_canc s = [] -> (forall ch, closedb s ch = false) -> step N s l = Some s' -> s_drop s' = s_drop s.
Proof.
  intros I Hc Hcl H. destruct (drop_cause N s l s' I H) as [E|(p & pr & d & ch & g & ko & ke & kr & _ & [E|E])]; auto.
  - exfalso. eapply cancelled_nonempty; eauto.
  - rewrite Hcl in E. discriminate.
Qed.

(* ---- small generic facts about one step ---- *)
Lemma lens_step N s l s' :
  step N s l = Some s' -> length (s_chans s') = length (s_chans s) /\ length (s_srcs s') = length (s_srcs s).
Proof.
  intros H. destruct l; cbn [step] in H.
  - destruct (cur_instr N s p) as [[[pr d] i]|]; [|discriminate].
    destruct i; cbn [exec] in H; exec_cases H; inv H; unfold start; cbv zeta; unf;
      repeat match goal with |- context [if ?b then _ else _] => destruct b end; cbn [s_chans s_srcs]; rewrite ?length_upd; auto.
  - destruct (p =? q); [discriminate|].
    destruct (cur_instr N s p) as [[[pr d] i]|]; [|discriminate]. destruct i; try discriminate.
    destruct (cur_instr N s q) as [[[qr dq] iq]|]; [|discriminate]. destruct iq; try discriminate.
    exec_cases H. inv H. auto.
  - exec_cases H. inv H. auto.
  - inv H. auto.
  - inv H. auto.
  - exec_cases H; inv H; auto.
Qed.

(* an exhausted source stays exhausted *)
Lemma src_empty_step N s l s' i : step N s l = Some s' -> nth_error (s_srcs s) i = Some [] -> nth_error (s_srcs s') i = Some [].
Proof.
  intros H H0. destruct l; cbn [step] in H.
  - destruct (cur_instr N s p) as [[[pr d] ii]|]; [|discriminate].
    destruct ii; cbn [exec] in H; exec_cases H; inv H; unfold start; cbv zeta; unf;
      repeat match goal with |- context [if ?b then _ else _] => destruct b end; cbn [s_srcs]; auto.
    destruct (Nat.eq_dec src i) as [->|Hn]; [congruence|]. now rewrite nth_error_upd_other.
  - destruct (p =? q); [discriminate|].
    destruct (cur_instr N s p) as [[[pr d] ii]|]; [|discriminate]. destruct ii; try discriminate.
    destruct (cur_instr N s q) as [[[qr dq] iq]|]; [|discriminate]. destruct iq; try discriminate.
    exec_cases H. inv H. auto.
  - exec_cases H. inv H. auto.
  - inv H. auto.
  - inv H. auto.
  - exec_cases H; inv H; auto.
Qed.

(* a closed, drained channel stays closed and drained *)
Definition drained (s : state) (ch : chid) : Prop :=
  exists c, nth_error (s_chans s) ch = Some c /\ c_closed c = true /\ c_buf c = [].

Lemma drained_step N s l s' ch : step N s l = Some s' -> drained s ch -> drained s' ch.
Proof.
  intros H (c & Hc & Hcl & Hb). unfold drained. destruct l; cbn [step] in H.
  - destruct (cur_instr N s p) as [[[pr d] i]|]; [|discriminate].
    destruct i; cbn [exec] in H; exec_cases H; inv H; unfold start; cbv zeta; unf;
      repeat match goal with |- context [if ?b then _ else _] => destruct b end; cbn [s_chans]; eauto;
      (destruct (Nat.eq_dec ch0 ch) as [->|Hne]; [|exists c; rewrite nth_error_upd_other by auto; auto]).
    + exfalso. match goal with E : nth_error (s_chans s) ch = Some ?c1, E2 : c_buf ?c1 = _ :: _ |- _ => rewrite Hc in E; inv E; congruence end.
    + exfalso. match goal with E : nth_error (s_chans s) ch = Some ?c1, E2 : c_closed ?c1 = false |- _ => rewrite Hc in E; inv E; congruence end.
    + match goal with E : nth_error (s_chans s) ch = Some ?c1 |- context [c_buf ?c1] => rewrite Hc in E; inv E end.
      eexists. split; [eapply nth_error_upd_same; eauto|]. cbn [c_closed c_buf]. auto.
  - destruct (p =? q); [discriminate|].
    destruct (cur_instr N s p) as [[[pr d] i]|]; [|discriminate]. destruct i; try discriminate.
    destruct (cur_instr N s q) as [[[qr dq] iq]|]; [|discriminate]. destruct iq; try discriminate.
    exec_cases H. inv H. eauto.
  - exec_cases H. inv H. eauto.
  - inv H. eauto.
  - inv H. eauto.
  - exec_cases H; inv H; eauto.
Qed.

(* internal steps abandon nobody *)
Lemma no_abandon_step N s l s' :
  internal l = true -> step N s l = Some s' ->
  (forall p pr, nth_error (s_procs s) p = Some pr -> p_st pr <> PAbandoned) ->
  forall p pr, nth_error (s_procs s') p = Some pr -> p_st pr <> PAbandoned.
Proof.
  intros Hi H A p pr' Hp' Ea. destruct l; try discriminate; cbn [step] in H.
  - destruct (cur_instr N s p0) as [[[pr0 d0] i0]|] eqn:Ec; [|discriminate].
    apply cur_instr_inv in Ec as (Hp0 & _ & Hr0 & _).
    pose proof (exec_shape _ _ _ _ _ _ _ _ Hp0 Hr0 H) as Hsh.
    destruct Hsh as [pr1 E1 _ _ (M & _) | pr1 _ M _ E1 _ _ | q qp c pr1 _ _ _ _ _ E1 _ _ (M & _) | q g k qp pr1 _ _ _ E1 _ _ (M & _)];
      rewrite E1 in Hp'; apply nth_error_upd in Hp' as [[_ ->]|[_ Hp']]; try congruence; try (eapply A; eauto; fail).
    apply nth_error_upd in Hp' as [[_ ->]|[_ Hp']]; [discriminate|eapply A; eauto].
  - destruct (p0 =? q); [discriminate|].
    destruct (cur_instr N s p0) as [[[pr0 d0] i0]|]; [|discriminate]. destruct i0; try discriminate.
    destruct (cur_instr N s q) as [[[qr dq] iq]|]; [|discriminate]. destruct iq; try discriminate.
    exec_cases H. inv H. unf. cbn [s_procs] in Hp'.
    apply nth_error_upd in Hp' as [[_ ->]|[_ Hp']]; [discriminate|].
    apply nth_error_upd in Hp' as [[_ ->]|[_ Hp']]; [discriminate|eapply A; eauto].
  - exec_cases H. inv H. eapply A; eauto.
Qed.

(* a goroutine that has returned: it had returned before, or it stood at its return *)
Lemma done_from N s l s' p pr' :
  step N s l = Some s' -> nth_error (s_procs s') p = Some pr' -> p_st pr' = PDone ->
  nth_error (s_procs s) p = Some pr' \/ exists pr d, cur_instr N s p = Some (pr, d, IExit).
Proof.
  intros H Hp' Hd. destruct l; cbn [step] in H.
  - destruct (cur_instr N s p0) as [[[pr0 d0] i0]|] eqn:Ec; [|discriminate].
    pose proof Ec as Ec0. apply cur_instr_inv in Ec as (Hp0 & _ & Hr0 & _).
    pose proof (exec_shape _ _ _ _ _ _ _ _ Hp0 Hr0 H) as Hsh.
    destruct Hsh as [pr1 E1 _ _ (M & _) | pr1 Ei M _ E1 _ _ | q qp c pr1 _ _ _ _ _ E1 _ _ (M & _) | q g k qp pr1 _ _ _ E1 _ _ (M & _)];
      rewrite E1 in Hp'; apply nth_error_upd in Hp' as [[<- ->]|[_ Hp']]; try congruence; auto.
    + right. subst i0. eauto.
    + apply nth_error_upd in Hp' as [[_ ->]|[_ Hp']]; [discriminate|auto].
  - destruct (p0 =? q); [discriminate|].
    destruct (cur_instr N s p0) as [[[pr0 d0] i0]|]; [|discriminate]. destruct i0; try discriminate.
    destruct (cur_instr N s q) as [[[qr dq] iq]|]; [|discriminate]. destruct iq; try discriminate.
    exec_cases H. inv H. unf. cbn [s_procs] in Hp'.
    apply nth_error_upd in Hp' as [[_ ->]|[_ Hp']]; [discriminate|].
    apply nth_error_upd in Hp' as [[_ ->]|[_ Hp']]; [discriminate|auto].
  - exec_cases H. inv H. auto.
  - inv H. auto.
  - inv H. auto.
  - exec_cases H; inv H. unfold set_stopped in Hp'. unf. cbn [s_procs] in Hp'.
    apply nth_error_upd in Hp' as [[_ ->]|[_ Hp']]; [discriminate|auto].
Qed.

(* why an instruction took its error / end exit *)
Lemma check_err_cause N s p pr d g ko kr arm s' pr' :
  exec N s p pr d (ICheck g ko kr) arm = Some s' -> nth_error (s_procs s') p = Some pr' -> p_pc pr' <> ko ->
  cancelledb N s (resolve pr g) = true.
Proof.
  intros H Hp' Hne. cbn [exec] in H. destruct arm; [discriminate|]. inv H. unf. cbn [s_procs] in Hp'.
  apply nth_error_upd in Hp' as [[_ ->]|[Hn _]]; [|congruence]. cbn [p_pc goto] in Hne.
  destruct (cancelledb N s (resolve pr g)); congruence.
Qed.

Lemma src_end_cause N s p pr d src g ki ke kr arm s' pr' :
  exec N s p pr d (ISrc src g ki ke kr) arm = Some s' -> nth_error (s_procs s') p = Some pr' -> p_pc pr' <> ki ->
  cancelledb N s (resolve pr g) = true \/ nth_error (s_srcs s) src = Some [] \/ nth_error (s_srcs s) src = None.
Proof.
  intros H Hp' Hne. cbn [exec] in H. exec_cases H; inv H; unf; cbn [s_procs] in Hp';
    apply nth_error_upd in Hp' as [[_ ->]|[Hn _]]; try congruence; cbn [p_pc goto goto_h] in Hne; try congruence; auto.
Qed.

Lemma send_err_cause N s p pr d ch g ko ke kr arm s' pr' :
  exec N s p pr d (ISend ch g ko ke kr) arm = Some s' -> nth_error (s_procs s') p = Some pr' -> p_pc pr' <> ko ->
  cancelledb N s (resolve pr g) = true \/ closedb s ch = true.
Proof.
  intros H Hp' Hne. cbn [exec] in H. exec_cases H; inv H; unf; cbn [s_procs] in Hp';
    apply nth_error_upd in Hp' as [[_ ->]|[Hn _]]; try congruence; cbn [p_pc goto goto_h] in Hne; try congruence; auto.
  right. unfold closedb. match goal with E : nth_error (s_chans s) _ = Some _ |- _ => rewrite E end. assumption.
Qed.

(* a receive that does not continue at its item target: context cancelled, or the channel closed AND drained *)
Lemma recv_end_cause N s p pr d ch g ki ke kr arm s' pr' :
  exec N s p pr d (IRecv ch g ki ke kr) arm = Some s' -> nth_error (s_procs s') p = Some pr' -> p_pc pr' <> ki ->
  cancelledb N s (resolve pr g) = true \/ drained s ch.
Proof.
  intros H Hp' Hne. cbn [exec] in H. exec_cases H; inv H; unf; cbn [s_procs] in Hp';
    apply nth_error_upd in Hp' as [[_ ->]|[Hn _]]; try congruence; cbn [p_pc goto goto_h] in Hne; try congruence; auto.
  right. eexists. split; [eassumption|]. auto.
Qed.

(* ================================================================ GenerateParallel, end-of-stream generator *)
Section GenComplete.
Variable n : nat.
Notation N := (gen_net n GEof).

Definition cons_past (s : state) : Prop :=
  exists c, nth_error (s_procs s) 0 = Some c /\ (p_st c = PDone \/ (p_st c = PRun /\ p_pc c = n + 6)).

Record c2 (s : state) : Prop := {
  c_na : forall p pr, nth_error (s_procs s) p = Some pr -> p_st pr <> PAbandoned;
  c_len : length (s_chans s) = 1 /\ length (s_srcs s) = 1;
  c_u : forall c, In c (s_canc s) -> c = 2 \/ (c = 1 /\ cons_past s);
  c_e : forall j pr, j < n -> nth_error (s_procs s) (3 + j) = Some pr ->
                     p_st pr = PDone \/ (p_st pr = PRun /\ p_pc pr = 6) -> nth_error (s_srcs s) 0 = Some [];
  c_b : forall c, nth_error (s_procs s) 0 = Some c -> p_st c = PDone \/ (p_st c = PRun /\ n + 5 <= p_pc c) -> drained s 0
}.

Lemma cons_ctx s c : g2 n s -> nth_error (s_procs s) 0 = Some c -> p_ctx c = 1.
Proof. intros G Hc. destruct (ci_cons _ _ _ _ (g_c _ _ G)) as (c0 & H0 & _ & E). rewrite Hc in H0. inv H0. exact E. Qed.

(* the consumer's context is cancelled by nobody but the consumer itself, at its very end *)
Lemma ctx1_live s : c2 s -> cancelledb N s 1 = true -> cons_past s.
Proof.
  intros C H. unfold cancelledb in H. apply existsb_exists in H as (a & Ha & Hd).
  destruct (c_u _ C a Ha) as [->|(-> & P)]; [cbn in Hd; discriminate|exact P].
Qed.

Lemma cons_running_not_past s c : nth_error (s_procs s) 0 = Some c -> p_st c = PRun -> p_pc c <> n + 6 -> ~ cons_past s.
Proof. intros Hc Hr Hpc (c0 & H0 & [E|(_ & E)]); rewrite Hc in H0; inv H0; congruence. Qed.

Lemma cons_past_step s l s' :
  g2 n s -> step N s l = Some s' -> (forall p pr, nth_error (s_procs s') p = Some pr -> p_st pr <> PAbandoned) ->
  cons_past s -> cons_past s'.
Proof.
  intros G H NA (c & Hc & [Ed|(Er & Epc)]).
  - exists c. split; [eapply done_untouched; eauto|auto].
  - assert (Hns : p_st c <> PNotStarted) by congruence.
    destruct (ctx_stable_step _ _ _ _ _ _ H Hc Hns) as (c' & Hc' & _ & Hns').
    exists c'. split; auto. destruct (p_st c') eqn:Est; auto; [contradiction| |exfalso; eapply NA; eauto].
    right. split; auto.
    destruct (pc_step _ _ _ _ _ _ H Hc' Est) as [Same|[(_ & pr & Hp & E)|[(arm & pr & d & i & -> & Hi & Hin)|[(q & pr & d & ch & g & ko & ke & kr & -> & Hi & E)|(q & pr & d & ch & g & ki & ke & kr & -> & Hi & E)]]]].
    + rewrite Hc in Same. inv Same. exact Epc.
    + rewrite Hc in Hp. inv Hp. congruence.
    + exfalso. pose proof (cons_cur n _ _ _ _ Hi) as X. apply cur_instr_inv in Hi as (Hp & _ & _ & _). rewrite Hc in Hp. inv Hp.
      destruct X as [(E & _)|[(E & _)|[(E & _)|[(E & _)|[(E & _)|[(E & _)|[(E & _)|(_ & ->)]]]]]]]; try lia. destruct Hin.
    + exfalso. apply (cons_cur n) in Hi. intuition discriminate.
    + exfalso. pose proof (cons_cur n _ _ _ _ Hi) as X. apply cur_instr_inv in Hi as (Hp & _ & _ & _). rewrite Hc in Hp. inv Hp.
      destruct X as [(E0 & _)|[(E0 & _)|[(E0 & _)|[(E0 & _)|[(E0 & _)|[(E0 & _)|[(E0 & _)|(_ & E0)]]]]]]]; try lia. discriminate.
Qed.

(* a running worker cannot see a cancelled context or the pipe closed *)
Lemma worker_sees_nothing s j pr d i :
  g2 n s -> j < n -> cur_instr N s (3 + j) = Some (pr, d, i) ->
  (exists c, cancelledb N s c = true) \/ closedb s 0 = true -> False.
Proof.
  intros G Hj Hc Hy.
  assert (A : alldone n s).
  { apply (g_q _ _ G). destruct Hy as [(c & E)|E]; [left; eapply cancelled_nonempty; eauto|right; exact E]. }
  destruct (A j Hj) as (w & Hw1 & Hw2). apply cur_instr_inv in Hc as (Hp & _ & Hr & _). rewrite Hp in Hw1. inv Hw1. congruence.
Qed.

Lemma c2_step s l s' : internal l = true -> g2 n s -> c2 s -> step N s l = Some s' -> c2 s'.
Proof.
  intros Hint G C H.
  assert (NA : forall p pr, nth_error (s_procs s') p = Some pr -> p_st pr <> PAbandoned).
  { eapply no_abandon_step; eauto. apply (c_na _ C). }
  destruct (lens_step _ _ _ _ H) as (L1 & L2).
  split.
  - exact NA.
  - destruct (c_len _ C). split; congruence.
  - (* who may be cancelled *)
    intros x Hx.
    destruct (canc_by _ _ _ _ Hint H) as [Ec|(p & pr & d & c & k & -> & Hc)].
    + rewrite Ec in Hx. destruct (c_u _ C x Hx) as [E|(E & P)]; auto. right. split; auto. eapply cons_past_step; eauto.
    + pose proof Hc as Hc0. cbn [step] in H. rewrite Hc in H. cbn [exec] in H. inv H. unf. cbn [s_canc s_procs] in *.
      destruct Hx as [<-|Hx].
      * apply cur_instr_inv in Hc as (Hp & Hd & Hr & Hi).
        apply (Gdesc n) in Hd as [(-> & ->)|[(-> & ->)|[(-> & ->)|(j & Hj & -> & ->)]]].
        -- apply (cons_cur n) in Hc0. destruct Hc0 as [(_ & E)|[(_ & E)|[(_ & E)|[(_ & E)|[(_ & E)|[(_ & E)|[(Epc & E)|(_ & E)]]]]]]]; try discriminate.
           inv E. right. split; auto. eexists. split; [eapply nth_error_upd_same; eauto|]. right. split; reflexivity.
        -- cbn [d_prog bg] in Hi. destruct (p_pc pr) as [|k0]; [|destruct k0]; cbn in Hi; discriminate.
        -- cbn [d_prog bg] in Hi. apply closer_instr in Hi as [(_ & E)|[(_ & E)|[(_ & E)|(_ & E)]]]; try discriminate. inv E. auto.
        -- destruct (worker_cur n _ _ _ _ _ G Hj Hc0) as [(_ & E)|[(_ & E)|[(_ & E)|(_ & E)]]]; discriminate.
      * destruct (c_u _ C x Hx) as [E|(E & (c0 & Hc1 & Hp1))]; auto. right. split; auto.
        apply cur_instr_inv in Hc as (Hp & _ & Hr & _).
        destruct (Nat.eq_dec p 0) as [->|Hn].
        -- exfalso. rewrite Hp in Hc1. inv Hc1. apply (cons_cur n) in Hc0.
           destruct Hp1 as [E1|(_ & E1)]; [congruence|].
           destruct Hc0 as [(E0 & _)|[(E0 & _)|[(E0 & _)|[(E0 & _)|[(E0 & _)|[(E0 & _)|[(E0 & _)|(_ & E0)]]]]]]]; try lia. discriminate.
        -- exists c0. unf. cbn [s_procs]. rewrite nth_error_upd_other by auto. auto.
  - (* a worker that has returned found the generator exhausted *)
    intros j pr' Hj Hp' Hfin.
    assert (KEEP : nth_error (s_srcs s) 0 = Some [] -> nth_error (s_srcs s') 0 = Some []) by (eapply src_empty_step; eauto).
    destruct Hfin as [Ed|(Er & Epc)].
    + destruct (done_from _ _ _ _ _ _ H Hp' Ed) as [Same|(pr & d & Hc)].
      * apply KEEP. eapply (c_e _ C); eauto.
      * apply KEEP. pose proof Hc as Hc0. apply cur_instr_inv in Hc as (Hp & _ & Hr & _).
        destruct (worker_cur n _ _ _ _ _ G Hj Hc0) as [(_ & E)|[(_ & E)|[(_ & E)|(E6 & _)]]]; try discriminate.
        eapply (c_e _ C); eauto.
    + destruct (pc_step _ _ _ _ _ _ H Hp' Er) as [Same|[(E0 & _)|[(arm & pr & d & i & -> & Hc & Hin)|[(q & pr & d & ch & g & ko & ke & kr & -> & Hc & E)|(q & pr & d & ch & g & ki & ke & kr & -> & Hc & E)]]]].
      * apply KEEP. eapply (c_e _ C); eauto.
      * lia.
      * pose proof Hc as Hc0. cbn [step] in H. rewrite Hc in H.
        destruct (worker_cur n _ _ _ _ _ G Hj Hc0) as [(_ & ->)|[(_ & ->)|[(_ & ->)|(_ & ->)]]].
        -- exfalso. eapply (worker_sees_nothing s j); eauto. left. eexists. eapply check_err_cause; eauto. lia.
        -- destruct (src_end_cause _ _ _ _ _ _ _ _ _ _ _ _ _ H Hp') as [E|[E|E]]; [lia| |apply KEEP; exact E|].
           ++ exfalso. eapply (worker_sees_nothing s j); eauto.
           ++ exfalso. destruct (c_len _ C) as (_ & L). apply nth_error_None in E. lia.
        -- exfalso. destruct (send_err_cause _ _ _ _ _ _ _ _ _ _ _ _ _ H Hp') as [E|E]; [lia| |]; eapply (worker_sees_nothing s j); eauto.
        -- destruct Hin.
      * exfalso. destruct (worker_cur n _ _ _ _ _ G Hj Hc) as [(_ & E1)|[(_ & E1)|[(_ & E1)|(_ & E1)]]]; inv E1. lia.
      * exfalso. destruct (worker_cur n _ _ _ _ _ G Hj Hc) as [(_ & E1)|[(_ & E1)|[(_ & E1)|(_ & E1)]]]; discriminate.
  - (* the consumer leaves only after it saw the pipe closed and drained *)
    intros c' Hc' Hfin.
    assert (KEEP : drained s 0 -> drained s' 0) by (eapply drained_step; eauto).
    assert (LIVE : forall c, nth_error (s_procs s) 0 = Some c -> p_st c = PRun -> p_pc c <> n + 6 -> cancelledb N s (resolve c GOwn) = true -> False).
    { intros c Hc Hr Hpc Hcan. cbn [resolve] in Hcan. rewrite (cons_ctx _ _ G Hc) in Hcan.
      eapply cons_running_not_past; eauto. apply ctx1_live; auto. }
    destruct Hfin as [Ed|(Er & Epc)].
    + destruct (done_from _ _ _ _ _ _ H Hc' Ed) as [Same|(pr & d & Hc)].
      * apply KEEP. eapply (c_b _ C); eauto.
      * apply KEEP. pose proof (cons_cur n _ _ _ _ Hc) as X. apply cur_instr_inv in Hc as (Hp & _ & Hr & _).
        destruct X as [(_ & E)|[(_ & E)|[(_ & E)|[(_ & E)|[(_ & E)|[(_ & E)|[(_ & E)|(E6 & _)]]]]]]]; try discriminate.
        eapply (c_b _ C); eauto. right. split; auto. lia.
    + destruct (pc_step _ _ _ _ _ _ H Hc' Er) as [Same|[(E0 & _)|[(arm & pr & d & i & -> & Hc & Hin)|[(q & pr & d & ch & g & ko & ke & kr & -> & Hc & E)|(q & pr & d & ch & g & ki & ke & kr & -> & Hc & E)]]]].
      * apply KEEP. eapply (c_b _ C); eauto.
      * lia.
      * pose proof (cons_cur n _ _ _ _ Hc) as X. cbn [step] in H. rewrite Hc in H. apply cur_instr_inv in Hc as (Hp & _ & Hr & _).
        destruct X as [(E0 & ->)|[(E0 & ->)|[(E0 & ->)|[(E0 & ->)|[(E0 & ->)|[(E0 & ->)|[(E0 & ->)|(E0 & ->)]]]]]]]; cbn [targets In] in Hin.
        -- exfalso. eapply (LIVE pr); eauto; [lia|]. eapply check_err_cause; eauto. lia.
        -- lia.
        -- lia.
        -- destruct (recv_end_cause _ _ _ _ _ _ _ _ _ _ _ _ _ H Hc') as [E|E]; [lia| |apply KEEP; exact E].
           exfalso. eapply (LIVE pr); eauto. lia.
        -- lia.
        -- exfalso. eapply (LIVE pr); eauto; [lia|]. eapply check_err_cause; eauto. lia.
        -- apply KEEP. eapply (c_b _ C); eauto. right. split; auto. lia.
        -- destruct Hin.
      * exfalso. apply (cons_cur n) in Hc. intuition discriminate.
      * exfalso. pose proof (cons_cur n _ _ _ _ Hc) as X.
        destruct X as [(_ & E1)|[(_ & E1)|[(_ & E1)|[(_ & E1)|[(_ & E1)|[(_ & E1)|[(_ & E1)|(_ & E1)]]]]]]]; inv E1. lia.
Qed.

Lemma c2_init input : c2 (gen_init n input).
Proof.
  unfold gen_init, fanin_init. split.
  - intros p pr Hp. unfold mk_init in Hp; cbn [s_procs] in Hp. apply nth_error_In in Hp.
    destruct Hp as [<-|[<-|[<-|Hin]]]; try discriminate. unfold idles in Hin. apply repeat_spec in Hin. subst. discriminate.
  - split; reflexivity.
  - intros c [].
  - intros j pr Hj Hp Hfin. exfalso. unfold mk_init in Hp; cbn [s_procs] in Hp. rewrite nth3 in Hp.
    apply nth_error_In in Hp. unfold idles in Hp. apply repeat_spec in Hp. subst. destruct Hfin as [E|(E & _)]; discriminate.
  - intros c Hc Hfin. cbn in Hc. inv Hc. cbn in Hfin. destruct Hfin as [E|(_ & E)]; [discriminate|lia].
Qed.

Lemma gc_ireach input s : ireach N (gen_init n input) s -> g2 n s /\ c2 s.
Proof.
  induction 1 as [|s l s' R (G & C) Hi H]; [split; [apply g2_init|apply c2_init]|].
  split; [eapply g2_step; eauto|eapply c2_step; eauto].
Qed.

(* C01_complete for GenerateParallel (n >= 1 workers, generator ending with the end-of-stream signal): a
   terminated run that nothing aborted delivered a permutation of what the generator produced *)
Theorem gen_eof_complete input s :
  0 < n -> reach N (gen_init n input) s -> s_stopped s = false -> all_done s -> Permutation (s_deliv s) input.
Proof.
  intros Hn R Hs (AD & _). destruct (gc_ireach input s (reach_unstopped _ _ _ R Hs)) as (G & C).
  (* the consumer has returned *)
  destruct (ci_cons _ _ _ _ (g_c _ _ G)) as (c & Hc & Hns & _).
  assert (Dc : p_st c = PDone).
  { destruct (p_st c) eqn:E; auto; [contradiction|exfalso; eapply AD; eauto|exfalso; eapply (c_na _ C); eauto]. }
  destruct (c_b _ C c Hc (or_introl Dc)) as (c0 & Hc0 & Hcl & Hb).
  (* hence the pipe is closed, hence every worker has returned, hence the generator is exhausted *)
  assert (A : alldone n s).
  { apply (g_q _ _ G). right. unfold closedb. now rewrite Hc0. }
  destruct (A 0 Hn) as (w & Hw & Dw).
  pose proof (c_e _ C 0 w Hn Hw (or_introl Dw)) as Es.
  destruct (c_len _ C) as (Lc & Ls).
  assert (Esrc : concat (s_srcs s) = []).
  { destruct (s_srcs s) as [|l0 [|]]; cbn in Ls; try lia. cbn in Es. inv Es. reflexivity. }
  assert (Ebuf : bufs (s_chans s) = []).
  { unfold bufs. destruct (s_chans s) as [|c1 [|]]; cbn in Lc; try lia. cbn in Hc0. inv Hc0. cbn. now rewrite Hb. }
  assert (Eh : hands (s_procs s) = []).
  { apply hands_none. intros pr Hin. apply In_nth_error in Hin as (p & Hp).
    destruct (g_h _ _ G p pr Hp) as [E|([E|E] & _)]; auto; exfalso; [eapply AD; eauto|eapply (c_na _ C); eauto]. }
  pose proof (reach_conserves _ _ _ R) as P. unfold tokens in P at 1.
  rewrite Esrc, Ebuf, Eh, (g_d _ _ G) in P. cbn [app] in P. rewrite app_nil_r in P.
  etransitivity; [exact P|]. unfold gen_init, fanin_init. rewrite tokens_mk_init; [cbn; now rewrite app_nil_r|apply hands_running_idles].
Qed.

End GenComplete.
