(* Pointer-level facts about the Deque ring of Model/DequeCursor.v: `chain h a l b` says that following
   `next` from a visits exactly l and arrives at b, with `prev` the inverse on every hop.  The ring of a
   deque is `chain h root contents root`.  addAfter (at either end) and pop (at either end) preserve it. *)
From FunV Require Import Base.Tac Base.ListX Model.QueueCursor Model.DequeCursor Proofs.Cursor_queue.

Arguments upd : simpl never.

Fixpoint chain (h : nat -> elem) (a : nat) (l : list nat) (b : nat) : Prop :=
  match l with
  | [] => enext (h a) = Some b /\ eprev (h b) = Some a
  | x :: r => enext (h a) = Some x /\ eprev (h x) = Some a /\ chain h x r b
  end.

Lemma chain_app h l1 : forall a x l2 b,
  chain h a (l1 ++ x :: l2) b <-> chain h a l1 x /\ chain h x l2 b.
Proof.
  induction l1 as [|y l1 IH]; intros a x l2 b; simpl.
  - tauto.
  - rewrite IH. tauto.
Qed.

Lemma chain_frame h h' l : forall a b,
  (forall y, In y (a :: l) -> enext (h' y) = enext (h y)) ->
  (forall y, In y (l ++ [b]) -> eprev (h' y) = eprev (h y)) ->
  chain h a l b -> chain h' a l b.
Proof.
  induction l as [|x l IH]; intros a b Hn Hp; simpl.
  - intros (A & B). rewrite Hn by (simpl; auto). rewrite Hp by (simpl; auto). auto.
  - intros (A & B & C). rewrite Hn by (simpl; auto). rewrite Hp by (simpl; auto). repeat split; auto.
    apply IH; auto.
    + intros y Hy. apply Hn. simpl in *. tauto.
    + intros y Hy. apply Hp. simpl. auto.
Qed.

Lemma chain_first h a l b : chain h a l b -> enext (h a) = Some (hd b l).
Proof. destruct l; simpl; tauto. Qed.

Lemma last_default {A} (l : list A) x a b : last (x :: l) a = last (x :: l) b.
Proof. revert x. induction l as [|y l IH]; intros x; [reflexivity|]. simpl in *. apply IH. Qed.

Lemma chain_last h l : forall a b, chain h a l b -> eprev (h b) = Some (last l a).
Proof.
  induction l as [|x l IH]; intros a b; simpl; [tauto|]. intros (_ & B & C).
  rewrite (IH _ _ C). destruct l as [|y l]; [reflexivity|]. f_equal. apply last_default.
Qed.

(* the successor of c along a :: l ++ [b] *)
Fixpoint next_after (c : nat) (xs : list nat) : option nat :=
  match xs with
  | x :: (y :: _) as t => if Nat.eqb x c then Some y else next_after c t
  | _ => None
  end.

Lemma chain_next' h l : forall a b c, NoDup (a :: l) -> chain h a l b -> In c (a :: l) ->
  enext (h c) = next_after c (a :: l ++ [b]).
Proof.
  induction l as [|x l IH]; intros a b c Hnd Hc Hin.
  - simpl in *. destruct Hin as [->|[]]. rewrite Nat.eqb_refl. tauto.
  - simpl in Hc. destruct Hc as (A & B & C).
    change (next_after c (a :: (x :: l) ++ [b])) with (if Nat.eqb a c then Some x else next_after c (x :: l ++ [b])).
    destruct (Nat.eqb_spec a c) as [->|Hne]; [assumption|].
    destruct Hin as [->|Hin]; [contradiction|]. inv Hnd. apply IH; auto.
Qed.

(* mirror image: exchanging next and prev reverses the chain *)
Definition flip (h : nat -> elem) : nat -> elem := fun k => mkEl (eitem (h k)) (eprev (h k)) (enext (h k)).

Lemma chain_flip h l : forall a b, chain h a l b -> chain (flip h) b (rev l) a.
Proof.
  induction l as [|x l IH]; intros a b; simpl.
  - tauto.
  - intros (A & B & C). apply chain_app. split; [apply IH; exact C|]. simpl. auto.
Qed.

Lemma chain_prev h l a b c : NoDup (l ++ [b]) -> chain h a l b -> In c (l ++ [b]) ->
  eprev (h c) = next_after c (b :: rev l ++ [a]).
Proof.
  intros Hnd Hc Hin. apply chain_flip in Hc.
  apply (chain_next' (flip h) (rev l) b a c) in Hc.
  - exact Hc.
  - change (b :: rev l) with ([b] ++ rev l). rewrite <- (rev_involutive [b]), <- rev_app_distr.
    apply NoDup_rev. exact Hnd.
  - apply in_app_or in Hin. simpl. destruct Hin as [H|[H|[]]]; [right; now apply in_rev in H|now left].
Qed.

(* ---------------------------------------------------------------- the ring of a deque *)

Definition ring (d : deque) (l : list nat) : Prop :=
  NoDup (0 :: l) /\ (forall x, In x l -> x < dnxt d) /\ 1 <= dnxt d /\
  chain (dheap d) 0 l 0 /\ dlen d = length l.

(* d' has more elements; the items of the old ones are unchanged *)
Definition d_ext (d d' : deque) : Prop :=
  dnxt d <= dnxt d' /\ forall k, k < dnxt d -> eitem (dheap d' k) = eitem (dheap d k).

(* every allocated element has non-nil, allocated neighbours (also the popped ones) *)
Definition el_ok (d : deque) : Prop :=
  forall k, k < dnxt d -> exists n p, enext (dheap d k) = Some n /\ eprev (dheap d k) = Some p /\ n < dnxt d /\ p < dnxt d.

Lemma ring_d0 : ring d0 [].
Proof. unfold ring; simpl. repeat split; auto. constructor; [simpl; tauto|constructor]. intros x []. Qed.

Lemma el_ok_d0 : el_ok d0.
Proof. intros k Hk. simpl in Hk. assert (k = 0) by lia. subst. exists 0, 0. simpl. auto. Qed.

Ltac updn := repeat (rewrite upd_same || (rewrite upd_other by (try assumption; try lia; try congruence))).

Lemma add_after_ext d v a d' : add_after d v a = Some d' -> a < dnxt d -> el_ok d ->
  d_ext d d' /\ el_ok d' /\ dclosed d' = dclosed d /\ dnxt d' = S (dnxt d) /\ eitem (dheap d' (dnxt d)) = v.
Proof.
  unfold add_after. intros E Ha Hel. destruct (Hel a Ha) as (an & ap & En & Ep & Han & Hap).
  rewrite En in E. inv E. simpl.
  assert (Hit : forall k, k < dnxt d ->
    eitem (upd (upd (upd (dheap d) (dnxt d) (mkEl v (Some an) (Some a))) a
                 (set_next (upd (dheap d) (dnxt d) (mkEl v (Some an) (Some a)) a) (Some (dnxt d)))) an
              (set_prev (upd (upd (dheap d) (dnxt d) (mkEl v (Some an) (Some a))) a
                 (set_next (upd (dheap d) (dnxt d) (mkEl v (Some an) (Some a)) a) (Some (dnxt d))) an) (Some (dnxt d))) k)
    = eitem (dheap d k)).
  { intros k Hk. destruct (Nat.eq_dec k an) as [->|H1]; updn; simpl.
    - destruct (Nat.eq_dec an a) as [->|H2]; updn; simpl; updn; reflexivity.
    - destruct (Nat.eq_dec k a) as [->|H2]; updn; simpl; updn; reflexivity. }
  split; [split; [simpl; lia|exact Hit]|]. split; [|split; [reflexivity|split; [reflexivity|]]].
  - intros k Hk. simpl in Hk.
    destruct (Nat.eq_dec k an) as [->|H1]; updn; simpl.
    + destruct (Nat.eq_dec an a) as [->|H2]; updn; simpl; updn.
      * exists (dnxt d), (dnxt d). repeat split; auto.
      * destruct (Hel an Han) as (n2 & p2 & E1 & E2 & ? & ?). exists n2, (dnxt d). rewrite E1. repeat split; auto.
    + destruct (Nat.eq_dec k a) as [->|H2]; updn; simpl; updn.
      * exists (dnxt d), ap. rewrite Ep. repeat split; auto.
      * destruct (Nat.eq_dec k (dnxt d)) as [->|H3]; updn.
        -- exists an, a. simpl. repeat split; auto.
        -- destruct (Hel k) as (n2 & p2 & E1 & E2 & ? & ?); [lia|]. exists n2, p2. repeat split; auto.
  - destruct (Nat.eq_dec (dnxt d) an) as [H1|H1]; [lia|]. updn.
    destruct (Nat.eq_dec (dnxt d) a) as [H2|H2]; [lia|]. updn. reflexivity.
Qed.

Lemma unlink_ext d x d' v : unlink d x = Some (d', v) -> x < dnxt d -> el_ok d ->
  d_ext d d' /\ el_ok d' /\ dclosed d' = dclosed d /\ dnxt d' = dnxt d /\ v = eitem (dheap d x).
Proof.
  unfold unlink. intros E Hx Hel. destruct (Hel x Hx) as (n & p & En & Ep & Hn & Hp).
  rewrite En, Ep in E. inv E. simpl.
  split; [split; [simpl; lia|]|split; [|split; [reflexivity|split; reflexivity]]].
  - intros k Hk. destruct (Nat.eq_dec k n) as [H1|H1]; [subst k|]; updn; simpl.
    + destruct (Nat.eq_dec n p) as [H2|H2]; [subst p|]; updn; reflexivity.
    + destruct (Nat.eq_dec k p) as [H2|H2]; [subst k|]; updn; reflexivity.
  - intros k Hk. simpl in Hk. destruct (Hel k Hk) as (n2 & p2 & E1 & E2 & Hn2 & Hp2). simpl.
    destruct (Nat.eq_dec k n) as [H1|H1]; [subst k|]; updn; simpl.
    + destruct (Nat.eq_dec n p) as [H2|H2]; [subst p|]; updn; simpl.
      * exists n, n. auto.
      * exists n2, p. rewrite E1. auto.
    + destruct (Nat.eq_dec k p) as [H2|H2]; [subst k|]; updn; simpl.
      * exists n, p2. rewrite E2. auto.
      * exists n2, p2. auto.
Qed.

(* ---------------------------------------------------------------- the four end operations keep the ring *)

Lemma NoDup_app_l {A} (l1 l2 : list A) : NoDup (l1 ++ l2) -> NoDup l1.
Proof. induction l1 as [|a l1 IH]; simpl; intros H; [constructor|]. inv H. constructor; [rewrite in_app_iff in *; tauto|auto]. Qed.

Lemma NoDup_snoc_notin {A} (l : list A) x : NoDup (l ++ [x]) -> ~ In x l.
Proof. intros H Hin. apply NoDup_remove_2 in H. rewrite app_nil_r in H. contradiction. Qed.

Lemma NoDup_snoc {A} (l : list A) x : NoDup l -> ~ In x l -> NoDup (l ++ [x]).
Proof.
  induction l as [|a l IH]; simpl; intros Hnd Hx; [constructor; [simpl; tauto|constructor]|].
  inv Hnd. constructor; [rewrite in_app_iff; simpl; intros [H|[H|[]]]; [contradiction|subst; tauto]|apply IH; tauto].
Qed.

Lemma push_front_ring d l v : ring d l ->
  exists d', add_after d v 0 = Some d' /\ ring d' (dnxt d :: l).
Proof.
  intros (Hnd & Hlt & H1 & Hc & Hlen). set (n := dnxt d).
  assert (Hn0 : n <> 0) by (unfold n; lia).
  assert (Hnl : ~ In n l) by (intros H; apply Hlt in H; unfold n in H; lia).
  pose proof (chain_first _ _ _ _ Hc) as Hb. unfold add_after. rewrite Hb. fold n.
  eexists. split; [reflexivity|]. unfold ring; simpl. inv Hnd.
  split; [constructor; [simpl; intros [H|H]; [lia|contradiction]|constructor; auto]|].
  split; [intros x [<-|Hx]; [unfold n; lia|apply Hlt in Hx; lia]|].
  split; [lia|]. split; [|lia].
  destruct l as [|x l']; simpl in *.
  - updn. simpl. updn. simpl. auto.
  - destruct Hc as (A & B & C).
    assert (x <> 0) by (intros ->; apply H2; now left).
    assert (x <> n) by (intros ->; apply Hnl; now left).
    updn. simpl. updn. simpl. repeat split; auto.
    inv H3. apply chain_frame with (h := dheap d); auto.
    + intros y Hy. assert (y <> 0) by (intros ->; apply H2; simpl in *; tauto).
      assert (y <> n) by (intros ->; apply Hnl; simpl in *; tauto).
      destruct (Nat.eq_dec y x) as [->|Hyx]; updn; simpl; updn; reflexivity.
    + intros y Hy. assert (y <> x) by (intros ->; apply in_app_or in Hy; destruct Hy as [Hy|[Hy|[]]]; [contradiction|congruence]).
      assert (y <> n).
      { intros ->. apply in_app_or in Hy. destruct Hy as [Hy|[Hy|[]]]; [apply Hnl; now right|congruence]. }
      destruct (Nat.eq_dec y 0) as [->|Hy0]; updn; simpl; updn; reflexivity.
Qed.

Lemma push_back_ring d l v : ring d l ->
  exists a d', eprev (dheap d 0) = Some a /\ a < dnxt d /\ add_after d v a = Some d' /\ ring d' (l ++ [dnxt d]).
Proof.
  intros (Hnd & Hlt & H1 & Hc & Hlen). set (n := dnxt d).
  assert (Hn0 : n <> 0) by (unfold n; lia).
  assert (Hnl : ~ In n l) by (intros H; apply Hlt in H; unfold n in H; lia).
  pose proof (chain_last _ _ _ _ Hc) as Ha. exists (last l 0). inv Hnd.
  assert (Hring : forall h3, chain h3 0 (l ++ [n]) 0 ->
    ring (mkD h3 (S n) (dclosed d) (S (dlen d))) (l ++ [n])).
  { intros h3 Hc3. unfold ring; simpl. split; [|split; [|split; [lia|split; [exact Hc3|rewrite app_length; simpl; lia]]]].
    - constructor; [rewrite in_app_iff; simpl; intros [H|[H|[]]]; [contradiction|lia]|].
      apply NoDup_snoc; auto.
    - intros x Hx. apply in_app_or in Hx. destruct Hx as [Hx|[<-|[]]]; [apply Hlt in Hx; lia|unfold n; lia]. }
  destruct (list_snoc_cases l) as [->|(l1 & x & ->)].
  - simpl in *. destruct Hc as (A & B). eexists. split; [exact Ha|]. split; [lia|].
    unfold add_after. rewrite A. fold n. split; [reflexivity|]. apply Hring. simpl.
    updn. simpl. updn. simpl. updn. auto.
  - rewrite last_last in *. apply chain_app in Hc. destruct Hc as (C1 & C2 & C3). simpl in C2, C3.
    assert (Hx0 : x <> 0) by (intros ->; apply H2; rewrite in_app_iff; simpl; tauto).
    assert (Hxn : x <> n) by (intros ->; apply Hnl; rewrite in_app_iff; simpl; tauto).
    eexists. split; [exact Ha|]. split; [apply Hlt; rewrite in_app_iff; simpl; tauto|].
    unfold add_after. rewrite C2. fold n. split; [reflexivity|]. apply Hring.
    rewrite <- app_assoc. simpl. apply chain_app. split.
    + apply chain_frame with (h := dheap d); auto.
      * intros y Hy. assert (y <> x).
        { intros ->. destruct Hy as [Hy|Hy]; [congruence|]. apply NoDup_snoc_notin in H3. contradiction. }
        assert (y <> n) by (intros ->; destruct Hy as [Hy|Hy]; [congruence|apply Hnl; rewrite in_app_iff; tauto]).
        destruct (Nat.eq_dec y 0) as [->|Hy0]; updn; simpl; updn; reflexivity.
      * intros y Hy. assert (y <> 0) by (intros ->; contradiction).
        assert (y <> n) by (intros ->; contradiction).
        destruct (Nat.eq_dec y x) as [->|Hyx]; updn; simpl; updn; reflexivity.
    + simpl. updn. simpl. updn. simpl. updn. auto.
Qed.

Lemma pop_front_ring d l : ring d l -> el_ok d ->
  match l with
  | [] => enext (dheap d 0) = Some 0
  | x :: l' => enext (dheap d 0) = Some x /\ x <> 0 /\ x < dnxt d /\
               exists d', unlink d x = Some (d', eitem (dheap d x)) /\ ring d' l'
  end.
Proof.
  intros (Hnd & Hlt & H1 & Hc & Hlen) Hel. destruct l as [|x l']; simpl in Hc; [tauto|].
  destruct Hc as (A & B & C). inv Hnd. inv H3.
  assert (Hx0 : x <> 0) by (intros ->; apply H2; now left).
  split; [assumption|]. split; [assumption|]. split; [apply Hlt; now left|].
  pose proof (chain_first _ _ _ _ C) as Hn. unfold unlink. rewrite B, Hn.
  eexists. split; [reflexivity|]. unfold ring; simpl.
  split; [constructor; [simpl in *; tauto|assumption]|]. split; [intros y Hy; apply Hlt; now right|].
  split; [assumption|]. split; [|simpl in Hlen; lia].
  destruct l' as [|y l'']; simpl in *.
  - updn. simpl. updn. simpl. auto.
  - destruct C as (C1 & C2 & C3).
    assert (y <> 0) by (intros ->; apply H2; tauto).
    updn. simpl. repeat split; auto. inv H5.
    apply chain_frame with (h := dheap d); auto.
    + intros z Hz. assert (z <> 0) by (intros ->; apply H2; simpl in *; tauto).
      destruct (Nat.eq_dec z y) as [->|Hzy]; updn; simpl; updn; reflexivity.
    + intros z Hz. assert (z <> y) by (intros ->; apply in_app_or in Hz; destruct Hz as [Hz|[Hz|[]]]; [contradiction|congruence]).
      destruct (Nat.eq_dec z 0) as [->|Hz0]; updn; simpl; updn; reflexivity.
Qed.

Lemma pop_back_ring d l : ring d l -> el_ok d ->
  (l = [] -> eprev (dheap d 0) = Some 0) /\
  (forall l1 x, l = l1 ++ [x] -> eprev (dheap d 0) = Some x /\ x <> 0 /\ x < dnxt d /\
               exists d', unlink d x = Some (d', eitem (dheap d x)) /\ ring d' l1).
Proof.
  intros (Hnd & Hlt & H1 & Hc & Hlen) Hel. split.
  - intros ->. simpl in Hc. tauto.
  - intros l1 x ->. pose proof (chain_last _ _ _ _ Hc) as Ha. rewrite last_last in Ha.
    apply chain_app in Hc. destruct Hc as (C1 & C2 & C3). simpl in C2, C3. inv Hnd.
    assert (Hx0 : x <> 0) by (intros ->; apply H2; rewrite in_app_iff; simpl; tauto).
    split; [assumption|]. split; [assumption|]. split; [apply Hlt; rewrite in_app_iff; simpl; tauto|].
    pose proof (chain_last _ _ _ _ C1) as Hp. unfold unlink. rewrite Hp, C2.
    eexists. split; [reflexivity|]. unfold ring; simpl.
    pose proof (NoDup_app_l _ _ H3) as Hnd1. pose proof (NoDup_snoc_notin _ _ H3) as Hxl1.
    split; [constructor; [rewrite in_app_iff in H2; tauto|assumption]|].
    split; [intros y Hy; apply Hlt; rewrite in_app_iff; tauto|]. split; [assumption|].
    split; [|rewrite app_length in Hlen; simpl in Hlen; lia].
    destruct (list_snoc_cases l1) as [->|(l0 & y & ->)]; simpl in *.
    + updn. simpl. updn. simpl. auto.
    + rewrite last_last in *. apply chain_app in C1. destruct C1 as (D1 & D2 & D3). simpl in D2, D3.
      assert (y <> 0) by (intros ->; apply H2; rewrite !in_app_iff; simpl; tauto).
      apply chain_app. split.
      * apply chain_frame with (h := dheap d); auto.
        -- intros z Hz. assert (z <> y).
           { intros ->. destruct Hz as [Hz|Hz]; [congruence|]. apply NoDup_snoc_notin in Hnd1. contradiction. }
           destruct (Nat.eq_dec z 0) as [->|Hz0]; updn; simpl; updn; reflexivity.
        -- intros z Hz. assert (z <> 0) by (intros ->; apply H2; rewrite in_app_iff; tauto).
           destruct (Nat.eq_dec z y) as [->|Hzy]; updn; simpl; updn; reflexivity.
      * simpl. updn. simpl. updn. auto.
Qed.
