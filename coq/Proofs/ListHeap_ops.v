(* Specifications of the element/list operations of dt.List on well-formed worlds. *)
From FunV Require Import Base.Tac Base.ListX Model.SortSpec Model.ListHeap
  Proofs.ListHeap_ring Proofs.ListHeap_wf Proofs.ListHeap_splice.
Local Open Scope Z_scope.

Ltac mrun := repeat (progress (cbv beta delta [bind fld deref get ret modify wr panic]; simpl)).

(* worlds only grow; what an operation that does not touch a node leaves alone *)
Record ext (w w' : world) : Prop := {
  ex_nfresh : (nfresh w <= nfresh w')%nat;
  ex_lfresh : (lfresh w <= lfresh w')%nat }.

Lemma ext_refl w : ext w w. Proof. split; lia. Qed.
Lemma ext_trans a b c : ext a b -> ext b c -> ext a c.
Proof. intros [] []. split; lia. Qed.
Lemma same_data_ext w w' : same_data w w' -> ext w w'.
Proof. intros []. split; lia. Qed.

(* ---------------------------------------------------------------- lazySetup *)
Definition setup_world (w : world) (l : nat) : world :=
  let r := nfresh w in
  let w0 := mkW (upd (nodes w) r (mkNode None None None true 0)) (S r) (lists w) (lfresh w) in
  let w1 := wlist w0 l (fun x => set_root x (Some r)) in
  let w2 := wnode w1 r (fun n => set_next n (Some r)) in
  let w3 := wnode w2 r (fun n => set_prev n (Some r)) in
  let w4 := wnode w3 r (fun n => set_owner n (Some l)) in
  wnode w4 r (fun n => set_ok n false).
Arguments setup_world : simpl never.

Lemma lazySetup_some w l r : lroot (lists w l) = Some r -> lazySetup l w = Ret tt w.
Proof. intros H. unfold lazySetup, Root. mrun. rewrite H. reflexivity. Qed.

Lemma lazySetup_none w l : lroot (lists w l) = None -> lazySetup l w = Ret tt (setup_world w l).
Proof.
  intros H. unfold lazySetup, Root, makeElem, alloc, setup_world. mrun. rewrite H. simpl.
  repeat (progress (rewrite ?upd_same; simpl)). reflexivity.
Qed.

Lemma setup_node w l : nodes (setup_world w l) (nfresh w) = mkNode (Some (nfresh w)) (Some (nfresh w)) (Some l) false 0.
Proof. unfold setup_world. hs. Qed.
Lemma setup_other w l x : x <> nfresh w -> nodes (setup_world w l) x = nodes w x.
Proof. intros. unfold setup_world. hs. Qed.
Lemma setup_list w l : lists (setup_world w l) l = set_root (lists w l) (Some (nfresh w)).
Proof. unfold setup_world. hs. Qed.
Lemma setup_lists w l x : x <> l -> lists (setup_world w l) x = lists w x.
Proof. intros. unfold setup_world. hs. Qed.

Lemma setup_WF w E l :
  WF w E -> (l < lfresh w)%nat -> lroot (lists w l) = None -> WF (setup_world w l) E.
Proof.
  intros W Hl Hr. set (w' := setup_world w l). pose (r := nfresh w).
  pose proof (wf_lists _ _ W l Hl) as L. rewrite Hr in L. destruct L as [Len El].
  assert (C : forall l0, cyc_of w' E l0 = if Nat.eqb l0 l then [r] else cyc_of w E l0).
  { intros l0. unfold cyc_of. destruct (Nat.eqb_spec l0 l) as [->|Hne].
    - subst w'. rewrite setup_list. simpl. rewrite El. reflexivity.
    - subst w'. rewrite setup_lists by auto. reflexivity. }
  assert (LT : forall l0 x, (l0 < lfresh w)%nat -> In x (cyc_of w E l0) -> x <> r).
  { intros l0 x Hl0 I. pose proof (wf_lt _ _ W l0 x Hl0 I). subst r. lia. }
  split.
  - intros l0 Hl0. change (lfresh w') with (lfresh w) in Hl0.
    destruct (Nat.eq_dec l0 l) as [->|Hne].
    + subst w'. rewrite setup_list. simpl. rewrite El. split.
      * split; [constructor; [intros []|constructor]|]. simpl rev.
        split; apply dlinks_nil; rewrite setup_node; reflexivity.
      * rewrite setup_list. simpl. exact Len.
      * rewrite setup_node. reflexivity.
      * constructor.
    + subst w'. rewrite setup_lists by auto. pose proof (wf_lists _ _ W l0 Hl0) as L0.
      destruct (lroot (lists w l0)) as [r0|] eqn:Hr0; [|exact L0].
      eapply lwf_frame; [| |exact L0]; [|rewrite setup_lists; auto].
      intros x Hx. rewrite setup_other; auto.
      apply (LT l0); auto. unfold cyc_of. rewrite Hr0. exact Hx.
  - intros x l0 Hx. change (lfresh w') with (lfresh w). rewrite C.
    destruct (Nat.eq_dec x r) as [->|Hxr].
    + subst w'. rewrite setup_node. simpl. destruct (Nat.eqb_spec l0 l) as [->|Hne].
      * simpl. intuition.
      * split; [congruence|]. intros [Hl0 I]. exfalso. apply (LT l0 r Hl0 I). reflexivity.
    + subst w'. rewrite setup_other by auto.
      assert (Hx' : (x < nfresh w)%nat) by (change (nfresh (setup_world w l)) with (S (nfresh w)) in Hx; subst r; lia).
      rewrite (wf_own _ _ W x l0 Hx'). destruct (Nat.eqb_spec l0 l) as [->|Hne]; [|tauto].
      unfold cyc_of. rewrite Hr. simpl. intuition.
  - intros l0 x Hl0 I. change (lfresh w') with (lfresh w) in Hl0. rewrite C in I.
    change (nfresh w') with (S (nfresh w)).
    destruct (Nat.eqb_spec l0 l) as [->|Hne].
    + destruct I as [<-|[]]. subst r. lia.
    + pose proof (wf_lt _ _ W l0 x Hl0 I). lia.
Qed.

(* lazySetup in one statement *)
Lemma lazySetup_spec w E l :
  WF w E -> (l < lfresh w)%nat ->
  exists w' r, lazySetup l w = Ret tt w' /\ WF w' E /\ lroot (lists w' l) = Some r /\
               ext w w' /\ lfresh w' = lfresh w /\
               (forall x, (x < nfresh w)%nat -> nodes w' x = nodes w x) /\
               (forall l0, llen (lists w' l0) = llen (lists w l0)) /\
               (forall l0, l0 <> l -> lists w' l0 = lists w l0) /\
               (forall r0, lroot (lists w l) = Some r0 -> w' = w).
Proof.
  intros W Hl. destruct (lroot (lists w l)) as [r|] eqn:Hr.
  - exists w, r. rewrite (lazySetup_some _ _ _ Hr).
    split; [reflexivity|]. split; [exact W|]. split; [exact Hr|]. split; [apply ext_refl|]. repeat split; auto.
  - exists (setup_world w l), (nfresh w). rewrite (lazySetup_none _ _ Hr).
    split; [reflexivity|]. split; [apply setup_WF; auto|]. split; [rewrite setup_list; reflexivity|].
    split; [split; simpl; lia|]. split; [reflexivity|]. split; [intros x Hx; apply setup_other; lia|].
    split; [|split; [intros; apply setup_lists; auto|intros; discriminate]].
    intros l0. destruct (Nat.eq_dec l0 l) as [->|Hne]; [rewrite setup_list; reflexivity|rewrite setup_lists; auto].
Qed.

(* ---------------------------------------------------------------- Append *)
Definition can_append (w : world) (e : nat) (n : ref) : bool :=
  match n with
  | None => false
  | Some nn => nok (nodes w nn) && negb (is_nil (nowner (nodes w e))) && is_nil (nowner (nodes w nn))
  end.

Lemma appendable_run w e n : appendable (Some e) n w = Ret (can_append w e n) w.
Proof.
  unfold appendable, can_append. destruct n as [nn|]; mrun; [|reflexivity].
  destruct (nok (nodes w nn)); simpl; [|reflexivity].
  destruct (nowner (nodes w e)); simpl; reflexivity.
Qed.

Lemma Append_reject w e n : can_append w e n = false -> Append (Some e) n w = Ret (Some e) w.
Proof. intros H. unfold Append, bind. rewrite appendable_run, H. reflexivity. Qed.

Lemma Append_accept w E e nn :
  WF w E -> (e < nfresh w)%nat -> (nn < nfresh w)%nat -> can_append w e (Some nn) = true ->
  exists l r w', nowner (nodes w e) = Some l /\ (l < lfresh w)%nat /\ lroot (lists w l) = Some r /\ In e (r :: E l) /\
     nowner (nodes w nn) = None /\ nok (nodes w nn) = true /\
     Append (Some e) (Some nn) w = Ret (Some nn) w' /\
     WF w' (upd E l (ins_cyc e nn r (E l))) /\ same_data w w' /\
     (forall x, x <> nn -> nowner (nodes w' x) = nowner (nodes w x)) /\
     nowner (nodes w' nn) = Some l /\
     llen (lists w' l) = llen (lists w l) + 1 /\
     (forall l', l' <> l -> lists w' l' = lists w l').
Proof.
  intros W He Hn C. unfold can_append in C.
  apply andb_prop in C. destruct C as [C C3]. apply andb_prop in C. destruct C as [C1 C2].
  destruct (nowner (nodes w e)) as [l|] eqn:Hoe; [|discriminate].
  destruct (nowner (nodes w nn)) eqn:Hon; [discriminate|].
  destruct (WF_owner_inv _ _ _ _ W He Hoe) as (Hl & r & Hr & Hin & _).
  destruct (ua_WF w E l r e nn W Hl Hr Hin Hn Hon C1) as (w' & Run & W' & SD & O1 & O2 & Len & Oth).
  exists l, r, w'. repeat (split; [solve [auto]|]). split; [|auto 10].
  unfold Append, bind. rewrite appendable_run. unfold can_append. rewrite C1, Hoe, Hon. simpl.
  rewrite Run. reflexivity.
Qed.

(* ---------------------------------------------------------------- Remove / Drop *)
Definition can_remove (w : world) (e : nat) : bool :=
  match nowner (nodes w e) with
  | None => false
  | Some l => negb (ref_eqb (lroot (lists w l)) (Some e)) && (0 <? llen (lists w l))
  end.

Lemma removable_run w e : removable (Some e) w = Ret (can_remove w e) w.
Proof.
  unfold removable, can_remove, Root, Len. mrun. destruct (nowner (nodes w e)) as [l|]; [|reflexivity].
  simpl. destruct (ref_eqb (lroot (lists w l)) (Some e)); reflexivity.
Qed.

Lemma can_remove_true w E e :
  WF w E -> (e < nfresh w)%nat -> can_remove w e = true ->
  exists l r, (l < lfresh w)%nat /\ lroot (lists w l) = Some r /\ nowner (nodes w e) = Some l /\ In e (E l).
Proof.
  intros W He C. unfold can_remove in C. destruct (nowner (nodes w e)) as [l|] eqn:Ho; [|discriminate].
  destruct (WF_owner_inv _ _ _ _ W He Ho) as (Hl & r & Hr & Hin & _).
  exists l, r. repeat (split; [solve [auto]|]). rewrite Hr in C. simpl in C.
  destruct Hin as [->|Hin]; [|exact Hin]. rewrite Nat.eqb_refl in C. discriminate.
Qed.

Lemma can_remove_attached w E l r e :
  WF w E -> (l < lfresh w)%nat -> lroot (lists w l) = Some r -> In e (E l) -> can_remove w e = true.
Proof.
  intros W Hl Hr Hin. unfold can_remove.
  destruct (WF_elem_in _ _ _ _ _ W Hl Hr (or_intror Hin)) as [Ho _]. rewrite Ho, Hr. simpl.
  pose proof (wf_lists _ _ W l Hl) as L. rewrite Hr in L. destruct L as [[ND _] Len _ _].
  apply andb_true_intro. split.
  - destruct (Nat.eqb_spec r e); [subst; inv ND; tauto|reflexivity].
  - rewrite Len. destruct (E l); [destruct Hin|simpl length; lia].
Qed.

Lemma can_remove_root w l r : lroot (lists w l) = Some r -> nowner (nodes w r) = Some l -> can_remove w r = false.
Proof. intros Hr Ho. unfold can_remove. rewrite Ho, Hr. simpl. rewrite Nat.eqb_refl. reflexivity. Qed.

Lemma Remove_reject w e : can_remove w e = false -> Remove (Some e) w = Ret false w.
Proof. intros H. unfold Remove, bind. rewrite removable_run, H. reflexivity. Qed.

Lemma Remove_accept w E e :
  WF w E -> (e < nfresh w)%nat -> can_remove w e = true ->
  exists l r w', (l < lfresh w)%nat /\ lroot (lists w l) = Some r /\ nowner (nodes w e) = Some l /\ In e (E l) /\
     Remove (Some e) w = Ret true w' /\
     WF w' (upd E l (del e (E l))) /\ same_data w w' /\
     (forall x, x <> e -> nowner (nodes w' x) = nowner (nodes w x)) /\
     nowner (nodes w' e) = None /\
     llen (lists w' l) = llen (lists w l) - 1 /\
     (forall l', l' <> l -> lists w' l' = lists w l').
Proof.
  intros W He C. destruct (can_remove_true _ _ _ W He C) as (l & r & Hl & Hr & Ho & Hin).
  destruct (ur_WF w E l r e W Hl Hr Hin) as (w' & Run & W' & SD & O1 & O2 & Len & Oth).
  exists l, r, w'. repeat (split; [solve [auto]|]). split; [|auto 10].
  unfold Remove, bind. rewrite removable_run, C. simpl. rewrite Run. reflexivity.
Qed.

(* the two writes of Drop after a successful Remove: e.item = zero; e.ok = false *)
Definition drop_world (w : world) (e : nat) : world :=
  wnode (wnode w e (fun n => set_item n 0)) e (fun n => set_ok n false).

Lemma detached_write_WF w E e f :
  WF w E -> (e < nfresh w)%nat -> nowner (nodes w e) = None -> nowner (f (nodes w e)) = None ->
  WF (wnode w e (fun _ => f (nodes w e))) E.
Proof.
  intros W He Ho Hf. apply (WF_frame w); simpl; auto.
  - intros x Hx Hox. assert (x <> e) by congruence. rewrite upd_other by auto. auto.
  - intros x Hx Hd. unfold upd. destruct (Nat.eqb_spec x e); [exact Hf|]. apply Hd.
    destruct (lt_dec x (nfresh w)); auto. 
Qed.

(* ---------------------------------------------------------------- pop / PopFront / PopBack / Front / Back *)
Lemma pop_reject w l e :
  can_remove w e = false -> pop l (Some e) w = alloc zero_node w.
Proof. intros C. unfold pop, bind. rewrite removable_run, C. mrun. reflexivity. Qed.

Lemma pop_accept w E l r e :
  WF w E -> (l < lfresh w)%nat -> lroot (lists w l) = Some r -> In e (E l) ->
  exists w', pop l (Some e) w = Ret (Some e) w' /\
     WF w' (upd E l (del e (E l))) /\ same_data w w' /\
     (forall x, x <> e -> nowner (nodes w' x) = nowner (nodes w x)) /\
     nowner (nodes w' e) = None /\
     llen (lists w' l) = llen (lists w l) - 1 /\
     (forall l', l' <> l -> lists w' l' = lists w l').
Proof.
  intros W Hl Hr Hin.
  pose proof (can_remove_attached _ _ _ _ _ W Hl Hr Hin) as C.
  destruct (WF_elem_in _ _ _ _ _ W Hl Hr (or_intror Hin)) as [Ho _].
  destruct (ur_WF w E l r e W Hl Hr Hin) as (w' & Run & Rest).
  exists w'. split; [|exact Rest].
  unfold pop, bind. rewrite removable_run, C. mrun. rewrite Ho. simpl. rewrite Nat.eqb_refl. simpl.
  unfold bind in Run. rewrite Run. reflexivity.
Qed.

Lemma root_next w E l r : WF w E -> (l < lfresh w)%nat -> lroot (lists w l) = Some r ->
  nnext (nodes w r) = Some (hd r (E l)) /\ nprev (nodes w r) = Some (last (E l) r).
Proof.
  intros W Hl Hr. pose proof (wf_lists _ _ W l Hl) as L. rewrite Hr in L. destruct L as [[ND [Df Db]] _ _ _].
  split; [apply (dlinks_root _ _ _ _ Df)|].
  rewrite (dlinks_root _ _ _ _ Db). f_equal. unfold first.
  destruct (list_snoc_cases (E l)) as [->|(t & x & ->)]; [reflexivity|].
  rewrite rev_app_distr, last_last. reflexivity.
Qed.

Lemma Front_spec w E l :
  WF w E -> (l < lfresh w)%nat ->
  exists w' r, Front l w = Ret (Some (hd r (E l))) w' /\ lazySetup l w = Ret tt w' /\ lroot (lists w' l) = Some r /\ WF w' E.
Proof.
  intros W Hl. destruct (lazySetup_spec w E l W Hl) as (w' & r & Run & W' & Hr & Ex & Hlf & _).
  exists w', r. split; [|auto]. unfold Front, bind. rewrite Run. unfold Root. mrun. rewrite Hr. simpl.
  destruct (root_next w' E l r W') as [-> _]; auto. lia.
Qed.

Lemma Back_spec w E l :
  WF w E -> (l < lfresh w)%nat ->
  exists w' r, Back l w = Ret (Some (last (E l) r)) w' /\ lazySetup l w = Ret tt w' /\ lroot (lists w' l) = Some r /\ WF w' E.
Proof.
  intros W Hl. destruct (lazySetup_spec w E l W Hl) as (w' & r & Run & W' & Hr & Ex & Hlf & _).
  exists w', r. split; [|auto]. unfold Back, bind. rewrite Run. unfold Root. mrun. rewrite Hr. simpl.
  destruct (root_next w' E l r W') as [_ ->]; auto. lia.
Qed.

Lemma del_hd x t : del x (x :: t) = t.
Proof. simpl. rewrite Nat.eqb_refl. reflexivity. Qed.

Lemma del_last x t : ~ In x t -> del x (t ++ [x]) = t.
Proof. intros H. rewrite del_split by exact H. apply app_nil_r. Qed.

Lemma PopFront_cons w E l x t :
  WF w E -> (l < lfresh w)%nat -> E l = x :: t ->
  exists w', PopFront l w = Ret (Some x) w' /\
     WF w' (upd E l t) /\ same_data w w' /\
     (forall y, y <> x -> nowner (nodes w' y) = nowner (nodes w y)) /\
     nowner (nodes w' x) = None /\
     llen (lists w' l) = llen (lists w l) - 1 /\
     (forall l', l' <> l -> lists w' l' = lists w l').
Proof.
  intros W Hl EQ. pose proof (wf_lists _ _ W l Hl) as L.
  destruct (lroot (lists w l)) as [r|] eqn:Hr; [|destruct L; congruence].
  assert (Hin : In x (E l)) by (rewrite EQ; left; reflexivity).
  destruct (pop_accept w E l r x W Hl Hr Hin) as (w' & Run & Rest).
  rewrite EQ, del_hd in Rest. exists w'. split; [|exact Rest].
  unfold PopFront, bind. rewrite (lazySetup_some _ _ _ Hr). unfold Root. mrun. rewrite Hr. simpl.
  destruct (root_next w E l r W Hl Hr) as [-> _]. rewrite EQ. simpl. exact Run.
Qed.

Lemma PopBack_snoc w E l x t :
  WF w E -> (l < lfresh w)%nat -> E l = t ++ [x] ->
  exists w', PopBack l w = Ret (Some x) w' /\
     WF w' (upd E l t) /\ same_data w w' /\
     (forall y, y <> x -> nowner (nodes w' y) = nowner (nodes w y)) /\
     nowner (nodes w' x) = None /\
     llen (lists w' l) = llen (lists w l) - 1 /\
     (forall l', l' <> l -> lists w' l' = lists w l').
Proof.
  intros W Hl EQ. pose proof (wf_lists _ _ W l Hl) as L.
  destruct (lroot (lists w l)) as [r|] eqn:Hr; [|destruct L as [_ L]; rewrite L in EQ; destruct t; discriminate].
  assert (Hin : In x (E l)) by (rewrite EQ; apply in_or_app; right; left; reflexivity).
  destruct (pop_accept w E l r x W Hl Hr Hin) as (w' & Run & Rest).
  assert (ND : ~ In x t).
  { destruct L as [[ND _] _ _ _]. rewrite EQ in ND. inv ND.
    apply (NoDup_mid_notin t [] x) in H2. rewrite app_nil_r in H2. exact H2. }
  rewrite EQ, del_last in Rest by exact ND. exists w'. split; [|exact Rest].
  unfold PopBack, bind. rewrite (lazySetup_some _ _ _ Hr). unfold Root. mrun. rewrite Hr. simpl.
  destruct (root_next w E l r W Hl Hr) as [_ ->]. rewrite EQ, last_last. exact Run.
Qed.

(* pop on an empty list: a fresh zero element *)
Lemma PopFront_nil w E l :
  WF w E -> (l < lfresh w)%nat -> E l = [] ->
  exists w1 w' r, lazySetup l w = Ret tt w1 /\ lroot (lists w1 l) = Some r /\ WF w1 E /\
     PopFront l w = Ret (Some (nfresh w1)) w' /\ alloc zero_node w1 = Ret (Some (nfresh w1)) w' /\ WF w' E /\
     (forall x, (x < nfresh w)%nat -> nodes w' x = nodes w x) /\ lfresh w' = lfresh w /\ (nfresh w <= nfresh w')%nat /\
     (forall l0, l0 <> l -> lists w' l0 = lists w l0) /\ nodes w' (nfresh w1) = zero_node.
Proof.
  intros W Hl EQ. destruct (lazySetup_spec w E l W Hl) as (w1 & r & Run & W1 & Hr & Ex & Hlf & Fr1 & _ & Oth1 & _).
  assert (Hl1 : (l < lfresh w1)%nat) by lia.
  destruct (alloc_WF w1 E zero_node W1 eq_refl) as (w' & A & W' & Hz & Hnf & HL & Hlf' & Fr2).
  destruct Ex as [Ex Ex'].
  exists w1, w', r. repeat (split; [solve [auto]|]). split; [|split; [exact A|split; [exact W'|]]].
  2:{ split; [intros x Hx; rewrite Fr2 by lia; auto|]. split; [lia|]. split; [lia|]. split; [|exact Hz].
      intros l0 Hne. rewrite HL. auto. }
  unfold PopFront, bind. rewrite Run. unfold Root. mrun. rewrite Hr. simpl.
  destruct (root_next w1 E l r W1 Hl1 Hr) as [-> _]. rewrite EQ. simpl.
  rewrite pop_reject; [exact A|]. destruct (WF_root_in _ _ _ _ W1 Hl1 Hr). eapply can_remove_root; eauto.
Qed.

Lemma PopBack_nil w E l :
  WF w E -> (l < lfresh w)%nat -> E l = [] ->
  exists w1 w' r, lazySetup l w = Ret tt w1 /\ lroot (lists w1 l) = Some r /\ WF w1 E /\
     PopBack l w = Ret (Some (nfresh w1)) w' /\ alloc zero_node w1 = Ret (Some (nfresh w1)) w' /\ WF w' E /\
     (forall x, (x < nfresh w)%nat -> nodes w' x = nodes w x) /\ lfresh w' = lfresh w /\ (nfresh w <= nfresh w')%nat /\
     (forall l0, l0 <> l -> lists w' l0 = lists w l0) /\ nodes w' (nfresh w1) = zero_node.
Proof.
  intros W Hl EQ. destruct (lazySetup_spec w E l W Hl) as (w1 & r & Run & W1 & Hr & Ex & Hlf & Fr1 & _ & Oth1 & _).
  assert (Hl1 : (l < lfresh w1)%nat) by lia.
  destruct (alloc_WF w1 E zero_node W1 eq_refl) as (w' & A & W' & Hz & Hnf & HL & Hlf' & Fr2).
  destruct Ex as [Ex Ex'].
  exists w1, w', r. repeat (split; [solve [auto]|]). split; [|split; [exact A|split; [exact W'|]]].
  2:{ split; [intros x Hx; rewrite Fr2 by lia; auto|]. split; [lia|]. split; [lia|]. split; [|exact Hz].
      intros l0 Hne. rewrite HL. auto. }
  unfold PopBack, bind. rewrite Run. unfold Root. mrun. rewrite Hr. simpl.
  destruct (root_next w1 E l r W1 Hl1 Hr) as [_ ->]. rewrite EQ. simpl.
  rewrite pop_reject; [exact A|]. destruct (WF_root_in _ _ _ _ W1 Hl1 Hr). eapply can_remove_root; eauto.
Qed.

(* ---------------------------------------------------------------- preserved data *)
Record pres (w w' : world) : Prop := {
  pr_ext : ext w w';
  pr_item : forall x, (x < nfresh w)%nat -> nitem (nodes w' x) = nitem (nodes w x);
  pr_ok : forall x, (x < nfresh w)%nat -> nok (nodes w' x) = nok (nodes w x) }.

Lemma pres_refl w : pres w w.
Proof. split; auto. apply ext_refl. Qed.
Lemma pres_trans a b c : pres a b -> pres b c -> pres a c.
Proof.
  intros [e1 i1 o1] [e2 i2 o2]. destruct e1 as [n1 l1]. split.
  - eapply ext_trans; eauto. split; auto.
  - intros x Hx. rewrite i2 by lia. auto.
  - intros x Hx. rewrite o2 by lia. auto.
Qed.
Lemma same_data_pres w w' : same_data w w' -> pres w w'.
Proof. intros S. split; [apply same_data_ext; auto|intros; apply (sd_item _ _ S)|intros; apply (sd_ok _ _ S)]. Qed.
Lemma frame_pres w w' : ext w w' -> (forall x, (x < nfresh w)%nat -> nodes w' x = nodes w x) -> pres w w'.
Proof. intros Ex F. split; auto; intros x Hx; rewrite F; auto. Qed.

Lemma abs_pres w w' E l : WF w E -> (l < lfresh w)%nat -> pres w w' -> abs w' E l = abs w E l.
Proof.
  intros W Hl P. unfold abs, items. apply map_ext_in. intros x Hx. apply (pr_item _ _ P).
  pose proof (wf_lists _ _ W l Hl) as L. destruct (lroot (lists w l)) as [r|] eqn:Hr.
  - apply (WF_elem_in _ _ _ _ _ W Hl Hr). right. exact Hx.
  - destruct L as [_ L]. rewrite L in Hx. destruct Hx.
Qed.

Lemma ins_cyc_root n r es : ins_cyc r n r es = n :: es.
Proof. unfold ins_cyc. rewrite Nat.eqb_refl. reflexivity. Qed.

Lemma ins_cyc_last n r es : NoDup (r :: es) -> ins_cyc (last es r) n r es = es ++ [n].
Proof.
  intros ND. destruct (list_snoc_cases es) as [->|(t & x & ->)].
  - simpl. apply ins_cyc_root.
  - rewrite last_last. unfold ins_cyc. destruct (Nat.eqb_spec x r) as [->|Hne].
    + exfalso. inv ND. apply H1. apply in_or_app. right. left. reflexivity.
    + inv ND. rewrite ins_after_split.
      * rewrite <- app_assoc. reflexivity.
      * apply (NoDup_mid_notin t [] x) in H2. rewrite app_nil_r in H2. exact H2.
Qed.

(* ---------------------------------------------------------------- PushFront / PushBack *)
Lemma Push_spec (front : bool) w E l v :
  WF w E -> (l < lfresh w)%nat ->
  exists w' n, (if front then PushFront l v w else PushBack l v w) = Ret tt w' /\
     WF w' (upd E l (if front then n :: E l else E l ++ [n])) /\
     (nfresh w <= n < nfresh w')%nat /\ nitem (nodes w' n) = v /\ nok (nodes w' n) = true /\
     pres w w' /\ lfresh w' = lfresh w /\
     llen (lists w' l) = llen (lists w l) + 1 /\
     (forall l', l' <> l -> lists w' l' = lists w l').
Proof.
  intros W Hl.
  destruct (lazySetup_spec w E l W Hl) as (w1 & r & Run1 & W1 & Hr1 & Ex1 & Hlf1 & Fr1 & Len1 & Oth1 & _).
  assert (Hl1 : (l < lfresh w1)%nat) by lia.
  destruct (alloc_WF w1 E (mkNode None None None true v) W1 eq_refl) as (w2 & A & W2 & Hn2 & Hnf2 & HL2 & Hlf2 & Fr2).
  set (n := nfresh w1) in *.
  assert (Hr2 : lroot (lists w2 l) = Some r) by (rewrite HL2; exact Hr1).
  assert (Hl2 : (l < lfresh w2)%nat) by lia.
  pose proof (wf_lists _ _ W2 l Hl2) as L2. rewrite Hr2 in L2. destruct L2 as [[ND2 _] _ _ _].
  set (e := if front then r else last (E l) r).
  assert (Hein : In e (r :: E l)).
  { subst e. destruct front; [left; reflexivity|].
    destruct (list_snoc_cases (E l)) as [->|(t & x & ->)]; [left; reflexivity|].
    rewrite last_last. right. apply in_or_app. right. left. reflexivity. }
  destruct (WF_elem_in _ _ _ _ _ W2 Hl2 Hr2 Hein) as [Hoe Hlte].
  assert (Hnlt : (n < nfresh w2)%nat) by lia.
  assert (CA : can_append w2 e (Some n) = true).
  { unfold can_append. rewrite Hn2, Hoe. reflexivity. }
  destruct (Append_accept w2 E e n W2 Hlte Hnlt CA) as (l' & r' & w3 & Ho' & Hl' & Hr' & Hin' & _ & _ & Run3 & W3 & SD3 & _ & _ & Len3 & Oth3).
  assert (l' = l) by congruence. subst l'. assert (r' = r) by congruence. subst r'.
  exists w3, n. split.
  { pose proof A as A'. unfold alloc in A'. injection A' as Hw2.
    destruct front; unfold PushFront, PushBack, bind; rewrite Run1; unfold Root; mrun; rewrite Hr1; simpl.
    - rewrite Hw2. subst e. unfold n in Run3. rewrite Run3. reflexivity.
    - destruct (root_next w1 E l r W1 Hl1 Hr1) as [_ ->]. simpl.
      rewrite Hw2. subst e. unfold n in Run3. rewrite Run3. reflexivity. }
  split.
  { replace (if front then n :: E l else E l ++ [n]) with (ins_cyc e n r (E l)); [exact W3|].
    subst e. destruct front; [apply ins_cyc_root|apply ins_cyc_last; exact ND2]. }
  destruct Ex1 as [Ex1 Ex1'].
  split; [rewrite (sd_nfresh _ _ SD3); lia|].
  split; [rewrite (sd_item _ _ SD3), Hn2; reflexivity|].
  split; [rewrite (sd_ok _ _ SD3), Hn2; reflexivity|].
  split.
  { apply (pres_trans w w1); [apply frame_pres; [split; auto|exact Fr1]|].
    apply (pres_trans w1 w2); [apply frame_pres; [split; lia|]|apply same_data_pres; exact SD3].
    intros x Hx. apply Fr2. lia. }
  split; [rewrite (sd_lfresh _ _ SD3); lia|].
  split; [rewrite Len3, HL2, Len1; reflexivity|].
  intros l0 Hne. rewrite Oth3, HL2, Oth1; auto.
Qed.

(* ---------------------------------------------------------------- Set / Drop / Swap (rejected) / reads *)
Definition is_root (w : world) (e : nat) : bool :=
  match nowner (nodes w e) with None => false | Some l => ref_eqb (lroot (lists w l)) (Some e) end.

Definition set_world (w : world) (e : nat) (v : Z) : world :=
  wnode (wnode w e (fun n => set_ok n true)) e (fun n => set_item n v).

Lemma SetV_run w e v :
  SetV (Some e) v w = if is_root w e then Ret false w else Ret true (set_world w e v).
Proof.
  unfold SetV, is_root, set_world, Root. mrun. destruct (nowner (nodes w e)) as [l|]; simpl; [|reflexivity].
  destruct (ref_eqb (lroot (lists w l)) (Some e)); reflexivity.
Qed.

Lemma attached_ok w E e :
  WF w E -> (e < nfresh w)%nat -> nowner (nodes w e) <> None -> is_root w e = false -> nok (nodes w e) = true.
Proof.
  intros W He Ho Hr. destruct (nowner (nodes w e)) as [l|] eqn:Hoe; [|congruence].
  destruct (WF_owner_inv _ _ _ _ W He Hoe) as (Hl & r & Hrt & Hin & L).
  unfold is_root in Hr. rewrite Hoe, Hrt in Hr. simpl in Hr.
  destruct Hin as [->|Hin]; [rewrite Nat.eqb_refl in Hr; discriminate|].
  destruct L as [_ _ _ Eok]. rewrite Forall_forall in Eok. auto.
Qed.

Lemma set_world_WF w E e v :
  WF w E -> (e < nfresh w)%nat -> is_root w e = false -> WF (set_world w e v) E.
Proof.
  intros W He Hr. apply (WF_frame w); auto; unfold set_world.
  - intros x Hx Hox. destruct (Nat.eq_dec x e) as [->|Hne].
    + hs. repeat split; auto. symmetry. eapply attached_ok; eauto.
    + hs.
  - intros x Hx Hd. simpl in Hx. destruct (Nat.eq_dec x e) as [->|Hne]; hs.
Qed.

Lemma set_world_fields w e v :
  nitem (nodes (set_world w e v) e) = v /\ nok (nodes (set_world w e v) e) = true /\
  (forall x, x <> e -> nodes (set_world w e v) x = nodes w x) /\
  (forall x, nowner (nodes (set_world w e v) x) = nowner (nodes w x)) /\
  lists (set_world w e v) = lists w /\ nfresh (set_world w e v) = nfresh w /\ lfresh (set_world w e v) = lfresh w.
Proof. unfold set_world. repeat split; intros; hs. Qed.

Lemma Drop_reject w e : can_remove w e = false -> Drop (Some e) w = Ret tt w.
Proof. intros C. unfold Drop, bind. rewrite (Remove_reject _ _ C). reflexivity. Qed.

Lemma Drop_accept w E e :
  WF w E -> (e < nfresh w)%nat -> can_remove w e = true ->
  exists l r w', (l < lfresh w)%nat /\ lroot (lists w l) = Some r /\ nowner (nodes w e) = Some l /\ In e (E l) /\
     Drop (Some e) w = Ret tt w' /\
     WF w' (upd E l (del e (E l))) /\
     (forall x, x <> e -> nitem (nodes w' x) = nitem (nodes w x) /\ nok (nodes w' x) = nok (nodes w x) /\
                          nowner (nodes w' x) = nowner (nodes w x)) /\
     nowner (nodes w' e) = None /\ nok (nodes w' e) = false /\ nitem (nodes w' e) = 0 /\
     nfresh w' = nfresh w /\ lfresh w' = lfresh w /\
     llen (lists w' l) = llen (lists w l) - 1 /\
     (forall l', l' <> l -> lists w' l' = lists w l') /\
     (forall l', lroot (lists w' l') = lroot (lists w l')).
Proof.
  intros W He C.
  destruct (Remove_accept w E e W He C) as (l & r & w1 & Hl & Hr & Ho & Hin & Run & W1 & SD & O1 & O2 & Len & Oth).
  exists l, r, (drop_world w1 e). repeat (split; [solve [auto]|]).
  assert (He1 : (e < nfresh w1)%nat) by (rewrite (sd_nfresh _ _ SD); exact He).
  split.
  { unfold Drop, bind. rewrite Run. mrun. reflexivity. }
  split.
  { unfold drop_world. apply (WF_frame w1); auto.
    - intros x Hx Hox. assert (x <> e) by congruence. hs.
    - intros x Hx Hd. simpl in Hx. destruct (Nat.eq_dec x e) as [->|Hne]; hs. }
  split.
  { intros x Hne. unfold drop_world. hs. rewrite (sd_item _ _ SD), (sd_ok _ _ SD), O1; auto. }
  assert (SN : nfresh (drop_world w1 e) = nfresh w1) by reflexivity.
  assert (SL : lists (drop_world w1 e) = lists w1) by reflexivity.
  split; [unfold drop_world; hs|]. split; [unfold drop_world; hs|]. split; [unfold drop_world; hs|].
  split; [rewrite SN; apply (sd_nfresh _ _ SD)|]. split; [apply (sd_lfresh _ _ SD)|].
  rewrite SL. split; [exact Len|]. split; [exact Oth|]. intros. apply (sd_root _ _ SD).
Qed.

Lemma Swap_reject w e x : swap_succeeds w e x = false -> Swap e x w = Ret false w.
Proof.
  unfold Swap, swap_succeeds. destruct x as [b|]; destruct e as [a|]; simpl; try reflexivity.
  mrun. destruct (nowner (nodes w a)) as [l|]; simpl; [|reflexivity].
  intros H. destruct (nowner (nodes w b)) as [l2|]; simpl in *; [|reflexivity].
  destruct (Nat.eqb l l2); simpl in *; [|reflexivity].
  destruct (Nat.eqb a b); simpl in *; [reflexivity|discriminate].
Qed.
