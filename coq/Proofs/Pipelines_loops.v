(* C04: no goroutine can go round a loop without looking at a context.

   [consults i]: the instruction blocks on / tests a context (the select of ChanSend.Write and
   ChanReceive.Read, wg.Wait(ctx), an explicit ctx.Err() test). A call of user code (ISrc: the input's
   ReadOne, a generator) does NOT count: user code may ignore its context.
   [loops_guarded]: the static check on the network term - every jump of a context-blind instruction
   goes forward, or lands on an instruction that consults a context. So every cycle of every control
   graph passes through a consulting instruction, and (theorem [blind_run_bounded]) a goroutine executes
   at most |program| instructions between two consultations. This is the check that the retry loop of
   GenerateParallel's workers (generator fails, ContinueOnError: skip, call again) needs: it blocks
   nowhere, so "every blocking instruction is ctx-guarded" says nothing about it. *)
From FunV Require Import Base.Tac Base.ListX Model.Pipelines
  Proofs.Pipelines_conserve Proofs.Pipelines_quiesce Proofs.Pipelines_nets Proofs.Pipelines_complete Proofs.Pipelines_closer.

Definition consults (i : instr) : bool :=
  match i with
  | IRecv _ _ _ _ _ | ISend _ _ _ _ _ | ICheck _ _ _ | IWgWait (Some _) _ => true
  | _ => false
  end.

Definition consults_at (prog : list instr) (k : nat) : bool :=
  match nth_error prog k with Some j => consults j | None => false end.

Definition fwd_ok (prog : list instr) (pc : nat) (i : instr) : bool :=
  consults i || forallb (fun k => (pc <? k) || consults_at prog k) (targets i).

Fixpoint lg_from (prog : list instr) (pc : nat) (rest : list instr) : bool :=
  match rest with
  | [] => true
  | i :: r => fwd_ok prog pc i && lg_from prog (S pc) r
  end.

Definition loops_guarded_prog (prog : list instr) : bool := lg_from prog 0 prog.
Definition loops_guarded (N : net) : bool := forallb (fun d => loops_guarded_prog (d_prog d)) (n_procs N).

Lemma lg_from_spec prog pc rest :
  lg_from prog pc rest = true -> forall k i, nth_error rest k = Some i -> fwd_ok prog (pc + k) i = true.
Proof.
  revert pc. induction rest as [|a rest IH]; intros pc H k i Hk; [destruct k; discriminate|].
  simpl in H. apply andb_prop in H as [H1 H2]. destruct k as [|k]; simpl in Hk.
  - inv Hk. now rewrite Nat.add_0_r.
  - replace (pc + S k) with (S pc + k) by lia. eapply IH; eauto.
Qed.

Lemma lg_from_intro prog pc rest :
  (forall k i, nth_error rest k = Some i -> fwd_ok prog (pc + k) i = true) -> lg_from prog pc rest = true.
Proof.
  revert pc. induction rest as [|a rest IH]; intros pc H; [reflexivity|]. simpl. apply andb_true_intro. split.
  - specialize (H 0 a eq_refl). now rewrite Nat.add_0_r in H.
  - apply IH. intros k i Hk. replace (S pc + k) with (pc + S k) by lia. apply H. exact Hk.
Qed.

Lemma lg_from_app prog pc a b : lg_from prog pc a = true -> lg_from prog (pc + length a) b = true -> lg_from prog pc (a ++ b) = true.
Proof.
  revert pc. induction a as [|x a IH]; intros pc Ha Hb; simpl in *; [now rewrite Nat.add_0_r in Hb|].
  apply andb_prop in Ha as [H1 H2]. rewrite H1. simpl. apply IH; auto. now replace (S pc + length a) with (pc + S (length a)) by lia.
Qed.

Lemma loops_guarded_instr N p d pc i :
  loops_guarded N = true -> nth_error (n_procs N) p = Some d -> nth_error (d_prog d) pc = Some i -> fwd_ok (d_prog d) pc i = true.
Proof.
  unfold loops_guarded. intros H Hd Hi. rewrite forallb_forall in H. specialize (H d (nth_error_In _ _ Hd)).
  exact (lg_from_spec _ 0 _ H pc i Hi).
Qed.

(* ---- the potential: 0 at a consulting instruction, otherwise the distance to the end of the program ---- *)
Definition pot (N : net) (s : state) (p : pid) : nat :=
  match cur_instr N s p with
  | Some (pr, d, i) => if consults i then 0 else length (d_prog d) - p_pc pr
  | None => 0
  end.

Lemma cur_instr_intro N s p pr d i :
  nth_error (s_procs s) p = Some pr -> nth_error (n_procs N) p = Some d -> p_st pr = PRun ->
  nth_error (d_prog d) (p_pc pr) = Some i -> cur_instr N s p = Some (pr, d, i).
Proof. intros H1 H2 H3 H4. unfold cur_instr. now rewrite H1, H2, H3, H4. Qed.

Lemma pot_after N s' p pr pr' d i :
  wf_net N = true -> loops_guarded N = true ->
  nth_error (n_procs N) p = Some d -> nth_error (d_prog d) (p_pc pr) = Some i -> consults i = false ->
  p_pc pr < length (d_prog d) ->
  nth_error (s_procs s') p = Some pr' -> p_st pr' = PRun -> In (p_pc pr') (targets i) ->
  pot N s' p < length (d_prog d) - p_pc pr.
Proof.
  intros Hwf Hlg Hd Hi Hc Hpc Hp' Hr' Ht.
  pose proof (wf_desc_target _ _ _ _ (wf_net_desc _ _ _ Hwf Hd) (nth_error_In _ _ Hi) Ht) as Hlt.
  destruct (nth_error (d_prog d) (p_pc pr')) as [i'|] eqn:Ei'; [|apply nth_error_None in Ei'; lia].
  unfold pot. rewrite (cur_instr_intro N s' p pr' d i' Hp' Hd Hr' Ei').
  pose proof (loops_guarded_instr N p d _ _ Hlg Hd Hi) as F. unfold fwd_ok in F. rewrite Hc in F. simpl in F.
  rewrite forallb_forall in F. specialize (F _ Ht). apply orb_prop in F as [F|F].
  - apply Nat.ltb_lt in F. destruct (consults i'); lia.
  - unfold consults_at in F. rewrite Ei' in F. rewrite F. lia.
Qed.

(* a step of p from a context-blind instruction strictly decreases p's potential *)
Theorem blind_step_decreases N s p arm s' pr d i :
  wf_net N = true -> loops_guarded N = true -> ginv N s ->
  cur_instr N s p = Some (pr, d, i) -> consults i = false -> step N s (LStep p arm) = Some s' ->
  pot N s' p < pot N s p.
Proof.
  intros Hwf Hlg I Hc Hb H. pose proof Hc as Hc0. apply cur_instr_inv in Hc as (Hp & Hd & Hr & Hi).
  pose proof (gi_pc _ _ I p pr d Hp Hd Hr) as Hpc.
  assert (E0 : pot N s p = length (d_prog d) - p_pc pr) by (unfold pot; now rewrite Hc0, Hb). rewrite E0.
  cbn [step] in H. rewrite Hc0 in H. pose proof (exec_shape _ _ _ _ _ _ _ _ Hp Hr H) as Hsh.
  destruct Hsh as [pr' E1 _ _ (M1 & M2 & _) | pr' _ Est _ E1 _ _ | q qp c pr' Hn Hq _ _ _ E1 _ _ (M1 & M2 & _) | q g k qp pr' _ _ _ E1 _ _ (M1 & M2 & _)].
  - eapply pot_after; eauto. rewrite E1. eapply nth_error_upd_same; eauto.
  - unfold pot, cur_instr. rewrite E1, (nth_error_upd_same _ _ _ pr' Hp), Hd, Est. lia.
  - eapply pot_after; eauto. rewrite E1. eapply nth_error_upd_same. rewrite nth_error_upd_other; eauto.
  - eapply pot_after; eauto. rewrite E1. eapply nth_error_upd_same; eauto.
Qed.

(* consecutive steps of p none of which starts at a consulting instruction *)
Fixpoint own_blind_run (N : net) (p : pid) (arms : list bool) (s : state) : option state :=
  match arms with
  | [] => Some s
  | a :: r =>
      match cur_instr N s p with
      | Some (_, _, i) =>
          if consults i then None
          else match step N s (LStep p a) with Some s' => own_blind_run N p r s' | None => None end
      | None => None
      end
  end.

Lemma pot_le_len N s p : ginv N s -> pot N s p <= match nth_error (n_procs N) p with Some d => length (d_prog d) | None => 0 end.
Proof.
  intros I. unfold pot. destruct (cur_instr N s p) as [[[pr d] i]|] eqn:E; [|lia].
  apply cur_instr_inv in E as (_ & Hd & _ & _). rewrite Hd. destruct (consults i); lia.
Qed.

(* C04_loops_ctx_guarded: between two consultations of a context a goroutine executes at most
   |its program| instructions - in every network that passes the static check *)
Theorem blind_run_bounded N p arms s s' :
  wf_net N = true -> loops_guarded N = true -> ginv N s -> own_blind_run N p arms s = Some s' ->
  length arms <= match nth_error (n_procs N) p with Some d => length (d_prog d) | None => 0 end.
Proof.
  intros Hwf Hlg I H. etransitivity; [|apply pot_le_len; exact I].
  revert s I H. induction arms as [|a arms IH]; intros s I H; cbn [own_blind_run length] in *; [lia|].
  destruct (cur_instr N s p) as [[[pr d] i]|] eqn:Ec; [|discriminate].
  destruct (consults i) eqn:Eb; [discriminate|]. destruct (step N s (LStep p a)) as [s1|] eqn:Es; [|discriminate].
  pose proof (blind_step_decreases N s p a s1 pr d i Hwf Hlg I Ec Eb Es) as Hdec.
  specialize (IH s1 (ginv_step _ _ _ _ Hwf I Es) H). lia.
Qed.

(* ================================================================ the check holds for every construct, every n *)
Ltac fwd := unfold fwd_ok; cbn [consults targets forallb orb andb]; rewrite ?andb_true_r; try reflexivity;
            try (apply orb_true_iff; left; apply Nat.ltb_lt; lia).

Lemma lg_spawns prog pc first n g base :
  (forall j, j < n -> pc + j < base + S j) -> lg_from prog pc (spawns first n g base) = true.
Proof.
  intros H. apply lg_from_intro. intros k i Hk. unfold spawns in Hk.
  assert (Hlt : k < n).
  { assert (k < length (map (fun j => ISpawn (first + j) g (base + S j)) (seq 0 n))) by (apply nth_error_Some; congruence).
    now rewrite map_length, seq_length in H0. }
  rewrite nth_error_map, (nth_error_nth' _ 0) in Hk by (rewrite seq_length; lia). rewrite seq_nth in Hk by lia.
  cbn in Hk. inv Hk. specialize (H k Hlt). fwd.
Qed.

Lemma lg_cons_init n out : loops_guarded_prog (cons_init_prog n out) = true.
Proof.
  unfold loops_guarded_prog. set (prog := cons_init_prog n out). unfold cons_init_prog in prog.
  change (lg_from prog 0 ([ICheck GOwn 1 (n + 6)] ++ (spawns 3 n (GId 2) 1 ++
            [ISpawn 2 GOwn (n + 2); IRecv out GOwn (n + 3) (n + 5) (n + 5); IDeliver (n + 4); ICheck GOwn (n + 2) (n + 6); ICancel 1 (n + 6); IExit])) = true).
  apply lg_from_app; [reflexivity|]. cbn [length Nat.add]. apply lg_from_app; [apply lg_spawns; intros; lia|].
  rewrite len_spawns. cbn [lg_from]. repeat (apply andb_true_intro; split); try reflexivity; fwd.
Qed.

Lemma lg_runner n c b : loops_guarded_prog (runner_prog n c b) = true.
Proof.
  unfold loops_guarded_prog. set (prog := runner_prog n c b). unfold runner_prog in prog. unfold runner_prog.
  apply lg_from_app; [apply lg_spawns; intros; lia|]. rewrite len_spawns. cbn [Nat.add].
  apply lg_from_app; [cbn [lg_from]; repeat (apply andb_true_intro; split); try reflexivity; fwd|].
  cbn [length]. destruct b; cbn [lg_from]; repeat (apply andb_true_intro; split); try reflexivity; fwd.
Qed.

Lemma lg_intro3 N a b c rest :
  n_procs N = [a; b; c] ++ rest ->
  loops_guarded_prog (d_prog a) = true -> loops_guarded_prog (d_prog b) = true -> loops_guarded_prog (d_prog c) = true ->
  forallb (fun d => loops_guarded_prog (d_prog d)) rest = true -> loops_guarded N = true.
Proof. intros E Ha Hb Hc Hr. unfold loops_guarded. rewrite E. cbn [app forallb]. now rewrite Ha, Hb, Hc, Hr. Qed.

Lemma lg_map_net n : loops_guarded (map_net n) = true.
Proof. eapply lg_intro3; [reflexivity|apply lg_cons_init|reflexivity|reflexivity|]. apply forallb_map_seq. intros j _. reflexivity. Qed.
Lemma lg_pp_net n : loops_guarded (pp_net n) = true.
Proof. eapply lg_intro3; [reflexivity|apply lg_runner|reflexivity|reflexivity|]. apply forallb_map_seq. intros j _. reflexivity. Qed.
Lemma lg_pbuf_net n : loops_guarded (pbuf_net n) = true.
Proof. eapply lg_intro3; [reflexivity|reflexivity|reflexivity|apply lg_runner|]. apply forallb_map_seq. intros j _. reflexivity. Qed.
Lemma lg_fanin_net n f : loops_guarded (fanin_net n f) = true.
Proof. eapply lg_intro3; [reflexivity|apply lg_cons_init|reflexivity|reflexivity|]. apply forallb_map_seq. intros j _. reflexivity. Qed.
Lemma lg_gen_net n e : loops_guarded (gen_net n e) = true.
Proof. eapply lg_intro3; [reflexivity|apply lg_cons_init|reflexivity|reflexivity|]. apply forallb_map_seq. intros j _. destruct e; reflexivity. Qed.
Lemma lg_split_net n : loops_guarded (split_net n) = true.
Proof. eapply lg_intro3; [reflexivity|reflexivity|reflexivity|reflexivity|]. apply forallb_map_seq. intros j _. reflexivity. Qed.
Lemma lg_readone_net m : loops_guarded (readone_net m) = true.
Proof. eapply lg_intro3; [reflexivity|reflexivity|reflexivity|reflexivity|]. apply forallb_repeat. reflexivity. Qed.

Theorem loops_guarded_constructs K : loops_guarded (net_of K) = true.
Proof.
  destruct K; cbn [net_of]; auto using lg_map_net, lg_pp_net, lg_pbuf_net, lg_fanin_net, lg_gen_net, lg_split_net; reflexivity.
Qed.

Lemma lg_range_net : loops_guarded range_net = true. Proof. reflexivity. Qed.

(* ---- the same worker WITHOUT the ctx.Err() test of the wrapper (what the explicit check is there for) ---- *)
Definition gen_prog_nocheck (e : gend) : list instr :=
  [IGoto 1;
   ISrc 0 GOwn 2 (match e with GEof => 6 | GFail => 3 | GSkip => 4 end) 6;
   ISend 0 GOwn 0 6 6;
   ICancel 2 6;
   IGoto 5;
   IGoto 4;
   IExit].
Definition gen_nocheck_net (n : nat) (e : gend) : net :=
  mkNet ([usr (cons_init_prog n 0); bg [IExit]; bg (closer_prog 0)] ++ map (fun _ => wgp (gen_prog_nocheck e)) (seq 0 n)) std_desc 1.

(* the retry loop 4 -> 5 -> 4 consults nothing: the static check rejects the network ... *)
Example nocheck_rejected : loops_guarded (gen_nocheck_net 2 GSkip) = false.
Proof. reflexivity. Qed.

(* ... and rightly so: the consumer takes both values, Closes, and 3000 steps later (ctx.Done arms scheduled
   first: the waiter goroutine has gone) both workers are still going round (with the check, the same scenario is quiescent with nothing left) *)
Example nocheck_spins :
  let N := gen_nocheck_net 2 GSkip in
  let s := scenario N (gen_init 2 [1; 2]%Z) 3000 0 true (Some 2) [LClose 1] in
  leaks N s = 2 /\ quiescentb N s = false.
Proof. vm_compute. split; reflexivity. Qed.

Example check_stops_the_retry_loop :
  let N := gen_net 2 GSkip in
  let s := scenario N (gen_init 2 [1; 2]%Z) 3000 0 true (Some 2) [LClose 1] in
  leaks N s = 0 /\ stuck_users N s = 0 /\ quiescentb N s = true /\ s_deliv s = [1; 2]%Z.
Proof. vm_compute. repeat split; reflexivity. Qed.
