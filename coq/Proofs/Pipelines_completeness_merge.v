(* C01_complete / C04_finite_input_eof / C04_progress_exhaust for MergeIterators: n inputs, one goroutine per
   srcs (read the srcs, send to the unbuffered pipe), a closer goroutine, one consumer. Any n, any inputs,
   any interleaving. Same structure as GenerateParallel (Pipelines_nodrop / _completeness / _progress): the
   worker program differs, there is one source per worker, and the hand-off is a rendezvous. *)
From FunV Require Import Base.Tac Base.ListX Model.Pipelines
  Proofs.Pipelines_conserve Proofs.Pipelines_quiesce Proofs.Pipelines_nets Proofs.Pipelines_complete Proofs.Pipelines_closer
  Proofs.Pipelines_release Proofs.Pipelines_nodrop Proofs.Pipelines_completeness Proofs.Pipelines_progress.

Section Merge.
Variable n : nat.
Notation N := (fanin_net n (fun j => j)).


Lemma M0 : nth_error (n_procs N) 0 = Some (usr (cons_init_prog n 0)). Proof. reflexivity. Qed.
Lemma M2 : nth_error (n_procs N) 2 = Some (bg (closer_prog 0)). Proof. reflexivity. Qed.
Lemma Mw j : j < n -> nth_error (n_procs N) (3 + j) = Some (wgp (fanin_prog j 0)).
Proof. intros H. cbn [fanin_net n_procs]. exact (nth_workers _ _ _ (fun j => wgp (fanin_prog j 0)) n j H). Qed.
Lemma Mwk j : j < n -> exists prog, nth_error (n_procs N) (3 + j) = Some (wgp prog).
Proof. intros H. eexists. apply Mw. exact H. Qed.
Lemma Mdesc p d : nth_error (n_procs N) p = Some d ->
  (p = 0 /\ d = usr (cons_init_prog n 0)) \/ (p = 1 /\ d = bg [IExit]) \/ (p = 2 /\ d = bg (closer_prog 0)) \/
  (exists j, j < n /\ p = 3 + j /\ d = wgp (fanin_prog j 0)).
Proof. intros H. cbn [fanin_net n_procs] in H. apply nth_workers_inv in H. exact H. Qed.
Lemma Mharm p d i : nth_error (n_procs N) p = Some d -> p <> 0 -> p <> 2 -> In i (d_prog d) -> harmless 0 i = true.
Proof.
  intros Hd H0 H2 Hi. apply Mdesc in Hd as [(-> & _)|[(-> & ->)|[(-> & _)|(j & _ & -> & ->)]]]; try congruence;
    eapply harmless_forall; eauto; reflexivity.
Qed.

Definition m_alldone (s : state) : Prop := forall j, j < n -> isdone s (3 + j).

Record m2 (s : state) : Prop := {
  mg_h : hinv N s;
  mg_c : cinv N n 0 s;
  mg_d : s_drop s = [];
  mg_q : s_canc s <> [] \/ closedb s 0 = true -> m_alldone s;
  mg_q2 : forall c, nth_error (s_procs s) 0 = Some c -> p_st c = PRun -> p_pc c = n + 5 -> m_alldone s
}.

(* a running worker is at the read of its input, at the send, or at the return *)
Lemma m_worker_cur s j pr d i :
  m2 s -> j < n -> cur_instr N s (3 + j) = Some (pr, d, i) ->
  (p_pc pr = 0 /\ i = ISrc j GOwn 1 2 2) \/ (p_pc pr = 1 /\ i = ISend 0 GOwn 0 2 2) \/ (p_pc pr = 2 /\ i = IExit).
Proof.
  intros G Hj Hc. apply cur_instr_inv in Hc as (Hp & Hd & Hr & Hi). rewrite (Mw j Hj) in Hd. inv Hd. cbn [d_prog wgp fanin_prog] in Hi.
  destruct (p_pc pr) as [|[|[|k]]]; cbn in Hi; inv Hi; auto. destruct k; discriminate.
Qed.

Lemma hand_disc_merge_net : hand_disc N = true.
Proof.
  unfold hand_disc. cbn [fanin_net n_procs]. apply forallb_app'.
  - cbn [forallb usr bg d_prog]. rewrite hd_cons_init. reflexivity.
  - apply forallb_map_seq. intros j _. reflexivity.
Qed.

Lemma m_cons_cur s c d i :
  cur_instr N s 0 = Some (c, d, i) ->
  (p_pc c = 0 /\ i = ICheck GOwn 1 (n + 6)) \/ (1 <= p_pc c <= n /\ i = ISpawn (3 + (p_pc c - 1)) (GId 2) (p_pc c + 1)) \/
  (p_pc c = n + 1 /\ i = ISpawn 2 GOwn (n + 2)) \/ (p_pc c = n + 2 /\ i = IRecv 0 GOwn (n + 3) (n + 5) (n + 5)) \/
  (p_pc c = n + 3 /\ i = IDeliver (n + 4)) \/ (p_pc c = n + 4 /\ i = ICheck GOwn (n + 2) (n + 6)) \/
  (p_pc c = n + 5 /\ i = ICancel 1 (n + 6)) \/ (p_pc c = n + 6 /\ i = IExit).
Proof.
  intros H. apply (cur0 N n 0 M0) in H. apply cons_instr_cases in H as [(E & ->)|[(E & ->)|(m & E & Hm)]]; auto.
  do 6 (destruct m as [|m]; [cbn in Hm; inv Hm; intuition lia|]). destruct m; discriminate.
Qed.

Lemma m_alldone_mono s l s' : step N s l = Some s' -> m_alldone s -> m_alldone s'.
Proof. intros H A j Hj. eapply isdone_mono; eauto. Qed.

(* the closer is past its wait: the iterator's context was cancelled, or every worker has returned *)
Lemma m_closer_past_done s cl : m2 s -> nth_error (s_procs s) 2 = Some cl -> p_st cl = PRun -> 1 <= p_pc cl -> m_alldone s.
Proof.
  intros G Hcl Hr Hpc. destruct (ci_past _ _ _ _ (mg_c _ G) cl Hcl) as [E|E]; [right; auto| |exact E].
  apply (mg_q _ G). left. eapply cancelled_nonempty; eauto.
Qed.

Lemma m2_step s l s' : internal l = true -> m2 s -> step N s l = Some s' -> m2 s'.
Proof.
  intros Hint G H. pose proof (m_alldone_mono _ _ _ H) as AM.
  split.
  - eapply hinv_step; eauto using hand_disc_merge_net, mg_h.
  - eapply (cinv_step N n 0 M0 M2 Mwk Mharm (wf_fanin_net n (fun j => j))); eauto using mg_c.
  - (* nothing is dropped *)
    destruct (drop_cause N s l s' (mg_h _ G) H) as [E|(p & pr & d & ch & g & ko & ke & kr & Hc & Hcause)]; [rewrite E; apply (mg_d _ G)|].
    exfalso. pose proof Hc as Hc0. apply cur_instr_inv in Hc as (Hp & Hd & Hr & Hi).
    apply Mdesc in Hd as [(-> & ->)|[(-> & ->)|[(-> & ->)|(j & Hj & -> & ->)]]].
    + apply m_cons_cur in Hc0. intuition discriminate.
    + cbn [d_prog bg] in Hi. destruct (p_pc pr) as [|k]; [|destruct k]; cbn in Hi; discriminate.
    + cbn [d_prog bg] in Hi. apply closer_instr in Hi. intuition discriminate.
    + destruct (m_worker_cur _ _ _ _ _ G Hj Hc0) as [(_ & E)|[(_ & E)|(_ & E)]]; try discriminate. inv E.
      assert (A : m_alldone s).
      { apply (mg_q _ G). destruct Hcause as [E|E]; [left; eapply cancelled_nonempty; eauto|right; exact E]. }
      destruct (A j Hj) as (w & Hw1 & Hw2). rewrite Hp in Hw1. inv Hw1. congruence.
  - (* a context is cancelled / the pipe is closed only when every worker has returned *)
    intros Hyp. destruct (closedb s 0) eqn:Ecl; [apply AM, (mg_q _ G); auto|].
    destruct (canc_by _ _ _ _ Hint H) as [Ec|(p & pr & d & c & k & -> & Hc)].
    + destruct Hyp as [Hne|Hcl']; [rewrite Ec in Hne; apply AM, (mg_q _ G); auto|].
      destruct (closed_by _ _ _ _ _ H Ecl Hcl') as (p & pr & d & k & -> & Hc).
      destruct (close_out_who N n 0 M0 M2 Mharm _ _ _ _ _ Hc) as (-> & Epc).
      apply cur_instr_inv in Hc as (Hp & _ & Hr & _). apply AM. eapply m_closer_past_done; eauto. lia.
    + apply AM. pose proof Hc as Hc0. apply cur_instr_inv in Hc as (Hp & Hd & Hr & Hi).
      apply Mdesc in Hd as [(-> & ->)|[(-> & ->)|[(-> & ->)|(j & Hj & -> & ->)]]].
      * apply m_cons_cur in Hc0. destruct Hc0 as [(_ & E)|[(_ & E)|[(_ & E)|[(_ & E)|[(_ & E)|[(_ & E)|[(Epc & E)|(_ & E)]]]]]]]; try discriminate.
        eapply (mg_q2 _ G); eauto.
      * cbn [d_prog bg] in Hi. destruct (p_pc pr) as [|k0]; [|destruct k0]; cbn in Hi; discriminate.
      * cbn [d_prog bg] in Hi. apply closer_instr in Hi as [(_ & E)|[(Epc & E)|[(_ & E)|(_ & E)]]]; try discriminate.
        eapply m_closer_past_done; eauto. lia.
      * destruct (m_worker_cur _ _ _ _ _ G Hj Hc0) as [(_ & E)|[(_ & E)|(_ & E)]]; discriminate.
  - (* the consumer cancels its iterator only after it saw the pipe closed / a context cancelled *)
    intros c' Hc' Hr' Hpc'.
    destruct (pc_step _ _ _ _ _ _ H Hc' Hr') as [Same|[(E0 & _)|[(arm & pr & d & i & -> & Hc & Hin)|[(q & pr & d & ch & g & ko & ke & kr & -> & Hc & E)|(q & pr & d & ch & g & ki & ke & kr & -> & Hc & E)]]]].
    + apply AM. eapply (mg_q2 _ G); eauto.
    + lia.
    + rewrite Hpc' in Hin. pose proof Hc as Hc0. apply m_cons_cur in Hc0.
      destruct Hc0 as [(_ & ->)|[(Hk & ->)|[(_ & ->)|[(_ & ->)|[(_ & ->)|[(_ & ->)|[(_ & ->)|(_ & ->)]]]]]]]; cbn [targets In] in Hin; try (intuition lia).
      apply AM, (mg_q _ G). cbn [step] in H. rewrite Hc in H. apply cur_instr_inv in Hc as (Hp & _ & _ & _).
      destruct (recv_err_cause _ _ _ _ _ _ _ _ _ _ _ _ _ Hp H Hc') as [E|E]; [lia|left; eapply cancelled_nonempty; eauto|right; exact E].
    + apply m_cons_cur in Hc. intuition discriminate.
    + apply m_cons_cur in Hc. destruct Hc as [(_ & E1)|[(_ & E1)|[(_ & E1)|[(_ & E1)|[(_ & E1)|[(_ & E1)|[(_ & E1)|(_ & E1)]]]]]]]; inv E1. lia.
Qed.

Lemma m2_init srcs : m2 (fanin_init n 0 srcs).
Proof.
  unfold fanin_init. split.
  - apply hinv_mk_init. intros pr [<-|[<-|[<-|Hin]]]; auto. unfold idles in Hin. apply repeat_spec in Hin. now subst.
  - apply cinv_init. apply (ginv_fanin_init n (fun j => j) 0 srcs).
  - reflexivity.
  - intros [Hc|Hc]; [contradiction Hc; reflexivity|]. rewrite closedb_mk_init in Hc. discriminate.
  - intros c Hc _ Hpc. cbn in Hc. inv Hc. cbn in Hpc. lia.
Qed.

Lemma m2_ireach srcs s : ireach N (fanin_init n 0 srcs) s -> m2 s.
Proof. induction 1 as [|s l s' R IH Hi H]; [apply m2_init|eapply m2_step; eauto]. Qed.

(* C01_generate_eof_no_drop *)
Theorem merge_no_drop srcs s :
  reach N (fanin_init n 0 srcs) s -> s_stopped s = false -> s_drop s = [].
Proof. intros R Hs. apply (mg_d s). apply (m2_ireach srcs). apply reach_unstopped; auto. Qed.

(* ... because the end of the stream cancels nothing: while a worker has not returned, no context is
   cancelled and the pipe is open *)
Theorem merge_no_cancel srcs s :
  reach N (fanin_init n 0 srcs) s -> s_stopped s = false -> (exists j, j < n /\ ~ isdone s (3 + j)) ->
  s_canc s = [] /\ closedb s 0 = false.
Proof.
  intros R Hs (j & Hj & Hnd). pose proof (m2_ireach srcs s (reach_unstopped _ _ _ R Hs)) as G.
  destruct (s_canc s) eqn:Ec; [destruct (closedb s 0) eqn:Ecl; [|auto]|]; exfalso; apply Hnd, (mg_q _ G); auto.
  left. rewrite Ec. discriminate.
Qed.


(* ---- completeness ---- *)

Definition m_cons_past (s : state) : Prop :=
  exists c, nth_error (s_procs s) 0 = Some c /\ (p_st c = PDone \/ (p_st c = PRun /\ p_pc c = n + 6)).

Record mc2 (s : state) : Prop := {
  mc_na : forall p pr, nth_error (s_procs s) p = Some pr -> p_st pr <> PAbandoned;
  mc_len : length (s_chans s) = 1 /\ length (s_srcs s) = n;
  mc_u : forall c, In c (s_canc s) -> c = 2 \/ (c = 1 /\ m_cons_past s);
  mc_e : forall j pr, j < n -> nth_error (s_procs s) (3 + j) = Some pr ->
                     p_st pr = PDone \/ (p_st pr = PRun /\ p_pc pr = 2) -> nth_error (s_srcs s) j = Some [];
  mc_b : forall c, nth_error (s_procs s) 0 = Some c -> p_st c = PDone \/ (p_st c = PRun /\ n + 5 <= p_pc c) -> drained s 0
}.

Lemma m_cons_ctx s c : m2 s -> nth_error (s_procs s) 0 = Some c -> p_ctx c = 1.
Proof. intros G Hc. destruct (ci_cons _ _ _ _ (mg_c _ G)) as (c0 & H0 & _ & E). rewrite Hc in H0. inv H0. exact E. Qed.

(* the consumer's context is cancelled by nobody but the consumer itself, at its very end *)
Lemma m_ctx1_live s : mc2 s -> cancelledb N s 1 = true -> m_cons_past s.
Proof.
  intros C H. unfold cancelledb in H. apply existsb_exists in H as (a & Ha & Hd).
  destruct (mc_u _ C a Ha) as [->|(-> & P)]; [cbn in Hd; discriminate|exact P].
Qed.

Lemma m_cons_running_not_past s c : nth_error (s_procs s) 0 = Some c -> p_st c = PRun -> p_pc c <> n + 6 -> ~ m_cons_past s.
Proof. intros Hc Hr Hpc (c0 & H0 & [E|(_ & E)]); rewrite Hc in H0; inv H0; congruence. Qed.

Lemma m_cons_past_step s l s' :
  m2 s -> step N s l = Some s' -> (forall p pr, nth_error (s_procs s') p = Some pr -> p_st pr <> PAbandoned) ->
  m_cons_past s -> m_cons_past s'.
Proof.
  intros G H NA (c & Hc & [Ed|(Er & Epc)]).
  - exists c. split; [eapply done_untouched; eauto|auto].
  - assert (Hns : p_st c <> PNotStarted) by congruence.
    destruct (ctx_stable_step _ _ _ _ _ _ H Hc Hns) as (c' & Hc' & _ & Hns').
    exists c'. split; auto. destruct (p_st c') eqn:Est; auto; [contradiction| |exfalso; eapply NA; eauto].
    right. split; auto.
    destruct (pc_step _ _ _ _ _ _ H Hc' Est) as [Same|[(_ & pr & Hp & E)|[(arm & pr & d & i & -> & Hi & Hin)|[(q & pr & d & ch & g & ko & ke & kr & -> & Hi & E)|(q & pr & d & ch & g & ki & ke & kr & -> & Hi & E)]]]].
    + rewrite Hc in Same. inv Same. exact Epc.
    + rewrite Hc in Hp. inv Hp. congruence.
    + exfalso. pose proof (m_cons_cur _ _ _ _ Hi) as X. apply cur_instr_inv in Hi as (Hp & _ & _ & _). rewrite Hc in Hp. inv Hp.
      destruct X as [(E & _)|[(E & _)|[(E & _)|[(E & _)|[(E & _)|[(E & _)|[(E & _)|(_ & ->)]]]]]]]; try lia. destruct Hin.
    + exfalso. apply m_cons_cur in Hi. intuition discriminate.
    + exfalso. pose proof (m_cons_cur _ _ _ _ Hi) as X. apply cur_instr_inv in Hi as (Hp & _ & _ & _). rewrite Hc in Hp. inv Hp.
      destruct X as [(E0 & _)|[(E0 & _)|[(E0 & _)|[(E0 & _)|[(E0 & _)|[(E0 & _)|[(E0 & _)|(_ & E0)]]]]]]]; try lia. discriminate.
Qed.

(* a running worker cannot see a cancelled context or the pipe closed *)
Lemma m_worker_sees_nothing s j pr d i :
  m2 s -> j < n -> cur_instr N s (3 + j) = Some (pr, d, i) ->
  (exists c, cancelledb N s c = true) \/ closedb s 0 = true -> False.
Proof.
  intros G Hj Hc Hy.
  assert (A : m_alldone s).
  { apply (mg_q _ G). destruct Hy as [(c & E)|E]; [left; eapply cancelled_nonempty; eauto|right; exact E]. }
  destruct (A j Hj) as (w & Hw1 & Hw2). apply cur_instr_inv in Hc as (Hp & _ & Hr & _). rewrite Hp in Hw1. inv Hw1. congruence.
Qed.

Lemma mc2_step s l s' : internal l = true -> m2 s -> mc2 s -> step N s l = Some s' -> mc2 s'.
Proof.
  intros Hint G C H.
  assert (NA : forall p pr, nth_error (s_procs s') p = Some pr -> p_st pr <> PAbandoned).
  { eapply no_abandon_step; eauto. apply (mc_na _ C). }
  destruct (lens_step _ _ _ _ H) as (L1 & L2).
  split.
  - exact NA.
  - destruct (mc_len _ C). split; congruence.
  - (* who may be cancelled *)
    intros x Hx.
    destruct (canc_by _ _ _ _ Hint H) as [Ec|(p & pr & d & c & k & -> & Hc)].
    + rewrite Ec in Hx. destruct (mc_u _ C x Hx) as [E|(E & P)]; auto. right. split; auto. eapply m_cons_past_step; eauto.
    + pose proof Hc as Hc0. cbn [step] in H. rewrite Hc in H. cbn [exec] in H. inv H. unf. cbn [s_canc s_procs] in *.
      destruct Hx as [<-|Hx].
      * apply cur_instr_inv in Hc as (Hp & Hd & Hr & Hi).
        apply Mdesc in Hd as [(-> & ->)|[(-> & ->)|[(-> & ->)|(j & Hj & -> & ->)]]].
        -- apply m_cons_cur in Hc0. destruct Hc0 as [(_ & E)|[(_ & E)|[(_ & E)|[(_ & E)|[(_ & E)|[(_ & E)|[(Epc & E)|(_ & E)]]]]]]]; try discriminate.
           inv E. right. split; auto. eexists. split; [eapply nth_error_upd_same; eauto|]. right. split; reflexivity.
        -- cbn [d_prog bg] in Hi. destruct (p_pc pr) as [|k0]; [|destruct k0]; cbn in Hi; discriminate.
        -- cbn [d_prog bg] in Hi. apply closer_instr in Hi as [(_ & E)|[(_ & E)|[(_ & E)|(_ & E)]]]; try discriminate. inv E. auto.
        -- destruct (m_worker_cur _ _ _ _ _ G Hj Hc0) as [(_ & E)|[(_ & E)|(_ & E)]]; discriminate.
      * destruct (mc_u _ C x Hx) as [E|(E & (c0 & Hc1 & Hp1))]; auto. right. split; auto.
        apply cur_instr_inv in Hc as (Hp & _ & Hr & _).
        destruct (Nat.eq_dec p 0) as [->|Hn].
        -- exfalso. rewrite Hp in Hc1. inv Hc1. apply m_cons_cur in Hc0.
           destruct Hp1 as [E1|(_ & E1)]; [congruence|].
           destruct Hc0 as [(E0 & _)|[(E0 & _)|[(E0 & _)|[(E0 & _)|[(E0 & _)|[(E0 & _)|[(E0 & _)|(_ & E0)]]]]]]]; try lia. discriminate.
        -- exists c0. unf. cbn [s_procs]. rewrite nth_error_upd_other by auto. auto.
  - (* a worker that has returned found the generator exhausted *)
    intros j pr' Hj Hp' Hfin.
    assert (KEEP : nth_error (s_srcs s) j = Some [] -> nth_error (s_srcs s') j = Some []) by (eapply src_empty_step; eauto).
    destruct Hfin as [Ed|(Er & Epc)].
    + destruct (done_from _ _ _ _ _ _ H Hp' Ed) as [Same|(pr & d & Hc)].
      * apply KEEP. eapply (mc_e _ C); eauto.
      * apply KEEP. pose proof Hc as Hc0. apply cur_instr_inv in Hc as (Hp & _ & Hr & _).
        destruct (m_worker_cur _ _ _ _ _ G Hj Hc0) as [(_ & E)|[(_ & E)|(E6 & _)]]; try discriminate.
        eapply (mc_e _ C); eauto.
    + destruct (pc_step _ _ _ _ _ _ H Hp' Er) as [Same|[(E0 & _)|[(arm & pr & d & i & -> & Hc & Hin)|[(q & pr & d & ch & g & ko & ke & kr & -> & Hc & E)|(q & pr & d & ch & g & ki & ke & kr & -> & Hc & E)]]]].
      * apply KEEP. eapply (mc_e _ C); eauto.
      * lia.
      * pose proof Hc as Hc0. cbn [step] in H. rewrite Hc in H.
        destruct (m_worker_cur _ _ _ _ _ G Hj Hc0) as [(_ & ->)|[(_ & ->)|(_ & ->)]].
        -- destruct (src_end_cause _ _ _ _ _ _ _ _ _ _ _ _ _ H Hp') as [E|[E|E]]; [lia| |apply KEEP; exact E|].
           ++ exfalso. eapply (m_worker_sees_nothing s j); eauto.
           ++ exfalso. destruct (mc_len _ C) as (_ & L). apply nth_error_None in E. lia.
        -- exfalso. destruct (send_err_cause _ _ _ _ _ _ _ _ _ _ _ _ _ H Hp') as [E|E]; [lia| |]; eapply (m_worker_sees_nothing s j); eauto.
        -- destruct Hin.
      * exfalso. destruct (m_worker_cur _ _ _ _ _ G Hj Hc) as [(_ & E1)|[(_ & E1)|(_ & E1)]]; inv E1. lia.
      * exfalso. destruct (m_worker_cur _ _ _ _ _ G Hj Hc) as [(_ & E1)|[(_ & E1)|(_ & E1)]]; discriminate.
  - (* the consumer leaves only after it saw the pipe closed and drained *)
    intros c' Hc' Hfin.
    assert (KEEP : drained s 0 -> drained s' 0) by (eapply drained_step; eauto).
    assert (LIVE : forall c, nth_error (s_procs s) 0 = Some c -> p_st c = PRun -> p_pc c <> n + 6 -> cancelledb N s (resolve c GOwn) = true -> False).
    { intros c Hc Hr Hpc Hcan. cbn [resolve] in Hcan. rewrite (m_cons_ctx _ _ G Hc) in Hcan.
      eapply m_cons_running_not_past; eauto. apply m_ctx1_live; auto. }
    destruct Hfin as [Ed|(Er & Epc)].
    + destruct (done_from _ _ _ _ _ _ H Hc' Ed) as [Same|(pr & d & Hc)].
      * apply KEEP. eapply (mc_b _ C); eauto.
      * apply KEEP. pose proof (m_cons_cur _ _ _ _ Hc) as X. apply cur_instr_inv in Hc as (Hp & _ & Hr & _).
        destruct X as [(_ & E)|[(_ & E)|[(_ & E)|[(_ & E)|[(_ & E)|[(_ & E)|[(_ & E)|(E6 & _)]]]]]]]; try discriminate.
        eapply (mc_b _ C); eauto. right. split; auto. lia.
    + destruct (pc_step _ _ _ _ _ _ H Hc' Er) as [Same|[(E0 & _)|[(arm & pr & d & i & -> & Hc & Hin)|[(q & pr & d & ch & g & ko & ke & kr & -> & Hc & E)|(q & pr & d & ch & g & ki & ke & kr & -> & Hc & E)]]]].
      * apply KEEP. eapply (mc_b _ C); eauto.
      * lia.
      * pose proof (m_cons_cur _ _ _ _ Hc) as X. cbn [step] in H. rewrite Hc in H. apply cur_instr_inv in Hc as (Hp & _ & Hr & _).
        destruct X as [(E0 & ->)|[(E0 & ->)|[(E0 & ->)|[(E0 & ->)|[(E0 & ->)|[(E0 & ->)|[(E0 & ->)|(E0 & ->)]]]]]]]; cbn [targets In] in Hin.
        -- exfalso. eapply (LIVE pr); eauto; [lia|]. eapply check_err_cause; eauto. lia.
        -- lia.
        -- lia.
        -- destruct (recv_end_cause _ _ _ _ _ _ _ _ _ _ _ _ _ H Hc') as [E|E]; [lia| |apply KEEP; exact E].
           exfalso. eapply (LIVE pr); eauto. lia.
        -- lia.
        -- exfalso. eapply (LIVE pr); eauto; [lia|]. eapply check_err_cause; eauto. lia.
        -- apply KEEP. eapply (mc_b _ C); eauto. right. split; auto. lia.
        -- destruct Hin.
      * exfalso. apply m_cons_cur in Hc. intuition discriminate.
      * exfalso. pose proof (m_cons_cur _ _ _ _ Hc) as X.
        destruct X as [(_ & E1)|[(_ & E1)|[(_ & E1)|[(_ & E1)|[(_ & E1)|[(_ & E1)|[(_ & E1)|(_ & E1)]]]]]]]; inv E1. lia.
Qed.

Lemma mc2_init srcs : length srcs = n -> mc2 (fanin_init n 0 srcs).
Proof.
  intros Hlen. unfold fanin_init. split.
  - intros p pr Hp. unfold mk_init in Hp; cbn [s_procs] in Hp. apply nth_error_In in Hp.
    destruct Hp as [<-|[<-|[<-|Hin]]]; try discriminate. unfold idles in Hin. apply repeat_spec in Hin. subst. discriminate.
  - split; [reflexivity|exact Hlen].
  - intros c [].
  - intros j pr Hj Hp Hfin. exfalso. unfold mk_init in Hp; cbn [s_procs] in Hp. rewrite nth3 in Hp.
    apply nth_error_In in Hp. unfold idles in Hp. apply repeat_spec in Hp. subst. destruct Hfin as [E|(E & _)]; discriminate.
  - intros c Hc Hfin. cbn in Hc. inv Hc. cbn in Hfin. destruct Hfin as [E|(_ & E)]; [discriminate|lia].
Qed.

Lemma mgc_ireach srcs s : length srcs = n -> ireach N (fanin_init n 0 srcs) s -> m2 s /\ mc2 s.
Proof.
  intros Hlen. induction 1 as [|s l s' R (G & C) Hi H]; [split; [apply m2_init|apply mc2_init; exact Hlen]|].
  split; [eapply m2_step; eauto|eapply mc2_step; eauto].
Qed.

Lemma concat_all_nil (l : list (list Z)) : (forall j, j < length l -> nth_error l j = Some []) -> concat l = [].
Proof.
  induction l as [|a l IH]; intros H; [reflexivity|]. cbn [concat].
  pose proof (H 0 (Nat.lt_0_succ _)) as E. cbn in E. inv E. cbn. apply IH. intros j Hj. apply (H (S j)). cbn. lia.
Qed.

(* C01_complete for MergeIterators (any number n of inputs, any inputs, any interleaving): a terminated run that
   nothing aborted delivered a permutation of everything the inputs held *)
Theorem merge_complete srcs s :
  length srcs = n -> reach N (fanin_init n 0 srcs) s -> s_stopped s = false -> all_done s ->
  Permutation (s_deliv s) (concat srcs).
Proof.
  intros Hlen R Hs (AD & _). destruct (mgc_ireach srcs s Hlen (reach_unstopped _ _ _ R Hs)) as (G & C).
  destruct (ci_cons _ _ _ _ (mg_c _ G)) as (c & Hc & Hns & _).
  assert (Dc : p_st c = PDone).
  { destruct (p_st c) eqn:E; auto; [contradiction|exfalso; eapply AD; eauto|exfalso; eapply (mc_na _ C); eauto]. }
  destruct (mc_b _ C c Hc (or_introl Dc)) as (c0 & Hc0 & Hcl & Hb).
  assert (A : m_alldone s).
  { apply (mg_q _ G). right. unfold closedb. now rewrite Hc0. }
  destruct (mc_len _ C) as (Lc & Ls).
  assert (Esrc : concat (s_srcs s) = []).
  { apply concat_all_nil. intros j Hj. rewrite Ls in Hj. destruct (A j Hj) as (w & Hw & Dw).
    exact (mc_e _ C j w Hj Hw (or_introl Dw)). }
  assert (Ebuf : bufs (s_chans s) = []).
  { unfold bufs. destruct (s_chans s) as [|c1 [|]]; cbn in Lc; try lia. cbn in Hc0. inv Hc0. cbn. now rewrite Hb. }
  assert (Eh : hands (s_procs s) = []).
  { apply hands_none. intros pr Hin. apply In_nth_error in Hin as (p & Hp).
    destruct (mg_h _ G p pr Hp) as [E|([E|E] & _)]; auto; exfalso; [eapply AD; eauto|eapply (mc_na _ C); eauto]. }
  pose proof (reach_conserves _ _ _ R) as P. unfold tokens in P at 1.
  rewrite Esrc, Ebuf, Eh, (mg_d _ G) in P. cbn [app] in P. rewrite app_nil_r in P.
  etransitivity; [exact P|]. unfold fanin_init. rewrite tokens_mk_init; [reflexivity|apply hands_running_idles].
Qed.

(* ---- progress ---- *)

Record mp2 (s : state) : Prop := {
  mp_cap : exists c, nth_error (s_chans s) 0 = Some c /\ c_cap c = 0;
  mp_k : forall c, nth_error (s_procs s) 0 = Some c -> p_st c = PRun -> n + 2 <= p_pc c <= n + 5 -> started s 2;
  mp_l : forall cl, nth_error (s_procs s) 2 = Some cl -> p_st cl = PDone \/ (p_st cl = PRun /\ p_pc cl = 3) -> closedb s 0 = true
}.

Lemma mp2_step s l s' : m2 s -> mp2 s -> step N s l = Some s' -> mp2 s'.
Proof.
  intros G P H. split.
  - destruct (mp_cap _ P) as (c & Hc & E). destruct (cap_step _ _ _ _ _ _ H Hc) as (c' & Hc' & E'). exists c'. split; auto. congruence.
  - intros c' Hc' Er Hpc.
    destruct (pc_step _ _ _ _ _ _ H Hc' Er) as [Same|[(E0 & _)|[(arm & pr & d & i & -> & Hc & Hin)|[(q & pr & d & ch & g & ko & ke & kr & -> & Hc & E)|(q & pr & d & ch & g & ki & ke & kr & -> & Hc & E)]]]].
    + eapply started_mono; eauto. eapply (mp_k _ P); eauto.
    + lia.
    + pose proof (m_cons_cur _ _ _ _ Hc) as X. pose proof Hc as Hc0. apply cur_instr_inv in Hc as (Hp & _ & Hr & _).
      destruct X as [(E0 & ->)|[(E0 & ->)|[(E0 & ->)|[(E0 & ->)|[(E0 & ->)|[(E0 & ->)|[(E0 & ->)|(E0 & ->)]]]]]]]; cbn [targets In] in Hin;
        try lia; try (eapply started_mono; eauto; eapply (mp_k _ P); eauto; lia).
      destruct (ci_closer _ _ _ _ (mg_c _ G)) as (cl0 & Hcl0 & _). eapply spawn_started; eauto.
    + exfalso. apply m_cons_cur in Hc. intuition discriminate.
    + pose proof (m_cons_cur _ _ _ _ Hc) as X. apply cur_instr_inv in Hc as (Hp & _ & Hr & _).
      destruct X as [(_ & E1)|[(_ & E1)|[(_ & E1)|[(E0 & E1)|[(_ & E1)|[(_ & E1)|[(_ & E1)|(_ & E1)]]]]]]]; try discriminate.
      eapply started_mono; eauto. eapply (mp_k _ P); eauto. lia.
  - intros cl' Hcl' Hfin.
    assert (KEEP : closedb s 0 = true -> closedb s' 0 = true) by (eapply closed_mono; eauto).
    destruct Hfin as [Ed|(Er & Epc)].
    + destruct (done_from _ _ _ _ _ _ H Hcl' Ed) as [Same|(pr & d & Hc)].
      * apply KEEP. eapply (mp_l _ P); eauto.
      * apply KEEP. pose proof (cur2 N 0 M2 _ _ _ _ Hc) as X. apply cur_instr_inv in Hc as (Hp & _ & Hr & _).
        apply closer_instr in X as [(_ & E)|[(_ & E)|[(_ & E)|(E3 & _)]]]; try discriminate. eapply (mp_l _ P); eauto.
    + destruct (pc_step _ _ _ _ _ _ H Hcl' Er) as [Same|[(E0 & _)|[(arm & pr & d & i & -> & Hc & Hin)|[(q & pr & d & ch & g & ko & ke & kr & -> & Hc & E)|(q & pr & d & ch & g & ki & ke & kr & -> & Hc & E)]]]].
      * apply KEEP. eapply (mp_l _ P); eauto.
      * lia.
      * pose proof (cur2 N 0 M2 _ _ _ _ Hc) as X. cbn [step] in H. rewrite Hc in H.
        apply closer_instr in X as [(_ & ->)|[(_ & ->)|[(_ & ->)|(_ & ->)]]]; cbn [targets In] in Hin; try lia.
        eapply close_effect; eauto. destruct (mp_cap _ P) as (c & Hc0 & _). congruence.
      * exfalso. apply (cur2 N 0 M2) in Hc. apply closer_instr in Hc. intuition discriminate.
      * exfalso. apply (cur2 N 0 M2) in Hc. apply closer_instr in Hc. intuition discriminate.
Qed.

Lemma mp2_init srcs : mp2 (fanin_init n 0 srcs).
Proof.
  unfold fanin_init. split.
  - eexists. split; [reflexivity|reflexivity].
  - intros c Hc _ Hpc. cbn in Hc. inv Hc. cbn in Hpc. lia.
  - intros cl Hcl Hfin. cbn in Hcl. inv Hcl. destruct Hfin as [E|(E & _)]; discriminate.
Qed.

Lemma mgcp_ireach srcs s : length srcs = n -> ireach N (fanin_init n 0 srcs) s -> m2 s /\ mc2 s /\ mp2 s.
Proof.
  intros Hlen. induction 1 as [|s l s' R (G & C & P) Hi H]; [split; [apply m2_init|split; [apply mc2_init; exact Hlen|apply mp2_init]]|].
  split; [eapply m2_step; eauto|split; [eapply mc2_step; eauto|eapply mp2_step; eauto]].
Qed.

(* deadlock freedom *)
Theorem merge_deadlock_free srcs s :
  length srcs = n -> reach N (fanin_init n 0 srcs) s -> s_stopped s = false -> quiescent N s -> all_done s.
Proof.
  intros Hlen R Hs Q. destruct (mgcp_ireach srcs s Hlen (reach_unstopped _ _ _ R Hs)) as (G & C & P).
  pose proof (ci_g _ _ _ _ (mg_c _ G)) as I.
  assert (STUCK : forall p pr d i, cur_instr N s p = Some (pr, d, i) -> (exists arm s', step N s (LStep p arm) = Some s') -> False).
  { intros p pr d i _ (arm & s' & E). rewrite (Q (LStep p arm) eq_refl) in E. discriminate. }
  assert (CUR : forall p pr, nth_error (s_procs s) p = Some pr -> p_st pr = PRun -> exists d i, cur_instr N s p = Some (pr, d, i)).
  { intros p pr Hp Hr. destruct (nth_error (n_procs N) p) as [d|] eqn:Hd.
    - pose proof (gi_pc _ _ I p pr d Hp Hd Hr) as Hpc.
      destruct (nth_error (d_prog d) (p_pc pr)) as [i|] eqn:Ei; [|apply nth_error_None in Ei; lia].
      exists d, i. apply cur_instr_mk; auto.
    - exfalso. apply nth_error_None in Hd. rewrite <- (gi_len _ _ I) in Hd.
      assert (p < length (s_procs s)) by (apply nth_error_Some; congruence). lia. }
  destruct (mp_cap _ P) as (c0 & Hc0 & Hcap).
  assert (WGZ : (forall j pr, j < n -> nth_error (s_procs s) (3 + j) = Some pr -> p_st pr <> PRun) -> s_wg s = 0).
  { intros NW. rewrite (gi_wg _ _ I). apply wgc_zero. intros p pr d Hp Hd Hw.
    apply Mdesc in Hd as [(-> & ->)|[(-> & ->)|[(-> & ->)|(j & Hj & -> & ->)]]]; try discriminate.
    unfold runb. destruct (p_st pr) eqn:E; auto. exfalso. eapply NW; eauto. }
  (* the closer, once started and with the wait group at zero, can always step - unless it has returned *)
  assert (CLOSER : s_wg s = 0 -> forall cl, nth_error (s_procs s) 2 = Some cl -> p_st cl = PRun -> False).
  { intros Hwg cl Hcl Hr. destruct (CUR _ _ Hcl Hr) as (d & i & Hc). pose proof (cur2 N 0 M2 _ _ _ _ Hc) as X.
    apply closer_instr in X as [(_ & ->)|[(_ & ->)|[(_ & ->)|(_ & ->)]]];
      try (eapply STUCK; eauto; apply (enabled_noguard N s _ _ _ _ Hc); reflexivity).
    eapply STUCK; eauto. exists false. eexists. cbn [step]. rewrite Hc. cbn [exec]. rewrite Hwg. reflexivity. }
  destruct (ci_cons _ _ _ _ (mg_c _ G)) as (c & Hc & Hns & _).
  (* 1: the consumer has returned *)
  assert (Dc : p_st c = PDone).
  { destruct (p_st c) eqn:Ec; auto; [contradiction| |exfalso; eapply (mc_na _ C); eauto]. exfalso.
    destruct (CUR _ _ Hc Ec) as (d & i & Hcur). pose proof (m_cons_cur _ _ _ _ Hcur) as X.
    destruct X as [(_ & ->)|[(_ & ->)|[(_ & ->)|[(Epc & ->)|[(_ & ->)|[(_ & ->)|[(_ & ->)|(_ & ->)]]]]]]];
      try (eapply STUCK; eauto; apply (enabled_noguard N s _ _ _ _ Hcur); reflexivity).
    (* blocked in the receive: the pipe is open and empty *)
    destruct (c_buf c0) as [|x r] eqn:Eb;
      [|eapply STUCK; eauto; exists false; eexists; cbn [step]; rewrite Hcur; cbn [exec]; rewrite Hc0, Eb; reflexivity].
    destruct (c_closed c0) eqn:Ecl;
      [eapply STUCK; eauto; exists false; eexists; cbn [step]; rewrite Hcur; cbn [exec]; rewrite Hc0, Eb, Ecl; reflexivity|].
    (* so every worker that runs can step: none runs *)
    assert (NW : forall j pr, j < n -> nth_error (s_procs s) (3 + j) = Some pr -> p_st pr <> PRun).
    { intros j pr Hj Hp Hr. destruct (CUR _ _ Hp Hr) as (dw & iw & Hw).
      destruct (m_worker_cur _ _ _ _ _ G Hj Hw) as [(_ & ->)|[(_ & ->)|(_ & ->)]];
        try (eapply STUCK; eauto; apply (enabled_noguard N s _ _ _ _ Hw); reflexivity).
      (* at its send: with nothing in hand it just goes on; with an item it meets the consumer, who is at its receive *)
      destruct (p_hand pr) as [v|] eqn:Eh.
      - pose proof (Q (LRdv (3 + j) 0) eq_refl) as X. cbn [step] in X. replace (3 + j =? 0) with false in X by reflexivity.
        rewrite Hw, Hcur, Eh, Hc0, Hcap, Ecl in X. cbn in X. discriminate.
      - eapply STUCK; eauto. exists false. cbn [step]. rewrite Hw. cbn [exec]. rewrite Eh. eauto. }
    (* the closer was started by the consumer, the wait group is at zero: it can step, or it has closed the pipe *)
    pose proof (WGZ NW) as Hwg.
    destruct (mp_k _ P c Hc Ec) as (cl & Hcl & Hcs); [lia|].
    destruct (p_st cl) eqn:Ecl2; [contradiction|eapply CLOSER; eauto| |eapply (mc_na _ C); eauto].
    pose proof (mp_l _ P cl Hcl (or_introl Ecl2)) as Hclosed. unfold closedb in Hclosed. rewrite Hc0 in Hclosed. congruence. }
  (* 2: so the pipe is closed and every worker has returned; the closer and goroutine 1 can step if they run *)
  destruct (mc_b _ C c Hc (or_introl Dc)) as (c1 & Hc1 & Hcl1 & _).
  assert (A : m_alldone s). { apply (mg_q _ G). right. unfold closedb. now rewrite Hc1. }
  assert (NW : forall j pr, j < n -> nth_error (s_procs s) (3 + j) = Some pr -> p_st pr <> PRun).
  { intros j pr Hj Hp Hr. destruct (A j Hj) as (w & Hw1 & Hw2). rewrite Hp in Hw1. inv Hw1. congruence. }
  pose proof (WGZ NW) as Hwg.
  assert (S3 : forall p pr, nth_error (s_procs s) p = Some pr -> p_st pr <> PRun).
  { intros p pr Hp Hr. destruct (CUR _ _ Hp Hr) as (d & i & Hcur). pose proof Hcur as Hcur0.
    apply cur_instr_inv in Hcur as (_ & Hd & _ & Hi).
    apply Mdesc in Hd as [(-> & ->)|[(-> & ->)|[(-> & ->)|(j & Hj & -> & ->)]]].
    - rewrite Hc in Hp. inv Hp. congruence.
    - cbn [d_prog bg] in Hi. destruct (p_pc pr) as [|k]; [|destruct k; discriminate]. cbn in Hi. inv Hi.
      eapply STUCK; eauto. apply (enabled_noguard N s _ _ _ _ Hcur0); reflexivity.
    - eapply CLOSER; eauto.
    - eapply NW; eauto. }
  split; [exact S3|].
  destruct (s_oncew s) as [|k] eqn:Eo; auto. exfalso.
  destruct (gi_once _ _ I) as (po & Hpo & Hnsp); [lia|].
  assert (Hd : is_done s (n_once N) = true).
  { unfold is_done. rewrite Hpo. destruct (p_st po) eqn:Est; auto; [exfalso; eapply S3; eauto|exfalso; eapply (mc_na _ C); eauto]. }
  pose proof (Q LOnceRel eq_refl) as Hs0. cbn [step] in Hs0. rewrite Eo, Hd in Hs0. discriminate.
Qed.

(* C04_finite_input_eof for MergeIterators: an un-aborted run that can go no further has finished - nothing runs -
   and the consumer saw io.EOF after a permutation of everything the inputs held *)
Theorem merge_finite_input_eof srcs s :
  length srcs = n -> reach N (fanin_init n 0 srcs) s -> s_stopped s = false -> quiescent N s ->
  all_done s /\ Permutation (s_deliv s) (concat srcs).
Proof.
  intros Hlen R Hs Q. pose proof (merge_deadlock_free srcs s Hlen R Hs Q) as A. split; auto. eapply merge_complete; eauto.
Qed.

Corollary merge_progress srcs s :
  length srcs = n -> reach N (fanin_init n 0 srcs) s -> s_stopped s = false -> ~ all_done s -> ~ quiescent N s.
Proof. intros Hlen R Hs NA Q. apply NA. eapply merge_deadlock_free; eauto. Qed.

End Merge.
