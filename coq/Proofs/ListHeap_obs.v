(* What can be observed of a well-formed world: both walks, Len, Slice, the drained iterators. *)
From FunV Require Import Base.Tac Base.ListX Model.SortSpec Model.ListHeap
  Proofs.ListHeap_ring Proofs.ListHeap_wf Proofs.ListHeap_splice Proofs.ListHeap_ops.
Local Open Scope Z_scope.

Lemma walks_WF w E l :
  WF w E -> (l < lfresh w)%nat -> fwd_nodes w l = E l /\ bwd_nodes w l = rev (E l).
Proof.
  intros W Hl. pose proof (wf_lists _ _ W l Hl) as L. unfold fwd_nodes, bwd_nodes.
  destruct (lroot (lists w l)) as [r|] eqn:Hr.
  - destruct L as [[ND [Df Db]] Len Rok Eok].
    assert (B : (List.length (E l) < walk_bound w l)%nat) by (unfold walk_bound; rewrite Len; lia).
    split.
    + apply walk_dlinks; auto.
    + apply walk_dlinks; auto.
      * rewrite Forall_forall in *. intros x Hx. apply Eok. apply in_rev. exact Hx.
      * rewrite rev_length. exact B.
  - destruct L as [_ ->]. auto.
Qed.

Lemma obs_WF w E l :
  WF w E -> (l < lfresh w)%nat ->
  fwd_vals w l = abs w E l /\ bwd_vals w l = rev (abs w E l) /\ llen (lists w l) = Z.of_nat (List.length (abs w E l)).
Proof.
  intros W Hl. destruct (walks_WF w E l W Hl) as [F B]. unfold fwd_vals, bwd_vals, abs, items.
  rewrite F, B, map_rev, map_length. repeat split.
  pose proof (wf_lists _ _ W l Hl) as L. destruct (lroot (lists w l)); [destruct L; auto|].
  destruct L as [-> ->]. reflexivity.
Qed.

Lemma WF_len_bound w E l : WF w E -> (l < lfresh w)%nat -> (List.length (E l) <= nfresh w)%nat.
Proof.
  intros W Hl. pose proof (wf_lists _ _ W l Hl) as L.
  destruct (lroot (lists w l)) as [r|] eqn:Hr; [|destruct L as [_ ->]; simpl; lia].
  destruct L as [[ND _] _ _ _]. inv ND.
  rewrite <- (seq_length (nfresh w) 0). apply NoDup_incl_length; auto.
  intros x Hx. apply in_seq. destruct (WF_elem_in _ _ _ _ _ W Hl Hr (or_intror Hx)). lia.
Qed.

(* the non-destructive producers, drained *)
Lemma drain_dir (k : pkind) dir w l r :
  (k = PFwd /\ dir = nnext) \/ (k = PRev /\ dir = nprev) ->
  lroot (lists w l) = Some r -> nok (nodes w r) = false ->
  forall es, dlinks dir (nodes w) r es -> ~ In r es -> Forall (fun n => nok (nodes w n) = true) es ->
  forall suf pre acc fuel, es = pre ++ suf -> (List.length suf < fuel)%nat ->
    drain fuel k l (Some (last pre r)) acc w = Ret (rev acc ++ items w suf) w.
Proof.
  intros K Hr Rok es D Hnr Eok.
  assert (ADV : forall c, producer_advance k l (Some c) w = Ret (dir (nodes w c)) w).
  { intros c. destruct K as [[-> ->]|[-> ->]]; reflexivity. }
  induction suf as [|x suf IH]; intros pre acc fuel EQ Hf; (destruct fuel; [simpl in Hf; lia|]).
  - simpl. unfold bind at 1. rewrite ADV.
    assert (N : dir (nodes w (last pre r)) = Some r).
    { rewrite app_nil_r in EQ. pose proof D as D'. rewrite EQ in D'. destruct (list_snoc_cases pre) as [->|(t & y & ->)].
      - simpl. apply dlinks_nil in D'. exact D'.
      - rewrite last_last. rewrite (dlinks_succ _ _ _ _ _ _ D'). reflexivity. }
    rewrite N. unfold OkE, Root. mrun. rewrite Rok. simpl. rewrite app_nil_r. reflexivity.
  - simpl. unfold bind at 1. rewrite ADV.
    assert (N : dir (nodes w (last pre r)) = Some x).
    { pose proof D as D'. rewrite EQ in D'. destruct (list_snoc_cases pre) as [->|(t & y & ->)].
      - simpl in *. rewrite (dlinks_root _ _ _ _ D'). reflexivity.
      - rewrite last_last. rewrite <- app_assoc in D'. simpl in D'.
        rewrite (dlinks_succ _ _ _ t y (x :: suf) D'). reflexivity. }
    rewrite N.
    assert (Hx : In x es) by (rewrite EQ; apply in_or_app; right; left; reflexivity).
    assert (Okx : nok (nodes w x) = true) by (rewrite Forall_forall in Eok; auto).
    unfold OkE, Root, Value. mrun. rewrite Okx, Hr. simpl.
    destruct (Nat.eqb_spec x r) as [->|Hne]; [tauto|]. simpl.
    specialize (IH (pre ++ [x]) (nitem (nodes w x) :: acc) fuel).
    rewrite last_last in IH. rewrite IH.
    + simpl. rewrite <- app_assoc. reflexivity.
    + rewrite <- app_assoc. exact EQ.
    + simpl in Hf. lia.
Qed.

Lemma Iterate_fwd_WF w E l :
  WF w E -> (l < lfresh w)%nat ->
  exists w', Iterate PFwd l w = Ret (abs w E l) w' /\ lazySetup l w = Ret tt w'.
Proof.
  intros W Hl. destruct (lazySetup_spec w E l W Hl) as (w' & r & Run & W' & Hr & Ex & Hlf & Fr & _).
  exists w'. split; [|exact Run]. unfold Iterate, bind at 1. rewrite Run. unfold Root. unfold bind, get. rewrite Hr.
  assert (Hl' : (l < lfresh w')%nat) by lia.
  pose proof (wf_lists _ _ W' l Hl') as L. rewrite Hr in L. destruct L as [[ND [Df Db]] Len Rok Eok].
  assert (Hnr : ~ In r (E l)) by (inv ND; auto).
  assert (Hf : (List.length (E l) < S (nfresh w'))%nat) by (pose proof (WF_len_bound w' E l W' Hl'); lia).
  pose proof (drain_dir PFwd nnext w' l r (or_introl (conj eq_refl eq_refl)) Hr Rok (E l) Df Hnr Eok (E l) [] [] _ eq_refl Hf) as DR.
  change (last [] r) with r in DR. rewrite DR. simpl. f_equal. apply (abs_pres w w' E l W Hl). apply frame_pres; auto.
Qed.
