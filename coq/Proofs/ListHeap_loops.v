(* The looping operations: Extend, Copy, the destructive iterators, JSON, IsSorted. *)
From FunV Require Import Base.Tac Base.ListX Model.SortSpec Model.ListHeap
  Proofs.ListHeap_ring Proofs.ListHeap_wf Proofs.ListHeap_splice Proofs.ListHeap_ops Proofs.ListHeap_obs Proofs.ListHeap_step.
Local Open Scope Z_scope.

Lemma WF_empty_len w E l : WF w E -> (l < lfresh w)%nat -> (llen (lists w l) = 0 <-> E l = []).
Proof.
  intros W Hl. pose proof (wf_lists _ _ W l Hl) as L. destruct (lroot (lists w l)).
  - destruct L as [_ Len _ _]. rewrite Len. destruct (E l); simpl; split; intros; try discriminate; try lia; auto.
  - destruct L as [-> ->]. tauto.
Qed.

(* appending a detached, ok element behind the current back element *)
Lemma Append_back w E l r x :
  WF w E -> (l < lfresh w)%nat -> lroot (lists w l) = Some r ->
  (x < nfresh w)%nat -> nowner (nodes w x) = None -> nok (nodes w x) = true ->
  exists w', Append (Some (last (E l) r)) (Some x) w = Ret (Some x) w' /\
     WF w' (upd E l (E l ++ [x])) /\ same_data w w' /\
     (forall y, y <> x -> nowner (nodes w' y) = nowner (nodes w y)) /\
     llen (lists w' l) = llen (lists w l) + 1 /\
     (forall l', l' <> l -> lists w' l' = lists w l').
Proof.
  intros W Hl Hr Hx Ho Hok.
  pose proof (wf_lists _ _ W l Hl) as L. rewrite Hr in L. destruct L as [[ND _] _ _ _].
  assert (Hin : In (last (E l) r) (r :: E l)).
  { destruct (list_snoc_cases (E l)) as [->|(t & y & ->)]; [left; reflexivity|].
    rewrite last_last. right. apply in_or_app. right. left. reflexivity. }
  destruct (WF_elem_in _ _ _ _ _ W Hl Hr Hin) as [Hoe Hlte].
  assert (CA : can_append w (last (E l) r) (Some x) = true).
  { unfold can_append. rewrite Hok, Hoe, Ho. reflexivity. }
  destruct (Append_accept w E _ x W Hlte Hx CA) as (l' & r' & w' & Ho' & Hl' & Hr' & _ & _ & _ & Run & W' & SD & O1 & _ & Len & Oth).
  assert (l' = l) by congruence. subst l'. assert (r' = r) by congruence. subst r'.
  rewrite ins_cyc_last in W' by exact ND. exists w'. auto 10.
Qed.

Lemma extend_loop_spec l input : l <> input ->
  forall es w E r fuel,
  WF w E -> (l < lfresh w)%nat -> (input < lfresh w)%nat -> lroot (lists w l) = Some r ->
  E input = es -> (List.length es < fuel)%nat ->
  exists w', extend_loop fuel input (Some (last (E l) r)) w = Ret tt w' /\
     WF w' (upd (upd E l (E l ++ es)) input []) /\ pres w w' /\ lfresh w' = lfresh w /\
     (forall l', l' <> l -> l' <> input -> lists w' l' = lists w l') /\
     lroot (lists w' l) = Some r.
Proof.
  intros Hne. induction es as [|x t IH]; intros w E r fuel W Hl Hi Hr EQ Hf; (destruct fuel; [simpl in Hf; lia|]).
  - destruct (PopFront_nil w E input W Hi EQ) as (w1 & w' & ri & Run1 & Hri & W1 & Run & A & W' & Fr & Hlf & Hnf & Oth & Hz).
    exists w'. split.
    { simpl. unfold bind at 1. rewrite Run. unfold OkE. mrun. rewrite Hz. reflexivity. }
    split.
    { apply (WF_ext w' E); [|exact W']. intros l0. unfold upd.
      destruct (Nat.eqb_spec l0 input) as [->|]; [auto|].
      destruct (Nat.eqb_spec l0 l) as [->|]; [rewrite app_nil_r|]; reflexivity. }
    split; [apply frame_pres; [split; lia|exact Fr]|]. split; [exact Hlf|].
    split; [intros; apply Oth; auto|]. rewrite Oth; auto.
  - destruct (PopFront_cons w E input x t W Hi EQ) as (w1 & Run1 & W1 & SD1 & O1 & Ox1 & Len1 & Oth1).
    assert (Hl1 : (l < lfresh w1)%nat) by (rewrite (sd_lfresh _ _ SD1); exact Hl).
    assert (Hr1 : lroot (lists w1 l) = Some r) by (rewrite (sd_root _ _ SD1); exact Hr).
    assert (Hxin : In x (E input)) by (rewrite EQ; left; reflexivity).
    pose proof (wf_lists _ _ W input Hi) as Li.
    destruct (lroot (lists w input)) as [ri|] eqn:Hri; [|destruct Li; congruence].
    destruct (WF_elem_in _ _ _ _ _ W Hi Hri (or_intror Hxin)) as [_ Hxlt].
    destruct Li as [_ _ _ Eok]. rewrite Forall_forall in Eok. pose proof (Eok x Hxin) as Okx.
    assert (Hx1 : (x < nfresh w1)%nat) by (rewrite (sd_nfresh _ _ SD1); exact Hxlt).
    assert (Ok1 : nok (nodes w1 x) = true) by (rewrite (sd_ok _ _ SD1); exact Okx).
    set (E1 := upd E input t) in *.
    assert (E1l : E1 l = E l) by (unfold E1; rewrite upd_other; auto).
    destruct (Append_back w1 E1 l r x W1 Hl1 Hr1 Hx1 Ox1 Ok1) as (w2 & Run2 & W2 & SD2 & O2 & Len2 & Oth2).
    rewrite E1l in Run2, W2.
    set (E2 := upd E1 l (E l ++ [x])) in *.
    assert (Hl2 : (l < lfresh w2)%nat) by (rewrite (sd_lfresh _ _ SD2); exact Hl1).
    assert (Hi2 : (input < lfresh w2)%nat) by (rewrite (sd_lfresh _ _ SD2), (sd_lfresh _ _ SD1); exact Hi).
    assert (Hr2 : lroot (lists w2 l) = Some r) by (rewrite (sd_root _ _ SD2); exact Hr1).
    assert (E2i : E2 input = t) by (unfold E2, E1; rewrite upd_other by auto; apply upd_same).
    assert (E2l : E2 l = E l ++ [x]) by (unfold E2; apply upd_same).
    destruct (IH w2 E2 r fuel W2 Hl2 Hi2 Hr2 E2i ltac:(simpl in Hf; lia)) as (w3 & Run3 & W3 & P3 & Hlf3 & Oth3 & Hr3).
    exists w3. split.
    { simpl. unfold bind at 1. rewrite Run1. unfold OkE. mrun. rewrite Ok1. simpl.
      rewrite Run2. rewrite E2l, last_last in Run3. exact Run3. }
    split.
    { eapply WF_ext; [|exact W3]. intros l0. unfold upd. rewrite E2l.
      destruct (Nat.eqb_spec l0 input) as [->|]; [reflexivity|].
      destruct (Nat.eqb_spec l0 l) as [->|]; [rewrite <- app_assoc; reflexivity|].
      unfold E2, E1. rewrite !upd_other by auto. reflexivity. }
    split; [eapply pres_trans; [apply same_data_pres; exact SD1|eapply pres_trans; [apply same_data_pres; exact SD2|exact P3]]|].
    split; [rewrite Hlf3, (sd_lfresh _ _ SD2), (sd_lfresh _ _ SD1); reflexivity|].
    split; [intros l0 H1 H2; rewrite Oth3, Oth2, Oth1; auto|exact Hr3].
Qed.

Lemma Extend_spec w E l input :
  WF w E -> (l < lfresh w)%nat -> (input < lfresh w)%nat -> l <> input ->
  exists w', Extend l input w = Ret tt w' /\
     WF w' (upd (upd E l (E l ++ E input)) input []) /\ pres w w' /\ lfresh w' = lfresh w /\
     (forall l', l' <> l -> l' <> input -> lists w' l' = lists w l').
Proof.
  intros W Hl Hi Hne. unfold Extend, Len. mrun.
  destruct (Z.eqb_spec (llen (lists w input)) 0) as [Z0|NZ].
  - exists w. apply (WF_empty_len w E input W Hi) in Z0.
    split; [reflexivity|]. split; [|split; [apply pres_refl|auto]].
    apply (WF_ext w E); [|exact W]. intros l0. unfold upd. rewrite Z0.
    destruct (Nat.eqb_spec l0 input) as [->|]; [auto|].
    destruct (Nat.eqb_spec l0 l) as [->|]; [rewrite app_nil_r|]; reflexivity.
  - destruct (Back_spec w E l W Hl) as (w1 & r & RunB & Run1 & Hr1 & W1).
    destruct (lazySetup_spec w E l W Hl) as (w1' & r' & Run1' & _ & _ & Ex1 & Hlf1 & Fr1 & _ & Oth1 & _).
    rewrite Run1 in Run1'. injection Run1' as <-.
    assert (Hl1 : (l < lfresh w1)%nat) by lia. assert (Hi1 : (input < lfresh w1)%nat) by lia.
    assert (Hf : (List.length (E input) < S (nfresh w1))%nat) by (pose proof (WF_len_bound w1 E input W1 Hi1); lia).
    destruct (extend_loop_spec l input Hne (E input) w1 E r (S (nfresh w1)) W1 Hl1 Hi1 Hr1 eq_refl Hf)
      as (w2 & Run2 & W2 & P2 & Hlf2 & Oth2 & _).
    exists w2. split.
    { unfold bind in RunB |- *. rewrite RunB. exact Run2. }
    split; [exact W2|]. split; [eapply pres_trans; [apply frame_pres; eauto|exact P2]|].
    split; [lia|]. intros l0 H1 H2. rewrite Oth2, Oth1; auto.
Qed.

(* ---------------------------------------------------------------- Copy *)
Lemma WF_next w E l r pre x suf :
  WF w E -> (l < lfresh w)%nat -> lroot (lists w l) = Some r -> E l = pre ++ x :: suf ->
  nnext (nodes w x) = Some (first suf r) /\ nok (nodes w x) = true /\ (x < nfresh w)%nat /\ x <> r.
Proof.
  intros W Hl Hr EQ. pose proof (wf_lists _ _ W l Hl) as L. rewrite Hr in L. destruct L as [[ND [Df _]] _ _ Eok].
  assert (Hin : In x (E l)) by (rewrite EQ; apply in_or_app; right; left; reflexivity).
  rewrite EQ in Df. split; [apply (dlinks_succ _ _ _ _ _ _ Df)|].
  split; [rewrite Forall_forall in Eok; auto|].
  split; [apply (WF_elem_in _ _ _ _ _ W Hl Hr (or_intror Hin))|].
  intros ->. inv ND. auto.
Qed.

Lemma items_pres w w' ns : pres w w' -> Forall (fun n => (n < nfresh w)%nat) ns -> items w' ns = items w ns.
Proof.
  intros P F. unfold items. apply map_ext_in. intros x Hx. rewrite Forall_forall in F. apply (pr_item _ _ P). auto.
Qed.

Lemma WF_elems_lt w E l : WF w E -> (l < lfresh w)%nat -> Forall (fun n => (n < nfresh w)%nat) (E l).
Proof.
  intros W Hl. rewrite Forall_forall. intros x Hx. pose proof (wf_lists _ _ W l Hl) as L.
  destruct (lroot (lists w l)) as [r|] eqn:Hr.
  - apply (WF_elem_in _ _ _ _ _ W Hl Hr (or_intror Hx)).
  - destruct L as [_ L]. rewrite L in Hx. destruct Hx.
Qed.

Lemma copy_loop_spec out l : out <> l ->
  forall suf pre w E r fuel,
  WF w E -> (l < lfresh w)%nat -> (out < lfresh w)%nat -> lroot (lists w l) = Some r ->
  E l = pre ++ suf -> (List.length suf < fuel)%nat ->
  exists w' ns, copy_loop fuel out (Some (first suf r)) w = Ret tt w' /\
     WF w' (upd E out (E out ++ ns)) /\ items w' ns = items w suf /\ pres w w' /\ lfresh w' = lfresh w /\
     (forall l', l' <> out -> lists w' l' = lists w l').
Proof.
  intros Hne. induction suf as [|x t IH]; intros pre w E r fuel W Hl Ho Hr EQ Hf; (destruct fuel; [simpl in Hf; lia|]).
  - exists w, []. pose proof (wf_lists _ _ W l Hl) as L. rewrite Hr in L. destruct L as [_ _ Rok _].
    split; [simpl; unfold OkE; mrun; rewrite Rok; reflexivity|].
    split; [apply (WF_ext w E); [|exact W]; intros l0; unfold upd; destruct (Nat.eqb_spec l0 out) as [->|]; [rewrite app_nil_r|]; reflexivity|].
    split; [reflexivity|]. split; [apply pres_refl|auto].
  - destruct (WF_next w E l r pre x t W Hl Hr EQ) as (Hnx & Okx & Hxlt & Hxr).
    destruct (Push_spec false w E out (nitem (nodes w x)) W Ho) as (w1 & n & Run1 & W1 & Hn & Hin & Hon & P1 & Hlf1 & _ & Oth1).
    simpl in Run1. set (E1 := upd E out (E out ++ [n])) in *.
    assert (Hl1 : (l < lfresh w1)%nat) by lia. assert (Ho1 : (out < lfresh w1)%nat) by lia.
    assert (Hr1 : lroot (lists w1 l) = Some r) by (rewrite Oth1; auto).
    assert (E1l : E1 l = (pre ++ [x]) ++ t) by (unfold E1; rewrite upd_other by auto; rewrite <- app_assoc; exact EQ).
    destruct (IH (pre ++ [x]) w1 E1 r fuel W1 Hl1 Ho1 Hr1 E1l ltac:(simpl in Hf; lia)) as (w2 & ns & Run2 & W2 & I2 & P2 & Hlf2 & Oth2).
    exists w2, (n :: ns). split.
    { simpl. unfold OkE, Value. mrun. rewrite Okx. simpl. rewrite Run1.
      assert (E1l' : E1 l = pre ++ x :: t) by (rewrite E1l, <- app_assoc; reflexivity).
      destruct (WF_next w1 E1 l r pre x t W1 Hl1 Hr1 E1l') as (Hnx1 & _). unfold Next. mrun. rewrite Hnx1. exact Run2. }
    split.
    { eapply WF_ext; [|exact W2]. intros l0. unfold upd, E1. unfold upd.
      destruct (Nat.eqb_spec l0 out) as [->|]; [|reflexivity].
      rewrite Nat.eqb_refl. rewrite <- app_assoc. reflexivity. }
    split.
    { simpl. f_equal.
      - rewrite (pr_item _ _ P2) by lia. exact Hin.
      - rewrite I2. apply items_pres; [exact P1|].
        pose proof (WF_elems_lt w E l W Hl) as F. rewrite EQ in F. apply Forall_app in F. destruct F as [_ F]. inv F. auto. }
    split; [eapply pres_trans; eauto|]. split; [lia|].
    intros l0 H. rewrite Oth2, Oth1; auto.
Qed.

Arguments copy_loop : simpl never.

Lemma Copy_spec w E l :
  WF w E -> (l < lfresh w)%nat ->
  exists w' ns, Copy l w = Ret (lfresh w) w' /\
     WF w' (upd E (lfresh w) ns) /\ items w' ns = abs w E l /\ pres w w' /\ lfresh w' = S (lfresh w) /\
     (forall l', l' <> lfresh w -> lists w' l' = lists w l').
Proof.
  intros W Hl. destruct (alloc_list_WF w E W) as (w0 & A & W0 & Hnodes & Hnf & Hlf & Hl0 & Oth0).
  set (out := lfresh w) in *.
  assert (Hne : out <> l) by (unfold out; lia).
  assert (P0 : pres w w0). { apply frame_pres; [split; lia|]. intros. rewrite Hnodes. reflexivity. }
  set (E0 := upd E out []) in *.
  assert (A0 : abs w0 E0 l = abs w E l).
  { unfold abs, E0. rewrite upd_other by auto. apply items_pres; [exact P0|apply WF_elems_lt; auto]. }
  unfold Copy, bind at 1. rewrite A. unfold Len. mrun. rewrite Oth0 by auto.
  destruct (Z.ltb_spec 0 (llen (lists w l))) as [Pos|NPos].
  - assert (Hl0' : (l < lfresh w0)%nat) by lia. assert (Ho0 : (out < lfresh w0)%nat) by lia.
    destruct (Front_spec w0 E0 l W0 Hl0') as (w1 & r & RunF & Run1 & Hr1 & W1).
    destruct (lazySetup_spec w0 E0 l W0 Hl0') as (w1' & r' & Run1' & _ & _ & Ex1 & Hlf1 & Fr1 & _ & Oth1 & _).
    rewrite Run1 in Run1'. injection Run1' as <-.
    assert (Hl1 : (l < lfresh w1)%nat) by lia. assert (Ho1 : (out < lfresh w1)%nat) by lia.
    assert (Hf : (List.length (E0 l) < S (nfresh w0))%nat) by (pose proof (WF_len_bound w0 E0 l W0 Hl0'); lia).
    destruct (copy_loop_spec out l Hne (E0 l) [] w1 E0 r (S (nfresh w0)) W1 Hl1 Ho1 Hr1 eq_refl Hf)
      as (w2 & ns & Run2 & W2 & I2 & P2 & Hlf2 & Oth2).
    exists w2, ns. split.
    { unfold bind in RunF. rewrite RunF. unfold first in Run2. rewrite Run2. reflexivity. }
    assert (P01 : pres w0 w1) by (apply frame_pres; auto).
    split.
    { eapply WF_ext; [|exact W2]. intros l0. unfold E0, upd. destruct (Nat.eqb_spec l0 out); [subst; rewrite Nat.eqb_refl|]; reflexivity. }
    split.
    { rewrite I2. rewrite <- A0. unfold abs. apply items_pres; [exact P01|apply WF_elems_lt; auto]. }
    split; [eapply pres_trans; [exact P0|eapply pres_trans; eauto]|]. split; [lia|].
    intros l0 H. rewrite Oth2 by auto. destruct (Nat.eq_dec l0 l) as [->|H2].
    + destruct (lazySetup_spec w0 E0 l W0 Hl0') as (w1'' & r'' & Run1'' & _ & _ & _ & _ & _ & _ & _ & Same).
      rewrite Run1 in Run1''. injection Run1'' as <-.
      pose proof (wf_lists _ _ W l Hl) as L. destruct (lroot (lists w l)) as [r0|] eqn:Hr0.
      * rewrite (Same r0); [apply Oth0; auto|rewrite Oth0; auto].
      * destruct L as [L _]. lia.
    + rewrite Oth1, Oth0; auto.
  - exists w0, []. split; [reflexivity|]. split; [exact W0|].
    split; [|split; [exact P0|split; [exact Hlf|intros; apply Oth0; auto]]].
    assert (Z0 : llen (lists w l) = 0).
    { pose proof (wf_lists _ _ W l Hl) as L. destruct (lroot (lists w l)); [destruct L as [_ Len _ _]; lia|tauto]. }
    apply (WF_empty_len w E l W Hl) in Z0. unfold abs. rewrite Z0. reflexivity.
Qed.

(* ---------------------------------------------------------------- iterators *)
Lemma Iterate_rev_WF w E l :
  WF w E -> (l < lfresh w)%nat ->
  exists w', Iterate PRev l w = Ret (rev (abs w E l)) w' /\ lazySetup l w = Ret tt w'.
Proof.
  intros W Hl. destruct (lazySetup_spec w E l W Hl) as (w' & r & Run & W' & Hr & Ex & Hlf & Fr & _).
  exists w'. split; [|exact Run]. unfold Iterate, bind at 1. rewrite Run. unfold Root. unfold bind, get. rewrite Hr.
  assert (Hl' : (l < lfresh w')%nat) by lia.
  pose proof (wf_lists _ _ W' l Hl') as L. rewrite Hr in L. destruct L as [[ND [Df Db]] Len Rok Eok].
  assert (Hnr : ~ In r (rev (E l))) by (rewrite <- in_rev; inv ND; auto).
  assert (Eok' : Forall (fun n => nok (nodes w' n) = true) (rev (E l))).
  { rewrite Forall_forall in *. intros x Hx. apply Eok. apply in_rev. exact Hx. }
  assert (Hf : (List.length (rev (E l)) < S (nfresh w'))%nat) by (rewrite rev_length; pose proof (WF_len_bound w' E l W' Hl'); lia).
  pose proof (drain_dir PRev nprev w' l r (or_intror (conj eq_refl eq_refl)) Hr Rok (rev (E l)) Db Hnr Eok' (rev (E l)) [] [] _ eq_refl Hf) as DR.
  change (last [] r) with r in DR. rewrite DR. simpl. f_equal.
  unfold items. rewrite map_rev. f_equal. apply (abs_pres w w' E l W Hl). apply frame_pres; auto.
Qed.

Lemma drain_popfront_spec l :
  forall es w E r fuel acc cur,
  WF w E -> (l < lfresh w)%nat -> lroot (lists w l) = Some r -> E l = es -> (List.length es < fuel)%nat ->
  exists w', drain fuel PPop l cur acc w = Ret (rev acc ++ items w es) w' /\
     WF w' (upd E l []) /\ pres w w' /\ lfresh w' = lfresh w /\ (forall l', l' <> l -> lists w' l' = lists w l').
Proof.
  induction es as [|x t IH]; intros w E r fuel acc cur W Hl Hr EQ Hf; (destruct fuel; [simpl in Hf; lia|]).
  - destruct (PopFront_nil w E l W Hl EQ) as (w1 & w' & ri & Run1 & Hri & W1 & Run & A & W' & Fr & Hlf & Hnf & Oth & Hz).
    exists w'. split.
    { simpl. unfold bind at 1. rewrite Run. unfold OkE, Root. mrun. rewrite Hz. simpl. rewrite app_nil_r. reflexivity. }
    split; [apply (WF_ext w' E); [|exact W']; intros l0; unfold upd; destruct (Nat.eqb_spec l0 l) as [->|]; auto|].
    split; [apply frame_pres; [split; lia|exact Fr]|]. auto.
  - destruct (PopFront_cons w E l x t W Hl EQ) as (w1 & Run1 & W1 & SD1 & O1 & Ox1 & Len1 & Oth1).
    destruct (WF_next w E l r [] x t W Hl Hr EQ) as (_ & Okx & Hxlt & Hxr).
    assert (Hl1 : (l < lfresh w1)%nat) by (rewrite (sd_lfresh _ _ SD1); exact Hl).
    assert (Hr1 : lroot (lists w1 l) = Some r) by (rewrite (sd_root _ _ SD1); exact Hr).
    destruct (IH w1 (upd E l t) r fuel (nitem (nodes w x) :: acc) (Some x) W1 Hl1 Hr1 (upd_same _ _ _) ltac:(simpl in Hf; lia))
      as (w2 & Run2 & W2 & P2 & Hlf2 & Oth2).
    exists w2. split.
    { simpl. unfold bind at 1. rewrite Run1. unfold OkE, Root, Value. mrun.
      rewrite (sd_ok _ _ SD1), Okx, Hr1. simpl.
      destruct (Nat.eqb_spec x r); [congruence|]. simpl. rewrite (sd_item _ _ SD1). rewrite Run2.
      simpl. rewrite <- app_assoc. simpl. f_equal. f_equal. f_equal.
      apply items_pres; [apply same_data_pres; exact SD1|].
      pose proof (WF_elems_lt w E l W Hl) as F. rewrite EQ in F. inv F. auto. }
    split; [eapply WF_ext; [|exact W2]; intros l0; unfold upd; destruct (Nat.eqb_spec l0 l); reflexivity|].
    split; [eapply pres_trans; [apply same_data_pres; exact SD1|exact P2]|].
    split; [rewrite Hlf2; apply (sd_lfresh _ _ SD1)|]. intros l0 H. rewrite Oth2, Oth1; auto.
Qed.

Lemma drain_popback_spec l :
  forall es w E r fuel acc cur,
  WF w E -> (l < lfresh w)%nat -> lroot (lists w l) = Some r -> E l = es -> (List.length es < fuel)%nat ->
  exists w', drain fuel PRevPop l cur acc w = Ret (rev acc ++ items w (rev es)) w' /\
     WF w' (upd E l []) /\ pres w w' /\ lfresh w' = lfresh w /\ (forall l', l' <> l -> lists w' l' = lists w l').
Proof.
  induction es as [|x t IH] using rev_ind; intros w E r fuel acc cur W Hl Hr EQ Hf; (destruct fuel; [simpl in Hf; try rewrite app_length in Hf; simpl in Hf; lia|]).
  - destruct (PopBack_nil w E l W Hl EQ) as (w1 & w' & ri & Run1 & Hri & W1 & Run & A & W' & Fr & Hlf & Hnf & Oth & Hz).
    exists w'. split.
    { simpl. unfold bind at 1. rewrite Run. unfold OkE, Root. mrun. rewrite Hz. simpl. rewrite app_nil_r. reflexivity. }
    split; [apply (WF_ext w' E); [|exact W']; intros l0; unfold upd; destruct (Nat.eqb_spec l0 l) as [->|]; auto|].
    split; [apply frame_pres; [split; lia|exact Fr]|]. auto.
  - destruct (PopBack_snoc w E l x t W Hl EQ) as (w1 & Run1 & W1 & SD1 & O1 & Ox1 & Len1 & Oth1).
    destruct (WF_next w E l r t x [] W Hl Hr EQ) as (_ & Okx & Hxlt & Hxr).
    assert (Hl1 : (l < lfresh w1)%nat) by (rewrite (sd_lfresh _ _ SD1); exact Hl).
    assert (Hr1 : lroot (lists w1 l) = Some r) by (rewrite (sd_root _ _ SD1); exact Hr).
    rewrite app_length in Hf. simpl in Hf.
    destruct (IH w1 (upd E l t) r fuel (nitem (nodes w x) :: acc) (Some x) W1 Hl1 Hr1 (upd_same _ _ _) ltac:(lia))
      as (w2 & Run2 & W2 & P2 & Hlf2 & Oth2).
    exists w2. split.
    { simpl. unfold bind at 1. rewrite Run1. unfold OkE, Root, Value. mrun.
      rewrite (sd_ok _ _ SD1), Okx, Hr1. simpl.
      destruct (Nat.eqb_spec x r); [congruence|]. simpl. rewrite (sd_item _ _ SD1). rewrite Run2.
      rewrite rev_app_distr. simpl. rewrite <- app_assoc. simpl. f_equal. f_equal. f_equal.
      apply items_pres; [apply same_data_pres; exact SD1|].
      pose proof (WF_elems_lt w E l W Hl) as F. rewrite EQ in F. apply Forall_app in F. destruct F as [F _].
      rewrite Forall_forall in *. intros y Hy. apply F. apply in_rev. exact Hy. }
    split; [eapply WF_ext; [|exact W2]; intros l0; unfold upd; destruct (Nat.eqb_spec l0 l); reflexivity|].
    split; [eapply pres_trans; [apply same_data_pres; exact SD1|exact P2]|].
    split; [rewrite Hlf2; apply (sd_lfresh _ _ SD1)|]. intros l0 H. rewrite Oth2, Oth1; auto.
Qed.

Arguments drain : simpl never.

Lemma Iterate_pop_WF (front : bool) w E l :
  WF w E -> (l < lfresh w)%nat ->
  exists w', Iterate (if front then PPop else PRevPop) l w = Ret (if front then abs w E l else rev (abs w E l)) w' /\
     WF w' (upd E l []) /\ pres w w' /\ lfresh w' = lfresh w /\ (forall l', l' <> l -> lists w' l' = lists w l').
Proof.
  intros W Hl. destruct (lazySetup_spec w E l W Hl) as (w1 & r & Run & W1 & Hr & Ex & Hlf & Fr & _ & Oth1 & _).
  assert (Hl1 : (l < lfresh w1)%nat) by lia.
  assert (Hf : (List.length (E l) < S (nfresh w1))%nat) by (pose proof (WF_len_bound w1 E l W1 Hl1); lia).
  assert (P1 : pres w w1) by (apply frame_pres; auto).
  assert (A1 : items w1 (E l) = abs w E l) by (apply (abs_pres w w1 E l W Hl P1)).
  destruct front.
  - destruct (drain_popfront_spec l (E l) w1 E r (S (nfresh w1)) [] None W1 Hl1 Hr eq_refl Hf) as (w2 & Run2 & W2 & P2 & Hlf2 & Oth2).
    exists w2. split.
    { unfold Iterate, bind at 1. rewrite Run. unfold Root, bind, get. rewrite Run2. simpl. rewrite A1. reflexivity. }
    split; [exact W2|]. split; [eapply pres_trans; eauto|]. split; [lia|]. intros l0 H. rewrite Oth2, Oth1; auto.
  - destruct (drain_popback_spec l (E l) w1 E r (S (nfresh w1)) [] None W1 Hl1 Hr eq_refl Hf) as (w2 & Run2 & W2 & P2 & Hlf2 & Oth2).
    exists w2. split.
    { unfold Iterate, bind at 1. rewrite Run. unfold Root, bind, get. rewrite Run2. simpl.
      unfold items. rewrite map_rev. fold (items w1 (E l)). rewrite A1. reflexivity. }
    split; [exact W2|]. split; [eapply pres_trans; eauto|]. split; [lia|]. intros l0 H. rewrite Oth2, Oth1; auto.
Qed.

(* ---------------------------------------------------------------- JSON (decoded-sequence level) *)
Lemma marshal_loop_spec w E l r :
  WF w E -> (l < lfresh w)%nat -> lroot (lists w l) = Some r ->
  forall suf pre acc fuel, E l = pre ++ suf -> (List.length suf < fuel)%nat ->
    marshal_loop fuel l (Some (first suf r)) acc w = Ret (rev acc ++ items w suf) w.
Proof.
  intros W Hl Hr. pose proof (wf_lists _ _ W l Hl) as L. rewrite Hr in L. destruct L as [_ _ Rok _].
  induction suf as [|x t IH]; intros pre acc fuel EQ Hf; (destruct fuel; [simpl in Hf; lia|]).
  - simpl. unfold OkE. mrun. rewrite Rok. simpl. rewrite app_nil_r. reflexivity.
  - destruct (WF_next w E l r pre x t W Hl Hr EQ) as (Hnx & Okx & Hxlt & Hxr).
    simpl. unfold OkE, Front, Value, Next. mrun. rewrite Okx. simpl.
    rewrite (lazySetup_some _ _ _ Hr). unfold Root. mrun. rewrite Hr. simpl. rewrite Hnx.
    rewrite (IH (pre ++ [x])); [|rewrite <- app_assoc; exact EQ|simpl in Hf; lia].
    simpl. rewrite <- app_assoc. reflexivity.
Qed.

Arguments marshal_loop : simpl never.

Lemma MarshalJSON_spec w E l :
  WF w E -> (l < lfresh w)%nat -> MarshalJSON l w = Ret (abs w E l) w.
Proof.
  intros W Hl. unfold MarshalJSON, Len. mrun.
  destruct (Z.ltb_spec 0 (llen (lists w l))) as [Pos|NPos].
  - pose proof (wf_lists _ _ W l Hl) as L. destruct (lroot (lists w l)) as [r|] eqn:Hr; [|destruct L; lia].
    unfold Front. mrun. rewrite (lazySetup_some _ _ _ Hr). unfold Root. mrun. rewrite Hr. simpl.
    destruct (root_next w E l r W Hl Hr) as [-> _].
    pose proof (WF_len_bound w E l W Hl).
    change (hd r (E l)) with (first (E l) r).
    rewrite (marshal_loop_spec w E l r W Hl Hr (E l) [] [] (S (nfresh w)) eq_refl ltac:(lia)). reflexivity.
  - assert (Z0 : llen (lists w l) = 0).
    { pose proof (wf_lists _ _ W l Hl) as L. destruct (lroot (lists w l)); [destruct L as [_ Len _ _]; lia|tauto]. }
    apply (WF_empty_len w E l W Hl) in Z0. unfold abs. rewrite Z0. reflexivity.
Qed.

Lemma unmarshal_loop_spec d :
  forall vs w E r,
  WF w E -> (d < lfresh w)%nat -> lroot (lists w d) = Some r ->
  exists w' ns, unmarshal_loop vs (Some (last (E d) r)) w = Ret tt w' /\
     WF w' (upd E d (E d ++ ns)) /\ items w' ns = vs /\ pres w w' /\ lfresh w' = lfresh w /\
     (forall l', l' <> d -> lists w' l' = lists w l').
Proof.
  induction vs as [|v vs IH]; intros w E r W Hd Hr.
  - exists w, []. split; [reflexivity|]. split.
    { apply (WF_ext w E); [|exact W]. intros l0. unfold upd. destruct (Nat.eqb_spec l0 d) as [->|]; [rewrite app_nil_r|]; reflexivity. }
    split; [reflexivity|]. split; [apply pres_refl|auto].
  - destruct (alloc_WF w E (mkNode None None None true 0) W eq_refl) as (w1 & A & W1 & Hn1 & Hnf1 & HL1 & Hlf1 & Fr1).
    set (n := nfresh w) in *.
    assert (Hnlt : (n < nfresh w1)%nat) by lia.
    assert (NR : is_root w1 n = false) by (unfold is_root; rewrite Hn1; reflexivity).
    pose proof (set_world_WF w1 E n v W1 Hnlt NR) as W2.
    destruct (set_world_fields w1 n v) as (Hi2 & Hok2 & Fr2 & Ho2 & HL2 & Hnf2 & Hlf2).
    set (w2 := set_world w1 n v) in *.
    assert (Hd2 : (d < lfresh w2)%nat) by (rewrite Hlf2, Hlf1; exact Hd).
    assert (Hr2 : lroot (lists w2 d) = Some r) by (rewrite HL2, HL1; exact Hr).
    assert (Hn2 : (n < nfresh w2)%nat) by (rewrite Hnf2; exact Hnlt).
    assert (Hon2 : nowner (nodes w2 n) = None) by (rewrite Ho2, Hn1; reflexivity).
    destruct (Append_back w2 E d r n W2 Hd2 Hr2 Hn2 Hon2 Hok2) as (w3 & Run3 & W3 & SD3 & O3 & Len3 & Oth3).
    set (E3 := upd E d (E d ++ [n])) in *.
    assert (Hd3 : (d < lfresh w3)%nat) by (rewrite (sd_lfresh _ _ SD3); exact Hd2).
    assert (Hr3 : lroot (lists w3 d) = Some r) by (rewrite (sd_root _ _ SD3); exact Hr2).
    destruct (IH w3 E3 r W3 Hd3 Hr3) as (w4 & ns & Run4 & W4 & I4 & P4 & Hlf4 & Oth4).
    assert (E3d : E3 d = E d ++ [n]) by (unfold E3; apply upd_same).
    assert (P03 : pres w w3).
    { eapply pres_trans; [|apply same_data_pres; exact SD3].
      apply frame_pres; [split; [rewrite Hnf2, Hnf1; unfold n; lia|rewrite Hlf2, Hlf1; lia]|].
      intros x Hx. assert (x <> n) by (unfold n; lia). rewrite Fr2, Fr1; auto. }
    exists w4, (n :: ns). split.
    { simpl. unfold NewElement, makeElem. unfold bind at 1. rewrite A. unfold bind at 1. rewrite SetV_run, NR.
      unfold bind at 1. fold w2. rewrite Run3. rewrite E3d, last_last in Run4. exact Run4. }
    split.
    { eapply WF_ext; [|exact W4]. intros l0. unfold upd. rewrite E3d. unfold E3, upd.
      destruct (Nat.eqb_spec l0 d) as [->|]; [rewrite <- app_assoc|]; reflexivity. }
    split.
    { simpl. f_equal; [|exact I4]. rewrite (pr_item _ _ P4) by (rewrite (sd_nfresh _ _ SD3); exact Hn2).
      rewrite (sd_item _ _ SD3). exact Hi2. }
    split; [eapply pres_trans; eauto|]. split; [rewrite Hlf4, (sd_lfresh _ _ SD3), Hlf2, Hlf1; reflexivity|].
    intros l0 H. rewrite Oth4, Oth3, HL2, HL1; auto.
Qed.

Lemma UnmarshalJSON_spec w E d vs :
  WF w E -> (d < lfresh w)%nat ->
  exists w' ns, UnmarshalJSON d vs w = Ret tt w' /\
     WF w' (upd E d (E d ++ ns)) /\ items w' ns = vs /\ pres w w' /\ lfresh w' = lfresh w /\
     (forall l', l' <> d -> lists w' l' = lists w l').
Proof.
  intros W Hd. destruct (Back_spec w E d W Hd) as (w1 & r & RunB & Run1 & Hr1 & W1).
  destruct (lazySetup_spec w E d W Hd) as (w1' & r' & Run1' & _ & _ & Ex1 & Hlf1 & Fr1 & _ & Oth1 & _).
  rewrite Run1 in Run1'. injection Run1' as <-.
  assert (Hd1 : (d < lfresh w1)%nat) by lia.
  destruct (unmarshal_loop_spec d vs w1 E r W1 Hd1 Hr1) as (w2 & ns & Run2 & W2 & I2 & P2 & Hlf2 & Oth2).
  exists w2, ns. split; [unfold UnmarshalJSON, bind; rewrite RunB; exact Run2|].
  split; [exact W2|]. split; [exact I2|]. split; [eapply pres_trans; [apply frame_pres; eauto|exact P2]|].
  split; [lia|]. intros l0 H. rewrite Oth2, Oth1; auto.
Qed.

(* ---------------------------------------------------------------- IsSorted *)
Lemma WF_prev w E l r pre p x suf :
  WF w E -> (l < lfresh w)%nat -> lroot (lists w l) = Some r -> E l = pre ++ p :: x :: suf ->
  nprev (nodes w x) = Some p.
Proof.
  intros W Hl Hr EQ. pose proof (wf_lists _ _ W l Hl) as L. rewrite Hr in L. destruct L as [[ND [_ Db]] _ _ _].
  rewrite EQ in Db. rewrite rev_app_distr in Db. simpl in Db. rewrite <- !app_assoc in Db. simpl in Db.
  rewrite (dlinks_succ _ _ _ _ _ _ Db). reflexivity.
Qed.

Lemma issorted_loop_spec lt w E l r :
  WF w E -> (l < lfresh w)%nat -> lroot (lists w l) = Some r ->
  forall suf pre p fuel, E l = pre ++ p :: suf -> (List.length suf < fuel)%nat ->
    issorted_loop lt fuel (Some (first suf r)) w = Ret (is_sorted lt (nitem (nodes w p) :: items w suf)) w.
Proof.
  intros W Hl Hr. pose proof (wf_lists _ _ W l Hl) as L. rewrite Hr in L. destruct L as [_ _ Rok _].
  induction suf as [|x t IH]; intros pre p fuel EQ Hf; (destruct fuel; [simpl in Hf; lia|]).
  - simpl. unfold OkE. mrun. rewrite Rok. reflexivity.
  - assert (EQ' : E l = (pre ++ [p]) ++ x :: t) by (rewrite <- app_assoc; exact EQ).
    destruct (WF_next w E l r (pre ++ [p]) x t W Hl Hr EQ') as (Hnx & Okx & Hxlt & Hxr).
    pose proof (WF_prev w E l r pre p x t W Hl Hr EQ) as Hpv.
    simpl. unfold OkE, Value, Previous, Next. mrun. rewrite Okx. simpl. rewrite Hpv. simpl.
    destruct (lt (nitem (nodes w x)) (nitem (nodes w p))); [reflexivity|].
    rewrite Hnx. apply (IH (pre ++ [p]) x fuel); [exact EQ'|simpl in Hf; lia].
Qed.

Arguments issorted_loop : simpl never.

Lemma is_sorted_short_local lt (l : list Z) : (List.length l <= 1)%nat -> is_sorted lt l = true.
Proof. destruct l as [|a [|b l]]; simpl; intros; try reflexivity; lia. Qed.

Lemma IsSorted_spec lt w E l :
  WF w E -> (l < lfresh w)%nat -> IsSorted lt l w = Ret (is_sorted lt (abs w E l)) w.
Proof.
  intros W Hl. unfold IsSorted, Len. mrun.
  pose proof (wf_lists _ _ W l Hl) as L.
  destruct (Z.leb_spec (llen (lists w l)) 1) as [Le|Gt].
  - f_equal. symmetry. apply is_sorted_short_local. unfold abs, items. rewrite map_length.
    destruct (lroot (lists w l)); [destruct L as [_ Len _ _]; lia|destruct L as [_ ->]; simpl; lia].
  - destruct (lroot (lists w l)) as [r|] eqn:Hr; [|destruct L; lia].
    destruct L as [_ Len _ _].
    destruct (E l) as [|a [|b t]] eqn:EQ; simpl in Len; try lia.
    unfold Front, Next. mrun. rewrite (lazySetup_some _ _ _ Hr). unfold Root. mrun. rewrite Hr. simpl.
    destruct (root_next w E l r W Hl Hr) as [-> _]. rewrite EQ. simpl.
    destruct (WF_next w E l r [] a (b :: t) W Hl Hr EQ) as (Hnx & _). rewrite Hnx.
    pose proof (WF_len_bound w E l W Hl) as B. rewrite EQ in B. simpl in B.
    change (first (b :: t) r) with (first (b :: t) r).
    rewrite (issorted_loop_spec lt w E l r W Hl Hr (b :: t) [] a (S (nfresh w)) EQ ltac:(simpl; lia)).
    unfold abs. rewrite EQ. reflexivity.
Qed.
