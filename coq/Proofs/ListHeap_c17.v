(* C17, sorting half: SortMerge and SortQuick on the pointer-level model. *)
From FunV Require Import Base.Tac Base.ListX Model.SortSpec Proofs.SortSpec_proofs Model.ListHeap
  Proofs.ListHeap_ring Proofs.ListHeap_wf Proofs.ListHeap_splice Proofs.ListHeap_ops Proofs.ListHeap_obs
  Proofs.ListHeap_step Proofs.ListHeap_loops Proofs.ListHeap_sortq Proofs.ListHeap_msort Proofs.ListHeap_sortm
  Proofs.ListHeap_all.
Local Open Scope Z_scope.

Definition owned_by (w : world) (l : nat) (ns : list nat) : Prop :=
  Forall (fun n => nowner (nodes w n) = Some l) ns.

Lemma WF_owned w E l : WF w E -> (l < lfresh w)%nat -> owned_by w l (E l).
Proof.
  intros W Hl. unfold owned_by. rewrite Forall_forall. intros x Hx.
  pose proof (wf_lists _ _ W l Hl) as L. destruct (lroot (lists w l)) as [r|] eqn:Hr.
  - apply (WF_elem_in _ _ _ _ _ W Hl Hr (or_intror Hx)).
  - destruct L as [_ L]. rewrite L in Hx. destruct Hx.
Qed.

Lemma abs_as_keys w w' E l ns :
  WF w E -> (l < lfresh w)%nat -> pres w w' -> Permutation ns (E l) ->
  items w' ns = map (fun x => nitem (nodes w x)) ns.
Proof.
  intros W Hl P PM. unfold items. apply map_ext_in. intros x Hx. apply (pr_item _ _ P).
  pose proof (WF_elems_lt w E l W Hl) as F. rewrite Forall_forall in F. apply F. apply (Permutation_in _ PM). exact Hx.
Qed.

(* ---------------------------------------------------------------- SortMerge *)
Section SortMergeThm.
Variable lt : Z -> Z -> bool.

(* the outcome of SortMerge in one statement; the three C17 theorems are projections of it *)
Lemma SortMerge_outcome w E l :
  WF w E -> (l < lfresh w)%nat ->
  exists w' E', SortMerge lt l w = Ret tt w' /\ WF w' E' /\ (l < lfresh w')%nat /\
    Permutation (E' l) (E l) /\ Permutation (abs w' E' l) (abs w E l) /\
    ((forall a b, lt a b = true -> lt b a = false) -> sorted lt (abs w' E' l)) /\
    owned_by w' l (E' l) /\
    (forall l0, (l0 < lfresh w)%nat -> l0 <> l -> E' l0 = E l0 /\ abs w' E' l0 = abs w E l0).
Proof.
  intros W Hl. destruct (SortMerge_spec lt w E l W Hl) as (w' & E' & Run & W' & P & Hlf & EQ & Oth).
  set (key := fun x => nitem (nodes w x)) in *.
  assert (PM : Permutation (E' l) (E l)) by (rewrite EQ; apply msort_ref_perm).
  assert (Hl' : (l < lfresh w')%nat) by lia.
  assert (AK : abs w' E' l = map key (E' l)) by (apply (abs_as_keys w w' E l); auto).
  exists w', E'. split; [exact Run|]. split; [exact W'|]. split; [exact Hl'|]. split; [exact PM|].
  split; [rewrite AK; unfold abs, items; fold key; apply Permutation_map; exact PM|].
  split; [intros Asym; rewrite AK, EQ; apply (msort_ref_sorted lt key Asym); lia|].
  split; [apply WF_owned; auto|].
  intros l0 Hl0 Hne. destruct (Oth l0 Hl0 Hne) as [A _]. split; [exact A|].
  unfold abs. rewrite A. apply items_pres; [exact P|apply WF_elems_lt; auto].
Qed.
End SortMergeThm.

(* ---------------------------------------------------------------- SortQuick *)
Section SortQuickThm.
Variable lt : Z -> Z -> bool.

(* k and v are "equal" for the sort: neither is lt the other *)
Definition same_class (k v : Z) : bool := negb (lt k v) && negb (lt v k).

(* equal elements keep their relative order: for every key class the subsequence of elements in it is unchanged *)
Definition stable_wrt (key : nat -> Z) (before after : list nat) : Prop :=
  forall k, filter (fun n => same_class k (key n)) after = filter (fun n => same_class k (key n)) before.

(* the contract of sort.SliceStable(elems, func(i, j) { return lt(elems[i].item, elems[j].item) }) *)
Definition stable_sort_contract (sorter : list (nat * Z) -> list (nat * Z)) : Prop :=
  forall kv,
    Permutation (sorter kv) kv /\
    sorted lt (map snd (sorter kv)) /\
    (forall k, filter (fun p => same_class k (snd p)) (sorter kv) = filter (fun p => same_class k (snd p)) kv).

Section WithSorter.
Variable sorter : list (nat * Z) -> list (nat * Z).
Hypothesis sorter_ok : stable_sort_contract sorter.

Lemma keyed_consistent w es : Forall (fun p => snd p = nitem (nodes w (fst p))) (keyed w es).
Proof. unfold keyed. rewrite Forall_forall. intros p Hp. apply in_map_iff in Hp. destruct Hp as (n & <- & _). reflexivity. Qed.

Lemma SortQuick_outcome w E l :
  WF w E -> (l < lfresh w)%nat ->
  exists w' E', SortQuickWith sorter l w = Ret tt w' /\ WF w' E' /\ (l < lfresh w')%nat /\
    Permutation (E' l) (E l) /\ Permutation (abs w' E' l) (abs w E l) /\
    sorted lt (abs w' E' l) /\
    stable_wrt (fun n => nitem (nodes w n)) (E l) (E' l) /\
    owned_by w' l (E' l) /\
    (forall l0, (l0 < lfresh w)%nat -> l0 <> l -> E' l0 = E l0 /\ abs w' E' l0 = abs w E l0).
Proof.
  intros W Hl.
  destruct (SortQuickWith_spec sorter (fun kv => proj1 (sorter_ok kv)) w E l W Hl) as (w' & Run & W' & P & Hlf & Oth).
  set (key := fun x => nitem (nodes w x)) in *. set (kv := keyed w (E l)) in *.
  destruct (sorter_ok kv) as (PMkv & Srt & Stb).
  set (E' := upd E l (map fst (sorter kv))) in *.
  assert (E'l : E' l = map fst (sorter kv)) by (unfold E'; apply upd_same).
  assert (FK : map fst kv = E l) by (unfold kv, keyed; rewrite map_map; simpl; apply map_id).
  assert (PM : Permutation (E' l) (E l)) by (rewrite E'l, <- FK; apply Permutation_map; exact PMkv).
  assert (CONS : Forall (fun p => snd p = key (fst p)) (sorter kv)).
  { rewrite Forall_forall. intros p Hp. apply (Permutation_in _ PMkv) in Hp.
    pose proof (keyed_consistent w (E l)) as F. rewrite Forall_forall in F. apply F. exact Hp. }
  assert (SK : map key (map fst (sorter kv)) = map snd (sorter kv)).
  { rewrite map_map. apply map_ext_in. intros p Hp. rewrite Forall_forall in CONS. symmetry. apply CONS. exact Hp. }
  assert (Hl' : (l < lfresh w')%nat) by lia.
  assert (AK : abs w' E' l = map key (E' l)) by (apply (abs_as_keys w w' E l); auto).
  exists w', E'. split; [exact Run|]. split; [exact W'|]. split; [exact Hl'|]. split; [exact PM|].
  split; [rewrite AK; unfold abs, items; fold key; apply Permutation_map; exact PM|].
  split; [rewrite AK, E'l, SK; exact Srt|].
  split.
  { intros k. rewrite E'l, <- FK.
    assert (G : forall ps, Forall (fun p => snd p = key (fst p)) ps ->
                filter (fun n => same_class k (key n)) (map fst ps) = map fst (filter (fun p => same_class k (snd p)) ps)).
    { induction ps as [|p ps IH]; intros F; [reflexivity|]. inversion F as [|? ? Hp Hps]; subst. simpl. rewrite Hp.
      destruct (same_class k (key (fst p))); [change (map fst (p :: filter (fun p0 : nat * Z => same_class k (snd p0)) ps)) with (fst p :: map fst (filter (fun p0 : nat * Z => same_class k (snd p0)) ps)); f_equal|]; apply IH; exact Hps. }
    rewrite (G _ CONS), (G kv (keyed_consistent w (E l))), Stb. reflexivity. }
  split; [apply WF_owned; auto|].
  intros l0 Hl0 Hne. assert (A : E' l0 = E l0) by (unfold E'; apply upd_other; auto). split; [exact A|].
  unfold abs. rewrite A. apply items_pres; [exact P|apply WF_elems_lt; auto].
Qed.
End WithSorter.

(* the executable instance used by the model (insertion sort) meets the contract for a strict weak order *)
Hypothesis swo : strict_weak_order lt.

Lemma sins_hd x l z : hd_error (sins lt x l) = Some z -> z = x \/ hd_error l = Some z.
Proof. destruct l as [|y l]; simpl; [intros H; inv H; auto|]. destruct (lt (snd y) (snd x)); simpl; intros H; inv H; auto. Qed.

Lemma sins_sorted x l : sorted lt (map snd l) -> sorted lt (map snd (sins lt x l)).
Proof.
  destruct swo as (Irr & Tr & NTr).
  assert (Asym : forall a b, lt a b = true -> lt b a = false).
  { intros a b H. destruct (lt b a) eqn:C; auto. pose proof (Tr a b a H C) as X. rewrite Irr in X. discriminate. }
  unfold sorted. induction l as [|y l IH]; simpl; [auto|]. intros S.
  destruct (lt (snd y) (snd x)) eqn:C.
  - simpl. pose proof (IH (adj_tail _ _ _ S)) as S'.
    destruct (sins lt x l) as [|z r] eqn:EZ; [simpl; auto|]. simpl. split; [|exact S'].
    unfold sortedR. assert (Hz : hd_error (sins lt x l) = Some z) by (rewrite EZ; reflexivity).
    apply sins_hd in Hz. destruct Hz as [->|Hz]; [apply Asym; exact C|].
    destruct l as [|y' l]; [discriminate|]. simpl in Hz. inv Hz. simpl in S. destruct S as [S _]. exact S.
  - simpl. split; [exact C|exact S].
Qed.

Lemma stable_sort_sorted kv : sorted lt (map snd (stable_sort lt kv)).
Proof. induction kv as [|x kv IH]; [exact I|]. unfold stable_sort in *. simpl. apply sins_sorted. exact IH. Qed.

Lemma same_class_incomparable k a b : same_class k a = true -> same_class k b = true -> lt b a = false.
Proof.
  destruct swo as (Irr & Tr & NTr). unfold same_class. intros H1 H2.
  apply andb_prop in H1. apply andb_prop in H2. destruct H1 as [A1 A2], H2 as [B1 B2].
  apply negb_true_iff in A1, A2, B1, B2. apply (NTr b k a); assumption.
Qed.

Lemma sins_stable k x l :
  filter (fun p => same_class k (snd p)) (sins lt x l) = filter (fun p => same_class k (snd p)) (x :: l).
Proof.
  induction l as [|y l IH]; [reflexivity|]. simpl. destruct (lt (snd y) (snd x)) eqn:C; [|reflexivity].
  simpl. rewrite IH. simpl.
  destruct (same_class k (snd x)) eqn:Cx, (same_class k (snd y)) eqn:Cy; try reflexivity.
  rewrite (same_class_incomparable k (snd x) (snd y) Cx Cy) in C. discriminate.
Qed.

Lemma stable_sort_meets_contract : stable_sort_contract (stable_sort lt).
Proof.
  intros kv. split; [apply stable_sort_perm|]. split; [apply stable_sort_sorted|].
  intros k. induction kv as [|x kv IH]; [reflexivity|]. unfold stable_sort in *. simpl fold_right.
  rewrite sins_stable. simpl. rewrite IH. reflexivity.
Qed.
End SortQuickThm.

(* projections of SortMerge_outcome in the shape used by Props/C17.v *)
Lemma sort_merge_perm_l :
  forall lt w E l, WF w E -> (l < lfresh w)%nat ->
    exists w' E', SortMerge lt l w = Ret tt w' /\ WF w' E' /\
      Permutation (E' l) (E l) /\ Permutation (abs w' E' l) (abs w E l).
Proof.
  intros lt w E l W Hl. destruct (SortMerge_outcome lt w E l W Hl) as (w' & E' & R & W' & _ & P1 & P2 & _).
  exists w', E'. auto.
Qed.

Lemma sort_merge_sorted_l :
  forall lt, (forall a b, lt a b = true -> lt b a = false) ->
  forall w E l, WF w E -> (l < lfresh w)%nat ->
    exists w' E', SortMerge lt l w = Ret tt w' /\ WF w' E' /\ sorted lt (abs w' E' l).
Proof.
  intros lt A w E l W Hl. destruct (SortMerge_outcome lt w E l W Hl) as (w' & E' & R & W' & _ & _ & _ & S & _).
  exists w', E'. auto.
Qed.

Lemma sort_merge_usable_l :
  forall lt w E l, WF w E -> (l < lfresh w)%nat ->
    exists w' E', SortMerge lt l w = Ret tt w' /\ WF w' E' /\ (l < lfresh w')%nat /\ owned_by w' l (E' l) /\
      (forall l0, (l0 < lfresh w)%nat -> l0 <> l -> E' l0 = E l0 /\ abs w' E' l0 = abs w E l0).
Proof.
  intros lt w E l W Hl. destruct (SortMerge_outcome lt w E l W Hl) as (w' & E' & R & W' & Hl' & _ & _ & _ & O & Oth).
  exists w', E'. auto.
Qed.


(* termination: on a well-formed world SortMerge returns; it neither runs out of fuel (the model's
   image of a loop that does not terminate, e.g. Extend(l, l)) nor panics *)
Lemma sort_merge_terminates_l :
  forall lt w E l, WF w E -> (l < lfresh w)%nat ->
    SortMerge lt l w <> Hang /\ SortMerge lt l w <> Panic /\ exists w', SortMerge lt l w = Ret tt w'.
Proof.
  intros lt w E l W Hl. destruct (SortMerge_spec lt w E l W Hl) as (w' & E' & Run & _).
  rewrite Run. repeat split; try discriminate. eauto.
Qed.

Lemma sort_quick_terminates_l :
  forall lt w E l, WF w E -> (l < lfresh w)%nat -> exists w', SortQuick lt l w = Ret tt w'.
Proof.
  intros lt w E l W Hl.
  destruct (SortQuickWith_spec (stable_sort lt) (stable_sort_perm lt) w E l W Hl) as (w' & Run & _). eauto.
Qed.
