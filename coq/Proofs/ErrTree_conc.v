(* Proofs/ErrTree_conc.v — erc.Collector used from many goroutines: instance of Conc/LockedObject.v.

   Collector.Add / Len / Resolve / Iterator are each ONE critical section under ec.mu (Add's `err == nil` test
   before the lock reads only its argument; Iterator is modelled as reading the content of the stack inside its
   lock region, which is what it does once it copies the stack under the lock — the lazily reading iterator over
   the live head is a data race and C13's business).  That premise is not proved here: it is the atomic-shape check on the skeleton
   regenerated from erc/errors.go (C13) and the concurrent stress of C12's driver.  Given it, every concurrent
   history is a trace of the LockedObject system below, and the theorems hold for every trace: any number of
   goroutines, operations and overlaps. *)
From FunV Require Import Base.Tac Base.ListX Model.ErrTree Proofs.ErrTree_base Proofs.ErrTree_agg.
From FunV Require Import Conc.LockedObject.
Local Open Scope Z_scope.

Inductive cop := CAdd (e : err) | CLen | CResolve (tag : Z) | CIter.
Inductive cres := RUnit | RLen (n : Z) | RErr (e : err) | RList (l : list err) | RCancelled.

Definition cseq (c : coll) (o : cop) : coll * cres :=
  match o with
  | CAdd e => (coll_add c e, RUnit)
  | CLen => (c, RLen (coll_len c))
  | CResolve tag => (c, RErr (coll_resolve tag c))
  | CIter => (c, RList (chain_unwind (s_chain c)))   (* Iterator(): the content of the stack, read under the lock *)
  end.

(* no Collector operation blocks; none has a cancel path (a Cancel event never occurs in a real history; the
   generic system allows it and it changes nothing) *)
Definition cblocked (_ : cres) : bool := false.

Notation crun := (run coll cop cres coll_zero cseq cblocked RCancelled).
Notation clegal := (legal coll cop cres cseq cblocked RCancelled).
Notation centry := (entry cop cres).

(* the errors added by the effective Add operations of a linearization, in linearization order *)
Fixpoint adds_of (l : list centry) : list err :=
  match l with
  | [] => []
  | e :: r => match le_cancel e, le_op e with
              | false, CAdd x => x :: adds_of r
              | _, _ => adds_of r
              end
  end.

Lemma adds_of_app a b : adds_of (a ++ b) = adds_of a ++ adds_of b.
Proof.
  induction a as [|e a IH]; simpl; [reflexivity|]. destruct (le_cancel e); [assumption|].
  destruct (le_op e); simpl; congruence.
Qed.

Lemma coll_adds_app c a b : coll_adds (coll_adds c a) b = coll_adds c (a ++ b).
Proof. unfold coll_adds. symmetry. apply fold_left_app. Qed.

Lemma legal_state s l s' : clegal s l s' -> s' = coll_adds s (adds_of l).
Proof.
  induction 1 as [s|s e l s1 s2 Hc Hs Hb Hl IH|s e l s2 Hc Hr Hl IH]; simpl.
  - reflexivity.
  - rewrite Hc. destruct (le_op e) eqn:Eo; simpl in Hs; inv Hs; auto.
  - rewrite Hc. assumption.
Qed.

(* the result of every effective operation is the sequential one on the adds linearized before it *)
Lemma legal_results l1 e l2 s' :
  clegal coll_zero (l1 ++ e :: l2) s' -> le_cancel e = false ->
  let c := coll_adds coll_zero (adds_of l1) in
  match le_op e with
  | CAdd _ => le_res e = RUnit
  | CLen => le_res e = RLen (Z.of_nat (length (supplied (adds_of l1))))
  | CResolve tag => le_res e = RErr (coll_resolve tag c)
  | CIter => le_res e = RList (rev (supplied (adds_of l1)))
  end.
Proof.
  intros H Hc. apply legal_app_inv in H as (s2 & H1 & H2). apply legal_state in H1.
  inversion H2 as [|s e' l s1 s3 Hc' Hs Hb Hl|s e' l s3 Hc' Hr Hl]; subst; [|congruence].
  cbv zeta. destruct (le_op e) eqn:Eo; simpl in Hs; inv Hs; try reflexivity.
  - f_equal. destruct (collector_holds_exactly 0 (adds_of l1)) as (HL & _). exact HL.
  - f_equal. rewrite coll_adds_zero. simpl s_chain. apply chain_unwind_plain, Forall_rev', supplied_plain.
Qed.

(* The Collector under concurrency: for EVERY trace of the system (any number of goroutines, any overlap)
   - the operations, ordered by their critical sections, form a linearization (legal sequential execution with
     exactly the returned results, complete, real-time ordered — LockedObject.lo_linearizable / lo_realtime);
   - the collector holds exactly the constituents of the non-nil errors added, most recent first;
   - Len is their number; Resolve is nil iff there is none. *)
Theorem collector_concurrent tr c :
  crun tr = Some c ->
  let adds := adds_of (lin c) in
  linearization coll cop cres coll_zero cseq cblocked RCancelled tr c
  /\ st c = coll_adds coll_zero adds
  /\ coll_len (st c) = Z.of_nat (length (supplied adds))
  /\ (forall tag, coll_resolve tag (st c) = Nil <-> supplied adds = [])
  /\ (forall tag, unwind (coll_resolve tag (st c)) = rev (supplied adds))
  /\ (forall tag t, plain t = true -> Forall (fun e => wf e = true) adds ->
        go_is (coll_resolve tag (st c)) t = existsb (fun e => go_is e t) adds).
Proof.
  intros R. cbv zeta. pose proof (lo_linearizable _ _ _ _ _ _ _ tr c R) as L.
  split; [exact L|]. pose proof (legal_state _ _ _ (lz_legal _ _ _ _ _ _ _ _ _ L)) as Hs.
  split; [exact Hs|]. rewrite Hs.
  split; [apply (collector_holds_exactly 0)|].
  split; [intros tag; apply (collector_holds_exactly tag)|].
  split; [intros tag; apply (collector_holds_exactly tag)|].
  intros tag; apply (collector_holds_exactly tag).
Qed.

(* every Len / Resolve that returned saw exactly the adds linearized before it *)
Theorem collector_concurrent_results tr c l1 e l2 :
  crun tr = Some c -> lin c = l1 ++ e :: l2 -> le_cancel e = false ->
  match le_op e with
  | CAdd _ => le_res e = RUnit
  | CLen => le_res e = RLen (Z.of_nat (length (supplied (adds_of l1))))
  | CResolve tag => le_res e = RErr (coll_resolve tag (coll_adds coll_zero (adds_of l1)))
  | CIter => le_res e = RList (rev (supplied (adds_of l1)))
  end.
Proof.
  intros R E Hc. pose proof (lo_linearizable _ _ _ _ _ _ _ tr c R) as L.
  pose proof (lz_legal _ _ _ _ _ _ _ _ _ L) as Hl. rewrite E in Hl. exact (legal_results l1 e l2 _ Hl Hc).
Qed.

(* non-vacuity: two goroutines add concurrently (one a nil), a third reads Len in between *)
Definition ex_trace : list (event cop) :=
  [Inv 0%nat (CAdd (Ptr 100)); Inv 1%nat (CAdd Nil); Inv 2%nat CLen; Crit 1%nat; Crit 0%nat; Crit 2%nat;
   Ret 2%nat; Inv 2%nat (CAdd (Multi 1 [Const 2; Const 3])); Ret 0%nat; Crit 2%nat; Ret 1%nat; Ret 2%nat;
   Inv 0%nat (CResolve 9); Crit 0%nat; Ret 0%nat].

Example ex_trace_runs :
  match crun ex_trace with
  | Some c => map (fun e => le_res e) (lin c)
              = [RUnit; RUnit; RLen 1; RUnit; RErr (Stk 9 3 [Const 3; Const 2; Ptr 100])]
              /\ coll_len (st c) = 3
  | None => False
  end.
Proof. vm_compute. split; reflexivity. Qed.
