(* Invariants of the refined worker networks (Model/WorkerNet.v: Process / Map / Generate as committed
   in /repo), for every mode, number of workers, buffer capacity, input, user function, schedule. *)
From FunV Require Import Base.Tac Base.ListX Model.WorkerConf Model.WorkerGroup Model.WorkerNet
  Proofs.WorkerConf_table Proofs.WorkerGroup_inv.
Open Scope nat_scope.

Definition vbusyw (w : wst) : list Z := match w with VBusy x => [x] | _ => [] end.
Definition vbusy (l : list wst) : list Z := flat_map vbusyw l.
Definition vsendw (w : wst) : list Z := match w with VSend x => [x] | _ => [] end.
Definition vsending (l : list wst) : list Z := flat_map vsendw l.
Definition vidlew (w : wst) : nat := match w with VIdle => 1 | _ => 0 end.
Fixpoint vidle (l : list wst) : nat := match l with [] => 0 | w :: r => vidlew w + vidle r end.

Lemma cnt_flat_set_nth (g : wst -> list Z) i w w' l v :
  nth_error l i = Some w ->
  cnt (flat_map g (set_nth i w' l)) v + cnt (g w) v = cnt (flat_map g l) v + cnt (g w') v.
Proof.
  revert i; induction l as [|a l IH]; intros [|i] H; simpl in *; try discriminate.
  - inv H. rewrite !cnt_app. lia.
  - rewrite !cnt_app. specialize (IH _ H). lia.
Qed.

Lemma vidle_set_nth i w w' l : nth_error l i = Some w -> vidle (set_nth i w' l) + vidlew w = vidle l + vidlew w'.
Proof.
  revert i; induction l as [|a l IH]; intros [|i] H; simpl in *; try discriminate.
  - inv H. lia.
  - specialize (IH _ H). lia.
Qed.

Lemma vidle_le_length l : vidle l <= length l.
Proof. induction l as [|[] l IH]; simpl; lia. Qed.

Lemma vidle_lt_length i w l : nth_error l i = Some w -> vidlew w = 0 -> vidle l + 1 <= length l.
Proof.
  revert i; induction l as [|a l IH]; intros [|i] H Hw; simpl in *; try discriminate.
  - inv H. pose proof (vidle_le_length l). lia.
  - specialize (IH _ H Hw). destruct a; simpl; lia.
Qed.

Lemma forallb_vdone_flat (g : wst -> list Z) l : g VDone = [] -> forallb vdone l = true -> flat_map g l = [].
Proof.
  intros Hg. induction l as [|w l IH]; simpl; [reflexivity|]. intros H. apply andb_prop in H. destruct H as [H1 H2].
  destruct w; try discriminate. rewrite Hg. simpl. auto.
Qed.

Lemma cnt_filter_app p l x v : cnt (filter p (l ++ [x])) v = cnt (filter p l) v + (if p x then cnt [x] v else 0).
Proof. rewrite filter_app, cnt_app. simpl. destruct (p x); reflexivity. Qed.

Section NetProofs.
Variable c : conf.
Variable gen has_out : bool.
Variable cap : nat.
Variable f : Z -> outcome.

Notation exec := (WorkerNet.exec c gen has_out cap f).
Notation init := (WorkerNet.init gen).
Notation recorded := (recorded c f).
Notation succ := (WorkerNet.succ f).

Inductive reach (s0 : st) : st -> Prop :=
| reach_refl : reach s0 s0
| reach_step s l s' : reach s0 s -> exec s l = Some s' -> reach s0 s'.

Ltac exec_inv H :=
  unfold WorkerNet.exec in H;
  repeat match type of H with
  | context [recover_wrapper (run_user ?o)] => rewrite (recover_returns o) in H
  | context [match ?x with _ => _ end] => destruct x eqn:?; try discriminate H
  end;
  inv H.

(* ---------------------------------------------------------------- A: log; no un-recovered panic *)

Definition inv_log (s : st) : Prop := res s = flat_map recorded (proc s) /\ crashed s = false.

Lemma inv_log_step s l s' : inv_log s -> exec s l = Some s' -> inv_log s'.
Proof.
  intros [Hr Hc] H. unfold inv_log.
  destruct l; exec_inv H; simpl; auto; rewrite flat_map_app; simpl; rewrite app_nil_r; rewrite <- Hr; auto.
Qed.

Lemma inv_log_reach n input s : reach (init n input) s -> inv_log s.
Proof. induction 1; [split; reflexivity|]. eapply inv_log_step; eauto. Qed.

Theorem net_never_escapes_as_panic n input s : reach (init n input) s -> crashed s = false.
Proof. intros H. apply inv_log_reach in H. apply H. Qed.

Theorem net_result_contains_exactly_processed_failures n input s :
  reach (init n input) s ->
  forall xe, In xe (res s) <-> (In (fst xe) (proc s) /\ In xe (recorded (fst xe))).
Proof.
  intros H xe. apply inv_log_reach in H. destruct H as [H _]. rewrite H, in_flat_map. split.
  - intros (x & Hx & Hin). rewrite (recorded_fst _ _ _ _ Hin). auto.
  - intros [H1 H2]. eauto.
Qed.

Theorem net_result_nil_iff_no_reportable_failure n input s :
  reach (init n input) s ->
  (res s = [] <-> forall x, In x (proc s) -> reportable c f x = false).
Proof.
  intros H. apply inv_log_reach in H. destruct H as [H _]. rewrite H, flat_map_nil_iff.
  split; intros G x Hx; apply recorded_nil_iff; auto.
Qed.

(* ---------------------------------------------------------------- B: conservation, input side and output side *)

Definition tok_in (s : st) (v : Z) : nat :=
  cnt (proc s) v + cnt (vbusy (wk s)) v + cnt (hand (spl s)) v + cnt (inp s) v + cnt (drop s) v.

Definition tok_out (s : st) (v : Z) : nat :=
  cnt (vsending (wk s)) v + cnt (out s) v + cnt (delivered s) v + cnt (lost s) v.

Ltac set_nth_facts s v :=
  repeat match goal with
  | E : nth_error (wk s) ?i = Some ?w |- context [set_nth ?i ?w' (wk s)] =>
      lazymatch goal with
      | _ : cnt (flat_map vbusyw (set_nth i w' (wk s))) v + _ = _ |- _ => fail
      | _ => pose proof (cnt_flat_set_nth vbusyw i w w' (wk s) v E); pose proof (cnt_flat_set_nth vsendw i w w' (wk s) v E)
      end
  end.

Lemma tok_in_step s l s' v : exec s l = Some s' -> tok_in s' v = tok_in s v.
Proof.
  intros H. unfold tok_in, vbusy.
  destruct l; exec_inv H; simpl; rewrite ?cnt_app; set_nth_facts s v;
    repeat match goal with E : spl s = _ |- _ => rewrite E; clear E end;
    repeat match goal with E : inp s = _ |- _ => rewrite E; clear E end;
    unfold cnt in *; simpl in *; repeat destruct (Z.eq_dec _ _); try lia.
Qed.

Lemma repeat_flat (g : wst -> list Z) n : g VLoop = [] -> flat_map g (repeat VLoop n) = [].
Proof. intros H. induction n; simpl; [reflexivity|]. rewrite H. auto. Qed.

Lemma tok_in_reach n input s v : reach (init n input) s -> tok_in s v = cnt input v.
Proof.
  induction 1.
  - unfold tok_in, WorkerNet.init, vbusy. simpl. rewrite repeat_flat by reflexivity.
    destruct gen; unfold cnt; simpl; lia.
  - erewrite tok_in_step; eauto.
Qed.

Theorem net_token_conservation n input s :
  reach (init n input) s ->
  Permutation (proc s ++ vbusy (wk s) ++ hand (spl s) ++ inp s ++ drop s) input.
Proof.
  intros H. apply (Permutation_count_occ Z.eq_dec). intros v.
  rewrite !count_occ_app. pose proof (tok_in_reach _ _ _ v H) as T. unfold tok_in, cnt in T. lia.
Qed.

(* every output value is, at every moment, in exactly one place: in its worker's hand (being sent),
   in the channel, received by the consumer, or (abort only) abandoned; and the values are exactly
   the items on which the user function succeeded *)
Lemma tok_out_step s l s' v :
  has_out = true -> exec s l = Some s' ->
  tok_out s' v + cnt (filter succ (proc s)) v = tok_out s v + cnt (filter succ (proc s')) v.
Proof.
  intros Ho H. unfold tok_out, vsending.
  destruct l; exec_inv H; simpl; rewrite ?cnt_app, ?cnt_filter_app; set_nth_facts s v;
    repeat match goal with E : out s = _ |- _ => rewrite E; clear E end;
    unfold WorkerNet.succ;
    repeat match goal with E : with_recover (f _) = _ |- _ => rewrite E end;
    try match goal with |- context [match with_recover (f ?x) with _ => _ end] =>
          let Q := fresh in destruct (with_recover (f x)) eqn:Q; simpl in *; try discriminate end;
    try congruence;
    unfold cnt in *; simpl in *; repeat destruct (Z.eq_dec _ _); try lia.
Qed.

Theorem net_output_conservation n input s :
  has_out = true -> reach (init n input) s ->
  Permutation (vsending (wk s) ++ out s ++ delivered s ++ lost s) (filter succ (proc s)).
Proof.
  intros Ho H. apply (Permutation_count_occ Z.eq_dec). intros v. rewrite !count_occ_app.
  assert (T : tok_out s v = cnt (filter succ (proc s)) v).
  { induction H.
    - unfold tok_out, WorkerNet.init, vsending. simpl. rewrite repeat_flat by reflexivity. reflexivity.
    - pose proof (tok_out_step _ _ _ v Ho H0). lia. }
  unfold tok_out, cnt in T. lia.
Qed.

Lemma vbusy_in_input n input s i x :
  reach (init n input) s -> nth_error (wk s) i = Some (VBusy x) -> In x input.
Proof.
  intros H E. pose proof (tok_in_reach _ _ _ x H) as T.
  assert (B : cnt (vbusy (wk s)) x >= 1).
  { clear T H. revert i E. generalize (wk s) as l. induction l as [|a l IH]; intros [|i] E; simpl in E; try discriminate.
    - inv E. unfold vbusy, cnt. simpl. destruct (Z.eq_dec x x); [lia|congruence].
    - unfold vbusy in *. simpl. rewrite cnt_app. specialize (IH _ E). lia. }
  unfold tok_in in T. assert (G : cnt input x > 0) by lia. unfold cnt in G. apply (count_occ_In Z.eq_dec). exact G.
Qed.

(* ---------------------------------------------------------------- D: the abort bound *)

(* Once some worker's user function has returned "cannot continue" (failed): every hand-off uses up a
   worker that had already passed its ctx test and was waiting to take an item (VIdle); such workers
   are replenished only by ctx tests PASSED after the failure — possible only until the failing
   worker's cancel() lands, counted by r_win.  The failing worker itself is not among them. *)
Definition inv_abort (s : st) : Prop :=
  (failed s = false -> h_after s = 0 /\ r_win s = 0) /\
  (failed s = true -> h_after s + vidle (wk s) + 1 <= length (wk s) + r_win s).

Lemma inv_abort_step s l s' : inv_abort s -> exec s l = Some s' -> inv_abort s'.
Proof.
  intros (H0 & H1) H. unfold inv_abort.
  destruct (failed s) eqn:Ef.
  - clear H0. specialize (H1 eq_refl).
    destruct l; exec_inv H; try congruence; simpl; rewrite ?set_nth_length, ?Ef; simpl;
      try match goal with
      | E : nth_error (wk s) ?i = Some ?w |- context [set_nth ?i ?w' (wk s)] =>
          pose proof (vidle_set_nth i w w' (wk s) E)
      end;
      (split; [intros; congruence|]); intros _; simpl in *; try lia.
  - destruct (H0 eq_refl) as (Hh & Hr). clear H0 H1.
    destruct l; exec_inv H; try congruence; simpl; rewrite ?set_nth_length, ?Ef; simpl;
      try (split; [intros _; split; assumption|intros; congruence]).
    (* the failing KFinish *)
    all: split; [intros; congruence|]; intros _;
      match goal with E : nth_error (wk ?s0) ?i = Some (VBusy ?x) |- _ =>
        pose proof (vidle_set_nth i _ VFailed (wk s0) E); pose proof (vidle_lt_length i _ (wk s0) E eq_refl) end;
      simpl in *; lia.
Qed.

Lemma inv_abort_reach n input s : reach (init n input) s -> inv_abort s.
Proof.
  induction 1.
  - unfold inv_abort, WorkerNet.init. simpl. split; [auto|intros; discriminate].
  - eapply inv_abort_step; eauto.
Qed.

Lemma wk_length n input s : reach (init n input) s -> length (wk s) = n.
Proof.
  induction 1 as [|s l s' R IH H]; [simpl; apply repeat_length|].
  rewrite <- IH. destruct l; exec_inv H; simpl; rewrite ?set_nth_length; reflexivity.
Qed.

(* THE abort bound, for Process, Map and Generate alike, every N, input, user function and schedule:
     items STARTED after the first failing user function RETURNED
        <=  (N - 1)  +  number of ctx tests other workers passed between that return and the
                        failing worker's cancel().
   (N - 1): the other workers, each of which may already be past its ctx test.  The second term is 0
   when cancel() lands before any other worker comes round its loop again — it is called by the
   failing goroutine a few instructions after the function returns, inside the error filter. *)
Theorem net_abort_bound n input s :
  reach (init n input) s -> failed s = true -> h_after s + 1 <= n + r_win s.
Proof.
  intros R Hf. pose proof (inv_abort_reach _ _ _ R) as (_ & H1). specialize (H1 Hf).
  rewrite (wk_length _ _ _ R) in H1. lia.
Qed.

Corollary net_abort_bound_prompt n input s :
  reach (init n input) s -> failed s = true -> r_win s = 0 -> h_after s <= n - 1.
Proof. intros R Hf Hw. pose proof (net_abort_bound _ _ _ R Hf). lia. Qed.

(* ---------------------------------------------------------------- E: the failing worker handles no further item *)

Definition vstopped (w : wst) : Prop := w = VFailed \/ w = VDone.

Inductive run : st -> list lbl -> st -> Prop :=
| run_nil s : run s [] s
| run_cons s l s1 ls s2 : exec s l = Some s1 -> run s1 ls s2 -> run s (l :: ls) s2.

Lemma vstopped_step s l s' i w :
  exec s l = Some s' -> nth_error (wk s) i = Some w -> vstopped w ->
  l <> KHandoff i /\ exists w', nth_error (wk s') i = Some w' /\ vstopped w'.
Proof.
  intros H E St.
  assert (K : forall j v, (j = i -> vstopped v) -> exists w', nth_error (set_nth j v (wk s)) i = Some w' /\ vstopped w').
  { intros j v Hv. destruct (Nat.eq_dec j i) as [->|N].
    - exists v. split; [eapply nth_error_set_nth_same; eauto|auto].
    - exists w. rewrite nth_error_set_nth_other by auto. auto. }
  destruct l; exec_inv H; simpl;
    (split; [|try (apply K; intros ->; unfold vstopped in *; try (left; reflexivity); try (right; reflexivity); try (destruct St; congruence)); eauto]);
    try discriminate.
  all: intros X; inv X; destruct St; congruence.
Qed.

Theorem net_failing_worker_stops s ls s' i w :
  run s ls s' -> nth_error (wk s) i = Some w -> vstopped w ->
  ~ In (KHandoff i) ls /\ exists w', nth_error (wk s') i = Some w' /\ vstopped w'.
Proof.
  intros R. revert w. induction R as [s|s l s1 ls s2 H R IH]; intros w E St.
  - split; [intros []|eauto].
  - destruct (vstopped_step _ _ _ _ _ H E St) as (N & w1 & E1 & St1).
    destruct (IH _ E1 St1) as (N2 & G). split; [|exact G]. intros [X|X]; [congruence|auto].
Qed.

Theorem net_finish_noncontinue_stops s i x s' :
  nth_error (wk s) i = Some (VBusy x) -> continue (decision_of c f x) = false ->
  exec s (KFinish i) = Some s' -> exists w, nth_error (wk s') i = Some w /\ vstopped w.
Proof.
  intros E Hc H. unfold decision_of in Hc.
  unfold WorkerNet.exec in H. rewrite E, recover_returns, Hc in H.
  destruct (stops gen (with_recover (f x))); inv H; simpl.
  - exists VFailed. split; [eapply nth_error_set_nth_same; eauto|left; reflexivity].
  - exists VDone. split; [eapply nth_error_set_nth_same; eauto|right; reflexivity].
Qed.

End NetProofs.
