(* Table-level reference machine and the refinement theorem for Model/SetModel.v:
   for every operation list, the model's observations agree with a reference finite set that
   keeps insertion order. Also: invariant preservation, Equal iff, JSON round trip. *)
From FunV Require Import Base.Tac Base.ListX Model.SetModel Proofs.SetModel_base Proofs.SetModel_inv Proofs.SetModel_ops.
Local Open Scope Z_scope.

(* ------------------------------------------------------------------ reference machine *)
Definition rtbl := nat -> rset.
Definition rtset (R : rtbl) (i : nat) (r : rset) : rtbl := fun j => if Nat.eqb j i then r else R j.
Definition rtbl0 : rtbl := fun _ => r_empty.

(* the reference for the mutex slot: per set, the identity of the FIRST mutex installed since the set was
   created (write-once) *)
Definition ltbl := nat -> option lockid.
Definition ltset (L : ltbl) (i : nat) (x : option lockid) : ltbl := fun j => if Nat.eqb j i then x else L j.
Definition ltbl0 : ltbl := fun _ => None.
Definition first_wins (cur : option lockid) (l : lockid) : option lockid :=
  match cur with None => Some l | Some _ => cur end.

Definition lstep (L : ltbl) (o : op) : ltbl :=
  match o with
  | OSync t l => ltset L t (first_wins (L t) l)
  | OWithLock t l => if Z.eqb l 0 then L else ltset L t (first_wins (L t) l)
  | OReset t _ l => ltset L t (if Z.eqb l 0 then None else Some l)
  | _ => L
  end.

Definition rstep (R : rtbl) (L : ltbl) (o : op) : rtbl * res :=
  match o with
  | OAdd t v => (rtset R t (fst (r_add (R t) v)), RUnit)
  | OAddCheck t v => let '(r, b) := r_add (R t) v in (rtset R t r, RBool b)
  | ODelete t v => (rtset R t (fst (r_del (R t) v)), RUnit)
  | ODeleteCheck t v => let '(r, b) := r_del (R t) v in (rtset R t r, RBool b)
  | OCheck t v => (R, RBool (r_mem (R t) v))
  | OLen t => (R, RLen (r_len (R t)))
  | OPopulate t vs => (rtset R t (r_populate (R t) vs), RUnit)
  | OExtend t u choice =>
      match r_iterate (R u) choice with
      | Some vs => (rtset R t (r_populate (R t) vs), RUnit)
      | None => (R, RBad)
      end
  | OOrder t => let '(r, p) := r_order (R t) in (rtset R t r, if p then RPanic else RUnit)
  | OSync t _ => (R, RUnit)
  | OWithLock t l =>
      (R, if Z.eqb l 0 then RPanic                                  (* nil mutex *)
          else match L t with
               | None => RUnit
               | Some c => if Z.eqb c l then RUnit else RPanic       (* "cannot override an existing mutex" *)
               end)
  | OLockProbe t => (R, RLen (match L t with Some l => if Z.ltb 0 l then l else 0 | None => 0 end))
  | OSortQuick t k choice | OSortMerge t k choice =>
      match r_sort (lt_of k) choice (R t) with
      | Some r => (rtset R t r, RUnit)
      | None => (R, RBad)
      end
  | OIter t => (R, RSeq (r_elems (R t)))
  | OEqual t u => (R, RBool (r_equal (R t) (R u)))
  | OJSON t u choice =>
      match r_iterate (R u) choice with
      | Some vs => (rtset R t (r_populate (R t) vs), RSeq vs)
      | None => (R, RBad)
      end
  | OUnmarshal t items => let '(r, p) := r_unmarshal (R t) items in (rtset R t r, if p then RPanic else RUnit)
  | OReset t ordered _ => (rtset R t (mkR [] ordered), RUnit)
  end.

(* reference observation after a step: result, size, members in insertion order, orderedness of the target *)
Definition robs := (res * Z * list Z * bool)%type.

Fixpoint rrun (R : rtbl) (L : ltbl) (ops : list op) : list robs :=
  match ops with
  | [] => []
  | o :: ops' =>
      let '(R1, r) := rstep R L o in
      let t := target o in
      (r, r_len (R1 t), r_elems (R1 t), r_ordered (R1 t)) :: rrun R1 (lstep L o) ops'
  end.

(* agreement: a sequence produced by an ordered set is the reference order exactly; one produced by an
   unordered set has the same members (the model lists them sorted, the reference in insertion order) *)
Definition seq_agree (ord : bool) (a b : list Z) : Prop := Permutation a b /\ (ord = true -> a = b).
Definition res_agree (ord : bool) (a b : res) : Prop :=
  match a, b with
  | RSeq x, RSeq y => seq_agree ord x y
  | _, _ => a = b
  end.
Definition obs_agree (a : obs) (b : robs) : Prop :=
  let '(ra, na, la) := a in
  let '(rb, nb, lb, ord) := b in
  res_agree ord ra rb /\ na = nb /\ seq_agree ord la lb.

Lemma res_agree_refl ord r : res_agree ord r r.
Proof. destruct r; simpl; try reflexivity. split; [reflexivity|auto]. Qed.

(* ------------------------------------------------------------------ simulation *)
Definition TR (T : tbl) (R : rtbl) : Prop := forall i, abs (T i) (R i).

Lemma TR_set T R i s r : TR T R -> abs s r -> TR (tset T i s) (rtset R i r).
Proof. intros H A j. unfold tset, rtset. destruct (Nat.eqb j i); [exact A|apply H]. Qed.

Lemma TR_set_l T R i s : TR T R -> abs s (R i) -> TR (tset T i s) R.
Proof.
  intros H A j. unfold tset. destruct (Nat.eqb_spec j i); [subst; exact A|apply H].
Qed.

Lemma tset_same T i s : tset T i s i = s.
Proof. unfold tset. rewrite Nat.eqb_refl. reflexivity. Qed.
Lemma rtset_same R i r : rtset R i r i = r.
Proof. unfold rtset. rewrite Nat.eqb_refl. reflexivity. Qed.

Lemma abs_empty : abs empty_set r_empty.
Proof.
  unfold abs, SetInv, empty_set, r_empty, is_ordered, hm. simpl. repeat split; auto.
Qed.

Lemma abs_reset (ordered : bool) (l : lockid) :
  abs (let s1 := if ordered then fst (order empty_set) else empty_set in if Z.eqb l 0 then s1 else synchronize s1 l)
      (mkR [] ordered).
Proof.
  assert (A1 : abs (if ordered then fst (order empty_set) else empty_set) (mkR [] ordered)).
  { destruct ordered; [|exact abs_empty]. exact (proj1 (abs_order _ _ abs_empty)). }
  cbv zeta. destruct (Z.eqb l 0); [|apply abs_synchronize]; exact A1.
Qed.

(* ------------------------------------------------------------------ the mutex slot is untouched by everything else *)
Definition LK (T : tbl) (L : ltbl) : Prop := forall i, s_mtx (T i) = L i.

Lemma mtx_add s v : s_mtx (fst (add_check s v)) = s_mtx s.
Proof.
  unfold add_check. cbv zeta. destruct (h_check (hm (s_lock s)) v); [apply mtx_lock|].
  destruct (s_list (s_lock s)); simpl; apply mtx_lock.
Qed.

Lemma mtx_del s v : s_mtx (fst (delete_check s v)) = s_mtx s.
Proof. unfold delete_check. cbv zeta. destruct (h_get (hm (s_lock s)) v); simpl; apply mtx_lock. Qed.

Lemma mtx_populate vs : forall s, s_mtx (populate s vs) = s_mtx s.
Proof.
  induction vs as [|v vs IH]; intros s; [reflexivity|]. unfold populate in *. simpl. rewrite IH. apply mtx_add.
Qed.

Lemma mtx_order s : s_mtx (fst (order s)) = s_mtx s.
Proof.
  unfold order. cbv zeta. destruct (s_list (s_lock s)); [apply mtx_lock|].
  destruct (Z.eqb (h_len (hm (s_lock s))) 0); simpl; apply mtx_lock.
Qed.

Lemma mtx_sort lt choice s s' : sort lt choice s = Some s' -> s_mtx s' = s_mtx s.
Proof.
  unfold sort. cbv zeta. destruct (s_list (s_lock s)).
  - intros E. inv E. simpl. apply mtx_lock.
  - destruct (perm_b choice (h_keys (hm (s_lock s)))); [|discriminate].
    destruct (force_fill choice (hm (s_lock s)) [] (s_next (s_lock s))) as [[m st] nx].
    intros E. inv E. simpl. apply mtx_lock.
Qed.

Lemma mtx_unmarshal items : forall s, s_mtx (fst (unmarshal s items)) = s_mtx s.
Proof.
  induction items as [|[v|] items IH]; intros s; simpl; [reflexivity| |reflexivity]. rewrite IH. apply mtx_add.
Qed.

Lemma LK_set T L i s x : LK T L -> s_mtx s = x -> LK (tset T i s) (ltset L i x).
Proof. intros H E j. unfold tset, ltset. destruct (Nat.eqb j i); [exact E|apply H]. Qed.

Lemma LK_set_l T L i s : LK T L -> s_mtx s = s_mtx (T i) -> LK (tset T i s) L.
Proof. intros H E j. unfold tset. destruct (Nat.eqb_spec j i); [subst; rewrite E; apply H|apply H]. Qed.

Lemma mtx_set_first cur l : fst (mtx_set cur l) = first_wins cur l.
Proof. destruct cur; reflexivity. Qed.

Lemma step_lock T L o : LK T L -> LK (fst (step T o)) (lstep L o).
Proof.
  intros H. destruct o; cbn [step lstep].
  - apply LK_set_l; [exact H|apply mtx_add].
  - destruct (add_check (T t) v) as [s b] eqn:E. cbn [fst]. apply LK_set_l; [exact H|].
    change s with (fst (s, b)). rewrite <- E. apply mtx_add.
  - apply LK_set_l; [exact H|apply mtx_del].
  - destruct (delete_check (T t) v) as [s b] eqn:E. cbn [fst]. apply LK_set_l; [exact H|].
    change s with (fst (s, b)). rewrite <- E. apply mtx_del.
  - unfold check. cbn [fst]. apply LK_set_l; [exact H|apply mtx_lock].
  - unfold len. cbn [fst]. apply LK_set_l; [exact H|apply mtx_lock].
  - apply LK_set_l; [exact H|apply mtx_populate].
  - unfold iterate. destruct (s_list (s_lock (T u))).
    + cbn [fst]. apply LK_set_l.
      * apply LK_set_l; [exact H|apply mtx_lock].
      * rewrite mtx_populate. reflexivity.
    + destruct (perm_b choice (h_keys (hm (s_lock (T u))))); cbn [fst]; [|exact H]. apply LK_set_l.
      * apply LK_set_l; [exact H|apply mtx_lock].
      * rewrite mtx_populate. reflexivity.
  - destruct (order (T t)) as [s p] eqn:E. cbn [fst]. apply LK_set_l; [exact H|].
    change s with (fst (s, p)). rewrite <- E. apply mtx_order.
  - apply LK_set; [exact H|]. unfold synchronize. cbn [s_mtx]. rewrite mtx_set_first, (H t). reflexivity.
  - unfold with_lock. destruct (Z.eqb l 0).
    + cbn [fst]. apply LK_set_l; [exact H|reflexivity].
    + destruct (mtx_set (s_mtx (T t)) l) as [m ok] eqn:E. cbn [fst]. apply LK_set; [exact H|].
      cbn [s_mtx]. change m with (fst (m, ok)). rewrite <- E, mtx_set_first, (H t). reflexivity.
  - cbn [fst]. apply LK_set_l; [exact H|apply mtx_lock].
  - destruct (sort (lt_of k) choice (T t)) as [s|] eqn:E; cbn [fst]; [|exact H].
    apply LK_set_l; [exact H|eapply mtx_sort; eauto].
  - destruct (sort (lt_of k) choice (T t)) as [s|] eqn:E; cbn [fst]; [|exact H].
    apply LK_set_l; [exact H|eapply mtx_sort; eauto].
  - cbn [fst]. apply LK_set_l; [exact H|apply mtx_lock].
  - unfold equal. cbv zeta.
    assert (G : LK (tset (tset T u (s_lock (T u))) t (s_lock (T t))) L).
    { apply LK_set_l; [apply LK_set_l; [exact H|apply mtx_lock]|].
      unfold tset. destruct (Nat.eqb_spec t u); [subst; rewrite !mtx_lock; reflexivity|apply mtx_lock]. }
    destruct (negb (h_len (hm (s_lock (T t))) =? h_len (hm (s_lock (T u)))) || negb (Bool.eqb (is_ordered (s_lock (T t))) (is_ordered (s_lock (T u)))));
      [exact G|].
    destruct (s_list (s_lock (T t))), (s_list (s_lock (T u))); exact G.
  - unfold iterate. destruct (s_list (s_lock (T u))).
    + cbn [fst]. apply LK_set_l.
      * apply LK_set_l; [exact H|apply mtx_lock].
      * rewrite mtx_populate. reflexivity.
    + destruct (perm_b choice (h_keys (hm (s_lock (T u))))); cbn [fst]; [|exact H]. apply LK_set_l.
      * apply LK_set_l; [exact H|apply mtx_lock].
      * rewrite mtx_populate. reflexivity.
  - destruct (unmarshal (T t) items) as [s p] eqn:E. cbn [fst]. apply LK_set_l; [exact H|].
    change s with (fst (s, p)). rewrite <- E. apply mtx_unmarshal.
  - apply LK_set; [exact H|]. destruct (Z.eqb l 0), ordered; try reflexivity;
      unfold synchronize; cbn [s_mtx]; try (rewrite mtx_order); reflexivity.
Qed.

Ltac agree_refl := first [reflexivity | apply res_agree_refl | (split; [reflexivity|intros; reflexivity])].

Lemma step_sim T R L o :
  TR T R -> LK T L ->
  TR (fst (step T o)) (fst (rstep R L o)) /\
  res_agree (r_ordered (fst (rstep R L o) (target o))) (snd (step T o)) (snd (rstep R L o)).
Proof.
  intros H HL. destruct o; cbn [step rstep target].
  - (* Add *) split; [apply TR_set; auto; apply abs_add, H|agree_refl].
  - (* AddCheck *)
    pose proof (abs_add _ _ v (H t)) as [A E].
    destruct (add_check (T t) v) as [s b], (r_add (R t) v) as [r b']. simpl in *. subst.
    split; [apply TR_set; auto|agree_refl].
  - split; [apply TR_set; auto; apply abs_del, H|agree_refl].
  - pose proof (abs_del _ _ v (H t)) as [A E].
    destruct (delete_check (T t) v) as [s b], (r_del (R t) v) as [r b']. simpl in *. subst.
    split; [apply TR_set; auto|agree_refl].
  - (* Check *)
    pose proof (abs_check _ _ v (H t)) as [A E].
    destruct (check (T t) v) as [s b]. simpl in *. subst. split; [apply TR_set_l; auto|agree_refl].
  - pose proof (abs_len_op _ _ (H t)) as [A E].
    destruct (len (T t)) as [s n]. simpl in *. subst. split; [apply TR_set_l; auto|agree_refl].
  - (* Populate *) split; [apply TR_set; auto; apply abs_populate, H|agree_refl].
  - (* Extend *)
    rewrite (abs_iterate _ _ choice (H u)). destruct (r_iterate (R u) choice) as [vs|]; simpl.
    + split; [|agree_refl]. apply TR_set.
      * apply TR_set_l; [exact H|apply abs_lock, H].
      * apply abs_populate. apply TR_set_l; [exact H|apply abs_lock, H].
    + split; [exact H|agree_refl].
  - (* Order *)
    pose proof (abs_order _ _ (H t)) as [A E].
    destruct (order (T t)) as [s p], (r_order (R t)) as [r p']. simpl in *. subst.
    split; [apply TR_set; auto|agree_refl].
  - (* Sync *) split; [apply TR_set_l; auto; apply abs_synchronize, H|agree_refl].
  - (* WithLock *)
    pose proof (abs_with_lock _ _ l (H t)) as A. unfold with_lock in *. rewrite <- (HL t).
    destruct (Z.eqb l 0); cbn [fst snd] in *; [split; [apply TR_set_l; auto|agree_refl]|].
    destruct (s_mtx (T t)) as [c|]; cbn [mtx_set fst snd negb] in *.
    + split; [apply TR_set_l; auto|]. destruct (Z.eqb c l); agree_refl.
    + split; [apply TR_set_l; auto|agree_refl].
  - (* LockProbe *)
    cbn [fst snd]. split; [apply TR_set_l; auto; apply abs_lock, H|]. rewrite mtx_lock, (HL t). agree_refl.
  - (* SortQuick *)
    pose proof (abs_sort (lt_of k) choice _ _ (H t)) as A.
    destruct (sort (lt_of k) choice (T t)) as [s|], (r_sort (lt_of k) choice (R t)) as [r|]; try contradiction; simpl.
    + split; [apply TR_set; auto|agree_refl].
    + split; [exact H|agree_refl].
  - (* SortMerge *)
    pose proof (abs_sort (lt_of k) choice _ _ (H t)) as A.
    destruct (sort (lt_of k) choice (T t)) as [s|], (r_sort (lt_of k) choice (R t)) as [r|]; try contradiction; simpl.
    + split; [apply TR_set; auto|agree_refl].
    + split; [exact H|agree_refl].
  - (* Iter *)
    simpl. split; [apply TR_set_l; auto; apply abs_lock, H|].
    destruct (abs_iter_canon _ _ (abs_lock _ _ (H t))) as [P E]. split; [exact P|exact E].
  - (* Equal *)
    rewrite (abs_equal _ _ _ _ (H t) (H u)). simpl. split; [|agree_refl].
    apply TR_set_l; [apply TR_set_l; [exact H|apply abs_lock, H]|apply abs_lock, H].
  - (* JSON *)
    rewrite (abs_iterate _ _ choice (H u)). destruct (r_iterate (R u) choice) as [vs|]; simpl.
    + split; [|agree_refl]. apply TR_set.
      * apply TR_set_l; [exact H|apply abs_lock, H].
      * apply abs_populate. apply TR_set_l; [exact H|apply abs_lock, H].
    + split; [exact H|agree_refl].
  - (* Unmarshal *)
    pose proof (abs_unmarshal items _ _ (H t)) as [A E].
    destruct (unmarshal (T t) items) as [s p], (r_unmarshal (R t) items) as [r p']. simpl in *. subst.
    split; [apply TR_set; auto|agree_refl].
  - (* Reset *)
    simpl. split; [|agree_refl]. apply TR_set; [exact H|]. apply abs_reset.
Qed.

Lemma observe_sim T R t :
  TR T R ->
  let '(T2, n, it) := observe T t in
  TR T2 R /\ n = r_len (R t) /\ seq_agree (r_ordered (R t)) it (r_elems (R t)).
Proof.
  intros H. unfold observe. pose proof (abs_lock _ _ (H t)) as A.
  split; [apply TR_set_l; auto|]. split; [apply abs_len, A|].
  destruct (abs_iter_canon _ _ A) as [P E]. split; assumption.
Qed.

Lemma run_cons T o ops :
  run T (o :: ops) =
  let '(T1, r) := step T o in
  let '(T2, n, it) := observe T1 (target o) in (r, n, it) :: run T2 ops.
Proof. reflexivity. Qed.

Lemma rrun_cons R L o ops :
  rrun R L (o :: ops) =
  let '(R1, r) := rstep R L o in
  (r, r_len (R1 (target o)), r_elems (R1 (target o)), r_ordered (R1 (target o))) :: rrun R1 (lstep L o) ops.
Proof. reflexivity. Qed.

Lemma observe_lock T L t : LK T L -> LK (fst (fst (observe T t))) L.
Proof. intros H. unfold observe. cbn [fst]. apply LK_set_l; [exact H|apply mtx_lock]. Qed.

Theorem run_refines ops : forall T R L, TR T R -> LK T L -> Forall2 obs_agree (run T ops) (rrun R L ops).
Proof.
  induction ops as [|o ops IH]; intros T R L H HL; [constructor|].
  rewrite run_cons, rrun_cons.
  pose proof (step_sim T R L o H HL) as [H1 Ag]. pose proof (step_lock T L o HL) as HL1.
  destruct (step T o) as [T1 a], (rstep R L o) as [R1 b]. cbn [fst snd] in H1, Ag, HL1.
  pose proof (observe_sim T1 R1 (target o) H1) as Ob. pose proof (observe_lock T1 _ (target o) HL1) as HL2.
  destruct (observe T1 (target o)) as [[T2 n] it]. destruct Ob as (H2 & En & Es). cbn [fst] in HL2.
  constructor; [|apply IH; [exact H2|exact HL2]]. unfold obs_agree. auto.
Qed.

Lemma TR0 : TR tbl0 rtbl0.
Proof. intros i. exact abs_empty. Qed.

Lemma LK0 : LK tbl0 ltbl0.
Proof. intros i. reflexivity. Qed.

Theorem refines_from_empty ops : Forall2 obs_agree (run tbl0 ops) (rrun rtbl0 ltbl0 ops).
Proof. apply run_refines; [apply TR0|apply LK0]. Qed.

(* ------------------------------------------------------------------ invariant preservation *)
Theorem set_inv_step T o : (forall i, SetInv (T i)) -> forall i, SetInv (fst (step T o) i).
Proof.
  intros H i. assert (TR T (fun j => abs_of (T j))) as HT by (intros j; apply abs_abs_of, H).
  destruct (step_sim T _ (fun j => s_mtx (T j)) o HT (fun j => eq_refl)) as [H1 _]. exact (proj1 (H1 i)).
Qed.

(* the table after a run (every step followed by the harness's Len/Iterator observation) *)
Fixpoint exec (T : tbl) (ops : list op) : tbl :=
  match ops with
  | [] => T
  | o :: ops' => exec (fst (fst (observe (fst (step T o)) (target o)))) ops'
  end.

Lemma set_inv_observe T t : (forall i, SetInv (T i)) -> forall i, SetInv (fst (fst (observe T t)) i).
Proof.
  intros H i. unfold observe. simpl. unfold tset. destruct (Nat.eqb i t); [apply SetInv_lock, H|apply H].
Qed.

Theorem set_inv_exec ops : forall T, (forall i, SetInv (T i)) -> forall i, SetInv (exec T ops i).
Proof.
  induction ops as [|o ops IH]; intros T H i; simpl; [apply H|].
  apply IH. apply set_inv_observe. apply set_inv_step, H.
Qed.

Theorem set_inv_reachable ops i : SetInv (exec tbl0 ops i).
Proof. apply set_inv_exec. intros j. exact (proj1 abs_empty). Qed.

(* ------------------------------------------------------------------ the mutex slot is write-once *)
(* one step never replaces an installed mutex, except by discarding the whole set (New) *)
Theorem mutex_write_once_step T o i l :
  s_mtx (T i) = Some l -> (forall ord l', o <> OReset i ord l') -> s_mtx (fst (step T o) i) = Some l.
Proof.
  intros E NR. rewrite (step_lock T (fun j => s_mtx (T j)) o (fun j => eq_refl) i).
  destruct o; cbn [lstep]; try exact E.
  - unfold ltset. destruct (Nat.eqb i t) eqn:Q; [|exact E]. apply Nat.eqb_eq in Q. subst. rewrite E. reflexivity.
  - destruct (Z.eqb l0 0); [exact E|]. unfold ltset. destruct (Nat.eqb i t) eqn:Q; [|exact E].
    apply Nat.eqb_eq in Q. subst. rewrite E. reflexivity.
  - unfold ltset. destruct (Nat.eqb i t) eqn:Q; [|exact E]. apply Nat.eqb_eq in Q. subst.
    exfalso. eapply NR. reflexivity.
Qed.

(* the lock table after an operation list *)
Fixpoint lrun (L : ltbl) (ops : list op) : ltbl :=
  match ops with [] => L | o :: ops' => lrun (lstep L o) ops' end.

Theorem mutex_write_once_exec ops : forall T L, LK T L -> LK (exec T ops) (lrun L ops).
Proof.
  induction ops as [|o ops IH]; intros T L H; simpl; [exact H|].
  apply IH. apply observe_lock. apply step_lock, H.
Qed.

(* after any operation list the set's mutex is the first one installed since the set was created *)
Theorem mutex_first_installed ops i : s_mtx (exec tbl0 ops i) = lrun ltbl0 ops i.
Proof. apply (mutex_write_once_exec ops tbl0 ltbl0 LK0). Qed.

Example mutex_write_once_example :
  s_mtx (exec tbl0 [OWithLock 0 7; OSync 0 (-1); OWithLock 0 8; OWithLock 0 7; OAdd 0 1; OSync 0 (-2)] 0%nat) = Some 7 /\
  map (fun o : obs => fst (fst o)) (run tbl0 [OWithLock 0 7; OSync 0 (-1); OWithLock 0 8; OWithLock 0 7; OWithLock 0 0; OLockProbe 0])
  = [RUnit; RUnit; RPanic; RUnit; RPanic; RLen 7].
Proof. vm_compute. split; reflexivity. Qed.

(* ------------------------------------------------------------------ Equal iff *)
Definition members (s : set) : list Z := h_keys (hm s).
Definition order_of (s : set) : list Z := match s_list s with Some st => st_items st | None => [] end.

Theorem equal_iff_model s o :
  SetInv s -> SetInv o ->
  (snd (equal s o) = true <->
   is_ordered s = is_ordered o /\
   (if is_ordered s then order_of s = order_of o
    else forall v, h_check (hm s) v = h_check (hm o) v)).
Proof.
  intros Is Io. rewrite (abs_equal _ _ _ _ (abs_abs_of _ Is) (abs_abs_of _ Io)). cbn [snd].
  unfold r_equal, abs_of, order_of. cbn [r_ordered r_elems]. unfold is_ordered.
  destruct (s_list s) as [a|] eqn:La, (s_list o) as [b|] eqn:Lb; simpl.
  - destruct (list_eq_dec Z.eq_dec (st_items a) (st_items b)); intuition congruence.
  - intuition congruence.
  - intuition congruence.
  - rewrite perm_b_spec. split.
    + intros P. split; [reflexivity|]. intros v. apply bool_eq_iff. rewrite !h_check_in.
      split; intros Hin; [eapply Permutation_in; eauto|eapply Permutation_in; [symmetry; exact P|exact Hin]].
    + intros [_ H]. apply NoDup_Permutation; [apply h_sorted_nodup, Is|apply h_sorted_nodup, Io|].
      intros x. rewrite <- !h_check_in, (H x). reflexivity.
Qed.

(* ------------------------------------------------------------------ JSON round trip *)
Lemma r_populate_fresh vs : forall acc ord, NoDup (acc ++ vs) ->
  r_populate (mkR acc ord) vs = mkR (acc ++ vs) ord.
Proof.
  induction vs as [|v vs IH]; intros acc ord ND; [simpl; rewrite app_nil_r; reflexivity|].
  assert (M : r_mem (mkR acc ord) v = false).
  { destruct (r_mem (mkR acc ord) v) eqn:M; [|reflexivity]. apply r_mem_in in M. simpl in M.
    apply NoDup_remove_2 in ND. exfalso. apply ND. apply in_or_app. auto. }
  change (r_populate (mkR acc ord) (v :: vs)) with (r_populate (fst (r_add (mkR acc ord) v)) vs).
  unfold r_add. rewrite M. cbn [fst r_elems r_ordered].
  rewrite IH; rewrite <- app_assoc; [reflexivity|exact ND].
Qed.

(* a fresh set of the same kind as s: &Set{} followed by Order() iff s is ordered *)
Definition fresh_like (s : set) : set := if is_ordered s then fst (order empty_set) else empty_set.

Theorem json_roundtrip_model s choice s' vs :
  SetInv s -> iterate s choice = (s', Some vs) ->
  let t := populate (fresh_like s) vs in
  snd (equal s' t) = true /\ SetInv t /\ Permutation (members t) (members s) /\
  (is_ordered s = true -> order_of t = order_of s).
Proof.
  intros Is It. pose proof (abs_abs_of _ Is) as As. rewrite (abs_iterate _ _ choice As) in It. inv It.
  assert (Af : abs (fresh_like s) (mkR [] (is_ordered s))).
  { unfold fresh_like. destruct (is_ordered s); [exact (proj1 (abs_order _ _ abs_empty))|exact abs_empty]. }
  pose proof (abs_populate vs _ _ Af) as At.
  assert (NDv : NoDup vs /\ Permutation vs (r_elems (abs_of s)) /\ (is_ordered s = true -> vs = r_elems (abs_of s))).
  { unfold r_iterate in H1. cbn [r_ordered abs_of] in H1. destruct (is_ordered s) eqn:O.
    - inv H1. split; [exact (abs_nodup _ _ As)|]. split; [reflexivity|reflexivity].
    - destruct (perm_b choice (r_elems (abs_of s))) eqn:PB; [|discriminate]. inv H1.
      apply perm_b_spec in PB. split; [|split; [exact PB|discriminate]].
      eapply Permutation_NoDup; [symmetry; exact PB|exact (abs_nodup _ _ As)]. }
  destruct NDv as (ND & Pv & Ev).
  rewrite (r_populate_fresh vs [] (is_ordered s) ND) in At. simpl in At.
  intros t. subst t. set (t := populate (fresh_like s) vs) in *.
  rewrite (abs_equal _ _ _ _ (abs_lock _ _ As) At). cbn [snd].
  assert (Pm : Permutation (members t) (members s)).
  { destruct At as (_ & _ & P & _). destruct As as (_ & _ & P' & _). unfold members. cbn [r_elems] in P.
    etransitivity; [exact P|]. etransitivity; [exact Pv|symmetry; exact P']. }
  split; [|split; [exact (proj1 At)|split; [exact Pm|]]].
  - unfold r_equal. change (r_ordered (abs_of s)) with (is_ordered s). cbn [r_ordered r_elems].
    rewrite Bool.eqb_reflx. cbn [andb].
    destruct (is_ordered s) eqn:O.
    + rewrite <- (Ev eq_refl). destruct (list_eq_dec Z.eq_dec vs vs); [reflexivity|contradiction].
    + apply perm_b_spec. symmetry. exact Pv.
  - intros O. destruct At as (_ & Ot & _ & Lt). cbn [r_ordered r_elems] in Ot, Lt.
    unfold order_of. unfold is_ordered in Ot, O. destruct (s_list t) as [st|]; [|rewrite O in Ot; discriminate].
    rewrite Lt, (Ev O). unfold abs_of. cbn [r_elems]. destruct (s_list s); [reflexivity|discriminate].
Qed.

(* ------------------------------------------------------------------ the reference's Sort sorts *)
Definition strict_weak_order (lt : Z -> Z -> bool) : Prop :=
  (forall a, lt a a = false) /\
  (forall a b c, lt a b = true -> lt b c = true -> lt a c = true) /\
  (forall a b c, lt a b = false -> lt b c = false -> lt a c = false).

Theorem r_sort_sorted lt choice r r' :
  strict_weak_order lt -> r_sort lt choice r = Some r' ->
  r_ordered r' = true /\ v_sorted lt (r_elems r') /\ Permutation (r_elems r') (r_elems r).
Proof.
  intros (I & Tr & _) E. unfold r_sort in E. destruct (r_ordered r).
  - inv E. simpl. split; [reflexivity|]. split; [apply v_sort_sorted; auto|apply v_sort_perm].
  - destruct (perm_b choice (r_elems r)) eqn:PB; [|discriminate]. inv E. simpl.
    split; [reflexivity|]. split; [apply v_sort_sorted; auto|].
    rewrite v_sort_perm. apply perm_b_spec, PB.
Qed.

(* the five comparison functions of the harness are strict weak orders *)
Example lt_of_swo k : strict_weak_order (lt_of k).
Proof.
  unfold lt_of. destruct k as [|[p|p|]|]; repeat split; intros; try lia;
    try (destruct p; repeat split; intros; lia).
Qed.

(* non-vacuity *)
Example refines_example :
  run tbl0 [OOrder 0; OAdd 0 3; OAdd 0 1; OAddCheck 0 3; ODeleteCheck 0 3; OAddCheck 0 3; OIter 0]
  = [(RUnit, 0, []); (RUnit, 1, [3]); (RUnit, 2, [3; 1]); (RBool true, 2, [3; 1]); (RBool true, 1, [1]);
     (RBool false, 2, [1; 3]); (RSeq [1; 3], 2, [1; 3])].
Proof. vm_compute. reflexivity. Qed.

Example force_ordered_example :
  map (fun o : obs => snd o) (run tbl0 [OAdd 0 3; OAdd 0 1; OAdd 0 2; OSortQuick 0 0 [3; 1; 2]; ODelete 0 2])
  = [[3]; [1; 3]; [1; 2; 3]; [1; 2; 3]; [1; 3]].
Proof. vm_compute. reflexivity. Qed.

Example json_example :
  let s := exec tbl0 [OOrder 0; OPopulate 0 [2; 0; 1]] 0%nat in
  snd (equal (fst (iterate s [])) (populate (fresh_like s) [2; 0; 1])) = true.
Proof. vm_compute. reflexivity. Qed.

(* ------------------------------------------------------------------ the reference keeps first-insertion order *)
Lemma r_add_spec r v :
  (r_mem r v = true -> r_add r v = (r, true)) /\
  (r_mem r v = false -> r_add r v = (mkR (r_elems r ++ [v]) (r_ordered r), false)).
Proof. unfold r_add. destruct (r_mem r v); split; intros; congruence. Qed.

Lemma r_del_spec r v :
  (r_mem r v = false -> r_del r v = (r, false)) /\
  (r_mem r v = true -> r_del r v = (mkR (filter (fun x => negb (Z.eqb x v)) (r_elems r)) (r_ordered r), true)).
Proof. unfold r_del. destruct (r_mem r v); split; intros; congruence. Qed.

(* ------------------------------------------------------------------ finding #6, for the record *)
(* forceSetupOrdered as it was before the repair: the list is built but the hash keeps its nil values.
   With it the invariant fails and Delete leaves the element in the list. *)
Definition sort_unindexed (lt : Z -> Z -> bool) (choice : list Z) (s : set) : set :=
  let s := s_lock s in
  match s_list s with
  | Some st => mkSet (s_hash s) (Some (st_sort lt st)) (s_next s) (s_mtx s)
  | None =>
      let '(_, st, nx) := force_fill choice (hm s) [] (s_next s) in
      mkSet (s_hash s) (Some (st_sort lt st)) nx (s_mtx s)
  end.

Example unindexed_force_setup_refuted :
  let s := populate empty_set [3; 1; 2] in
  let s1 := sort_unindexed Z.ltb [3; 1; 2] s in
  let s2 := fst (delete_check s1 2) in
  ~ SetInv s1 /\ iter_canon s2 = [1; 2; 3] /\ snd (len s2) = 2 /\ snd (check s2 2) = false.
Proof.
  cbv zeta. split; [|vm_compute; repeat split].
  intros [_ Ok]. vm_compute in Ok. destruct Ok as (_ & _ & G1 & _).
  destruct (G1 1 None eq_refl) as (h & E & _). discriminate.
Qed.

(* non-vacuity of equal_iff_model: same members, different order / same order / unordered *)
Example equal_example :
  let T := exec tbl0 [OOrder 0; OOrder 1; OPopulate 0 [1; 2; 3]; OPopulate 1 [3; 2; 1]; OOrder 2; OPopulate 2 [1; 2; 3];
                      OPopulate 3 [2; 1]; OPopulate 4 [1; 2]] in
  snd (equal (T 0%nat) (T 1%nat)) = false /\ snd (equal (T 0%nat) (T 2%nat)) = true /\
  snd (equal (T 3%nat) (T 4%nat)) = true /\ snd (equal (T 0%nat) (T 3%nat)) = false.
Proof. vm_compute. repeat split. Qed.
