(* Invariants of the worker network (Model/WorkerGroup.v): for every number of workers, every input,
   every user function and every interleaving of the modelled atomic steps. *)
From FunV Require Import Base.Tac Base.ListX Model.WorkerConf Model.WorkerGroup Proofs.WorkerConf_table.
Open Scope nat_scope.

(* ---------------------------------------------------------------- set_nth / counting lemmas *)

Lemma set_nth_length {A} i (x : A) l : length (set_nth i x l) = length l.
Proof. revert i; induction l as [|a l IH]; intros [|i]; simpl; auto. Qed.

Lemma nth_error_set_nth_same {A} i (x : A) l w : nth_error l i = Some w -> nth_error (set_nth i x l) i = Some x.
Proof. revert i; induction l as [|a l IH]; intros [|i] H; simpl in *; try discriminate; auto. Qed.

Lemma nth_error_set_nth_other {A} i j (x : A) l : i <> j -> nth_error (set_nth i x l) j = nth_error l j.
Proof. revert i j; induction l as [|a l IH]; intros [|i] [|j] H; simpl; auto; try congruence. Qed.

Definition busyw (w : wstate) : list Z := match w with WBusy x => [x] | _ => [] end.
Definition busy (wk : list wstate) : list Z := flat_map busyw wk.
Definition hand (sp : sstate) : list Z := match sp with SHolding x => [x] | _ => [] end.
Definition cnt (l : list Z) (v : Z) : nat := count_occ Z.eq_dec l v.

Lemma cnt_app l1 l2 v : cnt (l1 ++ l2) v = cnt l1 v + cnt l2 v.
Proof. apply count_occ_app. Qed.

Lemma cnt_busy_set_nth i w w' wk v :
  nth_error wk i = Some w ->
  cnt (busy (set_nth i w' wk)) v + cnt (busyw w) v = cnt (busy wk) v + cnt (busyw w') v.
Proof.
  revert i; induction wk as [|a wk IH]; intros [|i] H; simpl in *; try discriminate.
  - inv H. unfold busy. simpl. rewrite !cnt_app. lia.
  - unfold busy in *. simpl. rewrite !cnt_app. specialize (IH _ H). lia.
Qed.

Definition idlew (w : wstate) : nat := match w with WIdle => 1 | _ => 0 end.
Fixpoint idle (wk : list wstate) : nat := match wk with [] => 0 | w :: r => idlew w + idle r end.

Lemma idle_set_nth i w w' wk :
  nth_error wk i = Some w -> idle (set_nth i w' wk) + idlew w = idle wk + idlew w'.
Proof.
  revert i; induction wk as [|a wk IH]; intros [|i] H; simpl in *; try discriminate.
  - inv H. lia.
  - specialize (IH _ H). lia.
Qed.

Lemma idle_le_length wk : idle wk <= length wk.
Proof. induction wk as [|[] wk IH]; simpl; lia. Qed.

Lemma idle_lt_length i w wk : nth_error wk i = Some w -> idlew w = 0 -> idle wk + 1 <= length wk.
Proof.
  revert i; induction wk as [|a wk IH]; intros [|i] H Hw; simpl in *; try discriminate.
  - inv H. pose proof (idle_le_length wk). lia.
  - specialize (IH _ H Hw). destruct a; simpl; lia.
Qed.

Lemma forallb_wdone_busy wk : forallb wdone wk = true -> busy wk = [].
Proof.
  induction wk as [|w wk IH]; simpl; [reflexivity|]. intros H. apply andb_prop in H. destruct H as [H1 H2].
  destruct w; try discriminate. unfold busy in *. simpl. auto.
Qed.

Lemma forallb_false_nth {A} (p : A -> bool) l :
  forallb p l = false -> exists i w, nth_error l i = Some w /\ p w = false.
Proof.
  induction l as [|a l IH]; simpl; [discriminate|]. destruct (p a) eqn:E; simpl.
  - intros H. destruct (IH H) as (i & w & H1 & H2). exists (S i), w. auto.
  - intros _. exists 0, a. auto.
Qed.

Lemma cnt_nil_all l : (forall v, cnt l v = 0) -> l = [].
Proof.
  destruct l as [|a l]; [reflexivity|]. intros H. specialize (H a). unfold cnt in H. simpl in H.
  destruct (Z.eq_dec a a); [discriminate|congruence].
Qed.

Lemma flat_map_nil_iff {A B} (g : A -> list B) l : flat_map g l = [] <-> forall x, In x l -> g x = [].
Proof.
  induction l as [|a l IH]; simpl; [tauto|]. split.
  - intros H. apply app_eq_nil in H. destruct H as [H1 H2]. intros x [E|Hx]; [subst; auto|]. apply IH; auto.
  - intros H. rewrite (H a) by auto. simpl. apply IH. auto.
Qed.

(* ---------------------------------------------------------------- the recover wrapper *)

Lemma recover_returns o : recover_wrapper (run_user o) = Returned (with_recover o).
Proof. destruct o; reflexivity. Qed.

Section NetProofs.
Variable c : conf.
Variable eofc : bool.
Variable f : Z -> outcome.

Notation exec := (exec c eofc f).
Notation recorded := (recorded c f).

Definition decision_of (x : Z) : decision := can_continue c (with_recover (f x)).
Definition reportable (x : Z) : bool := record (decision_of x).

Lemma recorded_nil_iff x : recorded x = [] <-> reportable x = false.
Proof.
  unfold recorded, reportable, decision_of. destruct (with_recover (f x)) as [e|].
  - destruct (record (can_continue c (Some e))); split; intros; try discriminate; reflexivity.
  - simpl. tauto.
Qed.

Lemma recorded_fst x xe : In xe (recorded x) -> fst xe = x.
Proof.
  unfold recorded. destruct (with_recover (f x)); [|intros []].
  destruct (record _); [|intros []]. intros [E|[]]. subst. reflexivity.
Qed.

Inductive reach (s0 : state) : state -> Prop :=
| reach_refl : reach s0 s0
| reach_step s l s' : reach s0 s -> exec s l = Some s' -> reach s0 s'.

(* all the ways a step can happen, with the recover wrapper already resolved *)
Ltac exec_inv H :=
  unfold WorkerGroup.exec in H;
  repeat match type of H with
  | context [recover_wrapper (run_user ?o)] => rewrite (recover_returns o) in H
  | context [match ?x with _ => _ end] => destruct x eqn:?; try discriminate H
  end;
  inv H.

(* ---------------------------------------------------------------- A: the log invariant; no crash *)

Definition inv_log (s : state) : Prop := res s = flat_map recorded (proc s) /\ crashed s = false.

Lemma inv_log_step s l s' : inv_log s -> exec s l = Some s' -> inv_log s'.
Proof.
  intros [Hr Hc] H. unfold inv_log.
  destruct l; exec_inv H; simpl; auto; rewrite flat_map_app; simpl; rewrite app_nil_r; rewrite <- Hr; auto.
Qed.

Lemma inv_log_reach n input s : reach (init n input) s -> inv_log s.
Proof.
  induction 1; [split; reflexivity|]. eapply inv_log_step; eauto.
Qed.

(* every outcome of the user function — a panic with any value included — is turned into an error
   value by the deferred recover and then recorded or ignored by CanContinueOnError; nothing
   propagates out of the worker goroutine *)
Theorem never_escapes_as_panic n input s : reach (init n input) s -> crashed s = false.
Proof. intros H. apply inv_log_reach in H. apply H. Qed.

(* ... and the step that processes the outcome is always enabled (no outcome is stuck) *)
Theorem finish_enabled s i x : nth_error (wk s) i = Some (WBusy x) -> exists s', exec s (LFinish i) = Some s' /\ crashed s' = crashed s.
Proof.
  intros H. unfold WorkerGroup.exec. rewrite H, recover_returns.
  destruct (continue _); [eexists; split; reflexivity|].
  destruct (stops_group _ _); eexists; split; reflexivity.
Qed.

Theorem result_nil_iff_no_reportable_failure n input s :
  reach (init n input) s ->
  (res s = [] <-> forall x, In x (proc s) -> reportable x = false).
Proof.
  intros H. apply inv_log_reach in H. destruct H as [H _]. rewrite H, flat_map_nil_iff.
  split; intros G x Hx; apply recorded_nil_iff; auto.
Qed.

Theorem result_contains_exactly_processed_failures n input s :
  reach (init n input) s ->
  forall xe, In xe (res s) <-> (In (fst xe) (proc s) /\ In xe (recorded (fst xe))).
Proof.
  intros H xe. apply inv_log_reach in H. destruct H as [H _]. rewrite H, in_flat_map. split.
  - intros (x & Hx & Hin). rewrite (recorded_fst _ _ Hin). auto.
  - intros [H1 H2]. eauto.
Qed.

(* ---------------------------------------------------------------- B: token conservation *)

Definition tokens (s : state) (v : Z) : nat :=
  cnt (proc s) v + cnt (busy (wk s)) v + cnt (hand (spl s)) v + cnt (inp s) v + cnt (drop s) v.

Lemma tokens_step s l s' v : exec s l = Some s' -> tokens s' v = tokens s v.
Proof.
  intros H. unfold tokens.
  destruct l; exec_inv H; simpl;
    rewrite ?cnt_app;
    try match goal with
    | E : nth_error (wk s) ?i = Some ?w |- context [set_nth ?i ?w' (wk s)] =>
        pose proof (cnt_busy_set_nth i w w' (wk s) v E)
    end;
    repeat match goal with E : spl s = _ |- _ => rewrite E; clear E end;
    repeat match goal with E : inp s = _ |- _ => rewrite E; clear E end;
    unfold cnt in *; simpl in *; repeat destruct (Z.eq_dec _ _); try lia.
Qed.

Lemma tokens_reach n input s v : reach (init n input) s -> tokens s v = cnt input v.
Proof.
  induction 1.
  - unfold tokens, init. simpl. assert (E : busy (repeat WIdle n) = []) by (induction n; simpl; auto).
    rewrite E. unfold cnt. simpl. lia.
  - erewrite tokens_step; eauto.
Qed.

(* every item is, at every moment, in exactly one place: still in the source, in the splitter's hand,
   in a worker, processed, or (abort only) dropped by the splitter *)
Theorem token_conservation n input s :
  reach (init n input) s ->
  Permutation (proc s ++ busy (wk s) ++ hand (spl s) ++ inp s ++ drop s) input.
Proof.
  intros H. apply (Permutation_count_occ Z.eq_dec). intros v.
  rewrite !count_occ_app. pose proof (tokens_reach _ _ _ v H) as T. unfold tokens, cnt in T. lia.
Qed.

Lemma busy_in_input n input s i x :
  reach (init n input) s -> nth_error (wk s) i = Some (WBusy x) -> In x input.
Proof.
  intros H E. pose proof (tokens_reach _ _ _ x H) as T.
  assert (B : cnt (busy (wk s)) x >= 1).
  { clear T H. revert i E. generalize (wk s) as l. induction l as [|a l IH]; intros [|i] E; simpl in E; try discriminate.
    - inv E. unfold busy, cnt. simpl. destruct (Z.eq_dec x x); [lia|congruence].
    - unfold busy in *. simpl. rewrite cnt_app. specialize (IH _ E). lia. }
  unfold tokens in T. assert (G : cnt input x > 0) by lia. unfold cnt in G. apply (count_occ_In Z.eq_dec). exact G.
Qed.

(* ---------------------------------------------------------------- C: continue mode *)

Definition no_failed (w : wstate) : bool := match w with WFailed => false | _ => true end.

Section ContinueMode.
Variable n : nat.
Variable input : list Z.
(* every failure the user function produces on this input is one the configuration continues after *)
Hypothesis all_continue : forall x, In x input -> continue (decision_of x) = true.

Definition inv_cont (s : state) : Prop :=
  canc s = false /\ failed s = false /\ drop s = [] /\ forallb no_failed (wk s) = true /\
  (spl s = SDone -> inp s = []).

Lemma forallb_set_nth {A} (p : A -> bool) i x l : forallb p l = true -> p x = true -> forallb p (set_nth i x l) = true.
Proof.
  revert i; induction l as [|a l IH]; intros [|i] H Hx; simpl in *; auto; apply andb_prop in H; destruct H as [H1 H2];
    apply andb_true_intro; auto.
Qed.

Lemma inv_cont_step s l s' : reach (init n input) s -> inv_cont s -> exec s l = Some s' -> inv_cont s'.
Proof.
  intros R (Hc & Hf & Hd & Hw & Hs) H. unfold inv_cont.
  destruct l.
  - exec_inv H; simpl; try congruence; repeat split; auto; discriminate.
  - exec_inv H; simpl; repeat split; auto; discriminate.
  - exec_inv H; simpl; try congruence; repeat split; auto; try discriminate; apply forallb_set_nth; auto.
  - exec_inv H; simpl; congruence.
  - exec_inv H; simpl;
      match goal with E : nth_error (wk s) i = Some (WBusy ?x) |- _ =>
        pose proof (all_continue x (busy_in_input _ _ _ _ _ R E)) as K; unfold decision_of in K end;
      try congruence; repeat split; auto; apply forallb_set_nth; auto.
  - exec_inv H. exfalso.
    assert (G : forall l j, forallb no_failed l = true -> nth_error l j = Some WFailed -> False).
    { induction l as [|a l IH]; intros [|j] G1 G2; simpl in *; try discriminate.
      - inv G2. discriminate.
      - apply andb_prop in G1. destruct G1. eauto. }
    eapply G; eauto.
  - exec_inv H; simpl; repeat split; auto; apply forallb_set_nth; auto.
  - exec_inv H; simpl; congruence.
Qed.

Lemma inv_cont_reach s : reach (init n input) s -> inv_cont s.
Proof.
  induction 1 as [|s l s' R IH H].
  - unfold inv_cont, init. simpl. repeat split; auto; [|discriminate]. induction n; simpl; auto.
  - eapply inv_cont_step; eauto.
Qed.

(* ContinueOnError / ContinueOnPanic: in every terminated run, under every interleaving and for
   every number of workers, each item has been processed exactly once (the processed log is a
   permutation of the input), nothing was dropped, the group was never cancelled, and the result
   consists of exactly the reportable failures of the input's items. *)
Theorem continue_mode_complete s :
  reach (init n input) s -> terminated s = true ->
  Permutation (proc s) input /\
  canc s = false /\ drop s = [] /\
  (forall x xe, In x input -> In xe (recorded x) -> In xe (res s)) /\
  (forall xe, In xe (res s) -> In (fst xe) input /\ In xe (recorded (fst xe))) /\
  (res s = [] <-> forall x, In x input -> reportable x = false).
Proof.
  intros R T. destruct (inv_cont_reach _ R) as (Hc & Hf & Hd & Hw & Hs).
  unfold terminated in T. destruct (spl s) eqn:Es; try discriminate.
  specialize (Hs eq_refl). pose proof (forallb_wdone_busy _ T) as Hb.
  assert (P : Permutation (proc s) input).
  { pose proof (token_conservation _ _ _ R) as TC. rewrite Hb, Es, Hs, Hd in TC. simpl in TC. rewrite app_nil_r in TC. exact TC. }
  split; [exact P|]. split; [exact Hc|]. split; [exact Hd|].
  pose proof (result_contains_exactly_processed_failures _ _ _ R) as RC.
  split; [|split].
  - intros x xe Hx Hxe. apply RC. rewrite (recorded_fst _ _ Hxe). split; auto.
    eapply Permutation_in; [symmetry; exact P|exact Hx].
  - intros xe Hxe. apply RC in Hxe. destruct Hxe as [H1 H2]. split; auto. eapply Permutation_in; eauto.
  - rewrite (result_nil_iff_no_reportable_failure _ _ _ R). split; intros G x Hx; apply G.
    + eapply Permutation_in; [symmetry; exact P|exact Hx].
    + eapply Permutation_in; eauto.
Qed.

Corollary continue_mode_exactly_once s :
  NoDup input -> reach (init n input) s -> terminated s = true ->
  NoDup (proc s) /\ (forall x, In x input <-> In x (proc s)).
Proof.
  intros ND R T. destruct (continue_mode_complete _ R T) as (P & _).
  split.
  - eapply Permutation_NoDup; [symmetry; exact P|exact ND].
  - intros x. split; apply Permutation_in; [symmetry|]; exact P.
Qed.
End ContinueMode.

(* ---------------------------------------------------------------- D: abort mode *)

Definition pot (sp : sstate) : nat := match sp with SChecked | SHolding _ => 1 | _ => 0 end.

(* before any worker has failed nothing is counted and the context is live; between the failure and
   its cancel() every hand-off uses up an idle worker, and idle workers are only replenished by other
   workers finishing in that window; after cancel() the splitter can deliver at most the one item it
   has already committed to *)
Definition inv_abort (s : state) : Prop :=
  (failed s = false -> h_after s = 0 /\ f_win s = 0 /\ canc s = false /\ forallb no_failed (wk s) = true) /\
  (failed s = true -> canc s = false -> h_after s + idle (wk s) + 1 <= length (wk s) + f_win s) /\
  (failed s = true -> canc s = true -> h_after s + pot (spl s) <= length (wk s) + f_win s).

Lemma no_failed_nth l j : forallb no_failed l = true -> nth_error l j = Some WFailed -> False.
Proof.
  revert j; induction l as [|a l IH]; intros [|j] G1 G2; simpl in *; try discriminate.
  - inv G2. discriminate.
  - apply andb_prop in G1. destruct G1. eauto.
Qed.

Lemma inv_abort_step s l s' : inv_abort s -> exec s l = Some s' -> inv_abort s'.
Proof.
  intros (H0 & H1 & H2) H. unfold inv_abort.
  destruct (failed s) eqn:Ef.
  - (* already failed *)
    clear H0. specialize (H1 eq_refl). specialize (H2 eq_refl).
    destruct (canc s) eqn:Ec.
    + clear H1. specialize (H2 eq_refl).
      destruct l; exec_inv H; simpl; rewrite ?set_nth_length, ?Ef, ?Ec; simpl;
        (split; [intros; congruence|]); (split; [intros; congruence|]); intros _ _;
        repeat match goal with E : spl s = _ |- _ => rewrite E in H2; clear E end; simpl in *; try lia.
    + clear H2. specialize (H1 eq_refl).
      destruct l; exec_inv H; simpl; rewrite ?set_nth_length, ?Ef, ?Ec; simpl;
        try match goal with
        | E : nth_error (wk s) ?i = Some ?w |- context [set_nth ?i ?w' (wk s)] =>
            pose proof (idle_set_nth i w w' (wk s) E)
        end;
        (split; [intros; congruence|]);
        (split; [intros _ G; try discriminate G|intros _ G; try discriminate G]);
        simpl in *; try lia.
      (* LCancel: canc becomes true *)
      all: destruct (spl s); simpl; lia.
  - (* not yet failed *)
    destruct (H0 eq_refl) as (Hh & Hf & Hc & Hw). clear H1 H2.
    destruct l; exec_inv H; simpl; try congruence;
      try match goal with Hb : failed s && _ = true |- _ => rewrite Ef in Hb; discriminate Hb end;
      rewrite ?set_nth_length, ?Ef, ?Hc; simpl;
      try (split; [intros _; repeat split; auto; try (apply forallb_set_nth; auto)|split; intros; congruence]).
    + (* LFinish, the failing one *)
      split; [intros; congruence|]. split; [|intros; congruence]. intros _ _.
      match goal with E : nth_error (wk s) ?i = Some (WBusy ?x) |- _ =>
        pose proof (idle_set_nth i _ WFailed (wk s) E) as I1; pose proof (idle_lt_length i _ (wk s) E eq_refl) as I2 end.
      simpl in *. lia.
    + (* LCancel with no failure: impossible *)
      exfalso. eapply no_failed_nth; eauto.
Qed.

Lemma inv_abort_reach n input s : reach (init n input) s -> inv_abort s.
Proof.
  induction 1.
  - unfold inv_abort, init. simpl. split; [intros _; repeat split; auto; induction n; simpl; auto|split; intros; discriminate].
  - eapply inv_abort_step; eauto.
Qed.

(* Abort mode.  `h_after` counts the hand-offs (items STARTED) since the first worker returned
   "cannot continue"; `f_win` counts the items other workers FINISHED between that return and the
   moment the failing worker's cancel() took effect.  For every N, input, user function, schedule:
     started-after-first-failure <= N + finished-in-the-window. *)
Theorem abort_bound n input s :
  reach (init n input) s -> failed s = true -> h_after s <= n + f_win s.
Proof.
  intros R Hf. pose proof (inv_abort_reach _ _ _ R) as (_ & H1 & H2).
  assert (L : length (wk s) = n).
  { clear H1 H2 Hf. induction R as [|s l s' R IH H]; [simpl; apply repeat_length|].
    rewrite <- IH. destruct l; exec_inv H; simpl; rewrite ?set_nth_length; reflexivity. }
  rewrite L in *. destruct (canc s) eqn:Ec; [specialize (H2 Hf eq_refl)|specialize (H1 Hf eq_refl)]; lia.
Qed.

(* when cancel() follows the failing return before any other worker finishes an item (in particular
   when the two are one atomic step), at most N further items start *)
Corollary abort_bound_atomic n input s :
  reach (init n input) s -> failed s = true -> f_win s = 0 -> h_after s <= n.
Proof. intros R Hf Hw. pose proof (abort_bound _ _ _ R Hf). lia. Qed.

(* before the first failure the group's context is live and nothing has been counted *)
Theorem no_cancel_without_failure n input s :
  reach (init n input) s -> failed s = false -> canc s = false /\ h_after s = 0.
Proof. intros R Hf. destruct (inv_abort_reach _ _ _ R) as (H0 & _). destruct (H0 Hf) as (? & ? & ? & ?). auto. Qed.

(* --- the failing worker handles no further item *)

Definition stopped (w : wstate) : Prop := w = WFailed \/ w = WDone.

Inductive run : state -> list label -> state -> Prop :=
| run_nil s : run s [] s
| run_cons s l s1 ls s2 : exec s l = Some s1 -> run s1 ls s2 -> run s (l :: ls) s2.

Lemma stopped_step s l s' i w :
  exec s l = Some s' -> nth_error (wk s) i = Some w -> stopped w ->
  l <> LHandoff i /\ exists w', nth_error (wk s') i = Some w' /\ stopped w'.
Proof.
  intros H E St.
  assert (K : forall j v, (j = i -> stopped v) -> exists w', nth_error (set_nth j v (wk s)) i = Some w' /\ stopped w').
  { intros j v Hv. destruct (Nat.eq_dec j i) as [->|N].
    - exists v. split; [eapply nth_error_set_nth_same; eauto|auto].
    - exists w. rewrite nth_error_set_nth_other by auto. auto. }
  destruct l; exec_inv H; simpl; (split; [|try (apply K; intros ->; unfold stopped in *; try (left; reflexivity); try (right; reflexivity); try (destruct St; congruence)); eauto]);
    try discriminate.
  all: intros X; inv X; destruct St; congruence.
Qed.

Theorem failing_worker_stops s ls s' i w :
  run s ls s' -> nth_error (wk s) i = Some w -> stopped w ->
  ~ In (LHandoff i) ls /\ exists w', nth_error (wk s') i = Some w' /\ stopped w'.
Proof.
  intros R. revert w. induction R as [s|s l s1 ls s2 H R IH]; intros w E St.
  - split; [intros []|eauto].
  - destruct (stopped_step _ _ _ _ _ H E St) as (N & w1 & E1 & St1).
    destruct (IH _ E1 St1) as (N2 & G). split; [|exact G]. intros [X|X]; [congruence|auto].
Qed.

(* a worker whose item ends in "cannot continue" is stopped by that very step *)
Theorem finish_noncontinue_stops s i x s' :
  nth_error (wk s) i = Some (WBusy x) -> continue (decision_of x) = false ->
  exec s (LFinish i) = Some s' -> exists w, nth_error (wk s') i = Some w /\ stopped w.
Proof.
  intros E Hc H. unfold decision_of in Hc.
  unfold WorkerGroup.exec in H. rewrite E, recover_returns, Hc in H.
  destruct (stops_group eofc (with_recover (f x))); inv H; simpl.
  - exists WFailed. split; [eapply nth_error_set_nth_same; eauto|left; reflexivity].
  - exists WDone. split; [eapply nth_error_set_nth_same; eauto|right; reflexivity].
Qed.

(* --- once cancelled, the network can only wind down: at quiescence every process is done *)
Theorem cancelled_quiescent_all_done s :
  canc s = true -> (forall l, exec s l = None) -> terminated s = true.
Proof.
  intros Hc Q. unfold terminated.
  destruct (spl s) eqn:Es.
  - specialize (Q LCheck). unfold WorkerGroup.exec in Q. rewrite Es, Hc in Q. discriminate.
  - specialize (Q LTake). unfold WorkerGroup.exec in Q. rewrite Es in Q. destruct (inp s); discriminate.
  - specialize (Q LObsSplit). unfold WorkerGroup.exec in Q. rewrite Es, Hc in Q. discriminate.
  - destruct (forallb wdone (wk s)) eqn:F; [reflexivity|]. exfalso.
    destruct (forallb_false_nth _ _ F) as (i & w & E & Hw).
    destruct w; try discriminate.
    + specialize (Q (LObsWorker i)). unfold WorkerGroup.exec in Q. rewrite E, Hc in Q. discriminate.
    + destruct (finish_enabled s i x E) as (s' & G & _). rewrite Q in G. discriminate.
    + specialize (Q (LCancel i)). unfold WorkerGroup.exec in Q. rewrite E in Q. discriminate.
Qed.

End NetProofs.

(* ---------------------------------------------------------------- continue flags => all_continue *)

(* with ContinueOnError and ContinueOnPanic both set, the only errors that stop a worker are the
   terminating signals io.EOF / context errors (when not part of a panic or a skip) *)
Definition terminating_signal (oe : option err) : bool :=
  match oe with
  | None => false
  | Some e => negb (is e id_panic) && negb (is e id_skip) && (is e id_eof || is e id_canceled || is e id_deadline)
  end.

Lemma continue_flags_continue c oe :
  continue_on_error c = true -> continue_on_panic c = true -> terminating_signal oe = false ->
  continue (can_continue c oe) = true.
Proof.
  intros H1 H2 H3. destruct oe as [e|]; [|reflexivity]. unfold can_continue. simpl in H3. rewrite H1, H2.
  destruct (is e id_panic), (is e id_skip), (is e id_eof), (is e id_canceled), (is e id_deadline), (is_any e (excluded c));
    simpl in *; try discriminate; reflexivity.
Qed.

(* ---------------------------------------------------------------- non-vacuity *)

Definition demo_f (x : Z) : outcome :=
  if (x =? 2)%Z then outcome_of PanicStr 2%Z false
  else if (x =? 4)%Z then outcome_of Plain 4%Z false else ORet None.

Definition demo_conf_continue := mkconf true true false [].
Definition demo_conf_abort := mkconf false false false [].

(* a terminated continue-mode run with 2 workers exists and has processed everything *)
Example demo_continue_run :
  exists s, exec_all demo_conf_continue true demo_f (init 2 [1; 2; 3; 4]%Z)
     [LCheck; LTake; LHandoff 0; LCheck; LTake; LHandoff 1; LFinish 1; LFinish 0; LCheck; LTake; LHandoff 1;
      LCheck; LTake; LHandoff 0; LFinish 0; LFinish 1; LCheck; LTake; LWorkerEof 0; LWorkerEof 1] = Some s
    /\ terminated s = true /\ proc s = [2; 1; 4; 3]%Z /\ map fst (res s) = [2; 4]%Z.
Proof. eexists. vm_compute. repeat split. Qed.

(* an abort-mode run: worker 0 fails at item 2, one more item is handed off in the window *)
Example demo_abort_run :
  exists s, exec_all demo_conf_abort true demo_f (init 2 [1; 2; 3; 4]%Z)
     [LCheck; LTake; LHandoff 1; LCheck; LTake; LHandoff 0; LFinish 0; LFinish 1; LCheck; LTake; LHandoff 1;
      LCancel 0; LCheck; LFinish 1; LObsWorker 1] = Some s
    /\ terminated s = true /\ failed s = true /\ h_after s = 1 /\ f_win s = 1 /\ proc s = [2; 1; 3]%Z /\ inp s = [4]%Z.
Proof. eexists. vm_compute. repeat split. Qed.

(* the one-worker reference schedule is a run of the network and ends where seq_run says *)
Example demo_seq_schedule :
  let c := demo_conf_abort in
  match exec_all c true demo_f (init 1 [1; 2; 3]%Z) (seq_schedule c true demo_f [1; 2; 3]%Z) with
  | Some s => terminated s = true /\ (res s, proc s) = seq_run c demo_f [1; 2; 3]%Z
  | None => False
  end.
Proof. vm_compute. split; reflexivity. Qed.

(* ---------------------------------------------------------------- the abort bound, as the property words it *)

(* "the number of items started after the first failure returned is bounded by the number of workers" *)
Definition abort_bound_statement : Prop :=
  forall c eofc f n input s, reach c eofc f (init n input) s -> failed s = true -> h_after s <= n.

(* As worded it does not hold of the network (nor of any implementation that calls cancel() after the
   user function has returned): if the failing worker is descheduled between its function's return
   and its cancel(), the other workers keep finishing and starting items.  The `f_win` term of
   abort_bound is therefore necessary; this is scheduling, not a defect. *)
Definition window_f (x : Z) : outcome := if (x =? 1)%Z then outcome_of Plain 1%Z false else ORet None.

Theorem abort_bound_statement_needs_prompt_cancel : ~ abort_bound_statement.
Proof.
  intros H.
  pose (ls := [LCheck; LTake; LHandoff 0; LCheck; LTake; LHandoff 1; LFinish 0;
               LFinish 1; LCheck; LTake; LHandoff 1; LFinish 1; LCheck; LTake; LHandoff 1; LFinish 1; LCheck; LTake; LHandoff 1]).
  assert (R : forall ls s0 s, exec_all demo_conf_abort true window_f s0 ls = Some s ->
                reach demo_conf_abort true window_f (init 2 [1; 2; 3; 4; 5; 6]%Z) s0 ->
                reach demo_conf_abort true window_f (init 2 [1; 2; 3; 4; 5; 6]%Z) s).
  { induction ls0 as [|l ls0 IH]; simpl; intros s0 s E R0; [inv E; exact R0|].
    destruct (exec demo_conf_abort true window_f s0 l) eqn:E1; [|discriminate]. eapply IH; [exact E|]. eapply reach_step; eauto. }
  destruct (exec_all demo_conf_abort true window_f (init 2 [1; 2; 3; 4; 5; 6]%Z) ls) as [s|] eqn:E; [|vm_compute in E; discriminate].
  pose proof (R _ _ _ E (reach_refl _ _ _ _)) as Rs.
  specialize (H _ _ _ _ _ _ Rs). vm_compute in E. inv E. simpl in H. specialize (H eq_refl). lia.
Qed.
