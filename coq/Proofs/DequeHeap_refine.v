(* Tracker invariant, well-formedness of the pointer-level deque, and the refinement
   (simulation) of the abstract two-ended list by the pointer-level model, step by step and
   over arbitrary operation lists. *)
From FunV Require Import Base.Tac Base.ListX Model.DequeHeap Proofs.DequeHeap_ring.
From Coq Require Import PrimFloat.
Local Open Scope Z_scope.

(* ------------------------------------------------------------------ trackers *)

Definition tinv (t : tracker) : Prop :=
  match t with
  | TNoLimit l => 0 <= l
  | THard c l => 0 <= l <= c /\ 1 <= c
  | TQuota sq hl l _ => 0 <= l <= sq /\ sq <= hl /\ 1 <= sq
  end.

Lemma t_add_ok t t' : tinv t -> t_add t = (t', ENil) ->
  tinv t' /\ t_len t' = t_len t + 1 /\ hard_cap t' = hard_cap t.
Proof.
  destruct t as [l|c l|sq hl l cr]; simpl; intros I E.
  - inv E. simpl. repeat split; lia.
  - destruct (Z.leb_spec c l); inv E. simpl. repeat split; lia.
  - destruct (Z.leb_spec sq l).
    + destruct (Z.eqb_spec l hl); [inv E|]. destruct (PrimFloat.ltb cr 1); inv E.
      simpl. repeat split; lia.
    + inv E. simpl. repeat split; lia.
Qed.

Lemma t_add_fail t t' e : t_add t = (t', e) -> e <> ENil -> t' = t.
Proof.
  destruct t as [l|c l|sq hl l cr]; simpl; intros E N.
  - inv E. congruence.
  - destruct (c <=? l); inv E; congruence.
  - destruct (sq <=? l); [destruct (l =? hl); [|destruct (PrimFloat.ltb cr 1)]|]; inv E; congruence.
Qed.

Lemma t_remove_ok t : tinv t -> 0 < t_len t ->
  tinv (t_remove t) /\ t_len (t_remove t) = t_len t - 1 /\ hard_cap (t_remove t) = hard_cap t.
Proof.
  destruct t as [l|c l|sq hl l cr]; simpl; intros I P.
  - destruct (Z.eqb_spec l 0); [lia|]. simpl. repeat split; lia.
  - destruct (Z.eqb_spec l 0); [lia|]. simpl. repeat split; lia.
  - destruct (Z.ltb_spec (l - 1) sq); [|lia].
    destruct ((1 <? sq) && (l - 1 <? Z.quot sq 2)) eqn:B; simpl; repeat split; lia.
Qed.

Lemma t_len_le_cap t : tinv t -> match hard_cap t with Some c => t_len t <= c | None => True end.
Proof. destruct t; simpl; intros; lia || trivial. Qed.

(* at cap() = len() there is at least one item, and after removing one the add succeeds *)
Lemma t_force t : tinv t -> t_cap t = t_len t ->
  0 < t_len t /\ exists t', t_add (t_remove t) = (t', ENil).
Proof.
  destruct t as [l|c l|sq hl l cr]; simpl; intros I E.
  - unfold max_int in E. split; [lia|]. destruct (Z.eqb_spec l 0); [lia|]. simpl. eauto.
  - split; [lia|]. destruct (Z.eqb_spec l 0); [lia|]. simpl.
    destruct (Z.leb_spec c (l - 1)); [lia|]. eauto.
  - split; [lia|]. subst sq. destruct (Z.ltb_spec (l - 1) l); [|lia].
    assert (Q : (1 <? l) && (l - 1 <? Z.quot l 2) = false).
    { destruct (Z.ltb_spec 1 l); [|reflexivity]. simpl.
      apply Z.ltb_ge. rewrite Z.quot_div_nonneg by lia.
      apply Z.div_le_upper_bound; lia. }
    rewrite Q. simpl. destruct (Z.leb_spec l (l - 1)); [lia|]. eauto.
Qed.

(* ------------------------------------------------------------------ well-formedness and abstraction *)

Definition wf (d : deque) (l : list nat) : Prop :=
  ring (hp d) (ROOT :: l) /\ (forall a, In a (ROOT :: l) -> (a < nxt d)%nat).

Definition vals (h : heap) (l : list nat) : list Z := map (fun a => item (h a)) l.

(* d represents s: the ring's elements, front to back, carry the items of s *)
Definition refines (d : deque) (s : spec) : Prop :=
  exists l, wf d l /\ vals (hp d) l = items s /\ trk d = strk s /\ closed d = sclosed s.

Definition sinv (s : spec) : Prop :=
  tinv (strk s) /\ t_len (strk s) = Z.of_nat (length (items s)).

Ltac same l := exists l; split; [assumption|]; split; [assumption|]; split; congruence.

Lemma wf_fresh d l : wf d l -> ~ In (nxt d) (ROOT :: l).
Proof. intros [_ B] I. specialize (B _ I). lia. Qed.

Lemma vals_ins h e n v l : ~ In n l -> vals (ins_after h e n v) l = vals h l.
Proof.
  intros N. unfold vals. apply map_ext_in. intros a I. rewrite ins_item.
  destruct (Nat.eqb_spec a n); [subst; tauto|reflexivity].
Qed.

Lemma vals_unl h it l : vals (unlink h it) l = vals h l.
Proof. unfold vals. apply map_ext. intros a. apply unl_item. Qed.

Lemma vals_app h a b : vals h (a ++ b) = vals h a ++ vals h b.
Proof. apply map_app. Qed.

Lemma contents_refines d s : refines d s -> contents d = items s.
Proof.
  intros (l & [R B] & V & _). unfold contents. rewrite <- V. apply walk_next_ring; [assumption|].
  destruct R as [N _].
  pose proof (NoDup_bounded_length (ROOT :: l) (nxt d) N B) as L. simpl in L. lia.
Qed.

Lemma contents_bwd_refines d s : refines d s -> contents_bwd d = rev (items s).
Proof.
  intros (l & [R B] & V & _). unfold contents_bwd. rewrite <- V. apply walk_prev_ring; [assumption|].
  destruct R as [N _].
  pose proof (NoDup_bounded_length (ROOT :: l) (nxt d) N B) as L. simpl in L. lia.
Qed.

(* ------------------------------------------------------------------ addAfter *)

Lemma add_after_sim d s v (back : bool) :
  refines d s -> sinv s ->
  let '(d', e) := add_after d v (if back then back_of d else ROOT) in
  let '(s', e') := s_push s v back in
  e = e' /\ refines d' s' /\ sinv s'.
Proof.
  intros (l & W & V & T & C) [TI TL]. unfold add_after, s_push. rewrite C, T.
  destruct (sclosed s) eqn:Cl.
  - split; [reflexivity|]. split; [same l|split; assumption].
  - destruct (t_add (strk s)) as [t' e] eqn:A. destruct e;
      try (split; [reflexivity|]; split; [same l|split; assumption]).
    destruct (t_add_ok _ _ TI A) as (TI' & TL' & _).
    pose proof (wf_fresh _ _ W) as Fr. destruct W as [R B].
    split; [reflexivity|]. split.
    + exists (if back then l ++ [nxt d] else nxt d :: l). simpl. split; [split|].
      * destruct back.
        -- unfold back_of. rewrite (root_prev _ _ R). apply push_back_ring; assumption.
        -- apply push_front_ring; assumption.
      * intros a I. assert (I' : a = nxt d \/ In a (ROOT :: l)).
        { destruct back; simpl in I; [rewrite in_app_iff in I; simpl in I|]; simpl; intuition (subst; auto). }
        simpl. destruct I' as [->|I']; [lia|]. specialize (B _ I'). lia.
      * assert (Nl : ~ In (nxt d) l) by (intros I; apply Fr; right; assumption).
        split; [|split; reflexivity].
        destruct back.
        -- rewrite vals_app, vals_ins by assumption. rewrite V. simpl. rewrite ins_item, Nat.eqb_refl. reflexivity.
        -- simpl. rewrite ins_item, Nat.eqb_refl. f_equal. rewrite <- V. apply vals_ins. assumption.
    + split; simpl; [assumption|]. rewrite TL', TL.
      destruct back; [rewrite app_length; simpl|simpl]; lia.
Qed.

(* ------------------------------------------------------------------ pop *)

Lemma vals_length h l : length (vals h l) = length l.
Proof. apply map_length. Qed.

Lemma pop_sim d s (back : bool) :
  refines d s -> sinv s ->
  let '(d', r) := pop d (if back then back_of d else front_of d) in
  let '(s', r') := s_pop s back in
  r = r' /\ refines d' s' /\ sinv s'.
Proof.
  intros (l & W & V & T & C) [TI TL]. unfold pop, s_pop. rewrite C.
  destruct (sclosed s) eqn:Cl; simpl.
  - split; [reflexivity|]. split; [same l|split; assumption].
  - destruct W as [R B]. pose proof (ring_root_notin _ _ R) as NR.
    unfold back_of, front_of. rewrite (root_prev _ _ R), (root_next _ _ R).
    destruct l as [|a l0].
    + (* empty *)
      simpl in V. rewrite <- V. destruct back; simpl;
        (split; [reflexivity|]; split; [exists []; split; [split; assumption|]; split; [exact V|split; congruence]|split; assumption]).
    + assert (P : 0 < t_len (strk s)).
      { rewrite TL, <- V, vals_length. simpl. lia. }
      destruct (t_remove_ok _ TI P) as (TI' & TL' & _).
      destruct back.
      * (* back: the last element of a :: l0 *)
        destruct (list_snoc_cases (a :: l0)) as [E|(l1 & it & E)]; [discriminate|].
        rewrite E in *. rewrite last_snoc.
        destruct (Nat.eqb_spec it ROOT) as [->|_].
        { exfalso. apply NR. apply in_or_app. right. left. reflexivity. }
        rewrite vals_app in V. simpl in V.
        destruct (items s) as [|x tl] eqn:EI.
        { destruct (vals (hp d) l1); discriminate. }
        rewrite <- V. rewrite last_last, removelast_last.
        rewrite unl_item. split; [reflexivity|]. split.
        -- exists l1. simpl. split; [split|].
           ++ apply pop_back_ring. assumption.
           ++ intros b I. apply B. simpl in *. rewrite in_app_iff. tauto.
           ++ split; [apply vals_unl|]. split; [rewrite T; reflexivity|reflexivity].
        -- split; simpl; [assumption|]. rewrite TL', TL, <- V, !app_length, !vals_length. simpl. lia.
      * (* front *)
        simpl hd. destruct (Nat.eqb_spec a ROOT) as [->|_].
        { exfalso. apply NR. left. reflexivity. }
        simpl in V. destruct (items s) as [|x tl] eqn:EI; [discriminate|]. inv V.
        rewrite unl_item. split; [reflexivity|]. split.
        -- exists l0. simpl. split; [split|].
           ++ apply pop_front_ring. assumption.
           ++ intros b I. apply B. simpl in *. tauto.
           ++ split; [apply vals_unl|]. split; [rewrite T; reflexivity|reflexivity].
        -- split; simpl; [assumption|]. rewrite TL', TL. simpl length. lia.
Qed.

(* ------------------------------------------------------------------ one step *)

Lemma step_sim d s o :
  refines d s -> sinv s ->
  let '(d', r) := step d o in
  let '(s', r') := s_step s o in
  r = r' /\ refines d' s' /\ sinv s'.
Proof.
  intros Rf SI.
  assert (T : trk d = strk s) by (destruct Rf as (l & _ & _ & T & _); exact T).
  assert (C : closed d = sclosed s) by (destruct Rf as (l & _ & _ & _ & C); exact C).
  destruct o as [v|v| | |v|v| | |v|v| | ]; simpl.
  - (* PushFront *)
    pose proof (add_after_sim d s v false Rf SI) as H. simpl in H.
    destruct (add_after d v ROOT) as [d' e]. destruct (s_push s v false) as [s' e'].
    destruct H as (-> & ? & ?). auto.
  - pose proof (add_after_sim d s v true Rf SI) as H. simpl in H.
    destruct (add_after d v (back_of d)) as [d' e]. destruct (s_push s v true) as [s' e'].
    destruct H as (-> & ? & ?). auto.
  - (* PopFront *)
    pose proof (pop_sim d s false Rf SI) as H. simpl in H.
    destruct (pop d (front_of d)) as [d' r]. destruct (s_pop s false) as [s' r'].
    destruct H as (-> & ? & ?). auto.
  - pose proof (pop_sim d s true Rf SI) as H. simpl in H.
    destruct (pop d (back_of d)) as [d' r]. destruct (s_pop s true) as [s' r'].
    destruct H as (-> & ? & ?). auto.
  - (* ForcePushFront *)
    rewrite T.
    assert (H1 : refines (if t_cap (strk s) =? t_len (strk s) then fst (pop d (back_of d)) else d)
                         (if t_cap (strk s) =? t_len (strk s) then fst (s_pop s true) else s)
                 /\ sinv (if t_cap (strk s) =? t_len (strk s) then fst (s_pop s true) else s)).
    { destruct (t_cap (strk s) =? t_len (strk s)); [|auto].
      pose proof (pop_sim d s true Rf SI) as H. simpl in H.
      destruct (pop d (back_of d)) as [d' r]. destruct (s_pop s true) as [s' r']. simpl. tauto. }
    destruct H1 as [Rf1 SI1].
    pose proof (add_after_sim _ _ v false Rf1 SI1) as H. simpl in H.
    destruct (add_after _ v ROOT) as [d' e]. destruct (s_push _ v false) as [s' e'].
    destruct H as (-> & ? & ?). auto.
  - (* ForcePushBack *)
    rewrite T.
    assert (H1 : refines (if t_cap (strk s) =? t_len (strk s) then fst (pop d (front_of d)) else d)
                         (if t_cap (strk s) =? t_len (strk s) then fst (s_pop s false) else s)
                 /\ sinv (if t_cap (strk s) =? t_len (strk s) then fst (s_pop s false) else s)).
    { destruct (t_cap (strk s) =? t_len (strk s)); [|auto].
      pose proof (pop_sim d s false Rf SI) as H. simpl in H.
      destruct (pop d (front_of d)) as [d' r]. destruct (s_pop s false) as [s' r']. simpl. tauto. }
    destruct H1 as [Rf1 SI1].
    pose proof (add_after_sim _ _ v true Rf1 SI1) as H. simpl in H.
    destruct (add_after _ v (back_of _)) as [d' e]. destruct (s_push _ v true) as [s' e'].
    destruct H as (-> & ? & ?). auto.
  - (* WaitFront *)
    unfold wait_pop, s_wait_pop.
    pose proof (pop_sim d s false Rf SI) as H. simpl in H.
    destruct (pop d (front_of d)) as [d' r]. destruct (s_pop s false) as [s' r'].
    destruct H as (-> & ? & ?). rewrite C. destruct r'; [auto|]. destruct (sclosed s); auto.
  - unfold wait_pop, s_wait_pop.
    pose proof (pop_sim d s true Rf SI) as H. simpl in H.
    destruct (pop d (back_of d)) as [d' r]. destruct (s_pop s true) as [s' r'].
    destruct H as (-> & ? & ?). rewrite C. destruct r'; [auto|]. destruct (sclosed s); auto.
  - (* WaitPushFront *)
    unfold wait_push, s_wait_push. rewrite T, C.
    destruct (t_len (strk s) <? t_cap (strk s)).
    + pose proof (add_after_sim d s v false Rf SI) as H. simpl in H.
      destruct (add_after d v ROOT) as [d' e]. destruct (s_push s v false) as [s' e'].
      destruct H as (-> & ? & ?). auto.
    + destruct (sclosed s); auto.
  - unfold wait_push, s_wait_push. rewrite T, C.
    destruct (t_len (strk s) <? t_cap (strk s)).
    + pose proof (add_after_sim d s v true Rf SI) as H. simpl in H.
      destruct (add_after d v (back_of d)) as [d' e]. destruct (s_push s v true) as [s' e'].
      destruct H as (-> & ? & ?). auto.
    + destruct (sclosed s); auto.
  - (* Len *) rewrite T. auto.
  - (* Close *)
    split; [reflexivity|]. split; [|exact SI].
    destruct Rf as (l & [R B] & V & _ & _). exists l. simpl. split; [split; assumption|]. split; [assumption|]. split; [assumption|reflexivity].
Qed.

(* ------------------------------------------------------------------ arbitrary operation lists *)

Lemma run_sim ops : forall d s, refines d s -> sinv s ->
  snd (run d ops) = snd (s_run s ops) /\
  refines (fst (run d ops)) (fst (s_run s ops)) /\ sinv (fst (s_run s ops)).
Proof.
  induction ops as [|o ops IH]; intros d s Rf SI; simpl; [auto|].
  pose proof (step_sim d s o Rf SI) as H.
  destruct (step d o) as [d1 r]. destruct (s_step s o) as [s1 r'].
  destruct H as (-> & Rf1 & SI1).
  specialize (IH d1 s1 Rf1 SI1).
  destruct (run d1 ops) as [d2 rs]. destruct (s_run s1 ops) as [s2 rs'].
  simpl in *. destruct IH as (-> & ? & ?). auto.
Qed.

(* ------------------------------------------------------------------ initial states *)

Lemma make_deque_refines t : tinv t -> t_len t = 0 ->
  refines (make_deque t) (spec_of_tracker t) /\ sinv (spec_of_tracker t).
Proof.
  intros TI TL. split.
  - exists []. unfold make_deque, spec_of_tracker; simpl. repeat split; auto.
    + constructor; [simpl; tauto|constructor].
    + constructor; [|constructor]. split; reflexivity.
    + intros a [<-|[]]. unfold ROOT. simpl. lia.
  - split; simpl; assumption.
Qed.

Lemma validate_q_ok q q' : validate_q q = Some q' -> 1 <= q_soft q' <= q_hard q'.
Proof.
  unfold validate_q. intros E.
  destruct (Z.leb_spec (q_hard q) 0); simpl in E; [discriminate|].
  destruct (Z.ltb_spec (q_hard q) (q_soft q)); simpl in E; [discriminate|].
  destruct (PrimFloat.ltb (q_burst q) 0); [discriminate|]. inv E. simpl.
  destruct (Z.leb_spec (q_soft q) 0); lia.
Qed.

Lemma new_tracker_ok o o' t : validate_d o = Some o' -> new_tracker o' = Some t -> tinv t /\ t_len t = 0.
Proof.
  unfold validate_d, new_tracker. intros V N.
  destruct (d_qopts o) as [q|] eqn:Q.
  - destruct (validate_q q) as [q'|] eqn:VQ; [|discriminate]. simpl in V.
    destruct (0 <? d_capacity o); [discriminate|]. destruct (d_unlimited o); [discriminate|].
    inv V. simpl in N. inv N. simpl. pose proof (validate_q_ok _ _ VQ). lia.
  - destruct (d_unlimited o && (d_capacity o =? 0)) eqn:U.
    + simpl in V. rewrite Q in V. inv V. rewrite Q in N.
      destruct (Z.ltb_spec 0 (d_capacity o')); [inv N; simpl; lia|].
      destruct (d_unlimited o'); inv N. simpl. lia.
    + destruct (Z.leb_spec (d_capacity o) 0); simpl in V.
      * destruct (d_unlimited o); [discriminate|]. inv V. simpl in N. inv N. simpl. lia.
      * rewrite Q in V. destruct (d_unlimited o) eqn:U'; [discriminate|]. inv V. rewrite Q in N.
        destruct (Z.ltb_spec 0 (d_capacity o')); [inv N; simpl; lia|lia].
Qed.

Lemma new_deque_refines o d0 : new_deque o = Some d0 ->
  refines d0 (spec_of_tracker (trk d0)) /\ sinv (spec_of_tracker (trk d0)).
Proof.
  unfold new_deque. intros E.
  destruct (validate_d o) as [o'|] eqn:V; [|discriminate].
  destruct (new_tracker o') as [t|] eqn:N; [|discriminate]. inv E.
  destruct (new_tracker_ok _ _ _ V N). simpl. apply make_deque_refines; assumption.
Qed.

(* the main refinement statement, from the constructor, over every operation list *)
Lemma deque_refines_run o d0 ops : new_deque o = Some d0 ->
  snd (run d0 ops) = snd (s_run (spec_of_tracker (trk d0)) ops) /\
  refines (fst (run d0 ops)) (fst (s_run (spec_of_tracker (trk d0)) ops)) /\
  sinv (fst (s_run (spec_of_tracker (trk d0)) ops)).
Proof. intros E. destruct (new_deque_refines _ _ E). apply run_sim; assumption. Qed.
