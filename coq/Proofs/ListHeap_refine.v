(* list_refines_seq: the effect of every operation on the value sequences abs w E l, stated with
   plain-list operations (cons, snoc, tl, removelast, insertion after a position, deletion, update,
   append, stable insertion sort, merge sort). *)
From FunV Require Import Base.Tac Base.ListX Model.SortSpec Proofs.SortSpec_proofs Model.ListHeap
  Proofs.ListHeap_ring Proofs.ListHeap_wf Proofs.ListHeap_splice Proofs.ListHeap_ops Proofs.ListHeap_obs
  Proofs.ListHeap_step Proofs.ListHeap_loops Proofs.ListHeap_sortq Proofs.ListHeap_msort Proofs.ListHeap_sortm
  Proofs.ListHeap_all.
Local Open Scope Z_scope.

(* ---------------------------------------------------------------- value-level sorts *)
Section VSort.
Variable lt : Z -> Z -> bool.

Fixpoint vins (x : Z) (l : list Z) : list Z :=
  match l with [] => [x] | y :: l' => if lt y x then y :: vins x l' else x :: y :: l' end.
Definition vsort (l : list Z) : list Z := fold_right vins [] l.

Lemma sins_vins p l : map snd (sins lt p l) = vins (snd p) (map snd l).
Proof. induction l as [|q l IH]; simpl; [reflexivity|]. destruct (lt (snd q) (snd p)); simpl; [rewrite IH|]; reflexivity. Qed.

Lemma stable_sort_vsort kv : map snd (stable_sort lt kv) = vsort (map snd kv).
Proof. induction kv as [|p kv IH]; [reflexivity|]. unfold stable_sort, vsort in *. simpl. rewrite sins_vins, IH. reflexivity. Qed.

Fixpoint vmerge (a b : list Z) : list Z :=
  match a with
  | [] => b
  | x :: a' =>
      (fix inner (b : list Z) : list Z :=
         match b with
         | [] => a
         | y :: b' => if lt x y then x :: vmerge a' b else y :: inner b'
         end) b
  end.

Fixpoint vmsort (fuel : nat) (l : list Z) : list Z :=
  match fuel with
  | O => l
  | S f => if (List.length l <? 2)%nat then l
           else let k := (List.length l - List.length l / 2)%nat in vmerge (vmsort f (skipn k l)) (vmsort f (firstn k l))
  end.

Lemma merge_ref_vmerge key a b : map key (merge_ref lt key a b) = vmerge (map key a) (map key b).
Proof.
  revert b. induction a as [|x a IHa]; intros b; [reflexivity|].
  induction b as [|y b IHb]; [destruct a; reflexivity|].
  rewrite merge_ref_cons. simpl map. cbn [vmerge]. destruct (lt (key x) (key y)).
  - simpl map. f_equal. apply IHa.
  - simpl map. f_equal. exact IHb.
Qed.

Lemma msort_ref_vmsort key fuel es : map key (msort_ref lt key fuel es) = vmsort fuel (map key es).
Proof.
  revert es. induction fuel as [|f IH]; intros es; [reflexivity|]. simpl. rewrite map_length.
  destruct (List.length es <? 2)%nat; [reflexivity|].
  rewrite merge_ref_vmerge, !IH. unfold nmoved. rewrite skipn_map, firstn_map. reflexivity.
Qed.
End VSort.

(* ---------------------------------------------------------------- bookkeeping *)
Definition others_same (w : world) (E : nat -> list nat) (w' : world) (E' : nat -> list nat) (ls : list nat) : Prop :=
  forall l0, (l0 < lfresh w)%nat -> ~ In l0 ls -> abs w' E' l0 = abs w E l0.

Lemma others_upd w E w' l es ls :
  WF w E -> pres w w' -> In l ls -> others_same w E w' (upd E l es) ls.
Proof.
  intros W P I l0 Hl0 Hn. unfold abs. rewrite upd_other by (intros ->; auto). apply (abs_pres w w' E l0 W Hl0 P).
Qed.

Lemma others_refl w E w' : WF w E -> pres w w' -> others_same w E w' E [].
Proof. intros W P l0 Hl0 _. apply (abs_pres w w' E l0 W Hl0 P). Qed.

Lemma abs_upd w E l es : abs w (upd E l es) l = items w es.
Proof. unfold abs. rewrite upd_same. reflexivity. Qed.

Lemma items_app w a b : items w (a ++ b) = items w a ++ items w b.
Proof. unfold items. apply map_app. Qed.

Lemma items_old w w' E l : WF w E -> (l < lfresh w)%nat -> pres w w' -> items w' (E l) = abs w E l.
Proof. intros W Hl P. apply (abs_pres w w' E l W Hl P). Qed.

Lemma items_sub w w' E l ns : WF w E -> (l < lfresh w)%nat -> pres w w' -> incl ns (E l) -> items w' ns = items w ns.
Proof.
  intros W Hl P I. apply items_pres; [exact P|]. pose proof (WF_elems_lt w E l W Hl) as F.
  rewrite Forall_forall in *. intros x Hx. apply F. apply I. exact Hx.
Qed.

(* ---------------------------------------------------------------- the reference effect of each operation *)
Definition popped (w' : world) (x : nat) (before : list Z) (taken : Z) : Prop :=
  nowner (nodes w' x) = None /\
  match before with
  | [] => nok (nodes w' x) = false                                   (* a fresh zero element *)
  | _ => nitem (nodes w' x) = taken /\ nok (nodes w' x) = true
  end.

Definition seq_effect (o : op) (w : world) (E : nat -> list nat) (r : out) (w' : world) (E' : nat -> list nat) : Prop :=
  let A := abs w E in let A' := abs w' E' in
  let same := others_same w E w' E' in
  match o with
  | OPushFront l v => A' l = v :: A l /\ same [l]
  | OPushBack l v => A' l = A l ++ [v] /\ same [l]
  | OPopFront l => A' l = tl (A l) /\ same [l] /\ exists x, r = RElem (Some x) /\ popped w' x (A l) (hd 0 (A l))
  | OPopBack l => A' l = removelast (A l) /\ same [l] /\ exists x, r = RElem (Some x) /\ popped w' x (A l) (last (A l) 0)
  | OFront l => same [] /\ exists x, r = RElem (Some x) /\
                 match A l with [] => lroot (lists w' l) = Some x | v :: _ => nitem (nodes w' x) = v /\ In x (E l) end
  | OBack l => same [] /\ exists x, r = RElem (Some x) /\
                 match A l with [] => lroot (lists w' l) = Some x | _ => nitem (nodes w' x) = last (A l) 0 /\ In x (E l) end
  | ONewElement v => same [] /\ exists x, r = RElem (Some x) /\ (nfresh w <= x)%nat /\
                      nodes w' x = mkNode None None None true v
  | ONext _ | OPrev _ => w' = w /\ E' = E
  | OAppend (Some e) n =>
      if can_append w e n then
        exists l nn, n = Some nn /\ r = RElem n /\ nowner (nodes w e) = Some l /\ same [l] /\
          nowner (nodes w' nn) = Some l /\
          (if is_root w e then A' l = nitem (nodes w nn) :: A l
           else exists pre suf, E l = pre ++ e :: suf /\
                  A' l = items w pre ++ nitem (nodes w e) :: nitem (nodes w nn) :: items w suf)
      else w' = w /\ E' = E /\ r = RElem (Some e)
  | OAppend None _ => w' = w /\ E' = E /\ r = RElem None
  | ORemove (Some e) =>
      if can_remove w e then
        exists l pre suf, nowner (nodes w e) = Some l /\ E l = pre ++ e :: suf /\
          A' l = items w pre ++ items w suf /\ same [l] /\ r = RBool true /\ nowner (nodes w' e) = None
      else w' = w /\ E' = E /\ r = RBool false
  | ODrop (Some e) =>
      if can_remove w e then
        exists l pre suf, nowner (nodes w e) = Some l /\ E l = pre ++ e :: suf /\
          A' l = items w pre ++ items w suf /\ same [l] /\ nowner (nodes w' e) = None /\ nok (nodes w' e) = false
      else w' = w /\ E' = E
  | ORemove None | ODrop None => False
  | OSwap _ _ => w' = w /\ E' = E /\ r = RBool false
  | OSet None _ => w' = w /\ E' = E /\ r = RBool false
  | OSet (Some e) v =>
      if is_root w e then w' = w /\ E' = E /\ r = RBool false
      else r = RBool true /\ nitem (nodes w' e) = v /\ nok (nodes w' e) = true /\
           match nowner (nodes w e) with
           | Some l => exists pre suf, E l = pre ++ e :: suf /\ A' l = items w pre ++ v :: items w suf /\ same [l]
           | None => same []
           end
  | OExtend l i => A' l = A l ++ A i /\ A' i = [] /\ same [l; i]
  | OCopy l => same [] /\ r = RCopy (Z.of_nat (List.length (A l))) (A l) (rev (A l))
  | OSlice l => same [] /\ r = RVals (A l)
  | OIter PFwd l => same [] /\ r = RVals (A l)
  | OIter PRev l => same [] /\ r = RVals (rev (A l))
  | OIter PPop l => A' l = [] /\ same [l] /\ r = RVals (A l)
  | OIter PRevPop l => A' l = [] /\ same [l] /\ r = RVals (rev (A l))
  | OJSON s d => A' d = A d ++ A s /\ same [d] /\ r = RVals (A s)
  | OSortQuick l k => A' l = vsort (lt_of k) (A l) /\ same [l]
  | OSortMerge l k => A' l = vmsort (lt_of k) (S (List.length (A l))) (A l) /\ same [l]
  | OIsSorted l k => w' = w /\ E' = E /\ r = RBool (is_sorted (lt_of k) (A l))
  end.

Definition refines (w : world) (E : nat -> list nat) (o : op) : Prop :=
  exists r w' E', step o w = Ret r w' /\ WF w' E' /\ seq_effect o w E r w' E'.

Lemma eff_push (front : bool) w E l v :
  WF w E -> (l < lfresh w)%nat -> refines w E (if front then OPushFront l v else OPushBack l v).
Proof.
  intros W Hl. destruct (Push_spec front w E l v W Hl) as (w' & n & Run & W' & Hn & Hi & Hok & P & Hlf & _).
  assert (AO : items w' (E l) = abs w E l) by (apply items_old; auto).
  destruct front; simpl in Run; unfold refines; simpl step; unfold bind; rewrite Run; do 3 eexists;
    (split; [reflexivity|]); (split; [exact W'|]); simpl; (split; [|apply others_upd; [auto|auto|left; reflexivity]]);
    rewrite abs_upd.
  - simpl. rewrite Hi. f_equal. exact AO.
  - rewrite items_app. simpl. rewrite Hi, AO. reflexivity.
Qed.

Lemma map_tl {A B} (f : A -> B) l : map f (tl l) = tl (map f l).
Proof. destruct l; reflexivity. Qed.

Lemma map_removelast {A B} (f : A -> B) l : map f (removelast l) = removelast (map f l).
Proof. induction l as [|a [|b l] IH]; try reflexivity. simpl in *. rewrite IH. reflexivity. Qed.

Lemma eff_popfront w E l : WF w E -> (l < lfresh w)%nat -> refines w E (OPopFront l).
Proof.
  intros W Hl. unfold refines. simpl step. destruct (E l) as [|x t] eqn:EQ.
  - destruct (PopFront_nil w E l W Hl EQ) as (w1 & w' & r & Run1 & _ & W1 & Run & A & W' & Fr & Hlf & Hnf & Oth & Hz).
    assert (P : pres w w') by (apply frame_pres; [split; lia|exact Fr]).
    unfold bind. rewrite Run. do 3 eexists. split; [reflexivity|]. split; [exact W'|]. simpl.
    unfold abs at 2 3. rewrite EQ. simpl. split; [unfold abs; rewrite EQ; reflexivity|].
    split; [intros l0 Hl0 _; apply (abs_pres w w' E l0 W Hl0 P)|].
    eexists. split; [reflexivity|]. unfold popped. rewrite Hz. simpl. auto.
  - destruct (PopFront_cons w E l x t W Hl EQ) as (w' & Run & W' & SD & O1 & Ox & _).
    pose proof (same_data_pres _ _ SD) as P.
    unfold bind. rewrite Run. do 3 eexists. split; [reflexivity|]. split; [exact W'|]. simpl.
    split; [|split; [apply others_upd; [auto|auto|left; reflexivity]|]].
    + rewrite abs_upd. unfold abs. rewrite EQ. simpl. apply items_sub with (E := E) (l := l); auto.
      rewrite EQ. intros y Hy. right. exact Hy.
    + eexists. split; [reflexivity|]. unfold popped, abs. rewrite EQ. simpl. split; [exact Ox|].
      rewrite (sd_item _ _ SD), (sd_ok _ _ SD). split; [reflexivity|].
      pose proof (wf_lists _ _ W l Hl) as L. destruct (lroot (lists w l)) eqn:Hr; [|destruct L; congruence].
      destruct (WF_next w E l n [] x t W Hl Hr EQ) as (_ & Okx & _). exact Okx.
Qed.

Lemma eff_popback w E l : WF w E -> (l < lfresh w)%nat -> refines w E (OPopBack l).
Proof.
  intros W Hl. unfold refines. simpl step. destruct (list_snoc_cases (E l)) as [EQ|(t & x & EQ)].
  - destruct (PopBack_nil w E l W Hl EQ) as (w1 & w' & r & Run1 & _ & W1 & Run & A & W' & Fr & Hlf & Hnf & Oth & Hz).
    assert (P : pres w w') by (apply frame_pres; [split; lia|exact Fr]).
    unfold bind. rewrite Run. do 3 eexists. split; [reflexivity|]. split; [exact W'|]. simpl.
    unfold abs at 2 3. rewrite EQ. simpl. split; [unfold abs; rewrite EQ; reflexivity|].
    split; [intros l0 Hl0 _; apply (abs_pres w w' E l0 W Hl0 P)|].
    eexists. split; [reflexivity|]. unfold popped. rewrite Hz. simpl. auto.
  - destruct (PopBack_snoc w E l x t W Hl EQ) as (w' & Run & W' & SD & O1 & Ox & _).
    pose proof (same_data_pres _ _ SD) as P.
    unfold bind. rewrite Run. do 3 eexists. split; [reflexivity|]. split; [exact W'|]. simpl.
    assert (AE : abs w E l = items w t ++ [nitem (nodes w x)]) by (unfold abs; rewrite EQ, items_app; reflexivity).
    split; [|split; [apply others_upd; [auto|auto|left; reflexivity]|]].
    + rewrite abs_upd, AE, removelast_last. apply items_sub with (E := E) (l := l); auto.
      rewrite EQ. intros y Hy. apply in_or_app. left. exact Hy.
    + eexists. split; [reflexivity|]. unfold popped. rewrite AE, last_last. split; [exact Ox|].
      destruct (items w t ++ [nitem (nodes w x)]) eqn:EE; [destruct (items w t); discriminate|].
      rewrite (sd_item _ _ SD), (sd_ok _ _ SD). split; [reflexivity|].
      pose proof (wf_lists _ _ W l Hl) as L. destruct (lroot (lists w l)) eqn:Hr; [|destruct L as [_ L]; rewrite L in EQ; destruct t; discriminate].
      destruct (WF_next w E l n t x [] W Hl Hr EQ) as (_ & Okx & _). exact Okx.
Qed.

Lemma eff_front w E l : WF w E -> (l < lfresh w)%nat -> refines w E (OFront l).
Proof.
  intros W Hl. unfold refines. simpl step.
  destruct (Front_spec w E l W Hl) as (w' & r & Run & Run1 & Hr & W').
  destruct (lazySetup_spec w E l W Hl) as (w1 & r1 & Run1' & _ & _ & Ex & _ & Fr & _).
  rewrite Run1 in Run1'. injection Run1' as <-.
  assert (P : pres w w') by (apply frame_pres; auto).
  unfold bind. rewrite Run. do 3 eexists. split; [reflexivity|]. split; [exact W'|]. simpl.
  split; [apply others_refl; auto|]. eexists. split; [reflexivity|].
  unfold abs. destruct (E l) as [|x t] eqn:EQ; simpl; [exact Hr|].
  split; [|left; reflexivity]. apply (pr_item _ _ P).
  pose proof (WF_elems_lt w E l W Hl) as F. rewrite EQ in F. inv F. auto.
Qed.

Lemma eff_back w E l : WF w E -> (l < lfresh w)%nat -> refines w E (OBack l).
Proof.
  intros W Hl. unfold refines. simpl step.
  destruct (Back_spec w E l W Hl) as (w' & r & Run & Run1 & Hr & W').
  destruct (lazySetup_spec w E l W Hl) as (w1 & r1 & Run1' & _ & _ & Ex & _ & Fr & _).
  rewrite Run1 in Run1'. injection Run1' as <-.
  assert (P : pres w w') by (apply frame_pres; auto).
  unfold bind. rewrite Run. do 3 eexists. split; [reflexivity|]. split; [exact W'|]. simpl.
  split; [apply others_refl; auto|]. eexists. split; [reflexivity|].
  unfold abs. destruct (list_snoc_cases (E l)) as [EQ|(t & x & EQ)]; rewrite EQ; simpl; [exact Hr|].
  rewrite items_app, last_last. simpl.
  destruct (items w t ++ [nitem (nodes w x)]) eqn:EE; [destruct (items w t); discriminate|].
  rewrite <- EE, last_last. split; [|apply in_or_app; right; left; reflexivity]. apply (pr_item _ _ P).
  pose proof (WF_elems_lt w E l W Hl) as F. rewrite EQ in F. apply Forall_app in F. destruct F as [_ F]. inv F. auto.
Qed.

Lemma eff_new w E v : WF w E -> refines w E (ONewElement v).
Proof.
  intros W. unfold refines. simpl step.
  destruct (alloc_WF w E (mkNode None None None true v) W eq_refl) as (w' & A & W' & Hn & Hnf & HL & Hlf & Fr).
  assert (P : pres w w') by (apply frame_pres; [split; lia|intros; apply Fr; lia]).
  unfold bind, NewElement, makeElem. rewrite A. do 3 eexists. split; [reflexivity|]. split; [exact W'|]. simpl.
  split; [apply others_refl; auto|]. eexists. split; [reflexivity|]. split; [lia|exact Hn].
Qed.

Lemma eff_append w E e n :
  WF w E -> (e < nfresh w)%nat -> rvalid w n -> refines w E (OAppend (Some e) n).
Proof.
  intros W He Hn. unfold refines. simpl step. simpl seq_effect. destruct (can_append w e n) eqn:C.
  - destruct n as [nn|]; [|discriminate].
    destruct (Append_accept w E e nn W He Hn C) as (l & r & w' & Ho & Hl & Hr & Hin & Hon & Hokn & Run & W' & SD & O1 & O2 & _).
    pose proof (same_data_pres _ _ SD) as P.
    unfold bind. rewrite Run. do 3 eexists. split; [reflexivity|]. split; [exact W'|].
    exists l, nn. split; [reflexivity|]. split; [reflexivity|]. split; [exact Ho|].
    split; [apply others_upd; [auto|auto|left; reflexivity]|]. split; [exact O2|].
    pose proof (wf_lists _ _ W l Hl) as L. rewrite Hr in L. destruct L as [[ND _] _ _ _].
    assert (IT : forall ns, incl ns (nn :: E l) -> items w' ns = items w ns).
    { intros ns I. unfold items. apply map_ext_in. intros x Hx. apply (sd_item _ _ SD). }
    unfold is_root. rewrite Ho, Hr. simpl. rewrite abs_upd.
    destruct (ins_cyc_cases e nn r (E l) ND Hin) as [[-> ->]|(Hner & pre & suf & EQ & ->)].
    + rewrite Nat.eqb_refl. rewrite IT by (intros x Hx; exact Hx). reflexivity.
    + destruct (Nat.eqb_spec r e); [congruence|]. exists pre, suf. split; [exact EQ|].
      rewrite IT; [rewrite items_app; reflexivity|].
      rewrite EQ. intros x Hx. apply in_app_or in Hx. destruct Hx as [Hx|[<-|[<-|Hx]]].
      * right. apply in_or_app. auto.
      * right. apply in_or_app. right. left. reflexivity.
      * left. reflexivity.
      * right. apply in_or_app. right. right. exact Hx.
  - unfold bind. rewrite (Append_reject _ _ _ C). do 3 eexists. split; [reflexivity|]. split; [exact W|]. auto.
Qed.

Lemma split_del w E l r e : WF w E -> (l < lfresh w)%nat -> lroot (lists w l) = Some r -> In e (E l) ->
  exists pre suf, E l = pre ++ e :: suf /\ del e (E l) = pre ++ suf.
Proof.
  intros W Hl Hr Hin. pose proof (wf_lists _ _ W l Hl) as L. rewrite Hr in L. destruct L as [[ND _] _ _ _].
  destruct (in_split _ _ Hin) as (pre & suf & EQ). exists pre, suf. split; [exact EQ|].
  rewrite EQ. apply del_split. rewrite EQ in ND. inv ND. apply NoDup_mid_notin in H2. intros I. apply H2. apply in_or_app. auto.
Qed.

Lemma eff_remove w E e : WF w E -> (e < nfresh w)%nat -> refines w E (ORemove (Some e)).
Proof.
  intros W He. unfold refines. simpl step. simpl seq_effect. destruct (can_remove w e) eqn:C.
  - destruct (Remove_accept w E e W He C) as (l & r & w' & Hl & Hr & Ho & Hin & Run & W' & SD & O1 & O2 & _).
    pose proof (same_data_pres _ _ SD) as P.
    destruct (split_del w E l r e W Hl Hr Hin) as (pre & suf & EQ & DE).
    unfold bind. rewrite Run. do 3 eexists. split; [reflexivity|]. split; [exact W'|].
    exists l, pre, suf. split; [exact Ho|]. split; [exact EQ|]. split.
    { rewrite abs_upd, DE, items_app. unfold items. f_equal; apply map_ext; intros; apply (sd_item _ _ SD). }
    split; [apply others_upd; [auto|auto|left; reflexivity]|]. auto.
  - unfold bind. rewrite (Remove_reject _ _ C). do 3 eexists. split; [reflexivity|]. split; [exact W|]. auto.
Qed.

Lemma eff_drop w E e : WF w E -> (e < nfresh w)%nat -> refines w E (ODrop (Some e)).
Proof.
  intros W He. unfold refines. simpl step. simpl seq_effect. destruct (can_remove w e) eqn:C.
  - destruct (Drop_accept w E e W He C) as (l & r & w' & Hl & Hr & Ho & Hin & Run & W' & Keep & O2 & Ok2 & It2 & Hnf & Hlf & _).
    destruct (split_del w E l r e W Hl Hr Hin) as (pre & suf & EQ & DE).
    pose proof (wf_lists _ _ W l Hl) as L. rewrite Hr in L. destruct L as [[ND _] _ _ _].
    assert (NE : ~ In e (pre ++ suf)) by (rewrite EQ in ND; inv ND; apply NoDup_mid_notin in H2; exact H2).
    unfold bind. rewrite Run. do 3 eexists. split; [reflexivity|]. split; [exact W'|].
    exists l, pre, suf. split; [exact Ho|]. split; [exact EQ|]. split.
    { rewrite abs_upd, DE. rewrite <- items_app. unfold items. apply map_ext_in. intros x Hx. apply (Keep x). intros ->. auto. }
    split; [|auto].
    intros l0 Hl0 Hn. unfold abs. rewrite upd_other by (intros ->; apply Hn; left; reflexivity).
    unfold items. apply map_ext_in. intros x Hx. apply (Keep x). intros ->.
    pose proof (wf_lists _ _ W l0 Hl0) as L0. destruct (lroot (lists w l0)) as [r0|] eqn:Hr0.
    + destruct (WF_elem_in _ _ _ _ _ W Hl0 Hr0 (or_intror Hx)) as [Ho0 _].
      assert (l0 = l) by congruence. subst. apply Hn. left. reflexivity.
    + destruct L0 as [_ L0]. rewrite L0 in Hx. destruct Hx.
  - unfold bind. rewrite (Drop_reject _ _ C). do 3 eexists. split; [reflexivity|]. split; [exact W|]. auto.
Qed.

Lemma eff_set w E e v : WF w E -> (e < nfresh w)%nat -> refines w E (OSet (Some e) v).
Proof.
  intros W He. unfold refines. simpl step. simpl seq_effect. unfold bind. rewrite SetV_run.
  destruct (is_root w e) eqn:R.
  - do 3 eexists. split; [reflexivity|]. split; [exact W|]. auto.
  - destruct (set_world_fields w e v) as (Hi & Hok & Fr & Ho & HL & Hnf & Hlf).
    exists (RBool true), (set_world w e v), E. split; [reflexivity|]. split; [apply set_world_WF; auto|].
    split; [reflexivity|]. split; [exact Hi|]. split; [exact Hok|].
    assert (IT : forall ns, ~ In e ns -> items (set_world w e v) ns = items w ns).
    { intros ns Hn. unfold items. apply map_ext_in. intros x Hx. rewrite Fr; [reflexivity|]. intros ->. auto. }
    destruct (nowner (nodes w e)) as [l|] eqn:Hoe.
    + destruct (WF_owner_inv _ _ _ _ W He Hoe) as (Hl & r & Hr & Hin & L).
      unfold is_root in R. rewrite Hoe, Hr in R. simpl in R.
      destruct Hin as [->|Hin]; [rewrite Nat.eqb_refl in R; discriminate|].
      destruct L as [[ND _] _ _ _].
      destruct (in_split _ _ Hin) as (pre & suf & EQ). exists pre, suf. split; [exact EQ|].
      assert (NE : ~ In e pre /\ ~ In e suf).
      { rewrite EQ in ND. inv ND. apply NoDup_mid_notin in H2. split; intros I; apply H2; apply in_or_app; auto. }
      split.
      * unfold abs. rewrite EQ, items_app.
        change (items (set_world w e v) (e :: suf)) with (nitem (nodes (set_world w e v) e) :: items (set_world w e v) suf).
        rewrite Hi, !IT by tauto. reflexivity.
      * intros l0 Hl0 Hn. unfold abs. apply IT. intros I.
        pose proof (wf_lists _ _ W l0 Hl0) as L0. destruct (lroot (lists w l0)) as [r0|] eqn:Hr0.
        -- destruct (WF_elem_in _ _ _ _ _ W Hl0 Hr0 (or_intror I)) as [Ho0 _].
           assert (l0 = l) by congruence. subst. apply Hn. left. reflexivity.
        -- destruct L0 as [_ L0]. rewrite L0 in I. destruct I.
    + intros l0 Hl0 _. unfold abs. apply IT. intros I.
      pose proof (wf_lists _ _ W l0 Hl0) as L0. destruct (lroot (lists w l0)) as [r0|] eqn:Hr0.
      * destruct (WF_elem_in _ _ _ _ _ W Hl0 Hr0 (or_intror I)) as [Ho0 _]. congruence.
      * destruct L0 as [_ L0]. rewrite L0 in I. destruct I.
Qed.

Lemma eff_extend w E l i : WF w E -> (l < lfresh w)%nat -> (i < lfresh w)%nat -> l <> i -> refines w E (OExtend l i).
Proof.
  intros W Hl Hi Hne. unfold refines. simpl step.
  destruct (Extend_spec w E l i W Hl Hi Hne) as (w' & Run & W' & P & _).
  unfold bind. rewrite Run. do 3 eexists. split; [reflexivity|]. split; [exact W'|]. simpl.
  split; [|split].
  - unfold abs. rewrite upd_other by auto. rewrite upd_same, items_app.
    rewrite (items_old w w' E l), (items_old w w' E i); auto.
  - unfold abs. rewrite upd_same. reflexivity.
  - intros l0 Hl0 Hn. unfold abs. rewrite !upd_other by (intros ->; apply Hn; simpl; auto).
    apply (abs_pres w w' E l0 W Hl0 P).
Qed.

Lemma eff_copy w E l : WF w E -> (l < lfresh w)%nat -> refines w E (OCopy l).
Proof.
  intros W Hl. unfold refines. simpl step.
  destruct (Copy_spec w E l W Hl) as (w' & ns & Run & W' & I & P & Hlf & _).
  set (out := lfresh w) in *. set (E' := upd E out ns) in *.
  assert (Ho : (out < lfresh w')%nat) by lia.
  destruct (obs_WF w' E' out W' Ho) as (F & B & Len).
  assert (AO : abs w' E' out = abs w E l) by (unfold abs, E'; rewrite upd_same; exact I).
  unfold bind. rewrite Run. unfold get. exists (RCopy (llen (lists w' out)) (fwd_vals w' out) (bwd_vals w' out)), w', E'.
  split; [reflexivity|]. split; [exact W'|]. simpl. split.
  - intros l0 Hl0 _. unfold abs, E'. rewrite upd_other by (unfold out; lia). apply (abs_pres w w' E l0 W Hl0 P).
  - rewrite F, B, Len, AO. reflexivity.
Qed.

Lemma lazy_pres w E l w' : WF w E -> (l < lfresh w)%nat -> lazySetup l w = Ret tt w' -> WF w' E /\ pres w w'.
Proof.
  intros W Hl Run. destruct (lazySetup_spec w E l W Hl) as (w1 & r & Run1 & W1 & _ & Ex & _ & Fr & _).
  rewrite Run in Run1. injection Run1 as <-. split; [exact W1|apply frame_pres; auto].
Qed.

Lemma eff_iter_nd (rev_ : bool) w E l :
  WF w E -> (l < lfresh w)%nat -> refines w E (OIter (if rev_ then PRev else PFwd) l) /\ (rev_ = false -> refines w E (OSlice l)).
Proof.
  intros W Hl. destruct rev_.
  - split; [|discriminate]. unfold refines. simpl step.
    destruct (Iterate_rev_WF w E l W Hl) as (w' & Run & Run1). destruct (lazy_pres w E l w' W Hl Run1) as [W' P].
    unfold bind. rewrite Run. do 3 eexists. split; [reflexivity|]. split; [exact W'|]. simpl.
    split; [apply others_refl; auto|reflexivity].
  - destruct (Iterate_fwd_WF w E l W Hl) as (w' & Run & Run1). destruct (lazy_pres w E l w' W Hl Run1) as [W' P].
    split; [|intros _]; unfold refines; simpl step; unfold bind, SliceL; rewrite Run; do 3 eexists;
      (split; [reflexivity|]); (split; [exact W'|]); simpl; (split; [apply others_refl; auto|reflexivity]).
Qed.

Lemma eff_iter_pop (front : bool) w E l :
  WF w E -> (l < lfresh w)%nat -> refines w E (OIter (if front then PPop else PRevPop) l).
Proof.
  intros W Hl. unfold refines. simpl step.
  destruct (Iterate_pop_WF front w E l W Hl) as (w' & Run & W' & P & _).
  destruct front; simpl in Run; unfold bind; rewrite Run; do 3 eexists; (split; [reflexivity|]); (split; [exact W'|]); simpl;
    (split; [apply abs_upd|]); (split; [apply others_upd; [auto|auto|left; reflexivity]|reflexivity]).
Qed.

Lemma eff_json w E s d : WF w E -> (s < lfresh w)%nat -> (d < lfresh w)%nat -> refines w E (OJSON s d).
Proof.
  intros W Hs Hd. unfold refines. simpl step. unfold bind. rewrite (MarshalJSON_spec w E s W Hs).
  destruct (UnmarshalJSON_spec w E d (abs w E s) W Hd) as (w' & ns & Run & W' & I & P & _).
  rewrite Run. do 3 eexists. split; [reflexivity|]. split; [exact W'|]. simpl.
  split; [|split; [apply others_upd; [auto|auto|left; reflexivity]|reflexivity]].
  rewrite abs_upd, items_app, I. rewrite (items_old w w' E d); auto.
Qed.

Lemma items_of_pairs w w' E l ps :
  WF w E -> (l < lfresh w)%nat -> pres w w' -> Permutation ps (keyed w (E l)) ->
  items w' (map fst ps) = map snd ps.
Proof.
  intros W Hl P PM. unfold items. rewrite map_map. apply map_ext_in. intros p Hp.
  apply (Permutation_in _ PM) in Hp. unfold keyed in Hp. apply in_map_iff in Hp. destruct Hp as (n & <- & Hn). simpl.
  apply (pr_item _ _ P). pose proof (WF_elems_lt w E l W Hl) as F. rewrite Forall_forall in F. auto.
Qed.

Lemma eff_sortquick w E l k : WF w E -> (l < lfresh w)%nat -> refines w E (OSortQuick l k).
Proof.
  intros W Hl. unfold refines. simpl step.
  destruct (SortQuickWith_spec (stable_sort (lt_of k)) (stable_sort_perm (lt_of k)) w E l W Hl) as (w' & Run & W' & P & _).
  unfold bind, SortQuick. rewrite Run. do 3 eexists. split; [reflexivity|]. split; [exact W'|]. simpl.
  split; [|apply others_upd; [auto|auto|left; reflexivity]].
  rewrite abs_upd. rewrite (items_of_pairs w w' E l _ W Hl P (stable_sort_perm _ _)).
  rewrite stable_sort_vsort. f_equal. unfold keyed, abs, items. rewrite map_map. reflexivity.
Qed.

Lemma eff_sortmerge w E l k : WF w E -> (l < lfresh w)%nat -> refines w E (OSortMerge l k).
Proof.
  intros W Hl. unfold refines. simpl step.
  destruct (SortMerge_spec (lt_of k) w E l W Hl) as (w' & E' & Run & W' & P & Hlf & EQ & Oth).
  unfold bind. rewrite Run. do 3 eexists. split; [reflexivity|]. split; [exact W'|]. unfold seq_effect. split.
  - set (key := fun x => nitem (nodes w x)) in *.
    assert (AK : abs w' E' l = map key (E' l)).
    { unfold abs, items. apply map_ext_in. intros x Hx. apply (pr_item _ _ P).
      pose proof (WF_elems_lt w E l W Hl) as F. rewrite Forall_forall in F. apply F.
      rewrite EQ in Hx. apply (Permutation_in _ (msort_ref_perm _ _ _ _)) in Hx. exact Hx. }
    rewrite AK, EQ, msort_ref_vmsort.
    change (abs w E l) with (map key (E l)). rewrite map_length. reflexivity.
  - intros l0 Hl0 Hn. assert (Hne : l0 <> l) by (intros ->; apply Hn; left; reflexivity).
    destruct (Oth l0 Hl0 Hne) as [A _]. unfold abs. rewrite A. apply (abs_pres w w' E l0 W Hl0 P).
Qed.

(* ---------------------------------------------------------------- all operations *)
Theorem refines_all w E o :
  WF w E -> op_valid w o -> avoids_swap w o = true -> nil_receiver w o = false -> refines w E o.
Proof.
  intros W V AS NR. destruct o; simpl in V.
  - apply (eff_push true); auto.
  - apply (eff_push false); auto.
  - apply eff_popfront; auto.
  - apply eff_popback; auto.
  - apply eff_front; auto.
  - apply eff_back; auto.
  - apply eff_new; auto.
  - destruct e as [e|]; [|discriminate]. unfold refines. simpl. unfold bind, Next, fld. mrun. eauto 10.
  - destruct e as [e|]; [|discriminate]. unfold refines. simpl. unfold bind, Previous, fld. mrun. eauto 10.
  - destruct V as [Ve Vn]. destruct e as [e|]; [apply eff_append; auto|].
    unfold refines. simpl. destruct n as [nn|].
    + simpl in NR. unfold bind, Append, appendable. simpl. unfold bind. simpl. rewrite NR. simpl. eauto 10.
    + unfold bind, Append, appendable. simpl. eauto 10.
  - destruct e as [e|]; [apply eff_remove; auto|discriminate].
  - destruct e as [e|]; [apply eff_drop; auto|discriminate].
  - simpl in AS. apply negb_true_iff in AS. unfold refines. simpl. unfold bind. rewrite (Swap_reject _ _ _ AS). eauto 10.
  - destruct e as [e|]; [apply eff_set; auto|]. unfold refines. simpl. unfold bind. simpl. eauto 10.
  - destruct V as (V1 & V2 & V3). apply eff_extend; auto.
  - apply eff_copy; auto.
  - apply (eff_iter_nd false); auto.
  - destruct k.
    + apply (eff_iter_nd false); auto.
    + apply (eff_iter_nd true); auto.
    + apply (eff_iter_pop true); auto.
    + apply (eff_iter_pop false); auto.
  - destruct V. apply eff_json; auto.
  - apply eff_sortquick; auto.
  - apply eff_sortmerge; auto.
  - unfold refines. simpl. unfold bind. rewrite (IsSorted_spec (lt_of ltk) w E l W V). eauto 10.
Qed.
