(* Shared lemmas and tactics for the broker proofs: list-set helpers, `before`, reachability,
   step inversion. *)
From FunV Require Import Base.Tac Model.BrokerModel.

(* ---------- list-set helpers *)
Lemma memb_In : forall x l, memb x l = true <-> In x l.
Proof.
  unfold memb; intros; rewrite existsb_exists; split.
  - intros [y [Hy E]]. apply Nat.eqb_eq in E; subst; auto.
  - intros H; exists x; split; auto. apply Nat.eqb_refl.
Qed.

Lemma memb_false : forall x l, memb x l = false <-> ~ In x l.
Proof.
  intros; rewrite <- memb_In. destruct (memb x l); split; intros; try discriminate; auto.
  exfalso; auto.
Qed.

Lemma In_rem : forall x y l, In y (rem x l) <-> In y l /\ y <> x.
Proof.
  induction l as [|z l IH]; simpl; [tauto|].
  destruct (Nat.eqb_spec x z); simpl; rewrite IH; split; intros; intuition (subst; auto); congruence.
Qed.

Lemma NoDup_rem : forall x l, NoDup l -> NoDup (rem x l).
Proof.
  induction l as [|z l IH]; simpl; intros H; [constructor|]. inv H.
  destruct (Nat.eqb_spec x z); auto. constructor; auto. rewrite In_rem; tauto.
Qed.

Lemma rem_notin : forall x l, ~ In x l -> rem x l = l.
Proof.
  induction l as [|z l IH]; simpl; intros H; auto.
  destruct (Nat.eqb_spec x z); [subst; tauto|]. f_equal; apply IH; tauto.
Qed.

Lemma In_sadd : forall x y l, In y (sadd x l) <-> y = x \/ In y l.
Proof.
  unfold sadd; intros. destruct (memb x l) eqn:E.
  - apply memb_In in E. split; intros; auto. destruct H; subst; auto.
  - rewrite in_app_iff; simpl; intuition.
Qed.

Lemma subset_incl : forall a b, subset a b = true <-> incl a b.
Proof.
  unfold subset, incl; intros; rewrite forallb_forall. split; intros H x Hx.
  - apply memb_In; auto.
  - apply memb_In; auto.
Qed.

Lemma subset_false : forall a b, subset a b = false -> exists x, In x a /\ ~ In x b.
Proof.
  induction a as [|x a IH]; simpl; intros b H; [discriminate|].
  destruct (memb x b) eqn:E; simpl in H.
  - destruct (IH _ H) as [y [Hy Hn]]. exists y; auto.
  - exists x; split; auto. apply memb_false; auto.
Qed.

Lemma is_nil_true : forall A (l : list A), is_nil l = true <-> l = [].
Proof. destruct l; simpl; split; intros; congruence. Qed.

Lemma upd_same : forall A (f : nat -> A) k v, upd f k v k = v.
Proof. intros; unfold upd; rewrite Nat.eqb_refl; auto. Qed.

Lemma upd_other : forall A (f : nat -> A) k v x, x <> k -> upd f k v x = f x.
Proof. intros; unfold upd. destruct (Nat.eqb_spec x k); congruence. Qed.

Lemma NoDup_app_intro : forall (a b : list nat), NoDup a -> NoDup b -> (forall x, In x a -> ~ In x b) -> NoDup (a ++ b).
Proof.
  induction a as [|x a IH]; simpl; intros; auto. inv H.
  constructor; [rewrite in_app_iff; intros [?|?]; [tauto| eapply H1; eauto]|].
  apply IH; auto.
Qed.

Lemma NoDup_snoc : forall (a : list nat) x, NoDup a -> ~ In x a -> NoDup (a ++ [x]).
Proof.
  intros. apply NoDup_app_intro; auto. constructor; auto; constructor.
  intros y Hy [E|[]]; subst; auto.
Qed.

Lemma NoDup_app_l : forall (a b : list nat), NoDup (a ++ b) -> NoDup a.
Proof. induction a; simpl; intros; [constructor|]. inv H. constructor; eauto. rewrite in_app_iff in H2; tauto. Qed.

Lemma NoDup_app_r : forall (a b : list nat), NoDup (a ++ b) -> NoDup b.
Proof. induction a; simpl; intros; auto. inv H; auto. Qed.

Lemma NoDup_app_disj : forall (a b : list nat) x, NoDup (a ++ b) -> In x a -> In x b -> False.
Proof.
  induction a; simpl; intros; [tauto|]. inv H. destruct H0; subst.
  - apply H4; rewrite in_app_iff; auto.
  - eauto.
Qed.

(* ---------- before l a b : a occurs strictly before b in l *)
Definition before (l : list nat) (a b : nat) : Prop := exists l1 l2 l3, l = l1 ++ a :: l2 ++ b :: l3.

Lemma before_app_r : forall l r a b, before l a b -> before (l ++ r) a b.
Proof.
  intros l r a b (l1 & l2 & l3 & ->). exists l1, l2, (l3 ++ r).
  repeat (rewrite <- app_assoc; simpl). reflexivity.
Qed.

Lemma before_app_l : forall l r a b, before r a b -> before (l ++ r) a b.
Proof.
  intros l r a b (l1 & l2 & l3 & ->). exists (l ++ l1), l2, l3. rewrite <- app_assoc; reflexivity.
Qed.

Lemma before_snoc : forall l a b, In a l -> before (l ++ [b]) a b.
Proof.
  intros l a b H. apply in_split in H as (l1 & l2 & ->). exists l1, l2, [].
  rewrite <- app_assoc; reflexivity.
Qed.

Lemma before_In : forall l a b, before l a b -> In a l /\ In b l.
Proof.
  intros l a b (l1 & l2 & l3 & ->); split; rewrite in_app_iff; simpl; auto.
  right; right. rewrite in_app_iff; simpl; auto.
Qed.

Lemma before_cons : forall x l a b, before l a b -> before (x :: l) a b.
Proof. intros. apply (before_app_l [x]); auto. Qed.

Lemma before_cons_inv : forall x l a b, before (x :: l) a b -> (x = a /\ In b l) \/ before l a b.
Proof.
  intros x l a b (l1 & l2 & l3 & E). destruct l1 as [|y l1]; simpl in E; inv E.
  - left; split; auto. rewrite in_app_iff; simpl; auto.
  - right. exists l1, l2, l3; auto.
Qed.

Lemma before_cons_head : forall x l b, In b l -> before (x :: l) x b.
Proof. intros. apply in_split in H as (l1 & l2 & ->). exists [], l1, l2; reflexivity. Qed.

(* removing one element keeps the relative order of the others *)
Lemma before_remove_mid : forall l1 x l2 a b, before (l1 ++ l2) a b -> before (l1 ++ x :: l2) a b.
Proof.
  induction l1 as [|y l1 IH]; simpl; intros.
  - apply before_cons; auto.
  - apply before_cons_inv in H as [[-> Hb]|H].
    + apply before_cons_head. rewrite in_app_iff in *; simpl; tauto.
    + apply before_cons; auto.
Qed.

Lemma before_irrefl_nodup : forall l a, NoDup l -> ~ before l a a.
Proof.
  intros l a H (l1 & l2 & l3 & ->). apply NoDup_app_r in H. inv H.
  apply H2. rewrite in_app_iff; simpl; auto.
Qed.

Lemma before_asym : forall l a b, NoDup l -> before l a b -> before l b a -> False.
Proof.
  induction l as [|x l IH]; intros a b H H1 H2.
  - destruct H1 as (l1 & ? & ? & E); destruct l1; discriminate.
  - inv H. apply before_cons_inv in H1 as [[-> Hb]|H1]; apply before_cons_inv in H2 as [[E Ha]|H2]; subst.
    + tauto.
    + apply before_In in H2; tauto.
    + apply before_In in H1; tauto.
    + eauto.
Qed.

(* ---------- reachability *)
Section Reach.
Variable c : cfg.
Variable wake : state -> nat -> bool.

Inductive reach : state -> Prop :=
| reach_init : reach init
| reach_step : forall st e st', reach st -> step c wake st e = Some st' -> reach st'.

Inductive reach_tr : list event -> state -> Prop :=
| rt_init : reach_tr [] init
| rt_step : forall tr st e st', reach_tr tr st -> step c wake st e = Some st' -> reach_tr (tr ++ [e]) st'.

Lemma reach_tr_reach : forall tr st, reach_tr tr st -> reach st.
Proof. induction 1; econstructor; eauto. Qed.

Lemma reach_has_tr : forall st, reach st -> exists tr, reach_tr tr st.
Proof. induction 1 as [|st e st' _ [tr IH] H]; [exists []; constructor| exists (tr ++ [e]); econstructor; eauto]. Qed.

Lemma run_app : forall es1 es2 st, run c wake st (es1 ++ es2) =
  match run c wake st es1 with Some st' => run c wake st' es2 | None => None end.
Proof. induction es1; simpl; intros; auto. destruct (step c wake st a); auto. Qed.

Lemma run_reach : forall es st st', reach st -> run c wake st es = Some st' -> reach st'.
Proof.
  induction es as [|e es IH]; simpl; intros st st' R H; [inv H; auto|].
  destruct (step c wake st e) eqn:E; [|discriminate]. eapply IH; [|eauto]. econstructor; eauto.
Qed.

Lemma run_reach_tr : forall es st', run c wake init es = Some st' -> reach_tr es st'.
Proof.
  induction es as [|e es IH] using rev_ind; simpl; intros st' H; [inv H; constructor|].
  rewrite run_app in H. destruct (run c wake init es) eqn:E; [|discriminate]. simpl in H.
  destruct (step c wake s e) eqn:E2; inv H. econstructor; eauto.
Qed.

Definition quiescent (st : state) : Prop := forall e, internal e = true -> step c wake st e = None.

End Reach.

(* ---------- step inversion: one goal per way an event can fire *)
Ltac step_inv H :=
  unfold step in H;
  match type of H with (match ?e with _ => _ end) = Some _ => destruct e end;
  try discriminate H;
  repeat (match type of H with
          | context [match ?x with _ => _ end] =>
              match x with
              | context [match _ with _ => _ end] => fail 1
              | _ => destruct x eqn:?
              end
          | context [if ?x then _ else _] =>
              match x with
              | context [if _ then _ else _] => fail 1
              | context [match _ with _ => _ end] => fail 1
              | _ => destruct x eqn:?
              end
          end; try discriminate H);
  injection H as <-.

Ltac sunfold := unfold do_unsub, set_live, set_loop, set_subs, set_subq, set_unsubq, set_dist, set_wk, set_ch, set_rcv,
  set_call, set_cctx, set_sigready, set_pubd, set_issued, set_created, set_unsubcalled, set_owed, set_acc,
  set_taken, set_done, set_evicted, set_dropped, set_skipped.
(* the successor state only occurs in the goal (step_inv substitutes it there) *)
Ltac ssimpl := sunfold; simpl in *.

Ltac boolp := repeat match goal with
  | H : _ && _ = true |- _ => apply andb_true_iff in H as [? ?]
  | H : negb _ = true |- _ => apply negb_true_iff in H
  | H : negb _ = false |- _ => apply negb_false_iff in H
  | H : memb _ _ = true |- _ => apply memb_In in H
  | H : memb _ _ = false |- _ => apply memb_false in H
  | H : is_nil _ = true |- _ => apply is_nil_true in H
  end.

Lemma del_must_busy : forall s w m r v mu p,
  del_must s w = WBusy m r v mu p -> exists mu0, w = WBusy m r v mu0 p /\ mu = rem s mu0.
Proof. destruct w; simpl; intros; try discriminate. inv H. eauto. Qed.

Lemma del_must_not_busy : forall s w, (forall m r v mu p, w <> WBusy m r v mu p) -> del_must s w = w.
Proof. destruct w; simpl; intros; auto. exfalso; eapply H; eauto. Qed.

Ltac upd_cases :=
  repeat match goal with
  | H : context [upd _ ?k _ ?x] |- _ => unfold upd in H; destruct (Nat.eqb_spec x k); subst
  | |- context [upd _ ?k _ ?x] => unfold upd; destruct (Nat.eqb_spec x k); subst
  end.

Ltac busy_unsub :=
  repeat match goal with
  | H : del_must _ _ = WBusy _ _ _ _ _ |- _ => apply del_must_busy in H as (? & H & ?); subst
  end.

Ltac winv := repeat match goal with H : WBusy _ _ _ _ _ = WBusy _ _ _ _ _ |- _ => inv H end.

Ltac wsolve := intros; upd_cases; winv; try congruence; eauto;
  try (exfalso; match goal with n : _ <> _ |- _ => apply n; eauto; symmetry; eauto end).
