(* fun.WaitGroup as an instance of Conc/Monitor.v: discipline side conditions, the instantiated theorems,
   the refutation of the cancellation half for the code as it is, non-vacuity examples. *)
From FunV Require Import Base.Tac Conc.Monitor Model.WaitGroupModel Proofs.WaitGroup_seq.
Open Scope Z_scope.

Definition is_wait (o : wg_op) : bool := match o with WWait | WWaitCancelled => true | _ => false end.

Lemma compile_waiter o w : compile o = OWaiter w -> w = wait_spec /\ is_wait o = true.
Proof. destruct o; simpl; intros H; inversion H; auto. Qed.

Lemma is_wait_compile o : is_wait o = true -> compile o = OWaiter wait_spec.
Proof. destruct o; simpl; intros H; try discriminate; reflexivity. Qed.

Lemma compile_effect o e :
  compile o = OEffect e -> (exists n, delta_of o = Some n /\ e = add_body n) \/ (delta_of o = None /\ e = read_body).
Proof. destruct o; simpl; intros H; inversion H; eauto. Qed.

Lemma add_body_spec n c :
  add_body n c = if 0 <=? c + n then (c + n, if c + n =? 0 then [Broadcast wg_cond] else []) else (c, []).
Proof. unfold add_body, wg_add. destruct (0 <=? c + n); reflexivity. Qed.

(* ---- side condition of the Broadcast discipline: Add broadcasts whenever it makes the counter zero *)
Lemma wg_bcast_discipline p : bcast_discipline Z (wg_prog p) wg_cond.
Proof.
  intros t b Hb d u w Hu _ Hf Ht.
  apply compile_waiter in Hu. destruct Hu as [-> _]. unfold w_wake in *. simpl in *.
  rewrite orb_false_r in *.
  destruct Hb as [Hb|(w' & Hb & ->)].
  - apply compile_effect in Hb. destruct Hb as [(n & _ & ->)|(_ & ->)].
    + rewrite add_body_spec in *. destruct (0 <=? d + n); simpl in *; [|congruence].
      rewrite Ht. left. reflexivity.
    + simpl in Ht. congruence.
  - apply compile_waiter in Hb. destruct Hb as [-> _]. simpl in Ht. congruence.
Qed.

(* ---- C14: Wait returns only if the counter is zero or its context has ended *)
Lemma wait_returns_only_if_zero_or_ctx_lemma p s l s' t r :
  wg_reachable p s -> wg_mstep p s l s' -> is_wait (p t) = true ->
  thr s t <> Done r -> thr s' t = Done r ->
  lock s = Some t /\ dat s' = dat s /\
  ((r = ROk /\ dat s = 0) \/ (r = RCancelled /\ dat s <> 0 /\ ended s t = true)).
Proof.
  intros R St Hw Hn Hd.
  pose proof (mon_safety Z (wg_prog p) 0 wg_helper_locked any_step s l s' t wait_spec r R St
                (is_wait_compile _ Hw) Hn Hd) as V.
  destruct r; simpl in V.
  - destruct V as (HL & HP & Hdat). apply Z.eqb_eq in HP. repeat split; auto.
  - destruct V as (_ & _ & X & _). discriminate.
  - destruct V as (HL & He & Hdat). repeat split; auto. right. repeat split; auto.
    (* the verdict RCancelled is only produced when the predicate was false *)
    inversion St; subst; simpl in *;
      try (destruct (Nat.eq_dec t t0) as [->|N];
           [rewrite upd_same in Hd; try discriminate|rewrite upd_other in Hd by auto; try contradiction]).
    all: try (exfalso; match goal with H : sigs_steps _ _ _ _ _ |- _ =>
                         destruct (sigs_cases _ _ _ _ _ t H) as [E|[_ E]]; congruence end).
    all: try (exfalso; destruct (wake_all_cases Z (wg_prog p) c (thr s) t) as [E|(_ & _ & E)]; congruence).
    all: try contradiction; try congruence.
    unfold wg_prog in H. rewrite (is_wait_compile _ Hw) in H. inversion H; subst. simpl in H1.
    apply Z.eqb_neq. exact H1.
Qed.

(* ---- C14: every waiter is released when the counter reaches zero.  In EVERY reachable state (any number of
   waiters and workers, any schedule, any number of rounds) no thread is parked — or about to park — in Wait while
   the counter is zero. *)
Lemma wait_released_at_zero_lemma p s t :
  wg_reachable p s -> is_wait (p t) = true -> (thr s t = Parking \/ thr s t = Parked) -> dat s <> 0.
Proof.
  intros R Hw Hs.
  pose proof (mon_parked_not_enabled Z (wg_prog p) 0 wg_helper_locked any_step wg_cond s
                (wg_bcast_discipline p) R t wait_spec (is_wait_compile _ Hw) eq_refl Hs) as X.
  unfold w_wake in X. simpl in X. rewrite orb_false_r in X. apply Z.eqb_neq. exact X.
Qed.

(* quiescent form: when nothing can run any more and the counter is zero, every Wait that was called has returned *)
Lemma wait_all_returned_at_quiescence p s t :
  wg_reachable p s -> quiescent s -> dat s = 0 -> is_wait (p t) = true ->
  thr s t = Idle \/ exists r, thr s t = Done r.
Proof.
  intros R Q Hz Hw. pose proof (wait_released_at_zero_lemma p s t R Hw) as X.
  destruct Q as (_ & _ & Rn). specialize (Rn t).
  destruct (thr s t) eqn:E; simpl in Rn; try discriminate; eauto.
  exfalso. apply X; auto.
Qed.

(* ---- a Wait that holds the lock for its check while the counter is zero does not park: the only step it can take
   is to return (mon_already_true_no_block) *)
Lemma wait_at_zero_does_not_block_lemma p s l s' t b :
  wg_reachable p s -> wg_mstep p s l s' -> is_wait (p t) = true -> thr s t = InCrit b -> dat s = 0 ->
  (thr s' t = InCrit b /\ dat s' = 0) \/ (l = LBody t /\ thr s' t = Done ROk).
Proof.
  intros R St Hw Hs Hz.
  destruct (mon_already_true_no_block Z (wg_prog p) 0 wg_helper_locked any_step s l s' t wait_spec b R St
              (is_wait_compile _ Hw) Hs) as [[A B]|C]; auto.
  - simpl. rewrite Hz. reflexivity.
  - left. split; auto. congruence.
Qed.

(* ---- the zero-check and the park are ONE critical section: a Wait that has found the counter non-zero and is on
   its way into cond.Wait() (state Parking) still holds the mutex, the counter is still non-zero, and no step of any
   other thread can change the counter before it is registered on the wait list *)
Lemma wait_check_and_park_atomic_lemma p s t :
  wg_reachable p s -> is_wait (p t) = true -> thr s t = Parking ->
  lock s = Some t /\ dat s <> 0 /\
  (forall l s', wg_mstep p s l s' -> dat s' = dat s /\ (thr s' t = Parking \/ (l = LPark t /\ thr s' t = Parked))).
Proof.
  intros R Hw Hs. pose proof (mon_mutex _ _ _ _ _ _ R) as M.
  assert (HL : lock s = Some t) by (apply M; rewrite Hs; reflexivity).
  split; [exact HL|]. split; [apply (wait_released_at_zero_lemma p s t R Hw); auto|].
  assert (HX : forall u b, thr s u = InCrit b -> False).
  { intros u b E. assert (u = t) by (apply (mutex_two Z s); auto; [rewrite E|rewrite Hs]; reflexivity).
    subst. congruence. }
  intros l s' St. inversion St; subst; simpl;
    try (exfalso; eapply HX; eassumption);
    try (split; [reflexivity|]; unfold upd; destruct (Nat.eqb_spec t t0); subst; auto; congruence).
  split; [reflexivity|]. left. destruct (wake_all_cases Z (wg_prog p) c (thr s) t) as [E|(E & _)]; congruence.
Qed.

(* ---- C14: the counter is the sum of the completed, non-panicking Adds (over schedules) *)
Lemma wg_step_delta p s l s' : wg_mstep p s l s' -> dat s' = dat s + step_delta p (s, l).
Proof.
  intros St. unfold step_delta. inversion St; subst; simpl; try lia.
  - (* effect *)
    unfold wg_prog in H. apply compile_effect in H. destruct H as [(n & -> & ->)|(-> & ->)].
    + rewrite add_body_spec in H1. destruct (0 <=? dat s + n); inversion H1; lia.
    + inversion H1. lia.
  - (* waiter success: data unchanged *)
    unfold wg_prog in H. apply compile_waiter in H. destruct H as [-> Hw]. simpl in H2. inversion H2.
    destruct (p t); simpl in Hw; try discriminate; simpl; lia.
  - unfold wg_prog in H. apply compile_waiter in H. destruct H as [_ Hw].
    destruct (p t); simpl in Hw; try discriminate; simpl; lia.
  - unfold wg_prog in H. apply compile_waiter in H. destruct H as [_ Hw].
    destruct (p t); simpl in Hw; try discriminate; simpl; lia.
  - unfold wg_prog in H. apply compile_waiter in H. destruct H as [_ Hw].
    destruct (p t); simpl in Hw; try discriminate; simpl; lia.
Qed.

Lemma counter_is_sum_of_adds_lemma p tr s : wg_run_tr p tr s -> dat s = sum_deltas p tr.
Proof.
  intros H. induction H; [reflexivity|].
  change (sum_deltas p ((s, l) :: tr)) with (step_delta p (s, l) + sum_deltas p tr).
  rewrite (wg_step_delta p s l s' H1). unfold wg_state in *. lia.
Qed.

Lemma step_delta_nonneg p s l : 0 <= dat s -> 0 <= dat s + step_delta p (s, l).
Proof.
  intros H. unfold step_delta. simpl. destruct l; try lia.
  destruct (delta_of (p t)) as [n|]; [|lia]. destruct (Z.leb_spec 0 (dat s + n)); lia.
Qed.

Lemma counter_never_negative p s : wg_reachable p s -> 0 <= dat s.
Proof.
  intros R. induction R as [|s l s' R IH _ St]; [simpl; lia|].
  rewrite (wg_step_delta p s l s' St). apply step_delta_nonneg. exact IH.
Qed.

(* ---- C14: a negative Add in the concurrent model: the step of its body leaves the counter unchanged *)
Lemma negative_add_unchanged_conc p s t s' n :
  wg_mstep p s (LBody t) s' -> delta_of (p t) = Some n -> dat s + n < 0 -> dat s' = dat s.
Proof.
  intros St Hd Hneg. rewrite (wg_step_delta p s _ s' St). unfold step_delta. simpl. rewrite Hd.
  destruct (Z.leb_spec 0 (dat s + n)); lia.
Qed.

(* ---- cancellation half *)

(* a parked waiter whose context has ended always has its helper's Broadcast pending — for ALL schedules, because
   the helper broadcasts under the mutex and a waiter holds the mutex from its ctx check until it is registered *)
Lemma wait_ctx_wake_pending_lemma p s t :
  wg_reachable p s -> is_wait (p t) = true -> thr s t = Parked -> ended s t = true ->
  In wg_cond (pendingB s).
Proof.
  intros R Hw Hs He.
  exact (mon_ctx_pending_wake_locked Z (wg_prog p) 0 wg_helper_locked s t wait_spec eq_refl R (is_wait_compile _ Hw) Hs He).
Qed.

(* hence: once nothing can run any more, no Wait whose context has ended is still parked *)
Lemma wait_no_lost_cancel_lemma p s t :
  wg_reachable p s -> quiescent s -> is_wait (p t) = true -> thr s t = Parked -> ended s t = false.
Proof.
  intros R Q Hw Hs.
  exact (mon_no_lost_cancel Z (wg_prog p) 0 wg_helper_locked any_step s t wait_spec (or_introl eq_refl) R Q
           (is_wait_compile _ Hw) Hs).
Qed.

(* the shape the code had before the repair: helper broadcasting WITHOUT the mutex *)
Definition wg_reachable_unlocked (p : tid -> wg_op) : wg_state -> Prop := reachable Z (wg_prog p) 0 false.

Definition wait_ctx_wake_pending_unlocked_statement : Prop :=
  forall p s t, wg_reachable_unlocked p s -> is_wait (p t) = true -> thr s t = Parked -> ended s t = true ->
    In wg_cond (pendingB s).

(* for that shape the statement holds only over schedules in which no context ends between a waiter's `select` on
   ctx.Done and cond.Wait's registration *)
Lemma wait_ctx_wake_pending_unlocked_norace p s t :
  reach Z (wg_prog p) 0 false no_ctx_race s -> is_wait (p t) = true -> thr s t = Parked -> ended s t = true ->
  In wg_cond (pendingB s).
Proof.
  intros R Hw Hs He.
  exact (mon_ctx_pending_wake_norace Z (wg_prog p) 0 false s t wait_spec R (is_wait_compile _ Hw) Hs He).
Qed.

(* ---- explicit schedules (built forwards from the initial state) *)
Ltac premises :=
  try reflexivity; try (simpl; lia); try (intros; discriminate); try (intros; reflexivity); try (simpl; auto; fail);
  try apply sgs_nil; try (eapply sgs_cons; [apply ss_bcast|apply sgs_nil]).

Tactic Notation "fstep" hyp(R) tactic(tac) :=
  let R' := fresh "R" in
  eassert (R' : reach _ _ _ _ _ _) by (eapply reach_step; [exact R|exact I|tac; premises]);
  clear R; rename R' into R; simpl in R.

(* refutation for the unlocked helper: thread 0 calls Wait while the counter is 1; it decides to park; its context
   ends; its helper broadcasts (nobody is on the wait list yet); it parks.  The result is a quiescent state with a
   parked waiter whose context has ended and nothing left that would wake it.  (Reproduced on the implementation
   before the repair: see the report of check C14 / the thorough-tier stress scenario.) *)
Definition p_race : tid -> wg_op := fun t => match t with O => WWait | 1%nat => WInc | _ => WNum end.

Lemma wait_ctx_race_witness :
  exists s, wg_reachable_unlocked p_race s /\ quiescent s /\
            thr s 0%nat = Parked /\ ended s 0%nat = true /\ pendingB s = [] /\ dat s = 1.
Proof.
  pose proof (reach_init Z (wg_prog p_race) 0 false any_step) as R. unfold init in R.
  fstep R (eapply st_invoke with (t := 1%nat)).          (* 1. thread 1 calls Inc *)
  fstep R (eapply st_acquire_effect with (t := 1%nat)).  (* 2. *)
  fstep R (eapply st_effect with (t := 1%nat)).          (* 3. counter = 1 *)
  fstep R (eapply st_invoke with (t := 0%nat)).          (* 4. thread 0 calls Wait *)
  fstep R (eapply st_acquire_waiter with (t := 0%nat)).  (* 5. *)
  fstep R (eapply st_wait_decide with (t := 0%nat)).     (* 6. counter = 1, context live: decides to park, spawns the helper *)
  fstep R (eapply st_ctx_end with (t := 0%nat)).         (* 7. its context ends; the helper is released *)
  fstep R (eapply st_helper with (c := wg_cond)).        (* 8. the helper broadcasts: nobody is parked *)
  fstep R (eapply st_park with (t := 0%nat)).            (* 9. thread 0 registers with the cond and releases the lock *)
  eexists. split; [exact R|]. split.
  - split; [reflexivity|split; [reflexivity|]]. intros [|[|t]]; reflexivity.
  - repeat split; reflexivity.
Qed.

Lemma wait_ctx_wake_unlocked_helper_refuted_lemma : ~ wait_ctx_wake_pending_unlocked_statement.
Proof.
  intros S. destruct wait_ctx_race_witness as (s & R & _ & Hp & He & Hb & _).
  specialize (S p_race s 0%nat R eq_refl Hp He). rewrite Hb in S. exact S.
Qed.

(* non-vacuity: two waiters, Add(2), two Dones.  Both waiters can be parked while the counter is 2 ... *)
Definition p_two : tid -> wg_op :=
  fun t => match t with O => WWait | 1%nat => WWait | 2%nat => WAdd 2 | 3%nat => WDone | 4%nat => WDone | _ => WNum end.

Lemma two_waiters_parked :
  exists s, wg_reachable p_two s /\ thr s 0%nat = Parked /\ thr s 1%nat = Parked /\ dat s = 2 /\ lock s = None.
Proof.
  pose proof (reach_init Z (wg_prog p_two) 0 wg_helper_locked any_step) as R. unfold init in R.
  fstep R (eapply st_invoke with (t := 2%nat)).
  fstep R (eapply st_acquire_effect with (t := 2%nat)).
  fstep R (eapply st_effect with (t := 2%nat)).
  fstep R (eapply st_invoke with (t := 0%nat)).
  fstep R (eapply st_acquire_waiter with (t := 0%nat)).
  fstep R (eapply st_wait_decide with (t := 0%nat)).
  fstep R (eapply st_park with (t := 0%nat)).
  fstep R (eapply st_invoke with (t := 1%nat)).
  fstep R (eapply st_acquire_waiter with (t := 1%nat)).
  fstep R (eapply st_wait_decide with (t := 1%nat)).
  fstep R (eapply st_park with (t := 1%nat)).
  eexists. split; [exact R|]. repeat split; reflexivity.
Qed.

(* ... and after the second Done reaches zero (one Broadcast) both have been taken off the wait list and both return ROk *)
Lemma two_waiters_released :
  exists s, wg_reachable p_two s /\ thr s 0%nat = Done ROk /\ thr s 1%nat = Done ROk /\ dat s = 0 /\ quiescent s.
Proof.
  pose proof (reach_init Z (wg_prog p_two) 0 wg_helper_locked any_step) as R. unfold init in R.
  fstep R (eapply st_invoke with (t := 2%nat)).
  fstep R (eapply st_acquire_effect with (t := 2%nat)).
  fstep R (eapply st_effect with (t := 2%nat)).
  fstep R (eapply st_invoke with (t := 0%nat)).
  fstep R (eapply st_acquire_waiter with (t := 0%nat)).
  fstep R (eapply st_wait_decide with (t := 0%nat)).
  fstep R (eapply st_park with (t := 0%nat)).
  fstep R (eapply st_invoke with (t := 1%nat)).
  fstep R (eapply st_acquire_waiter with (t := 1%nat)).
  fstep R (eapply st_wait_decide with (t := 1%nat)).
  fstep R (eapply st_park with (t := 1%nat)).
  fstep R (eapply st_invoke with (t := 3%nat)).
  fstep R (eapply st_acquire_effect with (t := 3%nat)).
  fstep R (eapply st_effect with (t := 3%nat)).          (* first Done: counter 1, no broadcast *)
  fstep R (eapply st_invoke with (t := 4%nat)).
  fstep R (eapply st_acquire_effect with (t := 4%nat)).
  fstep R (eapply st_effect with (t := 4%nat)).          (* second Done: counter 0, Broadcast: both waiters Woken *)
  fstep R (eapply st_reacquire with (t := 0%nat)).
  fstep R (eapply st_wait_ok with (t := 0%nat)).         (* waiter 0 re-checks: zero, returns; its helper is released *)
  fstep R (eapply st_reacquire with (t := 1%nat)).
  fstep R (eapply st_wait_ok with (t := 1%nat)).
  fstep R (eapply st_helper with (c := wg_cond)).
  fstep R (eapply st_helper with (c := wg_cond)).
  eexists. split; [exact R|]. repeat split; try reflexivity.
  intros [|[|[|[|[|t]]]]]; reflexivity.
Qed.

(* ---- the Signal variant (a mutation the harness cannot distinguish, and need not): with Signal in place of
   Broadcast in Add the cascade discipline still holds — all waiters wait for the same predicate and every waiter
   that leaves the loop re-broadcasts through its helper — so no wake-up is lost either. *)
Definition add_body_sig (n : Z) : body Z :=
  fun c => let '(c', _, bc) := wg_add c n in (c', if bc then [Signal wg_cond] else []).

Definition compile_sig (o : wg_op) : op Z :=
  match o with
  | WAdd n => OEffect (add_body_sig n)
  | WInc => OEffect (add_body_sig 1)
  | WDone => OEffect (add_body_sig (-1))
  | WNum | WIsDone => OEffect read_body
  | WWait | WWaitCancelled => OWaiter wait_spec
  end.

Lemma sig_cascade_discipline p : cascade_discipline Z (fun t => compile_sig (p t)) wg_cond (fun c => c =? 0).
Proof.
  split.
  - intros t w Hw _ d. destruct (p t); simpl in Hw; inversion Hw; subst; unfold w_wake; simpl; apply orb_false_r.
  - intros t b Hb d Hf Ht. destruct Hb as [Hb|(w & Hb & ->)].
    + destruct (p t); simpl in Hb; inversion Hb; subst; simpl in *; try congruence;
        unfold add_body_sig, wg_add in *;
        match goal with |- context [0 <=? ?x] => destruct (0 <=? x) end; simpl in *; try congruence;
        rewrite Ht; left; left; reflexivity.
    + destruct (p t); simpl in Hb; inversion Hb; subst; simpl in *; congruence.
Qed.

Lemma signal_variant_no_lost_wakeup p s t :
  reachable Z (fun t => compile_sig (p t)) 0 wg_helper_locked s -> quiescent s ->
  is_wait (p t) = true -> thr s t = Parked -> dat s <> 0.
Proof.
  intros R Q Hw Hs.
  assert (Hp : compile_sig (p t) = OWaiter wait_spec) by (destruct (p t); simpl in Hw; try discriminate; reflexivity).
  destruct (mon_no_lost_wakeup_cascade_locked Z _ 0 wg_helper_locked wg_cond _ s t wait_spec eq_refl
              (sig_cascade_discipline p) R Q Hp eq_refl Hs) as [X _].
  simpl in X. apply Z.eqb_neq. exact X.
Qed.
