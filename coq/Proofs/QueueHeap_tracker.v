(* Proofs about the limit trackers (tracker.go) and QueueOptions.Validate.
   No property of float arithmetic is used: the credit is carried symbolically and only the
   code's own comparison [credit_lt_1] appears in statements. *)
From FunV Require Import Base.Tac Model.QueueHeap.
Local Open Scope Z_scope.

(* tracker invariant: 0 <= length <= softQuota <= hardLimit (quota), 0 <= length <= capacity (hard) *)
Definition t_ok (t : tracker) : Prop :=
  match t with
  | NoLimit l => 0 <= l
  | HardLimit c l => 0 <= l <= c
  | Quota sq hl l _ => 0 <= l <= sq /\ sq <= hl /\ 1 <= sq
  end.

(* hard bound on the number of items, when there is one *)
Definition t_bound (t : tracker) : option Z :=
  match t with NoLimit _ => None | HardLimit c _ => Some c | Quota _ hl _ _ => Some hl end.

Lemma t_ok_len_nonneg t : t_ok t -> 0 <= t_len t.
Proof. destruct t; simpl; lia. Qed.

Lemma t_ok_len_bound t b : t_ok t -> t_bound t = Some b -> t_len t <= b.
Proof. destruct t; simpl; intros H E; inv E; lia. Qed.

Lemma validate_opts_ok hl sq bc t :
  validate_opts hl sq bc = Some t -> t_ok t /\ t_len t = 0 /\ t_bound t = Some hl /\ exists sq' cr, t = Quota sq' hl 0 cr.
Proof.
  unfold validate_opts. intros H.
  destruct ((hl <=? 0) || (hl <? sq)) eqn:A; [discriminate|].
  destruct (PrimFloat.ltb bc f_zero); [discriminate|]. inv H.
  apply orb_false_iff in A. destruct A as [A1 A2].
  split; [|split; [reflexivity|split; [reflexivity|eauto]]].
  simpl. destruct (sq <=? 0) eqn:B; lia.
Qed.

Lemma validate_opts_accepts_iff hl sq bc :
  (exists t, validate_opts hl sq bc = Some t) <-> (0 < hl /\ sq <= hl /\ PrimFloat.ltb bc f_zero = false).
Proof.
  unfold validate_opts. split.
  - intros [t H]. destruct ((hl <=? 0) || (hl <? sq)) eqn:A; [discriminate|].
    apply orb_false_iff in A. destruct (PrimFloat.ltb bc f_zero); [discriminate|]. lia.
  - intros (A & B & C). rewrite C. replace ((hl <=? 0) || (hl <? sq)) with false; [eauto|].
    symmetry. apply orb_false_iff. lia.
Qed.

(* ---- add *)

Lemma t_add_error_unchanged t : snd (t_add t) <> ENil -> fst (t_add t) = t.
Proof.
  destruct t as [l|c l|sq hl l cr]; simpl.
  - congruence.
  - destruct (l >=? c); simpl; congruence.
  - destruct (l >=? sq); simpl; [|congruence].
    destruct (l =? hl); simpl; [congruence|]. destruct (credit_lt_1 cr); simpl; congruence.
Qed.

Lemma t_add_ok_len t : t_ok t -> snd (t_add t) = ENil ->
  t_ok (fst (t_add t)) /\ t_len (fst (t_add t)) = t_len t + 1 /\ t_bound (fst (t_add t)) = t_bound t.
Proof.
  destruct t as [l|c l|sq hl l cr]; simpl; intros H E.
  - repeat split; lia.
  - destruct (l >=? c) eqn:A; simpl in *; [discriminate|]. repeat split; lia.
  - destruct (l >=? sq) eqn:A; simpl in *.
    + destruct (l =? hl) eqn:B; simpl in *; [discriminate|].
      destruct (credit_lt_1 cr); simpl in *; [discriminate|]. repeat split; lia.
    + repeat split; lia.
Qed.

Lemma t_add_ok t : t_ok t -> t_ok (fst (t_add t)).
Proof.
  intros H. destruct (snd (t_add t)) eqn:E.
  - apply t_add_ok_len; assumption.
  - rewrite t_add_error_unchanged; [assumption|congruence].
  - rewrite t_add_error_unchanged; [assumption|congruence].
  - rewrite t_add_error_unchanged; [assumption|congruence].
  - rewrite t_add_error_unchanged; [assumption|congruence].
Qed.

(* the admission rule, as one function of the tracker fields *)
Definition t_add_rule (t : tracker) : qerr :=
  match t with
  | NoLimit _ => ENil
  | HardLimit c l => if l >=? c then EFull else ENil
  | Quota sq hl l cr =>
      if (l >=? sq) && (l =? hl) then EFull
      else if (sq <=? l) && (l <? hl) && credit_lt_1 cr then ENoCredit
      else ENil
  end.

Lemma t_add_rule_correct t : t_ok t -> snd (t_add t) = t_add_rule t.
Proof.
  destruct t as [l|c l|sq hl l cr]; simpl; intros H; try reflexivity.
  - destruct (l >=? c); reflexivity.
  - destruct (l >=? sq) eqn:A; simpl.
    + destruct (l =? hl) eqn:B; simpl; [reflexivity|].
      replace (sq <=? l) with true by lia. replace (l <? hl) with true by lia. simpl.
      destruct (credit_lt_1 cr); reflexivity.
    + replace (sq <=? l) with false by lia. reflexivity.
Qed.

(* add_error_iff, tracker level.  The quota clauses hold without any invariant except that the
   form "softQuota <= length < hardLimit" of the no-credit clause uses length <= hardLimit. *)
Ltac crush_q :=
  simpl; repeat match goal with |- context [if ?b then _ else _] => destruct b eqn:? end; simpl;
  split; intros;
  repeat match goal with H : _ /\ _ |- _ => destruct H | H : _ \/ _ |- _ => destruct H end;
  try discriminate; try congruence; try lia; try reflexivity;
  try (split; [lia|congruence]); try (left; lia); try (right; split; [lia|congruence]).

Lemma quota_full_iff sq hl l cr :
  snd (t_add (Quota sq hl l cr)) = EFull <-> (l >= sq /\ l = hl).
Proof. crush_q. Qed.

Lemma quota_nocredit_iff sq hl l cr : l <= hl ->
  (snd (t_add (Quota sq hl l cr)) = ENoCredit <-> (sq <= l < hl /\ credit_lt_1 cr = true)).
Proof. intros Hb. crush_q. Qed.

Lemma quota_accept_iff sq hl l cr : l <= hl ->
  (snd (t_add (Quota sq hl l cr)) = ENil <-> (l < sq \/ (l < hl /\ credit_lt_1 cr = false))).
Proof. intros Hb. crush_q. Qed.

Lemma quota_add_never_other sq hl l cr e :
  snd (t_add (Quota sq hl l cr)) = e -> e = ENil \/ e = EFull \/ e = ENoCredit.
Proof.
  simpl. destruct (l >=? sq); simpl; [|intros; subst; auto].
  destruct (l =? hl); simpl; [intros; subst; auto|]. destruct (credit_lt_1 cr); simpl; intros; subst; auto.
Qed.

Lemma hard_full_iff c l : snd (t_add (HardLimit c l)) = EFull <-> l >= c.
Proof. simpl. destruct (l >=? c) eqn:A; simpl; split; try discriminate; try lia; reflexivity. Qed.

Lemma hard_add_cases c l : snd (t_add (HardLimit c l)) = EFull \/ snd (t_add (HardLimit c l)) = ENil.
Proof. simpl. destruct (l >=? c); simpl; auto. Qed.

Lemma nolimit_never l : snd (t_add (NoLimit l)) = ENil.
Proof. reflexivity. Qed.

(* ---- quota dynamics *)

(* a successful add above the soft quota costs exactly one credit and raises the quota to length+1 *)
Lemma quota_add_over sq hl l cr :
  l >= sq -> l <> hl -> credit_lt_1 cr = false ->
  t_add (Quota sq hl l cr) = (Quota (l + 1) hl (l + 1) (PrimFloat.sub cr f_one), ENil).
Proof.
  intros A B C. simpl. replace (l >=? sq) with true by lia. replace (l =? hl) with false by lia.
  rewrite C. reflexivity.
Qed.

(* an add below the soft quota changes only the length *)
Lemma quota_add_below sq hl l cr : l < sq -> t_add (Quota sq hl l cr) = (Quota sq hl (l + 1) cr, ENil).
Proof. intros A. simpl. replace (l >=? sq) with false by lia. reflexivity. Qed.

(* "if q.credit > lenCap { q.credit = lenCap }" *)
Definition cap_credit (lenCap x : PrimFloat.float) : PrimFloat.float := if PrimFloat.ltb lenCap x then lenCap else x.

(* a remove (length goes to l-1, which is below the quota whenever the invariant holds) lowers the
   quota by at most one — exactly when softQuota > 1 and the new length is below half of it — adds
   (softQuota' - length') / softQuota' credit and caps the credit at hardLimit - softQuota' *)
Lemma quota_remove_dynamics sq hl l cr :
  t_ok (Quota sq hl l cr) -> 0 < l ->
  exists sq',
    t_remove (Quota sq hl l cr) =
      Quota sq' hl (l - 1)
        (cap_credit (z2f (hl - sq')) (PrimFloat.add cr (PrimFloat.div (z2f (sq' - (l - 1))) (z2f sq')))) /\
    sq - 1 <= sq' <= sq /\
    (sq' = sq - 1 <-> (sq > 1 /\ l - 1 < sq / 2)) /\
    l - 1 <= sq' /\ 1 <= sq' /\ 0 < sq' - (l - 1).
Proof.
  simpl. intros (A & B & C) L. replace (l - 1 <? sq) with true by lia.
  destruct ((sq >? 1) && (l - 1 <? sq / 2)) eqn:D.
  - exists (sq - 1). split; [reflexivity|]. apply andb_true_iff in D. destruct D as [D1 D2].
    assert (sq / 2 <= sq - 1) by (apply Z.div_le_upper_bound; lia).
    split; [lia|]. split; [split; lia|]. lia.
  - exists sq. split; [reflexivity|]. apply andb_false_iff in D.
    split; [lia|]. split; [split; [lia|]|lia]. intros [D1 D2]. destruct D; lia.
Qed.

Lemma t_remove_ok_len t : t_ok t -> 0 < t_len t ->
  t_ok (t_remove t) /\ t_len (t_remove t) = t_len t - 1 /\ t_bound (t_remove t) = t_bound t.
Proof.
  destruct t as [l|c l|sq hl l cr]; intros H L.
  - simpl in *. replace (l =? 0) with false by lia. simpl. repeat split; lia.
  - simpl in *. replace (l =? 0) with false by lia. simpl. repeat split; lia.
  - destruct (quota_remove_dynamics sq hl l cr H L) as (sq' & E & R1 & R2 & R3 & R4 & R5).
    rewrite E. simpl in *. repeat split; lia.
Qed.

(* non-vacuity: a tracker state with fractional credit below one rejects for lack of credit,
   one at the hard limit is full, and a remove gives credit back *)
Example quota_example :
  let t := Quota 1 3 1 (z2f 0) in
  snd (t_add t) = ENoCredit /\ snd (t_add (Quota 3 3 3 f_one)) = EFull /\
  snd (t_add (t_remove (Quota 2 3 2 f_zero))) = ENil /\ t_ok t.
Proof. vm_compute. repeat split; try reflexivity; try discriminate. Qed.
