(* C11 - srv.Cleanup: every accepted cleanup function runs exactly once during shutdown. *)
From FunV Require Import Base.Tac Model.OrchestratorModel Proofs.Orchestrator_base.
Import Cln.

Section Proofs.
Variable oc : nat -> outcome.
Notation step := (Cln.step oc).

Ltac open_step s e H :=
  destruct s as [c cl r cpp pp ca po inf fin ac rr e0 res]; destruct e; simpl in H; destr_step H;
  inversion H; subst; clear H; simpl in *.

Definition inv_tok (s : st) : Prop :=
  forall j, cnt j (pipe s) + cnt j (cache s) + cnt j (popped s) + cnt j (inflight s) + cnt j (finished s)
            = if memb j (accepted s) then 1 else 0.
Definition inv_ran (s : st) : Prop := forall j, ran s j = cnt j (inflight s) + cnt j (finished s).
Definition inv_pc (s : st) : Prop :=
  (closed s = true -> cancelled s = true) /\
  (cp s <> CNot -> closed s = true) /\
  (cp s = CExec \/ cp s = CDone -> pipe s = []) /\
  (cp s = CNot \/ cp s = CDrain -> popped s = [] /\ inflight s = [] /\ finished s = []) /\
  (cp s = CDone -> cache s = [] /\ popped s = [] /\ inflight s = []).
Definition inv_err (s : st) : Prop :=
  (forall j, In j (finished s) -> fails (oc j) = true -> In j (ec s)) /\
  (forall j, In j (ec s) -> fails (oc j) = true /\ In j (finished s)).
Definition inv_res (s : st) : Prop := cp s = CDone -> result s = Some (ec s).

Lemma inv_tok_step s e s' : inv_tok s -> step s e = Some s' -> inv_tok s'.
Proof.
  unfold inv_tok. intros T H. open_step s e H; try assumption; phase_facts; intros j0; specialize (T j0).
  all: cnt_simpl; simpl in *; cnt_simpl.
  all: try (match goal with Hin : In ?i ?l |- context [rm1 ?i ?l] => pose proof (cnt_rm1 j0 i l Hin) end).
  all: try lia.
  apply negb_true_iff in H0. rewrite Nat.eqb_sym.
  destruct (Nat.eqb_spec j0 c0); simpl; [subst; rewrite H0 in T; lia|lia].
Qed.

Lemma inv_ran_step s e s' : inv_ran s -> step s e = Some s' -> inv_ran s'.
Proof.
  unfold inv_ran. intros R H. open_step s e H; try assumption; phase_facts; intros j0; specialize (R j0).
  all: cnt_simpl; simpl in *; cnt_simpl.
  all: try (match goal with Hin : In ?i ?l |- context [rm1 ?i ?l] => pose proof (cnt_rm1 j0 i l Hin) end).
  all: try (unfold upd; rewrite (Nat.eqb_sym j0 c0)).
  all: try (destruct (Nat.eqb_spec c0 j0); subst); try lia.
Qed.

Lemma inv_pc_step s e s' : inv_pc s -> step s e = Some s' -> inv_pc s'.
Proof.
  unfold inv_pc. intros (P1 & P2 & P3 & P4 & P5) H.
  open_step s e H; try (repeat split; assumption); phase_facts.
  all: split; [intros X1|split; [intros X2|split; [intros X3|split; [intros X4|intros X5]]]].
  all: try reflexivity; try assumption; try discriminate; try tauto.
  all: try (destruct X3 as [X3|X3]; discriminate X3).
  all: try (destruct X4 as [X4|X4]; discriminate X4).
  all: try (apply P1; assumption); try (apply P2; assumption); try (apply P3; assumption);
       try (apply P4; assumption); try (apply P5; assumption).
  all: try (apply P2; discriminate).
  - (* EAdd while executing: impossible, the pipe is closed *)
    rewrite P2 in H; [discriminate|destruct X3; congruence].
  - destruct (P4 X4) as (-> & _ & _). match goal with Hin : In _ [] |- _ => inversion Hin end.
  - destruct (P5 X5) as (_ & -> & _). match goal with Hin : In _ [] |- _ => inversion Hin end.
  - destruct (P4 X4) as (_ & -> & _). match goal with Hin : In _ [] |- _ => inversion Hin end.
  - destruct (P5 X5) as (_ & _ & ->). match goal with Hin : In _ [] |- _ => inversion Hin end.
  - (* ERunPop while executing: the pipe is empty *)
    specialize (P3 X3). discriminate.
  - specialize (P3 (or_intror X5)). discriminate.
Qed.

Lemma inv_err_step s e s' : inv_err s -> step s e = Some s' -> inv_err s'.
Proof.
  unfold inv_err. intros (E1 & E2) H. open_step s e H; try (split; assumption); phase_facts.
  split.
  - intros j0 [<-|Hj0] Fj; apply In_add_err; [now left|right; now apply E1].
  - intros j0 Hj0. apply In_add_err in Hj0. destruct Hj0 as [[-> Fj]|Hj0].
    + split; [assumption|now left].
    + destruct (E2 j0 Hj0). split; [assumption|now right].
Qed.

Lemma inv_res_step s e s' : inv_pc s -> inv_res s -> step s e = Some s' -> inv_res s'.
Proof.
  unfold inv_pc, inv_res. intros (_ & _ & _ & _ & P5) R H.
  open_step s e H; try assumption; try discriminate; phase_facts; intros X; try discriminate X.
  all: try (apply R; assumption); try reflexivity.
  destruct (P5 X) as (_ & _ & ->). match goal with Hin : In _ [] |- _ => inversion Hin end.
Qed.

Record inv (s : st) : Prop := {
  i_tok : inv_tok s; i_ran : inv_ran s; i_pc : inv_pc s; i_err : inv_err s; i_res : inv_res s }.

Lemma inv_init : inv init.
Proof.
  constructor; red; simpl.
  - intros j; reflexivity.
  - intros j; reflexivity.
  - repeat split; intros X; try congruence; try (destruct X; discriminate).
  - split; intros j H; tauto.
  - discriminate.
Qed.

Lemma inv_step s e s' : inv s -> step s e = Some s' -> inv s'.
Proof.
  intros [T R P E F] H. constructor.
  - eapply inv_tok_step; eauto.
  - eapply inv_ran_step; eauto.
  - eapply inv_pc_step; eauto.
  - eapply inv_err_step; eauto.
  - eapply inv_res_step; eauto.
Qed.

Lemma reach_inv s : reach oc s -> inv s.
Proof. intros (tr & Htr). eapply invariant_run; [apply inv_step|apply inv_init|exact Htr]. Qed.
End Proofs.

(* ---------------------------------------------------------------- theorems *)

(* accepted s = functions for which pipe.Add returned nil (necessarily before Shutdown closed the pipe);
   ran s c = number of times function c was entered; EWaitRet = the cleanup service's Wait() returns. *)
Lemma cleanup_runs_all_accepted_once_lemma :
  forall (oc : nat -> outcome) (s : st), reach oc s ->
    (forall c, ran s c <= 1 /\ (1 <= ran s c -> In c (accepted s) /\ cancelled s = true /\ closed s = true)) /\
    (forall obs s', Cln.step oc s (EWaitRet obs) = Some s' ->
       forall c, In c (accepted s) -> ran s c = 1 /\ In c (finished s)).
Proof.
  intros oc s Hr. destruct (reach_inv oc s Hr) as [T R (P1 & P2 & P3 & P4 & P5) E F]. split.
  - intros c. specialize (T c). specialize (R c). split.
    + destruct (memb c (accepted s)); lia.
    + intros X. split; [apply memb_In; destruct (memb c (accepted s)); [reflexivity|lia]|].
      assert (Y : closed s = true).
      { apply P2. intros Z. destruct P4 as (_ & Q1 & Q2); [now left|]. rewrite Q1, Q2, !cnt_nil in R. lia. }
      split; [now apply P1|assumption].
  - intros obs s' Hs c Hc.
    assert (X : cp s = CDone) by (destruct s; simpl in *; destruct cp0; try discriminate; reflexivity).
    destruct (P5 X) as (C1 & C2 & C3). specialize (P3 (or_intror X)).
    specialize (T c). specialize (R c). apply memb_In in Hc.
    rewrite Hc, P3, C1, C2, C3, !cnt_nil in T. rewrite C3, cnt_nil in R.
    split; [lia|apply cnt_In; lia].
Qed.

(* whatever the other functions do (oc is arbitrary: any number of them may fail or panic), every
   accepted function has run when Wait returns, every failure is in Wait's error, and taking the next
   function from the cache never depends on the errors collected so far *)
Lemma cleanup_failure_does_not_block_others_lemma :
  forall (oc : nat -> outcome) (s : st), reach oc s ->
    (forall obs s', Cln.step oc s (EWaitRet obs) = Some s' ->
       (forall c, In c (accepted s) -> ran s c = 1) /\
       (forall c, In c (accepted s) -> fails (oc c) = true -> In c obs) /\
       (forall c, In c obs -> fails (oc c) = true /\ ran s c = 1)) /\
    (cp s = CExec -> cache s <> [] -> exists s', Cln.step oc s ECPop = Some s') /\
    (forall c, In c (popped s) -> exists s', Cln.step oc s (EFnBegin c) = Some s').
Proof.
  intros oc s Hr. split; [|split].
  - intros obs s' Hs.
    destruct (cleanup_runs_all_accepted_once_lemma oc s Hr) as [A1 A2].
    destruct (reach_inv oc s Hr) as [T R P [E1 E2] F].
    assert (X : cp s = CDone /\ same_set obs (ec s) = true).
    { destruct s; simpl in *. destruct cp0; try discriminate. red in F. simpl in F. rewrite (F eq_refl) in Hs.
      destruct (same_set obs ec0); [auto|discriminate]. }
    destruct X as [X S]. rewrite same_set_spec in S.
    split; [|split].
    + intros c Hc. now apply (A2 obs s' Hs).
    + intros c Hc Fc. apply S. apply E1; [now apply (A2 obs s' Hs)|assumption].
    + intros c Hc. apply S in Hc. destruct (E2 c Hc) as [Fc Hf]. split; [assumption|].
      pose proof (T c) as Tc. pose proof (R c) as Rc. apply cnt_In in Hf.
      destruct (memb c (accepted s)); lia.
  - intros X Y. destruct s; simpl in *. subst. destruct cache0; [congruence|]. eexists; reflexivity.
  - intros c Hc. destruct s; simpl in *. apply memb_In in Hc. rewrite Hc. eexists; reflexivity.
Qed.

(* non-vacuity: functions added before the start, while running (one of them moved to the cache by Run,
   one left in the pipe and drained by the repair), and just before the shutdown; one fails, one panics *)
Definition ex_oc (c : nat) : outcome := match c with 1 => Err | 2 => Pan | _ => Ok end.
Definition ex_trace : list ev :=
  [EAdd 0; EStart; ERunCheck; ERunPop; EAdd 1; ERunCheck; EAdd 2; EAdd 3; ECancel; EShutdown; EAddRej 4;
   ERunPop; ERunCheck; ECleanupBegin; EDrain; EDrain; EDrainDone; ECPop; ECPop; EFnBegin 1; EFnBegin 0;
   EFnEnd 1; ECPop; EFnBegin 2; ECPop; EFnEnd 0; EFnEnd 2; EFnBegin 3; EFnEnd 3; ECleanupDone; EWaitRet [2; 1]].
Example cleanup_nonvacuous :
  exists s, run (Cln.step ex_oc) init ex_trace = Some s /\ cp s = CDone /\ accepted s = [3; 2; 1; 0]
            /\ finished s = [3; 2; 0; 1] /\ result s = Some [2; 1].
Proof. eexists. split; [vm_compute; reflexivity|]. repeat split. Qed.
Example cleanup_accepts_example : Cln.accepts ex_oc (filter observable ex_trace) = true.
Proof. vm_compute. reflexivity. Qed.
(* the behaviour of the unrepaired code (Wait returns although a function accepted just before the
   shutdown never ran) is not a behaviour of the model *)
Example cleanup_rejects_not_run :
  Cln.accepts ex_oc [EStart; EAdd 0; ECancel; EWaitRet []] = false.
Proof. vm_compute. reflexivity. Qed.
