(* The list-level content of mergeSort / split / merge (dt/cmp.go), on element handles with a key. *)
From FunV Require Import Base.Tac Base.ListX Model.SortSpec Proofs.SortSpec_proofs.

Section MergeRef.
Variable lt : Z -> Z -> bool.
Variable key : nat -> Z.

(* merge(lt, a, b): take a's head iff it is lt b's head; when one side is empty append the rest of
   a, then the rest of b *)
Fixpoint merge_ref (a b : list nat) : list nat :=
  match a with
  | [] => b
  | x :: a' =>
      (fix inner (b : list nat) : list nat :=
         match b with
         | [] => a
         | y :: b' => if lt (key x) (key y) then x :: merge_ref a' b else y :: inner b'
         end) b
  end.

Lemma merge_ref_nil_r a : merge_ref a [] = a.
Proof. destruct a; reflexivity. Qed.

Lemma merge_ref_cons x a y b :
  merge_ref (x :: a) (y :: b) =
  if lt (key x) (key y) then x :: merge_ref a (y :: b) else y :: merge_ref (x :: a) b.
Proof. reflexivity. Qed.

Lemma merge_ref_perm a b : Permutation (merge_ref a b) (a ++ b).
Proof.
  revert b. induction a as [|x a IHa]; intros b; [reflexivity|].
  induction b as [|y b IHb]; [rewrite merge_ref_nil_r, app_nil_r; reflexivity|].
  rewrite merge_ref_cons. destruct (lt (key x) (key y)).
  - simpl. constructor. apply IHa.
  - rewrite IHb. apply Permutation_middle.
Qed.

(* split keeps the LAST |es|/2 elements in the list and moves the first |es| - |es|/2 to a new one;
   mergeSort merges sorted(kept half) with sorted(moved half) *)
Definition nmoved (es : list nat) : nat := length es - length es / 2.

Fixpoint msort_ref (fuel : nat) (es : list nat) : list nat :=
  match fuel with
  | O => es
  | S f => if length es <? 2 then es
           else merge_ref (msort_ref f (skipn (nmoved es) es)) (msort_ref f (firstn (nmoved es) es))
  end.

Lemma msort_ref_perm fuel es : Permutation (msort_ref fuel es) es.
Proof.
  revert es. induction fuel as [|f IH]; intros es; [reflexivity|]. simpl.
  destruct (length es <? 2); [reflexivity|].
  rewrite merge_ref_perm, !IH. rewrite Permutation_app_comm. rewrite firstn_skipn. reflexivity.
Qed.

(* sortedness needs only asymmetry of lt *)
Hypothesis lt_asym : forall a b, lt a b = true -> lt b a = false.

Definition ksorted (l : list nat) : Prop := sorted lt (map key l).

Lemma ksorted_cons2 x y l : ksorted (x :: y :: l) <-> lt (key y) (key x) = false /\ ksorted (y :: l).
Proof. unfold ksorted, sorted. simpl map. rewrite adj_cons2. unfold sortedR. tauto. Qed.

Lemma ksorted_tail x l : ksorted (x :: l) -> ksorted l.
Proof. unfold ksorted, sorted. simpl map. apply adj_tail. Qed.

Lemma ksorted_cons_hd x l : ksorted l -> (forall y, hd_error l = Some y -> lt (key y) (key x) = false) -> ksorted (x :: l).
Proof.
  intros S H. destruct l as [|y l]; [unfold ksorted, sorted; simpl; auto|].
  apply ksorted_cons2. split; auto.
Qed.

Lemma merge_ref_hd a b z : hd_error (merge_ref a b) = Some z -> hd_error a = Some z \/ hd_error b = Some z.
Proof.
  destruct a as [|x a]; [simpl; auto|]. destruct b as [|y b]; [rewrite merge_ref_nil_r; auto|].
  rewrite merge_ref_cons. destruct (lt (key x) (key y)); simpl; auto.
Qed.

Lemma merge_ref_sorted a b : ksorted a -> ksorted b -> ksorted (merge_ref a b).
Proof.
  revert b. induction a as [|x a IHa]; intros b Sa Sb; [exact Sb|].
  induction b as [|y b IHb]; [rewrite merge_ref_nil_r; exact Sa|].
  rewrite merge_ref_cons. destruct (lt (key x) (key y)) eqn:C.
  - apply ksorted_cons_hd; [apply IHa; [eapply ksorted_tail; eauto|exact Sb]|].
    intros z Hz. apply merge_ref_hd in Hz. destruct Hz as [Hz|Hz].
    + destruct a as [|x' a]; [discriminate|]. simpl in Hz. injection Hz as ->. destruct (proj1 (ksorted_cons2 _ _ _) Sa) as [H _]. exact H.
    + simpl in Hz. injection Hz as <-. apply lt_asym. exact C.
  - apply ksorted_cons_hd; [apply IHb; eapply ksorted_tail; eauto|].
    intros z Hz. apply merge_ref_hd in Hz. destruct Hz as [Hz|Hz].
    + simpl in Hz. injection Hz as <-. exact C.
    + destruct b as [|y' b]; [discriminate|]. simpl in Hz. injection Hz as ->. destruct (proj1 (ksorted_cons2 _ _ _) Sb) as [H _]. exact H.
Qed.

Lemma msort_ref_sorted fuel es : (length es < fuel)%nat -> ksorted (msort_ref fuel es).
Proof.
  revert es. induction fuel as [|f IH]; intros es Hf; [lia|]. simpl.
  destruct (Nat.ltb_spec (length es) 2) as [Lt|Ge].
  - destruct es as [|a [|b es]]; unfold ksorted, sorted; simpl in *; auto; lia.
  - assert (D : (length es / 2 < length es)%nat) by (apply Nat.div_lt; lia).
    assert (D1 : (1 <= length es / 2)%nat) by (apply Nat.div_le_lower_bound; lia).
    apply merge_ref_sorted; apply IH.
    + rewrite skipn_length. unfold nmoved. lia.
    + rewrite firstn_length. unfold nmoved. lia.
Qed.
End MergeRef.

Lemma merge_ref_ext lt k1 k2 a b :
  (forall x, In x (a ++ b) -> k1 x = k2 x) -> merge_ref lt k1 a b = merge_ref lt k2 a b.
Proof.
  revert b. induction a as [|x a IHa]; intros b H; [reflexivity|].
  induction b as [|y b IHb]; [rewrite !merge_ref_nil_r; reflexivity|].
  rewrite !merge_ref_cons. rewrite (H x), (H y); [|apply in_or_app; right; left; reflexivity|left; reflexivity].
  destruct (lt (k2 x) (k2 y)).
  - f_equal. apply IHa. intros z Hz. apply H. right. exact Hz.
  - f_equal. apply IHb. intros z Hz. apply H. apply in_app_or in Hz. apply in_or_app. destruct Hz; [left|right; right]; auto.
Qed.

Lemma msort_ref_ext lt k1 k2 fuel es :
  (forall x, In x es -> k1 x = k2 x) -> msort_ref lt k1 fuel es = msort_ref lt k2 fuel es.
Proof.
  revert es. induction fuel as [|f IH]; intros es H; [reflexivity|]. simpl.
  destruct (length es <? 2); [reflexivity|].
  assert (H1 : forall x, In x (skipn (nmoved es) es) -> k1 x = k2 x).
  { intros x Hx. apply H. rewrite <- (firstn_skipn (nmoved es) es). apply in_or_app. auto. }
  assert (H2 : forall x, In x (firstn (nmoved es) es) -> k1 x = k2 x).
  { intros x Hx. apply H. rewrite <- (firstn_skipn (nmoved es) es). apply in_or_app. auto. }
  rewrite (IH _ H1), (IH _ H2). apply merge_ref_ext.
  intros x Hx. apply in_app_or in Hx. destruct Hx as [Hx|Hx].
  - apply H1. apply (Permutation_in _ (msort_ref_perm lt k2 f _)). exact Hx.
  - apply H2. apply (Permutation_in _ (msort_ref_perm lt k2 f _)). exact Hx.
Qed.
