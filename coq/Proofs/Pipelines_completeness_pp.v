(* C01_complete / C04_finite_input_eof / C04_progress_exhaust for Iterator.ProcessParallel (itertool.ParallelForEach,
   itertool.Worker): the caller's goroutine launches n workers and blocks in wg.Wait; each worker reads its Split
   output - the first read starts the splitter - and hands the item to the user's processor; the splitter closes
   the pipe on return. Any n >= 1, any input, any interleaving; runs that nothing aborted. *)
From FunV Require Import Base.Tac Base.ListX Model.Pipelines
  Proofs.Pipelines_conserve Proofs.Pipelines_quiesce Proofs.Pipelines_nets Proofs.Pipelines_complete Proofs.Pipelines_closer
  Proofs.Pipelines_release Proofs.Pipelines_nodrop Proofs.Pipelines_completeness Proofs.Pipelines_progress
  Proofs.Pipelines_completeness_split.

Section PP.
Variable n : nat.
Hypothesis Hn : 0 < n.
Notation N := (pp_net n).

Lemma Pw j : j < n -> nth_error (n_procs N) (3 + j) = Some (wgp (ppw_prog j)).
Proof. intros H. cbn [pp_net n_procs]. exact (nth_workers _ _ _ (fun j => wgp (ppw_prog j)) n j H). Qed.
Lemma P0 : nth_error (n_procs N) 0 = Some (usr (runner_prog n 1 false)). Proof. reflexivity. Qed.
Lemma P1 : nth_error (n_procs N) 1 = Some (bg (pump_prog 0 0)). Proof. reflexivity. Qed.
Lemma Pdesc p d : nth_error (n_procs N) p = Some d ->
  (p = 0 /\ d = usr (runner_prog n 1 false)) \/ (p = 1 /\ d = bg (pump_prog 0 0)) \/ (p = 2 /\ d = bg [IExit]) \/
  (exists j, j < n /\ p = 3 + j /\ d = wgp (ppw_prog j)).
Proof. intros H. cbn [pp_net n_procs] in H. apply nth_workers_inv in H. exact H. Qed.

Lemma runner_instr pc i :
  nth_error (runner_prog n 1 false) pc = Some i ->
  (pc < n /\ i = ISpawn (3 + pc) (GId 1) (pc + 1)) \/ (pc = n /\ i = IWgWait None (n + 1)) \/
  (pc = n + 1 /\ i = ICancel 1 (n + 2)) \/ (pc = n + 2 /\ i = IExit).
Proof.
  unfold runner_prog. intros H. destruct (Nat.lt_ge_cases pc n) as [Hlt|Hge].
  - left. split; auto. rewrite nth_error_app1 in H by (rewrite len_spawns; lia). unfold spawns in H.
    rewrite nth_error_map, (nth_error_nth' _ 0) in H by (rewrite seq_length; lia). rewrite seq_nth in H by lia. cbn in H. inv H.
    f_equal; lia.
  - right. rewrite nth_error_app2 in H by (rewrite len_spawns; lia). rewrite len_spawns in H.
    remember (pc - n) as m eqn:Em. destruct m as [|[|[|m]]]; cbn in H.
    + inv H. left. split; auto. lia.
    + inv H. right. left. split; auto. lia.
    + inv H. right. right. split; auto. lia.
    + destruct m; discriminate.
Qed.

Lemma hand_disc_pp_net : hand_disc N = true.
Proof.
  unfold hand_disc. cbn [pp_net n_procs]. apply forallb_app'.
  - cbn [forallb usr bg d_prog]. rewrite andb_true_r.
    replace (forallb (hand_disc_instr (runner_prog n 1 false)) (runner_prog n 1 false)) with true; [reflexivity|].
    symmetry. apply forallb_forall. intros i Hi. apply In_nth_error in Hi as (k & Hk).
    apply runner_instr in Hk as [(_ & ->)|[(_ & ->)|[(_ & ->)|(_ & ->)]]]; reflexivity.
  - apply forallb_map_seq. intros j _. reflexivity.
Qed.

Lemma p_runner_cur s c d i :
  cur_instr N s 0 = Some (c, d, i) ->
  (p_pc c < n /\ i = ISpawn (3 + p_pc c) (GId 1) (p_pc c + 1)) \/ (p_pc c = n /\ i = IWgWait None (n + 1)) \/
  (p_pc c = n + 1 /\ i = ICancel 1 (n + 2)) \/ (p_pc c = n + 2 /\ i = IExit).
Proof. intros Hc. apply cur_instr_inv in Hc as (_ & Hd & _ & Hi). rewrite P0 in Hd. inv Hd. cbn [d_prog usr] in Hi. apply runner_instr. exact Hi. Qed.

Lemma p_worker_cur s j c d i :
  j < n -> cur_instr N s (3 + j) = Some (c, d, i) ->
  (p_pc c = 0 /\ i = ICheck GOwn 1 5) \/ (p_pc c = 1 /\ i = ISpawn 1 (GId (3 + j)) 2) \/ (p_pc c = 2 /\ i = IRecv 0 (GId (3 + j)) 3 4 4) \/
  (p_pc c = 3 /\ i = IDeliver 0) \/ (p_pc c = 4 /\ i = ICancel (3 + j) 5) \/ (p_pc c = 5 /\ i = IExit).
Proof.
  intros Hj Hc. apply cur_instr_inv in Hc as (_ & Hd & _ & Hi). rewrite (Pw j Hj) in Hd. inv Hd. cbn [d_prog wgp ppw_prog] in Hi.
  destruct (p_pc c) as [|[|[|[|[|[|k]]]]]]; cbn in Hi; inv Hi; auto 8. destruct k; discriminate.
Qed.

Lemma p_pump_cur s pr d i :
  cur_instr N s 1 = Some (pr, d, i) ->
  (p_pc pr = 0 /\ i = ISrc 0 GOwn 1 2 2) \/ (p_pc pr = 1 /\ i = ISend 0 GOwn 0 2 2) \/ (p_pc pr = 2 /\ i = IClose 0 3) \/ (p_pc pr = 3 /\ i = IExit).
Proof. intros Hc. apply cur_instr_inv in Hc as (_ & Hd & _ & Hi). rewrite P1 in Hd. inv Hd. cbn [d_prog bg] in Hi. apply pump_instr in Hi. exact Hi. Qed.

Definition w_past (s : state) (j : nat) : Prop :=
  exists c, nth_error (s_procs s) (3 + j) = Some c /\ (p_st c = PDone \/ (p_st c = PRun /\ p_pc c = 5)).
Definition pp_pump_past (s : state) : Prop :=
  exists pr, nth_error (s_procs s) 1 = Some pr /\ (p_st pr = PDone \/ (p_st pr = PRun /\ p_pc pr = 3)).
Definition r_past (s : state) : Prop :=
  exists c, nth_error (s_procs s) 0 = Some c /\ (p_st c = PDone \/ (p_st c = PRun /\ p_pc c = n + 2)).
Definition workers_done (s : state) : Prop := forall j, j < n -> isdone s (3 + j).

Record pv (s : state) : Prop := {
  pv_na : forall p pr, nth_error (s_procs s) p = Some pr -> p_st pr <> PAbandoned;
  pv_len : length (s_chans s) = 1 /\ length (s_srcs s) = 1;
  pv_b : unbuffered s 0;
  pv_d : s_drop s = [];
  pv_u : forall c, In c (s_canc s) -> (exists j, j < n /\ c = 3 + j /\ w_past s j) \/ (c = 1 /\ r_past s);
  pv_cl : forall j c, j < n -> nth_error (s_procs s) (3 + j) = Some c -> p_st c = PDone \/ (p_st c = PRun /\ 4 <= p_pc c) -> closedb s 0 = true;
  pv_pp : closedb s 0 = true -> pp_pump_past s;
  pv_pd : forall pr, nth_error (s_procs s) 1 = Some pr -> p_st pr = PDone \/ (p_st pr = PRun /\ p_pc pr = 3) -> closedb s 0 = true;
  pv_e : forall pr, nth_error (s_procs s) 1 = Some pr -> p_st pr = PDone \/ (p_st pr = PRun /\ 2 <= p_pc pr) -> nth_error (s_srcs s) 0 = Some [];
  pv_k : forall j c, j < n -> nth_error (s_procs s) (3 + j) = Some c -> p_st c = PRun -> 2 <= p_pc c <= 4 -> started s 1;
  pv_rs : forall c, nth_error (s_procs s) 0 = Some c -> p_st c = PRun -> forall j, j < p_pc c -> j < n -> started s (3 + j);
  pv_r : forall c, nth_error (s_procs s) 0 = Some c -> p_st c = PDone \/ (p_st c = PRun /\ n + 1 <= p_pc c) -> workers_done s
}.

(* in an un-aborted run whoever cancels a context has already seen (or implies) the pipe closed *)
Lemma pp_canc_closed s x : pv s -> cancelledb N s x = true -> closedb s 0 = true.
Proof.
  intros V H. unfold cancelledb in H. apply existsb_exists in H as (a & Ha & _).
  destruct (pv_u _ V a Ha) as [(j & Hj & _ & (c & Hc & Hfin))|(_ & (c & Hc & Hfin))].
  - eapply (pv_cl _ V); eauto. destruct Hfin as [E|(E & Epc)]; [auto|right; split; auto; lia].
  - assert (W : workers_done s). { eapply (pv_r _ V); eauto. destruct Hfin as [E|(E & Epc)]; [auto|right; split; auto; lia]. }
    destruct (W 0 Hn) as (w & Hw & Dw). eapply (pv_cl _ V 0); eauto.
Qed.

Lemma pp_pump_sees_nothing s pr d i :
  pv s -> cur_instr N s 1 = Some (pr, d, i) -> p_pc pr < 3 ->
  (exists x, cancelledb N s x = true) \/ closedb s 0 = true -> False.
Proof.
  intros V Hc Hpc Hy.
  assert (Cl : closedb s 0 = true) by (destruct Hy as [(x & E)|E]; [eapply pp_canc_closed; eauto|exact E]).
  destruct (pv_pp _ V Cl) as (p0 & Hp0 & Hfin). apply cur_instr_inv in Hc as (Hp & _ & Hr & _). rewrite Hp in Hp0. inv Hp0.
  destruct Hfin as [E|(_ & E)]; [congruence|lia].
Qed.

Lemma w_past_step s l s' j :
  j < n -> step N s l = Some s' -> (forall q qr, nth_error (s_procs s') q = Some qr -> p_st qr <> PAbandoned) -> w_past s j -> w_past s' j.
Proof.
  intros Hj H NA (c & Hc & Hfin).
  destruct (at_exit_step N s l s' (3 + j) c _ H Hc (Pw j Hj) NA) as (c' & Hc' & Hfin').
  - destruct Hfin as [E|(E & Epc)]; [auto|right; split; auto]. rewrite Epc. reflexivity.
  - exists c'. split; auto. destruct Hfin' as [E|(E & Epc)]; auto. right. split; auto.
    destruct Hfin as [E0|(_ & E0)]; [|congruence]. exfalso.
    pose proof (done_untouched _ _ _ _ _ _ H Hc E0) as X. rewrite Hc' in X. inv X. congruence.
Qed.

Lemma pp_pump_past_step s l s' :
  step N s l = Some s' -> (forall q qr, nth_error (s_procs s') q = Some qr -> p_st qr <> PAbandoned) -> pp_pump_past s -> pp_pump_past s'.
Proof.
  intros H NA (c & Hc & Hfin).
  destruct (at_exit_step N s l s' 1 c _ H Hc P1 NA) as (c' & Hc' & Hfin').
  - destruct Hfin as [E|(E & Epc)]; [auto|right; split; auto]. rewrite Epc. reflexivity.
  - exists c'. split; auto. destruct Hfin' as [E|(E & Epc)]; auto. right. split; auto.
    destruct Hfin as [E0|(_ & E0)]; [|congruence]. exfalso.
    pose proof (done_untouched _ _ _ _ _ _ H Hc E0) as X. rewrite Hc' in X. inv X. congruence.
Qed.

Lemma runner_exit : nth_error (runner_prog n 1 false) (n + 2) = Some IExit.
Proof.
  unfold runner_prog. rewrite nth_error_app2 by (rewrite len_spawns; lia). rewrite len_spawns.
  replace (n + 2 - n) with 2 by lia. reflexivity.
Qed.

Lemma r_past_step s l s' :
  step N s l = Some s' -> (forall q qr, nth_error (s_procs s') q = Some qr -> p_st qr <> PAbandoned) -> r_past s -> r_past s'.
Proof.
  intros H NA (c & Hc & Hfin).
  destruct (at_exit_step N s l s' 0 c _ H Hc P0 NA) as (c' & Hc' & Hfin').
  - destruct Hfin as [E|(E & Epc)]; [auto|right; split; auto]. rewrite Epc. cbn [d_prog usr]. apply runner_exit.
  - exists c'. split; auto. destruct Hfin' as [E|(E & Epc)]; auto. right. split; auto.
    destruct Hfin as [E0|(_ & E0)]; [|congruence]. exfalso.
    pose proof (done_untouched _ _ _ _ _ _ H Hc E0) as X. rewrite Hc' in X. inv X. congruence.
Qed.

Lemma workers_done_step s l s' : step N s l = Some s' -> workers_done s -> workers_done s'.
Proof. intros H W j Hj. eapply isdone_mono; eauto. Qed.

Lemma pp_proc_exists s p : ginv N s -> p < 3 + n -> exists pr, nth_error (s_procs s) p = Some pr.
Proof.
  intros I Hp. destruct (nth_error (s_procs s) p) as [pr|] eqn:E; [eauto|]. exfalso. apply nth_error_None in E.
  rewrite (gi_len _ _ I) in E. cbn [pp_net n_procs] in E. rewrite app_length, map_length, seq_length in E. cbn in E. lia.
Qed.

Lemma hinv_pp input s : reach N (pp_init n input) s -> hinv N s.
Proof.
  intros R. eapply hinv_reach; eauto using hand_disc_pp_net. unfold pp_init. apply hinv_mk_init.
  intros pr [<-|[<-|[<-|Hin]]]; auto. unfold idles in Hin. apply repeat_spec in Hin. now subst.
Qed.

Lemma pv_step input s l s' :
  reach N (pp_init n input) s -> internal l = true -> pv s -> step N s l = Some s' -> pv s'.
Proof.
  intros R Hint V H.
  assert (I : ginv N s) by (eapply ginv_reach; eauto using wf_pp_net, ginv_pp_init).
  pose proof (hinv_pp input s R) as HI.
  assert (NA : forall p pr, nth_error (s_procs s') p = Some pr -> p_st pr <> PAbandoned).
  { eapply no_abandon_step; eauto. apply (pv_na _ V). }
  assert (KC : closedb s 0 = true -> closedb s' 0 = true) by (eapply closed_mono; eauto).
  assert (PAST : forall c, (exists j, j < n /\ c = 3 + j /\ w_past s j) \/ (c = 1 /\ r_past s) ->
                           (exists j, j < n /\ c = 3 + j /\ w_past s' j) \/ (c = 1 /\ r_past s')).
  { intros c [(j & Hj & E & P)|(E & P)]; [left; exists j; repeat split; auto; eapply w_past_step; eauto|right; split; auto; eapply r_past_step; eauto]. }
  destruct (lens_step _ _ _ _ H) as (L1 & L2).
  split.
  - exact NA.
  - destruct (pv_len _ V). split; congruence.
  - eapply unbuffered_step; eauto. apply (pv_b _ V).
  - (* nothing is dropped *)
    destruct (drop_cause N s l s' HI H) as [E|(p & pr & d & ch & g & ko & ke & kr & Hc & Hcause)]; [rewrite E; apply (pv_d _ V)|].
    exfalso. pose proof Hc as Hc0. apply cur_instr_inv in Hc as (Hp & Hd & Hr & Hi).
    apply Pdesc in Hd as [(-> & ->)|[(-> & ->)|[(-> & ->)|(j & Hj & -> & ->)]]].
    + apply p_runner_cur in Hc0. intuition discriminate.
    + destruct (p_pump_cur _ _ _ _ Hc0) as [(_ & E)|[(Epc & E)|[(_ & E)|(_ & E)]]]; try discriminate. inv E.
      eapply (pp_pump_sees_nothing s _ _ _ V Hc0); [lia|]. destruct Hcause as [E|E]; [left; eauto|right; exact E].
    + cbn [d_prog bg] in Hi. destruct (p_pc pr) as [|k]; [|destruct k]; cbn in Hi; discriminate.
    + apply (p_worker_cur s j) in Hc0; auto. intuition discriminate.
  - (* who cancels *)
    intros x Hx.
    destruct (canc_by _ _ _ _ Hint H) as [Ec|(p & pr & d & c & k & -> & Hc)].
    + rewrite Ec in Hx. apply PAST. apply (pv_u _ V x Hx).
    + pose proof Hc as Hc0. pose proof H as H0. cbn [step] in H. rewrite Hc in H. cbn [exec] in H. inv H. unf. cbn [s_canc s_procs] in *.
      apply cur_instr_inv in Hc as (Hp & Hd & Hr & Hi).
      destruct Hx as [<-|Hx]; [|apply PAST; apply (pv_u _ V x Hx)].
      apply Pdesc in Hd as [(-> & ->)|[(-> & ->)|[(-> & ->)|(j & Hj & -> & ->)]]].
      * apply p_runner_cur in Hc0. destruct Hc0 as [(_ & E)|[(_ & E)|[(Epc & E)|(_ & E)]]]; try discriminate. inv E.
        right. split; auto. eexists. split; [unf; cbn [s_procs]; eapply nth_error_upd_same; eauto|]. right. split; reflexivity.
      * apply p_pump_cur in Hc0. intuition discriminate.
      * cbn [d_prog bg] in Hi. destruct (p_pc pr) as [|k0]; [|destruct k0]; cbn in Hi; discriminate.
      * apply (p_worker_cur s j) in Hc0; auto.
        destruct Hc0 as [(_ & E)|[(_ & E)|[(_ & E)|[(_ & E)|[(Epc & E)|(_ & E)]]]]]; try discriminate. inv E.
        left. exists j. split; auto. split; auto. eexists. split; [unf; cbn [s_procs]; eapply nth_error_upd_same; eauto|]. right. split; reflexivity.
  - (* a worker leaves only after it saw the pipe closed *)
    intros j c' Hj Hc' Hfin.
    destruct Hfin as [Ed|(Er & Epc)].
    + destruct (done_from _ _ _ _ _ _ H Hc' Ed) as [Same|(pr & d & Hc)].
      * apply KC. eapply (pv_cl _ V); eauto.
      * apply KC. pose proof (p_worker_cur s j _ _ _ Hj Hc) as X. apply cur_instr_inv in Hc as (Hp & _ & Hr & _).
        destruct X as [(_ & E)|[(_ & E)|[(_ & E)|[(_ & E)|[(_ & E)|(E5 & _)]]]]]; try discriminate.
        eapply (pv_cl _ V); eauto. right. split; auto. lia.
    + destruct (pc_step _ _ _ _ _ _ H Hc' Er) as [Same|[(E0 & _)|[(arm & pr & d & i & -> & Hc & Hin)|[(q & pr & d & ch & g & ko & ke & kr & -> & Hc & E)|(q & pr & d & ch & g & ki & ke & kr & -> & Hc & E)]]]].
      * apply KC. eapply (pv_cl _ V); eauto.
      * lia.
      * pose proof (p_worker_cur s j _ _ _ Hj Hc) as X. cbn [step] in H. rewrite Hc in H. apply cur_instr_inv in Hc as (Hp & _ & Hr & _).
        apply KC.
        destruct X as [(E0 & ->)|[(E0 & ->)|[(E0 & ->)|[(E0 & ->)|[(E0 & ->)|(E0 & ->)]]]]]; cbn [targets In] in Hin; try lia.
        -- eapply pp_canc_closed; eauto. eapply check_err_cause; eauto. lia.
        -- destruct (recv_end_cause _ _ _ _ _ _ _ _ _ _ _ _ _ H Hc') as [E|(c0 & Hc0 & Hcl0 & _)]; [lia|eapply pp_canc_closed; eauto|].
           unfold closedb. now rewrite Hc0.
        -- eapply (pv_cl _ V); eauto. right. split; auto. lia.
      * exfalso. apply (p_worker_cur s j) in Hc; auto. intuition discriminate.
      * exfalso. apply (p_worker_cur s j) in Hc; auto.
        destruct Hc as [(_ & E1)|[(_ & E1)|[(_ & E1)|[(_ & E1)|[(_ & E1)|(_ & E1)]]]]]; inv E1. lia.
  - (* the pipe is closed by the splitter only, on its way out *)
    intros Hcl'. destruct (closedb s 0) eqn:Ecl; [eapply pp_pump_past_step; eauto; apply (pv_pp _ V); auto|].
    destruct (closed_by _ _ _ _ _ H Ecl Hcl') as (p & pr & d & k & -> & Hc).
    pose proof Hc as Hc0. apply cur_instr_inv in Hc as (Hp & Hd & Hr & Hi).
    apply Pdesc in Hd as [(-> & ->)|[(-> & ->)|[(-> & ->)|(j & Hj & -> & ->)]]].
    + apply p_runner_cur in Hc0. intuition discriminate.
    + destruct (p_pump_cur _ _ _ _ Hc0) as [(_ & E)|[(_ & E)|[(_ & E)|(_ & E)]]]; try discriminate. inv E.
      cbn [step] in H. rewrite Hc0 in H. cbn [exec] in H. exec_cases H; inv H;
        (eexists; split; [unf; cbn [s_procs]; eapply nth_error_upd_same; eauto|right; split; reflexivity]).
    + cbn [d_prog bg] in Hi. destruct (p_pc pr) as [|k0]; [|destruct k0]; cbn in Hi; discriminate.
    + apply (p_worker_cur s j) in Hc0; auto. intuition discriminate.
  - (* the splitter past its close: the pipe is closed *)
    intros pr' Hp' Hfin.
    destruct Hfin as [Ed|(Er & Epc)].
    + destruct (done_from _ _ _ _ _ _ H Hp' Ed) as [Same|(pr & d & Hc)].
      * apply KC. eapply (pv_pd _ V); eauto.
      * apply KC. pose proof (p_pump_cur _ _ _ _ Hc) as X. apply cur_instr_inv in Hc as (Hp & _ & Hr & _).
        destruct X as [(_ & E)|[(_ & E)|[(_ & E)|(E3 & _)]]]; try discriminate. eapply (pv_pd _ V); eauto.
    + destruct (pc_step _ _ _ _ _ _ H Hp' Er) as [Same|[(E0 & _)|[(arm & pr & d & i & -> & Hc & Hin)|[(q & pr & d & ch & g & ko & ke & kr & -> & Hc & E)|(q & pr & d & ch & g & ki & ke & kr & -> & Hc & E)]]]].
      * apply KC. eapply (pv_pd _ V); eauto.
      * lia.
      * pose proof (p_pump_cur _ _ _ _ Hc) as X. cbn [step] in H. rewrite Hc in H.
        destruct X as [(E0 & ->)|[(E0 & ->)|[(E0 & ->)|(E0 & ->)]]]; cbn [targets In] in Hin; try lia.
        eapply close_effect; eauto. destruct (pv_b _ V) as (c0 & Hc0 & _). congruence.
      * exfalso. destruct (p_pump_cur _ _ _ _ Hc) as [(_ & E1)|[(_ & E1)|[(_ & E1)|(_ & E1)]]]; inv E1. lia.
      * exfalso. apply p_pump_cur in Hc. intuition discriminate.
  - (* the splitter passes to its close only after the input is exhausted *)
    intros pr' Hp' Hfin.
    assert (KEEP : nth_error (s_srcs s) 0 = Some [] -> nth_error (s_srcs s') 0 = Some []) by (eapply src_empty_step; eauto).
    destruct Hfin as [Ed|(Er & Epc)].
    + destruct (done_from _ _ _ _ _ _ H Hp' Ed) as [Same|(pr & d & Hc)].
      * apply KEEP. eapply (pv_e _ V); eauto.
      * apply KEEP. pose proof (p_pump_cur _ _ _ _ Hc) as X. apply cur_instr_inv in Hc as (Hp & _ & Hr & _).
        destruct X as [(_ & E)|[(_ & E)|[(_ & E)|(E3 & _)]]]; try discriminate. eapply (pv_e _ V); eauto. right. split; auto. lia.
    + destruct (pc_step _ _ _ _ _ _ H Hp' Er) as [Same|[(E0 & _)|[(arm & pr & d & i & -> & Hc & Hin)|[(q & pr & d & ch & g & ko & ke & kr & -> & Hc & E)|(q & pr & d & ch & g & ki & ke & kr & -> & Hc & E)]]]].
      * apply KEEP. eapply (pv_e _ V); eauto.
      * lia.
      * pose proof (p_pump_cur _ _ _ _ Hc) as X. pose proof Hc as Hc0. cbn [step] in H. rewrite Hc in H.
        apply cur_instr_inv in Hc as (Hp & _ & Hr & _).
        destruct X as [(E0 & ->)|[(E0 & ->)|[(E0 & ->)|(E0 & ->)]]]; cbn [targets In] in Hin; try lia.
        -- destruct (src_end_cause _ _ _ _ _ _ _ _ _ _ _ _ _ H Hp') as [E|[E|E]]; [lia| |apply KEEP; exact E|].
           ++ exfalso. eapply (pp_pump_sees_nothing s _ _ _ V Hc0); [lia|left; eauto].
           ++ exfalso. destruct (pv_len _ V) as (_ & L). apply nth_error_None in E. lia.
        -- exfalso. destruct (send_err_cause _ _ _ _ _ _ _ _ _ _ _ _ _ H Hp') as [E|E]; [lia| |].
           ++ eapply (pp_pump_sees_nothing s _ _ _ V Hc0); [lia|left; eauto].
           ++ eapply (pp_pump_sees_nothing s _ _ _ V Hc0); [lia|right; exact E].
        -- apply KEEP. eapply (pv_e _ V); eauto. right. split; auto. lia.
      * exfalso. destruct (p_pump_cur _ _ _ _ Hc) as [(_ & E1)|[(_ & E1)|[(_ & E1)|(_ & E1)]]]; inv E1. lia.
      * exfalso. apply p_pump_cur in Hc. intuition discriminate.
  - (* a worker past its first read has started the splitter *)
    intros j c' Hj Hc' Er Hpc.
    destruct (pc_step _ _ _ _ _ _ H Hc' Er) as [Same|[(E0 & _)|[(arm & pr & d & i & -> & Hc & Hin)|[(q & pr & d & ch & g & ko & ke & kr & -> & Hc & E)|(q & pr & d & ch & g & ki & ke & kr & -> & Hc & E)]]]].
    + eapply started_mono; eauto. eapply (pv_k _ V); eauto.
    + lia.
    + pose proof (p_worker_cur s j _ _ _ Hj Hc) as X. pose proof Hc as Hc0. apply cur_instr_inv in Hc as (Hp & _ & Hr & _).
      destruct X as [(E0 & ->)|[(E0 & ->)|[(E0 & ->)|[(E0 & ->)|[(E0 & ->)|(E0 & ->)]]]]]; cbn [targets In] in Hin;
        try lia; try (eapply started_mono; eauto; eapply (pv_k _ V); eauto; lia).
      eapply spawn_started; eauto. apply pp_proc_exists; auto. lia.
    + exfalso. apply (p_worker_cur s j) in Hc; auto. intuition discriminate.
    + pose proof (p_worker_cur s j _ _ _ Hj Hc) as X. apply cur_instr_inv in Hc as (Hp & _ & Hr & _).
      destruct X as [(_ & E1)|[(_ & E1)|[(E0 & E1)|[(_ & E1)|[(_ & E1)|(_ & E1)]]]]]; try discriminate.
      eapply started_mono; eauto. eapply (pv_k _ V); eauto. lia.
  - (* the caller's goroutine has launched the workers it is past *)
    intros c' Hc' Er j Hjp Hj.
    destruct (pc_step _ _ _ _ _ _ H Hc' Er) as [Same|[(E0 & _)|[(arm & pr & d & i & -> & Hc & Hin)|[(q & pr & d & ch & g & ko & ke & kr & -> & Hc & E)|(q & pr & d & ch & g & ki & ke & kr & -> & Hc & E)]]]].
    + eapply started_mono; eauto. eapply (pv_rs _ V); eauto.
    + lia.
    + pose proof (p_runner_cur _ _ _ _ Hc) as X. pose proof Hc as Hc0. apply cur_instr_inv in Hc as (Hp & _ & Hr & _).
      destruct X as [(E0 & ->)|[(E0 & ->)|[(E0 & ->)|(E0 & ->)]]]; cbn [targets In] in Hin.
      * destruct Hin as [Hin|[]]. destruct (Nat.eq_dec j (p_pc pr)) as [->|Hne].
        -- eapply spawn_started; eauto. apply pp_proc_exists; auto. lia.
        -- eapply started_mono; eauto. eapply (pv_rs _ V); eauto. lia.
      * eapply started_mono; eauto. eapply (pv_rs _ V); eauto. lia.
      * eapply started_mono; eauto. eapply (pv_rs _ V); eauto. lia.
      * destruct Hin.
    + exfalso. apply p_runner_cur in Hc. intuition discriminate.
    + exfalso. apply p_runner_cur in Hc. intuition discriminate.
  - (* the caller's goroutine is past wg.Wait only when every worker has returned *)
    intros c' Hc' Hfin.
    assert (KW : workers_done s -> workers_done s') by (eapply workers_done_step; eauto).
    destruct Hfin as [Ed|(Er & Epc)].
    + destruct (done_from _ _ _ _ _ _ H Hc' Ed) as [Same|(pr & d & Hc)].
      * apply KW. eapply (pv_r _ V); eauto.
      * apply KW. pose proof (p_runner_cur _ _ _ _ Hc) as X. apply cur_instr_inv in Hc as (Hp & _ & Hr & _).
        destruct X as [(_ & E)|[(_ & E)|[(_ & E)|(E3 & _)]]]; try discriminate. eapply (pv_r _ V); eauto. right. split; auto. lia.
    + destruct (pc_step _ _ _ _ _ _ H Hc' Er) as [Same|[(E0 & _)|[(arm & pr & d & i & -> & Hc & Hin)|[(q & pr & d & ch & g & ko & ke & kr & -> & Hc & E)|(q & pr & d & ch & g & ki & ke & kr & -> & Hc & E)]]]].
      * apply KW. eapply (pv_r _ V); eauto.
      * lia.
      * pose proof (p_runner_cur _ _ _ _ Hc) as X. pose proof Hc as Hc0. cbn [step] in H. rewrite Hc in H.
        apply cur_instr_inv in Hc as (Hp & _ & Hr & _). apply KW.
        destruct X as [(E0 & ->)|[(E0 & ->)|[(E0 & ->)|(E0 & ->)]]]; cbn [targets In] in Hin; try lia.
        -- (* wg.Wait returned: the counter is zero *)
           cbn [exec] in H. destruct arm; [discriminate|]. destruct (s_wg s =? 0) eqn:Ew; [|discriminate]. apply Nat.eqb_eq in Ew.
           intros j Hj. destruct (pv_rs _ V pr Hp Hr j) as (w & Hw & Hws); [lia|auto|].
           exists w. split; auto. rewrite (gi_wg _ _ I) in Ew.
           pose proof (wgc_zero_inv _ _ _ _ _ Ew Hw (Pw j Hj) eq_refl) as Rb. unfold runb in Rb.
           destruct (p_st w) eqn:Est; auto; [contradiction|discriminate|exfalso; eapply (pv_na _ V); eauto].
        -- eapply (pv_r _ V); eauto. right. split; auto. lia.
      * exfalso. apply p_runner_cur in Hc. intuition discriminate.
      * exfalso. apply p_runner_cur in Hc. intuition discriminate.
Qed.

Lemma pp_init_worker input j c : nth_error (s_procs (pp_init n input)) (3 + j) = Some c -> c = idle.
Proof.
  intros Hc. unfold pp_init, mk_init in Hc; cbn [s_procs] in Hc. rewrite nth3 in Hc.
  apply nth_error_In in Hc. unfold idles in Hc. apply repeat_spec in Hc. exact Hc.
Qed.

Lemma pv_init input : pv (pp_init n input).
Proof.
  split.
  - intros p pr Hp. unfold pp_init, mk_init in Hp; cbn [s_procs] in Hp. apply nth_error_In in Hp.
    destruct Hp as [<-|[<-|[<-|Hin]]]; try discriminate. unfold idles in Hin. apply repeat_spec in Hin. subst. discriminate.
  - split; reflexivity.
  - eexists. split; [reflexivity|split; reflexivity].
  - reflexivity.
  - intros c [].
  - intros j c Hj Hc Hfin. apply pp_init_worker in Hc. subst. destruct Hfin as [E|(E & _)]; discriminate.
  - intros Hc. unfold pp_init in Hc. rewrite closedb_mk_init in Hc. discriminate.
  - intros pr Hp Hfin. cbn in Hp. inv Hp. destruct Hfin as [E|(E & _)]; discriminate.
  - intros pr Hp Hfin. cbn in Hp. inv Hp. destruct Hfin as [E|(E & _)]; discriminate.
  - intros j c Hj Hc Er _. apply pp_init_worker in Hc. subst. discriminate.
  - intros c Hc _ j Hjp _. cbn in Hc. inv Hc. cbn in Hjp. lia.
  - intros c Hc Hfin. cbn in Hc. inv Hc. cbn in Hfin. destruct Hfin as [E|(_ & E)]; [discriminate|lia].
Qed.

Lemma pv_ireach input s : ireach N (pp_init n input) s -> pv s.
Proof.
  induction 1 as [|s l s' R IH Hi H]; [apply pv_init|]. eapply pv_step; eauto. apply ireach_reach. exact R.
Qed.

Lemma runner_started input s : reach N (pp_init n input) s -> exists c, nth_error (s_procs s) 0 = Some c /\ p_st c <> PNotStarted.
Proof.
  induction 1 as [|s l s' R (c & Hc & Hs) H].
  - exists (running 1). split; [reflexivity|discriminate].
  - destruct (ctx_stable_step _ _ _ _ _ _ H Hc Hs) as (c' & H1 & _ & H3). eauto.
Qed.

(* C01_complete for ProcessParallel (n >= 1 workers): when the call has returned in a run that nothing aborted,
   the user's processor was handed a permutation of the input *)
Theorem pp_complete input s :
  reach N (pp_init n input) s -> s_stopped s = false -> all_done s -> Permutation (s_deliv s) input.
Proof.
  intros R Hs (AD & _). pose proof (pv_ireach input s (reach_unstopped _ _ _ R Hs)) as V.
  pose proof (hinv_pp input s R) as HI.
  destruct (runner_started input s R) as (c & Hc & Hns).
  assert (Dc : p_st c = PDone).
  { destruct (p_st c) eqn:E; auto; [contradiction|exfalso; eapply AD; eauto|exfalso; eapply (pv_na _ V); eauto]. }
  pose proof (pv_r _ V c Hc (or_introl Dc)) as W. destruct (W 0 Hn) as (w & Hw & Dw).
  pose proof (pv_cl _ V 0 w Hn Hw (or_introl Dw)) as Cl.
  destruct (pv_pp _ V Cl) as (pr & Hp & Hfin).
  assert (Dp : p_st pr = PDone) by (destruct Hfin as [E|(E & _)]; [auto|exfalso; eapply AD; eauto]).
  pose proof (pv_e _ V pr Hp (or_introl Dp)) as Es.
  destruct (pv_len _ V) as (Lc & Ls). destruct (pv_b _ V) as (c0 & Hc0 & _ & Hb).
  assert (Esrc : concat (s_srcs s) = []).
  { destruct (s_srcs s) as [|l0 [|]]; cbn in Ls; try lia. cbn in Es. inv Es. reflexivity. }
  assert (Ebuf : bufs (s_chans s) = []).
  { unfold bufs. destruct (s_chans s) as [|c1 [|]]; cbn in Lc; try lia. cbn in Hc0. inv Hc0. cbn. now rewrite Hb. }
  assert (Eh : hands (s_procs s) = []).
  { apply hands_none. intros q Hin. apply In_nth_error in Hin as (p & Hq).
    destruct (HI p q Hq) as [E|([E|E] & _)]; auto; exfalso; [eapply AD; eauto|eapply (pv_na _ V); eauto]. }
  pose proof (reach_conserves _ _ _ R) as P. unfold tokens in P at 1.
  rewrite Esrc, Ebuf, Eh, (pv_d _ V) in P. cbn [app] in P. rewrite app_nil_r in P.
  etransitivity; [exact P|]. unfold pp_init. rewrite tokens_mk_init; [cbn; now rewrite app_nil_r|apply hands_running_idles].
Qed.

(* deadlock freedom *)
Theorem pp_deadlock_free input s :
  reach N (pp_init n input) s -> s_stopped s = false -> quiescent N s -> all_done s.
Proof.
  intros R Hs Q. pose proof (pv_ireach input s (reach_unstopped _ _ _ R Hs)) as V.
  assert (I : ginv N s) by (eapply ginv_reach; eauto using wf_pp_net, ginv_pp_init).
  assert (STUCK : forall p pr d i, cur_instr N s p = Some (pr, d, i) -> (exists arm s', step N s (LStep p arm) = Some s') -> False).
  { intros p pr d i _ (arm & s' & E). rewrite (Q (LStep p arm) eq_refl) in E. discriminate. }
  assert (CUR : forall p pr, nth_error (s_procs s) p = Some pr -> p_st pr = PRun -> exists d i, cur_instr N s p = Some (pr, d, i)).
  { intros p pr Hp Hr. destruct (nth_error (n_procs N) p) as [d|] eqn:Hd.
    - pose proof (gi_pc _ _ I p pr d Hp Hd Hr) as Hpc.
      destruct (nth_error (d_prog d) (p_pc pr)) as [i|] eqn:Ei; [|apply nth_error_None in Ei; lia].
      exists d, i. apply cur_instr_mk; auto.
    - exfalso. apply nth_error_None in Hd. rewrite <- (gi_len _ _ I) in Hd.
      assert (p < length (s_procs s)) by (apply nth_error_Some; congruence). lia. }
  destruct (pv_b _ V) as (c0 & Hc0 & Hcap & Hb).
  (* 1: no worker is running *)
  assert (C1 : forall j c, j < n -> nth_error (s_procs s) (3 + j) = Some c -> p_st c <> PRun).
  { intros j c Hj Hc Er. destruct (CUR _ _ Hc Er) as (d & i & Hcur).
    destruct (p_worker_cur s j _ _ _ Hj Hcur) as [(_ & ->)|[(_ & ->)|[(Epc & ->)|[(_ & ->)|[(_ & ->)|(_ & ->)]]]]];
      try (eapply STUCK; eauto; apply (enabled_noguard N s _ _ _ _ Hcur); reflexivity).
    destruct (c_closed c0) eqn:Ecl;
      [eapply STUCK; eauto; exists false; eexists; cbn [step]; rewrite Hcur; cbn [exec]; rewrite Hc0, Hb, Ecl; reflexivity|].
    destruct (pv_k _ V j c Hj Hc Er) as (pr & Hp & Hps); [lia|].
    destruct (p_st pr) eqn:Ep; [contradiction| | |eapply (pv_na _ V); eauto].
    - destruct (CUR _ _ Hp Ep) as (dp & ip & Hpc).
      destruct (p_pump_cur _ _ _ _ Hpc) as [(_ & ->)|[(_ & ->)|[(_ & ->)|(_ & ->)]]];
        try (eapply STUCK; eauto; apply (enabled_noguard N s _ _ _ _ Hpc); reflexivity).
      destruct (p_hand pr) as [v|] eqn:Eh.
      + pose proof (Q (LRdv 1 (3 + j)) eq_refl) as X. cbn [step] in X. replace (1 =? 3 + j) with false in X by reflexivity.
        rewrite Hpc, Hcur, Eh, Hc0, Hcap, Ecl in X. cbn in X. discriminate.
      + eapply STUCK; eauto. exists false. cbn [step]. rewrite Hpc. cbn [exec]. rewrite Eh. eauto.
    - pose proof (pv_pd _ V pr Hp (or_introl Ep)) as X. unfold closedb in X. rewrite Hc0 in X. congruence. }
  (* 2: so the wait group is at zero and the caller's goroutine can step - unless it has returned *)
  assert (Hwg : s_wg s = 0).
  { rewrite (gi_wg _ _ I). apply wgc_zero. intros p pr d Hp Hd Hw.
    apply Pdesc in Hd as [(-> & ->)|[(-> & ->)|[(-> & ->)|(j & Hj & -> & ->)]]]; try discriminate.
    unfold runb. destruct (p_st pr) eqn:E; auto. exfalso. eapply C1; eauto. }
  destruct (runner_started input s R) as (c & Hc & Hns).
  assert (Dc : p_st c = PDone).
  { destruct (p_st c) eqn:Ec; auto; [contradiction| |exfalso; eapply (pv_na _ V); eauto]. exfalso.
    destruct (CUR _ _ Hc Ec) as (d & i & Hcur).
    destruct (p_runner_cur _ _ _ _ Hcur) as [(_ & ->)|[(_ & ->)|[(_ & ->)|(_ & ->)]]];
      try (eapply STUCK; eauto; apply (enabled_noguard N s _ _ _ _ Hcur); reflexivity).
    eapply STUCK; eauto. exists false. eapply wgwait_enabled; eauto. }
  (* 3: every worker has returned, the pipe is closed, the splitter is past its close *)
  pose proof (pv_r _ V c Hc (or_introl Dc)) as W. destruct (W 0 Hn) as (w & Hw & Dw).
  pose proof (pv_cl _ V 0 w Hn Hw (or_introl Dw)) as Cl.
  destruct (pv_pp _ V Cl) as (pr & Hp & Hfin).
  assert (S3 : forall p q, nth_error (s_procs s) p = Some q -> p_st q <> PRun).
  { intros p q Hq Er. destruct (CUR _ _ Hq Er) as (d & i & Hcur). pose proof Hcur as Hcur0.
    apply cur_instr_inv in Hcur as (_ & Hd & _ & Hi).
    apply Pdesc in Hd as [(-> & ->)|[(-> & ->)|[(-> & ->)|(j & Hj & -> & ->)]]].
    - rewrite Hc in Hq. inv Hq. congruence.
    - rewrite Hp in Hq. inv Hq. destruct Hfin as [E|(_ & Epc)]; [congruence|].
      destruct (p_pump_cur _ _ _ _ Hcur0) as [(E0 & _)|[(E0 & _)|[(E0 & _)|(_ & ->)]]]; try lia.
      eapply STUCK; eauto. apply (enabled_noguard N s _ _ _ _ Hcur0); reflexivity.
    - cbn [d_prog bg] in Hi. destruct (p_pc q) as [|k]; [|destruct k; discriminate]. cbn in Hi. inv Hi.
      eapply STUCK; eauto. apply (enabled_noguard N s _ _ _ _ Hcur0); reflexivity.
    - eapply C1; eauto. }
  split; [exact S3|].
  destruct (s_oncew s) as [|k] eqn:Eo; auto. exfalso.
  destruct (gi_once _ _ I) as (po & Hpo & Hnsp); [lia|].
  assert (Hd : is_done s (n_once N) = true).
  { unfold is_done. rewrite Hpo. destruct (p_st po) eqn:Est; auto; [exfalso; eapply S3; eauto|exfalso; eapply (pv_na _ V); eauto]. }
  pose proof (Q LOnceRel eq_refl) as Hs0. cbn [step] in Hs0. rewrite Eo, Hd in Hs0. discriminate.
Qed.

(* C04_finite_input_eof for ProcessParallel: an un-aborted run that can go no further has finished - the call has
   returned, no goroutine runs - and the processor was handed a permutation of the whole input *)
Theorem pp_finite_input_eof input s :
  reach N (pp_init n input) s -> s_stopped s = false -> quiescent N s -> all_done s /\ Permutation (s_deliv s) input.
Proof. intros R Hs Q. pose proof (pp_deadlock_free input s R Hs Q) as A. split; auto. eapply pp_complete; eauto. Qed.

Corollary pp_progress input s :
  reach N (pp_init n input) s -> s_stopped s = false -> ~ all_done s -> ~ quiescent N s.
Proof. intros R Hs NA Q. apply NA. eapply pp_deadlock_free; eauto. Qed.

End PP.
