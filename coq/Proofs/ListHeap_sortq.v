(* SortQuick: pop all, sort the element handles by item with a stable sort, re-append. *)
From FunV Require Import Base.Tac Base.ListX Model.SortSpec Model.ListHeap
  Proofs.ListHeap_ring Proofs.ListHeap_wf Proofs.ListHeap_splice Proofs.ListHeap_ops Proofs.ListHeap_obs
  Proofs.ListHeap_step Proofs.ListHeap_loops.
Local Open Scope Z_scope.

(* elements that are allocated, detached and ok: what Append accepts *)
Definition loose (w : world) (ns : list nat) : Prop :=
  NoDup ns /\ Forall (fun n => (n < nfresh w)%nat /\ nowner (nodes w n) = None /\ nok (nodes w n) = true) ns.

Lemma popall_loop_spec l :
  forall es w E fuel acc,
  WF w E -> (l < lfresh w)%nat -> E l = es -> (List.length es < fuel)%nat ->
  exists w', popall_loop fuel l acc w = Ret (rev acc ++ map Some es) w' /\
     WF w' (upd E l []) /\ same_data w w' /\
     (forall y, ~ In y es -> nowner (nodes w' y) = nowner (nodes w y)) /\
     Forall (fun n => nowner (nodes w' n) = None) es /\
     (forall l', l' <> l -> lists w' l' = lists w l').
Proof.
  induction es as [|x t IH]; intros w E fuel acc W Hl EQ Hf; (destruct fuel; [simpl in Hf; lia|]).
  - exists w. assert (Z0 : llen (lists w l) = 0) by (apply (WF_empty_len w E l W Hl); exact EQ).
    split; [simpl; unfold Len; mrun; rewrite Z0; simpl; rewrite app_nil_r; reflexivity|].
    split; [apply (WF_ext w E); [|exact W]; intros l0; unfold upd; destruct (Nat.eqb_spec l0 l) as [->|]; auto|].
    split; [apply same_data_refl|]. auto.
  - destruct (PopFront_cons w E l x t W Hl EQ) as (w1 & Run1 & W1 & SD1 & O1 & Ox1 & Len1 & Oth1).
    assert (Hl1 : (l < lfresh w1)%nat) by (rewrite (sd_lfresh _ _ SD1); exact Hl).
    destruct (IH w1 (upd E l t) fuel (Some x :: acc) W1 Hl1 (upd_same _ _ _) ltac:(simpl in Hf; lia))
      as (w2 & Run2 & W2 & SD2 & O2 & Od2 & Oth2).
    assert (Pos : 0 < llen (lists w l)).
    { pose proof (wf_lists _ _ W l Hl) as L. destruct (lroot (lists w l)); [destruct L as [_ Len _ _]; rewrite Len, EQ; simpl length; lia|].
      destruct L as [_ L]. congruence. }
    assert (NDx : ~ In x t).
    { pose proof (wf_lists _ _ W l Hl) as L. destruct (lroot (lists w l)); [|destruct L as [_ L]; congruence].
      destruct L as [[ND _] _ _ _]. rewrite EQ in ND. inv ND. inv H2. auto. }
    exists w2. split.
    { simpl. unfold Len. mrun. destruct (Z.ltb_spec 0 (llen (lists w l))); [|lia].
      rewrite Run1. refine (eq_trans Run2 _). simpl. rewrite <- app_assoc. reflexivity. }
    split; [eapply WF_ext; [|exact W2]; intros l0; unfold upd; destruct (Nat.eqb_spec l0 l); reflexivity|].
    split; [eapply same_data_trans; eauto|].
    split.
    { intros y Hy. rewrite O2, O1; auto; intros I; apply Hy; [left; auto|right; auto]. }
    split; [constructor; [rewrite O2 by exact NDx; exact Ox1|exact Od2]|].
    intros l0 H. rewrite Oth2, Oth1; auto.
Qed.

Lemma items_of_spec w es :
  items_of (map Some es) w = Ret (map (fun n => (n, nitem (nodes w n))) es) w.
Proof.
  induction es as [|x t IH]; [reflexivity|]. simpl. unfold Value. mrun. rewrite IH. reflexivity.
Qed.

Lemma appendall_loop_spec l :
  forall ns w E,
  WF w E -> (l < lfresh w)%nat -> loose w ns ->
  exists w', appendall_loop l ns w = Ret tt w' /\
     WF w' (upd E l (E l ++ ns)) /\ pres w w' /\ lfresh w' = lfresh w /\
     (forall l', l' <> l -> lists w' l' = lists w l').
Proof.
  induction ns as [|x t IH]; intros w E W Hl [ND LO].
  - exists w. split; [reflexivity|]. split.
    { apply (WF_ext w E); [|exact W]. intros l0. unfold upd. destruct (Nat.eqb_spec l0 l) as [->|]; [rewrite app_nil_r|]; reflexivity. }
    split; [apply pres_refl|auto].
  - inv ND. inv LO. destruct H3 as (Hx & Hox & Okx).
    destruct (Back_spec w E l W Hl) as (w1 & r & RunB & Run1 & Hr1 & W1).
    destruct (lazySetup_spec w E l W Hl) as (w1' & r' & Run1' & _ & _ & Ex1 & Hlf1 & Fr1 & _ & Oth1 & _).
    rewrite Run1 in Run1'. injection Run1' as <-.
    assert (Hl1 : (l < lfresh w1)%nat) by lia.
    destruct Ex1 as [Ex1 Ex1'].
    assert (Hx1 : (x < nfresh w1)%nat) by lia.
    destruct (Append_back w1 E l r x W1 Hl1 Hr1 Hx1 ltac:(rewrite Fr1; auto) ltac:(rewrite Fr1; auto))
      as (w2 & Run2 & W2 & SD2 & O2 & Len2 & Oth2).
    assert (Hl2 : (l < lfresh w2)%nat) by (rewrite (sd_lfresh _ _ SD2); exact Hl1).
    assert (LO2 : loose w2 t).
    { split; [exact H2|]. rewrite Forall_forall in *. intros y Hy. destruct (H4 y Hy) as (a & b & c).
      assert (y <> x) by (intros ->; auto).
      rewrite (sd_nfresh _ _ SD2), O2, (sd_ok _ _ SD2), Fr1 by auto. repeat split; auto. lia. }
    destruct (IH w2 (upd E l (E l ++ [x])) W2 Hl2 LO2) as (w3 & Run3 & W3 & P3 & Hlf3 & Oth3).
    exists w3. split.
    { simpl. unfold bind at 1. rewrite RunB. unfold bind at 1. rewrite Run2. exact Run3. }
    split.
    { eapply WF_ext; [|exact W3]. intros l0. unfold upd. destruct (Nat.eqb_spec l0 l) as [->|]; [|reflexivity].
      rewrite Nat.eqb_refl. rewrite <- app_assoc. reflexivity. }
    split; [apply (pres_trans w w1); [apply frame_pres; [split; auto|exact Fr1]|eapply pres_trans; [apply same_data_pres; exact SD2|exact P3]]|].
    split; [rewrite Hlf3, (sd_lfresh _ _ SD2); exact Hlf1|].
    intros l0 H. rewrite Oth3, Oth2, Oth1; auto.
Qed.

Arguments popall_loop : simpl never.

Section Quick.
Variable sorter : list (nat * Z) -> list (nat * Z).
Hypothesis sorter_perm : forall kv, Permutation (sorter kv) kv.

Definition keyed (w : world) (es : list nat) : list (nat * Z) := map (fun n => (n, nitem (nodes w n))) es.

Lemma SortQuickWith_spec w E l :
  WF w E -> (l < lfresh w)%nat ->
  exists w', SortQuickWith sorter l w = Ret tt w' /\
     WF w' (upd E l (map fst (sorter (keyed w (E l))))) /\ pres w w' /\ lfresh w' = lfresh w /\
     (forall l', l' <> l -> lists w' l' = lists w l').
Proof.
  intros W Hl.
  assert (Hf : (List.length (E l) < S (nfresh w + Z.to_nat (llen (lists w l))))%nat) by (pose proof (WF_len_bound w E l W Hl); lia).
  destruct (popall_loop_spec l (E l) w E _ [] W Hl eq_refl Hf) as (w1 & Run1 & W1 & SD1 & O1 & Od1 & Oth1).
  set (kv := keyed w (E l)).
  assert (Hl1 : (l < lfresh w1)%nat) by (rewrite (sd_lfresh _ _ SD1); exact Hl).
  assert (PM : Permutation (map fst (sorter kv)) (E l)).
  { rewrite (sorter_perm kv). unfold kv, keyed. rewrite map_map. simpl. rewrite map_id. reflexivity. }
  assert (LO : loose w1 (map fst (sorter kv))).
  { split.
    - apply (Permutation_NoDup (l := E l)); [symmetry; exact PM|].
      pose proof (wf_lists _ _ W l Hl) as L. destruct (lroot (lists w l)); [destruct L as [[ND _] _ _ _]; inv ND; auto|].
      destruct L as [_ ->]. constructor.
    - rewrite Forall_forall. intros y Hy. apply (Permutation_in _ PM) in Hy.
      pose proof (WF_elems_lt w E l W Hl) as F. rewrite Forall_forall in F, Od1.
      rewrite (sd_nfresh _ _ SD1), (sd_ok _ _ SD1). repeat split; auto.
      pose proof (wf_lists _ _ W l Hl) as L. destruct (lroot (lists w l)); [|destruct L as [_ L]; rewrite L in Hy; destruct Hy].
      destruct L as [_ _ _ Eok]. rewrite Forall_forall in Eok. auto. }
  destruct (appendall_loop_spec l _ w1 (upd E l []) W1 Hl1 LO) as (w2 & Run2 & W2 & P2 & Hlf2 & Oth2).
  exists w2. split.
  { unfold SortQuickWith, bind at 1, get. unfold bind at 1. rewrite Run1. simpl rev. simpl app.
    unfold bind at 1. rewrite items_of_spec.
    assert (KV : map (fun n => (n, nitem (nodes w1 n))) (E l) = kv).
    { unfold kv, keyed. apply map_ext. intros a. rewrite (sd_item _ _ SD1). reflexivity. }
    rewrite KV. exact Run2. }
  split.
  { eapply WF_ext; [|exact W2]. intros l0. unfold upd. destruct (Nat.eqb_spec l0 l) as [->|]; [|reflexivity].
    rewrite Nat.eqb_refl. reflexivity. }
  split; [eapply pres_trans; [apply same_data_pres; exact SD1|exact P2]|].
  split; [rewrite Hlf2; apply (sd_lfresh _ _ SD1)|]. intros l0 H. rewrite Oth2, Oth1; auto.
Qed.
End Quick.
