(* C11 - WorkerPool / HandlerWorkerPool: token conservation over the job queue and error surfacing. *)
From FunV Require Import Base.Tac Model.OrchestratorModel Proofs.Orchestrator_base.
Import Pool.

Definition hold (p : spl) : list nat := match p with SplHold j => [j] | _ => [] end.

Section Proofs.
Variable cf : conf.
Variable oc : nat -> outcome.
Notation step := (Pool.step cf oc).

Ltac open_step s e H :=
  destruct s as [c ic cl p q sp0 idl rc rn ex ab fin dr ac rr we he hf res]; destruct e; simpl in H; destr_step H;
  inversion H; subst; clear H; simpl in *.

(* every accepted job is in exactly one place, exactly once; nothing else is anywhere *)
Definition inv_tok (s : st) : Prop :=
  forall j, cnt j (queue s) + cnt j (hold (sp s)) + cnt j (recv s) + cnt j (running s)
            + cnt j (finished s) + cnt j (dropped s) = if memb j (accepted s) then 1 else 0.
Definition inv_ran (s : st) : Prop := forall j, ran s j = cnt j (running s) + cnt j (finished s).
Definition inv_drop (s : st) : Prop := dropped s <> [] -> cancelled s || icancel s = true.
Definition inv_ic (s : st) : Prop :=
  (icancel s = true -> aborted s = true \/ pc s = PReturned \/ pc s = PFinished) /\
  (aborted s = true -> exists j, In j (finished s) /\ continues cf oc j = false).
Definition inv_wk (s : st) : Prop :=
  (pc s = PNotStarted -> idle s = 0 /\ recv s = [] /\ running s = [] /\ exited s = 0 /\ sp s = SplOff) /\
  (pc s <> PNotStarted -> idle s + length (recv s) + length (running s) + exited s = nworkers cf) /\
  (pc s = PReturned \/ pc s = PFinished -> exited s = nworkers cf).
Definition inv_err (s : st) : Prop :=
  (forall j, In j (finished s) -> (to_wait cf oc j = true -> In j (werrs s)) /\ (to_handler cf oc j = true -> In j (herrs s))) /\
  (forall j, In j (werrs s) \/ In j (herrs s) -> fails (oc j) = true /\ In j (finished s)).
Definition inv_res (s : st) : Prop := pc s = PFinished -> result s = Some (werrs s).

Lemma inv_tok_step s e s' : inv_wk s -> inv_tok s -> step s e = Some s' -> inv_tok s'.
Proof.
  unfold inv_wk, inv_tok. intros (K1 & _) T H.
  open_step s e H; try assumption; phase_facts; intros j0; specialize (T j0).
  all: cnt_simpl; simpl in *; cnt_simpl.
  all: try (match goal with Hin : In ?i ?l |- context [rm1 ?i ?l] => pose proof (cnt_rm1 j0 i l Hin) end).
  all: try lia.
  - (* EAdd *)
    apply negb_true_iff in H0. rewrite Nat.eqb_sym.
    destruct (Nat.eqb_spec j0 j); simpl; [subst; rewrite H0 in T; lia|lia].
  - (* EStart *)
    destruct (K1 eq_refl) as (_ & _ & _ & _ & ->). simpl in T. cnt_simpl. lia.
Qed.

Lemma inv_ran_step s e s' : inv_ran s -> step s e = Some s' -> inv_ran s'.
Proof.
  unfold inv_ran. intros R H. open_step s e H; try assumption; phase_facts; intros j0; specialize (R j0).
  all: cnt_simpl; simpl in *; cnt_simpl.
  all: try (match goal with Hin : In ?i ?l |- context [rm1 ?i ?l] => pose proof (cnt_rm1 j0 i l Hin) end).
  all: try (unfold upd; rewrite (Nat.eqb_sym j0 j)).
  all: try (destruct (Nat.eqb_spec j j0); subst); try lia.
Qed.

Lemma inv_drop_step s e s' : inv_drop s -> step s e = Some s' -> inv_drop s'.
Proof.
  unfold inv_drop. intros D H. open_step s e H; try assumption; phase_facts; intros X.
  all: try (specialize (D X)); try reflexivity; try assumption.
  all: try (apply orb_true_iff in D; destruct D as [-> | ->]; simpl; auto using orb_true_r).
Qed.

Lemma inv_ic_step s e s' : inv_ic s -> step s e = Some s' -> inv_ic s'.
Proof.
  unfold inv_ic. intros (I1 & I2) H. open_step s e H; try (split; assumption); phase_facts.
  all: split; intros X; try discriminate.
  all: try (specialize (I1 X); destruct I1 as [?|[?|?]]; try discriminate; auto; fail).
  all: try (specialize (I2 X) as (j' & Hj & Hc); exists j'; split; [try (right); assumption|assumption]; fail).
  all: try (left; reflexivity); try tauto.
  all: try (exists j; split; [now left|assumption]).
Qed.

Lemma inv_wk_step s e s' : inv_wk s -> step s e = Some s' -> inv_wk s'.
Proof.
  unfold inv_wk. intros (K1 & K2 & K3) H. open_step s e H; try (repeat split; assumption); phase_facts.
  all: (split; [intros X1|split; [intros X2|intros X3]]).
  (* clause 1: still not started *)
  all: try discriminate X1.
  all: try (destruct (K1 X1) as (? & ? & ? & ? & ?); subst; simpl in *; try discriminate; try tauto;
            repeat split; auto; fail).
  (* clause 3 *)
  all: try (destruct X3 as [X3|X3]; discriminate X3).
  all: try (apply K3; assumption).
  all: try (apply K3; now left).
  all: try assumption.
  (* clause 2 *)
  all: try (specialize (K2 X2); simpl in *; try rewrite app_length in *; simpl in *;
            try (match goal with Hin : In ?i ?l |- _ => pose proof (length_rm1 i l Hin) end); lia).
  all: try (destruct (K1 eq_refl) as (? & ? & ? & ? & ?); subst; simpl; lia).
  all: try (specialize (K2 ltac:(discriminate)); lia).
  all: pose proof (K3 X3); assert (Hp : p <> PNotStarted) by (destruct X3; congruence); specialize (K2 Hp).
  all: try (match goal with Hin : In _ ?l |- _ => destruct l; [inversion Hin|simpl in *; lia] end).
  all: lia.
Qed.

(* a failure is handed to the collector or to the observer - unless it is a control-valued error of a job of
   the plain WorkerPool, which ProcessParallel consumes as a signal (finding C11:WorkerPool:control-error-dropped) *)
Lemma fails_surfaced j :
  fails (oc j) = true -> is_ctl (oc j) = false \/ handler cf = true ->
  to_wait cf oc j = true \/ to_handler cf oc j = true.
Proof.
  unfold to_wait, to_handler. destruct (oc j), (handler cf); simpl; intros F [G|G]; auto; discriminate.
Qed.
Lemma surfaced_fails j : to_wait cf oc j = true \/ to_handler cf oc j = true -> fails (oc j) = true.
Proof. unfold to_wait, to_handler. destruct (oc j), (handler cf); simpl; intuition discriminate. Qed.

Lemma inv_err_step s e s' : inv_err s -> step s e = Some s' -> inv_err s'.
Proof.
  unfold inv_err. intros (E1 & E2) H. open_step s e H; try (split; assumption); phase_facts.
  all: split; [intros j0 Hj0|intros j0 Hj0].
  (* EJobEnd: the four combinations of to_wait / to_handler *)
  all: try (destruct Hj0 as [<-|Hj0]; [split; intros; simpl; auto; congruence|
            destruct (E1 j0 Hj0) as [A B]; split; intros; simpl; auto]; fail).
  all: try (assert (Hx : In j0 we \/ In j0 he -> fails (oc j0) = true /\ In j0 (j :: fin))
              by (intros Z; destruct (E2 j0 Z); split; [assumption|now right]);
            simpl in Hj0;
            repeat match goal with Z : _ \/ _ |- _ => destruct Z as [Z|Z] end; subst;
            try (apply Hx; auto; fail);
            split; [apply surfaced_fails; auto|now left]; fail).
  (* EFinish *)
  all: try (destruct (E1 j0 Hj0) as [A B]; split; intros; auto; try (apply in_or_app; auto); fail).
  all: try (apply E2; destruct Hj0 as [Z|Z]; auto; apply in_app_or in Z; tauto).
  all: try (assert (Hj : fails (oc j) = true) by (apply surfaced_fails; auto)).
  all: assert (Hx : In j0 we \/ In j0 he -> fails (oc j0) = true /\ (j = j0 \/ In j0 fin))
         by (intros Z; destruct (E2 j0 Z); split; [assumption|now right]).
  all: simpl in Hj0; intuition (subst; auto).
Qed.

Lemma inv_res_step s e s' : inv_wk s -> inv_res s -> step s e = Some s' -> inv_res s'.
Proof.
  unfold inv_wk, inv_res. intros (_ & K2 & K3) R H.
  open_step s e H; try assumption; try discriminate; phase_facts; intros X; try discriminate X.
  all: try (apply R; assumption).
  all: try reflexivity.
  all: subst; specialize (K2 ltac:(discriminate)); specialize (K3 ltac:(auto));
       match goal with Hin : In _ ?l |- _ => destruct l; [inversion Hin|simpl in *; lia] end.
Qed.

Record inv (s : st) : Prop := {
  i_tok : inv_tok s; i_ran : inv_ran s; i_drop : inv_drop s; i_ic : inv_ic s; i_wk : inv_wk s;
  i_err : inv_err s; i_res : inv_res s }.

Lemma inv_init : inv init.
Proof.
  constructor; red; simpl.
  - intros j. reflexivity.
  - intros j. reflexivity.
  - congruence.
  - split; discriminate.
  - repeat split; intros X; try congruence. destruct X; discriminate.
  - split; intros j H; tauto.
  - discriminate.
Qed.

Lemma inv_step s e s' : inv s -> step s e = Some s' -> inv s'.
Proof.
  intros [T R D I K E F] H. constructor.
  - eapply inv_tok_step; eauto.
  - eapply inv_ran_step; eauto.
  - eapply inv_drop_step; eauto.
  - eapply inv_ic_step; eauto.
  - eapply inv_wk_step; eauto.
  - eapply inv_err_step; eauto.
  - eapply inv_res_step; eauto.
Qed.

Lemma reach_inv s : reach cf oc s -> inv s.
Proof. intros (tr & Htr). eapply invariant_run; [apply inv_step|apply inv_init|exact Htr]. Qed.
End Proofs.

(* ---------------------------------------------------------------- theorems *)

Definition pending (s : st) : list nat := queue s ++ hold (sp s) ++ recv s.

Lemma pool_job_at_most_once_lemma :
  forall (cf : conf) (oc : nat -> outcome) (s : st), reach cf oc s ->
    forall j, ran s j <= 1 /\ (ran s j = 1 -> In j (accepted s)).
Proof.
  intros cf oc s Hr j. destruct (reach_inv cf oc s Hr) as [T R _ _ _ _ _].
  specialize (T j). specialize (R j).
  destruct (memb j (accepted s)) eqn:M.
  - split; [lia|]. intros _. now apply memb_In.
  - split; lia.
Qed.

(* token conservation over the job queue: an accepted job is in exactly one of
   queue / splitter's hand / received / running / finished / abandoned, exactly once;
   it has run exactly once iff it is running or finished; it is abandoned only after the pool was
   stopped (context cancelled, or the pool's own cancel() after an abort / after Run returned).
   Hence a job accepted while the pool keeps running is either still pending or has run exactly
   once, and when nothing is pending or running every accepted job has run exactly once. *)
Lemma pool_job_exactly_once_while_running_lemma :
  forall (cf : conf) (oc : nat -> outcome) (s : st), reach cf oc s ->
    (forall j, In j (accepted s) ->
       cnt j (pending s) + cnt j (running s) + cnt j (finished s) + cnt j (dropped s) = 1 /\
       ran s j = cnt j (running s) + cnt j (finished s)) /\
    (cancelled s = false -> icancel s = false -> dropped s = []) /\
    (cancelled s = false -> icancel s = false -> forall j, In j (accepted s) ->
       (In j (pending s) /\ ran s j = 0) \/ ((In j (running s) \/ In j (finished s)) /\ ran s j = 1)) /\
    (cancelled s = false -> icancel s = false -> pending s = [] -> running s = [] ->
       forall j, In j (accepted s) -> ran s j = 1 /\ In j (finished s)) /\
    (icancel s = true ->
       (exists j, In j (finished s) /\ continues cf oc j = false) \/ pc s = PReturned \/ pc s = PFinished).
Proof.
  intros cf oc s Hr. destruct (reach_inv cf oc s Hr) as [T R D I K E F].
  assert (C : forall j, In j (accepted s) ->
       cnt j (pending s) + cnt j (running s) + cnt j (finished s) + cnt j (dropped s) = 1 /\
       ran s j = cnt j (running s) + cnt j (finished s)).
  { intros j Hj. specialize (T j). specialize (R j). apply memb_In in Hj. rewrite Hj in T.
    unfold pending. rewrite !cnt_app. split; lia. }
  assert (Dr : cancelled s = false -> icancel s = false -> dropped s = []).
  { intros C1 C2. destruct (dropped s) eqn:X; [reflexivity|].
    red in D. rewrite X, C1, C2 in D. simpl in D. discriminate D. congruence. }
  split; [exact C|]. split; [exact Dr|]. split; [|split].
  - intros C1 C2 j Hj. destruct (C j Hj) as [C3 C4]. rewrite (Dr C1 C2), cnt_nil in C3.
    destruct (Nat.eq_dec (cnt j (pending s)) 0) as [Z|Z].
    + right. split; [|lia].
      destruct (Nat.eq_dec (cnt j (running s)) 0); [right|left]; apply cnt_In; lia.
    + left. split; [apply cnt_In; lia|lia].
  - intros C1 C2 P0 R0 j Hj. destruct (C j Hj) as [C3 C4].
    rewrite (Dr C1 C2), P0, R0, !cnt_nil in C3. rewrite R0, cnt_nil in C4.
    split; [lia|apply cnt_In; lia].
  - intros X. destruct I as [I1 I2]. destruct (I1 X) as [Y|Y]; [left; now apply I2|now right].
Qed.

(* every failure of a job that ran is in the error returned by Wait or was passed to the handler - except a
   control-valued error (is / wraps io.EOF, a context error, ErrIteratorSkip) returned by a job of the plain
   WorkerPool, which the parallel-iteration code consumes as a signal (see the refutation below) *)
Lemma pool_job_errors_surfaced_lemma :
  forall (cf : conf) (oc : nat -> outcome) (s : st), reach cf oc s ->
    forall w h s', Pool.step cf oc s (EWaitRet w h) = Some s' ->
      (forall j, In j (finished s) -> fails (oc j) = true ->
         is_ctl (oc j) = false \/ handler cf = true -> In j w \/ In j h) /\
      (forall j, In j w \/ In j h -> fails (oc j) = true /\ ran s j = 1).
Proof.
  intros cf oc s Hr w h s' Hs. destruct (reach_inv cf oc s Hr) as [T R D I K [E1 E2] F].
  assert (X : same_set w (werrs s) = true /\ same_set h (herrs s) = true).
  { destruct s; simpl in *. destruct pc0; try discriminate. red in F. simpl in F. rewrite (F eq_refl) in Hs.
    destruct (same_set w werrs0), (same_set h herrs0); simpl in Hs; try discriminate. auto. }
  destruct X as [Sw Sh]. rewrite same_set_spec in Sw, Sh. split.
  - intros j Hj Fj G. destruct (E1 j Hj) as [A B].
    destruct (fails_surfaced cf oc j Fj G) as [Y|Y]; [left; apply Sw; auto|right; apply Sh; auto].
  - intros j Hj. assert (Z : In j (werrs s) \/ In j (herrs s)) by (destruct Hj; [left; now apply Sw|right; now apply Sh]).
    destruct (E2 j Z) as [Fj Hf]. split; [assumption|].
    pose proof (T j) as Tj. pose proof (R j) as Rj. apply cnt_In in Hf.
    destruct (memb j (accepted s)); lia.
Qed.

(* the unrestricted statement, and its refutation by the code-level model: a plain WorkerPool (even with
   ContinueOnError and ContinueOnPanic) whose only job returns io.EOF stops, and the error is reported nowhere *)
Definition pool_job_errors_surfaced_statement : Prop :=
  forall (cf : conf) (oc : nat -> outcome) (s : st), reach cf oc s ->
    forall w h s', Pool.step cf oc s (EWaitRet w h) = Some s' ->
      forall j, In j (finished s) -> fails (oc j) = true -> In j w \/ In j h.

Definition rf_cf := mkconf 1 false true true false.
Definition rf_oc (j : nat) : outcome := match j with 0 => CtlStop | _ => Ok end.
Definition rf_trace : list ev :=
  [EStart; EAdd 0; EAdd 1; ESplCheck; ESplPop; EHandoff; EJobBegin 0; EJobEnd 0; ERunReturn; ECloseQ; EFinish].

Lemma pool_job_errors_surfaced_refuted_lemma : ~ pool_job_errors_surfaced_statement.
Proof.
  intros H.
  destruct (run (Pool.step rf_cf rf_oc) init rf_trace) as [s|] eqn:E; [|vm_compute in E; discriminate].
  assert (Hr : reach rf_cf rf_oc s) by (exists rf_trace; exact E).
  vm_compute in E. inversion E; subst; clear E.
  specialize (H rf_cf rf_oc _ Hr [] [] _ eq_refl 0 (or_introl eq_refl) eq_refl).
  destruct H as [[]|[]].
Qed.
(* in that run the second accepted job is never run although the context was never cancelled from outside:
   the pool did not "keep running" (theorem pool_job_exactly_once_while_running: icancel follows the abort) *)
Example pool_control_error_stops_pool :
  exists s, run (Pool.step rf_cf rf_oc) init rf_trace = Some s /\ ran s 1 = 0 /\ queue s = [1]
            /\ cancelled s = false /\ icancel s = true /\ result s = Some [].
Proof. eexists. split; [vm_compute; reflexivity|]. repeat split. Qed.

(* progress: while the pool keeps running, a pending job is never stuck for a reason inside the pool -
   some step of the pipeline (splitter check / take / hand-off, a job beginning, a job ending) is enabled,
   unless every worker is occupied by a job that blocks until the cancellation. (That such an enabled step
   is eventually taken is scheduler fairness, which is trusted.) *)
Section Progress.
Variable cf : conf.
Variable oc : nat -> outcome.
Notation step := (Pool.step cf oc).

Definition inv_spl (s : st) : Prop :=
  (sp s = SplOff -> pc s = PNotStarted) /\
  (sp s = SplExited -> cancelled s = true \/ icancel s = true \/ closed s = true) /\
  (closed s = true -> cancelled s = true \/ pc s = PReturned \/ pc s = PFinished).

Lemma inv_spl_step s e s' : inv_spl s -> step s e = Some s' -> inv_spl s'.
Proof.
  unfold inv_spl. intros (S1 & S2 & S3) H.
  destruct s as [c ic cl p q sp0 idl rc rn ex ab fin dr ac rr we he hf res]; destruct e; simpl in H; destr_step H;
    inversion H; subst; clear H; simpl in *; try (repeat split; assumption).
  all: split; [intros X1|split; [intros X2|intros X3]]; try discriminate; auto.
  all: try (specialize (S2 X2)); try (specialize (S3 X3)); try tauto.
  all: try (apply orb_true_iff in Heqb; tauto).
  all: try (destruct S3 as [?|[?|?]]; try discriminate; tauto).
  all: try (destruct (c || ic) eqn:Y; [apply orb_true_iff in Y; tauto|]; simpl in *; try rewrite orb_false_r in *; tauto).
  all: try (specialize (S1 X1); discriminate).
  apply orb_true_iff in Heqb. destruct Heqb as [?|Y]; [now left|]. destruct p; try discriminate Y. right; now left.
Qed.

Lemma reach_inv_spl s : reach cf oc s -> inv_spl s.
Proof.
  intros (tr & Htr). eapply invariant_run; [apply inv_spl_step| |exact Htr].
  repeat split; simpl; intros; try discriminate; auto.
Qed.

Definition pipeline_step (e : ev) : Prop :=
  match e with ESplCheck | ESplPop | EHandoff | EJobBegin _ | EJobEnd _ => True | _ => False end.

Lemma pool_pending_progress_lemma s :
  reach cf oc s -> pc s = PRunning -> cancelled s = false -> icancel s = false -> pending s <> [] ->
  (exists e s', pipeline_step e /\ step s e = Some s') \/
  (idle s = 0 /\ recv s = [] /\ forall j, In j (running s) -> blocking (oc j) = true).
Proof.
  intros Hr Hp Hc Hi Hpend. destruct (reach_inv_spl s Hr) as (S1 & S2 & S3).
  destruct s as [c ic cl p q sp0 idl rc rn ex ab fin dr ac rr we he hf res]; simpl in *. subst.
  unfold pending in Hpend; simpl in Hpend.
  assert (Hrecv : rc <> [] -> exists e s', pipeline_step e /\ step
            (mk false false cl PRunning q sp0 idl rc rn ex ab fin dr ac rr we he hf res) e = Some s').
  { intros X. destruct rc as [|j rc']; [congruence|]. exists (EJobBegin j). simpl. rewrite Nat.eqb_refl. simpl.
    eexists. split; [exact I|reflexivity]. }
  destruct sp0 as [| | |j|].
  - specialize (S1 eq_refl). discriminate.
  - left. exists ESplCheck. simpl. eexists. split; [exact I|reflexivity].
  - destruct q as [|j q'].
    + simpl in Hpend. left. apply Hrecv. exact Hpend.
    + left. exists ESplPop. simpl. eexists. split; [exact I|reflexivity].
  - destruct idl as [|i'].
    + destruct rc as [|j' rc'].
      * destruct (existsb (fun x => negb (blocking (oc x))) rn) eqn:X.
        -- apply existsb_exists in X. destruct X as (x & Hx & Nb). left. exists (EJobEnd x). simpl.
           apply memb_In in Hx. rewrite Hx, Nb. simpl.
           destruct (continues cf oc x); eexists; (split; [exact I|reflexivity]).
        -- right. repeat split. intros x Hx.
           destruct (blocking (oc x)) eqn:B; [reflexivity|].
           assert (existsb (fun x => negb (blocking (oc x))) rn = true)
             by (apply existsb_exists; exists x; rewrite B; auto). congruence.
      * left. apply Hrecv. discriminate.
    + left. exists EHandoff. simpl. eexists. split; [exact I|reflexivity].
  - exfalso. destruct (S2 eq_refl) as [?|[?|Y]]; try discriminate.
    destruct (S3 Y) as [?|[?|?]]; discriminate.
Qed.
End Progress.

(* non-vacuity: 2 workers, continue on error and panic; five jobs, one added before the start, one
   failing, one panicking, one blocking, one added after the cancellation started and abandoned *)
Definition ex_cf := mkconf 2 false true true false.
Definition ex_oc (j : nat) : outcome := match j with 1 => Err | 2 => Pan | 3 => Blk | _ => Ok end.
Definition ex_trace : list ev :=
  [EAdd 0; EStart; ESplCheck; ESplPop; EHandoff; EAdd 1; EAdd 2; EJobBegin 0; ESplCheck; ESplPop; EHandoff;
   EJobBegin 1; EJobEnd 0; EJobEnd 1; ESplCheck; ESplPop; EHandoff; EAdd 3; ESplCheck; ESplPop; EHandoff;
   EJobBegin 3; EJobBegin 2; EJobEnd 2; EAdd 4; ESplCheck; ESplPop; ECancel; EDrop; EJobEnd 3;
   EWorkerExit; EWorkerExit; ERunReturn; ECloseQ; EAddRej 5; EFinish; EWaitRet [1; 2] []].
Example pool_nonvacuous :
  exists s, run (Pool.step ex_cf ex_oc) init ex_trace = Some s /\ pc s = PFinished
            /\ accepted s = [4; 3; 2; 1; 0] /\ finished s = [3; 2; 1; 0] /\ dropped s = [4]
            /\ result s = Some [2; 1].
Proof. eexists. split; [vm_compute; reflexivity|]. repeat split. Qed.
Example pool_accepts_example : Pool.accepts ex_cf ex_oc (filter observable ex_trace) = true.
Proof. vm_compute. reflexivity. Qed.
Example pool_rejects_job_twice :
  Pool.accepts ex_cf ex_oc [EStart; EAdd 0; EJobBegin 0; EJobEnd 0; EJobBegin 0] = false.
Proof. vm_compute. reflexivity. Qed.
(* handler pool: the failure goes to the observer at once, the panic to Wait and - possibly only after Wait
   has returned - to the observer through the service's ErrorHandler *)
Definition ex_cfh := mkconf 1 true false true false.
Example pool_handler_final_may_follow_wait :
  Pool.accepts ex_cfh ex_oc [EStart; EAdd 1; EJobBegin 1; EJobEnd 1; EAdd 2; EJobBegin 2; EJobEnd 2; ECancel; EWaitRet [2] [1]] = true /\
  Pool.accepts ex_cfh ex_oc [EStart; EAdd 1; EJobBegin 1; EJobEnd 1; EAdd 2; EJobBegin 2; EJobEnd 2; ECancel; EWaitRet [2] [1; 2]] = true /\
  Pool.accepts ex_cfh ex_oc [EStart; EAdd 1; EJobBegin 1; EJobEnd 1; EAdd 2; EJobBegin 2; EJobEnd 2; ECancel; EWaitRet [] [1; 2]] = false.
Proof. vm_compute. auto. Qed.
