(* Non-vacuity of the refined-network theorems: concrete terminated runs of each construct. *)
From FunV Require Import Base.Tac Model.WorkerConf Model.WorkerGroup.
From FunV Require Model.WorkerNet Proofs.WorkerNet_inv Proofs.WorkerNet_cont.
Import WorkerNet.

Definition ex_f (x : Z) : outcome :=
  if (x =? 2)%Z then outcome_of (PanicWrap id_eof) 2%Z false
  else if (x =? 4)%Z then outcome_of Plain 4%Z false else ORet None.

(* Map, one worker, continue mode: everything processed, the two failures reported, the three successes delivered *)
Example ex_map_continue :
  match exec_all (mkconf true true false []) false true 0 ex_f (init false 1 [1; 2; 3; 4; 5]%Z)
          (seq_sched (mkconf true true false []) false true 0 ex_f [1; 2; 3; 4; 5]%Z) with
  | Some s => terminated s = true /\ proc s = [1; 2; 3; 4; 5]%Z /\ map fst (res s) = [2; 4]%Z /\ delivered s = [1; 3; 5]%Z /\ lost s = []
  | None => False
  end.
Proof. vm_compute. repeat split. Qed.

(* Generate, two workers, abort mode: worker 0's call 2 panics (not continued); worker 1 had passed its
   ctx test before and starts one more call; after the cancel nobody starts anything *)
Example ex_gen_abort :
  match exec_all (mkconf false false false []) true true 5 ex_f (init true 2 [1; 2; 3; 4; 5]%Z)
          [KWCheck 1; KHandoff 1; KWCheck 0; KHandoff 0; KFinish 1; KSend 1; KWCheck 1; KFinish 0; KHandoff 1; KCancel 0;
           KFinish 1; KSendAbort 1; KRecv; KClose] with
  | Some s => terminated s = true /\ failed s = true /\ h_after s = 1 /\ r_win s = 0 /\ proc s = [1; 2; 3]%Z
              /\ map fst (res s) = [2]%Z /\ delivered s = [1]%Z /\ lost s = [3]%Z /\ inp s = [4; 5]%Z
  | None => False
  end.
Proof. vm_compute. repeat split. Qed.
