(* With ONE worker the network is deterministic up to stuttering: every terminated run ends with exactly
   the result and processed log of `seq_run`, the sequential reference that the correspondence run
   compares with the real ProcessParallel / Map / Generate at NumWorkers = 1. *)
From FunV Require Import Base.Tac Base.ListX Model.WorkerConf Model.WorkerGroup Proofs.WorkerConf_table Proofs.WorkerGroup_inv.
Open Scope nat_scope.

Section Seq.
Variable c : conf.
Variable eofc : bool.
Variable f : Z -> outcome.

Notation exec := (exec c eofc f).
Notation recorded := (recorded c f).
Notation seq_run := (seq_run c f).
Notation reach := (reach c eofc f).

Lemma seq_run_cons x rest :
  seq_run (x :: rest) =
  if continue (can_continue c (with_recover (f x)))
  then (recorded x ++ fst (seq_run rest), x :: snd (seq_run rest))
  else (recorded x, [x]).
Proof. simpl. destruct (continue _); [|reflexivity]. destruct (WorkerGroup.seq_run c f rest). reflexivity. Qed.

Lemma seq_run_nil : seq_run [] = ([], []).
Proof. reflexivity. Qed.

Opaque WorkerGroup.seq_run.

Definition rem (s : state) : list Z := busy (wk s) ++ hand (spl s) ++ inp s.

Definition inv_seq (input : list Z) (s : state) : Prop :=
  (closed s = true -> spl s = SDone) /\
  exists w, wk s = [w] /\
    match w with
    | WIdle | WBusy _ =>
        canc s = false /\ (spl s = SDone -> inp s = []) /\
        seq_run input = (res s ++ fst (seq_run (rem s)), proc s ++ snd (seq_run (rem s)))
    | WFailed | WDone => seq_run input = (res s, proc s)
    end.

Ltac exec_inv H :=
  unfold WorkerGroup.exec in H;
  repeat match type of H with
  | context [recover_wrapper (run_user ?o)] => rewrite (recover_returns o) in H
  | context [match ?x with _ => _ end] => destruct x eqn:?; try discriminate H
  end;
  inv H.

Lemma nth1 {A} (w : A) i v : nth_error [w] i = Some v -> i = 0 /\ v = w.
Proof. destruct i as [|[|i]]; simpl; intros H; try discriminate. inv H. auto. Qed.

Lemma inv_seq_step input s l s' : inv_seq input s -> exec s l = Some s' -> inv_seq input s'.
Proof.
  intros (Hcl & w & Hw & J) H. unfold inv_seq.
  destruct l.
  - (* LCheck *)
    exec_inv H; simpl.
    + split; [auto|]. exists w. split; [auto|]. destruct w; auto; destruct J as (Jc & _); congruence.
    + split; [intros G; specialize (Hcl G); congruence|]. exists w. split; [auto|].
      destruct w; auto; destruct J as (Jc & Js & Jr); (split; [auto|]); (split; [discriminate|]);
        unfold rem in *; simpl; rewrite Heqs0 in Jr; exact Jr.
  - (* LTake *)
    exec_inv H; simpl.
    + split; [auto|]. exists w. split; [auto|].
      destruct w; auto; destruct J as (Jc & Js & Jr); (split; [auto|]); (split; [auto|]);
        unfold rem in *; simpl; rewrite Heqs0, Heql in Jr; exact Jr.
    + split; [intros G; specialize (Hcl G); congruence|]. exists w. split; [auto|].
      destruct w; auto; destruct J as (Jc & Js & Jr); (split; [auto|]); (split; [discriminate|]);
        unfold rem in *; simpl; rewrite Heqs0, Heql in Jr; exact Jr.
  - (* LHandoff *)
    exec_inv H; simpl; rewrite Hw in *; apply nth1 in Heqo; destruct Heqo as [-> E]; subst w; simpl;
      (split; [intros G; specialize (Hcl G); congruence|]); eexists; (split; [reflexivity|]);
      destruct J as (Jc & Js & Jr); (split; [auto|]); (split; [discriminate|]);
      unfold rem in *; simpl in *; rewrite Heqs0 in Jr; rewrite ?Hw in Jr; simpl in Jr; exact Jr.
  - (* LObsSplit *)
    exec_inv H; simpl. split; [auto|]. exists w. split; [auto|].
    destruct w; auto; destruct J as (Jc & _); congruence.
  - (* LFinish *)
    exec_inv H; simpl; rewrite Hw in *; apply nth1 in Heqo; destruct Heqo as [-> E]; subst w; simpl;
      (split; [exact Hcl|]); eexists; (split; [reflexivity|]);
      destruct J as (Jc & Js & Jr); unfold rem in *; rewrite ?Hw in Jr; simpl in *; rewrite seq_run_cons in Jr;
      match goal with Hb : continue _ = _ |- _ => rewrite Hb in Jr end; simpl in Jr;
      rewrite <- ?app_assoc; simpl; try exact Jr; try (repeat split; auto; exact Jr).
  - (* LCancel *)
    exec_inv H; simpl; rewrite Hw in *; apply nth1 in Heqo; destruct Heqo as [-> E]; subst w; simpl.
    split; [exact Hcl|]. eexists; split; [reflexivity|]. exact J.
  - (* LWorkerEof *)
    exec_inv H; simpl; rewrite Hw in *; apply nth1 in Heqo; destruct Heqo as [-> E]; subst w; simpl.
    split; [exact Hcl|]. eexists; split; [reflexivity|].
    destruct J as (Jc & Js & Jr). specialize (Hcl eq_refl). specialize (Js Hcl).
    unfold rem in Jr. rewrite Hw, Hcl, Js in Jr. simpl in Jr. rewrite seq_run_nil in Jr. simpl in Jr. rewrite !app_nil_r in Jr. exact Jr.
  - (* LObsWorker *)
    exec_inv H; simpl; rewrite Hw in *; apply nth1 in Heqo; destruct Heqo as [-> E]; subst w.
    destruct J as (Jc & _). congruence.
Qed.

Lemma inv_seq_reach input s : reach (init 1 input) s -> inv_seq input s.
Proof.
  induction 1.
  - unfold inv_seq, init, rem. simpl. split; [discriminate|]. exists WIdle. repeat split; auto; try discriminate.
    destruct (WorkerGroup.seq_run c f input). simpl. reflexivity.
  - eapply inv_seq_step; eauto.
Qed.

Theorem single_worker_deterministic input s :
  reach (init 1 input) s -> terminated s = true -> (res s, proc s) = seq_run input.
Proof.
  intros R T. destruct (inv_seq_reach _ _ R) as (Hcl & w & Hw & J).
  unfold terminated in T. destruct (spl s) eqn:Es; try discriminate. rewrite Hw in T. simpl in T.
  destruct w; try discriminate. symmetry. exact J.
Qed.

(* ... and a terminated one-worker run exists whenever the group is cancelled or the input is read to
   its end: the canonical schedule (non-vacuity is shown on an instance in WorkerGroup_inv.v). *)
End Seq.
