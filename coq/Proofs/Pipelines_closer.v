(* C01_no_early_close for the networks whose init operation launches n workers under a wait group and
   a closer goroutine  wg.Wait(ctx); cancel(); out.Close()  (Map, MergeIterators, GenerateParallel). *)
From FunV Require Import Base.Tac Base.ListX Model.Pipelines
  Proofs.Pipelines_conserve Proofs.Pipelines_quiesce Proofs.Pipelines_nets Proofs.Pipelines_complete.

Definition closedb (s : state) (ch : chid) : bool :=
  match nth_error (s_chans s) ch with Some c => c_closed c | None => false end.

Definition stb (s : state) (p : pid) : option pstatus :=
  match nth_error (s_procs s) p with Some pr => Some (p_st pr) | None => None end.

(* a goroutine that has returned is never touched again *)
Lemma done_untouched N s l s' p pr :
  step N s l = Some s' -> nth_error (s_procs s) p = Some pr -> p_st pr = PDone -> nth_error (s_procs s') p = Some pr.
Proof.
  intros H Hp Hd. destruct l; cbn [step] in H.
  - destruct (cur_instr N s p0) as [[[qr d] i]|] eqn:Ec; [|discriminate].
    apply cur_instr_inv in Ec as (Hq & _ & Hr & _).
    assert (p <> p0) by (intros ->; rewrite Hp in Hq; inv Hq; congruence).
    pose proof (exec_shape _ _ _ _ _ _ _ _ Hq Hr H) as Hsh.
    destruct Hsh as [pr' E1 _ _ _ | pr' _ _ _ E1 _ _ | q qp c pr' _ Hqq Hqs _ _ E1 _ _ _ | q g k qp pr' _ _ _ E1 _ _ _];
      rewrite E1; rewrite ?nth_error_upd_other; auto.
    intros ->. rewrite Hp in Hqq. inv Hqq. congruence.
  - destruct (p0 =? q) eqn:Epq; [discriminate|].
    destruct (cur_instr N s p0) as [[[qr d] i]|] eqn:Ec; [|discriminate]. destruct i; try discriminate.
    destruct (cur_instr N s q) as [[[qr2 dq] iq]|] eqn:Eq; [|discriminate]. destruct iq; try discriminate.
    apply cur_instr_inv in Ec as (Hq & _ & Hr & _). apply cur_instr_inv in Eq as (Hq2 & _ & Hr2 & _).
    assert (p0 <> p) by (intros ->; rewrite Hp in Hq; inv Hq; congruence).
    assert (q <> p) by (intros ->; rewrite Hp in Hq2; inv Hq2; congruence).
    exec_cases H. inv H. unfold setp, set_procs, dropped, set_drop; cbn [s_procs].
    rewrite !nth_error_upd_other by assumption. exact Hp.
  - exec_cases H. inv H. exact Hp.
  - inv H. exact Hp.
  - inv H. exact Hp.
  - exec_cases H; inv H. unfold set_stopped, setp, set_procs; cbn [s_procs].
    rewrite nth_error_upd_other; auto. intros ->. congruence.
Qed.

(* a goroutine is started only by an ISpawn / IGoOnce naming it *)
Lemma started_by N s l s' q qp qp' :
  step N s l = Some s' -> nth_error (s_procs s) q = Some qp -> p_st qp = PNotStarted ->
  nth_error (s_procs s') q = Some qp' -> p_st qp' <> PNotStarted ->
  exists p arm pr d g k, l = LStep p arm /\ cur_instr N s p = Some (pr, d, ISpawn q g k) \/
                         l = LStep p arm /\ cur_instr N s p = Some (pr, d, IGoOnce q g k).
Proof.
  intros H Hq Hs Hq' Hs'. destruct l; cbn [step] in H.
  - destruct (cur_instr N s p) as [[[pr d] i]|] eqn:Ec; [|discriminate].
    pose proof Ec as Ec0. apply cur_instr_inv in Ec as (Hp & _ & Hr & _).
    assert (q <> p) by (intros ->; rewrite Hp in Hq; inv Hq; congruence).
    pose proof (exec_shape _ _ _ _ _ _ _ _ Hp Hr H) as Hsh.
    destruct Hsh as [pr' E1 _ _ _ | pr' _ _ _ E1 _ _ | q0 qp0 c pr' _ Hqq Hqs _ (g & k & Hi) E1 _ _ _ | q0 g k qp0 pr' _ _ _ E1 _ _ _];
      rewrite E1 in Hq'; try (rewrite nth_error_upd_other in Hq' by auto; rewrite Hq in Hq'; inv Hq'; contradiction).
    rewrite nth_error_upd_other in Hq' by auto. destruct (Nat.eq_dec q0 q) as [->|Hn].
    + exists p, arm, pr, d, g, k. destruct Hi as [->| ->]; auto.
    + rewrite nth_error_upd_other in Hq' by auto. rewrite Hq in Hq'. inv Hq'. contradiction.
  - exfalso. destruct (p =? q0) eqn:Epq; [discriminate|].
    destruct (cur_instr N s p) as [[[qr d] i]|] eqn:Ec; [|discriminate]. destruct i; try discriminate.
    destruct (cur_instr N s q0) as [[[qr2 dq] iq]|] eqn:Eq; [|discriminate]. destruct iq; try discriminate.
    apply cur_instr_inv in Ec as (Hp & _ & Hr & _). apply cur_instr_inv in Eq as (Hq2 & _ & Hr2 & _).
    assert (p <> q) by (intros ->; rewrite Hp in Hq; inv Hq; congruence).
    assert (q0 <> q) by (intros ->; rewrite Hq2 in Hq; inv Hq; congruence).
    exec_cases H. inv H. unfold setp, set_procs, dropped, set_drop in Hq'; cbn [s_procs] in Hq'.
    rewrite !nth_error_upd_other in Hq' by assumption. rewrite Hq in Hq'. inv Hq'. contradiction.
  - exfalso. exec_cases H. inv H. cbn in Hq'. rewrite Hq in Hq'. inv Hq'. contradiction.
  - exfalso. inv H. cbn in Hq'. rewrite Hq in Hq'. inv Hq'. contradiction.
  - exfalso. inv H. cbn in Hq'. rewrite Hq in Hq'. inv Hq'. contradiction.
  - exfalso. exec_cases H; inv H. unfold set_stopped, setp, set_procs in Hq'; cbn [s_procs] in Hq'.
    rewrite nth_error_upd_other in Hq'; [rewrite Hq in Hq'; inv Hq'; contradiction|]. intros ->. congruence.
Qed.

(* a channel becomes closed only by an IClose naming it *)
Lemma closed_by N s l s' ch :
  step N s l = Some s' -> closedb s ch = false -> closedb s' ch = true ->
  exists p pr d k, l = LStep p false /\ cur_instr N s p = Some (pr, d, IClose ch k).
Proof.
  intros H H0 H1. destruct l; cbn [step] in H.
  - destruct (cur_instr N s p) as [[[pr d] i]|] eqn:Ec; [|discriminate].
    destruct i; cbn [exec] in H; exec_cases H; inv H;
      unfold closedb, start in *; cbv zeta in *;
      unfold setp, set_procs, dropped, set_drop, set_canc, set_chans, set_srcs, set_deliv, set_oncew, set_wg in *;
      repeat match goal with H : context [if ?b then _ else _] |- _ => destruct b end;
      cbn [s_chans] in *; try congruence;
      try match goal with
          | H : context [nth_error (upd _ ?c _) ch] |- _ =>
              destruct (Nat.eq_dec c ch) as [->|Hne];
              [erewrite nth_error_upd_same in H by eauto; cbn [c_closed] in H|rewrite nth_error_upd_other in H by auto]
          end; try congruence;
      try (match goal with E : nth_error (s_chans s) ch = Some _ |- _ => rewrite E in H0 end; congruence).
    exists p, pr, d, k. auto.
  - exfalso. destruct (p =? q); [discriminate|].
    destruct (cur_instr N s p) as [[[qr d] i]|]; [|discriminate]. destruct i; try discriminate.
    destruct (cur_instr N s q) as [[[qr2 dq] iq]|]; [|discriminate]. destruct iq; try discriminate.
    exec_cases H. inv H. unfold closedb in *. cbn in H1. congruence.
  - exfalso. exec_cases H. inv H. unfold closedb in *. cbn in H1. congruence.
  - exfalso. inv H. unfold closedb in *. cbn in H1. congruence.
  - exfalso. inv H. unfold closedb in *. cbn in H1. congruence.
  - exfalso. exec_cases H; inv H. unfold closedb in *. cbn in H1. congruence.
Qed.

Definition started (s : state) (q : pid) : Prop := exists pr, nth_error (s_procs s) q = Some pr /\ p_st pr <> PNotStarted.
Definition isdone (s : state) (q : pid) : Prop := exists pr, nth_error (s_procs s) q = Some pr /\ p_st pr = PDone.

Lemma started_mono N s l s' q : step N s l = Some s' -> started s q -> started s' q.
Proof. intros H (pr & Hp & Hs). destruct (ctx_stable_step _ _ _ _ _ _ H Hp Hs) as (pr' & H1 & _ & H2). exists pr'. auto. Qed.

Lemma isdone_mono N s l s' q : step N s l = Some s' -> isdone s q -> isdone s' q.
Proof. intros H (pr & Hp & Hs). exists pr. split; auto. eapply done_untouched; eauto. Qed.

Lemma cancelled_mono N s l s' c : step N s l = Some s' -> cancelledb N s c = true -> cancelledb N s' c = true.
Proof.
  unfold cancelledb. intros H Hc. apply existsb_exists in Hc as (a & Ha & Hd). apply existsb_exists. exists a. split; auto.
  eapply canc_mono; eauto.
Qed.

Definition involves (l : label) (p : pid) : Prop :=
  match l with LStep q _ => q = p | LRdv a b => a = p \/ b = p | LAbandon q => q = p | _ => False end.

(* a started goroutine that is not a party of the step is unchanged *)
Lemma frame_step N s l s' p pr :
  step N s l = Some s' -> nth_error (s_procs s) p = Some pr -> p_st pr <> PNotStarted -> ~ involves l p ->
  nth_error (s_procs s') p = Some pr.
Proof.
  intros H Hp Hs Hn. destruct l; cbn [step involves] in *.
  - destruct (cur_instr N s p0) as [[[qr d] i]|] eqn:Ec; [|discriminate].
    apply cur_instr_inv in Ec as (Hq & _ & Hr & _).
    pose proof (exec_shape _ _ _ _ _ _ _ _ Hq Hr H) as Hsh.
    destruct Hsh as [pr' E1 _ _ _ | pr' _ _ _ E1 _ _ | q qp c pr' _ Hqq Hqs _ _ E1 _ _ _ | q g k qp pr' _ _ _ E1 _ _ _];
      rewrite E1; rewrite ?nth_error_upd_other; auto.
    intros ->. rewrite Hp in Hqq. inv Hqq. contradiction.
  - destruct (p0 =? q); [discriminate|].
    destruct (cur_instr N s p0) as [[[qr d] i]|]; [|discriminate]. destruct i; try discriminate.
    destruct (cur_instr N s q) as [[[qr2 dq] iq]|]; [|discriminate]. destruct iq; try discriminate.
    exec_cases H. inv H. unfold setp, set_procs, dropped, set_drop; cbn [s_procs].
    rewrite !nth_error_upd_other; auto.
  - exec_cases H. inv H. exact Hp.
  - inv H. exact Hp.
  - inv H. exact Hp.
  - exec_cases H; inv H. unfold set_stopped, setp, set_procs; cbn [s_procs]. rewrite nth_error_upd_other; auto.
Qed.

Lemma wgc_zero_inv ps ds p pr d :
  wgc ps ds = 0 -> nth_error ps p = Some pr -> nth_error ds p = Some d -> d_wg d = true -> runb pr = false.
Proof.
  revert ds p; induction ps as [|a ps IH]; intros [|d0 ds] [|p] H H1 H2 Hw; simpl in *; try discriminate.
  - inv H1. inv H2. rewrite Hw in H. simpl in H. destruct (runb pr); [discriminate|reflexivity].
  - eapply IH; eauto. lia.
Qed.

(* ---- the consumer's program, by pc ---- *)
Definition cons_tail (n : nat) (out : chid) : list instr :=
  [ISpawn 2 GOwn (n + 2); IRecv out GOwn (n + 3) (n + 5) (n + 5); IDeliver (n + 4); ICheck GOwn (n + 2) (n + 6);
   ICancel 1 (n + 6); IExit].

Lemma cons_init_0 n out : nth_error (cons_init_prog n out) 0 = Some (ICheck GOwn 1 (n + 6)).
Proof. reflexivity. Qed.

Lemma cons_init_low n out k :
  1 <= k <= n -> nth_error (cons_init_prog n out) k = Some (ISpawn (3 + (k - 1)) (GId 2) (k + 1)).
Proof.
  intros Hk. unfold cons_init_prog. destruct k as [|k]; [lia|]. cbn [app nth_error].
  rewrite nth_error_app1 by (rewrite len_spawns; lia). unfold spawns.
  rewrite nth_error_map, (nth_error_nth' _ 0) by (rewrite seq_length; lia). rewrite seq_nth by lia. cbn.
  repeat f_equal; lia.
Qed.

Lemma cons_init_hi n out m : nth_error (cons_init_prog n out) (n + 1 + m) = nth_error (cons_tail n out) m.
Proof.
  unfold cons_init_prog. replace (n + 1 + m) with (S (n + m)) by lia. cbn [app nth_error].
  rewrite nth_error_app2 by (rewrite len_spawns; lia). rewrite len_spawns. replace (n + m - n) with m by lia. reflexivity.
Qed.

Lemma cons_instr_cases n out k i :
  nth_error (cons_init_prog n out) k = Some i ->
  (k = 0 /\ i = ICheck GOwn 1 (n + 6)) \/ (1 <= k <= n /\ i = ISpawn (3 + (k - 1)) (GId 2) (k + 1))
  \/ (exists m, k = n + 1 + m /\ nth_error (cons_tail n out) m = Some i).
Proof.
  intros H. destruct (Nat.eq_dec k 0) as [->|H0].
  - left. rewrite cons_init_0 in H. inv H. auto.
  - destruct (le_lt_dec k n) as [Hk|Hk].
    + right. left. rewrite cons_init_low in H by lia. inv H. split; [lia|reflexivity].
    + right. right. exists (k - (n + 1)). split; [lia|]. rewrite <- cons_init_hi. replace (n + 1 + (k - (n + 1))) with k by lia. exact H.
Qed.

(* targets of the consumer's tail instructions are all beyond the spawn phase *)
Lemma cons_tail_targets n out m i k : nth_error (cons_tail n out) m = Some i -> In k (targets i) -> n + 2 <= k.
Proof.
  intros H Hk. do 6 (destruct m as [|m]; [cbn in H; inv H; cbn in Hk; intuition lia|]). destruct m; discriminate.
Qed.

Lemma cons_tail_not_close n out m ch k : nth_error (cons_tail n out) m = Some (IClose ch k) -> False.
Proof. intros H. do 6 (destruct m as [|m]; [cbn in H; discriminate|]). destruct m; discriminate. Qed.

Lemma cons_tail_spawn2 n out m q g k :
  nth_error (cons_tail n out) m = Some (ISpawn q g k) \/ nth_error (cons_tail n out) m = Some (IGoOnce q g k) -> m = 0 /\ q = 2 /\ g = GOwn.
Proof.
  intros [H|H]; do 6 (destruct m as [|m]; [cbn in H; inv H; auto|]); destruct m; discriminate.
Qed.

Definition harmless (out : chid) (i : instr) : bool :=
  match i with
  | IClose ch _ => negb (ch =? out)
  | ISpawn q _ _ | IGoOnce q _ _ => negb (q =? 2)
  | _ => true
  end.

Lemma classic_step (l : label) : (exists arm, l = LStep 2 arm) \/ (forall arm, l <> LStep 2 arm).
Proof.
  destruct l as [p arm| | | | |]; try (right; intros; discriminate).
  destruct (Nat.eq_dec p 2) as [->|H]; [left; eauto|right; intros a E; inv E; congruence].
Qed.

Section Closer.
Variables (N : net) (n : nat) (out : chid).
Hypothesis Hc0 : nth_error (n_procs N) 0 = Some (usr (cons_init_prog n out)).
Hypothesis Hc2 : nth_error (n_procs N) 2 = Some (bg (closer_prog out)).
Hypothesis Hwk : forall j, j < n -> exists prog, nth_error (n_procs N) (3 + j) = Some (wgp prog).
Hypothesis Hharm : forall p d i, nth_error (n_procs N) p = Some d -> p <> 0 -> p <> 2 -> In i (d_prog d) -> harmless out i = true.
Hypothesis Hwf : wf_net N = true.

Definition cl_open (pr : proc) : Prop := p_st pr = PNotStarted \/ (p_st pr = PRun /\ p_pc pr = 0).
Definition cl_past (pr : proc) : Prop := p_st pr = PDone \/ (p_st pr = PRun /\ 1 <= p_pc pr).

Record cinv (s : state) : Prop := {
  ci_g : ginv N s;
  ci_cons : exists c, nth_error (s_procs s) 0 = Some c /\ p_st c <> PNotStarted /\ p_ctx c = 1;
  ci_spawned : forall c, nth_error (s_procs s) 0 = Some c -> p_st c = PRun -> 1 <= p_pc c <= n + 1 ->
                         forall j, j + 1 < p_pc c -> started s (3 + j);
  ci_closer : exists cl, nth_error (s_procs s) 2 = Some cl /\ (cl_open cl \/ cl_past cl);
  ci_cstart : forall cl, nth_error (s_procs s) 2 = Some cl -> p_st cl <> PNotStarted ->
                         p_ctx cl = 1 /\ forall j, j < n -> started s (3 + j);
  ci_open : forall cl, nth_error (s_procs s) 2 = Some cl -> cl_open cl -> closedb s out = false;
  ci_past : forall cl, nth_error (s_procs s) 2 = Some cl -> cl_past cl ->
                       cancelledb N s 1 = true \/ forall j, j < n -> isdone s (3 + j)
}.

(* who can be at which instruction *)
Lemma cur0 s c d i : cur_instr N s 0 = Some (c, d, i) -> nth_error (cons_init_prog n out) (p_pc c) = Some i.
Proof. intros H. apply cur_instr_inv in H as (_ & Hd & _ & Hi). rewrite Hc0 in Hd. inv Hd. exact Hi. Qed.

Lemma cur2 s c d i : cur_instr N s 2 = Some (c, d, i) -> nth_error (closer_prog out) (p_pc c) = Some i.
Proof. intros H. apply cur_instr_inv in H as (_ & Hd & _ & Hi). rewrite Hc2 in Hd. inv Hd. exact Hi. Qed.

Lemma cur_other s p c d i : cur_instr N s p = Some (c, d, i) -> p <> 0 -> p <> 2 -> harmless out i = true.
Proof. intros H H0 H2. apply cur_instr_inv in H as (_ & Hd & _ & Hi). eapply Hharm; eauto. eapply nth_error_In; eauto. Qed.

(* only the closer, at pc 2, closes out *)
Lemma close_out_who s p pr d k : cur_instr N s p = Some (pr, d, IClose out k) -> p = 2 /\ p_pc pr = 2.
Proof.
  intros H. destruct (Nat.eq_dec p 0) as [->|H0]; [|destruct (Nat.eq_dec p 2) as [->|H2]].
  - exfalso. apply cur0 in H. apply cons_instr_cases in H as [(_ & E)|[(_ & E)|(m & _ & E)]]; try discriminate.
    eapply cons_tail_not_close; eauto.
  - split; auto. apply cur2 in H. destruct (p_pc pr) as [|[|[|[|k0]]]]; cbn in H; try discriminate; auto. destruct k0; discriminate.
  - exfalso. pose proof (cur_other _ _ _ _ _ H H0 H2) as E. cbn in E. now rewrite Nat.eqb_refl in E.
Qed.

(* only the consumer, at pc n+1, starts the closer *)
Lemma spawn2_who s p pr d g k :
  cur_instr N s p = Some (pr, d, ISpawn 2 g k) \/ cur_instr N s p = Some (pr, d, IGoOnce 2 g k) ->
  p = 0 /\ p_pc pr = n + 1 /\ g = GOwn.
Proof.
  intros H. destruct (Nat.eq_dec p 0) as [->|H0]; [|destruct (Nat.eq_dec p 2) as [->|H2]].
  - split; auto. destruct H as [H|H]; apply cur0 in H; apply cons_instr_cases in H as [(_ & E)|[(Hk & E)|(m & Hm & E)]];
      try discriminate; try (inv E; lia).
    + destruct (cons_tail_spawn2 n out m 2 g k (or_introl E)) as (-> & _ & ->). split; [lia|auto].
    + destruct (cons_tail_spawn2 n out m 2 g k (or_intror E)) as (-> & _ & ->). split; [lia|auto].
  - exfalso. destruct H as [H|H]; apply cur2 in H; destruct (p_pc pr) as [|[|[|[|k0]]]]; cbn in H; try discriminate; destruct k0; discriminate.
  - exfalso. destruct H as [H|H]; pose proof (cur_other _ _ _ _ _ H H0 H2) as E; cbn in E; discriminate.
Qed.

Lemma closer_instr pc i : nth_error (closer_prog out) pc = Some i ->
  (pc = 0 /\ i = IWgWait (Some GOwn) 1) \/ (pc = 1 /\ i = ICancel 2 2) \/ (pc = 2 /\ i = IClose out 3) \/ (pc = 3 /\ i = IExit).
Proof. intros H. destruct pc as [|[|[|[|k]]]]; cbn in H; try (inv H; auto 6; fail). destruct k; discriminate. Qed.

(* the closer's own step, from any pc *)
Lemma closer_step s arm s' cl :
  step N s (LStep 2 arm) = Some s' -> nth_error (s_procs s) 2 = Some cl ->
  exists cl', nth_error (s_procs s') 2 = Some cl' /\ p_ctx cl' = p_ctx cl /\
              ((p_st cl' = PRun /\ p_pc cl' = S (p_pc cl)) \/ (p_st cl' = PDone /\ p_pc cl = 3)).
Proof.
  intros H Hcl. cbn [step] in H. destruct (cur_instr N s 2) as [[[pr d] i]|] eqn:Ec; [|discriminate].
  pose proof (cur2 _ _ _ _ Ec) as Hi. apply cur_instr_inv in Ec as (Hp & _ & Hr & _).
  rewrite Hcl in Hp. inv Hp.
  pose proof (exec_shape _ _ _ _ _ _ _ _ Hcl Hr H) as Hsh.
  apply closer_instr in Hi as [(E1 & ->)|[(E1 & ->)|[(E1 & ->)|(E1 & ->)]]];
    destruct Hsh as [pr' E _ _ (M1 & M2 & M3) | pr' X0 M1 M3 E _ _ | q qp c pr' _ _ _ _ (g & k & [X|X]) _ _ _ _ | q g k qp pr' X _ _ _ _ _ _];
    try discriminate; exists pr'; (split; [rewrite E; eapply nth_error_upd_same; eauto|]); (split; [exact M3|]);
    cbn [targets] in *; try (left; split; [exact M1|]; destruct M2 as [M2|[]]; lia); try (right; auto; fail);
    try (destruct M2).
Qed.

Lemma closer_not_rdv s p q s' : step N s (LRdv p q) = Some s' -> p <> 2 /\ q <> 2.
Proof.
  intros H. cbn [step] in H. destruct (p =? q); [discriminate|].
  destruct (cur_instr N s p) as [[[pr d] i]|] eqn:Ep; [|discriminate]. destruct i; try discriminate.
  destruct (cur_instr N s q) as [[[qr dq] iq]|] eqn:Eq; [|discriminate]. destruct iq; try discriminate.
  split; intros ->.
  - apply cur2 in Ep. apply closer_instr in Ep as [(_ & E)|[(_ & E)|[(_ & E)|(_ & E)]]]; discriminate.
  - apply cur2 in Eq. apply closer_instr in Eq as [(_ & E)|[(_ & E)|[(_ & E)|(_ & E)]]]; discriminate.
Qed.

Lemma closer_not_abandoned s s' : step N s (LAbandon 2) = Some s' -> False.
Proof. intros H. cbn [step] in H. rewrite Hc2 in H. destruct (nth_error (s_procs s) 2); cbn in H; discriminate. Qed.

(* unless the closer itself steps, it is unchanged once started *)
Lemma closer_frame s l s' cl :
  step N s l = Some s' -> nth_error (s_procs s) 2 = Some cl -> p_st cl <> PNotStarted ->
  (forall arm, l <> LStep 2 arm) -> nth_error (s_procs s') 2 = Some cl.
Proof.
  intros H Hcl Hs Hn. eapply frame_step; eauto. destruct l; cbn [involves]; auto.
  - intros ->. eapply Hn; eauto.
  - intros [->| ->]; apply closer_not_rdv in H; tauto.
  - intros ->. eapply closer_not_abandoned; eauto.
Qed.

Lemma cl_past_mono s l s' cl :
  step N s l = Some s' -> nth_error (s_procs s) 2 = Some cl -> cl_past cl ->
  exists cl', nth_error (s_procs s') 2 = Some cl' /\ cl_past cl'.
Proof.
  intros H Hcl Hp.
  destruct (classic_step l) as [(arm & ->)|Hn].
  - destruct (closer_step _ _ _ _ H Hcl) as (cl' & H1 & _ & [(A & B)|(A & B)]); exists cl'; split; auto; [right|left]; auto.
    split; auto. lia.
  - exists cl. split; auto. eapply closer_frame; eauto. destruct Hp as [E|(E & _)]; congruence.
Qed.

Lemma spawn_started s p arm s' pr d q g k :
  cur_instr N s p = Some (pr, d, ISpawn q g k) -> step N s (LStep p arm) = Some s' ->
  (exists qp, nth_error (s_procs s) q = Some qp) -> started s' q.
Proof.
  intros Hc H (qp & Hq). destruct (p_st qp) eqn:Est;
    try (eapply started_mono; eauto; exists qp; split; auto; congruence).
  pose proof Hc as Hc'. apply cur_instr_inv in Hc' as (Hp & _ & Hr & _).
  assert (p <> q) by (intros ->; rewrite Hp in Hq; inv Hq; congruence).
  cbn [step] in H. rewrite Hc in H. cbn [exec] in H. destruct arm; [discriminate|]. rewrite Hq, Est in H. inv H.
  exists (mkProc PRun 0 (p_hand qp) (resolve pr g)). split; [|discriminate].
  unfold setp, set_procs; cbn [s_procs]. rewrite start_procs. rewrite nth_error_upd_other by auto.
  eapply nth_error_upd_same; eauto.
Qed.

(* the closer is born at pc 0, under the consumer's context, after all workers were launched *)
Lemma closer_fresh s l s' cl cl' :
  cinv s -> step N s l = Some s' -> nth_error (s_procs s) 2 = Some cl -> p_st cl = PNotStarted ->
  nth_error (s_procs s') 2 = Some cl' -> p_st cl' <> PNotStarted ->
  p_st cl' = PRun /\ p_pc cl' = 0 /\ p_ctx cl' = 1 /\ forall j, j < n -> started s (3 + j).
Proof.
  intros I H Hcl Hs Hcl' Hs'.
  destruct (started_by _ _ _ _ _ _ _ H Hcl Hs Hcl' Hs') as (p & arm & pr & d & g & k & [(-> & Hc)|(-> & Hc)]).
  - destruct (spawn2_who _ _ _ _ _ _ (or_introl Hc)) as (-> & Hpc & ->).
    pose proof Hc as Hc'. apply cur_instr_inv in Hc' as (Hp & _ & Hr & _).
    destruct (ci_cons _ I) as (c & Hc0' & _ & Hctx). rewrite Hp in Hc0'. inv Hc0'.
    cbn [step] in H. rewrite Hc in H. cbn [exec] in H. destruct arm; [discriminate|]. rewrite Hcl, Hs in H. inv H.
    unfold setp, set_procs in Hcl'; cbn [s_procs] in Hcl'. rewrite start_procs in Hcl'.
    rewrite nth_error_upd_other in Hcl' by lia. erewrite nth_error_upd_same in Hcl' by eauto. inv Hcl'. cbn.
    repeat split; auto. intros j Hj. eapply (ci_spawned _ I c Hp Hr); lia.
  - destruct (spawn2_who _ _ _ _ _ _ (or_intror Hc)) as (-> & Hpc & ->).
    pose proof Hc as Hc'. apply cur_instr_inv in Hc' as (Hp & _ & Hr & _).
    destruct (ci_cons _ I) as (c & Hc0' & _ & Hctx). rewrite Hp in Hc0'. inv Hc0'.
    cbn [step] in H. rewrite Hc in H. cbn [exec] in H. destruct arm; [discriminate|]. rewrite Hcl, Hs in H. inv H.
    unfold setp, set_procs in Hcl'; cbn [s_procs] in Hcl'. rewrite start_procs in Hcl'.
    rewrite nth_error_upd_other in Hcl' by lia. erewrite nth_error_upd_same in Hcl' by eauto. inv Hcl'. cbn.
    repeat split; auto. intros j Hj. eapply (ci_spawned _ I c Hp Hr); lia.
Qed.

Lemma open_past_disjoint cl : cl_open cl -> cl_past cl -> False.
Proof. intros [A|(A & B)] [C|(C & D)]; try congruence; lia. Qed.

(* the closer is a background goroutine with a 4-instruction program: it is open or past *)
Lemma closer_classify s cl : ginv N s -> nth_error (s_procs s) 2 = Some cl -> cl_open cl \/ cl_past cl.
Proof.
  intros G Hcl. destruct (p_st cl) eqn:Est.
  - left. left. auto.
  - destruct (p_pc cl) eqn:Epc; [left; right; auto|right; right; split; auto; lia].
  - right. left. auto.
  - exfalso. pose proof (gi_ab _ _ G _ _ _ Hcl Hc2 Est) as E. discriminate.
Qed.

Lemma proc_exists s p : ginv N s -> (exists d, nth_error (n_procs N) p = Some d) -> exists pr, nth_error (s_procs s) p = Some pr.
Proof.
  intros G (d & Hd). destruct (nth_error (s_procs s) p) eqn:E; eauto. exfalso.
  apply nth_error_None in E. rewrite (gi_len _ _ G) in E. assert (p < length (n_procs N)) by (apply nth_error_Some; congruence). lia.
Qed.

Lemma consumer_after s l s' c c' :
  cinv s -> step N s l = Some s' -> nth_error (s_procs s) 0 = Some c -> nth_error (s_procs s') 0 = Some c' ->
  p_st c' = PRun -> 1 <= p_pc c' <= n + 1 ->
  c' = c \/ (exists arm, l = LStep 0 arm /\ p_st c = PRun /\
             ((p_pc c = 0 /\ p_pc c' = 1) \/
              (1 <= p_pc c <= n /\ p_pc c' = p_pc c + 1 /\ exists d, cur_instr N s 0 = Some (c, d, ISpawn (3 + (p_pc c - 1)) (GId 2) (p_pc c + 1))))).
Proof.
  intros I H Hc Hc' Hr' Hk.
  destruct (ci_cons _ I) as (c0 & Hc0' & Hns & _). rewrite Hc in Hc0'. injection Hc0' as E0. subst c0.
  assert (FR : ~ involves l 0 -> c' = c).
  { intros Hn. pose proof (frame_step _ _ _ _ _ _ H Hc Hns Hn) as F. rewrite F in Hc'. now inv Hc'. }
  destruct l.
  - destruct (Nat.eq_dec p 0) as [->|Hp]; [|left; apply FR; cbn; auto].
    right. exists arm. split; auto. cbn [step] in H.
    destruct (cur_instr N s 0) as [[[pr d] i]|] eqn:Ec; [|discriminate].
    pose proof (cur0 _ _ _ _ Ec) as Hi. pose proof Ec as Ec'. apply cur_instr_inv in Ec' as (Hp0 & _ & Hr & _).
    rewrite Hc in Hp0. inv Hp0. split; auto.
    pose proof (exec_shape _ _ _ _ _ _ _ _ Hc Hr H) as Hsh.
    assert (M : In (p_pc c') (targets i)).
    { destruct Hsh as [pr' E _ _ (M1 & M2 & M3) | pr' X0 M1 M3 E _ _ | q qp cc pr' Hq0 _ _ _ _ E _ _ (M1 & M2 & M3) | q g k qp pr' X _ _ E _ _ (M1 & M2 & M3)];
        rewrite E in Hc'; erewrite nth_error_upd_same in Hc' by (try rewrite nth_error_upd_other by auto; eauto); inv Hc'; auto.
      congruence. }
    apply cons_instr_cases in Hi as [(E0 & ->)|[(Hk0 & ->)|(m & Hm & Et)]].
    + left. split; auto. cbn in M. destruct M as [M|[M|[]]]; lia.
    + right. split; [exact Hk0|]. split; [cbn in M; destruct M as [M|[]]; lia|]. exists d. reflexivity.
    + exfalso. pose proof (cons_tail_targets _ _ _ _ _ Et M). lia.
  - (* rendezvous: the consumer can only be the receiver, and then it leaves the spawn phase *)
    destruct (Nat.eq_dec p 0) as [->|Hp]; [|destruct (Nat.eq_dec q 0) as [->|Hq]].
    + exfalso. cbn [step] in H. destruct (0 =? q); [discriminate|].
      destruct (cur_instr N s 0) as [[[pr d] i]|] eqn:Ec; [|discriminate]. destruct i; try discriminate.
      apply cur0 in Ec. apply cons_instr_cases in Ec as [(_ & E)|[(_ & E)|(m & _ & E)]]; try discriminate.
      do 6 (destruct m as [|m]; [cbn in E; discriminate|]). destruct m; discriminate.
    + exfalso. cbn [step] in H. destruct (p =? 0) eqn:Ep0; [discriminate|].
      destruct (cur_instr N s p) as [[[pr d] i]|] eqn:Ec; [|discriminate]. destruct i; try discriminate.
      destruct (cur_instr N s 0) as [[[qr dq] iq]|] eqn:Eq; [|discriminate]. destruct iq; try discriminate.
      pose proof (cur0 _ _ _ _ Eq) as Hi. apply cur_instr_inv in Eq as (Hq0 & _ & _ & _).
      exec_cases H. inv H. unfold setp, set_procs, dropped, set_drop in Hc'; cbn [s_procs] in Hc'.
      erewrite nth_error_upd_same in Hc' by (rewrite nth_error_upd_other by auto; eauto). inv Hc'. cbn [p_pc goto_h] in Hk.
      apply cons_instr_cases in Hi as [(_ & E)|[(_ & E)|(m & _ & E)]]; try discriminate.
      match type of E with _ = Some (IRecv _ _ ?ki _ _) => assert (n + 2 <= ki) by (eapply cons_tail_targets; eauto; cbn; auto) end. lia.
    + left. apply FR. cbn. tauto.
  - left. apply FR. cbn. auto.
  - left. apply FR. cbn. auto.
  - left. apply FR. cbn. auto.
  - destruct (Nat.eq_dec p 0) as [->|Hp]; [|left; apply FR; cbn; auto].
    exfalso. cbn [step] in H. rewrite Hc, Hc0 in H. cbn [usr d_user d_wg andb negb] in H. destruct (p_st c); inv H.
    unfold set_stopped, setp, set_procs in Hc'; cbn [s_procs] in Hc'. erewrite nth_error_upd_same in Hc' by eauto. inv Hc'. discriminate.
Qed.

Lemma worker_exists s j : ginv N s -> j < n -> exists pr, nth_error (s_procs s) (3 + j) = Some pr.
Proof. intros G Hj. apply proc_exists; auto. destruct (Hwk j Hj) as (prog & E). eauto. Qed.

Lemma cinv_step s l s' : cinv s -> step N s l = Some s' -> cinv s'.
Proof.
  intros I H. pose proof (ginv_step _ _ _ _ Hwf (ci_g _ I) H) as G'.
  destruct (ci_cons _ I) as (c & Hc & Hcs & Hcc). destruct (ci_closer _ I) as (cl & Hcl & Hclass).
  destruct (proc_exists s' 2 G' (ex_intro _ _ Hc2)) as (cl' & Hcl').
  (* facts about the closer across this step *)
  assert (CL : (p_st cl = PNotStarted /\ p_st cl' = PNotStarted)
               \/ (p_st cl = PNotStarted /\ p_st cl' = PRun /\ p_pc cl' = 0 /\ p_ctx cl' = 1 /\ forall j, j < n -> started s (3 + j))
               \/ (p_st cl <> PNotStarted /\ p_st cl' <> PNotStarted /\ p_ctx cl' = p_ctx cl)).
  { destruct (p_st cl) eqn:Est.
    - destruct (p_st cl') eqn:Est'; [left; auto| | |];
        (right; left; destruct (closer_fresh s l s' cl cl' I H Hcl Est Hcl') as (A & B & C & D); [congruence|]; rewrite A in *; try discriminate; auto).
    - right. right. destruct (ctx_stable_step _ _ _ _ _ _ H Hcl) as (x & Hx & Hxc & Hxs); [congruence|]. rewrite Hcl' in Hx. inv Hx. repeat split; auto; congruence.
    - right. right. destruct (ctx_stable_step _ _ _ _ _ _ H Hcl) as (x & Hx & Hxc & Hxs); [congruence|]. rewrite Hcl' in Hx. inv Hx. repeat split; auto; congruence.
    - right. right. destruct (ctx_stable_step _ _ _ _ _ _ H Hcl) as (x & Hx & Hxc & Hxs); [congruence|]. rewrite Hcl' in Hx. inv Hx. repeat split; auto; congruence. }
  split.
  - exact G'.
  - destruct (ctx_stable_step _ _ _ _ _ _ H Hc Hcs) as (c' & Hc' & Hcc' & Hcs'). exists c'. repeat split; auto. congruence.
  - (* ci_spawned *)
    intros c' Hc' Hr' Hk j Hj.
    destruct (consumer_after s l s' c c' I H Hc Hc' Hr' Hk) as [->|(arm & -> & Hr & [(A & B)|(A & B & d & Ec)])].
    + eapply started_mono; eauto. eapply (ci_spawned _ I c Hc Hr' Hk); eauto.
    + lia.
    + destruct (Nat.eq_dec (j + 1) (p_pc c)) as [E|E].
      * replace (3 + j) with (3 + (p_pc c - 1)) by lia.
        eapply spawn_started; eauto. apply worker_exists; [exact (ci_g _ I)|lia].
      * eapply started_mono; eauto. eapply (ci_spawned _ I c Hc Hr); lia.
  - exists cl'. split; auto. eapply closer_classify; eauto.
  - (* ci_cstart *)
    intros x Hx Hxs. rewrite Hcl' in Hx. inv Hx.
    destruct CL as [(_ & E)|[(_ & A & B & C & D)|(A & B & C)]]; [congruence| |].
    + split; auto. intros j Hj. eapply started_mono; eauto.
    + destruct (ci_cstart _ I cl Hcl A) as (E1 & E2). split; [congruence|]. intros j Hj. eapply started_mono; eauto.
  - (* ci_open *)
    intros x Hx Hop. rewrite Hcl' in Hx. inv Hx.
    destruct (closedb s' out) eqn:Ecl'; auto. exfalso.
    destruct (closedb s out) eqn:Ecl.
    + (* already closed: the closer was past pc 0 and stays so *)
      destruct Hclass as [Ho|Hp]; [rewrite (ci_open _ I cl Hcl Ho) in Ecl; discriminate|].
      destruct (cl_past_mono _ _ _ _ H Hcl Hp) as (y & Hy & Hyp). rewrite Hcl' in Hy. inv Hy.
      eapply open_past_disjoint; eauto.
    + destruct (closed_by _ _ _ _ _ H Ecl Ecl') as (p & pr & d & k & -> & Hcur).
      destruct (close_out_who _ _ _ _ _ Hcur) as (-> & Hpc).
      destruct (closer_step _ _ _ _ H Hcl) as (y & Hy & _ & Hst). rewrite Hcl' in Hy. inv Hy.
      apply cur_instr_inv in Hcur as (Hq & _ & _ & _). rewrite Hcl in Hq. inv Hq.
      destruct Hop as [E|(E1 & E2)]; destruct Hst as [(F1 & F2)|(F1 & F2)]; try congruence; lia.
  - (* ci_past *)
    intros x Hx Hpast. rewrite Hcl' in Hx. inv Hx.
    destruct Hclass as [Ho|Hp].
    + (* the closer passes wg.Wait(ctx) in this very step *)
      destruct (classic_step l) as [(arm & ->)|Hn].
      * assert (Hcur : exists d, cur_instr N s 2 = Some (cl, d, IWgWait (Some GOwn) 1)).
        { pose proof H as H0. cbn [step] in H0. destruct (cur_instr N s 2) as [[[pr d] i]|] eqn:Ec; [|discriminate].
          pose proof (cur2 _ _ _ _ Ec) as Hi. apply cur_instr_inv in Ec as (Hq & _ & Hr & _). rewrite Hcl in Hq. inv Hq.
          destruct Ho as [E|(_ & E)]; [congruence|]. rewrite E in Hi. cbn in Hi. inv Hi. eauto. }
        destruct Hcur as (d & Hcur). pose proof Hcur as Hcur'. apply cur_instr_inv in Hcur' as (_ & _ & Hr & _).
        destruct (ci_cstart _ I cl Hcl) as (Hctx & Hall); [congruence|].
        cbn [step] in H. rewrite Hcur in H. cbn [exec] in H. destruct arm.
        -- cbn [resolve] in H. rewrite Hctx in H. destruct (cancelledb N s 1) eqn:Ecanc; [|discriminate]. inv H.
           left. unfold cancelledb, setp, set_procs in *; cbn [s_canc] in *. exact Ecanc.
        -- destruct (s_wg s =? 0) eqn:Ewg; [|discriminate]. apply Nat.eqb_eq in Ewg. right. intros j Hj.
           destruct (Hall j Hj) as (w & Hw & Hws). destruct (Hwk j Hj) as (prog & Hprog).
           assert (Hrun : runb w = false).
           { apply (wgc_zero_inv (s_procs s) (n_procs N) (3 + j) w (wgp prog)); auto. rewrite <- (gi_wg _ _ (ci_g _ I)). exact Ewg. }
           assert (p_st w = PDone).
           { unfold runb in Hrun. destruct (p_st w) eqn:Est; auto; try congruence.
             pose proof (gi_ab _ _ (ci_g _ I) _ _ _ Hw Hprog Est) as E. discriminate. }
           assert (St : step N s (LStep 2 false) = Some s') by (cbn [step]; rewrite Hcur; cbn [exec]; rewrite Ewg; exact H).
           eapply isdone_mono; eauto. exists w. auto.
      * (* some other step: an open closer stays open *)
        exfalso. destruct CL as [(A & B)|[(A & B & C & _)|(A & B & C)]].
        -- destruct Hpast as [E|(E & _)]; congruence.
        -- destruct Hpast as [E|(E & F)]; [congruence|lia].
        -- pose proof (closer_frame _ _ _ _ H Hcl A Hn) as F. rewrite Hcl' in F. inv F. eapply open_past_disjoint; eauto.
    + destruct (ci_past _ I cl Hcl Hp) as [E|E]; [left; eapply cancelled_mono; eauto|right; intros j Hj; eapply isdone_mono; eauto].
Qed.

Hypothesis Hwg_only : forall p d, nth_error (n_procs N) p = Some d -> d_wg d = true -> exists j, j < n /\ p = 3 + j.

Lemma cinv_reach s0 s : cinv s0 -> reach N s0 s -> cinv s.
Proof. intros I R. induction R; auto. eapply cinv_step; eauto. Qed.

(* the output channel is closed only when the wait group is zero and every worker has returned -
   or the iterator's context was cancelled (Close / cancel: wg.Wait(ctx) gives up, documented) *)
Theorem no_early_close_gen s0 s :
  cinv s0 -> reach N s0 s -> closedb s out = true ->
  cancelledb N s 1 = true \/ (s_wg s = 0 /\ forall j, j < n -> isdone s (3 + j)).
Proof.
  intros I0 R Hcl. pose proof (cinv_reach _ _ I0 R) as I.
  destruct (ci_closer _ I) as (cl & Hc & [Ho|Hp]).
  - rewrite (ci_open _ I cl Hc Ho) in Hcl. discriminate.
  - destruct (ci_past _ I cl Hc Hp) as [E|E]; [left; exact E|right]. split; auto.
    rewrite (gi_wg _ _ (ci_g _ I)). apply wgc_zero. intros p pr d Hp0 Hd Hw.
    destruct (Hwg_only p d Hd Hw) as (j & Hj & ->). destruct (E j Hj) as (w & Hw1 & Hw2).
    rewrite Hp0 in Hw1. inv Hw1. unfold runb. now rewrite Hw2.
Qed.

End Closer.

(* ---- instances ---- *)
Lemma nth_workers {A} (a b c : A) (f : nat -> A) n j : j < n -> nth_error ([a; b; c] ++ map f (seq 0 n)) (3 + j) = Some (f j).
Proof. intros H. rewrite nth3, nth_error_map, (nth_error_nth' _ 0) by (rewrite seq_length; lia). now rewrite seq_nth by lia. Qed.

Lemma nth_workers_inv {A} (a b c : A) (f : nat -> A) n p x :
  nth_error ([a; b; c] ++ map f (seq 0 n)) p = Some x -> p = 0 /\ x = a \/ p = 1 /\ x = b \/ p = 2 /\ x = c \/ exists j, j < n /\ p = 3 + j /\ x = f j.
Proof.
  intros H. destruct p as [|[|[|j]]]; cbn in H; try (inv H; auto 6; fail).
  right. right. right. assert (j < n).
  { assert (j < length (map f (seq 0 n))) by (apply nth_error_Some; congruence). now rewrite map_length, seq_length in H0. }
  exists j. split; auto. split; auto. rewrite nth_error_map, (nth_error_nth' _ 0) in H by (rewrite seq_length; lia).
  rewrite seq_nth in H by lia. cbn in H. congruence.
Qed.


Lemma closedb_mk_init ps caps srcs ch : closedb (mk_init ps caps srcs) ch = false.
Proof.
  unfold closedb, mk_init; cbn [s_chans]. rewrite nth_error_map. destruct (nth_error caps ch); reflexivity.
Qed.

Lemma cinv_init N n out ps caps srcs :
  ginv N (mk_init ([running 1; idle; idle] ++ ps) caps srcs) -> cinv N n out (mk_init ([running 1; idle; idle] ++ ps) caps srcs).
Proof.
  intros G. split; auto.
  - exists (running 1). cbn. repeat split; auto. discriminate.
  - intros c Hc _ Hk. cbn in Hc. inv Hc. cbn in Hk. lia.
  - exists idle. split; [reflexivity|left; left; reflexivity].
  - intros cl Hcl Hs. cbn in Hcl. inv Hcl. contradiction Hs. reflexivity.
  - intros. apply closedb_mk_init.
  - intros cl Hcl [E|(E & _)]; cbn in Hcl; inv Hcl; discriminate.
Qed.

Lemma harmless_forall out prog i : forallb (harmless out) prog = true -> In i prog -> harmless out i = true.
Proof. intros H. rewrite forallb_forall in H. auto. Qed.

(* C01_no_early_close for fun.Map / Transform.ProcessParallel with n workers: the output channel (1) *)
Theorem map_no_early_close n input s :
  reach (map_net n) (map_init n input) s -> closedb s 1 = true ->
  cancelledb (map_net n) s 1 = true \/ (s_wg s = 0 /\ forall j, j < n -> isdone s (3 + j)).
Proof.
  intros R Hc.
  assert (A1 : nth_error (n_procs (map_net n)) 0 = Some (usr (cons_init_prog n 1))) by reflexivity.
  assert (A2 : nth_error (n_procs (map_net n)) 2 = Some (bg (closer_prog 1))) by reflexivity.
  assert (A3 : forall j, j < n -> exists prog, nth_error (n_procs (map_net n)) (3 + j) = Some (wgp prog)).
  { intros j Hj. exists (mapw_prog j). cbn [map_net n_procs]. apply (nth_workers _ _ _ (fun j => wgp (mapw_prog j))); auto. }
  assert (A4 : forall p d i, nth_error (n_procs (map_net n)) p = Some d -> p <> 0 -> p <> 2 -> In i (d_prog d) -> harmless 1 i = true).
  { intros p d i Hd H0 H2 Hi. cbn [map_net n_procs] in Hd.
    apply nth_workers_inv in Hd as [(-> & _)|[(-> & ->)|[(-> & _)|(j & _ & -> & ->)]]]; try congruence;
      eapply harmless_forall; eauto; reflexivity. }
  assert (A5 : forall p d, nth_error (n_procs (map_net n)) p = Some d -> d_wg d = true -> exists j, j < n /\ p = 3 + j).
  { intros p d Hd Hw. cbn [map_net n_procs] in Hd.
    apply nth_workers_inv in Hd as [(-> & ->)|[(-> & ->)|[(-> & ->)|(j & Hj & -> & ->)]]]; try discriminate. eauto. }
  exact (no_early_close_gen (map_net n) n 1 A1 A2 A3 A4 (wf_map_net n) A5 (map_init n input) s
           (cinv_init _ _ _ _ _ _ (ginv_map_init n input)) R Hc).
Qed.

(* ... and for MergeIterators (f = id) / GenerateParallel (f = const 0): the pipe (0) *)
Theorem fanin_no_early_close n f cap srcs s :
  reach (fanin_net n f) (fanin_init n cap srcs) s -> closedb s 0 = true ->
  cancelledb (fanin_net n f) s 1 = true \/ (s_wg s = 0 /\ forall j, j < n -> isdone s (3 + j)).
Proof.
  intros R Hc.
  assert (A1 : nth_error (n_procs (fanin_net n f)) 0 = Some (usr (cons_init_prog n 0))) by reflexivity.
  assert (A2 : nth_error (n_procs (fanin_net n f)) 2 = Some (bg (closer_prog 0))) by reflexivity.
  assert (A3 : forall j, j < n -> exists prog, nth_error (n_procs (fanin_net n f)) (3 + j) = Some (wgp prog)).
  { intros j Hj. exists (fanin_prog (f j) 0). cbn [fanin_net n_procs]. apply (nth_workers _ _ _ (fun j => wgp (fanin_prog (f j) 0))); auto. }
  assert (A4 : forall p d i, nth_error (n_procs (fanin_net n f)) p = Some d -> p <> 0 -> p <> 2 -> In i (d_prog d) -> harmless 0 i = true).
  { intros p d i Hd H0 H2 Hi. cbn [fanin_net n_procs] in Hd.
    apply nth_workers_inv in Hd as [(-> & _)|[(-> & ->)|[(-> & _)|(j & _ & -> & ->)]]]; try congruence;
      eapply harmless_forall; eauto; reflexivity. }
  assert (A5 : forall p d, nth_error (n_procs (fanin_net n f)) p = Some d -> d_wg d = true -> exists j, j < n /\ p = 3 + j).
  { intros p d Hd Hw. cbn [fanin_net n_procs] in Hd.
    apply nth_workers_inv in Hd as [(-> & ->)|[(-> & ->)|[(-> & ->)|(j & Hj & -> & ->)]]]; try discriminate. eauto. }
  exact (no_early_close_gen (fanin_net n f) n 0 A1 A2 A3 A4 (wf_fanin_net n f) A5 (fanin_init n cap srcs) s
           (cinv_init _ _ _ _ _ _ (ginv_fanin_init n f cap srcs)) R Hc).
Qed.

(* ... and for GenerateParallel (the worker with the explicit context test; any way the generator ends) *)
Theorem gen_no_early_close n e input s :
  reach (gen_net n e) (gen_init n input) s -> closedb s 0 = true ->
  cancelledb (gen_net n e) s 1 = true \/ (s_wg s = 0 /\ forall j, j < n -> isdone s (3 + j)).
Proof.
  intros R Hc.
  assert (A1 : nth_error (n_procs (gen_net n e)) 0 = Some (usr (cons_init_prog n 0))) by reflexivity.
  assert (A2 : nth_error (n_procs (gen_net n e)) 2 = Some (bg (closer_prog 0))) by reflexivity.
  assert (A3 : forall j, j < n -> exists prog, nth_error (n_procs (gen_net n e)) (3 + j) = Some (wgp prog)).
  { intros j Hj. exists (gen_prog e). cbn [gen_net n_procs]. apply (nth_workers _ _ _ (fun _ => wgp (gen_prog e))); auto. }
  assert (A4 : forall p d i, nth_error (n_procs (gen_net n e)) p = Some d -> p <> 0 -> p <> 2 -> In i (d_prog d) -> harmless 0 i = true).
  { intros p d i Hd H0 H2 Hi. cbn [gen_net n_procs] in Hd.
    apply nth_workers_inv in Hd as [(-> & _)|[(-> & ->)|[(-> & _)|(j & _ & -> & ->)]]]; try congruence;
      eapply harmless_forall; eauto; destruct e; reflexivity. }
  assert (A5 : forall p d, nth_error (n_procs (gen_net n e)) p = Some d -> d_wg d = true -> exists j, j < n /\ p = 3 + j).
  { intros p d Hd Hw. cbn [gen_net n_procs] in Hd.
    apply nth_workers_inv in Hd as [(-> & ->)|[(-> & ->)|[(-> & ->)|(j & Hj & -> & ->)]]]; try discriminate. eauto. }
  exact (no_early_close_gen (gen_net n e) n 0 A1 A2 A3 A4 (wf_gen_net n e) A5 (gen_init n input) s
           (cinv_init _ _ _ _ _ _ (ginv_gen_init n e input)) R Hc).
Qed.

(* non-vacuity: a finished Map run has its output closed, with the wait group at zero *)
Example map_closed_at_end :
  let s := run (map_net 2) 1000 0 false None (map_init 2 [1; 2; 3]%Z) in
  closedb s 1 = true /\ s_wg s = 0 /\ cancelledb (map_net 2) s 1 = true.
Proof. vm_compute. repeat split; auto. Qed.
