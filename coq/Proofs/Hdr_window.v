(* C19: window.go.  WindowedHistogram = n sections (a ring), Current = section idx mod n,
   Rotate = advance idx and Reset the section that becomes current (the oldest one),
   Merge = Reset the merged view and Merge every section into it.
   Theorems over arbitrary lists of calls (record into Current, Rotate, Merge):
   the merged view counts exactly the occurrences recorded in the current and the previous n-1
   rotation periods; two Merges without a call in between give Equal views; Rotate drops exactly
   the oldest period. *)
From FunV Require Import Base.Tac Model.Hdr Proofs.Hdr_bits Proofs.Hdr_geom Proofs.Hdr_walk Proofs.Hdr_data.
Local Open Scope Z_scope.

(* ------------------------------------------------------------------ list bookkeeping *)
Section Lists.
Context {A : Type}.

Lemma set_nth_mid (a : list A) cur b x : set_nth (a ++ cur :: b) (length a) x = a ++ x :: b.
Proof. induction a as [|y a IH]; cbn; [reflexivity|]. rewrite IH. reflexivity. Qed.

Lemma firstn_S_mid (a : list A) cur b : firstn (S (length a)) (a ++ cur :: b) = a ++ [cur].
Proof. induction a as [|y a IH]; cbn; [reflexivity|]. cbn in IH. rewrite IH. reflexivity. Qed.

Lemma skipn_S_mid (a : list A) cur b : skipn (S (length a)) (a ++ cur :: b) = b.
Proof. induction a as [|y a IH]; cbn; [reflexivity|]. exact IH. Qed.

(* the ring in logical order, newest section first: l[c], l[c-1], .., l[0], l[n-1], .., l[c+1] *)
Definition lgc (l : list A) (c : nat) : list A := rev (firstn (S c) l) ++ rev (skipn (S c) l).

Lemma lgc_mid (a : list A) cur b : lgc (a ++ cur :: b) (length a) = cur :: rev a ++ rev b.
Proof. unfold lgc. rewrite firstn_S_mid, skipn_S_mid, rev_app_distr. reflexivity. Qed.

Lemma lgc_length (l : list A) c : length (lgc l c) = length l.
Proof.
  unfold lgc. rewrite app_length, !rev_length, <- app_length, firstn_skipn. reflexivity.
Qed.

(* writing the current section *)
Lemma lgc_set_cur (a : list A) cur b x :
  lgc (set_nth (a ++ cur :: b) (length a) x) (length a) = x :: tl (lgc (a ++ cur :: b) (length a)).
Proof. rewrite set_nth_mid, !lgc_mid. reflexivity. Qed.

(* rotating to the next physical index *)
Lemma lgc_rot_next (a : list A) cur y b x :
  lgc (set_nth (a ++ cur :: y :: b) (S (length a)) x) (S (length a))
  = x :: removelast (lgc (a ++ cur :: y :: b) (length a)).
Proof.
  replace (a ++ cur :: y :: b) with ((a ++ [cur]) ++ y :: b) by (rewrite <- app_assoc; reflexivity).
  replace (S (length a)) with (length (a ++ [cur])) by (rewrite app_length; cbn; lia).
  rewrite set_nth_mid, lgc_mid.
  rewrite <- app_assoc. cbn [app].
  replace (length (a ++ [cur])) with (S (length a)) by (rewrite app_length; cbn; lia).
  replace (a ++ cur :: y :: b) with (a ++ cur :: (y :: b)) by reflexivity.
  rewrite lgc_mid. rewrite rev_app_distr. cbn [rev app].
  replace (cur :: rev a ++ rev b ++ [y]) with ((cur :: rev a ++ rev b) ++ [y]) by (cbn; rewrite <- app_assoc; reflexivity).
  rewrite removelast_last. reflexivity.
Qed.

(* rotating from the last physical index back to index 0 *)
Lemma lgc_rot_wrap (l : list A) x : l <> [] ->
  lgc (set_nth l 0 x) 0 = x :: removelast (lgc l (length l - 1)).
Proof.
  intros Hne. destruct l as [|y l]; [congruence|]. cbn [set_nth length].
  replace (S (length l) - 1)%nat with (length l) by lia.
  unfold lgc at 1. cbn [firstn skipn rev app].
  destruct (exists_last (l:=y :: l)) as (a & cur & E); [discriminate|].
  rewrite E. assert (La : length a = length l).
  { apply (f_equal (@length A)) in E. rewrite app_length in E. cbn in E. lia. }
  rewrite <- La. replace (a ++ [cur]) with (a ++ cur :: []) by reflexivity. rewrite lgc_mid. cbn [rev].
  rewrite app_nil_r.
  destruct a as [|z a]; cbn in E.
  - inversion E; subst. cbn. reflexivity.
  - inversion E; subst. cbn [rev]. rewrite rev_app_distr. cbn [rev app].
    replace (cur :: rev a ++ [z]) with ((cur :: rev a) ++ [z]) by reflexivity.
    rewrite removelast_last. reflexivity.
Qed.

Lemma map_removelast {B} (f : A -> B) (l : list A) : map f (removelast l) = removelast (map f l).
Proof.
  induction l as [|a l IH]; [reflexivity|]. destruct l as [|b l]; [reflexivity|].
  change (removelast (a :: b :: l)) with (a :: removelast (b :: l)).
  change (removelast (map f (a :: b :: l))) with (f a :: removelast (map f (b :: l))).
  cbn [map]. f_equal. exact IH.
Qed.

End Lists.

(* ------------------------------------------------------------------ sums *)
Fixpoint sumz (l : list Z) : Z := match l with [] => 0 | x :: t => x + sumz t end.

Lemma sumz_app a b : sumz (a ++ b) = sumz a + sumz b.
Proof. induction a as [|x a IH]; cbn; [reflexivity|]. rewrite IH. lia. Qed.

Lemma sumz_rev a : sumz (rev a) = sumz a.
Proof. induction a as [|x a IH]; cbn; [reflexivity|]. rewrite sumz_app, IH. cbn. lia. Qed.

Lemma sum_totals_sumz l : sum_totals l = sumz (map h_total l).
Proof. induction l as [|h t IH]; cbn; [reflexivity|]. rewrite IH. reflexivity. Qed.

Lemma sumz_lgc (l : list hist) c : sumz (map h_total (lgc l c)) = sum_totals l.
Proof.
  unfold lgc. rewrite map_app, sumz_app, !map_rev, !sumz_rev, <- sumz_app, <- map_app, firstn_skipn.
  symmetry. apply sum_totals_sumz.
Qed.

Lemma sumz_repeat0 n : sumz (repeat 0 n) = 0.
Proof. induction n; cbn; lia. Qed.

Lemma sumz_firstn_le l : Forall (fun x => 0 <= x) l -> forall n, 0 <= sumz (firstn n l) <= sumz l.
Proof.
  induction 1 as [|x t Hx _ IH]; intros [|n]; cbn; try lia.
  all: try (specialize (IH 0%nat); cbn in IH; lia); try (specialize (IH n); lia).
Qed.

Lemma sumz_firstn_S l n : (n < length l)%nat -> sumz (firstn (S n) l) = sumz (firstn n l) + nth n l 0.
Proof.
  revert n. induction l as [|x t IH]; intros n H; [cbn in H; lia|].
  destruct n as [|n]; cbn; [lia|]. cbn in H. specialize (IH n ltac:(lia)). cbn in IH. lia.
Qed.

Lemma sumz_removelast l : l <> [] -> sumz (removelast l) = sumz l - last l 0.
Proof.
  intros H. destruct (exists_last H) as (a & x & ->). rewrite removelast_last, last_last, sumz_app. cbn. lia.
Qed.

(* ------------------------------------------------------------------ the specification: rotation periods
   P = occurrences accepted per rotation period, newest (the current, partial one) first *)
Inductive wcall := WcRecord (v : Z) | WcRotate | WcMerge.

Definition wstep (w : whist) (o : wcall) : res whist :=
  match o with
  | WcRecord v => Ok (fst (w_record w v))
  | WcRotate => w_rotate w
  | WcMerge => w_merge w
  end.

Fixpoint wrun (w : whist) (ops : list wcall) : res whist :=
  match ops with
  | [] => Ok w
  | o :: t => match wstep w o with Ok w' => wrun w' t | Panic => Panic | Diverge => Diverge end
  end.

Definition pstep (P : list Z) (o : wcall) : list Z :=
  match o with
  | WcRecord _ => match P with p :: t => (p + 1) :: t | [] => [1] end
  | WcRotate => 0 :: P
  | WcMerge => P
  end.

Definition periods (ops : list wcall) : list Z := fold_left pstep ops [0].

(* the n sections as the specification sees them: the newest n periods, padded with empty ones *)
Definition win_tot (n : nat) (P : list Z) : list Z := firstn n (P ++ repeat 0 n).

Lemma win_tot_length n P : length (win_tot n P) = n.
Proof. unfold win_tot. rewrite firstn_length, app_length, repeat_length. lia. Qed.

Lemma win_tot_record n p P : (1 <= n)%nat -> win_tot n ((p + 1) :: P) = (p + 1) :: tl (win_tot n (p :: P)).
Proof. intros H. destruct n as [|n]; [lia|]. reflexivity. Qed.

Lemma win_tot_rotate n P : (1 <= n)%nat -> win_tot n (0 :: P) = 0 :: removelast (win_tot n P).
Proof.
  intros H. destruct n as [|n]; [lia|].
  change (win_tot (S n) (0 :: P)) with (0 :: firstn n (P ++ repeat 0 (S n))).
  unfold win_tot. f_equal.
  rewrite removelast_firstn; [reflexivity|]. rewrite app_length, repeat_length. lia.
Qed.

Lemma win_tot_hd n p P : (1 <= n)%nat -> hd 0 (win_tot n (p :: P)) = p.
Proof. intros H. destruct n as [|n]; [lia|]. reflexivity. Qed.

Lemma all_eq_repeat {A} (z : A) (l : list A) : (forall x, In x l -> x = z) -> l = repeat z (length l).
Proof.
  induction l as [|a l IH]; intros H; [reflexivity|]. cbn. rewrite <- IH by (intros; apply H; right; assumption).
  rewrite (H a) by (left; reflexivity). reflexivity.
Qed.

Lemma map_tl {A B} (f : A -> B) (l : list A) : map f (tl l) = tl (map f l).
Proof. destruct l; reflexivity. Qed.

Lemma Forall_set_nth {A} (Q : A -> Prop) (l : list A) : forall i x, Forall Q l -> Q x -> Forall Q (set_nth l i x).
Proof.
  induction l as [|a l IH]; intros i x Hl Hx; [destruct i; constructor|].
  inversion Hl; subst. destruct i; cbn; constructor; auto.
Qed.

Lemma length_set_nth' {A} (l : list A) : forall i x, length (set_nth l i x) = length l.
Proof. induction l as [|a l IH]; intros [|i] x; cbn; try reflexivity. rewrite IH. reflexivity. Qed.

Lemma mod_succ idx n : 0 <= idx -> 1 <= n ->
  (idx + 1) mod n = if idx mod n + 1 <? n then idx mod n + 1 else 0.
Proof.
  intros Hi Hn. pose proof (Z.mod_pos_bound idx n ltac:(lia)) as Hb.
  pose proof (Z.div_mod idx n ltac:(lia)) as Hd.
  destruct (idx mod n + 1 <? n) eqn:E.
  - symmetry. apply (Z.mod_unique (idx + 1) n (idx / n) (idx mod n + 1)); lia.
  - symmetry. apply (Z.mod_unique (idx + 1) n (idx / n + 1) 0); lia.
Qed.

(* ------------------------------------------------------------------ the invariant *)
Section Window.
Variables (lo hi sig : Z).
Hypothesis SH : shape_ok lo hi sig.

Definition wops_ok (ops : list wcall) : Prop :=
  Forall (fun o => match o with WcRecord v => lo <= v <= hi | _ => True end) ops.

Record winv (w : whist) (P : list Z) (K : Z) : Prop := {
  wi_n : (1 <= length (w_h w))%nat;
  wi_idx : 0 <= w_idx w;
  wi_wf : Forall (wf lo hi sig) (w_h w);
  wi_m : wf lo hi sig (w_m w);
  wi_tot : map h_total (lgc (w_h w) (w_cur w)) = win_tot (length (w_h w)) P;
  wi_P : Forall (fun x => 0 <= x) P;
  wi_ne : P <> [];
  wi_sum : sumz P <= K
}.

Lemma w_cur_lt w : (1 <= length (w_h w))%nat -> (w_cur w < length (w_h w))%nat.
Proof.
  intros H. unfold w_cur. pose proof (Z.mod_pos_bound (w_idx w) (Z.of_nat (length (w_h w))) ltac:(lia)). lia.
Qed.

Lemma sections_total w P K : winv w P K -> 0 <= sum_totals (w_h w) <= K.
Proof.
  intros I. rewrite <- (sumz_lgc (w_h w) (w_cur w)), (wi_tot _ _ _ I). unfold win_tot.
  assert (F : Forall (fun x => 0 <= x) (P ++ repeat 0 (length (w_h w)))).
  { apply Forall_app. split; [apply (wi_P _ _ _ I)|]. apply Forall_forall. intros x Hx.
    apply repeat_spec in Hx. lia. }
  pose proof (sumz_firstn_le _ F (length (w_h w))) as H.
  rewrite sumz_app, sumz_repeat0 in H. pose proof (wi_sum _ _ _ I). lia.
Qed.

Lemma step_record w P K v : winv w P K -> lo <= v <= hi -> K + 1 < 2 ^ 62 ->
  winv (fst (w_record w v)) (pstep P (WcRecord v)) (K + 1) /\
  length (w_h (fst (w_record w v))) = length (w_h w).
Proof.
  intros I Hv HK. pose proof (w_cur_lt w (wi_n _ _ _ I)) as Hc.
  destruct (nth_split (w_h w) (w_m w) Hc) as (a & b & El & La).
  set (cur := nth (w_cur w) (w_h w) (w_m w)) in *.
  assert (Wcur : wf lo hi sig cur).
  { pose proof (wi_wf _ _ _ I) as F. rewrite Forall_forall in F. apply F. rewrite El. apply in_elt. }
  destruct P as [|p P']; [exfalso; apply (wi_ne _ _ _ I); reflexivity|].
  assert (Tcur : h_total cur = p).
  { pose proof (wi_tot _ _ _ I) as T. rewrite El, <- La, lgc_mid in T. cbn [map] in T.
    apply (f_equal (hd 0)) in T. rewrite win_tot_hd in T by (rewrite app_length; cbn; lia). exact T. }
  pose proof (wi_sum _ _ _ I) as Hs. pose proof (wi_P _ _ _ I) as HP. pose proof (Forall_inv HP) as Hp. pose proof (Forall_inv_tail HP) as HP'. cbn beta in Hp.
  assert (0 <= sumz P').
  { clear -HP'. induction HP'; cbn; lia. }
  cbn [sumz] in Hs.
  assert (P6263 : 2 ^ 62 < 2 ^ 63) by (apply pow2_lt; lia).
  pose proof (record_values_spec lo hi sig cur v 1 Wcur ltac:(lia) ltac:(lia)) as (_ & W' & _ & _ & Hacc).
  destruct (accepts_in_range lo hi sig cur v Wcur (in_range_lt_top lo hi sig SH cur v Wcur Hv)) as [Acc _].
  destruct (Hacc Acc) as (T' & _ & _).
  unfold w_record. assert (En : nth_error (w_h w) (w_cur w) = Some cur).
  { rewrite El at 1. rewrite <- La. rewrite nth_error_app2 by lia. rewrite Nat.sub_diag. reflexivity. }
  rewrite En. unfold record_value. destruct (record_values cur v 1) as [h' ok] eqn:Er. cbn [fst snd] in *.
  split; [|apply length_set_nth'].
  assert (Ec : w_cur {| w_idx := w_idx w; w_h := set_nth (w_h w) (w_cur w) h'; w_m := w_m w |} = w_cur w).
  { unfold w_cur. cbn [w_idx w_h]. rewrite length_set_nth'. reflexivity. }
  constructor; cbn [w_idx w_h w_m pstep].
  - rewrite length_set_nth'. apply (wi_n _ _ _ I).
  - apply (wi_idx _ _ _ I).
  - apply Forall_set_nth; [apply (wi_wf _ _ _ I)|assumption].
  - apply (wi_m _ _ _ I).
  - rewrite Ec, length_set_nth'. pose proof (wi_tot _ _ _ I) as T.
    rewrite El in T |- *. rewrite <- La in T |- *. rewrite lgc_set_cur. cbn [map].
    rewrite map_tl, T, T', Tcur. rewrite <- win_tot_record; [reflexivity|]. rewrite app_length. cbn. lia.
  - constructor; [lia|assumption].
  - discriminate.
  - cbn [sumz]. lia.
Qed.

Lemma step_rotate w P K : winv w P K ->
  exists w', w_rotate w = Ok w' /\ winv w' (0 :: P) K /\ length (w_h w') = length (w_h w).
Proof.
  intros I. pose proof (wi_n _ _ _ I) as Hn. pose proof (w_cur_lt w Hn) as Hc.
  unfold w_rotate. destruct (w_h w) as [|h0 tl0] eqn:El0; [cbn in Hn; lia|]. rewrite <- El0 in *.
  set (n := length (w_h w)) in *.
  set (k := Z.to_nat ((w_idx w + 1) mod Z.of_nat n)).
  eexists. split; [reflexivity|].
  assert (Hk : (k < n)%nat).
  { unfold k. pose proof (Z.mod_pos_bound (w_idx w + 1) (Z.of_nat n) ltac:(lia)). lia. }
  assert (Wx : wf lo hi sig (reset (nth k (w_h w) h0))).
  { apply reset_wf. pose proof (wi_wf _ _ _ I) as F. rewrite Forall_forall in F. apply F. apply nth_In. exact Hk. }
  assert (Tx : h_total (reset (nth k (w_h w) h0)) = 0) by reflexivity.
  assert (Ecur : w_cur {| w_idx := w_idx w + 1; w_h := set_nth (w_h w) k (reset (nth k (w_h w) h0)); w_m := w_m w |} = k).
  { unfold w_cur. cbn [w_idx w_h]. rewrite length_set_nth'. reflexivity. }
  assert (Elg : map h_total (lgc (set_nth (w_h w) k (reset (nth k (w_h w) h0))) k)
                = 0 :: removelast (map h_total (lgc (w_h w) (w_cur w)))).
  { pose proof (mod_succ (w_idx w) (Z.of_nat n) (wi_idx _ _ _ I) ltac:(lia)) as Ms.
    destruct (w_idx w mod Z.of_nat n + 1 <? Z.of_nat n) eqn:E.
    - (* next physical index *)
      assert (k = S (w_cur w)) by (unfold k, w_cur; fold n; lia).
      destruct (nth_split (w_h w) h0 Hc) as (a & b & Ea & La).
      remember (nth (w_cur w) (w_h w) h0) as cur eqn:Ecur0.
      destruct b as [|y b].
      { apply (f_equal (@length hist)) in Ea. rewrite app_length in Ea. cbn in Ea. fold n in Ea. lia. }
      rewrite H. remember (reset (nth (S (w_cur w)) (w_h w) h0)) as x eqn:Ex.
      assert (Hx0 : h_total x = 0) by (rewrite Ex; reflexivity). clear Ex Ecur0.
      rewrite Ea. rewrite <- La. rewrite lgc_rot_next. cbn [map]. rewrite map_removelast, Hx0. reflexivity.
    - (* wrap to index 0 *)
      assert (k = 0%nat) by (unfold k; lia).
      assert (w_cur w = (n - 1)%nat) by (unfold w_cur; fold n; lia).
      rewrite H, H0. unfold n. rewrite lgc_rot_wrap by (rewrite El0; discriminate).
      cbn [map]. rewrite map_removelast. reflexivity. }
  split; [|apply length_set_nth'].
  constructor; cbn [w_idx w_h w_m].
  - rewrite length_set_nth'. exact Hn.
  - pose proof (wi_idx _ _ _ I). lia.
  - apply Forall_set_nth; [apply (wi_wf _ _ _ I)|assumption].
  - apply (wi_m _ _ _ I).
  - rewrite Ecur, length_set_nth', Elg, (wi_tot _ _ _ I). symmetry. apply win_tot_rotate. exact Hn.
  - constructor; [lia|apply (wi_P _ _ _ I)].
  - discriminate.
  - cbn [sumz]. pose proof (wi_sum _ _ _ I). lia.
Qed.

Lemma step_merge w P K : winv w P K -> K < 2 ^ 62 ->
  exists m', w_merge w = Ok (mkW (w_idx w) (w_h w) m') /\ winv (mkW (w_idx w) (w_h w) m') P K /\
             h_total m' = sumz (win_tot (length (w_h w)) P) /\
             (forall i, h_counts m' i = sum_counts (w_h w) i).
Proof.
  intros I HK. destruct (reset_wf lo hi sig _ (wi_m _ _ _ I)) as [Wm Tm].
  pose proof (sections_total w P K I) as St.
  assert (P6263 : 2 ^ 62 < 2 ^ 63) by (apply pow2_lt; lia).
  destruct (w_merge_all_spec lo hi sig _ _ (wi_wf _ _ _ I) Wm ltac:(lia)) as (m' & E & W' & T' & C').
  exists m'. unfold w_merge. rewrite E. split; [reflexivity|]. split; [|split].
  - destruct I. constructor; cbn [w_idx w_h w_m]; try assumption.
  - rewrite T', Tm. rewrite <- (sumz_lgc (w_h w) (w_cur w)), (wi_tot _ _ _ I). lia.
  - intros i. rewrite C'. unfold reset. cbn [h_counts]. lia.
Qed.

Lemma run_inv ops : forall w P K,
  winv w P K -> wops_ok ops -> K + Z.of_nat (length ops) < 2 ^ 62 ->
  exists w', wrun w ops = Ok w' /\ winv w' (fold_left pstep ops P) (K + Z.of_nat (length ops)) /\
             length (w_h w') = length (w_h w).
Proof.
  induction ops as [|o t IH]; intros w P K I Hok Hb.
  - exists w. cbn. replace (K + 0) with K by lia. auto.
  - inversion Hok as [|? ? Ho Ot]; subst. cbn [wrun fold_left].
    assert (HK1 : K + 1 + Z.of_nat (length t) < 2 ^ 62).
    { replace (Z.of_nat (length (o :: t))) with (1 + Z.of_nat (length t)) in Hb by (cbn [length]; lia). lia. }
    assert (0 <= Z.of_nat (length t)) by lia.
    assert (HK' : K + 1 < 2 ^ 62) by lia. assert (HK'' : K < 2 ^ 62) by lia.
    assert (Step : exists w1, wstep w o = Ok w1 /\ winv w1 (pstep P o) (K + 1) /\ length (w_h w1) = length (w_h w)).
    { destruct o as [v| |]; cbn [wstep].
      - cbn in Ho. destruct (step_record w P K v I Ho HK') as [I1 L1]. eauto.
      - destruct (step_rotate w P K I) as (w1 & E1 & I1 & L1). exists w1. split; [assumption|]. split; [|assumption].
        destruct I1. constructor; try assumption. cbn [pstep]. lia.
      - destruct (step_merge w P K I HK'') as (m' & E1 & I1 & _). eexists. split; [exact E1|]. split; [|reflexivity].
        destruct I1. constructor; try assumption. cbn [pstep]. lia. }
    destruct Step as (w1 & E1 & I1 & L1). rewrite E1.
    destruct (IH w1 (pstep P o) (K + 1) I1 Ot ltac:(lia)) as (w' & E' & I' & L').
    exists w'. split; [assumption|]. split; [|lia].
    replace (K + Z.of_nat (length (o :: t))) with (K + 1 + Z.of_nat (length t)) by (cbn [length]; lia). assumption.
Qed.

Lemma init_inv n : 1 <= n ->
  exists w0, new_windowed n lo hi sig = Ok w0 /\ winv w0 [0] 0 /\ length (w_h w0) = Z.to_nat n.
Proof.
  intros Hn. destruct (new_wf lo hi sig SH) as (h & E & W & T & _).
  unfold new_windowed. destruct (n <? 0) eqn:En; [lia|]. rewrite E.
  destruct (Z.to_nat n) as [|n'] eqn:Ez; [lia|].
  unfold w_rotate. cbn [w_h repeat w_idx length].
  replace (-1 + 1) with 0 by lia. rewrite Z.mod_0_l by lia. cbn [Z.to_nat set_nth nth w_m].
  eexists. split; [reflexivity|]. split; [|cbn; rewrite repeat_length; reflexivity].
  destruct (reset_wf lo hi sig h W) as [Wr Tr].
  assert (Ec : w_cur {| w_idx := 0; w_h := reset h :: repeat h n'; w_m := h |} = 0%nat).
  { unfold w_cur. cbn [w_idx w_h]. rewrite Z.mod_0_l; [reflexivity|]. cbn. lia. }
  constructor; cbn [w_idx w_h w_m].
  - cbn. lia.
  - lia.
  - constructor; [assumption|]. apply Forall_forall. intros x Hx. apply repeat_spec in Hx. subst. assumption.
  - assumption.
  - rewrite Ec. cbn [length]. rewrite repeat_length.
    change (lgc (reset h :: repeat h n') 0) with ([reset h] ++ rev (repeat h n')).
    change (win_tot (S n') [0]) with (0 :: firstn n' (repeat 0 (S n'))).
    cbn [app map]. f_equal; try exact Tr.
    transitivity (repeat 0 n').
    + rewrite (all_eq_repeat 0 (map h_total (rev (repeat h n')))).
      * rewrite map_length, rev_length, repeat_length. reflexivity.
      * intros x Hx. apply in_map_iff in Hx. destruct Hx as (y & <- & Hy). apply in_rev in Hy.
        apply repeat_spec in Hy. subst. assumption.
    + rewrite (all_eq_repeat 0 (firstn n' (repeat 0 (S n')))).
      * rewrite firstn_length, repeat_length. f_equal. lia.
      * intros x Hx. assert (Hin : In x (repeat 0 (S n'))).
        { rewrite <- (firstn_skipn n' (repeat 0 (S n'))). apply in_or_app. left. exact Hx. }
        apply repeat_spec in Hin. assumption.
  - constructor; [lia|constructor].
  - discriminate.
  - cbn. lia.
Qed.

(* NewWindowed(n, lo, hi, sig); the calls ops; Merge().  The result is the merged view. *)
Definition merged_view (n : Z) (ops : list wcall) : res hist :=
  match new_windowed n lo hi sig with
  | Ok w0 => match wrun w0 ops with
             | Ok w => match w_merge w with Ok w' => Ok (w_m w') | Panic => Panic | Diverge => Diverge end
             | Panic => Panic
             | Diverge => Diverge
             end
  | Panic => Panic
  | Diverge => Diverge
  end.

Section Reach.
Variables (n : Z) (ops : list wcall).
Hypothesis Hn : 1 <= n.
Hypothesis Hops : wops_ok ops.
Hypothesis Hlen : Z.of_nat (length ops) < 2 ^ 62.

Lemma reach : exists w0 w, new_windowed n lo hi sig = Ok w0 /\ wrun w0 ops = Ok w /\
  winv w (periods ops) (Z.of_nat (length ops)) /\ length (w_h w) = Z.to_nat n.
Proof.
  destruct (init_inv n Hn) as (w0 & E0 & I0 & L0).
  destruct (run_inv ops w0 [0] 0 I0 Hops ltac:(lia)) as (w & E & I & L).
  exists w0, w. split; [assumption|]. split; [assumption|]. split; [exact I|lia].
Qed.

(* the merged view's TotalCount is the number of occurrences recorded in the current rotation period and
   the n-1 periods before it (win_tot n (periods ops)); no call panics *)
Theorem window_conserves :
  exists m, merged_view n ops = Ok m /\ h_total m = sumz (win_tot (Z.to_nat n) (periods ops)) /\ wf lo hi sig m.
Proof.
  destruct reach as (w0 & w & E0 & E & I & L).
  destruct (step_merge w _ _ I Hlen) as (m' & Em & I' & T & _).
  exists m'. unfold merged_view. rewrite E0, E, Em. cbn [w_m]. split; [reflexivity|]. split.
  - rewrite T, L. reflexivity.
  - apply (wi_m _ _ _ I').
Qed.

(* two Merges without a call in between: the second returns the very same view (in particular Equal) *)
Theorem window_merge_idempotent :
  exists m, merged_view n ops = Ok m /\ merged_view n (ops ++ [WcMerge]) = Ok m /\ equals m m = Ok true.
Proof.
  destruct reach as (w0 & w & E0 & E & I & L).
  destruct (step_merge w _ _ I Hlen) as (m' & Em & I' & T & C).
  destruct (step_merge _ _ _ I' Hlen) as (m2 & Em2 & I2 & T2 & C2).
  cbn [w_idx w_h w_m] in *.
  (* the merged view depends only on the sections: both Merges start from the same Reset view *)
  assert (Er : reset m' = reset (w_m w)).
  { pose proof (wi_m _ _ _ I') as W1. pose proof (wi_m _ _ _ I) as W0. cbn [w_m] in W1.
    destruct (wf_new _ _ _ _ W1) as (a & Na & Sa). destruct (wf_new _ _ _ _ W0) as (b & Nb & Sb).
    rewrite Na in Nb. inversion Nb; subst b.
    pose proof (wf_len _ _ _ _ W1) as L1. pose proof (wf_len _ _ _ _ W0) as L0'.
    destruct Sa as (A1 & A2 & A3 & A4 & A5 & A6 & A7 & A8 & A9 & A10).
    destruct Sb as (B1 & B2 & B3 & B4 & B5 & B6 & B7 & B8 & B9 & B10).
    unfold reset. rewrite L1, L0'. f_equal; congruence. }
  assert (Em2' : m2 = m').
  { unfold w_merge in Em, Em2. cbn [w_idx w_h w_m] in Em2. rewrite Er in Em2.
    destruct (w_merge_all (w_h w) (reset (w_m w))); inversion Em; inversion Em2; subst. reflexivity. }
  subst m2.
  exists m'. split; [unfold merged_view; rewrite E0, E, Em; reflexivity|]. split.
  - unfold merged_view. rewrite E0.
    assert (Erun : wrun w0 (ops ++ [WcMerge]) = Ok (mkW (w_idx w) (w_h w) m')).
    { clear -E Em. revert w0 E. induction ops as [|o t IH]; intros w0 E; cbn [wrun app] in *.
      - inversion E; subst. cbn [wstep]. rewrite Em. reflexivity.
      - destruct (wstep w0 o); try discriminate. apply IH. assumption. }
    rewrite Erun, Em2. reflexivity.
  - pose proof (wi_m _ _ _ I') as W1. cbn [w_m] in W1.
    apply equals_true; [apply same_geom_refl|reflexivity| |reflexivity].
    rewrite (wf_len _ _ _ _ W1). pose proof (clen_pos lo hi sig m' W1). lia.
Qed.

(* Rotate drops exactly the oldest period still held: the one n-1 rotations back *)
Theorem window_rotate_drops_oldest :
  exists m m', merged_view n ops = Ok m /\ merged_view n (ops ++ [WcRotate]) = Ok m' /\
    h_total m' = h_total m - nth (Z.to_nat n - 1) (periods ops ++ repeat 0 (Z.to_nat n)) 0.
Proof.
  destruct window_conserves as (m & Em & Tm & _).
  assert (Hops' : wops_ok (ops ++ [WcRotate])).
  { apply Forall_app. split; [assumption|]. constructor; [exact Logic.I|constructor]. }
  destruct reach as (w0 & w & E0 & E & I & L).
  destruct (step_rotate w _ _ I) as (w1 & E1 & I1 & L1).
  destruct (step_merge w1 _ _ I1 Hlen) as (m' & Em' & _ & T' & _).
  exists m, m'. split; [assumption|]. split.
  - unfold merged_view. rewrite E0.
    assert (Erun : wrun w0 (ops ++ [WcRotate]) = Ok w1).
    { clear -E E1. revert w0 E. induction ops as [|o t IH]; intros w0 E; cbn [wrun app] in *.
      - inversion E; subst. cbn [wstep]. rewrite E1. reflexivity.
      - destruct (wstep w0 o); try discriminate. apply IH. assumption. }
    rewrite Erun, Em'. reflexivity.
  - rewrite T', Tm, L1, L. destruct (Z.to_nat n) as [|n'] eqn:Ez; [lia|].
    change (win_tot (S n') (0 :: periods ops)) with (0 :: firstn n' (periods ops ++ repeat 0 (S n'))).
    unfold win_tot. cbn [sumz]. rewrite sumz_firstn_S by (rewrite app_length, repeat_length; lia).
    replace (S n' - 1)%nat with n' by lia. lia.
Qed.

End Reach.
End Window.

(* non-vacuity: 3 sections; records 5,7 | rotate | 9 | rotate | rotate | 11 | rotate  -> periods [0;1;0;1;2] *)
Example window_spec_example :
  let ops := [WcRecord 5; WcRecord 7; WcRotate; WcRecord 9; WcMerge; WcRotate; WcRotate; WcRecord 11; WcRotate] in
  wops_ok 1 1000 ops /\ periods ops = [0; 1; 0; 1; 2] /\ win_tot 3 (periods ops) = [0; 1; 0] /\
  match merged_view 1 1000 2 3 ops with Ok m => h_total m = 1 | _ => False end.
Proof. cbn zeta. split; [repeat constructor; lia|]. vm_compute. auto. Qed.
