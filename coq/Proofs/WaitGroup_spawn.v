(* Launch / DoTimes / Operation.Add / StartGroup: a goroutine started through the group is counted from before it
   starts until after it has ended. *)
From FunV Require Import Base.Tac Conc.Monitor Model.WaitGroupModel Proofs.WaitGroup_seq.
Open Scope Z_scope.

Definition b2z (b : bool) : Z := if b then 1 else 0.

Lemma n_live_cons j l : n_live (j :: l) = b2z (j_live j) + n_live l.
Proof. unfold n_live. simpl. destruct (j_live j); simpl length; unfold b2z; lia. Qed.

Lemma n_live_nonneg l : 0 <= n_live l.
Proof. unfold n_live. lia. Qed.

Lemma n_live_snoc l j : n_live (l ++ [j]) = n_live l + b2z (j_live j).
Proof.
  induction l as [|x r IH]; [simpl app; rewrite n_live_cons; unfold n_live; simpl; lia|].
  simpl app. rewrite !n_live_cons, IH. lia.
Qed.

Lemma n_live_set_nth l : forall i old new,
  nth_error l i = Some old -> n_live (set_nth l i new) = n_live l - b2z (j_live old) + b2z (j_live new).
Proof.
  induction l as [|x r IH]; intros [|i] old new H; simpl in H; try discriminate.
  - inversion H; subst. simpl. rewrite !n_live_cons. lia.
  - simpl. rewrite !n_live_cons, (IH i old new H). lia.
Qed.

Lemma in_set_nth {A} (l : list A) : forall i v x, In x (set_nth l i v) -> x = v \/ In x l.
Proof.
  induction l as [|y r IH]; intros [|i] v x H; simpl in *; try tauto.
  - destruct H as [H|H]; auto.
  - destruct H as [H|H]; auto. destruct (IH i v x H); auto.
Qed.

Lemma nth_error_live_pos l i j : nth_error l i = Some j -> j_live j = true -> 1 <= n_live l.
Proof.
  revert i. induction l as [|x r IH]; intros [|i] H L; simpl in H; try discriminate.
  - inversion H; subst. rewrite n_live_cons, L. pose proof (n_live_nonneg r). unfold b2z. lia.
  - rewrite n_live_cons. specialize (IH i H L). destruct (j_live x); unfold b2z; lia.
Qed.

Definition spawn_inv (s : spawn_state) : Prop :=
  sp_counter s = sp_ext s + n_live (sp_jobs s) /\ 0 <= sp_ext s /\ ~ In JPanicked (sp_jobs s).

Lemma spawn_invariant s : spawn_reach s -> spawn_inv s.
Proof.
  intros R. induction R as [|s s' R (IHc & IHe & IHp) St].
  - unfold spawn_inv. simpl. unfold n_live. simpl. repeat split; try lia; tauto.
  - pose proof (n_live_nonneg (sp_jobs s)) as NN.
    inversion St; subst; unfold spawn_inv; simpl.
    + (* launch *)
      rewrite wg_add_ok in H by lia. inversion H; subst.
      rewrite n_live_snoc. simpl. repeat split; try lia.
      intros X. apply in_app_or in X. destruct X as [X|[X|[]]]; [auto|discriminate].
    + rewrite (n_live_set_nth _ _ _ _ H). simpl. repeat split; try lia.
      intros X. apply in_set_nth in X. destruct X as [X|X]; [discriminate|auto].
    + rewrite (n_live_set_nth _ _ _ _ H). simpl. repeat split; try lia.
      intros X. apply in_set_nth in X. destruct X as [X|X]; [discriminate|auto].
    + (* deferred Done: cannot panic because this job is still counted *)
      pose proof (nth_error_live_pos _ _ _ H eq_refl) as L1.
      rewrite wg_add_ok in H0 by lia. inversion H0; subst.
      rewrite (n_live_set_nth _ _ _ _ H). simpl. repeat split; try lia.
      intros X. apply in_set_nth in X. destruct X as [X|X]; [discriminate|auto].
    + (* balanced external add *)
      unfold wg_add in H0. destruct (Z.leb_spec 0 (sp_counter s + n)); inversion H0; subst.
      repeat split; try lia. auto.
Qed.

(* launch_covered: in every reachable state of the spawn model (any number of Launch/DoTimes calls, any
   interleaving with the goroutines and with other balanced users of the group), while a goroutine started through
   the group is anywhere between "Launch has incremented" and "its deferred Done has returned" the counter is
   positive — so (wait_returns_only_if_zero_or_ctx) a Wait with a live context cannot return in between: in
   try-form it reports Blocked.  Also: the deferred Done never panics. *)
Lemma launch_covered_lemma s i j :
  spawn_reach s -> nth_error (sp_jobs s) i = Some j -> j_live j = true ->
  0 < sp_counter s /\ wg_step (sp_counter s) WWait = (sp_counter s, RBlocked).
Proof.
  intros R H L. destruct (spawn_invariant s R) as (Hc & He & _).
  pose proof (nth_error_live_pos _ _ _ H L) as P.
  assert (0 < sp_counter s) by lia. split; auto.
  simpl. destruct (Z.eqb_spec (sp_counter s) 0); [lia|reflexivity].
Qed.

Lemma spawn_no_panic s : spawn_reach s -> ~ In JPanicked (sp_jobs s).
Proof. intros R. apply (spawn_invariant s R). Qed.

(* when every launched goroutine is done and the other users are balanced out, the counter is back to zero *)
Lemma spawn_all_done_zero s :
  spawn_reach s -> sp_ext s = 0 -> (forall j, In j (sp_jobs s) -> j_live j = false) -> sp_counter s = 0.
Proof.
  intros R E A. destruct (spawn_invariant s R) as (Hc & _ & _). rewrite Hc, E.
  assert (n_live (sp_jobs s) = 0); [|lia].
  clear -A. induction (sp_jobs s) as [|x r IH]; [reflexivity|].
  rewrite n_live_cons, (A x (or_introl eq_refl)), IH; [reflexivity|]. intros j H. apply A. right. exact H.
Qed.

(* non-vacuity: DoTimes(2): both counted, one running, the other finished; counter goes 2 -> 1 *)
Example spawn_example :
  exists s, spawn_reach s /\ sp_jobs s = [JDone; JRunning] /\ sp_counter s = 1.
Proof.
  eexists. split.
  - eapply spr_step. eapply spr_step. eapply spr_step. eapply spr_step. eapply spr_step. eapply spr_step.
    apply spr_init.
    + eapply sp_launch. reflexivity.
    + eapply sp_launch. reflexivity.
    + eapply (sp_start _ 0%nat). reflexivity.
    + eapply (sp_start _ 1%nat). reflexivity.
    + eapply (sp_end _ 0%nat). reflexivity.
    + eapply (sp_done _ 0%nat). reflexivity. reflexivity.
  - split; reflexivity.
Qed.

(* ---- DoTimes / StartGroup account for exactly the goroutines they start *)

Lemma launch_times_spec k : forall s s',
  spawn_reach s -> launch_times k s s' ->
  spawn_reach s' /\ sp_counter s' = sp_counter s + Z.of_nat k /\ sp_ext s' = sp_ext s /\
  sp_jobs s' = sp_jobs s ++ repeat JCounted k.
Proof.
  induction k as [|k IH]; intros s s' R H; inversion H; subst.
  - simpl. rewrite app_nil_r. repeat split; auto; lia.
  - assert (R1 : spawn_reach (mkSpawn c' (sp_ext s) (sp_jobs s ++ [JCounted]))).
    { eapply spr_step; [exact R|]. eapply sp_launch. eassumption. }
    destruct (IH _ _ R1 H2) as (R' & Hc & He & Hj). simpl in *.
    destruct (spawn_invariant s R) as (Ic & Ie & _). pose proof (n_live_nonneg (sp_jobs s)).
    rewrite wg_add_ok in H1 by lia. inversion H1; subst.
    repeat split; auto; [lia|]. rewrite Hj, <- app_assoc. reflexivity.
Qed.

(* the loop can always run: Inc never panics on a reachable group *)
Lemma launch_times_total k : forall s, spawn_reach s -> exists s', launch_times k s s'.
Proof.
  induction k as [|k IH]; intros s R; [exists s; constructor|].
  destruct (spawn_invariant s R) as (Ic & Ie & _). pose proof (n_live_nonneg (sp_jobs s)).
  assert (A : wg_add (sp_counter s) 1 = (sp_counter s + 1, RUnit, (sp_counter s + 1 =? 0))) by (apply wg_add_ok; lia).
  assert (R1 : spawn_reach (mkSpawn (sp_counter s + 1) (sp_ext s) (sp_jobs s ++ [JCounted]))).
  { eapply spr_step; [exact R|]. eapply sp_launch. exact A. }
  destruct (IH _ R1) as (s' & H'). exists s'. econstructor; eauto.
Qed.

Lemma dotimes_accounts_exactly_lemma n s s' :
  spawn_reach s -> spawn_dotimes n s s' ->
  spawn_reach s' /\
  sp_counter s' = sp_counter s + Z.max 0 n /\
  sp_ext s' = sp_ext s /\
  sp_jobs s' = sp_jobs s ++ repeat JCounted (Z.to_nat n) /\
  (forall i j, nth_error (sp_jobs s') i = Some j -> j_live j = true -> 0 < sp_counter s').
Proof.
  intros R H. unfold spawn_dotimes, dotimes_iters in H.
  destruct (launch_times_spec _ _ _ R H) as (R' & Hc & He & Hj).
  repeat split; auto; [lia|].
  intros i j Hn Hl. apply (launch_covered_lemma s' i j R' Hn Hl).
Qed.

(* a non-positive count starts nothing and changes nothing *)
Lemma dotimes_nonpositive_noop n s s' : n <= 0 -> spawn_dotimes n s s' -> s' = s.
Proof.
  intros Hn H. unfold spawn_dotimes, dotimes_iters in H.
  replace (Z.to_nat n) with O in H by lia. inversion H. reflexivity.
Qed.

(* the executable counter function used by the correspondence agrees *)
Lemma launch_counter_spec k : forall c, 0 <= c -> launch_counter k c = c + Z.of_nat k.
Proof.
  induction k as [|k IH]; intros c H; simpl launch_counter; [lia|].
  rewrite wg_add_ok by lia. simpl fst. rewrite IH by lia. lia.
Qed.

Lemma dotimes_counter_spec n c : 0 <= c -> dotimes_counter n c = c + Z.max 0 n.
Proof. intros H. unfold dotimes_counter, dotimes_iters. rewrite launch_counter_spec by lia. lia. Qed.

Example dotimes_negative_example :
  dotimes_counter (-2) 3 = 3 /\ dotimes_counter 0 3 = 3 /\ dotimes_counter 2 3 = 5.
Proof. repeat split; reflexivity. Qed.

(* ---- the launched goroutine: Done on every exit path, whatever the launch context *)

Lemma launch_done_on_every_exit_lemma ctx_live e c :
  0 < c -> launch_goroutine ctx_live e c = (c - 1, RUnit).
Proof.
  intros H. unfold launch_goroutine, posthook_runs_hook. rewrite wg_add_ok by lia.
  replace (c + -1) with (c - 1) by lia. reflexivity.
Qed.

(* Launch with ANY state of the launch context and ANY way the body ends gives the counter back *)
Lemma launch_cancelled_ctx_balanced_lemma ctx_live e c :
  0 <= c -> launch_roundtrip ctx_live e c = (c, RUnit) /\ launch_body_runs ctx_live = true.
Proof.
  intros H. unfold launch_roundtrip. rewrite wg_add_ok by lia.
  rewrite launch_done_on_every_exit_lemma by lia. split; [f_equal; lia|reflexivity].
Qed.

Lemma launch_all_roundtrip_spec n ctx_live e : forall c,
  0 <= c -> launch_all_roundtrip n ctx_live e c = (c, Z.of_nat n).
Proof.
  induction n as [|n IH]; intros c H; [reflexivity|].
  cbn [launch_all_roundtrip]. destruct (launch_cancelled_ctx_balanced_lemma ctx_live e c H) as [-> ->].
  rewrite IH by lia. f_equal. lia.
Qed.

(* what the two excluded shapes do instead: the count leaks *)
Lemma launch_if_after_hook_leaks e c :
  0 <= c -> (let '(c1, _, _) := wg_add c 1 in launch_goroutine_if_after_hook false e c1) = (c + 1, RUnit).
Proof. intros H. rewrite wg_add_ok by lia. reflexivity. Qed.

Lemma launch_seq_hook_leaks_on_goexit ctx_live c :
  0 <= c -> (let '(c1, _, _) := wg_add c 1 in launch_goroutine_seq_hook ctx_live ExGoexit c1) = (c + 1, RUnit) /\
            (let '(c1, _, _) := wg_add c 1 in launch_goroutine_seq_hook ctx_live ExPanic c1) = (c + 1, RUnit).
Proof. intros H. rewrite wg_add_ok by lia. split; reflexivity. Qed.

(* ---- Wait's zero-check outside the mutex loses a wake-up: Add 1; check (1 <> 0); Done (0, Broadcast, nobody parked);
   lock and park.  The waiter sleeps although the counter is zero and its context is live. *)
Lemma wait_check_outside_lock_refuted_lemma :
  exists s, ureach s /\ u_counter s = 0 /\ u_waiter s = UParked.
Proof.
  exists (mkU 0 UParked). split; [|split; reflexivity].
  eapply ur_step; [eapply ur_step; [eapply ur_step; [eapply ur_step; [apply ur_init|]|]|]|].
  - eapply (u_add _ 1). reflexivity.
  - apply u_check_nonzero; simpl; [reflexivity|lia].
  - eapply (u_add _ (-1)). reflexivity.
  - apply (u_lock_and_park (mkU 0 UChecked)). reflexivity.
Qed.
