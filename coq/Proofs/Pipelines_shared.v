(* C01: several fan-out stages over ONE concurrency-safe input.

   In the networks of Model/Pipelines.v the read of the input by a splitter / pump / worker is the single
   instruction ISrc: the library's Iterator.ReadOne, ONE atomic step that moves the head of the input into
   the hands of the goroutine that executes it. Several stages over one input are therefore several
   concurrent ReadOne callers of one iterator - readone_net - and conservation (any network) applies.

   What the atomicity buys is shown on a two-line model of the alternative: reading the input with
   Next(ctx) followed by Value(), which hands the item over through the iterator's unsynchronised
   value field (one cell shared by everybody who iterates that way). *)
From FunV Require Import Base.Tac Base.ListX Model.Pipelines
  Proofs.Pipelines_conserve Proofs.Pipelines_quiesce Proofs.Pipelines_nets.

(* ---- k readers of one input; the output records who got what ---- *)
Record sh := mkSh {
  sh_src : list Z;              (* what the input has not handed out yet *)
  sh_cell : option Z;           (* the iterator's value field *)
  sh_pend : list nat;           (* readers whose Next has returned true and who have not called Value yet *)
  sh_out : list (nat * Z)       (* (reader, value) in the order of delivery *)
}.

Inductive shl :=
| ARead (r : nat)     (* ReadOne: atomic *)
| SNext (r : nat)     (* Next: advances the input, stores the item in the value field *)
| SValue (r : nat).   (* Value: reads the value field *)

Definition sh_step (s : sh) (l : shl) : option sh :=
  match l with
  | ARead r => match sh_src s with
               | x :: t => Some (mkSh t (sh_cell s) (sh_pend s) (sh_out s ++ [(r, x)]))
               | [] => None
               end
  | SNext r => if existsb (Nat.eqb r) (sh_pend s) then None
               else match sh_src s with
                    | x :: t => Some (mkSh t (Some x) (r :: sh_pend s) (sh_out s))
                    | [] => None
                    end
  | SValue r => if existsb (Nat.eqb r) (sh_pend s)
                then match sh_cell s with
                     | Some v => Some (mkSh (sh_src s) (sh_cell s) (filter (fun q => negb (q =? r)) (sh_pend s)) (sh_out s ++ [(r, v)]))
                     | None => None
                     end
                else None
  end.

Fixpoint sh_run (ls : list shl) (s : sh) : option sh :=
  match ls with
  | [] => Some s
  | l :: r => match sh_step s l with Some s' => sh_run r s' | None => None end
  end.

Definition sh_init (input : list Z) : sh := mkSh input None [] [].
Definition atomic_only (ls : list shl) : Prop := forall l, In l ls -> exists r, l = ARead r.

(* any number of readers, any interleaving of atomic reads: what was delivered, in order of delivery,
   followed by what is left, IS the input - nothing lost, nothing twice, whoever got it *)
Theorem atomic_reads_exactly_once input ls s :
  atomic_only ls -> sh_run ls (sh_init input) = Some s -> map snd (sh_out s) ++ sh_src s = input.
Proof.
  intros Ha. assert (G : forall ls s0, atomic_only ls -> sh_run ls s0 = Some s ->
                         map snd (sh_out s) ++ sh_src s = map snd (sh_out s0) ++ sh_src s0).
  { clear. induction ls as [|l ls IH]; intros s0 Ha H; simpl in H; [inv H; reflexivity|].
    destruct (Ha l (or_introl eq_refl)) as (r & ->). cbn [sh_step] in H.
    destruct (sh_src s0) as [|x t] eqn:E; [discriminate|].
    rewrite (IH _ (fun l Hl => Ha l (or_intror Hl)) H). cbn [sh_out sh_src]. rewrite map_app, <- app_assoc. reflexivity. }
  intros H. rewrite (G ls (sh_init input) Ha H). reflexivity.
Qed.

(* two readers that iterate with Next ; Value: the second reader's Next lands between the first one's Next
   and Value - the first item reaches nobody and the second one is delivered twice *)
Example next_value_loses_and_duplicates :
  exists s, sh_run [SNext 0; SNext 1; SValue 0; SValue 1] (sh_init [1; 2]%Z) = Some s /\
            sh_src s = [] /\ sh_out s = [(0, 2%Z); (1, 2%Z)].
Proof. eexists. split; [reflexivity|split; reflexivity]. Qed.

(* ---- the networks: m stages over one channel-backed iterator = m concurrent ReadOne callers ---- *)
Lemma hands_repeat_running c m : hands (repeat (running c) m) = [].
Proof. apply hands_none. intros pr H. apply repeat_spec in H. now subst. Qed.

Theorem shared_input_conservation m cap input s :
  reach (readone_net m) (readone_init m cap input) s ->
  Permutation (concat (s_srcs s) ++ hands (s_procs s) ++ bufs (s_chans s) ++ s_deliv s ++ s_drop s) input.
Proof.
  intros R. pose proof (reach_conserves _ _ _ R) as P. unfold tokens in P at 1. etransitivity; [exact P|].
  unfold readone_init. rewrite tokens_mk_init.
  - cbn [concat]. now rewrite app_nil_r.
  - apply hands_none. intros pr [<-|[<-|[<-|H]]]; auto. apply repeat_spec in H. now subst.
Qed.

(* non-vacuity: three stages over one input of five items: everything delivered, nothing dropped *)
Example shared_three_stages_run :
  let N := readone_net 3 in
  let s := run N 1000 1 false None (readone_init 3 2 [1; 2; 3; 4; 5]%Z) in
  quiescentb N s = true /\ stuck_users N s = 0 /\ s_drop s = [] /\ length (s_deliv s) = 5.
Proof. vm_compute. repeat split; reflexivity. Qed.
