(* C11 - lemmas shared by the four invariant proofs. Stdlib + lia. *)
From FunV Require Import Base.Tac Model.OrchestratorModel.
From Coq Require Import Permutation.

Lemma upd_same {A} (f : nat -> A) i v : upd f i v i = v.
Proof. unfold upd. now rewrite Nat.eqb_refl. Qed.

Lemma upd_other {A} (f : nat -> A) i j v : j <> i -> upd f i v j = f j.
Proof. unfold upd. intros H. destruct (Nat.eqb_spec j i); [contradiction|reflexivity]. Qed.

Lemma upd_cases {A} (f : nat -> A) i j v : (j = i /\ upd f i v j = v) \/ (j <> i /\ upd f i v j = f j).
Proof. destruct (Nat.eq_dec j i); [left; subst; split; auto using upd_same|right; split; auto using upd_other]. Qed.

Lemma memb_In i l : memb i l = true <-> In i l.
Proof.
  unfold memb. rewrite existsb_exists. split.
  - intros (x & Hx & E). apply Nat.eqb_eq in E. now subst.
  - intros H. exists i. split; [assumption|apply Nat.eqb_refl].
Qed.

Lemma memb_false i l : memb i l = false <-> ~ In i l.
Proof. rewrite <- memb_In. destruct (memb i l); split; congruence. Qed.

Lemma In_rm1 j i l : In j (rm1 i l) -> In j l.
Proof.
  induction l as [|x l IH]; simpl; [tauto|].
  destruct (Nat.eqb_spec x i); simpl; intuition.
Qed.

Lemma In_rm1_or j i l : In j l -> j = i \/ In j (rm1 i l).
Proof.
  induction l as [|x l IH]; simpl; [tauto|].
  intros [E|H].
  - subst. destruct (Nat.eqb_spec j i); [now left|right; now left].
  - destruct (Nat.eqb_spec x i); [now right|]. destruct (IH H); [now left|right; now right].
Qed.

Lemma length_rm1 i l : In i l -> S (length (rm1 i l)) = length l.
Proof.
  induction l as [|x l IH]; simpl; [tauto|].
  intros H. destruct (Nat.eqb_spec x i); [reflexivity|].
  destruct H as [E|H]; [congruence|]. simpl. now rewrite IH.
Qed.

Lemma perm_rm1 i l : In i l -> Permutation (i :: rm1 i l) l.
Proof.
  induction l as [|x l IH]; simpl; [tauto|].
  intros H. destruct (Nat.eqb_spec x i); [subst; reflexivity|].
  destruct H as [E|H]; [congruence|].
  rewrite perm_swap. constructor. now apply IH.
Qed.

Lemma NoDup_rm1_notin i l : NoDup l -> ~ In i (rm1 i l).
Proof.
  induction 1 as [|x l Hx Hnd IH]; simpl; [tauto|].
  destruct (Nat.eqb_spec x i); [now subst|].
  simpl. intros [E|H]; [congruence|tauto].
Qed.

Lemma subset_spec a b : subset a b = true <-> (forall x, In x a -> In x b).
Proof.
  unfold subset. rewrite forallb_forall. split; intros H x Hx.
  - apply memb_In. now apply H.
  - apply memb_In. now apply H.
Qed.

Lemma same_set_spec a b : same_set a b = true <-> (forall x, In x a <-> In x b).
Proof.
  unfold same_set. rewrite andb_true_iff, !subset_spec. split.
  - intros [H1 H2] x. split; auto.
  - intros H. split; intros x; apply H.
Qed.

Lemma In_add_err oc i j ec : In j (add_err oc i ec) <-> (j = i /\ fails (oc i) = true) \/ In j ec.
Proof.
  unfold add_err. destruct (fails (oc i)); simpl; intuition congruence.
Qed.

Lemma In_add_err_mono oc i j ec : In j ec -> In j (add_err oc i ec).
Proof. intros. apply In_add_err. now right. Qed.

(* reachability = any trace from init; invariants by induction over the trace *)
Section Reach.
Context {St Ev : Type}.
Variable step : St -> Ev -> option St.

Lemma run_app s tr1 tr2 :
  run step s (tr1 ++ tr2) = match run step s tr1 with Some s' => run step s' tr2 | None => None end.
Proof.
  revert s. induction tr1 as [|e tr1 IH]; intros s; simpl; [reflexivity|].
  destruct (step s e); [apply IH|reflexivity].
Qed.

Lemma invariant_run (P : St -> Prop) :
  (forall s e s', P s -> step s e = Some s' -> P s') ->
  forall tr s0 s, P s0 -> run step s0 tr = Some s -> P s.
Proof.
  intros Hstep. induction tr as [|e tr IH]; intros s0 s H0 Hrun; simpl in Hrun.
  - now inv Hrun.
  - destruct (step s0 e) eqn:E; [|discriminate]. eapply IH; [|eassumption]. eauto.
Qed.

Lemma run_plan_reach fuel next s : exists tr, run step s tr = Some (run_plan step fuel next s).
Proof.
  revert s. induction fuel as [|f IH]; intros s; simpl.
  - now exists [].
  - destruct (next s) as [e|]; [|now exists []].
    destruct (step s e) as [s'|] eqn:E; [|now exists []].
    destruct (IH s') as (tr & Htr). exists (e :: tr). simpl. now rewrite E.
Qed.
End Reach.

Ltac destr_step H :=
  repeat match type of H with
         | context [match ?c with _ => _ end] => destruct c eqn:?; try discriminate H
         | context [if ?c then _ else _] => destruct c eqn:?; try discriminate H
         end.

Lemma is_idle_true p : is_idle p = true -> p = SIdle.
Proof. destruct p; simpl; congruence. Qed.
Lemma is_idle_false p : is_idle p = false -> p <> SIdle.
Proof. destruct p; simpl; congruence. Qed.
Lemma is_finished_true p : is_finished p = true -> p = SFinished.
Proof. destruct p; simpl; congruence. Qed.
Lemma is_finished_false p : is_finished p = false -> p <> SFinished.
Proof. destruct p; simpl; congruence. Qed.
Lemma is_running_true p : is_running p = true -> p = SStarted \/ p = SRunning.
Proof. destruct p; simpl; auto; congruence. Qed.

Ltac phase_facts :=
  repeat match goal with
         | H : is_idle _ = true |- _ => apply is_idle_true in H
         | H : is_idle _ = false |- _ => apply is_idle_false in H
         | H : is_finished _ = true |- _ => apply is_finished_true in H
         | H : is_finished _ = false |- _ => apply is_finished_false in H
         | H : is_running _ = true |- _ => apply is_running_true in H
         | H : memb _ _ = true |- _ => apply memb_In in H
         | H : memb _ _ = false |- _ => apply memb_false in H
         | H : _ && _ = true |- _ => apply andb_true_iff in H; destruct H
         | H : Nat.eqb _ _ = true |- _ => apply Nat.eqb_eq in H
         | H : Nat.ltb _ _ = true |- _ => apply Nat.ltb_lt in H
         | H : Nat.ltb _ _ = false |- _ => apply Nat.ltb_ge in H
         | H : Nat.leb _ _ = true |- _ => apply Nat.leb_le in H
         | H : Nat.eqb _ _ = false |- _ => apply Nat.eqb_neq in H
         end.

Ltac upd_all :=
  repeat match goal with
         | |- context [upd ?f ?i ?x ?j] => destruct (upd_cases f i j x) as [[? ->]|[? ->]]; subst
         | H : context [upd ?f ?i ?x ?j] |- _ =>
             let Hu := fresh "Hu" in
             destruct (upd_cases f i j x) as [[? Hu]|[? Hu]]; rewrite Hu in H; clear Hu; subst
         end.

(* occurrence counting: "token" arguments are arithmetic over counts *)
Definition cnt (j : nat) (l : list nat) : nat := count_occ Nat.eq_dec l j.

Lemma cnt_nil j : cnt j [] = 0.
Proof. reflexivity. Qed.
Lemma cnt_cons j x l : cnt j (x :: l) = (if Nat.eqb x j then 1 else 0) + cnt j l.
Proof.
  unfold cnt. simpl. destruct (Nat.eq_dec x j); destruct (Nat.eqb_spec x j); try contradiction; lia.
Qed.
Lemma cnt_app j l1 l2 : cnt j (l1 ++ l2) = cnt j l1 + cnt j l2.
Proof. unfold cnt. apply count_occ_app. Qed.
Lemma cnt_In j l : In j l <-> 0 < cnt j l.
Proof. unfold cnt. rewrite (count_occ_In Nat.eq_dec). lia. Qed.
Lemma cnt_rm1 j i l : In i l -> cnt j (rm1 i l) + (if Nat.eqb i j then 1 else 0) = cnt j l.
Proof.
  induction l as [|x l IH]; [intros []|].
  intros H. cbn [rm1]. destruct (Nat.eqb_spec x i).
  - subst. rewrite cnt_cons. lia.
  - destruct H as [E|H]; [congruence|]. rewrite !cnt_cons. specialize (IH H). lia.
Qed.
Global Opaque cnt.

Ltac cnt_simpl :=
  repeat (rewrite ?cnt_app, ?cnt_cons, ?cnt_nil in * ).
