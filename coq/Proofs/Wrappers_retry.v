(* C15 — Retry (Worker/Processor and Producer variants) over ALL outcome scripts and all n. *)
From FunV Require Import Base.Tac Model.Wrappers.
Local Open Scope Z_scope.

(* ------------------------------------------------------------------ the scripted function *)
Definition head_outcome (rest : list outcome) : outcome := hd (OOk 0) rest.

Lemma run_base k id sc rest w :
  run (FBase k id sc) (SBase rest) w =
  (outcome_result k (head_outcome rest), SBase (tl rest),
   if outcome_cancels (head_outcome rest) then cancel (log_ev id w) else log_ev id w).
Proof. destruct rest as [|o rest]; reflexivity. Qed.

(* outcomes after which Retry tries again *)
Definition retryable (o : outcome) : bool := match o with OErr _ _ | OSkip _ => true | _ => false end.
Definition is_success (o : outcome) : bool := match o with OOk _ | OCancel _ => true | _ => false end.

(* number of leading retryable outcomes of the unread script *)
Fixpoint leading_retryable (s : list outcome) : nat :=
  match s with
  | o :: s' => if retryable o then S (leading_retryable s') else O
  | [] => O
  end.

(* the j-th outcome the function will produce (the exhausted script yields (0, nil)) *)
Definition outcome_at (rest : list outcome) (j : nat) : outcome := nth j rest (OOk 0).

Lemma leading_retryable_spec rest :
  (forall j, (j < leading_retryable rest)%nat -> retryable (outcome_at rest j) = true) /\
  retryable (outcome_at rest (leading_retryable rest)) = false.
Proof.
  induction rest as [|o rest IH]; simpl.
  - split; [lia|reflexivity].
  - destruct (retryable o) eqn:E.
    + destruct IH as [A B]. split; [|exact B].
      intros [|j] Hj; [exact E|]. apply A. lia.
    + split; [lia|exact E].
Qed.

(* the failures reported for a list of attempted outcomes: ers.Join(attemptErr, err) puts the newest first; skips are not reported *)
Definition fail_leaf (o : outcome) : err := match o with OErr _ x => [LErr x] | _ => [] end.
Fixpoint fails (l : list outcome) (acc : err) : err :=
  match l with [] => acc | o :: l' => fails l' (fail_leaf o ++ acc) end.

Definition errkind (k : kind) : bool := match k with KWorker | KProcessor => true | _ => false end.

Lemma wlog_cancel w : wlog (cancel w) = wlog w. Proof. reflexivity. Qed.
Lemma wcall_cancel w : wcall (cancel w) = wcall w. Proof. reflexivity. Qed.

Definition base_world id (o : outcome) (w : world) : world :=
  if outcome_cancels o then cancel (log_ev id w) else log_ev id w.

Lemma base_world_log id o w : wlog (base_world id o w) = (id, wcall w) :: wlog w.
Proof. unfold base_world. destruct (outcome_cancels o); reflexivity. Qed.
Lemma base_world_call id o w : wcall (base_world id o w) = wcall w.
Proof. unfold base_world. destruct (outcome_cancels o); reflexivity. Qed.

Lemma skipn_tl {A} n (l : list A) : skipn n (tl l) = skipn (S n) l.
Proof. destruct l; simpl; [destruct n; reflexivity|reflexivity]. Qed.

Lemma repeat_snoc {A} (x : A) n : repeat x n ++ [x] = x :: repeat x n.
Proof. induction n; simpl; [reflexivity|]. now rewrite IHn. Qed.

Lemma repeat_app_cons {A} (x : A) n l : repeat x n ++ x :: l = x :: repeat x n ++ l.
Proof. change (x :: l) with ([x] ++ l). now rewrite app_assoc, repeat_snoc. Qed.

(* ------------------------------------------------------------------ Worker.Retry / Processor.Retry *)
(* what the call returns when it stops at outcome o with the failures acc collected so far *)
Definition stopW (o : outcome) (acc : err) : result :=
  match o with
  | OOk _ | OCancel _ | OEOF _ | OAbort _ => Ret 0 []
  | OCtx _ => Ret 0 (LCtx :: acc)
  | OPanic p => Pan p
  | _ => Ret 0 acc   (* not a stopping outcome *)
  end.

Ltac stop_case :=
  simpl; rewrite ?Nat.min_0_r; eexists; repeat split; try reflexivity;
  rewrite ?base_world_log, ?base_world_call; reflexivity.

Lemma retryW_base k id sc : errkind k = true ->
  forall i acc rest w,
    let m := leading_retryable rest in
    let a := Nat.min i (S m) in
    exists w',
      retryW_loop (run (FBase k id sc)) i acc (SBase rest) w =
        ((if (m <? i)%nat then stopW (outcome_at rest m) (fails (firstn m rest) acc)
          else Ret 0 (fails (firstn i rest) acc)),
         SOne (SBase (skipn a rest)), w')
      /\ wlog w' = repeat (id, wcall w) a ++ wlog w /\ wcall w' = wcall w.
Proof.
  intros K. induction i as [|i IH]; intros acc rest w m a.
  - exists w. subst m a. simpl. repeat split; reflexivity.
  - subst a m. cbn [retryW_loop]. rewrite run_base. fold (base_world id (head_outcome rest) w).
    destruct rest as [|o rest].
    + (* script exhausted: (0, nil) *)
      cbn [head_outcome hd outcome_result]. replace (proj k 0 []) with (Ret 0 []) by (destruct k; try discriminate; reflexivity).
      stop_case.
    + cbn [head_outcome hd tl].
      destruct o; cbn [outcome_result leading_retryable retryable];
        try (replace (proj k v []) with (Ret 0 []) by (destruct k; try discriminate; reflexivity));
        try (replace (proj k v [LErr k0]) with (Ret 0 [LErr k0]) by (destruct k; try discriminate; reflexivity));
        try (replace (proj k v [LEOF]) with (Ret 0 [LEOF]) by (destruct k; try discriminate; reflexivity));
        try (replace (proj k v [LAbort]) with (Ret 0 [LAbort]) by (destruct k; try discriminate; reflexivity));
        try (replace (proj k v [LCtx]) with (Ret 0 [LCtx]) by (destruct k; try discriminate; reflexivity));
        try (replace (proj k v [LSkip]) with (Ret 0 [LSkip]) by (destruct k; try discriminate; reflexivity)).
      * (* OOk *) stop_case.
      * (* OErr: try again, failure recorded *)
        cbn [is_nil is_expired is_skip is_terminating has existsb leaf_eqb orb]. unfold join.
        destruct (IH ([LErr k0] ++ acc) rest (base_world id (OErr v k0) w)) as (w' & E & L & C).
        rewrite E. exists w'. split; [reflexivity|split].
        -- rewrite L, base_world_log, base_world_call.
           change (Nat.min (S i) (S (S (leading_retryable rest)))) with (S (Nat.min i (S (leading_retryable rest)))).
           simpl. apply repeat_app_cons.
        -- now rewrite C, base_world_call.
      * (* OEOF *) stop_case.
      * (* OAbort *) stop_case.
      * (* OCtx *) stop_case.
      * (* OSkip: try again, nothing recorded *)
        cbn [is_nil is_expired is_skip is_terminating has existsb leaf_eqb orb].
        destruct (IH acc rest (base_world id (OSkip v) w)) as (w' & E & L & C).
        rewrite E. exists w'. split; [reflexivity|split].
        -- rewrite L, base_world_log, base_world_call.
           change (Nat.min (S i) (S (S (leading_retryable rest)))) with (S (Nat.min i (S (leading_retryable rest)))).
           simpl. apply repeat_app_cons.
        -- now rewrite C, base_world_call.
      * (* OPanic *) stop_case.
      * (* OCancel *) stop_case.
Qed.

(* ------------------------------------------------------------------ Producer.Retry *)
Definition stopP (o : outcome) (acc : err) : result :=
  match o with
  | OOk v | OCancel v => Ret v []
  | OEOF _ => Ret 0 (LEOF :: acc)
  | OAbort _ => Ret 0 (LAbort :: acc)
  | OCtx _ => Ret 0 (LCtx :: acc)
  | OPanic p => Pan p
  | _ => Ret 0 acc
  end.

Lemma retryP_base id sc :
  forall i acc rest w,
    let m := leading_retryable rest in
    let a := Nat.min i (S m) in
    exists w',
      retryP_loop (run (FBase KProducer id sc)) i acc (SBase rest) w =
        ((if (m <? i)%nat then stopP (outcome_at rest m) (fails (firstn m rest) acc)
          else Ret 0 (fails (firstn i rest) acc)),
         SOne (SBase (skipn a rest)), w')
      /\ wlog w' = repeat (id, wcall w) a ++ wlog w /\ wcall w' = wcall w.
Proof.
  induction i as [|i IH]; intros acc rest w m a.
  - exists w. subst m a. simpl. repeat split; reflexivity.
  - subst a m. cbn [retryP_loop]. rewrite run_base. fold (base_world id (head_outcome rest) w).
    destruct rest as [|o rest].
    + stop_case.
    + cbn [head_outcome hd tl].
      destruct o; cbn [outcome_result leading_retryable retryable proj].
      * stop_case.
      * cbn [is_nil is_expired is_skip is_terminating has existsb leaf_eqb orb]. unfold join.
        destruct (IH ([LErr k] ++ acc) rest (base_world id (OErr v k) w)) as (w' & E & L & C).
        rewrite E. exists w'. split; [reflexivity|split].
        -- rewrite L, base_world_log, base_world_call.
           change (Nat.min (S i) (S (S (leading_retryable rest)))) with (S (Nat.min i (S (leading_retryable rest)))).
           simpl. apply repeat_app_cons.
        -- now rewrite C, base_world_call.
      * stop_case.
      * stop_case.
      * stop_case.
      * cbn [is_nil is_expired is_skip is_terminating has existsb leaf_eqb orb].
        destruct (IH acc rest (base_world id (OSkip v) w)) as (w' & E & L & C).
        rewrite E. exists w'. split; [reflexivity|split].
        -- rewrite L, base_world_log, base_world_call.
           change (Nat.min (S i) (S (S (leading_retryable rest)))) with (S (Nat.min i (S (leading_retryable rest)))).
           simpl. apply repeat_app_cons.
        -- now rewrite C, base_world_call.
      * stop_case.
      * stop_case.
Qed.

(* ------------------------------------------------------------------ counting executions in the log *)
Lemma invocations_cons_same id c l : invocations id ((id, c) :: l) = 1 + invocations id l.
Proof. unfold invocations. cbn [filter fst]. rewrite Z.eqb_refl. cbn [length]. rewrite Nat2Z.inj_succ. lia. Qed.

Lemma invocations_cons_other id id' c l : id' <> id -> invocations id ((id', c) :: l) = invocations id l.
Proof. intros N. unfold invocations. cbn [filter fst]. apply Z.eqb_neq in N. now rewrite N. Qed.

Lemma invocations_repeat id c a l : invocations id (repeat (id, c) a ++ l) = Z.of_nat a + invocations id l.
Proof.
  induction a; simpl repeat; simpl app; [lia|]. rewrite invocations_cons_same, IHa. lia.
Qed.

Lemma run_retryW n f s w : run (FRetryW n f) (SOne s) w = retryW_loop (run f) (Z.to_nat n) [] s w.
Proof. reflexivity. Qed.
Lemma run_retryP n f s w : run (FRetryP n f) (SOne s) w = retryP_loop (run f) (Z.to_nat n) [] s w.
Proof. reflexivity. Qed.

(* ------------------------------------------------------------------ the property-level statements *)
(* the attempts of one call are the outcomes outcome_at rest 0 .. a-1 *)
Definition attempts_ok (n : Z) (rest : list outcome) (a : nat) : Prop :=
  Z.of_nat a <= Z.max 0 n /\                                           (* at most n attempts *)
  (forall j, (S j < a)%nat -> retryable (outcome_at rest j) = true) /\     (* it went on only after a retryable failure: it stopped at the first success / terminating error / panic *)
  ((a < Z.to_nat n)%nat -> (1 <= a)%nat /\ retryable (outcome_at rest (a - 1)) = false).   (* it gave up early only because the last attempt was not retryable *)

Lemma attempts_ok_min n rest : attempts_ok n rest (Nat.min (Z.to_nat n) (S (leading_retryable rest))).
Proof.
  destruct (leading_retryable_spec rest) as [A B].
  unfold attempts_ok. split; [lia|split].
  - intros j Hj. apply A. lia.
  - intros H. assert (E : Nat.min (Z.to_nat n) (S (leading_retryable rest)) = S (leading_retryable rest)) by lia.
    rewrite E. split; [lia|]. replace (S (leading_retryable rest) - 1)%nat with (leading_retryable rest) by lia. exact B.
Qed.

Theorem retryW_attempts k id sc n rest w : errkind k = true ->
  exists r w' a,
    run (FRetryW n (FBase k id sc)) (SOne (SBase rest)) w = (r, SOne (SBase (skipn a rest)), w') /\
    invocations id (wlog w') = invocations id (wlog w) + Z.of_nat a /\
    attempts_ok n rest a.
Proof.
  intros K. rewrite run_retryW.
  destruct (retryW_base k id sc K (Z.to_nat n) [] rest w) as (w' & E & L & _).
  eexists _, w', _. split; [exact E|]. split.
  - rewrite L, invocations_repeat. lia.
  - apply attempts_ok_min.
Qed.

Theorem retryP_attempts id sc n rest w :
  exists r w' a,
    run (FRetryP n (FBase KProducer id sc)) (SOne (SBase rest)) w = (r, SOne (SBase (skipn a rest)), w') /\
    invocations id (wlog w') = invocations id (wlog w) + Z.of_nat a /\
    attempts_ok n rest a.
Proof.
  rewrite run_retryP.
  destruct (retryP_base id sc (Z.to_nat n) [] rest w) as (w' & E & L & _).
  eexists _, w', _. split; [exact E|]. split.
  - rewrite L, invocations_repeat. lia.
  - apply attempts_ok_min.
Qed.

(* which errors are reported *)
Lemma fails_not_success l acc : fails l acc = [] -> acc = [].
Proof.
  revert acc. induction l as [|o l IH]; simpl; intros acc H; [exact H|].
  apply IH in H. destruct (fail_leaf o); [exact H|discriminate].
Qed.

Lemma retryable_not_success o : retryable o = true -> is_success o = false.
Proof. destruct o; simpl; congruence. Qed.

(* Worker/Processor: the call's result, for every script and every n *)
Theorem retryW_result k id sc n rest w : errkind k = true ->
  let m := leading_retryable rest in
  let a := Nat.min (Z.to_nat n) (S m) in
  let r := fst (fst (run (FRetryW n (FBase k id sc)) (SOne (SBase rest)) w)) in
  (* a successful attempt: nil, whatever failed before *)
  ((exists j, (j < a)%nat /\ is_success (outcome_at rest j) = true) -> r = Ret 0 []) /\
  (* an error is reported only if no attempt succeeded *)
  (forall v e, r = Ret v e -> e <> [] -> forall j, (j < a)%nat -> is_success (outcome_at rest j) = false) /\
  (* all n attempts failed: exactly the failures are reported (newest first; skips are not failures) *)
  ((Z.to_nat n <= m)%nat -> r = Ret 0 (fails (firstn (Z.to_nat n) rest) [])).
Proof.
  intros K m a r. subst r. rewrite run_retryW.
  destruct (retryW_base k id sc K (Z.to_nat n) [] rest w) as (w' & E & _ & _).
  rewrite E. cbn [fst]. fold m. destruct (leading_retryable_spec rest) as [A B]. fold m in A, B.
  assert (S1 : forall j, (j < a)%nat -> is_success (outcome_at rest j) = true -> j = m /\ (m < Z.to_nat n)%nat).
  { intros j Hj Sx. destruct (Nat.lt_ge_cases j m) as [Lt|Ge].
    - apply A in Lt. apply retryable_not_success in Lt. congruence.
    - subst a. split; lia. }
  split; [|split].
  - intros (j & Hj & Sx). destruct (S1 j Hj Sx) as [-> Lt].
    apply Nat.ltb_lt in Lt. rewrite Lt. destruct (outcome_at rest m); simpl in Sx; try discriminate; reflexivity.
  - intros v e Hr Ne j Hj. destruct (is_success (outcome_at rest j)) eqn:Sx; [|reflexivity].
    destruct (S1 j Hj Sx) as [-> Lt]. apply Nat.ltb_lt in Lt. rewrite Lt in Hr.
    destruct (outcome_at rest m); simpl in Sx; try discriminate; simpl in Hr; inv Hr; congruence.
  - intros Le. assert (X : (m <? Z.to_nat n)%nat = false) by (apply Nat.ltb_ge; lia). now rewrite X.
Qed.

(* Producer: same, and the successful attempt's value is returned *)
Theorem retryP_result id sc n rest w :
  let m := leading_retryable rest in
  let a := Nat.min (Z.to_nat n) (S m) in
  let r := fst (fst (run (FRetryP n (FBase KProducer id sc)) (SOne (SBase rest)) w)) in
  (forall j, (j < a)%nat -> is_success (outcome_at rest j) = true ->
             exists v, (outcome_at rest j = OOk v \/ outcome_at rest j = OCancel v) /\ r = Ret v []) /\
  (forall v e, r = Ret v e -> e <> [] -> forall j, (j < a)%nat -> is_success (outcome_at rest j) = false) /\
  ((Z.to_nat n <= m)%nat -> r = Ret 0 (fails (firstn (Z.to_nat n) rest) [])).
Proof.
  intros m a r. subst r. rewrite run_retryP.
  destruct (retryP_base id sc (Z.to_nat n) [] rest w) as (w' & E & _ & _).
  rewrite E. cbn [fst]. fold m. destruct (leading_retryable_spec rest) as [A B]. fold m in A, B.
  assert (S1 : forall j, (j < a)%nat -> is_success (outcome_at rest j) = true -> j = m /\ (m < Z.to_nat n)%nat).
  { intros j Hj Sx. destruct (Nat.lt_ge_cases j m) as [Lt|Ge].
    - apply A in Lt. apply retryable_not_success in Lt. congruence.
    - subst a. split; lia. }
  split; [|split].
  - intros j Hj Sx. destruct (S1 j Hj Sx) as [-> Lt].
    apply Nat.ltb_lt in Lt. rewrite Lt. destruct (outcome_at rest m) eqn:O; simpl in Sx; try discriminate; eexists; split; eauto.
  - intros v e Hr Ne j Hj. destruct (is_success (outcome_at rest j)) eqn:Sx; [|reflexivity].
    destruct (S1 j Hj Sx) as [-> Lt]. apply Nat.ltb_lt in Lt. rewrite Lt in Hr.
    destruct (outcome_at rest m); simpl in Sx; try discriminate; simpl in Hr; inv Hr; congruence.
  - intros Le. assert (X : (m <? Z.to_nat n)%nat = false) by (apply Nat.ltb_ge; lia). now rewrite X.
Qed.

(* ------------------------------------------------------------------ non-vacuity *)
Example retry_example_success_discards_failures :
  observe (FRetryW 3 (FBase KWorker 1 [OErr 0 1; OErr 0 2; OOk 0; OErr 0 3; OErr 0 4; OErr 0 5; OOk 0])) 2
  = ([Ret 0 []; Ret 0 [LErr 5; LErr 4; LErr 3]], [(1, 0); (1, 0); (1, 0); (1, 1); (1, 1); (1, 1)]).
Proof. reflexivity. Qed.

Example retry_example_exhausted_reports_all :
  observe (FRetryW 2 (FBase KWorker 1 [OErr 0 1; OSkip 0; OErr 0 2])) 1 = ([Ret 0 [LErr 1]], [(1, 0); (1, 0)])
  /\ observe (FRetryP 3 (FBase KProducer 1 [OErr 9 1; OErr 9 2; OErr 9 3; OOk 5])) 1
     = ([Ret 0 [LErr 3; LErr 2; LErr 1]], [(1, 0); (1, 0); (1, 0)]).
Proof. split; reflexivity. Qed.

(* the two variants differ on a terminating error: Worker drops everything, Producer reports it with the earlier failures *)
Example retry_example_terminating :
  observe (FRetryW 3 (FBase KWorker 1 [OErr 0 1; OEOF 0; OOk 0])) 1 = ([Ret 0 []], [(1, 0); (1, 0)])
  /\ observe (FRetryP 3 (FBase KProducer 1 [OErr 0 1; OEOF 0; OOk 0])) 1 = ([Ret 0 [LEOF; LErr 1]], [(1, 0); (1, 0)]).
Proof. split; reflexivity. Qed.
