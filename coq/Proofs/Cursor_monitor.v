(* waitForNew as an instance of the generic monitor of Conc/Monitor.v (agent C14), at the pointer level of
   Model/QueueCursor.v.  Monitor.v's transition system is finer than the one of QueueCursor.v: lock
   acquisition is a step of its own, a waiter that has decided to park is in the `Parking` state before
   cond.Wait registers it, and the per-wait helper goroutine's broadcast is a separate, later step
   (`pendingB`).  The Broadcast discipline of doAdd / popFront / Close therefore also gives, in that finer
   model: a parked iterator's cursor has no successor and the queue is open (every reachable state), and at
   quiescence no parked iterator's context has ended (helper broadcasting under the lock, as repaired by
   fixes_pending/C07-helper-broadcast-locked.diff, or any schedule without the unlocked-helper race). *)
From FunV Require Import Base.Tac Model.QueueCursor Proofs.Cursor_queue.
From FunV Require Conc.Monitor.

Module M := Conc.Monitor.

Definition NUPD : M.cond := 0.
Definition NEMPTY : M.cond := 1.

Definition has_next (c : nat) (q : queue) : bool :=
  match link (heap q c) with Some _ => true | None => false end.

(* the critical sections, with the Signal/Broadcast calls they make before unlocking *)
Definition b_add (v : Z) : M.body queue := fun q =>
  match do_add q v with
  | Some q' => (q', (if Nat.eqb (qlen q') 1 then [M.Signal NEMPTY] else []) ++ [M.Broadcast NUPD])
  | None => (q, [])
  end.

Definition b_remove : M.body queue := fun q =>
  if Nat.eqb (qlen q) 0 then (q, [])
  else match pop_front q with
       | Some (q', _) => (q', [M.Broadcast NUPD])
       | None => (q, [])
       end.

Definition b_close : M.body queue := fun q =>
  (mkQ (heap q) (nxt q) (front q) (back q) true (qlen q), [M.Broadcast NUPD; M.Broadcast NEMPTY]).

(* waitForNew(ctx, cursor): parks on nupdates while cursor.link == nil; the helper goroutine is spawned right
   after Lock (eager); success changes nothing *)
Definition w_iter (c : nat) : M.waiter queue := M.mkWaiter NUPD (has_next c) closed (fun q => (q, [])) true.

Inductive iter_op : M.op queue -> Prop :=
| io_add v : iter_op (M.OEffect (b_add v))
| io_remove : iter_op (M.OEffect b_remove)
| io_close : iter_op (M.OEffect b_close)
| io_wait c : iter_op (M.OWaiter (w_iter c)).

Definition iter_prog (prog : M.tid -> M.op queue) : Prop := forall t, iter_op (prog t).

Lemma body_unchanged_or_bcast prog t b d :
  iter_prog prog -> M.body_of queue prog t b -> fst (b d) = d \/ In (M.Broadcast NUPD) (snd (b d)).
Proof.
  intros HP [Hb|(w & Hw & ->)]; pose proof (HP t) as Ht.
  - rewrite Hb in Ht. inversion Ht; subst.
    + unfold b_add. destruct (do_add d v); [right; simpl; rewrite in_app_iff; simpl; auto|left; reflexivity].
    + unfold b_remove. destruct (Nat.eqb (qlen d) 0); [left; reflexivity|].
      destruct (pop_front d) as [[q' x]|]; [right; simpl; auto|left; reflexivity].
    + right. simpl. auto.
  - rewrite Hw in Ht. inversion Ht; subst. left. reflexivity.
Qed.

Theorem waitForNew_bcast prog : iter_prog prog -> M.bcast_discipline queue prog NUPD.
Proof.
  intros HP t b Hb d u w Hu Hc H0 H1.
  destruct (body_unchanged_or_bcast prog t b d HP Hb) as [E|E]; auto.
  rewrite E in H1. congruence.
Qed.

(* every reachable state of every schedule: an iterator parked (or about to park) in waitForNew stands on an
   entry without successor, and the queue is open *)
Theorem waitForNew_parked_sees_all prog hl ok s t c :
  iter_prog prog -> M.reach queue prog q0 hl ok s -> prog t = M.OWaiter (w_iter c) ->
  (M.thr s t = M.Parking \/ M.thr s t = M.Parked) ->
  has_next c (M.dat s) = false /\ closed (M.dat s) = false.
Proof.
  intros HP R Hp Hs.
  pose proof (M.mon_parked_not_enabled queue prog q0 hl ok NUPD s (waitForNew_bcast prog HP) R t _ Hp eq_refl Hs) as X.
  unfold M.w_wake in X. simpl in X. apply orb_false_iff in X. exact X.
Qed.

(* at quiescence no parked iterator's context has ended: with the helper broadcasting under the lock for
   every schedule, with the unlocked helper for every schedule that avoids the select/Wait race *)
Theorem waitForNew_no_lost_cancel prog hl ok s t c :
  M.ctx_guard queue hl ok -> M.reach queue prog q0 hl ok s -> M.quiescent s ->
  prog t = M.OWaiter (w_iter c) -> M.thr s t = M.Parked -> M.ended s t = false.
Proof. intros G R Q Hp Hs. eapply M.mon_no_lost_cancel; eauto. Qed.
