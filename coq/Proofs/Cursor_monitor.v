(* waitForNew as an instance of the generic monitor of Conc/Monitor.v (agent C14), at the pointer level of
   Model/QueueCursor.v.  Monitor.v's transition system is finer than the one of QueueCursor.v: lock
   acquisition is a step of its own, a waiter that has decided to park is in the `Parking` state before
   cond.Wait registers it, and the per-wait helper goroutine's broadcast is a separate, later step
   (`pendingB`).  The Broadcast discipline of doAdd / popFront / Close therefore also gives, in that finer
   model: a parked iterator's cursor has no successor and the queue is open (every reachable state), and at
   quiescence no parked iterator's context has ended (helper broadcasting under the lock, as repaired by
   fixes_pending/C07-helper-broadcast-locked.diff, or any schedule without the unlocked-helper race). *)
From FunV Require Import Base.Tac Model.QueueCursor Proofs.Cursor_queue.
From FunV Require Conc.Monitor.

Module M := Conc.Monitor.

Definition NUPD : M.cond := 0.
Definition NEMPTY : M.cond := 1.

Definition has_next (c : nat) (q : queue) : bool :=
  match link (heap q c) with Some _ => true | None => false end.

(* the critical sections, with the Signal/Broadcast calls they make before unlocking *)
Definition b_add (v : Z) : M.body queue := fun q =>
  match do_add q v with
  | Some q' => (q', (if Nat.eqb (qlen q') 1 then [M.Signal NEMPTY] else []) ++ [M.Broadcast NUPD])
  | None => (q, [])
  end.

Definition b_remove : M.body queue := fun q =>
  if Nat.eqb (qlen q) 0 then (q, [])
  else match pop_front q with
       | Some (q', _) => (q', [M.Broadcast NUPD])
       | None => (q, [])
       end.

Definition b_close : M.body queue := fun q =>
  (mkQ (heap q) (nxt q) (front q) (back q) true (qlen q), [M.Broadcast NUPD; M.Broadcast NEMPTY]).

(* waitForNew(ctx, cursor): parks on nupdates while cursor.link == nil; the helper goroutine is spawned right
   after Lock (eager); success changes nothing *)
Definition w_iter (c : nat) : M.waiter queue := M.mkWaiter NUPD (has_next c) closed (fun q => (q, [])) true.

Inductive iter_op : M.op queue -> Prop :=
| io_add v : iter_op (M.OEffect (b_add v))
| io_remove : iter_op (M.OEffect b_remove)
| io_close : iter_op (M.OEffect b_close)
| io_wait c : iter_op (M.OWaiter (w_iter c)).

Definition iter_prog (prog : M.tid -> M.op queue) : Prop := forall t, iter_op (prog t).

Lemma body_unchanged_or_bcast prog t b d :
  iter_prog prog -> M.body_of queue prog t b -> fst (b d) = d \/ In (M.Broadcast NUPD) (snd (b d)).
Proof.
  intros HP [Hb|(w & Hw & ->)]; pose proof (HP t) as Ht.
  - rewrite Hb in Ht. inversion Ht; subst.
    + unfold b_add. destruct (do_add d v); [right; simpl; rewrite in_app_iff; simpl; auto|left; reflexivity].
    + unfold b_remove. destruct (Nat.eqb (qlen d) 0); [left; reflexivity|].
      destruct (pop_front d) as [[q' x]|]; [right; simpl; auto|left; reflexivity].
    + right. simpl. auto.
  - rewrite Hw in Ht. inversion Ht; subst. left. reflexivity.
Qed.

Theorem waitForNew_bcast prog : iter_prog prog -> M.bcast_discipline queue prog NUPD.
Proof.
  intros HP t b Hb d u w Hu Hc H0 H1.
  destruct (body_unchanged_or_bcast prog t b d HP Hb) as [E|E]; auto.
  rewrite E in H1. congruence.
Qed.

(* every reachable state of every schedule: an iterator parked (or about to park) in waitForNew stands on an
   entry without successor, and the queue is open *)
Theorem waitForNew_parked_sees_all prog hl ok s t c :
  iter_prog prog -> M.reach queue prog q0 hl ok s -> prog t = M.OWaiter (w_iter c) ->
  (M.thr s t = M.Parking \/ M.thr s t = M.Parked) ->
  has_next c (M.dat s) = false /\ closed (M.dat s) = false.
Proof.
  intros HP R Hp Hs.
  pose proof (M.mon_parked_not_enabled queue prog q0 hl ok NUPD s (waitForNew_bcast prog HP) R t _ Hp eq_refl Hs) as X.
  unfold M.w_wake in X. simpl in X. apply orb_false_iff in X. exact X.
Qed.

(* at quiescence no parked iterator's context has ended: with the helper broadcasting under the lock for
   every schedule, with the unlocked helper for every schedule that avoids the select/Wait race *)
Theorem waitForNew_no_lost_cancel prog hl ok s t c :
  M.ctx_guard queue hl ok -> M.reach queue prog q0 hl ok s -> M.quiescent s ->
  prog t = M.OWaiter (w_iter c) -> M.thr s t = M.Parked -> M.ended s t = false.
Proof. intros G R Q Hp Hs. eapply M.mon_no_lost_cancel; eauto. Qed.

(* ================================================================ Deque: element.wait in the same monitor model *)
From FunV Require Import Model.DequeCursor.

Definition NFRONT : M.cond := 2.
Definition NBACK : M.cond := 3.
Definition UPDATES : M.cond := 4.
Definition bcast_all : list M.sig := [M.Broadcast NFRONT; M.Broadcast NBACK; M.Broadcast UPDATES].   (* dq.broadcastAll() *)

Definition no_iters (d : deque) : dstate := mkDS d (fun _ => di0 VFwd).

Definition bd_push (v : Z) (back : bool) : M.body deque := fun d =>
  match push (no_iters d) v back with
  | (s', EvAdd true) => (sd s', bcast_all)
  | _ => (d, [])
  end.

Definition bd_pop (back : bool) : M.body deque := fun d =>
  match pop (no_iters d) back with
  | (s', EvRem (Some _)) => (sd s', bcast_all)
  | _ => (d, [])
  end.

Definition bd_close : M.body deque := fun d => (mkD (dheap d) (dnxt d) true (dlen d), bcast_all).

(* element.wait of the element c in direction rv, with `next` captured as cap before the loop, on the cond k
   it chose at entry: parks while the pointer is unchanged; the watcher goroutine is spawned before the loop *)
Definition w_dwait (k : M.cond) (c : nat) (rv : bool) (cap : option nat) : M.waiter deque :=
  M.mkWaiter k (fun d => negb (optnat_eqb cap (get rv (dheap d c)))) dclosed (fun d => (d, [])) true.

Inductive dwait_op : M.op deque -> Prop :=
| do_push v b : dwait_op (M.OEffect (bd_push v b))
| do_pop b : dwait_op (M.OEffect (bd_pop b))
| do_close : dwait_op (M.OEffect bd_close)
| do_wait k c rv cap : dwait_op (M.OWaiter (w_dwait k c rv cap)).

Definition dwait_prog (prog : M.tid -> M.op deque) : Prop := forall t, dwait_op (prog t).

Lemma dbody_unchanged_or_bcast prog t b d :
  dwait_prog prog -> M.body_of deque prog t b -> fst (b d) = d \/ snd (b d) = bcast_all.
Proof.
  intros HP [Hb|(w & Hw & ->)]; pose proof (HP t) as Ht.
  - rewrite Hb in Ht. inversion Ht; subst.
    + unfold bd_push. destruct (push (no_iters d) v b0) as [s' e]. destruct e as [|[|]|o|i r|]; simpl; auto.
    + unfold bd_pop. destruct (pop (no_iters d) b0) as [s' e]. destruct e as [|ok|[z|]|i r|]; simpl; auto.
    + right. reflexivity.
  - rewrite Hw in Ht. inversion Ht; subst. left. reflexivity.
Qed.

Theorem deque_wait_bcast prog k :
  dwait_prog prog -> k = NFRONT \/ k = NBACK \/ k = UPDATES -> M.bcast_discipline deque prog k.
Proof.
  intros HP Hk t b Hb d u w Hu Hc H0 H1.
  destruct (dbody_unchanged_or_bcast prog t b d HP Hb) as [E|E].
  - rewrite E in H1. congruence.
  - rewrite E. unfold bcast_all. simpl. destruct Hk as [ -> | [ -> | -> ] ]; auto.
Qed.

(* every reachable state of every schedule: a producer parked (or about to park) in element.wait still sees
   the pointer it captured, and the deque is open *)
Theorem deque_wait_parked_unchanged prog hl ok s t k c rv cap :
  dwait_prog prog -> k = NFRONT \/ k = NBACK \/ k = UPDATES ->
  M.reach deque prog d0 hl ok s -> prog t = M.OWaiter (w_dwait k c rv cap) ->
  (M.thr s t = M.Parking \/ M.thr s t = M.Parked) ->
  get rv (dheap (M.dat s) c) = cap /\ dclosed (M.dat s) = false.
Proof.
  intros HP Hk R Hp Hs.
  pose proof (M.mon_parked_not_enabled deque prog d0 hl ok k s (deque_wait_bcast prog k HP Hk) R t _ Hp eq_refl Hs) as X.
  unfold M.w_wake in X. simpl in X. apply orb_false_iff in X. destruct X as (X & Y). split; [|exact Y].
  apply negb_false_iff in X. destruct cap as [a|], (get rv (dheap (M.dat s) c)) as [b|]; simpl in X; try discriminate; auto.
  apply Nat.eqb_eq in X. congruence.
Qed.

(* at quiescence no parked producer's context has ended - provided the watcher broadcasts under the deque's
   mutex (hl = true), or the schedule avoids the race between the ctx.Done() check and cond.Wait *)
Theorem deque_wait_no_lost_cancel prog hl ok s t k c rv cap :
  M.ctx_guard deque hl ok -> M.reach deque prog d0 hl ok s -> M.quiescent s ->
  prog t = M.OWaiter (w_dwait k c rv cap) -> M.thr s t = M.Parked -> M.ended s t = false.
Proof. intros G R Q Hp Hs. eapply M.mon_no_lost_cancel; eauto. Qed.
