(* Per-network facts: the static checks hold for every n (they are what [wf_net]/[static_under]
   compute on the network TERM), the initial states satisfy the generic invariant, and the C04
   theorems of each construct. *)
From FunV Require Import Base.Tac Base.ListX Model.Pipelines Proofs.Pipelines_conserve Proofs.Pipelines_quiesce.

Lemma forallb_map_seq {A} (f : A -> bool) (g : nat -> A) n :
  (forall j, j < n -> f (g j) = true) -> forallb f (map g (seq 0 n)) = true.
Proof.
  intros H. apply forallb_forall. intros x Hx. apply in_map_iff in Hx as (j & <- & Hj).
  apply in_seq in Hj. apply H. lia.
Qed.

Lemma forallb_app' {A} (f : A -> bool) a b : forallb f a = true -> forallb f b = true -> forallb f (a ++ b) = true.
Proof. intros. rewrite forallb_app. now rewrite H, H0. Qed.

Lemma forallb_repeat {A} (f : A -> bool) x n : f x = true -> forallb f (repeat x n) = true.
Proof. intros H. induction n; simpl; auto. now rewrite H. Qed.

Lemma len_spawns first n g base : length (spawns first n g base) = n.
Proof. unfold spawns. now rewrite map_length, seq_length. Qed.

Lemma len_cons_init n out : length (cons_init_prog n out) = n + 7.
Proof. unfold cons_init_prog. rewrite !app_length, len_spawns. simpl. lia. Qed.

Lemma len_runner n c b : length (runner_prog n c b) = n + (if b then 4 else 3).
Proof. unfold runner_prog. rewrite !app_length, len_spawns. destruct b; simpl; lia. Qed.

(* the per-instruction part of wf_desc *)
Definition wf_instr (once len : nat) (i : instr) : bool :=
  forallb (fun k => k <? len) (targets i) && once_target_ok once i.

Lemma wf_desc_intro once d :
  0 < length (d_prog d) ->
  forallb (wf_instr once (length (d_prog d))) (d_prog d) = true ->
  (d_wg d = false \/ forallb (fun i => negb (unguarded_wait i)) (d_prog d) = true) ->
  wf_desc once d = true.
Proof.
  intros H1 H2 H3. unfold wf_desc. apply Nat.ltb_lt in H1. rewrite H1. unfold wf_instr in H2. rewrite H2. simpl.
  destruct H3 as [->| ->]; [reflexivity|apply orb_true_r].
Qed.

Ltac ltb := apply Nat.ltb_lt; lia.
Ltac wfi := unfold wf_instr; cbn [forallb targets once_target_ok]; rewrite ?andb_true_r; repeat (apply andb_true_intro; split); try ltb; try reflexivity.

Lemma wf_spawns once len first n g base : base + n < len -> forallb (wf_instr once len) (spawns first n g base) = true.
Proof.
  intros H. unfold spawns. apply forallb_map_seq. intros j Hj. wfi.
Qed.


Lemma wf_cons_init once n out : wf_desc once (usr (cons_init_prog n out)) = true.
Proof.
  apply wf_desc_intro; cbn [d_prog d_wg usr]; [rewrite len_cons_init; lia| |left; reflexivity].
  rewrite len_cons_init. unfold cons_init_prog. apply forallb_app'; [|apply forallb_app'].
  - cbn [forallb]. wfi.
  - apply wf_spawns. lia.
  - cbn [forallb]. wfi.
Qed.

Lemma wf_runner once n c b u : wf_desc once (mkPdesc (runner_prog n c b) false u) = true.
Proof.
  apply wf_desc_intro; cbn [d_prog d_wg]; [rewrite len_runner; destruct b; lia| |left; reflexivity].
  rewrite len_runner. unfold runner_prog. apply forallb_app'; [|apply forallb_app'].
  - apply wf_spawns. destruct b; lia.
  - cbn [forallb]. destruct b; wfi.
  - destruct b; cbn [forallb]; wfi.
Qed.

Lemma wf_net_intro N :
  forallb (wf_desc (n_once N)) (n_procs N) = true ->
  match nth_error (n_procs N) (n_once N) with Some d => negb (d_user d) | None => true end = true ->
  wf_net N = true.
Proof. intros H1 H2. unfold wf_net. now rewrite H1, H2. Qed.

Lemma wf_map_net n : wf_net (map_net n) = true.
Proof.
  apply wf_net_intro; [|reflexivity]. cbn [map_net n_procs n_once]. apply forallb_app'.
  - cbn [forallb]. rewrite wf_cons_init. reflexivity.
  - apply forallb_map_seq. intros j _. reflexivity.
Qed.

Lemma wf_pp_net n : wf_net (pp_net n) = true.
Proof.
  apply wf_net_intro; [|reflexivity]. cbn [pp_net n_procs n_once]. apply forallb_app'.
  - cbn [forallb]. unfold usr. rewrite wf_runner. reflexivity.
  - apply forallb_map_seq. intros j _. reflexivity.
Qed.

Lemma wf_pbuf_net n : wf_net (pbuf_net n) = true.
Proof.
  apply wf_net_intro; [|reflexivity]. cbn [pbuf_net n_procs n_once]. apply forallb_app'.
  - cbn [forallb]. unfold bg at 2. rewrite wf_runner. reflexivity.
  - apply forallb_map_seq. intros j _. reflexivity.
Qed.

Lemma wf_buffer_net : wf_net buffer_net = true. Proof. reflexivity. Qed.
Lemma wf_pump_net : wf_net pump_net = true. Proof. reflexivity. Qed.
Lemma wf_chan_net : wf_net chan_net = true. Proof. reflexivity. Qed.

Lemma wf_fanin_net n f : wf_net (fanin_net n f) = true.
Proof.
  apply wf_net_intro; [|reflexivity]. cbn [fanin_net n_procs n_once]. apply forallb_app'.
  - cbn [forallb]. rewrite wf_cons_init. reflexivity.
  - apply forallb_map_seq. intros j _. reflexivity.
Qed.

Lemma wf_gen_net n e : wf_net (gen_net n e) = true.
Proof.
  apply wf_net_intro; [|reflexivity]. cbn [gen_net n_procs n_once]. apply forallb_app'.
  - cbn [forallb]. rewrite wf_cons_init. reflexivity.
  - apply forallb_map_seq. intros j _. destruct e; reflexivity.
Qed.

Lemma wf_range_net : wf_net range_net = true. Proof. reflexivity. Qed.

Lemma wf_split_net n : wf_net (split_net n) = true.
Proof.
  apply wf_net_intro; [|reflexivity]. cbn [split_net n_procs n_once]. apply forallb_app'; [reflexivity|].
  apply forallb_map_seq. intros j _. reflexivity.
Qed.

Lemma wf_readone_net m : wf_net (readone_net m) = true.
Proof.
  apply wf_net_intro; [|reflexivity]. cbn [readone_net n_procs n_once]. apply forallb_app'; [reflexivity|].
  apply forallb_repeat. reflexivity.
Qed.

(* ---- static_under ---- *)
Lemma static_under_top N r : (forall c, n_desc N r c = true) -> static_under N r = true.
Proof.
  intros H. unfold static_under. apply forallb_forall. intros d _. apply forallb_forall. intros i _.
  apply forallb_forall. intros [|c] _; cbn; auto.
Qed.

Lemma std_desc_0 c : std_desc 0 c = true.
Proof. unfold std_desc. cbn. now rewrite orb_true_r. Qed.
Lemma flat_desc_0 c : flat_desc 0 c = true.
Proof. unfold flat_desc. cbn. now rewrite orb_true_r. Qed.

Definition under_instr (N : net) (r : cid) (i : instr) : bool := forallb (gd_under N r) (instr_ctxs i).

Lemma under_spawns N r first n c base : n_desc N r c = true -> forallb (under_instr N r) (spawns first n (GId c) base) = true.
Proof. intros H. unfold spawns. apply forallb_map_seq. intros j _. cbn. now rewrite H. Qed.

Lemma under_cons_init N n out : n_desc N = std_desc -> forallb (under_instr N 1) (cons_init_prog n out) = true.
Proof.
  intros E. unfold cons_init_prog. apply forallb_app'; [reflexivity|]. apply forallb_app'; [|reflexivity].
  apply under_spawns. now rewrite E.
Qed.

Lemma under_runner N n b : n_desc N = std_desc -> forallb (under_instr N 1) (runner_prog n 2 b) = true.
Proof.
  intros E. unfold runner_prog. apply forallb_app'; [apply under_spawns; now rewrite E|].
  apply forallb_app'; [reflexivity|destruct b; reflexivity].
Qed.

Lemma su1_map_net n : static_under (map_net n) 1 = true.
Proof.
  unfold static_under. cbn [map_net n_procs]. apply forallb_app'.
  - cbn [forallb usr bg d_prog]. change (forallb (under_instr (map_net n) 1) (cons_init_prog n 1) && true = true).
    rewrite under_cons_init; reflexivity.
  - apply forallb_map_seq. intros j _. reflexivity.
Qed.

Lemma su1_pbuf_net n : static_under (pbuf_net n) 1 = true.
Proof.
  unfold static_under. cbn [pbuf_net n_procs]. apply forallb_app'.
  - cbn [forallb usr bg d_prog]. change (true && (true && (forallb (under_instr (pbuf_net n) 1) (runner_prog (max 1 n) 2 true) && true)) = true).
    rewrite under_runner; reflexivity.
  - apply forallb_map_seq. intros j _. reflexivity.
Qed.

Lemma su1_fanin_net n f : static_under (fanin_net n f) 1 = true.
Proof.
  unfold static_under. cbn [fanin_net n_procs]. apply forallb_app'.
  - cbn [forallb usr bg d_prog]. change (forallb (under_instr (fanin_net n f) 1) (cons_init_prog n 0) && true = true).
    rewrite under_cons_init; reflexivity.
  - apply forallb_map_seq. intros j _. reflexivity.
Qed.

Lemma su1_gen_net n e : static_under (gen_net n e) 1 = true.
Proof.
  unfold static_under. cbn [gen_net n_procs]. apply forallb_app'.
  - cbn [forallb usr bg d_prog]. change (forallb (under_instr (gen_net n e) 1) (cons_init_prog n 0) && true = true).
    rewrite under_cons_init; reflexivity.
  - apply forallb_map_seq. intros j _. destruct e; reflexivity.
Qed.

Lemma su1_buffer_net : static_under buffer_net 1 = true. Proof. reflexivity. Qed.
Lemma su1_pump_net : static_under pump_net 1 = true. Proof. reflexivity. Qed.

(* ---- initial states ---- *)
Definition init_ok (pr : proc) (d : pdesc) : Prop :=
  p_st pr = PNotStarted \/ (p_st pr = PRun /\ p_pc pr = 0 /\ d_wg d = false /\ 0 < length (d_prog d)).

Lemma wgc_init ps ds : Forall2 init_ok ps ds -> wgc ps ds = 0.
Proof.
  induction 1 as [|pr d ps ds H _ IH]; simpl; auto. rewrite IH.
  destruct H as [H|(H & _ & Hw & _)]; unfold runb; rewrite H; [now rewrite andb_false_r|now rewrite Hw].
Qed.

Lemma Forall2_nth {A B} (R : A -> B -> Prop) l1 l2 p a b :
  Forall2 R l1 l2 -> nth_error l1 p = Some a -> nth_error l2 p = Some b -> R a b.
Proof.
  intros H; revert p; induction H; intros [|p] H1 H2; simpl in *; try discriminate.
  - inv H1. inv H2. auto.
  - eauto.
Qed.

Lemma ginv_init N ps caps srcs : Forall2 init_ok ps (n_procs N) -> ginv N (mk_init ps caps srcs).
Proof.
  intros H. split; unfold mk_init; prj.
  - now rewrite wgc_init.
  - lia.
  - intros p pr d Hp Hd Hr. destruct (Forall2_nth _ _ _ _ _ _ H Hp Hd) as [E|(_ & E & _ & L)]; [congruence|lia].
  - intros p pr d Hp Hd Hr. destruct (Forall2_nth _ _ _ _ _ _ H Hp Hd) as [E|(E & _)]; congruence.
  - clear -H. induction H; simpl; auto.
Qed.

Lemma Forall2_idles {B} (R : proc -> B -> Prop) n (g : nat -> B) :
  (forall b, R idle b) -> Forall2 R (idles n) (map g (seq 0 n)).
Proof.
  intros H. unfold idles. generalize 0. induction n; intros k; simpl; constructor; auto.
Qed.

Lemma Forall2_map_seq {A B} (R : A -> B -> Prop) (f : nat -> A) (g : nat -> B) n :
  (forall j, R (f j) (g j)) -> Forall2 R (map f (seq 0 n)) (map g (seq 0 n)).
Proof. intros H. generalize 0. induction n; intros k; simpl; constructor; auto. Qed.

Lemma init_ok_idle d : init_ok idle d. Proof. left. reflexivity. Qed.
Lemma init_ok_running c prog : 0 < length prog -> init_ok (running c) (usr prog).
Proof. intros H. right. cbn. auto. Qed.

Ltac iok := first [apply init_ok_idle | apply init_ok_running; rewrite ?len_cons_init, ?len_runner; cbn; lia | right; cbn; repeat split; lia].

Lemma ginv_map_init n l : ginv (map_net n) (map_init n l).
Proof. apply ginv_init. cbn [map_net n_procs]. repeat (constructor; [iok|]). apply Forall2_idles. intros; iok. Qed.
Lemma ginv_pp_init n l : ginv (pp_net n) (pp_init n l).
Proof. apply ginv_init. cbn [pp_net n_procs]. repeat (constructor; [iok|]). apply Forall2_idles. intros; iok. Qed.
Lemma ginv_pbuf_init n l : ginv (pbuf_net n) (pbuf_init n l).
Proof. apply ginv_init. cbn [pbuf_net n_procs]. repeat (constructor; [iok|]). apply Forall2_idles. intros; iok. Qed.
Lemma ginv_buffer_init c l : ginv buffer_net (buffer_init c l).
Proof. apply ginv_init. cbn. repeat (constructor; [iok|]). constructor. Qed.
Lemma ginv_pump_init l : ginv pump_net (pump_init l).
Proof. apply ginv_init. cbn. repeat (constructor; [iok|]). constructor. Qed.
Lemma ginv_chan_init c l : ginv chan_net (chan_init c l).
Proof. apply ginv_init. cbn. repeat (constructor; [iok|]). constructor. Qed.
Lemma ginv_fanin_init n f c l : ginv (fanin_net n f) (fanin_init n c l).
Proof. apply ginv_init. cbn [fanin_net n_procs]. repeat (constructor; [iok|]). apply Forall2_idles. intros; iok. Qed.
Lemma ginv_gen_init n e l : ginv (gen_net n e) (gen_init n l).
Proof. apply ginv_init. cbn [gen_net n_procs]. repeat (constructor; [iok|]). apply Forall2_idles. intros; iok. Qed.
Lemma ginv_range_init c l : ginv range_net (range_init c l).
Proof. apply ginv_init. cbn. repeat (constructor; [iok|]). constructor. Qed.
Lemma ginv_split_init n l : ginv (split_net n) (split_init n l).
Proof. apply ginv_init. cbn [split_net n_procs]. repeat (constructor; [iok|]). apply Forall2_map_seq. intros; iok. Qed.

(* ---- contexts of the initial goroutines ---- *)
Lemma ctx_under_top N r s : (forall c, n_desc N r c = true) -> ctx_under N r s.
Proof. intros H p pr _ _. apply H. Qed.

Lemma ctx_under_init N r ps caps srcs :
  Forall (fun pr => p_st pr = PNotStarted \/ n_desc N r (p_ctx pr) = true) ps -> ctx_under N r (mk_init ps caps srcs).
Proof.
  intros H p pr Hp Hs. unfold mk_init in Hp; prj. rewrite Forall_forall in H.
  destruct (H pr (nth_error_In _ _ Hp)); [contradiction|assumption].
Qed.

Lemma Forall_idles (P : proc -> Prop) n : P idle -> Forall P (idles n).
Proof. intros H. unfold idles. induction n; simpl; constructor; auto. Qed.

Ltac cu1 := apply ctx_under_init; repeat (constructor; [first [left; reflexivity|right; reflexivity]|]);
            first [constructor | apply Forall_idles; left; reflexivity].

(* ================================================================ the constructs, as one family *)
Inductive construct :=
| KMap (n : nat) | KProcessParallel (n : nat) | KParallelBuffer (n : nat) | KBuffer (cap : nat)
| KPump                      (* Chain, MergeSlices, MergeSliceIterators, dt.Map, adt.Map *)
| KBufferedChannel (cap : nat) | KMerge (n : nat) | KGenerate (n : nat) (e : gend) | KSplit (n : nat).

Definition net_of (K : construct) : net :=
  match K with
  | KMap n => map_net n | KProcessParallel n => pp_net n | KParallelBuffer n => pbuf_net n | KBuffer _ => buffer_net
  | KPump => pump_net | KBufferedChannel _ => chan_net | KMerge n => fanin_net n (fun j => j)
  | KGenerate n e => gen_net n e | KSplit n => split_net n
  end.

(* srcs: one input list, except for MergeIterators (one per source) *)
Definition init_of (K : construct) (srcs : list (list Z)) : state :=
  match K with
  | KMap n => map_init n (concat srcs) | KProcessParallel n => pp_init n (concat srcs)
  | KParallelBuffer n => pbuf_init n (concat srcs) | KBuffer c => buffer_init c (concat srcs)
  | KPump => pump_init (concat srcs) | KBufferedChannel c => chan_init c (concat srcs)
  | KMerge n => fanin_init n 0 srcs | KGenerate n _ => gen_init n (concat srcs)
  | KSplit n => split_init n (concat srcs)
  end.

(* the context that Close() of the construct's single output cancels (None: nothing to Close) *)
Definition close_root (K : construct) : option cid :=
  match K with
  | KProcessParallel _ | KBufferedChannel _ | KSplit _ => None
  | _ => Some 1
  end.

Lemma wf_net_of K : wf_net (net_of K) = true.
Proof.
  destruct K; cbn [net_of]; auto using wf_map_net, wf_pp_net, wf_pbuf_net, wf_buffer_net, wf_pump_net, wf_chan_net,
    wf_fanin_net, wf_gen_net, wf_split_net.
Qed.

Lemma ginv_init_of K srcs : ginv (net_of K) (init_of K srcs).
Proof.
  destruct K; cbn [net_of init_of]; auto using ginv_map_init, ginv_pp_init, ginv_pbuf_init, ginv_buffer_init, ginv_pump_init,
    ginv_chan_init, ginv_fanin_init, ginv_gen_init, ginv_split_init.
Qed.

Lemma desc0_net_of K c : n_desc (net_of K) 0 c = true.
Proof. destruct K; cbn; auto using std_desc_0, flat_desc_0. Qed.

Lemma su1_net_of K : close_root K = Some 1 -> static_under (net_of K) 1 = true.
Proof.
  destruct K; cbn [close_root net_of]; intros H; try discriminate;
    auto using su1_map_net, su1_pbuf_net, su1_buffer_net, su1_pump_net, su1_fanin_net, su1_gen_net.
Qed.

Lemma cu1_init_of K srcs : close_root K = Some 1 -> ctx_under (net_of K) 1 (init_of K srcs).
Proof.
  destruct K; cbn [close_root net_of init_of]; intros H; try discriminate;
    unfold map_init, pbuf_init, buffer_init, pump_init, gen_init, fanin_init; cu1.
Qed.

Definition all_done (s : state) : Prop :=
  (forall p pr, nth_error (s_procs s) p = Some pr -> p_st pr <> PRun) /\ s_oncew s = 0.

(* the stop action happened: the user's context was cancelled, or the output was closed
   (Close-then-cancel is both) *)
Definition stop_happened (K : construct) (s : state) : Prop :=
  In 0 (s_canc s) \/ (exists r, close_root K = Some r /\ In r (s_canc s)).

(* C04_quiescent_all_done: every construct, every input, every worker count / buffer size, every
   cut point and interleaving (any reachable state), stop = cancel | Close | Close-then-cancel:
   at quiescence no goroutine of the network - background or consumer - is still running and no
   goroutine is parked in once.Do. (abandoned user goroutines are not running by definition.) *)
Theorem quiescent_all_done_constructs K srcs s :
  reach (net_of K) (init_of K srcs) s -> stop_happened K s -> quiescent (net_of K) s -> all_done s.
Proof.
  intros R [H0|(r & Hr & Hc)] Q.
  - eapply (stop_quiescent_all_done (net_of K) 0); eauto using wf_net_of, ginv_init_of.
    + apply static_under_top. apply desc0_net_of.
    + apply ctx_under_top. apply desc0_net_of.
  - assert (r = 1) as -> by (destruct K; cbn in Hr; congruence).
    eapply (stop_quiescent_all_done (net_of K) 1); eauto using wf_net_of, ginv_init_of, su1_net_of, cu1_init_of.
Qed.

(* ================================================================ Split *)
Lemma ctx_stable_step N s l s' p pr :
  step N s l = Some s' -> nth_error (s_procs s) p = Some pr -> p_st pr <> PNotStarted ->
  exists pr', nth_error (s_procs s') p = Some pr' /\ p_ctx pr' = p_ctx pr /\ p_st pr' <> PNotStarted.
Proof.
  intros H Hp Hs.
  assert (KEEP : forall ps q qr qr', nth_error ps p = Some pr -> nth_error ps q = Some qr -> p_ctx qr' = p_ctx qr -> p_st qr' <> PNotStarted ->
                 exists pr', nth_error (upd ps q qr') p = Some pr' /\ p_ctx pr' = p_ctx pr /\ p_st pr' <> PNotStarted).
  { intros ps q qr qr' H1 H2 Hc Hst. destruct (Nat.eq_dec q p) as [->|Hn].
    - exists qr'. rewrite H1 in H2. inv H2. split; [eapply nth_error_upd_same; eauto|auto].
    - exists pr. rewrite nth_error_upd_other; auto. }
  destruct l; cbn [step] in H.
  - destruct (cur_instr N s p0) as [[[qr d] i]|] eqn:Ec; [|discriminate].
    apply cur_instr_inv in Ec as (Hq & Hd & Hr & Hi).
    pose proof (exec_shape _ _ _ _ _ _ _ _ Hq Hr H) as Hsh.
    destruct Hsh as [pr' E1 _ _ (M & _ & Mc) | pr' _ M Mc E1 _ _ | q qp c pr' Hn Hqq Hqs _ _ E1 _ _ (M & _ & Mc) | q g k qp pr' _ _ _ E1 _ _ (M & _ & Mc)];
      rewrite E1; try (eapply KEEP; eauto; congruence).
    assert (p <> q) by (intros ->; rewrite Hp in Hqq; inv Hqq; contradiction).
    eapply KEEP; eauto; try congruence; rewrite nth_error_upd_other; auto.
  - destruct (p0 =? q) eqn:Epq; [discriminate|]. apply Nat.eqb_neq in Epq.
    destruct (cur_instr N s p0) as [[[qr d] i]|] eqn:Ec; [|discriminate]. destruct i; try discriminate.
    destruct (cur_instr N s q) as [[[qr2 dq] iq]|] eqn:Eq; [|discriminate]. destruct iq; try discriminate.
    apply cur_instr_inv in Ec as (Hq & _ & Hr & _). apply cur_instr_inv in Eq as (Hq2 & _ & Hr2 & _).
    destruct (p_hand qr) as [v|]; [|discriminate]. destruct (nth_error (s_chans s) ch) as [c|]; [|discriminate].
    destruct ((ch =? ch0) && (c_cap c =? 0) && negb (c_closed c)); inv H.
    unfold setp, set_procs, dropped, set_drop; prj.
    destruct (KEEP (s_procs s) p0 qr (goto_h qr k_ok None) Hp Hq eq_refl) as (p1 & Hp1 & Hc1 & Hs1); [discriminate|].
    destruct (Nat.eq_dec q p) as [->|Hn].
    + exists (goto_h qr2 k_item (Some v)). split; [eapply nth_error_upd_same; eauto|].
      rewrite Hp in Hq2. inv Hq2. split; [reflexivity|discriminate].
    + exists p1. rewrite nth_error_upd_other; auto.
  - destruct ((0 <? s_oncew s) && is_done s (n_once N)); inv H. eauto.
  - inv H. eauto.
  - inv H. eauto.
  - destruct (nth_error (s_procs s) p0) as [qr|] eqn:Hq; [|discriminate].
    destruct (nth_error (n_procs N) p0) as [d|]; [|discriminate].
    destruct (d_user d && negb (d_wg d)); [|discriminate]. destruct (p_st qr) eqn:Est; inv H.
    unfold set_stopped, setp, set_procs; prj. eapply KEEP; eauto. discriminate.
Qed.

Lemma nth3 {A} (a b c : A) l j : nth_error ([a; b; c] ++ l) (3 + j) = nth_error l j.
Proof. reflexivity. Qed.

Lemma split_consumer_ctx n l s j pr :
  reach (split_net n) (split_init n l) s -> j < n -> nth_error (s_procs s) (3 + j) = Some pr ->
  p_ctx pr = 3 + j /\ p_st pr <> PNotStarted.
Proof.
  intros R Hj. revert pr. induction R as [|s l0 s' R IH H]; intros pr Hp.
  - assert (E : nth_error (s_procs (split_init n l)) (3 + j) = nth_error (map (fun j => running (3 + j)) (seq 0 n)) j) by reflexivity.
    rewrite E in Hp. clear E.
    rewrite nth_error_map in Hp. rewrite (nth_error_nth' _ 0) in Hp by (rewrite seq_length; lia).
    rewrite seq_nth in Hp by lia. cbn in Hp. inv Hp. cbn. split; [reflexivity|discriminate].
  - destruct (nth_error (s_procs s) (3 + j)) as [p0|] eqn:E0.
    + destruct (IH p0 eq_refl) as (Hc & Hs).
      destruct (ctx_stable_step _ _ _ _ _ _ H E0 Hs) as (p1 & Hp1 & Hc1 & Hs1).
      rewrite Hp1 in Hp. inv Hp. split; congruence.
    + exfalso. apply nth_error_None in E0.
      assert (length (s_procs s') = length (s_procs s)).
      { pose proof (gi_len _ _ (ginv_reach _ _ _ (wf_split_net n) (ginv_split_init n l) R)).
        pose proof (gi_len _ _ (ginv_reach _ _ _ (wf_split_net n) (ginv_split_init n l) (reach_step _ _ _ _ _ R H))). lia. }
      assert (3 + j < length (s_procs s')) by (apply nth_error_Some; congruence). lia.
Qed.

Definition own_only (d : pdesc) : bool := forallb (fun i => forallb (fun g => match g with GOwn => true | _ => false end) (instr_guards i)) (d_prog d).

Lemma split_guards_own n : forallb own_only (n_procs (split_net n)) = true.
Proof.
  cbn [split_net n_procs]. apply forallb_app'; [reflexivity|]. apply forallb_map_seq. intros j _. reflexivity.
Qed.

(* C04_split: Split(n), any n / input / interleaving. If every output that is still being read has been
   closed (or the user's context is cancelled), and the output that STARTED the splitting goroutine
   is among the closed ones (or the user's context is cancelled), then at quiescence nothing runs. *)
Theorem split_quiescent n l s :
  reach (split_net n) (split_init n l) s -> quiescent (split_net n) s ->
  (forall j pr, j < n -> nth_error (s_procs s) (3 + j) = Some pr -> p_st pr = PRun -> In (3 + j) (s_canc s) \/ In 0 (s_canc s)) ->
  (forall pr, nth_error (s_procs s) 1 = Some pr -> p_st pr = PRun -> In (p_ctx pr) (s_canc s) \/ In 0 (s_canc s)) ->
  all_done s.
Proof.
  intros R Q Hcons Hstart.
  apply (quiescent_all_done (split_net n) s); auto using wf_split_net.
  { eapply ginv_reach; eauto using wf_split_net, ginv_split_init. }
  intros p pr d i g Hc Hg. pose proof Hc as Hc0. apply cur_instr_inv in Hc as (Hp & Hd & Hr & Hi).
  pose proof (split_guards_own n) as Ho. rewrite forallb_forall in Ho. specialize (Ho d (nth_error_In _ _ Hd)).
  unfold own_only in Ho. rewrite forallb_forall in Ho. specialize (Ho i (nth_error_In _ _ Hi)).
  rewrite forallb_forall in Ho. specialize (Ho g Hg). destruct g; [|discriminate]. cbn [resolve].
  assert (C : forall c, In c (s_canc s) \/ In 0 (s_canc s) -> cancelledb (split_net n) s c = true).
  { intros c [H|H]; unfold cancelledb; apply existsb_exists; eexists; (split; [exact H|]); cbn; unfold flat_desc;
      [now rewrite Nat.eqb_refl|cbn; apply orb_true_r]. }
  destruct p as [|[|[|j]]].
  - cbn in Hd. inv Hd. destruct (p_pc pr) as [|[|]]; cbn in Hi; inv Hi; destruct Hg.
  - apply C. eapply Hstart; eauto.
  - cbn in Hd. inv Hd. destruct (p_pc pr) as [|[|]]; cbn in Hi; inv Hi; destruct Hg.
  - assert (Hj : j < n).
    { cbn [split_net n_procs] in Hd. change (S (S (S j))) with (3 + j) in Hd.
      rewrite nth_error_app2 in Hd by (cbn; lia). cbn [length] in Hd. replace (3 + j - 3) with j in Hd by lia.
      assert (j < length (map (fun j0 => usr (splitc_prog j0)) (seq 0 n))) by (apply nth_error_Some; congruence).
      now rewrite map_length, seq_length in H. }
    change (S (S (S j))) with (3 + j) in *.
    destruct (split_consumer_ctx n l s j pr R Hj Hp) as (-> & _). apply C. eapply Hcons; eauto.
Qed.

(* ... and it is false without the hypothesis on the starter: Split(2) over [1;2]; output 0 (goroutine 3)
   takes the first item - its advance starts the splitter under ITS context - and is abandoned;
   output 1 is closed; the user's context is live. The run is quiescent with the splitter still
   blocked in ChanSend.Write holding item 2 (finding #22, C04:Split:starter-abandoned). *)
Definition split_cex_labels : list label :=
  [LStep 3 false; LStep 3 false; LStep 1 false; LRdv 1 3; LStep 3 false; LAbandon 3; LClose 4;
   LStep 4 false; LStep 4 false; LStep 1 false].

Lemma reach_run_labels N ls s0 s : run_labels N ls s0 = Some s -> reach N s0 s.
Proof.
  intros H. assert (G : forall s1, reach N s0 s1 -> run_labels N ls s1 = Some s -> reach N s0 s).
  { clear H. induction ls as [|l ls IH]; intros s1 R H; simpl in H.
    - inv H. exact R.
    - destruct (step N s1 l) eqn:E; [|discriminate]. eapply IH; [eapply reach_step; eauto|exact H]. }
  eapply G; [apply reach_init|exact H].
Qed.

Definition split_cex_state : state :=
  Eval vm_compute in match run_labels (split_net 2) split_cex_labels (split_init 2 [1; 2]%Z) with
                     | Some s => s | None => split_init 2 [] end.

Lemma split_cex_eq : run_labels (split_net 2) split_cex_labels (split_init 2 [1; 2]%Z) = Some split_cex_state.
Proof. vm_compute. reflexivity. Qed.

Lemma split_cex_quiescent : quiescentb (split_net 2) split_cex_state = true.
Proof. vm_compute. reflexivity. Qed.

Theorem split_starter_abandoned_refuted :
  exists s, reach (split_net 2) (split_init 2 [1; 2]%Z) s /\ quiescent (split_net 2) s /\
            (forall j pr, j < 2 -> nth_error (s_procs s) (3 + j) = Some pr -> p_st pr <> PRun) /\   (* nobody reads any more *)
            In 4 (s_canc s) /\ ~ In 0 (s_canc s) /\                                               (* output 1 closed, user ctx live *)
            ~ all_done s.
Proof.
  exists split_cex_state.
  split; [exact (reach_run_labels _ _ _ _ split_cex_eq)|].
  split; [apply quiescentb_sound; exact split_cex_quiescent|].
  split; [intros [|[|j]] pr Hj Hp; [| |lia]; unfold split_cex_state in Hp; cbn in Hp; inv Hp; discriminate|].
  split; [unfold split_cex_state; cbn; auto|]. split; [unfold split_cex_state; cbn; intuition discriminate|].
  intros [H _]. apply (H 1 _ eq_refl). reflexivity.
Qed.

(* C04_close_idempotent: Close never blocks (it is enabled in every state), and a second Close
   changes nothing that any goroutine can observe *)
Theorem close_idempotent N s c :
  exists s1 s2, step N s (LClose c) = Some s1 /\ step N s1 (LClose c) = Some s2 /\
    s_procs s2 = s_procs s1 /\ s_chans s2 = s_chans s1 /\ s_srcs s2 = s_srcs s1 /\ s_wg s2 = s_wg s1 /\
    s_oncew s2 = s_oncew s1 /\ s_deliv s2 = s_deliv s1 /\ s_drop s2 = s_drop s1 /\
    (forall x, cancelledb N s2 x = cancelledb N s1 x).
Proof.
  eexists _, _. split; [reflexivity|]. split; [reflexivity|]. repeat (split; [reflexivity|]).
  intros x. unfold cancelledb, set_stopped, set_canc; prj. cbn [existsb]. destruct (n_desc N c x); reflexivity.
Qed.

(* ================================================================ C01: conservation for the construct family *)
Lemma hands_running_idles c n : hands ([running c; idle; idle] ++ idles n) = [].
Proof. apply hands_none. intros pr [<-|[<-|[<-|H]]]; auto. unfold idles in H. apply repeat_spec in H. now subst. Qed.

Lemma tokens_init_of K srcs : tokens (init_of K srcs) = concat srcs.
Proof.
  destruct K; cbn [init_of]; unfold map_init, pp_init, pbuf_init, buffer_init, pump_init, chan_init, gen_init, fanin_init, split_init;
    rewrite tokens_mk_init; try (cbn [concat]; now rewrite app_nil_r); try reflexivity;
    try apply hands_running_idles.
  apply hands_none. intros pr [<-|[<-|[<-|H]]]; auto. apply in_map_iff in H as (j & <- & _). reflexivity.
Qed.

Theorem conservation_constructs K srcs s :
  reach (net_of K) (init_of K srcs) s ->
  Permutation (concat (s_srcs s) ++ hands (s_procs s) ++ bufs (s_chans s) ++ s_deliv s ++ s_drop s) (concat srcs).
Proof. intros R. rewrite <- (tokens_init_of K srcs). exact (reach_conserves _ _ _ R). Qed.

(* non-vacuity: the networks really run (vm_compute on the executable model) *)
Example map_net_runs :
  let s := run (map_net 3) 1000 0 false None (map_init 3 [1; 2; 3; 4; 5]%Z) in
  leaks (map_net 3) s = 0 /\ stuck_users (map_net 3) s = 0 /\ length (s_deliv s) = 5 /\ s_drop s = [].
Proof. vm_compute. repeat split; auto. Qed.

Example map_net_close_quiesces :
  let s := scenario (map_net 3) (map_init 3 [1; 2; 3; 4; 5]%Z) 1000 0 false (Some 2) [LClose 1] in
  quiescentb (map_net 3) s = true /\ leaks (map_net 3) s = 0 /\ In 1 (s_canc s).
Proof. vm_compute. repeat split; auto. Qed.
