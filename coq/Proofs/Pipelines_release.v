(* C04: the pump closes its pipe on EVERY exit path (Worker.PostHook(pipe.Close) runs whether the
   worker returned nil or an error), so receivers whose own contexts are still live are released when
   the pump is stopped by cancellation:
   - Split: the consumers of the outputs that did NOT start the splitter;
   - BufferedChannel / Channel: a receiver that ranges over the channel. *)
From FunV Require Import Base.Tac Base.ListX Model.Pipelines
  Proofs.Pipelines_conserve Proofs.Pipelines_quiesce Proofs.Pipelines_nets Proofs.Pipelines_complete Proofs.Pipelines_closer.

Lemma cur_instr_mk N s p pr d i :
  nth_error (s_procs s) p = Some pr -> nth_error (n_procs N) p = Some d -> p_st pr = PRun ->
  nth_error (d_prog d) (p_pc pr) = Some i -> cur_instr N s p = Some (pr, d, i).
Proof. intros H1 H2 H3 H4. unfold cur_instr. now rewrite H1, H2, H3, H4. Qed.

(* ---- a closed channel stays closed; channels are never removed ---- *)
Lemma closed_mono N s l s' ch : step N s l = Some s' -> closedb s ch = true -> closedb s' ch = true.
Proof.
  intros H H0. destruct l; cbn [step] in H.
  - destruct (cur_instr N s p) as [[[pr d] i]|] eqn:Ec; [|discriminate].
    destruct i; cbn [exec] in H; exec_cases H; inv H;
      unfold closedb, start in *; cbv zeta;
      unfold setp, set_procs, dropped, set_drop, set_canc, set_chans, set_srcs, set_deliv, set_oncew, set_wg;
      repeat match goal with |- context [if ?b then _ else _] => destruct b end;
      cbn [s_chans]; try exact H0;
      match goal with
      | |- context [nth_error (upd _ ?c _) ch] =>
          destruct (Nat.eq_dec c ch) as [->|Hne];
          [erewrite nth_error_upd_same by eauto; cbn [c_closed]|rewrite nth_error_upd_other by auto; exact H0]
      end; try reflexivity;
      match goal with E : nth_error (s_chans s) ch = Some _ |- _ => rewrite E in H0 end; congruence.
  - destruct (p =? q); [discriminate|].
    destruct (cur_instr N s p) as [[[qr d] i]|]; [|discriminate]. destruct i; try discriminate.
    destruct (cur_instr N s q) as [[[qr2 dq] iq]|]; [|discriminate]. destruct iq; try discriminate.
    exec_cases H. inv H. exact H0.
  - exec_cases H. inv H. exact H0.
  - inv H. exact H0.
  - inv H. exact H0.
  - exec_cases H; inv H. exact H0.
Qed.

Lemma chan_exists_step N s l s' ch : step N s l = Some s' -> nth_error (s_chans s) ch <> None -> nth_error (s_chans s') ch <> None.
Proof.
  intros H H0.
  assert (U : forall c x, nth_error (upd (s_chans s) c x) ch <> None).
  { intros c x E. apply nth_error_None in E. rewrite length_upd in E. apply H0. now apply nth_error_None. }
  destruct l; cbn [step] in H.
  - destruct (cur_instr N s p) as [[[pr d] i]|] eqn:Ec; [|discriminate].
    destruct i; cbn [exec] in H; exec_cases H; inv H;
      unfold start; cbv zeta;
      unfold setp, set_procs, dropped, set_drop, set_canc, set_chans, set_srcs, set_deliv, set_oncew, set_wg;
      repeat match goal with |- context [if ?b then _ else _] => destruct b end;
      cbn [s_chans]; first [exact H0 | apply U].
  - destruct (p =? q); [discriminate|].
    destruct (cur_instr N s p) as [[[qr d] i]|]; [|discriminate]. destruct i; try discriminate.
    destruct (cur_instr N s q) as [[[qr2 dq] iq]|]; [|discriminate]. destruct iq; try discriminate.
    exec_cases H. inv H. exact H0.
  - exec_cases H. inv H. exact H0.
  - inv H. exact H0.
  - inv H. exact H0.
  - exec_cases H; inv H. exact H0.
Qed.

(* a goroutine that has not been started is, after a step, still not started - or runs at pc 0 *)
Lemma notstarted_step N s l s' q qp :
  step N s l = Some s' -> nth_error (s_procs s) q = Some qp -> p_st qp = PNotStarted ->
  exists qp', nth_error (s_procs s') q = Some qp' /\ (qp' = qp \/ (p_st qp' = PRun /\ p_pc qp' = 0)).
Proof.
  intros H Hq Hs. destruct l; cbn [step] in H.
  - destruct (cur_instr N s p) as [[[pr d] i]|] eqn:Ec; [|discriminate].
    apply cur_instr_inv in Ec as (Hp & _ & Hr & _).
    assert (q <> p) by (intros ->; rewrite Hp in Hq; inv Hq; congruence).
    pose proof (exec_shape _ _ _ _ _ _ _ _ Hp Hr H) as Hsh.
    destruct Hsh as [pr' E1 _ _ _ | pr' _ _ _ E1 _ _ | q0 qp0 c pr' _ Hqq _ _ _ E1 _ _ _ | q0 g k qp0 pr' _ _ _ E1 _ _ _];
      rewrite E1; try (exists qp; rewrite nth_error_upd_other by auto; auto; fail).
    rewrite nth_error_upd_other by auto. destruct (Nat.eq_dec q0 q) as [->|Hn].
    + eexists. split; [eapply nth_error_upd_same; eauto|right; split; reflexivity].
    + exists qp. rewrite nth_error_upd_other by auto. auto.
  - destruct (p =? q0) eqn:Epq; [discriminate|].
    destruct (cur_instr N s p) as [[[pr d] i]|] eqn:Ec; [|discriminate]. destruct i; try discriminate.
    destruct (cur_instr N s q0) as [[[qr2 dq] iq]|] eqn:Eq; [|discriminate]. destruct iq; try discriminate.
    apply cur_instr_inv in Ec as (Hp & _ & Hr & _). apply cur_instr_inv in Eq as (Hq2 & _ & Hr2 & _).
    assert (p <> q) by (intros ->; rewrite Hp in Hq; inv Hq; congruence).
    assert (q0 <> q) by (intros ->; rewrite Hq2 in Hq; inv Hq; congruence).
    exec_cases H. inv H. exists qp. unfold setp, set_procs, dropped, set_drop; cbn [s_procs].
    rewrite !nth_error_upd_other by auto. auto.
  - exec_cases H. inv H. eauto.
  - inv H. eauto.
  - inv H. eauto.
  - exec_cases H; inv H. exists qp. unfold set_stopped, setp, set_procs; cbn [s_procs].
    rewrite nth_error_upd_other; auto. intros ->. congruence.
Qed.

(* what a goroutine other than the pump may wait on: the pipe (channel 0), nothing else *)
Definition only_recv0 (i : instr) : bool :=
  match i with
  | IRecv ch _ _ _ _ => ch =? 0
  | ISend _ _ _ _ _ | IWgWait _ _ => false
  | _ => true
  end.

Section Release.
Variable N : net.
Hypothesis Hpump : nth_error (n_procs N) 1 = Some (bg (pump_prog 0 0)).
Hypothesis Hwf : wf_net N = true.
Hypothesis Hwaits : forall p d i, nth_error (n_procs N) p = Some d -> p <> 1 -> In i (d_prog d) -> only_recv0 i = true.

(* the pump has passed its deferred close: the pipe is closed *)
Definition pinv (s : state) : Prop :=
  nth_error (s_chans s) 0 <> None /\
  forall pr, nth_error (s_procs s) 1 = Some pr -> p_st pr = PDone \/ (p_st pr = PRun /\ p_pc pr = 3) -> closedb s 0 = true.

Lemma pump_instr pc i : nth_error (pump_prog 0 0) pc = Some i ->
  (pc = 0 /\ i = ISrc 0 GOwn 1 2 2) \/ (pc = 1 /\ i = ISend 0 GOwn 0 2 2) \/ (pc = 2 /\ i = IClose 0 3) \/ (pc = 3 /\ i = IExit).
Proof. intros H. do 4 (destruct pc as [|pc]; [cbn in H; inv H; auto 6|]). destruct pc; discriminate. Qed.

Lemma pinv_step s l s' : ginv N s -> pinv s -> step N s l = Some s' -> pinv s'.
Proof.
  intros I [C P] H. split; [eapply chan_exists_step; eauto|]. intros pr' Hp' Hfin.
  destruct (nth_error (s_procs s) 1) as [pr|] eqn:Hp.
  2:{ exfalso. apply nth_error_None in Hp. rewrite (gi_len _ _ I) in Hp.
      assert (1 < length (n_procs N)) by (apply nth_error_Some; congruence). lia. }
  destruct (p_st pr) eqn:Est.
  - (* not started: after the step it is not started or at pc 0 *)
    destruct (notstarted_step _ _ _ _ _ _ H Hp Est) as (qp' & Hq' & [->|(E1 & E2)]); rewrite Hp' in Hq'; inv Hq'.
    + destruct Hfin as [E|(E & _)]; congruence.
    + destruct Hfin as [E|(_ & E)]; [congruence|lia].
  - (* running *)
    assert (Hns : p_st pr <> PNotStarted) by congruence.
    destruct l as [p arm|p q| | | |p]; try (rewrite (frame_step _ _ _ _ _ _ H Hp Hns) in Hp' by (cbn; tauto); inv Hp';
                                          eapply closed_mono; eauto; fail).
    + destruct (Nat.eq_dec p 1) as [->|Hn];
        [|rewrite (frame_step _ _ _ _ _ _ H Hp Hns) in Hp' by (cbn; congruence); inv Hp'; eapply closed_mono; eauto].
      pose proof H as H1. cbn [step] in H. destruct (cur_instr N s 1) as [[[pr0 d] i]|] eqn:Ec; [|discriminate].
      apply cur_instr_inv in Ec as (Hp0 & Hd & _ & Hi). rewrite Hp in Hp0. inv Hp0. rewrite Hpump in Hd. inv Hd.
      cbn [d_prog bg] in Hi. apply pump_instr in Hi as [(Epc & ->)|[(Epc & ->)|[(Epc & ->)|(Epc & ->)]]]; cbn [exec] in H.
      * exec_cases H; inv H; unfold setp, set_procs, dropped, set_drop, set_srcs in Hp'; cbn [s_procs] in Hp';
          rewrite (nth_error_upd_same _ _ _ _ Hp) in Hp'; inv Hp'; cbn in Hfin; destruct Hfin as [E|(_ & E)]; discriminate.
      * exec_cases H; inv H; unfold setp, set_procs, dropped, set_drop, set_chans in Hp'; cbn [s_procs] in Hp';
          rewrite (nth_error_upd_same _ _ _ _ Hp) in Hp'; inv Hp'; cbn in Hfin; destruct Hfin as [E|(_ & E)]; discriminate.
      * destruct arm; [discriminate|]. destruct (nth_error (s_chans s) 0) as [c|] eqn:Ech; [|contradiction].
        inv H. unfold closedb, setp, set_procs, set_chans; cbn [s_chans]. now rewrite (nth_error_upd_same _ _ _ _ Ech).
      * eapply closed_mono; eauto.
    + (* a rendezvous: the pump can only be the sender, and goes back to pc 0 *)
      destruct (Nat.eq_dec p 1) as [->|Hn1]; [|destruct (Nat.eq_dec q 1) as [->|Hn2]].
      * exfalso. cbn [step] in H. destruct (1 =? q) eqn:Eq1; [discriminate|]. apply Nat.eqb_neq in Eq1.
        destruct (cur_instr N s 1) as [[[pr0 d] i]|] eqn:Ec; [|discriminate]. destruct i; try discriminate.
        destruct (cur_instr N s q) as [[[qr2 dq] iq]|] eqn:Eq; [|discriminate]. destruct iq; try discriminate.
        apply cur_instr_inv in Ec as (Hp0 & Hd & _ & Hi). apply cur_instr_inv in Eq as (Hq2 & _ & _ & _).
        rewrite Hp in Hp0. inv Hp0. rewrite Hpump in Hd. inv Hd. cbn [d_prog bg] in Hi.
        apply pump_instr in Hi as [(Epc & Ei)|[(Epc & Ei)|[(Epc & Ei)|(Epc & Ei)]]]; inv Ei.
        exec_cases H. inv H. unfold setp, set_procs, dropped, set_drop in Hp'; cbn [s_procs] in Hp'.
        assert (q <> 1) by lia.
        rewrite nth_error_upd_other in Hp' by auto. rewrite (nth_error_upd_same _ _ _ _ Hp) in Hp'. inv Hp'.
        cbn in Hfin. destruct Hfin as [E|(_ & E)]; discriminate.
      * exfalso. cbn [step] in H. destruct (p =? 1); [discriminate|].
        destruct (cur_instr N s p) as [[[pr0 d] i]|] eqn:Ec; [|discriminate]. destruct i; try discriminate.
        destruct (cur_instr N s 1) as [[[qr2 dq] iq]|] eqn:Eq; [|discriminate]. destruct iq; try discriminate.
        apply cur_instr_inv in Eq as (_ & Hd & _ & Hi). rewrite Hpump in Hd. inv Hd. cbn [d_prog bg] in Hi.
        apply pump_instr in Hi as [(_ & Ei)|[(_ & Ei)|[(_ & Ei)|(_ & Ei)]]]; discriminate.
      * rewrite (frame_step _ _ _ _ _ _ H Hp Hns) in Hp' by (cbn; tauto). inv Hp'. eapply closed_mono; eauto.
    + (* the pump is not a user goroutine: it cannot be abandoned *)
      destruct (Nat.eq_dec p 1) as [->|Hn];
        [|rewrite (frame_step _ _ _ _ _ _ H Hp Hns) in Hp' by (cbn; congruence); inv Hp'; eapply closed_mono; eauto].
      exfalso. cbn [step] in H. rewrite Hp, Hpump in H. cbn in H. discriminate.
  - (* done: untouched *)
    rewrite (done_untouched _ _ _ _ _ _ H Hp Est) in Hp'. inv Hp'. eapply closed_mono; eauto.
  - (* abandoned: impossible for a background goroutine *)
    exfalso. pose proof (gi_ab _ _ I 1 pr _ Hp Hpump Est) as Hu. discriminate.
Qed.

Lemma pinv_reach s0 s : ginv N s0 -> pinv s0 -> reach N s0 s -> pinv s.
Proof.
  intros G I R. assert (ginv N s /\ pinv s) as [_ H]; [|exact H].
  induction R as [|s l s' R [G1 I1] H]; auto. split; [eapply ginv_step; eauto|eapply pinv_step; eauto].
Qed.

(* the release theorem: the pump was started and its context is cancelled; at quiescence nothing runs -
   whatever the contexts of the other goroutines *)
Theorem released s :
  ginv N s -> pinv s -> quiescent N s ->
  (exists pr, nth_error (s_procs s) 1 = Some pr /\ p_st pr <> PNotStarted /\ cancelledb N s (p_ctx pr) = true) ->
  all_done s.
Proof.
  intros I [C P] Q (pp & Hpp & Hst & Hcc).
  (* the pump is done *)
  assert (Dp : p_st pp = PDone).
  { destruct (p_st pp) eqn:Est; auto; [contradiction| |].
    - exfalso. pose proof (gi_pc _ _ I 1 pp _ Hpp Hpump Est) as Hpc.
      destruct (nth_error (d_prog (bg (pump_prog 0 0))) (p_pc pp)) as [i|] eqn:Ei; [|apply nth_error_None in Ei; lia].
      pose proof (cur_instr_mk N s 1 pp _ i Hpp Hpump Est Ei) as Hc.
      destruct (ctx_guarded_enabled N s 1 pp _ i Hc) as (arm & s' & Hs).
      + cbn [d_prog bg] in Ei. apply pump_instr in Ei as [(_ & ->)|[(_ & ->)|[(_ & ->)|(_ & ->)]]]; reflexivity.
      + intros g Hg. cbn [d_prog bg] in Ei. apply pump_instr in Ei as [(_ & ->)|[(_ & ->)|[(_ & ->)|(_ & ->)]]]; cbn in Hg; try contradiction.
        destruct Hg as [<-|[]]. exact Hcc.
      + rewrite (Q (LStep 1 arm) eq_refl) in Hs. discriminate.
    - exfalso. pose proof (gi_ab _ _ I 1 pp _ Hpp Hpump Est) as Hu. discriminate. }
  assert (Cl : closedb s 0 = true) by (apply (P pp Hpp); auto).
  assert (S3 : forall p pr, nth_error (s_procs s) p = Some pr -> p_st pr <> PRun).
  { intros p pr Hp Est. destruct (Nat.eq_dec p 1) as [->|Hn]; [rewrite Hpp in Hp; inv Hp; congruence|].
    destruct (nth_error (n_procs N) p) as [d|] eqn:Hd.
    - pose proof (gi_pc _ _ I p pr d Hp Hd Est) as Hpc.
      destruct (nth_error (d_prog d) (p_pc pr)) as [i|] eqn:Ei; [|apply nth_error_None in Ei; lia].
      pose proof (cur_instr_mk N s p pr d i Hp Hd Est Ei) as Hc.
      pose proof (Hwaits p d i Hd Hn (nth_error_In _ _ Ei)) as Ho.
      assert (En : exists arm s', step N s (LStep p arm) = Some s').
      { destruct i; try discriminate;
          try (apply (ctx_guarded_enabled N s p pr d _ Hc); [reflexivity|let g0 := fresh in let H0 := fresh in intros g0 H0; destruct H0]; fail).
        cbn in Ho. apply Nat.eqb_eq in Ho. subst ch. exists false. cbn [step]. rewrite Hc. cbn [exec].
        unfold closedb in Cl. destruct (nth_error (s_chans s) 0) as [c|]; [|discriminate].
        destruct (c_buf c); [rewrite Cl|]; eauto. }
      destruct En as (arm & s' & Hs). rewrite (Q (LStep p arm) eq_refl) in Hs. discriminate.
    - apply nth_error_None in Hd. rewrite <- (gi_len _ _ I) in Hd.
      assert (p < length (s_procs s)) by (apply nth_error_Some; congruence). lia. }
  split; [exact S3|].
  destruct (s_oncew s) as [|k] eqn:Eo; auto. exfalso.
  destruct (gi_once _ _ I) as (po & Hpo & Hns); [lia|].
  assert (Hd : is_done s (n_once N) = true).
  { unfold is_done. rewrite Hpo. destruct (p_st po) eqn:Est; auto.
    - exfalso. eapply S3; eauto.
    - pose proof Hwf as Hwf'. unfold wf_net in Hwf'. apply andb_prop in Hwf' as [_ Hu].
      destruct (nth_error (n_procs N) (n_once N)) as [d|] eqn:Ed.
      + rewrite (gi_ab _ _ I _ _ _ Hpo Ed Est) in Hu. discriminate.
      + apply nth_error_None in Ed. rewrite <- (gi_len _ _ I) in Ed.
        assert (n_once N < length (s_procs s)) by (apply nth_error_Some; congruence). lia. }
  pose proof (Q LOnceRel eq_refl) as Hs. cbn [step] in Hs. rewrite Eo, Hd in Hs. discriminate.
Qed.

End Release.

(* ================================================================ instances *)
Lemma pinv_mk_init ps caps srcs :
  0 < length caps -> (exists pr, nth_error ps 1 = Some pr /\ (p_st pr = PNotStarted \/ (p_st pr = PRun /\ p_pc pr = 0))) ->
  pinv (mk_init ps caps srcs).
Proof.
  intros Hc (pr & Hp & Hs). split.
  - unfold mk_init; cbn [s_chans]. rewrite nth_error_map. destruct caps; [cbn in Hc; lia|cbn; discriminate].
  - intros pr' Hp'. unfold mk_init in Hp'; cbn [s_procs] in Hp'. rewrite Hp in Hp'. inv Hp'.
    intros [E|(E0 & E)]; destruct Hs as [E'|(E1 & E2)]; exfalso; congruence || lia.
Qed.

(* ---- Split(n): the consumers of the outputs that did not start the splitter ---- *)
Lemma split_waits n p d i :
  nth_error (n_procs (split_net n)) p = Some d -> p <> 1 -> In i (d_prog d) -> only_recv0 i = true.
Proof.
  intros Hd Hn Hi. cbn [split_net n_procs] in Hd.
  apply nth_workers_inv in Hd as [(-> & ->)|[(-> & _)|[(-> & ->)|(j & _ & -> & ->)]]]; try congruence;
    cbn [d_prog bg usr splitc_prog] in Hi; repeat (destruct Hi as [<-|Hi]; [reflexivity|]); destruct Hi.
Qed.

(* C04_split_others_released: Split(n), any n / input / interleaving. Once the splitter has been started and
   the context it runs under - the context of the output that was advanced first - has ended (that output
   was closed, its context was cancelled), NOTHING is left running at quiescence: in particular the
   consumers of the other outputs, whose own contexts are live, have returned (they saw the pipe closed). *)
Theorem split_others_released n l s :
  reach (split_net n) (split_init n l) s -> quiescent (split_net n) s ->
  (exists pr, nth_error (s_procs s) 1 = Some pr /\ p_st pr <> PNotStarted /\ (In (p_ctx pr) (s_canc s) \/ In 0 (s_canc s))) ->
  all_done s.
Proof.
  intros R Q (pr & Hp & Hs & Hc).
  apply (released (split_net n) eq_refl (wf_split_net n) (split_waits n) s).
  - eapply ginv_reach; eauto using wf_split_net, ginv_split_init.
  - apply (pinv_reach (split_net n) eq_refl (wf_split_net n) (split_waits n) (split_init n l) s (ginv_split_init n l)); [|exact R].
    unfold split_init. apply pinv_mk_init; [cbn; lia|]. exists idle. split; [reflexivity|left; reflexivity].
  - exact Q.
  - exists pr. split; auto. split; auto. unfold cancelledb. apply existsb_exists.
    destruct Hc as [H|H]; eexists; (split; [exact H|]); cbn; unfold flat_desc; [now rewrite Nat.eqb_refl|cbn; apply orb_true_r].
Qed.

(* ---- BufferedChannel / Channel with a receiver that ranges over the channel ---- *)
Lemma range_waits p d i :
  nth_error (n_procs range_net) p = Some d -> p <> 1 -> In i (d_prog d) -> only_recv0 i = true.
Proof.
  intros Hd Hn Hi. destruct p as [|[|p]]; [|congruence|destruct p; discriminate].
  cbn in Hd. inv Hd. cbn in Hi. repeat (destruct Hi as [<-|Hi]; [reflexivity|]). destruct Hi.
Qed.

Lemma range_pump_ctx cap input s :
  reach range_net (range_init cap input) s ->
  exists pr, nth_error (s_procs s) 1 = Some pr /\ p_ctx pr = 1 /\ p_st pr <> PNotStarted.
Proof.
  induction 1 as [|s l s' R (pr & Hp & Hc & Hs) H].
  - exists (running 1). cbn. repeat split; auto. discriminate.
  - destruct (ctx_stable_step _ _ _ _ _ _ H Hp Hs) as (pr' & H1 & H2 & H3). exists pr'. repeat split; auto. congruence.
Qed.

(* C04_range_receiver_released: any buffer size / input / interleaving: once the context the channel was
   built with is cancelled, at quiescence the pump has gone AND the receiver - which has no context - has
   left its loop: the channel was closed *)
Theorem range_receiver_released cap input s :
  reach range_net (range_init cap input) s -> quiescent range_net s -> In 1 (s_canc s) ->
  all_done s /\ closedb s 0 = true.
Proof.
  intros R Q Hc. destruct (range_pump_ctx _ _ _ R) as (pr & Hp & Hctx & Hs).
  assert (G : ginv range_net s) by (eapply ginv_reach; eauto using wf_range_net, ginv_range_init).
  assert (P : pinv s).
  { apply (pinv_reach range_net eq_refl wf_range_net range_waits (range_init cap input) s (ginv_range_init cap input)); [|exact R].
    unfold range_init. apply pinv_mk_init; [cbn; lia|]. exists (running 1). split; [reflexivity|right; split; reflexivity]. }
  assert (A : all_done s).
  { apply (released range_net eq_refl wf_range_net range_waits s); auto.
    exists pr. split; auto. split; auto. rewrite Hctx. unfold cancelledb. apply existsb_exists. exists 1. split; auto. }
  split; auto. destruct P as [_ P]. apply (P pr Hp). left.
  destruct A as [A _]. specialize (A 1 pr Hp). destruct (p_st pr) eqn:E; try congruence.
  exfalso. pose proof (gi_ab _ _ G 1 pr _ Hp eq_refl E). discriminate.
Qed.

(* ---- what goes wrong when the deferred close is skipped on the error path (PostHook that runs its hook
        only when the worker returned nil): the error exits of the pump go straight to the return ---- *)
Definition pump_prog_noclose : list instr := [ISrc 0 GOwn 1 2 3; ISend 0 GOwn 0 2 3; IClose 0 3; IExit].
Definition split_noclose_net (n : nat) : net :=
  mkNet ([bg [IExit]; bg pump_prog_noclose; bg [IExit]] ++ map (fun j => usr (splitc_prog j)) (seq 0 n)) flat_desc 1.
Definition range_noclose_net : net := mkNet [usr [IRecv 0 GOwn 1 2 2; IDeliver 0; IExit]; bg pump_prog_noclose] eq_desc 1.

(* Split(2) over [1;2;3]: output 0 takes one item and is closed; the consumer of output 1 is parked for ever *)
Example split_noclose_stuck :
  let N := split_noclose_net 2 in
  let s := run N 500 0 true None (apply N [LClose 3] (apply N [LStep 3 false; LStep 3 false; LStep 1 false; LRdv 1 3; LStep 3 false] (split_init 2 [1; 2; 3]%Z))) in
  quiescentb N s = true /\ stuck_users N s = 1 /\ leaks N s = 0 /\ In 3 (s_canc s).
Proof. vm_compute. repeat split; auto. Qed.

Example split_close_releases :
  let N := split_net 2 in
  let s := run N 500 0 true None (apply N [LClose 3] (apply N [LStep 3 false; LStep 3 false; LStep 1 false; LRdv 1 3; LStep 3 false] (split_init 2 [1; 2; 3]%Z))) in
  quiescentb N s = true /\ stuck_users N s = 0 /\ leaks N s = 0 /\ In 3 (s_canc s).
Proof. vm_compute. repeat split; auto. Qed.

Example range_noclose_stuck :
  let N := range_noclose_net in
  let s := scenario N (range_init 1 [1; 2; 3; 4]%Z) 500 0 true (Some 2) [LCancel 1] in
  quiescentb N s = true /\ stuck_users N s = 1 /\ closedb s 0 = false.
Proof. vm_compute. repeat split; auto. Qed.

Example range_close_releases :
  let N := range_net in
  let s := scenario N (range_init 1 [1; 2; 3; 4]%Z) 500 0 true (Some 2) [LCancel 1] in
  quiescentb N s = true /\ stuck_users N s = 0 /\ closedb s 0 = true.
Proof. vm_compute. repeat split; auto. Qed.

(* ================================================================ a downstream stage fails: EOF without Close
   A lazy stage downstream of a goroutine-backed one fails with an ordinary error. ReadOne records the error,
   reports io.EOF - and closes the iterator (doClose on ANY error), which cancels the iterator's context
   exactly as Close does: in the model that is the label LClose 1, and C04_quiescent_all_done applies.
   Without that cancellation the consumer has simply walked away (LAbandon) and the pump stays parked: *)
Example eof_without_close_leaks :
  let N := pump_net in
  let s := scenario N (pump_init [1; 2; 3; 4; 5]%Z) 500 0 true (Some 2) [LAbandon 0] in
  quiescentb N s = true /\ leaks N s = 1 /\ s_canc s = [].
Proof. vm_compute. repeat split; reflexivity. Qed.

Example eof_with_doclose_releases :
  let N := pump_net in
  let s := scenario N (pump_init [1; 2; 3; 4; 5]%Z) 500 0 true (Some 2) [LClose 1; LAbandon 0] in
  quiescentb N s = true /\ leaks N s = 0.
Proof. vm_compute. repeat split; reflexivity. Qed.

(* ================================================================ ChanSend.Consume over a goroutine-backed input
   The pump of MergeIterators / Buffer (goroutine 2: read the input, send, and on EVERY exit close the input
   iterator) over an input that is itself goroutine-backed (goroutine 1: the input's own pump, channel 0) and
   was already running - advanced once - under the application's context 5, which nobody cancels; closing the
   input iterator cancels its context 6 (a child of 5). The consumer (goroutine 0, iterator context 1) takes
   k items from the pipe (channel 1) and Closes.
   The input keeps the context of its FIRST advance (Producer.WithCancel): the read of the input by
   goroutine 2 is guarded by context 6, not by goroutine 2's own context. *)
Definition nested_desc (a c : cid) : bool := (a =? c) || ((a =? 5) && (c =? 6)) || ((a =? 0) && (c =? 1)).
Definition consume_prog (close_on_error : bool) : list instr :=
  [IRecv 0 (GId 6) 1 2 (if close_on_error then 2 else 3);
   ISend 1 GOwn 0 (if close_on_error then 2 else 3) (if close_on_error then 2 else 3);
   ICancel 6 3;                        (* iter.Close() *)
   IExit].
Definition nested_net (close_on_error : bool) : net :=
  mkNet [usr [ICheck GOwn 1 5; ISpawn 2 GOwn 2; IRecv 1 GOwn 3 4 4; IDeliver 0; ICancel 1 5; IExit];
         bg (pump_prog 0 0);
         bg (consume_prog close_on_error)] nested_desc 1.
Definition nested_init (input : list Z) : state := mk_init [running 1; running 6; idle] [1; 0] [input].

(* the deferred close runs on every exit: the consumer Closes after one item, the pump of the merged / buffered
   stage gives up its send, closes its input, and the input's own pump goes away although context 5 is live *)
Example consume_closes_input_on_every_exit :
  let N := nested_net true in
  let s := scenario N (nested_init [1; 2; 3; 4; 5; 6]%Z) 500 0 true (Some 1) [LClose 1] in
  quiescentb N s = true /\ leaks N s = 0 /\ stuck_users N s = 0 /\ ~ In 5 (s_canc s).
Proof. vm_compute. repeat split; try reflexivity. intuition discriminate. Qed.

(* closing the input only after a clean run: the same scenario leaves the input's pump parked for ever *)
Example consume_close_only_on_success_leaks :
  let N := nested_net false in
  let s := scenario N (nested_init [1; 2; 3; 4; 5; 6]%Z) 500 0 true (Some 1) [LClose 1] in
  quiescentb N s = true /\ leaks N s = 1.
Proof. vm_compute. repeat split; reflexivity. Qed.

(* and the limit of the library as it is (same root cause as the Split starter finding): when the input has
   nothing to hand over for the moment (its pump, goroutine 1, waits - context guarded - for its source),
   goroutine 2 is parked INSIDE the input's read, which listens to context 6 only: Close and cancellation on
   the consumer's side release the consumer and nobody else *)
Definition nested_blocked_net : net :=
  mkNet [usr [ICheck GOwn 1 5; ISpawn 2 GOwn 2; IRecv 1 GOwn 3 4 4; IDeliver 0; ICancel 1 5; IExit];
         bg [IRecv 2 GOwn 1 1 1; IExit];
         bg (consume_prog true)] nested_desc 1.
Definition nested_blocked_init : state := mk_init [running 1; running 6; idle] [1; 0; 0] [[]].

Example reader_parked_in_first_advance_context_not_released :
  let N := nested_blocked_net in
  let s := scenario N nested_blocked_init 500 0 true (Some 1) [LClose 1; LCancel 0] in
  quiescentb N s = true /\ stuck_users N s = 0 /\ leaks N s = 2 /\ In 1 (s_canc s) /\ In 0 (s_canc s) /\ ~ In 6 (s_canc s).
Proof. vm_compute. repeat split; auto. intuition discriminate. Qed.
