(* C01_complete / C04_finite_input_eof / C04_progress_exhaust for fun.Map / Transform.ProcessParallel with n >= 1
   workers: the consumer's first advance launches n workers (context 2) and a closer; worker j reads its Split
   output (context 3+j; the first read starts the splitter under that context), maps, and sends the result to the
   unbuffered output pipe (channel 1); the splitter closes the Split pipe (channel 0) on return; the closer waits
   for the workers, cancels context 2 and closes the output pipe. Any n >= 1, input, interleaving; un-aborted runs. *)
From FunV Require Import Base.Tac Base.ListX Model.Pipelines
  Proofs.Pipelines_conserve Proofs.Pipelines_quiesce Proofs.Pipelines_nets Proofs.Pipelines_complete Proofs.Pipelines_closer
  Proofs.Pipelines_release Proofs.Pipelines_nodrop Proofs.Pipelines_completeness Proofs.Pipelines_progress
  Proofs.Pipelines_completeness_split.

(* the context a goroutine is started with is the one named by the spawn that starts it *)
Lemma spawn_ctx N s l s' q qp qp' :
  step N s l = Some s' -> nth_error (s_procs s) q = Some qp -> p_st qp = PNotStarted ->
  nth_error (s_procs s') q = Some qp' -> p_st qp' <> PNotStarted ->
  exists p arm pr d g k, l = LStep p arm /\ p <> q /\
    (cur_instr N s p = Some (pr, d, ISpawn q g k) \/ cur_instr N s p = Some (pr, d, IGoOnce q g k)) /\ p_ctx qp' = resolve pr g.
Proof.
  intros H Hq Hs Hq' Hs'. destruct l; cbn [step] in H.
  - destruct (cur_instr N s p) as [[[pr d] i]|] eqn:Ec; [|discriminate].
    pose proof Ec as Ec0. apply cur_instr_inv in Ec as (Hp & _ & Hr & _).
    assert (Hn : q <> p) by (intros ->; rewrite Hp in Hq; inv Hq; congruence).
    pose proof (exec_shape _ _ _ _ _ _ _ _ Hp Hr H) as Hsh.
    destruct Hsh as [pr' E1 _ _ _ | pr' _ _ _ E1 _ _ | q0 qp0 c pr' _ Hqq Hqs (g0 & Hg0 & Ec1) (g & k & Hi) E1 _ _ _ | q0 g k qp0 pr' _ _ _ E1 _ _ _];
      rewrite E1 in Hq'; rewrite nth_error_upd_other in Hq' by auto; try (rewrite Hq in Hq'; inv Hq'; contradiction).
    apply nth_error_upd in Hq' as [[-> ->]|[Hne Hq']]; [|rewrite Hq in Hq'; inv Hq'; contradiction].
    exists p, arm, pr, d, g, k. split; [reflexivity|]. split; [auto|]. cbn [p_ctx].
    destruct Hi as [->| ->]; cbn [instr_ctxs instr_guards app] in Hg0; destruct Hg0 as [<-|[]]; auto.
  - exfalso. destruct (p =? q0) eqn:Epq; [discriminate|].
    destruct (cur_instr N s p) as [[[pr d] i]|] eqn:Ec; [|discriminate]. destruct i; try discriminate.
    destruct (cur_instr N s q0) as [[[qr2 dq] iq]|] eqn:Eq; [|discriminate]. destruct iq; try discriminate.
    apply cur_instr_inv in Ec as (Hp & _ & Hr & _). apply cur_instr_inv in Eq as (Hq2 & _ & Hr2 & _).
    assert (p <> q) by (intros ->; rewrite Hp in Hq; inv Hq; congruence).
    assert (q0 <> q) by (intros ->; rewrite Hq2 in Hq; inv Hq; congruence).
    exec_cases H. inv H. unf. cbn [s_procs] in Hq'. rewrite !nth_error_upd_other in Hq' by auto. rewrite Hq in Hq'. inv Hq'. contradiction.
  - exfalso. exec_cases H. inv H. cbn in Hq'. rewrite Hq in Hq'. inv Hq'. contradiction.
  - exfalso. inv H. cbn in Hq'. rewrite Hq in Hq'. inv Hq'. contradiction.
  - exfalso. inv H. cbn in Hq'. rewrite Hq in Hq'. inv Hq'. contradiction.
  - exfalso. exec_cases H; inv H. unfold set_stopped in Hq'. unf. cbn [s_procs] in Hq'.
    apply nth_error_upd in Hq' as [[-> ->]|[Hne Hq']]; [congruence|rewrite Hq in Hq'; inv Hq'; contradiction].
Qed.

Section MapN.
Variable n : nat.
Hypothesis Hn : 0 < n.
Notation N := (map_net n).

Lemma A0 : nth_error (n_procs N) 0 = Some (usr (cons_init_prog n 1)). Proof. reflexivity. Qed.
Lemma A1 : nth_error (n_procs N) 1 = Some (bg (pump_prog 0 0)). Proof. reflexivity. Qed.
Lemma A2 : nth_error (n_procs N) 2 = Some (bg (closer_prog 1)). Proof. reflexivity. Qed.
Lemma Aw j : j < n -> nth_error (n_procs N) (3 + j) = Some (wgp (mapw_prog j)).
Proof. intros H. cbn [map_net n_procs]. exact (nth_workers _ _ _ (fun j => wgp (mapw_prog j)) n j H). Qed.
Lemma Awk j : j < n -> exists prog, nth_error (n_procs N) (3 + j) = Some (wgp prog).
Proof. intros H. eexists. apply Aw. exact H. Qed.
Lemma Adesc p d : nth_error (n_procs N) p = Some d ->
  (p = 0 /\ d = usr (cons_init_prog n 1)) \/ (p = 1 /\ d = bg (pump_prog 0 0)) \/ (p = 2 /\ d = bg (closer_prog 1)) \/
  (exists j, j < n /\ p = 3 + j /\ d = wgp (mapw_prog j)).
Proof. intros H. cbn [map_net n_procs] in H. apply nth_workers_inv in H. exact H. Qed.
Lemma Aharm p d i : nth_error (n_procs N) p = Some d -> p <> 0 -> p <> 2 -> In i (d_prog d) -> harmless 1 i = true.
Proof.
  intros Hd H0 H2 Hi. apply Adesc in Hd as [(-> & _)|[(-> & ->)|[(-> & _)|(j & _ & -> & ->)]]]; try congruence;
    eapply harmless_forall; eauto; reflexivity.
Qed.

Lemma hand_disc_map_net : hand_disc N = true.
Proof.
  unfold hand_disc. cbn [map_net n_procs]. apply forallb_app'.
  - cbn [forallb usr bg d_prog]. rewrite hd_cons_init. reflexivity.
  - apply forallb_map_seq. intros j _. reflexivity.
Qed.

Lemma a_cons_cur s c d i :
  cur_instr N s 0 = Some (c, d, i) ->
  (p_pc c = 0 /\ i = ICheck GOwn 1 (n + 6)) \/ (1 <= p_pc c <= n /\ i = ISpawn (3 + (p_pc c - 1)) (GId 2) (p_pc c + 1)) \/
  (p_pc c = n + 1 /\ i = ISpawn 2 GOwn (n + 2)) \/ (p_pc c = n + 2 /\ i = IRecv 1 GOwn (n + 3) (n + 5) (n + 5)) \/
  (p_pc c = n + 3 /\ i = IDeliver (n + 4)) \/ (p_pc c = n + 4 /\ i = ICheck GOwn (n + 2) (n + 6)) \/
  (p_pc c = n + 5 /\ i = ICancel 1 (n + 6)) \/ (p_pc c = n + 6 /\ i = IExit).
Proof.
  intros H. apply (cur0 N n 1 A0) in H. apply cons_instr_cases in H as [(E & ->)|[(E & ->)|(m & E & Hm)]]; auto.
  do 6 (destruct m as [|m]; [cbn in Hm; inv Hm; intuition lia|]). destruct m; discriminate.
Qed.

Lemma a_worker_cur s j c d i :
  j < n -> cur_instr N s (3 + j) = Some (c, d, i) ->
  (p_pc c = 0 /\ i = ICheck GOwn 1 5) \/ (p_pc c = 1 /\ i = ISpawn 1 (GId (3 + j)) 2) \/ (p_pc c = 2 /\ i = IRecv 0 (GId (3 + j)) 3 4 4) \/
  (p_pc c = 3 /\ i = ISend 1 GOwn 0 5 5) \/ (p_pc c = 4 /\ i = ICancel (3 + j) 5) \/ (p_pc c = 5 /\ i = IExit).
Proof.
  intros Hj Hc. apply cur_instr_inv in Hc as (_ & Hd & _ & Hi). rewrite (Aw j Hj) in Hd. inv Hd. cbn [d_prog wgp mapw_prog] in Hi.
  destruct (p_pc c) as [|[|[|[|[|[|k]]]]]]; cbn in Hi; inv Hi; auto 8. destruct k; discriminate.
Qed.

Lemma a_pump_cur s pr d i :
  cur_instr N s 1 = Some (pr, d, i) ->
  (p_pc pr = 0 /\ i = ISrc 0 GOwn 1 2 2) \/ (p_pc pr = 1 /\ i = ISend 0 GOwn 0 2 2) \/ (p_pc pr = 2 /\ i = IClose 0 3) \/ (p_pc pr = 3 /\ i = IExit).
Proof. intros Hc. apply cur_instr_inv in Hc as (_ & Hd & _ & Hi). rewrite A1 in Hd. inv Hd. cbn [d_prog bg] in Hi. apply pump_instr in Hi. exact Hi. Qed.

Lemma a_closer_cur s pr d i :
  cur_instr N s 2 = Some (pr, d, i) ->
  (p_pc pr = 0 /\ i = IWgWait (Some GOwn) 1) \/ (p_pc pr = 1 /\ i = ICancel 2 2) \/ (p_pc pr = 2 /\ i = IClose 1 3) \/ (p_pc pr = 3 /\ i = IExit).
Proof. intros Hc. apply (cur2 N 1 A2) in Hc. apply closer_instr in Hc. exact Hc. Qed.

Definition a_wpast (s : state) (j : nat) : Prop :=
  exists c, nth_error (s_procs s) (3 + j) = Some c /\ (p_st c = PDone \/ (p_st c = PRun /\ p_pc c = 5)).
Definition a_ppast (s : state) : Prop :=
  exists pr, nth_error (s_procs s) 1 = Some pr /\ (p_st pr = PDone \/ (p_st pr = PRun /\ p_pc pr = 3)).
Definition a_cpast (s : state) : Prop :=
  exists c, nth_error (s_procs s) 0 = Some c /\ (p_st c = PDone \/ (p_st c = PRun /\ p_pc c = n + 6)).
Definition a_wdone (s : state) : Prop := forall j, j < n -> isdone s (3 + j).

Record mv (s : state) : Prop := {
  mv_na : forall p pr, nth_error (s_procs s) p = Some pr -> p_st pr <> PAbandoned;
  mv_len : length (s_chans s) = 2 /\ length (s_srcs s) = 1;
  mv_b0 : unbuffered s 0;
  mv_b1 : unbuffered s 1;
  mv_d : s_drop s = [];
  mv_ci : cinv N n 1 s;
  mv_wc : forall j c, j < n -> nth_error (s_procs s) (3 + j) = Some c -> p_st c <> PNotStarted -> p_ctx c = 2;
  mv_u : forall c, In c (s_canc s) -> (exists j, j < n /\ c = 3 + j /\ a_wpast s j) \/ (c = 2 /\ a_wdone s) \/ (c = 1 /\ a_cpast s /\ a_wdone s);
  mv_q : closedb s 1 = true -> a_wdone s;
  mv_q2 : forall c, nth_error (s_procs s) 0 = Some c -> p_st c = PRun -> p_pc c = n + 5 -> a_wdone s;
  mv_cl : forall j c, j < n -> nth_error (s_procs s) (3 + j) = Some c -> p_st c = PDone \/ (p_st c = PRun /\ 4 <= p_pc c) -> closedb s 0 = true;
  mv_pp : closedb s 0 = true -> a_ppast s;
  mv_pd : forall pr, nth_error (s_procs s) 1 = Some pr -> p_st pr = PDone \/ (p_st pr = PRun /\ p_pc pr = 3) -> closedb s 0 = true;
  mv_e : forall pr, nth_error (s_procs s) 1 = Some pr -> p_st pr = PDone \/ (p_st pr = PRun /\ 2 <= p_pc pr) -> nth_error (s_srcs s) 0 = Some [];
  mv_k : forall j c, j < n -> nth_error (s_procs s) (3 + j) = Some c -> p_st c = PRun -> 2 <= p_pc c <= 4 -> started s 1;
  mv_b : forall c, nth_error (s_procs s) 0 = Some c -> p_st c = PDone \/ (p_st c = PRun /\ n + 5 <= p_pc c) -> drained s 1;
  mv_pk : forall c, nth_error (s_procs s) 0 = Some c -> p_st c = PRun -> n + 2 <= p_pc c <= n + 5 -> started s 2;
  mv_pl : forall cl, nth_error (s_procs s) 2 = Some cl -> p_st cl = PDone \/ (p_st cl = PRun /\ p_pc cl = 3) -> closedb s 1 = true
}.

(* anything cancelled: a worker that has already returned cancelled its own Split output, or every worker has
   returned; in both cases (n >= 1) the Split pipe is closed *)
Lemma a_canc_closed0 s x : mv s -> cancelledb N s x = true -> closedb s 0 = true.
Proof.
  intros V H. unfold cancelledb in H. apply existsb_exists in H as (a & Ha & _).
  assert (W0 : a_wdone s -> closedb s 0 = true).
  { intros W. destruct (W 0 Hn) as (w & Hw & Dw). eapply (mv_cl _ V 0); eauto. }
  destruct (mv_u _ V a Ha) as [(j & Hj & _ & (c & Hc & Hfin))|[(_ & W)|(_ & _ & W)]]; auto.
  eapply (mv_cl _ V); eauto. destruct Hfin as [E|(E & Epc)]; [auto|right; split; auto; lia].
Qed.

(* a context that covers the workers' context 2 is cancelled only after every worker has returned *)
Lemma a_ctx2_live s : mv s -> cancelledb N s 2 = true -> a_wdone s.
Proof.
  intros V H. unfold cancelledb in H. apply existsb_exists in H as (a & Ha & Hd).
  destruct (mv_u _ V a Ha) as [(j & Hj & -> & _)|[(_ & W)|(_ & _ & W)]]; auto.
  exfalso. unfold std_desc in Hd. cbn in Hd. destruct j; cbn in Hd; discriminate.
Qed.

Lemma a_ctx1_live s : mv s -> cancelledb N s 1 = true -> a_cpast s.
Proof.
  intros V H. unfold cancelledb in H. apply existsb_exists in H as (a & Ha & Hd).
  destruct (mv_u _ V a Ha) as [(j & Hj & -> & _)|[(-> & _)|(_ & P & _)]]; auto.
  - exfalso. unfold std_desc in Hd. cbn in Hd. destruct j; cbn in Hd; discriminate.
  - exfalso. cbn in Hd. discriminate.
Qed.

(* a worker that runs sees neither its context cancelled nor the output pipe closed *)
Lemma a_worker_sees_nothing s j pr d i :
  mv s -> j < n -> cur_instr N s (3 + j) = Some (pr, d, i) -> cancelledb N s 2 = true \/ closedb s 1 = true -> False.
Proof.
  intros V Hj Hc Hy. assert (W : a_wdone s) by (destruct Hy as [E|E]; [apply a_ctx2_live; auto|apply (mv_q _ V); auto]).
  destruct (W j Hj) as (w & Hw1 & Hw2). apply cur_instr_inv in Hc as (Hp & _ & Hr & _). rewrite Hp in Hw1. inv Hw1. congruence.
Qed.

Lemma a_pump_sees_nothing s pr d i :
  mv s -> cur_instr N s 1 = Some (pr, d, i) -> p_pc pr < 3 -> (exists x, cancelledb N s x = true) \/ closedb s 0 = true -> False.
Proof.
  intros V Hc Hpc Hy.
  assert (Cl : closedb s 0 = true) by (destruct Hy as [(x & E)|E]; [eapply a_canc_closed0; eauto|exact E]).
  destruct (mv_pp _ V Cl) as (p0 & Hp0 & Hfin). apply cur_instr_inv in Hc as (Hp & _ & Hr & _). rewrite Hp in Hp0. inv Hp0.
  destruct Hfin as [E|(_ & E)]; [congruence|lia].
Qed.

Lemma a_wdone_step s l s' : step N s l = Some s' -> a_wdone s -> a_wdone s'.
Proof. intros H W j Hj. eapply isdone_mono; eauto. Qed.

Lemma a_past_gen s l s' p d k :
  nth_error (n_procs N) p = Some d -> nth_error (d_prog d) k = Some IExit ->
  step N s l = Some s' -> (forall q qr, nth_error (s_procs s') q = Some qr -> p_st qr <> PAbandoned) ->
  (exists c, nth_error (s_procs s) p = Some c /\ (p_st c = PDone \/ (p_st c = PRun /\ p_pc c = k))) ->
  (exists c, nth_error (s_procs s') p = Some c /\ (p_st c = PDone \/ (p_st c = PRun /\ p_pc c = k))).
Proof.
  intros Hd Hk H NA (c & Hc & Hfin).
  destruct (at_exit_step N s l s' p c d H Hc Hd NA) as (c' & Hc' & Hfin').
  - destruct Hfin as [E|(E & Epc)]; [auto|right; split; auto]. rewrite Epc. exact Hk.
  - exists c'. split; auto. destruct Hfin' as [E|(E & Epc)]; auto. right. split; auto.
    destruct Hfin as [E0|(_ & E0)]; [|congruence]. exfalso.
    pose proof (done_untouched _ _ _ _ _ _ H Hc E0) as X. rewrite Hc' in X. inv X. congruence.
Qed.

Lemma cons_exit : nth_error (cons_init_prog n 1) (n + 6) = Some IExit.
Proof. replace (n + 6) with (n + 1 + 5) by lia. rewrite cons_init_hi. reflexivity. Qed.

Lemma a_ctx1_wdone s : mv s -> cancelledb N s 1 = true -> a_wdone s.
Proof.
  intros V H. unfold cancelledb in H. apply existsb_exists in H as (a & Ha & Hd).
  destruct (mv_u _ V a Ha) as [(j & Hj & -> & _)|[(-> & _)|(_ & _ & W)]]; auto.
  - exfalso. unfold std_desc in Hd. cbn in Hd. destruct j; cbn in Hd; discriminate.
  - exfalso. cbn in Hd. discriminate.
Qed.

Lemma a_cons_ctx s c : mv s -> nth_error (s_procs s) 0 = Some c -> p_ctx c = 1.
Proof. intros V Hc. destruct (ci_cons _ _ _ _ (mv_ci _ V)) as (c0 & H0 & _ & E). rewrite Hc in H0. inv H0. exact E. Qed.

Lemma a_proc_exists s p : ginv N s -> p < 3 + n -> exists pr, nth_error (s_procs s) p = Some pr.
Proof.
  intros I Hp. destruct (nth_error (s_procs s) p) as [pr|] eqn:E; [eauto|]. exfalso. apply nth_error_None in E.
  rewrite (gi_len _ _ I) in E. cbn [map_net n_procs] in E. rewrite app_length, map_length, seq_length in E. cbn in E. lia.
Qed.

Lemma hinv_map input s : reach N (map_init n input) s -> hinv N s.
Proof.
  intros R. eapply hinv_reach; eauto using hand_disc_map_net. unfold map_init. apply hinv_mk_init.
  intros pr [<-|[<-|[<-|Hin]]]; auto. unfold idles in Hin. apply repeat_spec in Hin. now subst.
Qed.

Lemma closer_past_wdone s cl : mv s -> nth_error (s_procs s) 2 = Some cl -> p_st cl = PRun -> 1 <= p_pc cl -> a_wdone s.
Proof.
  intros V Hcl Hr Hpc. destruct (ci_past _ _ _ _ (mv_ci _ V) cl Hcl) as [E|E]; [right; auto| |exact E]. apply a_ctx1_wdone; auto.
Qed.

Lemma mv_step input s l s' :
  reach N (map_init n input) s -> internal l = true -> mv s -> step N s l = Some s' -> mv s'.
Proof.
  intros R Hint V H.
  pose proof (ci_g _ _ _ _ (mv_ci _ V)) as I.
  pose proof (hinv_map input s R) as HI.
  assert (NA : forall p pr, nth_error (s_procs s') p = Some pr -> p_st pr <> PAbandoned).
  { eapply no_abandon_step; eauto. apply (mv_na _ V). }
  assert (KC0 : closedb s 0 = true -> closedb s' 0 = true) by (eapply closed_mono; eauto).
  assert (KC1 : closedb s 1 = true -> closedb s' 1 = true) by (eapply closed_mono; eauto).
  pose proof (a_wdone_step _ _ _ H) as KW.
  assert (WP : forall j, j < n -> a_wpast s j -> a_wpast s' j).
  { intros j Hj. apply (a_past_gen s l s' (3 + j) _ 5 (Aw j Hj) eq_refl H NA). }
  assert (CP : a_cpast s -> a_cpast s').
  { apply (a_past_gen s l s' 0 _ (n + 6) A0 cons_exit H NA). }
  assert (PAST : forall c, (exists j, j < n /\ c = 3 + j /\ a_wpast s j) \/ (c = 2 /\ a_wdone s) \/ (c = 1 /\ a_cpast s /\ a_wdone s) ->
                           (exists j, j < n /\ c = 3 + j /\ a_wpast s' j) \/ (c = 2 /\ a_wdone s') \/ (c = 1 /\ a_cpast s' /\ a_wdone s')).
  { intros c [(j & Hj & E & P)|[(E & W)|(E & P & W)]]; [left; exists j; repeat split; auto|right; left; auto|right; right; auto]. }
  destruct (lens_step _ _ _ _ H) as (L1 & L2).
  split.
  - exact NA.
  - destruct (mv_len _ V). split; congruence.
  - eapply unbuffered_step; eauto. apply (mv_b0 _ V).
  - eapply unbuffered_step; eauto. apply (mv_b1 _ V).
  - (* nothing is dropped *)
    destruct (drop_cause N s l s' HI H) as [E|(p & pr & d & ch & g & ko & ke & kr & Hc & Hcause)]; [rewrite E; apply (mv_d _ V)|].
    exfalso. pose proof Hc as Hc0. apply cur_instr_inv in Hc as (Hp & Hd & Hr & Hi).
    apply Adesc in Hd as [(-> & ->)|[(-> & ->)|[(-> & ->)|(j & Hj & -> & ->)]]].
    + apply a_cons_cur in Hc0. intuition discriminate.
    + destruct (a_pump_cur _ _ _ _ Hc0) as [(_ & E)|[(Epc & E)|[(_ & E)|(_ & E)]]]; try discriminate. inv E.
      eapply (a_pump_sees_nothing s _ _ _ V Hc0); [lia|]. destruct Hcause as [E|E]; [left; eauto|right; exact E].
    + apply a_closer_cur in Hc0. intuition discriminate.
    + destruct (a_worker_cur s j _ _ _ Hj Hc0) as [(_ & E)|[(_ & E)|[(_ & E)|[(_ & E)|[(_ & E)|(_ & E)]]]]]; try discriminate. inv E.
      eapply (a_worker_sees_nothing s j _ _ _ V Hj Hc0). cbn [resolve] in Hcause.
      rewrite (mv_wc _ V j pr Hj Hp) in Hcause by congruence. exact Hcause.
  - eapply (cinv_step N n 1 A0 A2 Awk Aharm (wf_map_net n)); eauto. apply (mv_ci _ V).
  - (* the workers run under context 2 *)
    intros j c' Hj Hc' Hs'. destruct (a_proc_exists s (3 + j) I) as (c & Hc); [lia|].
    destruct (p_st c) eqn:Est.
    + destruct (spawn_ctx _ _ _ _ _ _ _ H Hc Est Hc' Hs') as (p & arm & pr & d & g & k & -> & Hne & Hsp & Ectx).
      rewrite Ectx. assert (Hd : exists d0, nth_error (n_procs N) p = Some d0) by (destruct Hsp as [X|X]; apply cur_instr_inv in X as (_ & X & _); eauto).
      destruct Hd as (d0 & Hd). apply Adesc in Hd as [(-> & ->)|[(-> & ->)|[(-> & ->)|(j' & Hj' & -> & ->)]]].
      * destruct Hsp as [X|X]; apply a_cons_cur in X;
          destruct X as [(_ & E)|[(_ & E)|[(_ & E)|[(_ & E)|[(_ & E)|[(_ & E)|[(_ & E)|(_ & E)]]]]]]]; try discriminate; inv E; try reflexivity; try lia.
      * destruct Hsp as [X|X]; apply a_pump_cur in X; intuition discriminate.
      * destruct Hsp as [X|X]; apply a_closer_cur in X; intuition discriminate.
      * destruct Hsp as [X|X]; apply (a_worker_cur s j') in X; auto;
          destruct X as [(_ & E)|[(_ & E)|[(_ & E)|[(_ & E)|[(_ & E)|(_ & E)]]]]]; try discriminate; inv E; lia.
    + assert (Hns : p_st c <> PNotStarted) by congruence.
      destruct (ctx_stable_step _ _ _ _ _ _ H Hc Hns) as (c2 & Hc2 & Ectx & _). rewrite Hc' in Hc2. inv Hc2. rewrite Ectx. eapply (mv_wc _ V); eauto.
    + assert (Hns : p_st c <> PNotStarted) by congruence.
      destruct (ctx_stable_step _ _ _ _ _ _ H Hc Hns) as (c2 & Hc2 & Ectx & _). rewrite Hc' in Hc2. inv Hc2. rewrite Ectx. eapply (mv_wc _ V); eauto.
    + assert (Hns : p_st c <> PNotStarted) by congruence.
      destruct (ctx_stable_step _ _ _ _ _ _ H Hc Hns) as (c2 & Hc2 & Ectx & _). rewrite Hc' in Hc2. inv Hc2. rewrite Ectx. eapply (mv_wc _ V); eauto.
  - (* who cancels *)
    intros x Hx.
    destruct (canc_by _ _ _ _ Hint H) as [Ec|(p & pr & d & c & k & -> & Hc)].
    + rewrite Ec in Hx. apply PAST. apply (mv_u _ V x Hx).
    + pose proof Hc as Hc0. pose proof H as H0. cbn [step] in H. rewrite Hc in H. cbn [exec] in H. inv H. unf. cbn [s_canc s_procs] in *.
      apply cur_instr_inv in Hc as (Hp & Hd & Hr & Hi).
      destruct Hx as [<-|Hx]; [|apply PAST; apply (mv_u _ V x Hx)].
      apply Adesc in Hd as [(-> & ->)|[(-> & ->)|[(-> & ->)|(j & Hj & -> & ->)]]].
      * apply a_cons_cur in Hc0. destruct Hc0 as [(_ & E)|[(_ & E)|[(_ & E)|[(_ & E)|[(_ & E)|[(_ & E)|[(Epc & E)|(_ & E)]]]]]]]; try discriminate. inv E.
        right. right. split; auto. split; [|apply KW; eapply (mv_q2 _ V); eauto].
        eexists. split; [unf; cbn [s_procs]; eapply nth_error_upd_same; eauto|]. right. split; reflexivity.
      * apply a_pump_cur in Hc0. intuition discriminate.
      * apply a_closer_cur in Hc0. destruct Hc0 as [(_ & E)|[(Epc & E)|[(_ & E)|(_ & E)]]]; try discriminate. inv E.
        right. left. split; auto. apply KW. eapply closer_past_wdone; eauto. lia.
      * apply (a_worker_cur s j) in Hc0; auto.
        destruct Hc0 as [(_ & E)|[(_ & E)|[(_ & E)|[(_ & E)|[(Epc & E)|(_ & E)]]]]]; try discriminate. inv E.
        left. exists j. split; auto. split; auto. eexists. split; [unf; cbn [s_procs]; eapply nth_error_upd_same; eauto|]. right. split; reflexivity.
  - (* the output pipe is closed only after every worker has returned *)
    intros Hcl'. destruct (closedb s 1) eqn:Ecl; [apply KW, (mv_q _ V); auto|].
    destruct (closed_by _ _ _ _ _ H Ecl Hcl') as (p & pr & d & k & -> & Hc).
    destruct (close_out_who N n 1 A0 A2 Aharm _ _ _ _ _ Hc) as (-> & Epc).
    apply cur_instr_inv in Hc as (Hp & _ & Hr & _). apply KW. eapply closer_past_wdone; eauto. lia.
  - (* the consumer cancels its iterator only after every worker has returned *)
    intros c' Hc' Hr' Hpc'.
    destruct (pc_step _ _ _ _ _ _ H Hc' Hr') as [Same|[(E0 & _)|[(arm & pr & d & i & -> & Hc & Hin)|[(q & pr & d & ch & g & ko & ke & kr & -> & Hc & E)|(q & pr & d & ch & g & ki & ke & kr & -> & Hc & E)]]]].
    + apply KW. eapply (mv_q2 _ V); eauto.
    + lia.
    + rewrite Hpc' in Hin. pose proof Hc as Hc0. apply a_cons_cur in Hc0.
      destruct Hc0 as [(_ & ->)|[(Hk & ->)|[(_ & ->)|[(_ & ->)|[(_ & ->)|[(_ & ->)|[(_ & ->)|(_ & ->)]]]]]]]; cbn [targets In] in Hin; try (intuition lia).
      apply KW. cbn [step] in H. rewrite Hc in H. apply cur_instr_inv in Hc as (Hp & _ & _ & _).
      destruct (recv_err_cause _ _ _ _ _ _ _ _ _ _ _ _ _ Hp H Hc') as [E|E]; [lia| |apply (mv_q _ V); exact E].
      apply a_ctx1_wdone; auto. cbn [resolve] in E. now rewrite (a_cons_ctx _ _ V Hp) in E.
    + apply a_cons_cur in Hc. intuition discriminate.
    + apply a_cons_cur in Hc. destruct Hc as [(_ & E1)|[(_ & E1)|[(_ & E1)|[(_ & E1)|[(_ & E1)|[(_ & E1)|[(_ & E1)|(_ & E1)]]]]]]]; inv E1. lia.
  - (* a worker leaves only after it saw the Split pipe closed *)
    intros j c' Hj Hc' Hfin.
    destruct Hfin as [Ed|(Er & Epc)].
    + destruct (done_from _ _ _ _ _ _ H Hc' Ed) as [Same|(pr & d & Hc)].
      * apply KC0. eapply (mv_cl _ V); eauto.
      * apply KC0. pose proof (a_worker_cur s j _ _ _ Hj Hc) as X. apply cur_instr_inv in Hc as (Hp & _ & Hr & _).
        destruct X as [(_ & E)|[(_ & E)|[(_ & E)|[(_ & E)|[(_ & E)|(E5 & _)]]]]]; try discriminate.
        eapply (mv_cl _ V); eauto. right. split; auto. lia.
    + destruct (pc_step _ _ _ _ _ _ H Hc' Er) as [Same|[(E0 & _)|[(arm & pr & d & i & -> & Hc & Hin)|[(q & pr & d & ch & g & ko & ke & kr & -> & Hc & E)|(q & pr & d & ch & g & ki & ke & kr & -> & Hc & E)]]]].
      * apply KC0. eapply (mv_cl _ V); eauto.
      * lia.
      * pose proof (a_worker_cur s j _ _ _ Hj Hc) as X. cbn [step] in H. rewrite Hc in H. apply cur_instr_inv in Hc as (Hp & _ & Hr & _).
        apply KC0.
        destruct X as [(E0 & ->)|[(E0 & ->)|[(E0 & ->)|[(E0 & ->)|[(E0 & ->)|(E0 & ->)]]]]]; cbn [targets In] in Hin; try lia.
        -- eapply a_canc_closed0; eauto. eapply check_err_cause; eauto. lia.
        -- destruct (recv_end_cause _ _ _ _ _ _ _ _ _ _ _ _ _ H Hc') as [E|(c0 & Hc0 & Hcl0 & _)]; [lia|eapply a_canc_closed0; eauto|].
           unfold closedb. now rewrite Hc0.
        -- destruct (send_err_cause _ _ _ _ _ _ _ _ _ _ _ _ _ H Hc') as [E|E]; [lia|eapply a_canc_closed0; eauto|].
           destruct (mv_q _ V E 0 Hn) as (w & Hw & Dw). eapply (mv_cl _ V 0); eauto.
        -- eapply (mv_cl _ V); eauto. right. split; auto. lia.
      * exfalso. destruct (a_worker_cur s j _ _ _ Hj Hc) as [(_ & E1)|[(_ & E1)|[(_ & E1)|[(_ & E1)|[(_ & E1)|(_ & E1)]]]]]; inv E1. lia.
      * exfalso. destruct (a_worker_cur s j _ _ _ Hj Hc) as [(_ & E1)|[(_ & E1)|[(_ & E1)|[(_ & E1)|[(_ & E1)|(_ & E1)]]]]]; inv E1. lia.
  - (* the Split pipe is closed by the splitter only, on its way out *)
    intros Hcl'. destruct (closedb s 0) eqn:Ecl; [apply (a_past_gen s l s' 1 _ 3 A1 eq_refl H NA); apply (mv_pp _ V); auto|].
    destruct (closed_by _ _ _ _ _ H Ecl Hcl') as (p & pr & d & k & -> & Hc).
    pose proof Hc as Hc0. apply cur_instr_inv in Hc as (Hp & Hd & Hr & Hi).
    apply Adesc in Hd as [(-> & ->)|[(-> & ->)|[(-> & ->)|(j & Hj & -> & ->)]]].
    + apply a_cons_cur in Hc0. intuition discriminate.
    + destruct (a_pump_cur _ _ _ _ Hc0) as [(_ & E)|[(_ & E)|[(_ & E)|(_ & E)]]]; try discriminate. inv E.
      cbn [step] in H. rewrite Hc0 in H. cbn [exec] in H. exec_cases H; inv H;
        (eexists; split; [unf; cbn [s_procs]; eapply nth_error_upd_same; eauto|right; split; reflexivity]).
    + apply a_closer_cur in Hc0. intuition discriminate.
    + apply (a_worker_cur s j) in Hc0; auto. intuition discriminate.
  - (* the splitter past its close: the Split pipe is closed *)
    intros pr' Hp' Hfin.
    destruct Hfin as [Ed|(Er & Epc)].
    + destruct (done_from _ _ _ _ _ _ H Hp' Ed) as [Same|(pr & d & Hc)].
      * apply KC0. eapply (mv_pd _ V); eauto.
      * apply KC0. pose proof (a_pump_cur _ _ _ _ Hc) as X. apply cur_instr_inv in Hc as (Hp & _ & Hr & _).
        destruct X as [(_ & E)|[(_ & E)|[(_ & E)|(E3 & _)]]]; try discriminate. eapply (mv_pd _ V); eauto.
    + destruct (pc_step _ _ _ _ _ _ H Hp' Er) as [Same|[(E0 & _)|[(arm & pr & d & i & -> & Hc & Hin)|[(q & pr & d & ch & g & ko & ke & kr & -> & Hc & E)|(q & pr & d & ch & g & ki & ke & kr & -> & Hc & E)]]]].
      * apply KC0. eapply (mv_pd _ V); eauto.
      * lia.
      * pose proof (a_pump_cur _ _ _ _ Hc) as X. cbn [step] in H. rewrite Hc in H.
        destruct X as [(E0 & ->)|[(E0 & ->)|[(E0 & ->)|(E0 & ->)]]]; cbn [targets In] in Hin; try lia.
        eapply close_effect; eauto. destruct (mv_b0 _ V) as (c0 & Hc0 & _). congruence.
      * exfalso. destruct (a_pump_cur _ _ _ _ Hc) as [(_ & E1)|[(_ & E1)|[(_ & E1)|(_ & E1)]]]; inv E1. lia.
      * exfalso. apply a_pump_cur in Hc. intuition discriminate.
  - (* the splitter passes to its close only after the input is exhausted *)
    intros pr' Hp' Hfin.
    assert (KEEP : nth_error (s_srcs s) 0 = Some [] -> nth_error (s_srcs s') 0 = Some []) by (eapply src_empty_step; eauto).
    destruct Hfin as [Ed|(Er & Epc)].
    + destruct (done_from _ _ _ _ _ _ H Hp' Ed) as [Same|(pr & d & Hc)].
      * apply KEEP. eapply (mv_e _ V); eauto.
      * apply KEEP. pose proof (a_pump_cur _ _ _ _ Hc) as X. apply cur_instr_inv in Hc as (Hp & _ & Hr & _).
        destruct X as [(_ & E)|[(_ & E)|[(_ & E)|(E3 & _)]]]; try discriminate. eapply (mv_e _ V); eauto. right. split; auto. lia.
    + destruct (pc_step _ _ _ _ _ _ H Hp' Er) as [Same|[(E0 & _)|[(arm & pr & d & i & -> & Hc & Hin)|[(q & pr & d & ch & g & ko & ke & kr & -> & Hc & E)|(q & pr & d & ch & g & ki & ke & kr & -> & Hc & E)]]]].
      * apply KEEP. eapply (mv_e _ V); eauto.
      * lia.
      * pose proof (a_pump_cur _ _ _ _ Hc) as X. pose proof Hc as Hc0. cbn [step] in H. rewrite Hc in H.
        apply cur_instr_inv in Hc as (Hp & _ & Hr & _).
        destruct X as [(E0 & ->)|[(E0 & ->)|[(E0 & ->)|(E0 & ->)]]]; cbn [targets In] in Hin; try lia.
        -- destruct (src_end_cause _ _ _ _ _ _ _ _ _ _ _ _ _ H Hp') as [E|[E|E]]; [lia| |apply KEEP; exact E|].
           ++ exfalso. eapply (a_pump_sees_nothing s _ _ _ V Hc0); [lia|left; eauto].
           ++ exfalso. destruct (mv_len _ V) as (_ & L). apply nth_error_None in E. lia.
        -- exfalso. destruct (send_err_cause _ _ _ _ _ _ _ _ _ _ _ _ _ H Hp') as [E|E]; [lia| |].
           ++ eapply (a_pump_sees_nothing s _ _ _ V Hc0); [lia|left; eauto].
           ++ eapply (a_pump_sees_nothing s _ _ _ V Hc0); [lia|right; exact E].
        -- apply KEEP. eapply (mv_e _ V); eauto. right. split; auto. lia.
      * exfalso. destruct (a_pump_cur _ _ _ _ Hc) as [(_ & E1)|[(_ & E1)|[(_ & E1)|(_ & E1)]]]; inv E1. lia.
      * exfalso. apply a_pump_cur in Hc. intuition discriminate.
  - (* a worker past its first read has started the splitter *)
    intros j c' Hj Hc' Er Hpc.
    destruct (pc_step _ _ _ _ _ _ H Hc' Er) as [Same|[(E0 & _)|[(arm & pr & d & i & -> & Hc & Hin)|[(q & pr & d & ch & g & ko & ke & kr & -> & Hc & E)|(q & pr & d & ch & g & ki & ke & kr & -> & Hc & E)]]]].
    + eapply started_mono; eauto. eapply (mv_k _ V); eauto.
    + lia.
    + pose proof (a_worker_cur s j _ _ _ Hj Hc) as X. pose proof Hc as Hc0. apply cur_instr_inv in Hc as (Hp & _ & Hr & _).
      destruct X as [(E0 & ->)|[(E0 & ->)|[(E0 & ->)|[(E0 & ->)|[(E0 & ->)|(E0 & ->)]]]]]; cbn [targets In] in Hin;
        try lia; try (eapply started_mono; eauto; eapply (mv_k _ V); eauto; lia).
      eapply spawn_started; eauto. apply a_proc_exists; auto. lia.
    + exfalso. destruct (a_worker_cur s j _ _ _ Hj Hc) as [(_ & E1)|[(_ & E1)|[(_ & E1)|[(_ & E1)|[(_ & E1)|(_ & E1)]]]]]; inv E1. lia.
    + pose proof (a_worker_cur s j _ _ _ Hj Hc) as X. apply cur_instr_inv in Hc as (Hp & _ & Hr & _).
      destruct X as [(_ & E1)|[(_ & E1)|[(E0 & E1)|[(_ & E1)|[(_ & E1)|(_ & E1)]]]]]; try discriminate.
      eapply started_mono; eauto. eapply (mv_k _ V); eauto. lia.
  - (* the consumer leaves only after it saw the output pipe closed and drained *)
    intros c' Hc' Hfin.
    assert (KEEP : drained s 1 -> drained s' 1) by (eapply drained_step; eauto).
    assert (LIVE : forall c, nth_error (s_procs s) 0 = Some c -> p_st c = PRun -> p_pc c <> n + 6 -> cancelledb N s (resolve c GOwn) = true -> False).
    { intros c Hc Hr Hpc Hcan. cbn [resolve] in Hcan. rewrite (a_cons_ctx _ _ V Hc) in Hcan.
      destruct (a_ctx1_live _ V Hcan) as (c0 & H0 & [E|(_ & E)]); rewrite Hc in H0; inv H0; congruence. }
    destruct Hfin as [Ed|(Er & Epc)].
    + destruct (done_from _ _ _ _ _ _ H Hc' Ed) as [Same|(pr & d & Hc)].
      * apply KEEP. eapply (mv_b _ V); eauto.
      * apply KEEP. pose proof (a_cons_cur _ _ _ _ Hc) as X. apply cur_instr_inv in Hc as (Hp & _ & Hr & _).
        destruct X as [(_ & E)|[(_ & E)|[(_ & E)|[(_ & E)|[(_ & E)|[(_ & E)|[(_ & E)|(E6 & _)]]]]]]]; try discriminate.
        eapply (mv_b _ V); eauto. right. split; auto. lia.
    + destruct (pc_step _ _ _ _ _ _ H Hc' Er) as [Same|[(E0 & _)|[(arm & pr & d & i & -> & Hc & Hin)|[(q & pr & d & ch & g & ko & ke & kr & -> & Hc & E)|(q & pr & d & ch & g & ki & ke & kr & -> & Hc & E)]]]].
      * apply KEEP. eapply (mv_b _ V); eauto.
      * lia.
      * pose proof (a_cons_cur _ _ _ _ Hc) as X. cbn [step] in H. rewrite Hc in H. apply cur_instr_inv in Hc as (Hp & _ & Hr & _).
        destruct X as [(E0 & ->)|[(E0 & ->)|[(E0 & ->)|[(E0 & ->)|[(E0 & ->)|[(E0 & ->)|[(E0 & ->)|(E0 & ->)]]]]]]]; cbn [targets In] in Hin.
        -- exfalso. eapply (LIVE pr); eauto; [lia|]. eapply check_err_cause; eauto. lia.
        -- lia.
        -- lia.
        -- destruct (recv_end_cause _ _ _ _ _ _ _ _ _ _ _ _ _ H Hc') as [E|E]; [lia| |apply KEEP; exact E].
           exfalso. eapply (LIVE pr); eauto. lia.
        -- lia.
        -- exfalso. eapply (LIVE pr); eauto; [lia|]. eapply check_err_cause; eauto. lia.
        -- apply KEEP. eapply (mv_b _ V); eauto. right. split; auto. lia.
        -- destruct Hin.
      * exfalso. apply a_cons_cur in Hc. intuition discriminate.
      * exfalso. pose proof (a_cons_cur _ _ _ _ Hc) as X.
        destruct X as [(_ & E1)|[(_ & E1)|[(_ & E1)|[(_ & E1)|[(_ & E1)|[(_ & E1)|[(_ & E1)|(_ & E1)]]]]]]]; inv E1. lia.
  - (* the consumer past its spawn phase has started the closer *)
    intros c' Hc' Er Hpc.
    destruct (pc_step _ _ _ _ _ _ H Hc' Er) as [Same|[(E0 & _)|[(arm & pr & d & i & -> & Hc & Hin)|[(q & pr & d & ch & g & ko & ke & kr & -> & Hc & E)|(q & pr & d & ch & g & ki & ke & kr & -> & Hc & E)]]]].
    + eapply started_mono; eauto. eapply (mv_pk _ V); eauto.
    + lia.
    + pose proof (a_cons_cur _ _ _ _ Hc) as X. pose proof Hc as Hc0. apply cur_instr_inv in Hc as (Hp & _ & Hr & _).
      destruct X as [(E0 & ->)|[(E0 & ->)|[(E0 & ->)|[(E0 & ->)|[(E0 & ->)|[(E0 & ->)|[(E0 & ->)|(E0 & ->)]]]]]]]; cbn [targets In] in Hin;
        try lia; try (eapply started_mono; eauto; eapply (mv_pk _ V); eauto; lia).
      destruct (ci_closer _ _ _ _ (mv_ci _ V)) as (cl0 & Hcl0 & _). eapply spawn_started; eauto.
    + exfalso. apply a_cons_cur in Hc. intuition discriminate.
    + pose proof (a_cons_cur _ _ _ _ Hc) as X. apply cur_instr_inv in Hc as (Hp & _ & Hr & _).
      destruct X as [(_ & E1)|[(_ & E1)|[(_ & E1)|[(E0 & E1)|[(_ & E1)|[(_ & E1)|[(_ & E1)|(_ & E1)]]]]]]]; try discriminate.
      eapply started_mono; eauto. eapply (mv_pk _ V); eauto. lia.
  - (* the closer past its close: the output pipe is closed *)
    intros cl' Hcl' Hfin.
    destruct Hfin as [Ed|(Er & Epc)].
    + destruct (done_from _ _ _ _ _ _ H Hcl' Ed) as [Same|(pr & d & Hc)].
      * apply KC1. eapply (mv_pl _ V); eauto.
      * apply KC1. pose proof (a_closer_cur _ _ _ _ Hc) as X. apply cur_instr_inv in Hc as (Hp & _ & Hr & _).
        destruct X as [(_ & E)|[(_ & E)|[(_ & E)|(E3 & _)]]]; try discriminate. eapply (mv_pl _ V); eauto.
    + destruct (pc_step _ _ _ _ _ _ H Hcl' Er) as [Same|[(E0 & _)|[(arm & pr & d & i & -> & Hc & Hin)|[(q & pr & d & ch & g & ko & ke & kr & -> & Hc & E)|(q & pr & d & ch & g & ki & ke & kr & -> & Hc & E)]]]].
      * apply KC1. eapply (mv_pl _ V); eauto.
      * lia.
      * pose proof (a_closer_cur _ _ _ _ Hc) as X. cbn [step] in H. rewrite Hc in H.
        destruct X as [(E0 & ->)|[(E0 & ->)|[(E0 & ->)|(E0 & ->)]]]; cbn [targets In] in Hin; try lia.
        eapply close_effect; eauto. destruct (mv_b1 _ V) as (c0 & Hc0 & _). congruence.
      * exfalso. apply a_closer_cur in Hc. intuition discriminate.
      * exfalso. apply a_closer_cur in Hc. intuition discriminate.
Qed.

Lemma map_init_worker input j c : nth_error (s_procs (map_init n input)) (3 + j) = Some c -> c = idle.
Proof.
  intros Hc. unfold map_init, mk_init in Hc; cbn [s_procs] in Hc. rewrite nth3 in Hc.
  apply nth_error_In in Hc. unfold idles in Hc. apply repeat_spec in Hc. exact Hc.
Qed.

Lemma mv_init input : mv (map_init n input).
Proof.
  split.
  - intros p pr Hp. unfold map_init, mk_init in Hp; cbn [s_procs] in Hp. apply nth_error_In in Hp.
    destruct Hp as [<-|[<-|[<-|Hin]]]; try discriminate. unfold idles in Hin. apply repeat_spec in Hin. subst. discriminate.
  - split; reflexivity.
  - eexists. split; [reflexivity|split; reflexivity].
  - eexists. split; [reflexivity|split; reflexivity].
  - reflexivity.
  - unfold map_init. apply cinv_init. apply (ginv_map_init n input).
  - intros j c Hj Hc Hs. apply map_init_worker in Hc. subst. contradiction Hs. reflexivity.
  - intros c [].
  - intros Hc. unfold map_init in Hc. rewrite closedb_mk_init in Hc. discriminate.
  - intros c Hc _ Hpc. cbn in Hc. inv Hc. cbn in Hpc. lia.
  - intros j c Hj Hc Hfin. apply map_init_worker in Hc. subst. destruct Hfin as [E|(E & _)]; discriminate.
  - intros Hc. unfold map_init in Hc. rewrite closedb_mk_init in Hc. discriminate.
  - intros pr Hp Hfin. cbn in Hp. inv Hp. destruct Hfin as [E|(E & _)]; discriminate.
  - intros pr Hp Hfin. cbn in Hp. inv Hp. destruct Hfin as [E|(E & _)]; discriminate.
  - intros j c Hj Hc Er _. apply map_init_worker in Hc. subst. discriminate.
  - intros c Hc Hfin. cbn in Hc. inv Hc. cbn in Hfin. destruct Hfin as [E|(_ & E)]; [discriminate|lia].
  - intros c Hc _ Hpc. cbn in Hc. inv Hc. cbn in Hpc. lia.
  - intros cl Hcl Hfin. cbn in Hcl. inv Hcl. destruct Hfin as [E|(E & _)]; discriminate.
Qed.

Lemma mv_ireach input s : ireach N (map_init n input) s -> mv s.
Proof.
  induction 1 as [|s l s' R IH Hi H]; [apply mv_init|]. eapply mv_step; eauto. apply ireach_reach. exact R.
Qed.

(* C01_complete for fun.Map / Transform.ProcessParallel (n >= 1 workers): a terminated run that nothing aborted
   delivered a permutation of the (images of the) input *)
Theorem map_complete input s :
  reach N (map_init n input) s -> s_stopped s = false -> all_done s -> Permutation (s_deliv s) input.
Proof.
  intros R Hs (AD & _). pose proof (mv_ireach input s (reach_unstopped _ _ _ R Hs)) as V.
  pose proof (hinv_map input s R) as HI.
  destruct (ci_cons _ _ _ _ (mv_ci _ V)) as (c & Hc & Hns & _).
  assert (Dc : p_st c = PDone).
  { destruct (p_st c) eqn:E; auto; [contradiction|exfalso; eapply AD; eauto|exfalso; eapply (mv_na _ V); eauto]. }
  destruct (mv_b _ V c Hc (or_introl Dc)) as (c1 & Hc1 & Hcl1 & _).
  assert (W : a_wdone s). { apply (mv_q _ V). unfold closedb. now rewrite Hc1. }
  destruct (W 0 Hn) as (w & Hw & Dw).
  pose proof (mv_cl _ V 0 w Hn Hw (or_introl Dw)) as Cl.
  destruct (mv_pp _ V Cl) as (pr & Hp & Hfin).
  assert (Dp : p_st pr = PDone) by (destruct Hfin as [E|(E & _)]; [auto|exfalso; eapply AD; eauto]).
  pose proof (mv_e _ V pr Hp (or_introl Dp)) as Es.
  destruct (mv_len _ V) as (Lc & Ls).
  destruct (mv_b0 _ V) as (b0 & Hb0 & _ & Eb0). destruct (mv_b1 _ V) as (b1 & Hb1 & _ & Eb1).
  assert (Esrc : concat (s_srcs s) = []).
  { destruct (s_srcs s) as [|l0 [|]]; cbn in Ls; try lia. cbn in Es. inv Es. reflexivity. }
  assert (Ebuf : bufs (s_chans s) = []).
  { unfold bufs. destruct (s_chans s) as [|x0 [|x1 [|]]]; cbn in Lc; try lia. cbn in Hb0, Hb1. inv Hb0. inv Hb1. cbn. now rewrite Eb0, Eb1. }
  assert (Eh : hands (s_procs s) = []).
  { apply hands_none. intros q Hin. apply In_nth_error in Hin as (p & Hq).
    destruct (HI p q Hq) as [E|([E|E] & _)]; auto; exfalso; [eapply AD; eauto|eapply (mv_na _ V); eauto]. }
  pose proof (reach_conserves _ _ _ R) as P. unfold tokens in P at 1.
  rewrite Esrc, Ebuf, Eh, (mv_d _ V) in P. cbn [app] in P. rewrite app_nil_r in P.
  etransitivity; [exact P|]. unfold map_init. rewrite tokens_mk_init; [cbn; now rewrite app_nil_r|apply hands_running_idles].
Qed.

(* deadlock freedom *)
Theorem map_deadlock_free input s :
  reach N (map_init n input) s -> s_stopped s = false -> quiescent N s -> all_done s.
Proof.
  intros R Hs Q. pose proof (mv_ireach input s (reach_unstopped _ _ _ R Hs)) as V.
  pose proof (ci_g _ _ _ _ (mv_ci _ V)) as I.
  assert (STUCK : forall p pr d i, cur_instr N s p = Some (pr, d, i) -> (exists arm s', step N s (LStep p arm) = Some s') -> False).
  { intros p pr d i _ (arm & s' & E). rewrite (Q (LStep p arm) eq_refl) in E. discriminate. }
  assert (CUR : forall p pr, nth_error (s_procs s) p = Some pr -> p_st pr = PRun -> exists d i, cur_instr N s p = Some (pr, d, i)).
  { intros p pr Hp Hr. destruct (nth_error (n_procs N) p) as [d|] eqn:Hd.
    - pose proof (gi_pc _ _ I p pr d Hp Hd Hr) as Hpc.
      destruct (nth_error (d_prog d) (p_pc pr)) as [i|] eqn:Ei; [|apply nth_error_None in Ei; lia].
      exists d, i. apply cur_instr_mk; auto.
    - exfalso. apply nth_error_None in Hd. rewrite <- (gi_len _ _ I) in Hd.
      assert (p < length (s_procs s)) by (apply nth_error_Some; congruence). lia. }
  destruct (mv_b0 _ V) as (c0 & Hc0 & Hcap0 & Hb0). destruct (mv_b1 _ V) as (c1 & Hc1 & Hcap1 & Hb1).
  assert (WGZ : (forall j pr, j < n -> nth_error (s_procs s) (3 + j) = Some pr -> p_st pr <> PRun) -> s_wg s = 0).
  { intros NW. rewrite (gi_wg _ _ I). apply wgc_zero. intros p pr d Hp Hd Hw.
    apply Adesc in Hd as [(-> & ->)|[(-> & ->)|[(-> & ->)|(j & Hj & -> & ->)]]]; try discriminate.
    unfold runb. destruct (p_st pr) eqn:E; auto. exfalso. eapply NW; eauto. }
  assert (CLOSER : s_wg s = 0 -> forall cl, nth_error (s_procs s) 2 = Some cl -> p_st cl = PRun -> False).
  { intros Hwg cl Hcl Hr. destruct (CUR _ _ Hcl Hr) as (d & i & Hc).
    destruct (a_closer_cur _ _ _ _ Hc) as [(_ & ->)|[(_ & ->)|[(_ & ->)|(_ & ->)]]];
      try (eapply STUCK; eauto; apply (enabled_noguard N s _ _ _ _ Hc); reflexivity).
    eapply STUCK; eauto. exists false. eexists. cbn [step]. rewrite Hc. cbn [exec]. rewrite Hwg. reflexivity. }
  destruct (ci_cons _ _ _ _ (mv_ci _ V)) as (c & Hc & Hns & _).
  (* 1: the consumer has returned *)
  assert (Dc : p_st c = PDone).
  { destruct (p_st c) eqn:Ec; auto; [contradiction| |exfalso; eapply (mv_na _ V); eauto]. exfalso.
    destruct (CUR _ _ Hc Ec) as (d & i & Hcur).
    destruct (a_cons_cur _ _ _ _ Hcur) as [(_ & ->)|[(_ & ->)|[(_ & ->)|[(Epc & ->)|[(_ & ->)|[(_ & ->)|[(_ & ->)|(_ & ->)]]]]]]];
      try (eapply STUCK; eauto; apply (enabled_noguard N s _ _ _ _ Hcur); reflexivity).
    destruct (c_closed c1) eqn:Ecl1;
      [eapply STUCK; eauto; exists false; eexists; cbn [step]; rewrite Hcur; cbn [exec]; rewrite Hc1, Hb1, Ecl1; reflexivity|].
    assert (NW : forall j pr, j < n -> nth_error (s_procs s) (3 + j) = Some pr -> p_st pr <> PRun).
    { intros j pr Hj Hp Hr. destruct (CUR _ _ Hp Hr) as (dw & iw & Hw).
      destruct (a_worker_cur s j _ _ _ Hj Hw) as [(_ & ->)|[(_ & ->)|[(Epw & ->)|[(_ & ->)|[(_ & ->)|(_ & ->)]]]]];
        try (eapply STUCK; eauto; apply (enabled_noguard N s _ _ _ _ Hw); reflexivity).
      - (* parked in the read of its Split output *)
        destruct (c_closed c0) eqn:Ecl0;
          [eapply STUCK; eauto; exists false; eexists; cbn [step]; rewrite Hw; cbn [exec]; rewrite Hc0, Hb0, Ecl0; reflexivity|].
        destruct (mv_k _ V j pr Hj Hp Hr) as (pp & Hpp & Hps); [lia|].
        destruct (p_st pp) eqn:Ep; [contradiction| | |eapply (mv_na _ V); eauto].
        + destruct (CUR _ _ Hpp Ep) as (dp & ip & Hpc).
          destruct (a_pump_cur _ _ _ _ Hpc) as [(_ & ->)|[(_ & ->)|[(_ & ->)|(_ & ->)]]];
            try (eapply STUCK; eauto; apply (enabled_noguard N s _ _ _ _ Hpc); reflexivity).
          destruct (p_hand pp) as [v|] eqn:Eh.
          * pose proof (Q (LRdv 1 (3 + j)) eq_refl) as X. cbn [step] in X. replace (1 =? 3 + j) with false in X by reflexivity.
            rewrite Hpc, Hw, Eh, Hc0, Hcap0, Ecl0 in X. cbn in X. discriminate.
          * eapply STUCK; eauto. exists false. cbn [step]. rewrite Hpc. cbn [exec]. rewrite Eh. eauto.
        + pose proof (mv_pd _ V pp Hpp (or_introl Ep)) as X. unfold closedb in X. rewrite Hc0 in X. congruence.
      - (* at its send: it meets the consumer, who is at its receive *)
        destruct (p_hand pr) as [v|] eqn:Eh.
        + pose proof (Q (LRdv (3 + j) 0) eq_refl) as X. cbn [step] in X. replace (3 + j =? 0) with false in X by reflexivity.
          rewrite Hw, Hcur, Eh, Hc1, Hcap1, Ecl1 in X. cbn in X. discriminate.
        + eapply STUCK; eauto. exists false. cbn [step]. rewrite Hw. cbn [exec]. rewrite Eh. eauto. }
    pose proof (WGZ NW) as Hwg.
    destruct (mv_pk _ V c Hc Ec) as (cl & Hcl & Hcs); [lia|].
    destruct (p_st cl) eqn:Ecl2; [contradiction|eapply CLOSER; eauto| |eapply (mv_na _ V); eauto].
    pose proof (mv_pl _ V cl Hcl (or_introl Ecl2)) as Hclosed. unfold closedb in Hclosed. rewrite Hc1 in Hclosed. congruence. }
  (* 2: the output pipe is closed, every worker has returned, the Split pipe is closed, the splitter is past its close *)
  destruct (mv_b _ V c Hc (or_introl Dc)) as (d1 & Hd1 & Hdcl & _).
  assert (W : a_wdone s). { apply (mv_q _ V). unfold closedb. now rewrite Hd1. }
  assert (NW : forall j pr, j < n -> nth_error (s_procs s) (3 + j) = Some pr -> p_st pr <> PRun).
  { intros j pr Hj Hp Hr. destruct (W j Hj) as (w & Hw1 & Hw2). rewrite Hp in Hw1. inv Hw1. congruence. }
  pose proof (WGZ NW) as Hwg.
  destruct (W 0 Hn) as (w & Hw & Dw).
  pose proof (mv_cl _ V 0 w Hn Hw (or_introl Dw)) as Cl.
  destruct (mv_pp _ V Cl) as (pr & Hp & Hfin).
  assert (S3 : forall p q, nth_error (s_procs s) p = Some q -> p_st q <> PRun).
  { intros p q Hq Er. destruct (CUR _ _ Hq Er) as (d & i & Hcur). pose proof Hcur as Hcur0.
    apply cur_instr_inv in Hcur as (_ & Hd & _ & Hi).
    apply Adesc in Hd as [(-> & ->)|[(-> & ->)|[(-> & ->)|(j & Hj & -> & ->)]]].
    - rewrite Hc in Hq. inv Hq. congruence.
    - rewrite Hp in Hq. inv Hq. destruct Hfin as [E|(_ & Epc)]; [congruence|].
      destruct (a_pump_cur _ _ _ _ Hcur0) as [(E0 & _)|[(E0 & _)|[(E0 & _)|(_ & ->)]]]; try lia.
      eapply STUCK; eauto. apply (enabled_noguard N s _ _ _ _ Hcur0); reflexivity.
    - eapply CLOSER; eauto.
    - eapply NW; eauto. }
  split; [exact S3|].
  destruct (s_oncew s) as [|k] eqn:Eo; auto. exfalso.
  destruct (gi_once _ _ I) as (po & Hpo & Hnsp); [lia|].
  assert (Hd : is_done s (n_once N) = true).
  { unfold is_done. rewrite Hpo. destruct (p_st po) eqn:Est; auto; [exfalso; eapply S3; eauto|exfalso; eapply (mv_na _ V); eauto]. }
  pose proof (Q LOnceRel eq_refl) as Hs0. cbn [step] in Hs0. rewrite Eo, Hd in Hs0. discriminate.
Qed.

(* C04_finite_input_eof for fun.Map / Transform.ProcessParallel *)
Theorem map_finite_input_eof input s :
  reach N (map_init n input) s -> s_stopped s = false -> quiescent N s -> all_done s /\ Permutation (s_deliv s) input.
Proof. intros R Hs Q. pose proof (map_deadlock_free input s R Hs Q) as A. split; auto. eapply map_complete; eauto. Qed.

Corollary map_progress input s :
  reach N (map_init n input) s -> s_stopped s = false -> ~ all_done s -> ~ quiescent N s.
Proof. intros R Hs NA Q. apply NA. eapply map_deadlock_free; eauto. Qed.

End MapN.
