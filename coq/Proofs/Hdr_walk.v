(* C19: counts, conservation of the total, the iterator as a linear walk over the counts
   indices (it never reaches its invariant panics), ValueAtQuantile / Min / Max in terms of the
   recorded data, Export/Import and Merge-into-empty. *)
From FunV Require Import Base.Tac Model.Hdr Proofs.Hdr_bits Proofs.Hdr_geom.
Local Open Scope Z_scope.

(* ------------------------------------------------------------------ sums over index ranges *)
Fixpoint sum_from (f : Z -> Z) (i : Z) (n : nat) : Z :=
  match n with O => 0 | S k => f i + sum_from f (i + 1) k end.

Lemma sum_from_snoc f n : forall i, sum_from f i (S n) = sum_from f i n + f (i + Z.of_nat n).
Proof.
  induction n as [|n IH]; intros i.
  - simpl. replace (i + 0) with i by lia. lia.
  - change (sum_from f i (S (S n))) with (f i + sum_from f (i + 1) (S n)).
    rewrite IH. cbn [sum_from]. replace (i + 1 + Z.of_nat n) with (i + Z.of_nat (S n)) by lia. lia.
Qed.

Lemma sum_from_nonneg f n : (forall j, 0 <= f j) -> forall i, 0 <= sum_from f i n.
Proof. intros H. induction n as [|n IH]; intros i; simpl; [lia|]. specialize (IH (i + 1)). specialize (H i). lia. Qed.

Lemma sum_from_ext f g n : forall i,
  (forall j, i <= j < i + Z.of_nat n -> f j = g j) -> sum_from f i n = sum_from g i n.
Proof.
  induction n as [|n IH]; intros i H; simpl; [reflexivity|].
  rewrite (H i) by lia. rewrite (IH (i + 1)); [reflexivity|]. intros j Hj. apply H. lia.
Qed.

Lemma sum_from_upd_out f k x n : forall i,
  ~ (i <= k < i + Z.of_nat n) -> sum_from (upd f k x) i n = sum_from f i n.
Proof.
  intros i H. apply sum_from_ext. intros j Hj. unfold upd.
  destruct (j =? k) eqn:E; [lia|reflexivity].
Qed.

Lemma sum_from_upd_in f k x n : forall i,
  i <= k < i + Z.of_nat n -> sum_from (upd f k x) i n = sum_from f i n - f k + x.
Proof.
  induction n as [|n IH]; intros i H; [simpl in H; lia|].
  cbn [sum_from]. destruct (Z.eq_dec i k) as [->|Hne].
  - rewrite sum_from_upd_out by lia. unfold upd at 1. rewrite Z.eqb_refl. lia.
  - rewrite IH by lia. unfold upd at 1. destruct (i =? k) eqn:E; [lia|]. lia.
Qed.

(* cum f q = f 0 + ... + f q   (0 when q < 0) *)
Definition cum (f : Z -> Z) (q : Z) : Z := sum_from f 0 (Z.to_nat (q + 1)).

Lemma cum_neg f q : q < 0 -> cum f q = 0.
Proof. intros. unfold cum. replace (Z.to_nat (q + 1)) with O by lia. reflexivity. Qed.

Lemma cum_step f q : 0 <= q -> cum f q = cum f (q - 1) + f q.
Proof.
  intros H. unfold cum. replace (Z.to_nat (q + 1)) with (S (Z.to_nat q)) by lia.
  rewrite sum_from_snoc. replace (q - 1 + 1) with q by lia.
  replace (0 + Z.of_nat (Z.to_nat q)) with q by lia. reflexivity.
Qed.

Lemma cum_mono f : (forall j, 0 <= f j) -> forall p q, p <= q -> cum f p <= cum f q.
Proof.
  intros Hf p q Hpq.
  replace q with (p + Z.of_nat (Z.to_nat (q - p))) by lia.
  induction (Z.to_nat (q - p)) as [|n IH].
  - replace (p + Z.of_nat 0) with p by lia. lia.
  - destruct (Z.lt_ge_cases (p + Z.of_nat (S n)) 0) as [Hq|Hq].
    + rewrite !cum_neg by lia. lia.
    + rewrite (cum_step f (p + Z.of_nat (S n))) by lia.
      replace (p + Z.of_nat (S n) - 1) with (p + Z.of_nat n) by lia.
      specialize (Hf (p + Z.of_nat (S n))). lia.
Qed.

Lemma cum_nonneg f q : (forall j, 0 <= f j) -> 0 <= cum f q.
Proof. intros. unfold cum. apply sum_from_nonneg. assumption. Qed.

Lemma single_le_cum f k q : (forall j, 0 <= f j) -> 0 <= k <= q -> f k <= cum f q.
Proof.
  intros Hf Hk. pose proof (cum_mono f Hf k q ltac:(lia)). rewrite (cum_step f k) in H by lia.
  pose proof (cum_nonneg f (k - 1) Hf). lia.
Qed.

Lemma cum_upd f k x q : 0 <= k -> cum (upd f k x) q = cum f q + (if k <=? q then x - f k else 0).
Proof.
  intros Hk. unfold cum. destruct (k <=? q) eqn:E.
  - rewrite sum_from_upd_in by lia. lia.
  - rewrite sum_from_upd_out by lia. lia.
Qed.

Lemma cum_ext f g q : (forall j, 0 <= j <= q -> f j = g j) -> cum f q = cum g q.
Proof. intros H. unfold cum. apply sum_from_ext. intros j Hj. apply H. lia. Qed.

Lemma cum_zero f q : (forall j, f j = 0) -> cum f q = 0.
Proof.
  intros H. unfold cum. generalize 0 at 1. induction (Z.to_nat (q + 1)) as [|n IH]; intros i; simpl; [reflexivity|].
  rewrite H, IH. reflexivity.
Qed.

(* with non-negative entries, equal cumulative sums mean zeros in between *)
Lemma cum_flat_zero f p q j : (forall i, 0 <= f i) -> cum f p = cum f q -> p < j <= q -> 0 <= j -> f j = 0.
Proof.
  intros Hf E Hj Hj0.
  pose proof (cum_mono f Hf p (j - 1) ltac:(lia)). pose proof (cum_mono f Hf j q ltac:(lia)).
  rewrite (cum_step f j) in H0 by lia. specialize (Hf j). lia.
Qed.

(* ------------------------------------------------------------------ well-formed histograms *)
Definition same_geom (a b : hist) : Prop :=
  h_lo a = h_lo b /\ h_hi a = h_hi b /\ h_unit a = h_unit b /\ h_sig a = h_sig b /\ h_hcm a = h_hcm b /\
  h_shc a = h_shc b /\ h_mask a = h_mask b /\ h_sbc a = h_sbc b /\ h_bc a = h_bc b /\ h_clen a = h_clen b.

Lemma same_geom_refl a : same_geom a a.
Proof. repeat split. Qed.

Ltac simpl_h := cbn [h_lo h_hi h_unit h_sig h_hcm h_shc h_mask h_sbc h_bc h_clen h_total h_len h_counts
                      i_bucket i_sub i_count_at i_count_to i_value i_highest fst snd] in *.

Section Walk.
Variables (lo hi sig : Z).
Hypothesis SH : shape_ok lo hi sig.
Local Notation u := (Z.log2 lo).
Local Notation m := (scm_of sig).

Record wf (h : hist) : Prop := {
  wf_geom : geom u m hi h;
  wf_new : exists h0, new_hist lo hi sig = Ok h0 /\ same_geom h h0;
  wf_len : h_len h = h_clen h;
  wf_nonneg : forall i, 0 <= h_counts h i;
  wf_out : forall i, i < 0 \/ h_clen h <= i -> h_counts h i = 0;
  wf_total : h_total h = cum (h_counts h) (h_clen h - 1);
  wf_small : h_total h < 2 ^ 63
}.

Lemma new_wf : exists h, new_hist lo hi sig = Ok h /\ wf h /\ h_total h = 0 /\ (forall i, h_counts h i = 0).
Proof.
  destruct (new_hist_geom lo hi sig SH) as (h & E & G & _ & _ & _ & T & L & C).
  exists h. split; [assumption|]. split; [|auto].
  constructor; try assumption.
  - exists h. split; [assumption|apply same_geom_refl].
  - intros i. rewrite C. lia.
  - intros i _. apply C.
  - rewrite T. symmetry. apply cum_zero. assumption.
  - rewrite T. apply pow2_gt0. lia.
Qed.

Lemma clen_pos h : wf h -> 0 < h_clen h.
Proof.
  intros W. pose proof (wf_geom h W) as G. rewrite (g_clen _ _ _ _ G).
  pose proof (g_bc1 _ _ _ _ G). pose proof (pm1_pos _ _ _ _ G). nia.
Qed.

(* ------------------------------------------------------------------ RecordValues *)
Definition accepts (h : hist) (v : Z) : bool :=
  negb ((counts_index_for h v <? 0) || (h_clen h <=? counts_index_for h v)).

Lemma record_values_spec h v n :
  wf h -> 0 <= n -> h_total h + n < 2 ^ 63 ->
  let h' := fst (record_values h v n) in
  snd (record_values h v n) = accepts h v /\
  wf h' /\ same_geom h' h /\
  (accepts h v = false -> h' = h) /\
  (accepts h v = true ->
     h_total h' = h_total h + n /\
     (forall q, cum (h_counts h') q = cum (h_counts h) q + (if counts_index_for h v <=? q then n else 0)) /\
     (forall i, h_counts h' i = if i =? counts_index_for h v then h_counts h i + n else h_counts h i)).
Proof.
  intros W Hn Hs. unfold accepts, record_values.
  set (idx := counts_index_for h v).
  destruct ((idx <? 0) || (h_clen h <=? idx)) eqn:E; cbn [fst snd negb].
  - split; [reflexivity|]. split; [assumption|]. split; [apply same_geom_refl|].
    split; [reflexivity|discriminate].
  - assert (Hi : 0 <= idx < h_clen h) by lia.
    pose proof (wf_nonneg h W) as Nn.
    pose proof (cum_nonneg (h_counts h) (h_clen h - 1) Nn) as T0. rewrite <- (wf_total h W) in T0.
    assert (Hc : h_counts h idx <= h_total h).
    { rewrite (wf_total h W). apply single_le_cum; [assumption|lia]. }
    specialize (Nn idx) as Nidx.
    rewrite (wrap64_id (h_total h + n)) by lia.
    rewrite (wrap64_id (h_counts h idx + n)) by lia.
    split; [reflexivity|]. split; [|split; [repeat split|split; [discriminate|]]].
    + destruct W as [G [h0 [N0 S0]] L Nn' O T Sm]. constructor; simpl_h.
      * destruct G. constructor; simpl_h; assumption.
      * exists h0. split; [assumption|]. unfold same_geom in *. simpl_h. assumption.
      * assumption.
      * intros i. unfold upd. destruct (i =? idx); [lia|apply Nn'].
      * intros i Hi'. unfold upd. destruct (i =? idx) eqn:E'; [lia|apply O; assumption].
      * rewrite cum_upd by lia. destruct (idx <=? h_clen h - 1) eqn:E'; [|lia]. rewrite T. lia.
      * lia.
    + intros _. simpl_h. split; [reflexivity|]. split.
      * intros q. rewrite cum_upd by lia. destruct (idx <=? q); lia.
      * intros i. unfold upd. destruct (i =? idx) eqn:Ei; [|reflexivity]. replace i with idx by lia. reflexivity.
Qed.

Lemma accepts_in_range h v : wf h -> 0 <= v < top u m h -> accepts h v = true /\ counts_index_for h v = cidx u m v.
Proof.
  intros W Hv. pose proof (wf_geom h W) as G. pose proof (top_63 _ _ _ _ G).
  unfold accepts. rewrite (cif _ _ _ _ G) by lia. pose proof (cidx_range _ _ _ _ G v Hv).
  split; [|reflexivity].
  destruct ((cidx u m v <? 0) || (h_clen h <=? cidx u m v)) eqn:E; [lia|reflexivity].
Qed.

Lemma in_range_lt_top h v : wf h -> lo <= v <= hi -> 0 <= v < top u m h.
Proof.
  intros W Hv. pose proof (hi_lt_top _ _ _ _ (wf_geom h W)). destruct SH as (_ & ? & _). lia.
Qed.

Lemma reset_wf h : wf h -> wf (reset h) /\ h_total (reset h) = 0.
Proof.
  intros [G [h0 [N0 S0]] L Nn O T Sm]. split; [|reflexivity]. unfold reset. constructor; simpl_h.
  - destruct G. constructor; simpl_h; assumption.
  - exists h0. split; [assumption|]. unfold same_geom in *. simpl_h. assumption.
  - assumption.
  - intros. lia.
  - reflexivity.
  - symmetry. apply cum_zero. reflexivity.
  - apply pow2_gt0. lia.
Qed.

(* ------------------------------------------------------------------ conservation over arbitrary op lists *)
(* the total the specification predicts: occurrences accepted since the last Reset *)
Fixpoint spec_total (h0 : hist) (acc : Z) (ops : list hop) : Z :=
  match ops with
  | [] => acc
  | HRecord v n :: t => spec_total h0 (if accepts h0 v then acc + n else acc) t
  | HReset :: t => spec_total h0 0 t
  end.

Fixpoint ops_weight (ops : list hop) : Z :=
  match ops with
  | [] => 0
  | HRecord _ n :: t => n + ops_weight t
  | HReset :: t => ops_weight t
  end.

Definition ops_nonneg (ops : list hop) : Prop :=
  Forall (fun o => match o with HRecord _ n => 0 <= n | HReset => True end) ops.

Lemma ops_weight_nonneg ops : ops_nonneg ops -> 0 <= ops_weight ops.
Proof. induction 1 as [|o t Ho _ IH]; simpl; [lia|]. destruct o; lia. Qed.

Lemma accepts_same_geom a b v : same_geom a b -> accepts a v = accepts b v.
Proof.
  intros (E1 & E2 & E3 & E4 & E5 & E6 & E7 & E8 & E9 & E10).
  unfold accepts, counts_index_for, counts_index, get_bucket_index, get_sub_bucket_idx.
  rewrite E3, E5, E6, E7, E10. reflexivity.
Qed.

Lemma same_geom_trans a b c : same_geom a b -> same_geom b c -> same_geom a c.
Proof. unfold same_geom. intuition congruence. Qed.

Lemma total_conserved_gen ops : forall h h0,
  wf h -> same_geom h h0 -> ops_nonneg ops -> h_total h + ops_weight ops < 2 ^ 63 ->
  let h' := run_hops h ops in
  wf h' /\ same_geom h' h0 /\ h_total h' = spec_total h0 (h_total h) ops /\
  h_total h' = cum (h_counts h') (h_clen h' - 1).
Proof.
  induction ops as [|o t IH]; intros h h0 W S Hn Hw.
  - cbn. split; [assumption|]. split; [assumption|]. split; [reflexivity|apply wf_total; assumption].
  - inversion Hn as [|? ? Ho Ht]; subst. cbn [run_hops fold_left]. destruct o as [v n|].
    + cbn [hop_step]. cbn [ops_weight] in Hw. pose proof (ops_weight_nonneg t Ht) as Wt.
      pose proof (record_values_spec h v n W Ho ltac:(lia)) as (_ & W' & S' & Hrej & Hacc).
      cbn [spec_total]. rewrite <- (accepts_same_geom h h0 v S).
      destruct (accepts h v) eqn:A.
      * destruct (Hacc eq_refl) as [T' _].
        specialize (IH (fst (record_values h v n)) h0 W' (same_geom_trans _ _ _ S' S) Ht ltac:(lia)).
        rewrite T' in IH. exact IH.
      * rewrite (Hrej eq_refl) in *.
        specialize (IH h h0 W S Ht ltac:(lia)). exact IH.
    + cbn [hop_step]. cbn [ops_weight] in Hw. pose proof (ops_weight_nonneg t Ht) as Wt.
      destruct (reset_wf h W) as [W' T'].
      assert (0 <= h_total h) by (rewrite (wf_total h W); apply cum_nonneg; apply (wf_nonneg h W)).
      assert (S' : same_geom (reset h) h0).
      { unfold same_geom, reset in *. simpl_h. assumption. }
      specialize (IH (reset h) h0 W' S' Ht ltac:(lia)). rewrite T' in IH. exact IH.
Qed.

(* ------------------------------------------------------------------ the iterator is a linear walk *)
Section Iter.
Variable h : hist.
Hypothesis W : wf h.
Let G : geom u m hi h := wf_geom h W.

Local Notation shc := (2 ^ (m - 1)).
Local Notation cnt := (h_counts h).

(* iterator state after visiting counts index p (p = -1: fresh iterator) *)
Definition it_at (p : Z) (it : iter) : Prop :=
  -1 <= p < h_clen h /\
  i_bucket it * shc + i_sub it = p /\
  i_count_to it = cum cnt p /\
  ((p = -1 /\ i_bucket it = 0 /\ i_sub it = -1) \/
   (0 <= p /\ canonical m (i_bucket it) (i_sub it) /\ i_bucket it < h_bc h /\
    i_count_at it = cnt p /\
    i_value it = i_sub it * 2 ^ (i_bucket it + u) /\
    i_highest it = i_value it + 2 ^ (u + i_bucket it) - 1 /\
    0 <= i_value it /\ i_highest it < top u m h /\
    highest_equivalent_value h (i_value it) = Some (i_highest it))).

Lemma it_at_init : it_at (-1) iter_init.
Proof.
  unfold it_at, iter_init. simpl_h. pose proof (clen_pos h W).
  split; [lia|]. split; [lia|]. split; [rewrite cum_neg by lia; reflexivity|]. left. auto.
Qed.

Lemma cum_beyond (n : nat) : cum cnt (h_clen h - 1 + Z.of_nat n) = cum cnt (h_clen h - 1).
Proof.
  pose proof (clen_pos h W). induction n as [|n IH].
  - f_equal. lia.
  - rewrite cum_step by lia. rewrite (wf_out h W) by lia.
    replace (h_clen h - 1 + Z.of_nat (S n) - 1) with (h_clen h - 1 + Z.of_nat n) by lia. lia.
Qed.

Lemma cum_le_total p : cum cnt p <= h_total h.
Proof.
  rewrite (wf_total h W).
  destruct (Z.le_gt_cases p (h_clen h - 1)).
  - apply cum_mono; [apply (wf_nonneg h W)|assumption].
  - replace p with (h_clen h - 1 + Z.of_nat (Z.to_nat (p - (h_clen h - 1)))) by lia.
    rewrite cum_beyond. lia.
Qed.

Lemma iter_next_spec p it : it_at p it ->
  (h_total h <= cum cnt p -> iter_next h it = SDone) /\
  (cum cnt p < h_total h ->
     p + 1 < h_clen h /\ exists it', iter_next h it = SNext it' /\ it_at (p + 1) it').
Proof.
  intros (Hp & Hidx & Hto & Hcase). unfold iter_next. rewrite Hto.
  split.
  - intros Hd. destruct (cum cnt p >=? h_total h) eqn:E; [reflexivity|lia].
  - intros Hlt. destruct (cum cnt p >=? h_total h) eqn:E; [lia|].
    assert (Hp1 : p + 1 < h_clen h).
    { destruct (Z.eq_dec p (h_clen h - 1)) as [->|]; [|lia].
      rewrite (wf_total h W) in Hlt. lia. }
    split; [assumption|].
    pose proof (pm1_pos _ _ _ _ G) as P1. pose proof (pm_half _ _ _ _ G) as Ph.
    pose proof (g_m _ _ _ _ G) as Hm.
    assert (P18 : 2 ^ m <= 2 ^ 18) by (apply pow2_le; lia). change (2 ^ 18) with 262144 in P18.
    pose proof (g_bc1 _ _ _ _ G) as Bc1. pose proof (g_top62 _ _ _ _ G) as T62.
    pose proof (g_u _ _ _ _ G) as Hu.
    assert (T31 : 2 ^ 31 = 2147483648) by reflexivity.
    rewrite (g_sbc _ _ _ _ G), (g_shc _ _ _ _ G).
    (* the next cell (b', s') *)
    set (b := i_bucket it) in *. set (s := i_sub it) in *.
    assert (Hs : -1 <= s < 2 ^ m /\ 0 <= b < h_bc h).
    { destruct Hcase as [(? & ? & ?)|(? & C & ? & _)]; [lia|].
      pose proof (canonical_bounds _ _ _ _ G _ _ C). lia. }
    rewrite (wrap32_id (s + 1)) by lia.
    assert (exists b' s', (if s + 1 >=? 2 ^ m then (wrap32 (b + 1), shc) else (b, s + 1)) = (b', s') /\
                          canonical m b' s' /\ b' < h_bc h /\ b' * shc + s' = p + 1) as (b' & s' & Ecell & C' & Hb' & Hidx').
    { destruct (s + 1 >=? 2 ^ m) eqn:Es.
      - exists (b + 1), shc. rewrite wrap32_id by lia. split; [reflexivity|].
        assert (s = 2 ^ m - 1) by lia.
        split; [right; lia|]. split; [|nia].
        rewrite (g_clen _ _ _ _ G) in Hp1. nia.
      - exists b, (s + 1). split; [reflexivity|]. split; [|split; [lia|lia]].
        destruct Hcase as [(? & ? & ?)|(? & C & ? & _)].
        + left. lia.
        + destruct C as [[? ?]|[? ?]]; [left; lia|right; lia]. }
    rewrite Ecell.
    pose proof (canonical_bounds _ _ _ _ G _ _ C') as [Hb0 Hs'].
    destruct (negb (b' <? h_bc h)) eqn:Eb; [lia|].
    rewrite (counts_index_spec _ _ _ _ G) by lia. rewrite Hidx'.
    rewrite (wf_len h W).
    destruct ((p + 1 <? 0) || (h_clen h <=? p + 1)) eqn:Ei; [lia|].
    destruct (value_from_index_spec _ _ _ _ G b' s' C' Hb') as (Ev & Hv0 & Hvt).
    rewrite Ev.
    assert (Hd : 0 < 2 ^ (b' + u)) by (apply pow2_gt0; lia).
    set (v := s' * 2 ^ (b' + u)) in *.
    assert (Hvtop : 0 <= v < top u m h) by lia.
    rewrite (highest_spec _ _ _ _ G v Hvtop).
    destruct (index_roundtrip _ _ _ _ G b' s' C') as [Rb Rs]. fold v in Rb, Rs.
    assert (Eh : highest u m v = v + 2 ^ (u + b') - 1).
    { unfold highest, lowest, width. rewrite Rb, Rs. reflexivity. }
    pose proof (highest_lt_top _ _ _ _ G v Hvtop) as [_ Hht].
    eexists. split; [reflexivity|].
    unfold it_at. simpl_h.
    pose proof (cum_le_total (p + 1)) as Cle. rewrite (cum_step cnt (p + 1)) in Cle by lia.
    replace (p + 1 - 1) with p in Cle by lia.
    pose proof (cum_nonneg cnt p (wf_nonneg h W)). pose proof (wf_nonneg h W (p + 1)). pose proof (wf_small h W).
    split; [lia|]. split; [assumption|].
    split.
    { rewrite wrap64_id by lia. rewrite (cum_step cnt (p + 1)) by lia.
      replace (p + 1 - 1) with p by lia. reflexivity. }
    right. rewrite Eh.
    repeat split; try assumption; try lia.
    rewrite (highest_spec _ _ _ _ G v Hvtop). rewrite Eh. reflexivity.
Qed.

Lemma iter_never_panics p it : it_at p it -> iter_next h it <> SPanic.
Proof.
  intros H. destruct (iter_next_spec p it H) as [A B].
  destruct (Z.le_gt_cases (h_total h) (cum cnt p)) as [C|C].
  - rewrite (A C). discriminate.
  - destruct (B C) as (_ & it' & E & _). rewrite E. discriminate.
Qed.

(* the answer computed for the cell at counts index q *)
Definition cell_low (q r : Z) : Prop :=
  exists b s, canonical m b s /\ b * shc + s = q /\ r = s * 2 ^ (b + u).
Definition cell_high (q r : Z) : Prop :=
  exists b s, canonical m b s /\ b * shc + s = q /\ r = s * 2 ^ (b + u) + 2 ^ (u + b) - 1.

(* ValueAtQuantile's walk *)
Lemma vaq_loop_spec k q : 0 <= q < h_clen h -> cum cnt (q - 1) < k <= cum cnt q -> k <= h_total h ->
  forall fuel p it, it_at p it -> p < q -> h_clen h - p <= Z.of_nat fuel ->
  exists r, vaq_loop fuel h it (cum cnt p) k = Ok r /\ cell_high q r.
Proof.
  intros Hq Hk Hkt. induction fuel as [|f IH]; intros p it Hat Hpq Hf.
  - destruct Hat as ((? & ?) & _). lia.
  - cbn [vaq_loop]. assert (Hpl : -1 <= p) by (destruct Hat as ((? & _) & _); lia).
    pose proof (cum_mono cnt (wf_nonneg h W) p (q - 1) ltac:(lia)) as Mono.
    destruct (iter_next_spec p it Hat) as [_ B].
    destruct (B ltac:(lia)) as (Hp1 & it' & E & Hat'). rewrite E.
    destruct Hat' as (Hp' & Hidx' & Hto' & Hc').
    destruct Hc' as [(? & _)|(Hp0 & C & Hb & Hca & Hv & Hh & Hv0 & Hht & Hhe)]; [lia|].
    rewrite Hca.
    pose proof (cum_le_total (p + 1)) as Cle. pose proof (wf_small h W).
    pose proof (cum_nonneg cnt (p + 1) (wf_nonneg h W)).
    assert (Ew : wrap64 (cum cnt p + cnt (p + 1)) = cum cnt (p + 1)).
    { rewrite (cum_step cnt (p + 1)) by lia. replace (p + 1 - 1) with p by lia.
      rewrite (cum_step cnt (p + 1)) in Cle, H0 by lia. replace (p + 1 - 1) with p in Cle, H0 by lia.
      apply wrap64_id. lia. }
    rewrite Ew.
    destruct (Z.eq_dec (p + 1) q) as [Eq|Ne].
    + rewrite Eq. destruct (cum cnt q >=? k) eqn:Eg; [|lia].
      rewrite Hhe. eexists. split; [reflexivity|].
      exists (i_bucket it'), (i_sub it'). split; [assumption|]. split; [lia|]. rewrite Hh, Hv. reflexivity.
    + pose proof (cum_mono cnt (wf_nonneg h W) (p + 1) (q - 1) ltac:(lia)).
      destruct (cum cnt (p + 1) >=? k) eqn:Eg; [lia|].
      apply (IH (p + 1) it'); [|lia|lia].
      unfold it_at. split; [assumption|]. split; [assumption|]. split; [assumption|].
      right. repeat split; assumption.
Qed.

Lemma value_at_rank_spec k q : 0 <= q < h_clen h -> cum cnt (q - 1) < k <= cum cnt q ->
  exists r, value_at_rank h k = Ok r /\ cell_high q r.
Proof.
  intros Hq Hk. unfold value_at_rank.
  assert (Hkt : k <= h_total h) by (pose proof (cum_le_total q); lia).
  assert (Hf : h_clen h - -1 <= Z.of_nat (walk_fuel h)) by (unfold walk_fuel; lia).
  destruct (vaq_loop_spec k q Hq Hk Hkt (walk_fuel h) (-1) iter_init it_at_init ltac:(lia) Hf) as (r & E & C).
  rewrite cum_neg in E by lia. eauto.
Qed.

(* any rank at all: the walk ends without panic and within its fuel *)
Lemma vaq_loop_total k : forall fuel p it, it_at p it -> h_clen h - p <= Z.of_nat fuel ->
  exists r, vaq_loop fuel h it (cum cnt p) k = Ok r.
Proof.
  induction fuel as [|f IH]; intros p it Hat Hf.
  - destruct Hat as ((? & ?) & _). lia.
  - cbn [vaq_loop]. assert (Hpl : -1 <= p) by (destruct Hat as ((? & _) & _); lia).
    destruct (iter_next_spec p it Hat) as [A B].
    destruct (Z.le_gt_cases (h_total h) (cum cnt p)) as [C|C].
    + rewrite (A C). eauto.
    + destruct (B C) as (Hp1 & it' & E & Hat'). rewrite E.
      pose proof Hat' as (Hp' & Hidx' & Hto' & Hc').
      destruct Hc' as [(? & _)|(Hp0 & Cn & Hb & Hca & Hv & Hh & Hv0 & Hht & Hhe)]; [lia|].
      rewrite Hca.
      pose proof (cum_le_total (p + 1)) as Cle. pose proof (wf_small h W).
      pose proof (cum_nonneg cnt (p + 1) (wf_nonneg h W)).
      assert (Ew : wrap64 (cum cnt p + cnt (p + 1)) = cum cnt (p + 1)).
      { rewrite (cum_step cnt (p + 1)) by lia. replace (p + 1 - 1) with p by lia.
        rewrite (cum_step cnt (p + 1)) in Cle, H0 by lia. replace (p + 1 - 1) with p in Cle, H0 by lia.
        apply wrap64_id. lia. }
      rewrite Ew. destruct (cum cnt (p + 1) >=? k).
      * rewrite Hhe. eauto.
      * apply (IH (p + 1) it' Hat'). lia.
Qed.

Lemma value_at_rank_total k : exists r, value_at_rank h k = Ok r.
Proof.
  unfold value_at_rank.
  assert (Hf : h_clen h - -1 <= Z.of_nat (walk_fuel h)) by (unfold walk_fuel; lia).
  destruct (vaq_loop_total k (walk_fuel h) (-1) iter_init it_at_init Hf) as (r & E).
  rewrite cum_neg in E by lia. eauto.
Qed.

(* Min: q is the first non-empty counts index *)
Lemma min_loop_spec q : 0 <= q < h_clen h -> cum cnt (q - 1) = 0 -> 0 < cnt q ->
  forall fuel p it, it_at p it -> p < q -> h_clen h - p <= Z.of_nat fuel ->
  exists r, min_loop fuel h it = Ok r /\ cell_low q r.
Proof.
  intros Hq Hz Hpos. induction fuel as [|f IH]; intros p it Hat Hpq Hf.
  - destruct Hat as ((? & ?) & _). lia.
  - cbn [min_loop]. assert (Hpl : -1 <= p) by (destruct Hat as ((? & _) & _); lia).
    pose proof (cum_mono cnt (wf_nonneg h W) p (q - 1) ltac:(lia)) as Mono.
    pose proof (cum_nonneg cnt p (wf_nonneg h W)).
    assert (Tpos : 0 < h_total h).
    { pose proof (cum_le_total q). rewrite (cum_step cnt q) in H0 by lia. lia. }
    destruct (iter_next_spec p it Hat) as [_ B].
    destruct (B ltac:(lia)) as (Hp1 & it' & E & Hat'). rewrite E.
    pose proof Hat' as (Hp' & Hidx' & Hto' & Hc').
    destruct Hc' as [(? & _)|(Hp0 & C & Hb & Hca & Hv & Hh & Hv0 & Hht & Hhe)]; [lia|].
    rewrite Hca.
    destruct (Z.eq_dec (p + 1) q) as [Eq|Ne].
    + rewrite Eq. destruct (cnt q =? 0) eqn:E0; [lia|]. cbn [negb].
      eexists. split; [reflexivity|].
      exists (i_bucket it'), (i_sub it'). split; [assumption|]. split; [lia|].
      (* lowest(highest(cell)) = lowest(cell) *)
      destruct (index_roundtrip _ _ _ _ G _ _ C) as [Rb Rs]. rewrite <- Hv in Rb, Rs.
      assert (Hpw : 0 < 2 ^ (u + i_bucket it')).
      { apply pow2_gt0. pose proof (g_u _ _ _ _ G). pose proof (canonical_bounds _ _ _ _ G _ _ C). lia. }
      assert (Hin : lowest u m (i_value it') <= i_highest it' <= highest u m (i_value it')).
      { unfold highest, lowest, width. rewrite Rb, Rs, <- Hv, Hh. lia. }
      destruct (same_cell_ranges _ _ _ _ G (i_value it') (i_highest it') Hv0 Hin) as (El & _ & _).
      rewrite (lowest_spec _ _ _ _ G) by lia. rewrite El.
      unfold lowest. rewrite Rb, Rs. reflexivity.
    + assert (cnt (p + 1) = 0).
      { pose proof (single_le_cum cnt (p + 1) (q - 1) (wf_nonneg h W) ltac:(lia)).
        pose proof (wf_nonneg h W (p + 1)). lia. }
      rewrite H0. cbn [Z.eqb negb].
      apply (IH (p + 1) it' Hat'); lia.
Qed.

Lemma hist_min_spec q : 0 <= q < h_clen h -> cum cnt (q - 1) = 0 -> 0 < cnt q ->
  exists r, hist_min h = Ok r /\ cell_low q r.
Proof.
  intros Hq Hz Hpos. unfold hist_min.
  apply min_loop_spec with (q := q) (p := -1); try assumption; [apply it_at_init|lia|unfold walk_fuel; lia].
Qed.

(* Max: q is the last non-empty counts index *)
Lemma max_loop_spec q : 0 <= q < h_clen h -> cum cnt q = h_total h -> 0 < cnt q ->
  forall fuel p it mx, it_at p it -> p < q -> h_clen h - p <= Z.of_nat fuel ->
  exists r, max_loop fuel h it mx = Ok r /\ cell_high q r.
Proof.
  intros Hq Hz Hpos. induction fuel as [|f IH]; intros p it mx Hat Hpq Hf.
  - destruct Hat as ((? & ?) & _). lia.
  - cbn [max_loop]. assert (Hpl : -1 <= p) by (destruct Hat as ((? & _) & _); lia).
    pose proof (cum_mono cnt (wf_nonneg h W) p (q - 1) ltac:(lia)) as Mono.
    rewrite (cum_step cnt q) in Hz by lia.
    destruct (iter_next_spec p it Hat) as [_ B].
    destruct (B ltac:(lia)) as (Hp1 & it' & E & Hat'). rewrite E.
    pose proof Hat' as (Hp' & Hidx' & Hto' & Hc').
    destruct Hc' as [(? & _)|(Hp0 & C & Hb & Hca & Hv & Hh & Hv0 & Hht & Hhe)]; [lia|].
    rewrite Hca.
    destruct (Z.eq_dec (p + 1) q) as [Eq|Ne].
    + rewrite Eq. destruct (cnt q =? 0) eqn:E0; [lia|]. cbn [negb].
      (* the next call of next() is SDone; fuel is enough *)
      destruct f as [|f']; [lia|]. cbn [max_loop].
      destruct (iter_next_spec (p + 1) it' Hat') as [A' _].
      rewrite A' by (rewrite Eq, (cum_step cnt q) by lia; lia).
      (* highest(highest(cell)) = highest(cell) *)
      destruct (index_roundtrip _ _ _ _ G _ _ C) as [Rb Rs]. rewrite <- Hv in Rb, Rs.
      assert (Hpw : 0 < 2 ^ (u + i_bucket it')).
      { apply pow2_gt0. pose proof (g_u _ _ _ _ G). pose proof (canonical_bounds _ _ _ _ G _ _ C). lia. }
      assert (Hin : lowest u m (i_value it') <= i_highest it' <= highest u m (i_value it')).
      { unfold highest, lowest, width. rewrite Rb, Rs, <- Hv, Hh. lia. }
      destruct (same_cell_ranges _ _ _ _ G (i_value it') (i_highest it') Hv0 Hin) as (_ & Eh & _).
      rewrite (highest_spec _ _ _ _ G) by lia. rewrite Eh.
      eexists. split; [reflexivity|].
      exists (i_bucket it'), (i_sub it'). split; [assumption|]. split; [lia|].
      unfold highest, lowest, width. rewrite Rb, Rs. reflexivity.
    + apply (IH (p + 1) it' _ Hat'); lia.
Qed.

Lemma hist_max_spec q : 0 <= q < h_clen h -> cum cnt q = h_total h -> 0 < cnt q ->
  exists r, hist_max h = Ok r /\ cell_high q r.
Proof.
  intros Hq Hz Hpos. unfold hist_max.
  apply max_loop_spec with (q := q) (p := -1); try assumption; [apply it_at_init|lia|unfold walk_fuel; lia].
Qed.

End Iter.
End Walk.
