(* Ring abstraction for the pointer-level list model, and the two splice lemmas
   (insert-after, remove) for one pointer direction at a time.

   For a sentinel r and elements es, the forward pointers are described by ONE equation
       map (nnext . h) (r :: es) = map Some (es ++ [r])
   and the backward pointers by the same equation over the reversed element list
       map (nprev . h) (r :: rev es) = map Some (rev es ++ [r]).
   Both are instances of [dlinks dir h r es]; every splice is proved once, for an arbitrary
   direction [dir], and used twice. *)
From FunV Require Import Base.Tac Base.ListX Model.SortSpec Model.ListHeap.

Lemma app_inv_len {A} (a c b d : list A) : length a = length c -> a ++ b = c ++ d -> a = c /\ b = d.
Proof.
  revert c. induction a as [|x a IH]; intros [|y c] L E; simpl in *; try discriminate; auto.
  inv E. destruct (IH c) as [-> ->]; auto.
Qed.

Section Dir.
Variable dir : node -> ref.

Definition dlinks (h : nat -> node) (r : nat) (es : list nat) : Prop :=
  map (fun x => dir (h x)) (r :: es) = map Some (es ++ [r]).

Definition first (es : list nat) (r : nat) : nat := hd r es.

Lemma dlinks_nil h r : dlinks h r [] <-> dir (h r) = Some r.
Proof. unfold dlinks. simpl. split; intros H; [inv H; auto|rewrite H; auto]. Qed.

(* decomposition at an element x of es *)
Lemma dlinks_split h r pre x suf :
  dlinks h r (pre ++ x :: suf) <->
  map (fun y => dir (h y)) (r :: pre) = map Some (pre ++ [x]) /\
  map (fun y => dir (h y)) (x :: suf) = map Some (suf ++ [r]).
Proof.
  unfold dlinks.
  replace (r :: pre ++ x :: suf) with ((r :: pre) ++ x :: suf) by reflexivity.
  replace ((pre ++ x :: suf) ++ [r]) with ((pre ++ [x]) ++ suf ++ [r]) by (rewrite <- !app_assoc; reflexivity).
  rewrite (map_app (fun y => dir (h y))), (map_app (@Some nat)). split.
  - intros E. apply app_inv_len in E; [exact E|]. rewrite !map_length, app_length. simpl. lia.
  - intros [E1 E2]. rewrite E1, E2. reflexivity.
Qed.

Lemma dlinks_succ h r pre x suf :
  dlinks h r (pre ++ x :: suf) -> dir (h x) = Some (first suf r).
Proof.
  intros H. apply dlinks_split in H. destruct H as [_ H]. simpl in H.
  destruct suf; simpl in *; inv H; auto.
Qed.

Lemma dlinks_root h r es : dlinks h r es -> dir (h r) = Some (first es r).
Proof. unfold dlinks. destruct es; simpl; intros H; inv H; auto. Qed.

(* frame: a heap that agrees on [dir] for all ring members *)
Lemma dlinks_frame h h' r es :
  (forall x, In x (r :: es) -> dir (h' x) = dir (h x)) -> dlinks h r es -> dlinks h' r es.
Proof.
  unfold dlinks. intros F H. rewrite <- H. apply map_ext_in. intros a Ha. apply F. exact Ha.
Qed.

(* insert n after the sentinel *)
Lemma dlinks_insert_root h h' r es n :
  dlinks h r es ->
  dir (h' r) = Some n -> dir (h' n) = dir (h r) ->
  (forall x, In x es -> dir (h' x) = dir (h x)) ->
  dlinks h' r (n :: es).
Proof.
  unfold dlinks. simpl. intros H Hr Hn F.
  assert (E : map (fun y => dir (h' y)) es = map (fun y => dir (h y)) es) by (apply map_ext_in; exact F).
  rewrite Hr, Hn, E. f_equal. exact H.
Qed.

(* insert n after the element a of es *)
Lemma dlinks_insert h h' r pre a suf n :
  dlinks h r (pre ++ a :: suf) ->
  dir (h' a) = Some n -> dir (h' n) = dir (h a) ->
  (forall x, In x (r :: pre ++ suf) -> dir (h' x) = dir (h x)) ->
  dlinks h' r (pre ++ a :: n :: suf).
Proof.
  intros H Ha Hn F. apply dlinks_split in H. destruct H as [H1 H2].
  apply dlinks_split. split.
  - rewrite <- H1. apply map_ext_in. intros x Hx. apply F.
    simpl in Hx |- *. destruct Hx as [->|Hx]; auto. right. apply in_or_app. auto.
  - simpl in H2 |- *.
    assert (E : map (fun y => dir (h' y)) suf = map (fun y => dir (h y)) suf).
    { apply map_ext_in. intros x Hx. apply F. right. apply in_or_app. auto. }
    rewrite Ha, Hn, E. f_equal. exact H2.
Qed.

(* remove the element e whose predecessor is the sentinel *)
Lemma dlinks_remove_first h h' r e suf :
  dlinks h r (e :: suf) ->
  dir (h' r) = dir (h e) ->
  (forall x, In x suf -> dir (h' x) = dir (h x)) ->
  dlinks h' r suf.
Proof.
  unfold dlinks. simpl. intros H Hr F. injection H as H1 H2.
  assert (E : map (fun y => dir (h' y)) suf = map (fun y => dir (h y)) suf) by (apply map_ext_in; exact F).
  rewrite Hr, E. exact H2.
Qed.

(* remove the element e whose predecessor is the element p *)
Lemma dlinks_remove h h' r pre p e suf :
  dlinks h r (pre ++ p :: e :: suf) ->
  dir (h' p) = dir (h e) ->
  (forall x, In x (r :: pre ++ suf) -> dir (h' x) = dir (h x)) ->
  dlinks h' r (pre ++ p :: suf).
Proof.
  intros H Hp F. apply dlinks_split in H. destruct H as [H1 H2].
  apply dlinks_split. split.
  - rewrite <- H1. apply map_ext_in. intros x Hx. apply F.
    simpl in Hx |- *. destruct Hx as [->|Hx]; auto. right. apply in_or_app. auto.
  - simpl in H2 |- *. injection H2 as H2 H3.
    assert (E : map (fun y => dir (h' y)) suf = map (fun y => dir (h y)) suf).
    { apply map_ext_in. intros x Hx. apply F. right. apply in_or_app. auto. }
    rewrite Hp, E. exact H3.
Qed.

End Dir.

Definition ring (h : nat -> node) (r : nat) (es : list nat) : Prop :=
  NoDup (r :: es) /\ dlinks nnext h r es /\ dlinks nprev h r (rev es).

(* ---------------------------------------------------------------- functional heaps *)
Lemma upd_same {A} (f : nat -> A) k v : upd f k v k = v.
Proof. unfold upd. rewrite Nat.eqb_refl. reflexivity. Qed.
Lemma upd_other {A} (f : nat -> A) k v x : x <> k -> upd f k v x = f x.
Proof. unfold upd. intros H. apply Nat.eqb_neq in H. rewrite H. reflexivity. Qed.

(* bounded walk along a direction yields exactly the elements *)
Lemma walk_dlinks dir h r es :
  dlinks dir h r es -> Forall (fun n => nok (h n) = true) es -> nok (h r) = false ->
  forall bound, (length es < bound)%nat ->
  walk dir h bound (dir (h r)) = es.
Proof.
  intros D Hok Hr.
  assert (G : forall suf pre, es = pre ++ suf -> forall bound, (length suf < bound)%nat ->
              walk dir h bound (Some (first suf r)) = suf).
  { induction suf as [|x suf IH]; intros pre E bound Hb.
    - destruct bound; [lia|]. simpl. rewrite Hr. reflexivity.
    - destruct bound; [simpl in Hb; lia|]. simpl.
      assert (Hx : nok (h x) = true).
      { rewrite Forall_forall in Hok. apply Hok. rewrite E. apply in_or_app. right. left. reflexivity. }
      rewrite Hx. f_equal.
      rewrite E in D. rewrite (dlinks_succ dir h r pre x suf D).
      apply (IH (pre ++ [x])); [rewrite <- app_assoc; exact E|simpl in Hb; lia]. }
  intros bound Hb. rewrite (dlinks_root dir h r es D). apply (G es []); auto.
Qed.

(* ---------------------------------------------------------------- sequence-level splices *)
Fixpoint ins_after (e n : nat) (es : list nat) : list nat :=
  match es with
  | [] => []
  | x :: t => if Nat.eqb x e then x :: n :: t else x :: ins_after e n t
  end.
(* insert n after e, where e is the sentinel r or an element *)
Definition ins_cyc (e n r : nat) (es : list nat) : list nat :=
  if Nat.eqb e r then n :: es else ins_after e n es.

Fixpoint del (e : nat) (es : list nat) : list nat :=
  match es with
  | [] => []
  | x :: t => if Nat.eqb x e then t else x :: del e t
  end.

Lemma ins_after_split e n pre suf : ~ In e pre -> ins_after e n (pre ++ e :: suf) = pre ++ e :: n :: suf.
Proof.
  induction pre as [|x pre IH]; simpl; intros H.
  - rewrite Nat.eqb_refl. reflexivity.
  - destruct (Nat.eqb_spec x e); [exfalso; auto|]. rewrite IH; auto.
Qed.

Lemma del_split e pre suf : ~ In e pre -> del e (pre ++ e :: suf) = pre ++ suf.
Proof.
  induction pre as [|x pre IH]; simpl; intros H.
  - rewrite Nat.eqb_refl. reflexivity.
  - destruct (Nat.eqb_spec x e); [exfalso; auto|]. rewrite IH; auto.
Qed.

Lemma NoDup_mid_notin {A} (L1 L2 : list A) a : NoDup (L1 ++ a :: L2) -> ~ In a (L1 ++ L2).
Proof. intros H. apply NoDup_remove_2 in H. exact H. Qed.

Lemma NoDup_mid_neq {A} (L1 L2 : list A) a x : NoDup (L1 ++ a :: L2) -> In x (L1 ++ L2) -> x <> a.
Proof. intros H I ->. apply (NoDup_mid_notin _ _ _ H I). Qed.

Lemma NoDup_insert_mid {A} (L1 L2 : list A) n : NoDup (L1 ++ L2) -> ~ In n (L1 ++ L2) -> NoDup (L1 ++ n :: L2).
Proof.
  intros H I. apply (Permutation_NoDup (l := n :: L1 ++ L2)); [apply Permutation_middle|constructor; auto].
Qed.

Lemma in_mid {A} (L1 L2 : list A) a x : In x (L1 ++ L2) -> In x (L1 ++ a :: L2).
Proof. intros I. apply in_app_or in I. apply in_or_app. destruct I; [left|right; right]; auto. Qed.

Lemma NoDup_rev_cons (r : nat) es : NoDup (r :: es) -> NoDup (r :: rev es).
Proof.
  intros H. apply (Permutation_NoDup (l := r :: es)); [|exact H]. constructor. apply Permutation_rev.
Qed.

Lemma in_rev_cons (r x : nat) es : In x (r :: rev es) <-> In x (r :: es).
Proof. simpl. rewrite <- in_rev. tauto. Qed.

Lemma ins_cyc_cases e n r es :
  NoDup (r :: es) -> In e (r :: es) ->
  (e = r /\ ins_cyc e n r es = n :: es) \/
  (e <> r /\ exists pre suf, es = pre ++ e :: suf /\ ins_cyc e n r es = pre ++ e :: n :: suf).
Proof.
  intros ND [->|I].
  - left. unfold ins_cyc. rewrite Nat.eqb_refl. auto.
  - right. assert (e <> r) by (intros ->; inv ND; auto). split; auto.
    apply in_split in I. destruct I as (pre & suf & ->). exists pre, suf. split; auto.
    unfold ins_cyc. destruct (Nat.eqb_spec e r); [congruence|].
    apply ins_after_split. inv ND. apply NoDup_mid_notin in H3. intros I. apply H3. apply in_or_app. auto.
Qed.

Lemma ring_insert h h' r es e n s :
  ring h r es -> In e (r :: es) -> ~ In n (r :: es) -> nnext (h e) = Some s ->
  nnext (h' e) = Some n -> nnext (h' n) = Some s -> nprev (h' s) = Some n -> nprev (h' n) = Some e ->
  (forall x, x <> e -> x <> n -> nnext (h' x) = nnext (h x)) ->
  (forall x, x <> s -> x <> n -> nprev (h' x) = nprev (h x)) ->
  ring h' r (ins_cyc e n r es).
Proof.
  intros [ND [Df Db]] He Hn Hs Ne Nn Ps Pn Fn Fp.
  pose proof (NoDup_rev_cons _ _ ND) as NDr.
  assert (Hnr : ~ In n (r :: rev es)) by (rewrite in_rev_cons; exact Hn).
  destruct (ins_cyc_cases e n r es ND He) as [[-> ->]|(Hner & pre & suf & EQ & ->)].
  - (* after the sentinel *)
    rewrite (dlinks_root _ _ _ _ Df) in Hs. injection Hs as Hs.
    split.
    { inversion ND as [|? ? Hr1 Hes]; subst.
      constructor; [intros [->|I]; [apply Hn; left; reflexivity|exact (Hr1 I)]|].
      constructor; [intros I; apply Hn; right; exact I|exact Hes]. }
    split.
    + apply (dlinks_insert_root nnext h); auto.
      * rewrite Nn, (dlinks_root _ _ _ _ Df), Hs. reflexivity.
      * intros x Hx. apply Fn; intros ->; [inv ND; auto|apply Hn; right; auto].
    + simpl rev. destruct es as [|s0 es0]; simpl in Hs; subst s.
      * simpl. apply (dlinks_insert_root nprev h); auto.
        rewrite Pn, (dlinks_root _ _ _ _ Db). reflexivity.
      * simpl rev in *. rewrite <- app_assoc. simpl.
        apply (dlinks_insert nprev h); auto.
        -- rewrite Pn, (dlinks_succ _ _ _ _ _ _ Db). reflexivity.
        -- intros x Hx. apply Fp.
           ++ apply (NoDup_mid_neq (r :: rev es0) [] s0); [exact NDr|exact Hx].
           ++ intros ->. apply Hnr. apply (in_mid (r :: rev es0) [] s0). exact Hx.
  - (* after an element of es *)
    subst es.
    assert (Hsuc : s = first suf r).
    { rewrite (dlinks_succ _ _ _ _ _ _ Df) in Hs. injection Hs as Hs. auto. }
    assert (R : rev (pre ++ e :: suf) = rev suf ++ e :: rev pre).
    { rewrite rev_app_distr. simpl. rewrite <- app_assoc. reflexivity. }
    assert (R' : rev (pre ++ e :: n :: suf) = rev suf ++ n :: e :: rev pre).
    { rewrite rev_app_distr. simpl. rewrite <- !app_assoc. reflexivity. }
    rewrite R in *. split; [|split].
    + replace (r :: pre ++ e :: n :: suf) with ((r :: pre ++ [e]) ++ n :: suf) by (simpl; rewrite <- app_assoc; reflexivity).
      apply (NoDup_insert_mid (r :: pre ++ [e]) suf n).
      * simpl. rewrite <- app_assoc. exact ND.
      * simpl. rewrite <- app_assoc. exact Hn.
    + apply (dlinks_insert nnext h); auto.
      * rewrite Nn. rewrite (dlinks_succ _ _ _ _ _ _ Df), Hsuc. reflexivity.
      * intros x Hx. apply Fn.
        -- apply (NoDup_mid_neq (r :: pre) suf e); [exact ND|exact Hx].
        -- intros ->. apply Hn. apply (in_mid (r :: pre) suf e). exact Hx.
    + rewrite R'. destruct suf as [|s0 suf0]; simpl in Hsuc; subst s.
      * simpl in *. apply (dlinks_insert_root nprev h); auto.
        -- rewrite Pn, (dlinks_root _ _ _ _ Db). reflexivity.
        -- intros x Hx. apply Fp; intros ->; [inv NDr; auto|apply Hnr; right; exact Hx].
      * simpl rev in *. rewrite <- !app_assoc in *. simpl in *.
        apply (dlinks_insert nprev h); auto.
        -- rewrite Pn, (dlinks_succ _ _ _ _ _ _ Db). reflexivity.
        -- intros x Hx. apply Fp.
           ++ apply (NoDup_mid_neq (r :: rev suf0) (e :: rev pre) s0); [exact NDr|exact Hx].
           ++ intros ->. apply Hnr. apply (in_mid (r :: rev suf0) (e :: rev pre) s0). exact Hx.
Qed.

Lemma ring_remove h h' r es e p s :
  ring h r es -> In e es -> nnext (h e) = Some s -> nprev (h e) = Some p ->
  nnext (h' p) = Some s -> nprev (h' s) = Some p ->
  (forall x, x <> p -> nnext (h' x) = nnext (h x)) ->
  (forall x, x <> s -> nprev (h' x) = nprev (h x)) ->
  ring h' r (del e es) /\ In p (r :: del e es) /\ In s (r :: del e es) /\ e <> p /\ e <> s.
Proof.
  intros [ND [Df Db]] He Hs Hp Np Ps Fn Fp.
  apply in_split in He. destruct He as (pre & suf & ->).
  assert (NDe : ~ In e (r :: pre ++ suf)) by (apply (NoDup_mid_notin (r :: pre) suf e); exact ND).
  rewrite del_split by (intros I; apply NDe; right; apply in_or_app; auto).
  assert (ND' : NoDup (r :: pre ++ suf)) by (apply (NoDup_remove_1 (r :: pre) suf e); exact ND).
  pose proof (NoDup_rev_cons _ _ ND') as NDr'.
  assert (R : rev (pre ++ e :: suf) = rev suf ++ e :: rev pre).
  { rewrite rev_app_distr. simpl. rewrite <- app_assoc. reflexivity. }
  rewrite R in Db. rewrite rev_app_distr in NDr'.
  assert (Hsuc : s = first suf r).
  { rewrite (dlinks_succ _ _ _ _ _ _ Df) in Hs. injection Hs as Hs. auto. }
  assert (Hpre : p = first (rev pre) r).
  { rewrite (dlinks_succ _ _ _ _ _ _ Db) in Hp. injection Hp as Hp. auto. }
  assert (Ip : In p (r :: pre ++ suf)).
  { rewrite Hpre. destruct (list_snoc_cases pre) as [->|(pre0 & p0 & ->)]; simpl; auto.
    rewrite rev_app_distr. simpl. right. apply in_or_app. left. apply in_or_app. right. left. reflexivity. }
  assert (Is : In s (r :: pre ++ suf)).
  { rewrite Hsuc. destruct suf; simpl; auto. right. apply in_or_app. right. left. reflexivity. }
  split; [|split; [exact Ip|split; [exact Is|split; intros ->; auto]]].
  split; [exact ND'|]. split.
  - destruct (list_snoc_cases pre) as [->|(pre0 & p0 & ->)].
    + simpl in *. subst p. apply (dlinks_remove_first nnext h h' r e); auto.
      * rewrite Np, Hs. reflexivity.
      * intros x Hx. apply Fn. intros ->. inv ND'. auto.
    + rewrite rev_app_distr in Hpre. simpl in Hpre. subst p0.
      rewrite <- !app_assoc in *. simpl in *.
      apply (dlinks_remove nnext h h' r pre0 p e); auto.
      * rewrite Np, Hs. reflexivity.
      * intros x Hx. apply Fn. apply (NoDup_mid_neq (r :: pre0) suf p); [exact ND'|exact Hx].
  - rewrite rev_app_distr. destruct suf as [|s0 suf0].
    + simpl in *. subst s. apply (dlinks_remove_first nprev h h' r e); auto.
      * rewrite Ps, Hp. reflexivity.
      * intros x Hx. apply Fp. intros ->. inv NDr'. auto.
    + simpl in Hsuc. subst s0. simpl rev in *. rewrite <- !app_assoc in *. simpl in *.
      apply (dlinks_remove nprev h h' r (rev suf0) s e); auto.
      * rewrite Ps, Hp. reflexivity.
      * intros x Hx. apply Fp. apply (NoDup_mid_neq (r :: rev suf0) (rev pre) s); [exact NDr'|exact Hx].
Qed.

Lemma ring_neighbours h r es e p s :
  ring h r es -> In e es -> nnext (h e) = Some s -> nprev (h e) = Some p ->
  In p (r :: del e es) /\ In s (r :: del e es) /\ e <> p /\ e <> s /\ NoDup (r :: del e es) /\
  (forall x, In x (r :: es) <-> x = e \/ In x (r :: del e es)) /\ ~ In e (r :: del e es).
Proof.
  intros [ND [Df Db]] He Hs Hp.
  apply in_split in He. destruct He as (pre & suf & ->).
  assert (NDe : ~ In e (r :: pre ++ suf)) by (apply (NoDup_mid_notin (r :: pre) suf e); exact ND).
  rewrite del_split by (intros I; apply NDe; right; apply in_or_app; auto).
  assert (ND' : NoDup (r :: pre ++ suf)) by (apply (NoDup_remove_1 (r :: pre) suf e); exact ND).
  assert (R : rev (pre ++ e :: suf) = rev suf ++ e :: rev pre).
  { rewrite rev_app_distr. simpl. rewrite <- app_assoc. reflexivity. }
  rewrite R in Db.
  assert (Hsuc : s = first suf r).
  { rewrite (dlinks_succ _ _ _ _ _ _ Df) in Hs. injection Hs as Hs. auto. }
  assert (Hpre : p = first (rev pre) r).
  { rewrite (dlinks_succ _ _ _ _ _ _ Db) in Hp. injection Hp as Hp. auto. }
  assert (Ip : In p (r :: pre ++ suf)).
  { rewrite Hpre. destruct (list_snoc_cases pre) as [->|(pre0 & p0 & ->)]; simpl; auto.
    rewrite rev_app_distr. simpl. right. apply in_or_app. left. apply in_or_app. right. left. reflexivity. }
  assert (Is : In s (r :: pre ++ suf)).
  { rewrite Hsuc. destruct suf; simpl; auto. right. apply in_or_app. right. left. reflexivity. }
  split; [exact Ip|split; [exact Is|split; [intros ->; auto|split; [intros ->; auto|split; [exact ND'|split; [|exact NDe]]]]]].
  intros x. simpl. rewrite !in_app_iff. simpl. intuition congruence.
Qed.
