(* Non-vacuity: concrete worlds and operation sequences that satisfy the hypotheses of the C16/C17 theorems. *)
From FunV Require Import Base.Tac Base.ListX Model.SortSpec Proofs.SortSpec_proofs Model.ListHeap
  Proofs.ListHeap_ring Proofs.ListHeap_wf Proofs.ListHeap_splice Proofs.ListHeap_ops Proofs.ListHeap_obs
  Proofs.ListHeap_step Proofs.ListHeap_loops Proofs.ListHeap_all Proofs.ListHeap_refine Proofs.ListHeap_c17 Proofs.ListHeap_swap.
Local Open Scope Z_scope.

Definition rvalidb (w : world) (e : ref) : bool := match e with Some n => Nat.ltb n (nfresh w) | None => true end.
Definition lvalidb (w : world) (l : nat) : bool := Nat.ltb l (lfresh w).

Definition op_validb (w : world) (o : op) : bool :=
  match o with
  | OPushFront l _ | OPushBack l _ | OPopFront l | OPopBack l | OFront l | OBack l
  | OCopy l | OSlice l | OIter _ l | OSortQuick l _ | OSortMerge l _ | OIsSorted l _ => lvalidb w l
  | ONewElement _ => true
  | ONext e | OPrev e | ORemove e | ODrop e | OSet e _ => rvalidb w e
  | OAppend e n | OSwap e n => rvalidb w e && rvalidb w n
  | OExtend l i => lvalidb w l && lvalidb w i && negb (Nat.eqb l i)
  | OJSON s d => lvalidb w s && lvalidb w d
  end.

Lemma op_validb_sound w o : op_validb w o = true -> op_valid w o.
Proof.
  unfold op_validb, op_valid, lvalidb, lvalid, rvalidb, rvalid.
  destruct o; intros H; repeat (apply andb_prop in H; destruct H as [H ?]);
    repeat match goal with
           | X : Nat.ltb _ _ = true |- _ => apply Nat.ltb_lt in X
           | X : negb (Nat.eqb _ _) = true |- _ => apply negb_true_iff in X; apply Nat.eqb_neq in X
           | e : ref |- _ => destruct e
           | X : (match ?e with Some _ => _ | None => _ end) = true |- _ => destruct e
           end; auto.
Qed.

(* run a sequence, checking validity and the Swap guard at every step *)
Fixpoint run_valid (ops : list op) (w : world) : option world :=
  match ops with
  | [] => Some w
  | o :: ops' =>
      if op_validb w o && avoids_swap w o then
        match step o w with Ret _ w' => run_valid ops' w' | _ => None end
      else None
  end.

Lemma run_valid_reach ops : forall w w', reach w -> run_valid ops w = Some w' -> reach w'.
Proof.
  induction ops as [|o ops IH]; intros w w' R H; simpl in H; [inv H; exact R|].
  destruct (op_validb w o && avoids_swap w o) eqn:C; [|discriminate].
  apply andb_prop in C. destruct C as [V A]. destruct (step o w) as [r w1| |] eqn:S; try discriminate.
  apply (IH w1 w'); [|exact H]. eapply reachS; eauto. apply op_validb_sound. exact V.
Qed.

(* a scenario over both lists with accepted and rejected operations, handles to front, middle, back,
   root and detached elements, a sort, an Extend and a JSON round trip *)
Definition scenario : list op :=
  [OPushBack 0 3; OPushBack 0 1; OPushBack 0 4; OPushBack 0 2;          (* nodes 1..4, sentinel 0 *)
   OPushFront 1 9;                                                      (* sentinel 5, node 6 *)
   OAppend (Some 2%nat) (Some 6%nat);                                   (* rejected: 6 already belongs to list 1 *)
   ORemove (Some 0%nat);                                                (* rejected: the sentinel *)
   OSwap (Some 1%nat) (Some 6%nat);                                     (* rejected: different lists *)
   OSwap (Some 1%nat) None; OSwap (Some 1%nat) (Some 1%nat);            (* rejected: nil, self *)
   ONewElement 7;                                                       (* node 7, detached *)
   OAppend (Some 2%nat) (Some 7%nat);                                   (* accepted: [3;1;7;4;2] *)
   ORemove (Some 3%nat);                                                (* accepted: [3;1;7;2] *)
   OAppend (Some 3%nat) (Some 7%nat);                                   (* rejected: receiver detached *)
   OSortMerge 0 0;                                                      (* [1;2;3;7] *)
   OExtend 1 0;                                                         (* list 1 = [9;1;2;3;7], list 0 = [] *)
   OJSON 1 0;                                                           (* list 0 = [9;1;2;3;7] (new elements) *)
   OSortQuick 1 1; ODrop (Some 6%nat); OPopFront 0; OPopBack 1; OIter PRevPop 0].

Definition scenario_world : world :=
  match run_valid scenario empty_world with Some w => w | None => empty_world end.

Example scenario_runs : run_valid scenario empty_world = Some scenario_world.
Proof. vm_compute. reflexivity. Qed.

Example scenario_reach : reach scenario_world.
Proof. eapply run_valid_reach; [apply reach0|apply scenario_runs]. Qed.

Example scenario_observations :
  fwd_vals scenario_world 1 = [7; 3; 2] /\ bwd_vals scenario_world 1 = [2; 3; 7] /\ llen (lists scenario_world 1) = 3 /\
  fwd_vals scenario_world 0 = [] /\ llen (lists scenario_world 0) = 0.
Proof. vm_compute. repeat split; reflexivity. Qed.

(* a 4-element world meets WF (with its ghost element lists) *)
Definition four_ops : list op := [OPushBack 0 1; OPushBack 0 2; OPushBack 0 3; OPushBack 0 4].
Definition four : world :=
  match run_valid four_ops empty_world with Some w => w | None => empty_world end.

Example four_WF : exists E, WF four E /\ abs four E 0 = [1; 2; 3; 4].
Proof.
  assert (R : reach four) by (apply (run_valid_reach four_ops empty_world); [apply reach0|vm_compute; reflexivity]).
  destruct (reach_WF four R) as [E W]. exists E. split; [exact W|].
  destruct (obs_WF four E 0%nat W) as (F & _); [vm_compute; lia|]. rewrite <- F. vm_compute. reflexivity.
Qed.

(* the rejection branch is exercised: in the 4+1 world, appending an element of list 1 into list 0 is rejected *)
Example rejection_exercised :
  exists w, reach w /\ rejected w (OAppend (Some 2%nat) (Some 6%nat)) = true /\
            step (OAppend (Some 2%nat) (Some 6%nat)) w = Ret (RElem (Some 2%nat)) w.
Proof.
  set (w := match run_valid (firstn 5 scenario) empty_world with Some w => w | None => empty_world end).
  exists w. split; [apply (run_valid_reach (firstn 5 scenario) empty_world); [apply reach0|vm_compute; reflexivity]|].
  split; [vm_compute; reflexivity|]. apply (rejected_unchanged w (OAppend (Some 2%nat) (Some 6%nat))). vm_compute. reflexivity.
Qed.

(* the comparison family of the harness contains strict weak orders (ids 0..4), so the C17 sort theorems are not vacuous *)
Example lt0_swo : strict_weak_order (lt_of 0).
Proof. unfold strict_weak_order, lt_of. repeat split; intros; lia. Qed.

Example lt2_swo : strict_weak_order (lt_of 2).
Proof. unfold strict_weak_order, lt_of. repeat split; intros; lia. Qed.

(* Known finding #1 against the invariant: the world after the successful Swap of the witness is not
   well-formed for ANY ghost element lists (so nothing is guaranteed for later operations on it) *)
Lemma swap_breaks_WF :
  exists w, run_ops swap_witness_ops empty_world = Some w /\ ~ (exists E, WF w E) /\
            avoids_swap (match run_ops (firstn 4 swap_witness_ops) empty_world with Some w0 => w0 | None => empty_world end)
                        (OSwap (Some 2%nat) (Some 3%nat)) = false.
Proof.
  destruct swap_breaks_walks as (w & Run & _ & _ & _ & NW).
  exists w. split; [exact Run|]. split; [|vm_compute; reflexivity].
  intros [E W]. apply NW. assert (Hl : (0 < lfresh w)%nat).
  { revert Run. vm_compute. intros H. injection H as <-. simpl. lia. }
  destruct (WF_observably_consistent w E 0%nat W Hl) as (F & _). exact F.
Qed.
