(* Token conservation for EVERY GoLite network (any table of goroutines, any programs):
   each step permutes  remaining input ++ hands ++ channel buffers ++ delivered ++ dropped. *)
From FunV Require Import Base.Tac Base.ListX Model.Pipelines.

Definition cnt (x : Z) (l : list Z) : nat := count_occ Z.eq_dec l x.

Lemma cnt_app x l1 l2 : cnt x (l1 ++ l2) = cnt x l1 + cnt x l2.
Proof. apply count_occ_app. Qed.

Lemma perm_of_cnt l1 l2 : (forall x, cnt x l1 = cnt x l2) -> Permutation l1 l2.
Proof. intros H. apply (Permutation_count_occ Z.eq_dec). exact H. Qed.

Lemma cnt_of_perm l1 l2 : Permutation l1 l2 -> forall x, cnt x l1 = cnt x l2.
Proof. intros H. apply (Permutation_count_occ Z.eq_dec). exact H. Qed.

Lemma nth_error_upd_same {A} (l : list A) i x y : nth_error l i = Some x -> nth_error (upd l i y) i = Some y.
Proof. revert i; induction l as [|a l IH]; intros [|i] H; simpl in *; try discriminate; auto. Qed.

Lemma nth_error_upd_other {A} (l : list A) i j y : i <> j -> nth_error (upd l i y) j = nth_error l j.
Proof.
  revert i j; induction l as [|a l IH]; intros [|i] [|j] H; simpl; auto; try congruence.
Qed.

Lemma length_upd {A} (l : list A) i y : length (upd l i y) = length l.
Proof. revert i; induction l as [|a l IH]; intros [|i]; simpl; auto. Qed.

Lemma upd_none {A} (l : list A) i y : nth_error l i = None -> upd l i y = l.
Proof. revert i; induction l as [|a l IH]; intros [|i] H; simpl in *; try discriminate; auto. f_equal; auto. Qed.

(* exchange lemma: replacing element i changes the count of a concat-map by the difference *)
Lemma cnt_concat_upd {A} (f : A -> list Z) (l : list A) i a b x :
  nth_error l i = Some a ->
  cnt x (concat (map f (upd l i b))) + cnt x (f a) = cnt x (concat (map f l)) + cnt x (f b).
Proof.
  revert i; induction l as [|h l IH]; intros [|i] H; simpl in *; try discriminate.
  - inv H. rewrite !cnt_app. lia.
  - rewrite !cnt_app. specialize (IH _ H). lia.
Qed.

Lemma cnt_hands_upd ps p pr pr' x :
  nth_error ps p = Some pr ->
  cnt x (hands (upd ps p pr')) + cnt x (ol (p_hand pr)) = cnt x (hands ps) + cnt x (ol (p_hand pr')).
Proof. intros H. unfold hands. apply (cnt_concat_upd (fun pr => ol (p_hand pr))); exact H. Qed.

Lemma cnt_bufs_upd cs i c c' x :
  nth_error cs i = Some c ->
  cnt x (bufs (upd cs i c')) + cnt x (c_buf c) = cnt x (bufs cs) + cnt x (c_buf c').
Proof. intros H. unfold bufs. apply (cnt_concat_upd c_buf); exact H. Qed.

Lemma cnt_srcs_upd (ss : list (list Z)) i a b x :
  nth_error ss i = Some a ->
  cnt x (concat (upd ss i b)) + cnt x a = cnt x (concat ss) + cnt x b.
Proof.
  intros H. pose proof (cnt_concat_upd (fun l => l) ss i a b x H) as E.
  rewrite !map_id in E. exact E.
Qed.

Lemma cnt_cons x y l : cnt x (y :: l) = cnt x [y] + cnt x l.
Proof. change (y :: l) with ([y] ++ l). apply cnt_app. Qed.

Ltac prj := cbn [s_procs s_chans s_srcs s_canc s_wg s_oncew s_deliv s_drop s_stopped].

Definition tk (x : Z) (s : state) : nat :=
  cnt x (concat (s_srcs s)) + cnt x (hands (s_procs s)) + cnt x (bufs (s_chans s)) + cnt x (s_deliv s) + cnt x (s_drop s).

Lemma tk_tokens x s : cnt x (tokens s) = tk x s.
Proof. unfold tokens, tk. rewrite !cnt_app. lia. Qed.

Lemma tk_setp x s p pr pr' :
  nth_error (s_procs s) p = Some pr -> tk x (setp s p pr') + cnt x (ol (p_hand pr)) = tk x s + cnt x (ol (p_hand pr')).
Proof. intros H. unfold tk, setp, set_procs; prj. pose proof (cnt_hands_upd _ _ _ pr' x H). lia. Qed.

Lemma tk_dropped x s h : tk x (dropped s h) = tk x s + cnt x (ol h).
Proof. unfold tk, dropped, set_drop; prj. rewrite cnt_app. lia. Qed.

Lemma tk_set_srcs x s i a b :
  nth_error (s_srcs s) i = Some a -> tk x (set_srcs s (upd (s_srcs s) i b)) + cnt x a = tk x s + cnt x b.
Proof. intros H. unfold tk, set_srcs; prj. pose proof (cnt_srcs_upd _ _ _ b x H). lia. Qed.

Lemma tk_set_chans x s i c c' :
  nth_error (s_chans s) i = Some c -> tk x (set_chans s (upd (s_chans s) i c')) + cnt x (c_buf c) = tk x s + cnt x (c_buf c').
Proof. intros H. unfold tk, set_chans; prj. pose proof (cnt_bufs_upd _ _ _ c' x H). lia. Qed.

Lemma tk_set_deliv x s l : tk x (set_deliv s (s_deliv s ++ l)) = tk x s + cnt x l.
Proof. unfold tk, set_deliv; prj. rewrite cnt_app. lia. Qed.

Lemma tk_set_canc x s v : tk x (set_canc s v) = tk x s. Proof. reflexivity. Qed.
Lemma tk_set_wg x s v : tk x (set_wg s v) = tk x s. Proof. reflexivity. Qed.
Lemma tk_set_oncew x s v : tk x (set_oncew s v) = tk x s. Proof. reflexivity. Qed.
Lemma tk_set_stopped x s v : tk x (set_stopped s v) = tk x s. Proof. reflexivity. Qed.

Ltac fin x := change (cnt x []) with 0 in *; lia.

Lemma tk_start x s N q qp c : nth_error (s_procs s) q = Some qp -> tk x (start s N q qp c) = tk x s.
Proof.
  intros H. unfold start. pose proof (tk_setp x s q qp (mkProc PRun 0 (p_hand qp) c) H) as E. cbn [p_hand] in E.
  cbv zeta. destruct (is_wg N q); [rewrite tk_set_wg|]; lia.
Qed.

Lemma procs_start_other s N q qp c p : p <> q -> nth_error (s_procs (start s N q qp c)) p = nth_error (s_procs s) p.
Proof.
  intros H. unfold start. cbv zeta. destruct (is_wg N q); unfold set_wg, setp, set_procs; prj; apply nth_error_upd_other; congruence.
Qed.

(* the standard shape: the goroutine p itself moves, its hand goes from h0 to h1 *)
Ltac setp_self x H :=
  match goal with
  | |- tk x (setp ?s ?p ?pr') = _ =>
      let E := fresh "E" in
      pose proof (tk_setp x s p _ pr' H) as E; cbn [p_hand goto goto_h] in E
  end.

Lemma exec_tk N s p pr d i arm s' x :
  nth_error (s_procs s) p = Some pr -> p_st pr = PRun -> exec N s p pr d i arm = Some s' -> tk x s' = tk x s.
Proof.
  intros Hp Hrun H. destruct i; cbn [exec] in H.
  - (* ISrc *)
    destruct arm; [discriminate|]. destruct (cancelledb N s (resolve pr g)).
    + inv H. setp_self x Hp. fin x.
    + destruct (nth_error (s_srcs s) src) as [[|v r]|] eqn:Es; inv H.
      * setp_self x Hp. fin x.
      * assert (Hp' : nth_error (s_procs (dropped (set_srcs s (upd (s_srcs s) src r)) (p_hand pr))) p = Some pr) by exact Hp.
        setp_self x Hp'. rewrite tk_dropped in E. pose proof (tk_set_srcs x s src _ r Es) as E2.
        rewrite (cnt_cons x v r) in E2. cbn [ol] in E. fin x.
      * setp_self x Hp. fin x.
  - (* IRecv *)
    destruct arm.
    + destruct (cancelledb N s (resolve pr g)); inv H. setp_self x Hp. fin x.
    + destruct (nth_error (s_chans s) ch) as [c|] eqn:Ec; [|discriminate].
      destruct (c_buf c) as [|v r] eqn:Eb.
      * destruct (c_closed c); inv H. setp_self x Hp. fin x.
      * inv H.
        assert (Hp' : nth_error (s_procs (dropped (set_chans s (upd (s_chans s) ch (mkChan r (c_cap c) (c_closed c)))) (p_hand pr))) p = Some pr) by exact Hp.
        setp_self x Hp'. rewrite tk_dropped in E.
        pose proof (tk_set_chans x s ch c (mkChan r (c_cap c) (c_closed c)) Ec) as E2. cbn [c_buf] in E2.
        rewrite Eb, (cnt_cons x v r) in E2. cbn [ol] in E. fin x.
  - (* ISend *)
    destruct (p_hand pr) as [v|] eqn:Eh.
    + destruct arm.
      * destruct (cancelledb N s (resolve pr g)); inv H.
        assert (Hp' : nth_error (s_procs (dropped s (Some v))) p = Some pr) by exact Hp.
        setp_self x Hp'. rewrite tk_dropped, Eh in E. cbn [ol] in E. fin x.
      * destruct (nth_error (s_chans s) ch) as [c|] eqn:Ec; [|discriminate].
        destruct (c_closed c).
        -- inv H. assert (Hp' : nth_error (s_procs (dropped s (Some v))) p = Some pr) by exact Hp.
           setp_self x Hp'. rewrite tk_dropped, Eh in E. cbn [ol] in E. fin x.
        -- destruct (length (c_buf c) <? c_cap c); inv H.
           assert (Hp' : nth_error (s_procs (set_chans s (upd (s_chans s) ch (mkChan (c_buf c ++ [v]) (c_cap c) false)))) p = Some pr) by exact Hp.
           setp_self x Hp'. pose proof (tk_set_chans x s ch c (mkChan (c_buf c ++ [v]) (c_cap c) false) Ec) as E2.
           cbn [c_buf] in E2. rewrite cnt_app in E2. rewrite Eh in E. cbn [ol] in E. fin x.
    + destruct arm; inv H. setp_self x Hp. fin x.
  - (* IDeliver *)
    destruct arm; inv H.
    assert (Hp' : nth_error (s_procs (set_deliv s (s_deliv s ++ ol (p_hand pr)))) p = Some pr) by exact Hp.
    setp_self x Hp'. rewrite tk_set_deliv in E. cbn [ol] in E. fin x.
  - (* IClose *)
    destruct arm; [discriminate|]. destruct (nth_error (s_chans s) ch) as [c|] eqn:Ec; inv H.
    + assert (Hp' : nth_error (s_procs (set_chans s (upd (s_chans s) ch (mkChan (c_buf c) (c_cap c) true)))) p = Some pr) by exact Hp.
      setp_self x Hp'. pose proof (tk_set_chans x s ch c (mkChan (c_buf c) (c_cap c) true) Ec) as E2. cbn [c_buf] in E2. fin x.
    + setp_self x Hp. fin x.
  - (* ICancel *)
    destruct arm; inv H. assert (Hp' : nth_error (s_procs (set_canc s (c :: s_canc s))) p = Some pr) by exact Hp.
    setp_self x Hp'. rewrite tk_set_canc in E. fin x.
  - (* ISpawn *)
    destruct arm; [discriminate|]. destruct (nth_error (s_procs s) q) as [qp|] eqn:Eq.
    + destruct (p_st qp) eqn:Est; inv H; try (setp_self x Hp; fin x).
      assert (p <> q) by (intros ->; rewrite Hp in Eq; inv Eq; congruence).
      assert (Hp' : nth_error (s_procs (start s N q qp (resolve pr g))) p = Some pr) by (rewrite procs_start_other; auto).
      setp_self x Hp'. rewrite (tk_start x s N q qp _ Eq) in E. fin x.
    + inv H. setp_self x Hp. fin x.
  - (* IGoOnce *)
    destruct arm; [discriminate|]. destruct (nth_error (s_procs s) q) as [qp|] eqn:Eq.
    + destruct (p_st qp) eqn:Est; inv H;
        try (assert (Hp' : nth_error (s_procs (set_oncew s (S (s_oncew s)))) p = Some pr) by exact Hp;
             setp_self x Hp'; rewrite tk_set_oncew in E; fin x).
      assert (p <> q) by (intros ->; rewrite Hp in Eq; inv Eq; congruence).
      assert (Hp' : nth_error (s_procs (start s N q qp (resolve pr g))) p = Some pr) by (rewrite procs_start_other; auto).
      setp_self x Hp'. rewrite (tk_start x s N q qp _ Eq) in E. fin x.
    + inv H. setp_self x Hp. fin x.
  - (* IWgWait *)
    destruct arm.
    + destruct g as [g'|]; [|discriminate]. destruct (cancelledb N s (resolve pr g')); inv H. setp_self x Hp. fin x.
    + destruct (s_wg s =? 0); inv H. setp_self x Hp. fin x.
  - (* ICheck *)
    destruct arm; inv H. setp_self x Hp. fin x.
  - (* IGoto *)
    destruct arm; inv H. setp_self x Hp. fin x.
  - (* IExit *)
    destruct arm; inv H.
    assert (Hp' : nth_error (s_procs (dropped (if d_wg d then set_wg s (pred (s_wg s)) else s) (p_hand pr))) p = Some pr)
      by (destruct (d_wg d); exact Hp).
    setp_self x Hp'. rewrite tk_dropped in E. cbn [ol] in E.
    assert (tk x (if d_wg d then set_wg s (pred (s_wg s)) else s) = tk x s) by (destruct (d_wg d); reflexivity). fin x.
Qed.

Lemma cur_instr_inv N s p pr d i :
  cur_instr N s p = Some (pr, d, i) ->
  nth_error (s_procs s) p = Some pr /\ nth_error (n_procs N) p = Some d /\ p_st pr = PRun /\ nth_error (d_prog d) (p_pc pr) = Some i.
Proof.
  unfold cur_instr. destruct (nth_error (s_procs s) p) as [pr'|]; [|discriminate].
  destruct (nth_error (n_procs N) p) as [d'|]; [|discriminate].
  destruct (p_st pr') eqn:E; try discriminate.
  destruct (nth_error (d_prog d') (p_pc pr')) eqn:E2; [|discriminate]. intros H; inv H. auto.
Qed.

Lemma step_tk N s l s' x : step N s l = Some s' -> tk x s' = tk x s.
Proof.
  intros H. destruct l; cbn [step] in H.
  - destruct (cur_instr N s p) as [[[pr d] i]|] eqn:Ec; [|discriminate].
    apply cur_instr_inv in Ec as (Hp & _ & Hr & _). eapply exec_tk; eauto.
  - destruct (p =? q) eqn:Epq; [discriminate|]. apply Nat.eqb_neq in Epq.
    destruct (cur_instr N s p) as [[[pr d] i]|] eqn:Ec; [|discriminate].
    destruct i; try discriminate.
    destruct (cur_instr N s q) as [[[qr dq] iq]|] eqn:Eq; [|discriminate].
    destruct iq; try discriminate.
    apply cur_instr_inv in Ec as (Hp & _ & _ & _). apply cur_instr_inv in Eq as (Hq & _ & _ & _).
    destruct (p_hand pr) as [v|] eqn:Eh; [|discriminate].
    destruct (nth_error (s_chans s) ch) as [c|]; [|discriminate].
    destruct ((ch =? ch0) && (c_cap c =? 0) && negb (c_closed c)); inv H.
    assert (Hp' : nth_error (s_procs (dropped s (p_hand qr))) p = Some pr) by exact Hp.
    pose proof (tk_setp x _ p pr (goto_h pr k_ok None) Hp') as E1. cbn [p_hand goto_h] in E1.
    assert (Hq' : nth_error (s_procs (setp (dropped s (p_hand qr)) p (goto_h pr k_ok None))) q = Some qr).
    { unfold setp, set_procs; prj. rewrite nth_error_upd_other; auto. }
    pose proof (tk_setp x _ q qr (goto_h qr k_item (Some v)) Hq') as E2. cbn [p_hand goto_h] in E2.
    rewrite tk_dropped in E1. rewrite Eh in E1. cbn [ol] in *. fin x.
  - destruct ((0 <? s_oncew s) && is_done s (n_once N)); inv H. apply tk_set_oncew.
  - inv H. reflexivity.
  - inv H. reflexivity.
  - destruct (nth_error (s_procs s) p) as [pr|] eqn:Hp; [|discriminate].
    destruct (nth_error (n_procs N) p) as [d|]; [|discriminate].
    destruct (d_user d && negb (d_wg d)); [|discriminate].
    destruct (p_st pr); inv H. rewrite tk_set_stopped.
    pose proof (tk_setp x s p pr (mkProc PAbandoned (p_pc pr) (p_hand pr) (p_ctx pr)) Hp) as E. cbn [p_hand] in E. lia.
Qed.

(* C01_conservation, for every network: each step permutes the tokens ... *)
Theorem step_conserves N s l s' : step N s l = Some s' -> Permutation (tokens s') (tokens s).
Proof. intros H. apply perm_of_cnt. intros x. rewrite !tk_tokens. eapply step_tk; eauto. Qed.

(* ... hence in every reachable state they are a permutation of the initial ones *)
Theorem reach_conserves N s0 s : reach N s0 s -> Permutation (tokens s) (tokens s0).
Proof.
  induction 1 as [|s l s' _ IH H]; [reflexivity|].
  etransitivity; [eapply step_conserves; eauto|exact IH].
Qed.

Lemma tokens_mk_init ps caps srcs :
  hands ps = [] -> tokens (mk_init ps caps srcs) = concat srcs.
Proof.
  intros H. unfold tokens, mk_init; prj. rewrite H. unfold bufs.
  assert (E : concat (map c_buf (map (fun c => mkChan [] c false) caps)) = []).
  { induction caps; simpl; auto. }
  rewrite E. simpl. now rewrite app_nil_r.
Qed.

Lemma hands_idles n : hands (idles n) = [].
Proof. induction n; simpl; auto. Qed.

Lemma hands_app a b : hands (a ++ b) = hands a ++ hands b.
Proof. unfold hands. now rewrite map_app, concat_app. Qed.

Lemma hands_none ps : (forall pr, In pr ps -> p_hand pr = None) -> hands ps = [].
Proof.
  induction ps as [|a ps IH]; intros H; [reflexivity|].
  unfold hands in *. simpl. rewrite (H a (or_introl eq_refl)). simpl. apply IH. intros; apply H; now right.
Qed.
