(* Proofs about the abstract specification [spec_step] (FIFO list + tracker + closed flag):
   invariant, FIFO conservation, exact and bounded length, admission rule, close semantics,
   "blocked / context error = no effect".  All for arbitrary operation lists. *)
From FunV Require Import Base.Tac Model.QueueHeap Proofs.QueueHeap_tracker.
Local Open Scope Z_scope.

Definition s_ok (s : qspec) : Prop :=
  t_ok (strk s) /\ t_len (strk s) = Z.of_nat (length (items s)).

Lemma spec_init_ok t : t_ok t -> t_len t = 0 -> s_ok (spec_init t).
Proof. intros A B. split; simpl; [assumption|lia]. Qed.

(* ---- generic facts about run_ops *)

Lemma run_ops_inv {S} (step : S -> qop -> S * qres) (P : S -> Prop) :
  (forall s o, P s -> P (fst (step s o))) -> forall ops s, P s -> P (fst (run_ops step s ops)).
Proof.
  intros H ops. induction ops as [|o ops IH]; intros s Ps; simpl; [assumption|].
  pose proof (H s o Ps) as Q. destruct (step s o) as [s' r]. simpl in Q.
  specialize (IH s' Q). destruct (run_ops step s' ops) as [s'' rs]. simpl in *. assumption.
Qed.

Lemma run_ops_app {S} (step : S -> qop -> S * qres) ops1 : forall ops2 s,
  run_ops step s (ops1 ++ ops2) =
    (fst (run_ops step (fst (run_ops step s ops1)) ops2),
     snd (run_ops step s ops1) ++ snd (run_ops step (fst (run_ops step s ops1)) ops2)).
Proof.
  induction ops1 as [|o ops1 IH]; intros ops2 s; simpl.
  - destruct (run_ops step s ops2); reflexivity.
  - destruct (step s o) as [s' r]. rewrite IH.
    destruct (run_ops step s' ops1) as [s1 rs1]; simpl.
    destruct (run_ops step s1 ops2) as [s2 rs2]; reflexivity.
Qed.

(* ---- tracker error kinds *)

Lemma t_add_err_cases t : snd (t_add t) = ENil \/ snd (t_add t) = EFull \/ snd (t_add t) = ENoCredit.
Proof.
  destruct t as [l|c l|sq hl l cr].
  - auto.
  - destruct (hard_add_cases c l); auto.
  - eapply quota_add_never_other. reflexivity.
Qed.

Lemma t_add_bound t : t_bound (fst (t_add t)) = t_bound t.
Proof.
  destruct t as [l|c l|sq hl l cr]; simpl; try reflexivity.
  - destruct (l >=? c); reflexivity.
  - destruct (l >=? sq); [|reflexivity]. destruct (l =? hl); [reflexivity|]. destruct (credit_lt_1 cr); reflexivity.
Qed.

Lemma t_remove_bound t : t_bound (t_remove t) = t_bound t.
Proof.
  destruct t as [l|c l|sq hl l cr]; simpl.
  - destruct (l =? 0); reflexivity.
  - destruct (l =? 0); reflexivity.
  - destruct (l - 1 <? sq); reflexivity.
Qed.

(* ---- the pieces of spec_step *)

Lemma s_add_spec s v :
  s_add s v =
    if sclosed s then (s, RErr EClosed)
    else match snd (t_add (strk s)) with
         | ENil => (mkS (items s ++ [v]) (fst (t_add (strk s))) false, RErr ENil)
         | e => (s, RErr e)
         end.
Proof.
  unfold s_add. destruct (sclosed s) eqn:C; [reflexivity|].
  pose proof (t_add_error_unchanged (strk s)) as U.
  destruct (t_add (strk s)) as [t' e]; simpl in *.
  destruct e; try reflexivity; rewrite U by discriminate; destruct s; simpl in *; subst; reflexivity.
Qed.

Lemma s_add_ok s v : s_ok s -> s_ok (fst (s_add s v)).
Proof.
  intros [A B]. rewrite s_add_spec. destruct (sclosed s); [split; assumption|].
  destruct (snd (t_add (strk s))) eqn:E; try (split; assumption).
  destruct (t_add_ok_len _ A E) as (A' & B' & _). split; simpl; [assumption|].
  rewrite B', B, app_length. simpl. lia.
Qed.

Lemma s_pop_nonempty s : s_ok s -> t_len (strk s) <> 0 ->
  exists v rest, items s = v :: rest /\ s_pop s = (mkS rest (t_remove (strk s)) (sclosed s), RItem v) /\
                 s_ok (mkS rest (t_remove (strk s)) (sclosed s)).
Proof.
  intros [A B] L. unfold s_pop. destruct (items s) as [|v rest] eqn:E; [simpl in B; lia|].
  exists v, rest. split; [reflexivity|]. split; [reflexivity|].
  pose proof (t_ok_len_nonneg _ A).
  destruct (t_remove_ok_len _ A) as (A' & B' & _); [lia|]. split; simpl; [assumption|].
  rewrite B', B. simpl length. lia.
Qed.

Ltac step_cases s o :=
  destruct o; simpl;
  repeat match goal with
         | |- context [if ?b then _ else _] => destruct b eqn:?
         end.

Lemma s_wait_ok s : s_ok s -> s_ok (fst (s_wait s)).
Proof.
  intros H. unfold s_wait. destruct (t_len (strk s) =? 0) eqn:L.
  - destruct (sclosed s); assumption.
  - destruct (s_pop_nonempty s H) as (v & rest & E & P & K); [lia|]. rewrite P. assumption.
Qed.

Lemma s_remove_ok s : s_ok s -> s_ok (fst (s_remove s)).
Proof.
  intros H. unfold s_remove. destruct (t_len (strk s) =? 0) eqn:L; [assumption|].
  destruct (s_pop_nonempty s H) as (v & rest & E & P & K); [lia|]. rewrite P. assumption.
Qed.

Lemma s_receive_eq_wait s : s_ok s ->
  (match s_remove s with (s', RNotOk) => s_wait s' | r => r end) = s_wait s.
Proof.
  intros H. unfold s_remove, s_wait. destruct (t_len (strk s) =? 0) eqn:L.
  - rewrite L. reflexivity.
  - destruct (s_pop_nonempty s H) as (v & rest & E & P & K); [lia|]. rewrite P. reflexivity.
Qed.

Lemma spec_step_ok s o : s_ok s -> s_ok (fst (spec_step s o)).
Proof.
  intros H. destruct o; simpl; try assumption.
  - apply s_add_ok; assumption.
  - destruct (sclosed s); [assumption|]. destruct (t_cap (strk s) >? t_len (strk s)); [apply s_add_ok|]; assumption.
  - apply s_remove_ok; assumption.
  - apply s_wait_ok; assumption.
  - apply s_add_ok; assumption.
  - rewrite s_receive_eq_wait by assumption. apply s_wait_ok; assumption.
Qed.

Lemma spec_run_ok ops s : s_ok s -> s_ok (fst (run_ops spec_step s ops)).
Proof. apply run_ops_inv. intros; apply spec_step_ok; assumption. Qed.

(* Receive behaves as Wait *)
Lemma spec_receive_is_wait s : s_ok s -> spec_step s OReceive = spec_step s OWait.
Proof. intros H. simpl. apply s_receive_eq_wait. assumption. Qed.

(* ---- results that never occur / that mean "nothing happened" *)

Lemma s_add_res s v : exists e, snd (s_add s v) = RErr e /\ e <> ECtx.
Proof.
  rewrite s_add_spec. destruct (sclosed s); [exists EClosed; split; [reflexivity|discriminate]|].
  destruct (t_add_err_cases (strk s)) as [E|[E|E]]; rewrite E; simpl; eexists; split; try reflexivity; discriminate.
Qed.

Lemma spec_step_not_ctx s o : s_ok s -> snd (spec_step s o) <> cancelled.
Proof.
  intros H. unfold cancelled. destruct o; simpl.
  - destruct (s_add_res s v) as (e & E & N). rewrite E. congruence.
  - destruct (sclosed s); [discriminate|]. destruct (t_cap (strk s) >? t_len (strk s)); [|discriminate].
    destruct (s_add_res s v) as (e & E & N). rewrite E. congruence.
  - unfold s_remove. destruct (t_len (strk s) =? 0) eqn:L; [discriminate|].
    destruct (s_pop_nonempty s H) as (v & rest & E & P & K); [lia|]. rewrite P. discriminate.
  - unfold s_wait. destruct (t_len (strk s) =? 0) eqn:L; [destruct (sclosed s); discriminate|].
    destruct (s_pop_nonempty s H) as (v & rest & E & P & K); [lia|]. rewrite P. discriminate.
  - discriminate.
  - discriminate.
  - destruct (s_add_res s v) as (e & E & N). rewrite E. congruence.
  - rewrite s_receive_eq_wait by assumption.
    unfold s_wait. destruct (t_len (strk s) =? 0) eqn:L; [destruct (sclosed s); discriminate|].
    destruct (s_pop_nonempty s H) as (v & rest & E & P & K); [lia|]. rewrite P. discriminate.
  - discriminate.
Qed.

Lemma spec_step_no_panic s o : s_ok s -> snd (spec_step s o) <> RPanic.
Proof.
  intros H. destruct o; simpl.
  - destruct (s_add_res s v) as (e & E & N). rewrite E. discriminate.
  - destruct (sclosed s); [discriminate|]. destruct (t_cap (strk s) >? t_len (strk s)); [|discriminate].
    destruct (s_add_res s v) as (e & E & N). rewrite E. discriminate.
  - unfold s_remove. destruct (t_len (strk s) =? 0) eqn:L; [discriminate|].
    destruct (s_pop_nonempty s H) as (v & rest & E & P & K); [lia|]. rewrite P. discriminate.
  - unfold s_wait. destruct (t_len (strk s) =? 0) eqn:L; [destruct (sclosed s); discriminate|].
    destruct (s_pop_nonempty s H) as (v & rest & E & P & K); [lia|]. rewrite P. discriminate.
  - discriminate.
  - discriminate.
  - destruct (s_add_res s v) as (e & E & N). rewrite E. discriminate.
  - rewrite s_receive_eq_wait by assumption.
    unfold s_wait. destruct (t_len (strk s) =? 0) eqn:L; [destruct (sclosed s); discriminate|].
    destruct (s_pop_nonempty s H) as (v & rest & E & P & K); [lia|]. rewrite P. discriminate.
  - discriminate.
Qed.

(* a blocked attempt changes nothing, and only BlockingAdd / Wait / Receive can block *)
Lemma spec_step_blocked s o : s_ok s -> is_blocked (snd (spec_step s o)) = true ->
  fst (spec_step s o) = s /\
  match o with
  | OBlockingAdd _ => sclosed s = false /\ t_cap (strk s) <= t_len (strk s)
  | OWait | OReceive => sclosed s = false /\ items s = []
  | _ => False
  end.
Proof.
  intros H. pose proof H as [A B]. destruct o; simpl.
  - destruct (s_add_res s v) as (e & E & N). rewrite E. discriminate.
  - destruct (sclosed s); [discriminate|]. destruct (t_cap (strk s) >? t_len (strk s)) eqn:C.
    + destruct (s_add_res s v) as (e & E & N). rewrite E. discriminate.
    + intros _. split; [reflexivity|]. split; [reflexivity|lia].
  - unfold s_remove. destruct (t_len (strk s) =? 0) eqn:L; [discriminate|].
    destruct (s_pop_nonempty s H) as (v & rest & E & P & K); [lia|]. rewrite P. discriminate.
  - unfold s_wait. destruct (t_len (strk s) =? 0) eqn:L.
    + destruct (sclosed s); [discriminate|]. intros _. split; [reflexivity|]. split; [reflexivity|].
      destruct (items s); [reflexivity|simpl in B; lia].
    + destruct (s_pop_nonempty s H) as (v & rest & E & P & K); [lia|]. rewrite P. discriminate.
  - discriminate.
  - discriminate.
  - destruct (s_add_res s v) as (e & E & N). rewrite E. discriminate.
  - rewrite s_receive_eq_wait by assumption.
    unfold s_wait. destruct (t_len (strk s) =? 0) eqn:L.
    + destruct (sclosed s); [discriminate|]. intros _. split; [reflexivity|]. split; [reflexivity|].
      destruct (items s); [reflexivity|simpl in B; lia].
    + destruct (s_pop_nonempty s H) as (v & rest & E & P & K); [lia|]. rewrite P. discriminate.
  - discriminate.
Qed.

(* try-form: a context error has no effect, and it is reported exactly when the attempt blocks *)
Lemma try_of_ctx {S} (step : S -> qop -> S * qres) s o :
  snd (step s o) <> cancelled ->
  (snd (try_of step s o) = cancelled <-> is_blocked (snd (step s o)) = true) /\
  (snd (try_of step s o) = cancelled -> fst (try_of step s o) = s) /\
  (is_blocked (snd (step s o)) = false -> try_of step s o = step s o).
Proof.
  intros N. unfold try_of. destruct (step s o) as [s' r]; simpl in *.
  destruct (is_blocked r) eqn:B; simpl.
  - split; [tauto|]. split; [reflexivity|discriminate].
  - split; [split; [congruence|discriminate]|]. split; [congruence|reflexivity].
Qed.

(* ---- FIFO conservation: taken ++ still queued = initially queued ++ accepted, in order *)

Definition taken1 (r : qres) : list Z := match r with RItem v => [v] | _ => [] end.

Definition added1 (o : qop) (r : qres) : list Z :=
  match o, r with
  | OAdd v, RErr ENil | OBlockingAdd v, RErr ENil | OSend v, RErr ENil => [v]
  | _, _ => []
  end.

Fixpoint taken (rs : list qres) : list Z :=
  match rs with [] => [] | r :: rs' => taken1 r ++ taken rs' end.

Fixpoint added (ops : list qop) (rs : list qres) : list Z :=
  match ops, rs with
  | o :: ops', r :: rs' => added1 o r ++ added ops' rs'
  | _, _ => []
  end.

Lemma s_add_fifo s v o : (o = OAdd v \/ o = OBlockingAdd v \/ o = OSend v) ->
  taken1 (snd (s_add s v)) ++ items (fst (s_add s v)) = items s ++ added1 o (snd (s_add s v)).
Proof.
  intros Ho. rewrite s_add_spec. destruct (sclosed s).
  - simpl. destruct Ho as [E|[E|E]]; subst o; simpl; rewrite app_nil_r; reflexivity.
  - destruct (snd (t_add (strk s))); simpl; destruct Ho as [E|[E|E]]; subst o; simpl;
      rewrite ?app_nil_r; reflexivity.
Qed.

Lemma s_pop_fifo s o : (o = ORemove \/ o = OWait \/ o = OReceive) ->
  taken1 (snd (s_pop s)) ++ items (fst (s_pop s)) = items s ++ added1 o (snd (s_pop s)).
Proof.
  intros Ho. unfold s_pop. destruct (items s) as [|v rest] eqn:E; simpl.
  - rewrite E. destruct Ho as [X|[X|X]]; subst o; reflexivity.
  - destruct Ho as [X|[X|X]]; subst o; simpl; rewrite app_nil_r; reflexivity.
Qed.

Lemma s_wait_fifo s o : (o = ORemove \/ o = OWait \/ o = OReceive) ->
  taken1 (snd (s_wait s)) ++ items (fst (s_wait s)) = items s ++ added1 o (snd (s_wait s)).
Proof.
  intros Ho. unfold s_wait. destruct (t_len (strk s) =? 0).
  - destruct (sclosed s); simpl; destruct Ho as [X|[X|X]]; subst o; simpl; rewrite app_nil_r; reflexivity.
  - apply s_pop_fifo. assumption.
Qed.

Lemma s_remove_fifo s o : (o = ORemove \/ o = OWait \/ o = OReceive) ->
  taken1 (snd (s_remove s)) ++ items (fst (s_remove s)) = items s ++ added1 o (snd (s_remove s)).
Proof.
  intros Ho. unfold s_remove. destruct (t_len (strk s) =? 0).
  - simpl; destruct Ho as [X|[X|X]]; subst o; simpl; rewrite app_nil_r; reflexivity.
  - apply s_pop_fifo. assumption.
Qed.

Lemma spec_step_fifo s o : s_ok s ->
  taken1 (snd (spec_step s o)) ++ items (fst (spec_step s o)) = items s ++ added1 o (snd (spec_step s o)).
Proof.
  intros H. destruct o.
  - exact (s_add_fifo s v (OAdd v) ltac:(auto)).
  - change (spec_step s (OBlockingAdd v)) with
      (if sclosed s then (s, RErr EClosed)
       else if t_cap (strk s) >? t_len (strk s) then s_add s v else (s, RBlocked)).
    destruct (sclosed s); [simpl; rewrite app_nil_r; reflexivity|].
    destruct (t_cap (strk s) >? t_len (strk s)); [|simpl; rewrite app_nil_r; reflexivity].
    exact (s_add_fifo s v (OBlockingAdd v) ltac:(auto)).
  - exact (s_remove_fifo s ORemove ltac:(auto)).
  - exact (s_wait_fifo s OWait ltac:(auto)).
  - simpl; rewrite app_nil_r; reflexivity.
  - simpl; rewrite app_nil_r; reflexivity.
  - exact (s_add_fifo s v (OSend v) ltac:(auto)).
  - change (spec_step s OReceive) with (match s_remove s with (s', RNotOk) => s_wait s' | r => r end).
    rewrite s_receive_eq_wait by assumption. exact (s_wait_fifo s OReceive ltac:(auto)).
  - simpl; rewrite app_nil_r; reflexivity.
Qed.

Lemma spec_run_fifo ops : forall s, s_ok s ->
  let (s', rs) := run_ops spec_step s ops in taken rs ++ items s' = items s ++ added ops rs.
Proof.
  induction ops as [|o ops IH]; intros s H; simpl.
  - rewrite app_nil_r. reflexivity.
  - pose proof (spec_step_fifo s o H) as F. pose proof (spec_step_ok s o H) as K.
    destruct (spec_step s o) as [s1 r]; simpl in *.
    specialize (IH s1 K). destruct (run_ops spec_step s1 ops) as [s2 rs]. simpl.
    rewrite <- app_assoc, IH, app_assoc, F, <- app_assoc. reflexivity.
Qed.

(* ---- length *)

Lemma spec_len_exact s : s_ok s ->
  spec_step s OLen = (s, RLen (Z.of_nat (length (items s)))) /\
  spec_step s ODLen = (s, RLen (Z.of_nat (length (items s)))).
Proof. intros [A B]. simpl. rewrite B. split; reflexivity. Qed.

Lemma spec_len_bounded s b : s_ok s -> t_bound (strk s) = Some b -> Z.of_nat (length (items s)) <= b.
Proof. intros [A B] E. rewrite <- B. eapply t_ok_len_bound; eassumption. Qed.

Lemma spec_step_bound s o : t_bound (strk (fst (spec_step s o))) = t_bound (strk s).
Proof.
  assert (PA : forall v, t_bound (strk (fst (s_add s v))) = t_bound (strk s)).
  { intros v. rewrite s_add_spec. destruct (sclosed s); [reflexivity|].
    destruct (snd (t_add (strk s))); simpl; try reflexivity. apply t_add_bound. }
  assert (PP : forall s, t_bound (strk (fst (s_pop s))) = t_bound (strk s)).
  { intros s0. unfold s_pop. destruct (items s0); simpl; [reflexivity|apply t_remove_bound]. }
  assert (PW : forall s, t_bound (strk (fst (s_wait s))) = t_bound (strk s)).
  { intros s0. unfold s_wait. destruct (t_len (strk s0) =? 0); [destruct (sclosed s0); reflexivity|apply PP]. }
  destruct o; simpl; try reflexivity; try apply PA; try apply PW.
  - destruct (sclosed s); [reflexivity|]. destruct (t_cap (strk s) >? t_len (strk s)); [apply PA|reflexivity].
  - unfold s_remove. destruct (t_len (strk s) =? 0); [reflexivity|apply PP].
  - unfold s_remove. destruct (t_len (strk s) =? 0) eqn:L.
    + apply PW.
    + unfold s_pop. destruct (items s); simpl; [reflexivity|apply t_remove_bound].
Qed.

(* ---- admission rule of Add (and Send) *)

Definition s_add_rule (s : qspec) : qerr := if sclosed s then EClosed else t_add_rule (strk s).

Lemma spec_add_rule s v : s_ok s ->
  snd (spec_step s (OAdd v)) = RErr (s_add_rule s) /\
  snd (spec_step s (OSend v)) = RErr (s_add_rule s) /\
  (s_add_rule s <> ENil -> fst (spec_step s (OAdd v)) = s /\ fst (spec_step s (OSend v)) = s) /\
  (s_add_rule s = ENil -> items (fst (spec_step s (OAdd v))) = items s ++ [v]).
Proof.
  intros [A B]. simpl. rewrite s_add_spec. unfold s_add_rule.
  destruct (sclosed s); [repeat split; congruence|].
  rewrite <- (t_add_rule_correct _ A).
  destruct (snd (t_add (strk s))); simpl; repeat split; congruence.
Qed.

(* BlockingAdd: closed first, then the code's wait predicate cap() > len(), then Add's rule *)
Lemma spec_blocking_add s v : s_ok s ->
  spec_step s (OBlockingAdd v) =
    if sclosed s then (s, RErr EClosed)
    else if t_cap (strk s) >? t_len (strk s) then spec_step s (OAdd v) else (s, RBlocked).
Proof. reflexivity. Qed.

(* ---- close *)

Lemma spec_closed_monotone s o : sclosed s = true -> sclosed (fst (spec_step s o)) = true.
Proof.
  intros C.
  assert (PA : forall v, sclosed (fst (s_add s v)) = true) by (intros v; unfold s_add; rewrite C; assumption).
  assert (PP : forall s, sclosed s = true -> sclosed (fst (s_pop s)) = true).
  { intros s0 C0. unfold s_pop. destruct (items s0); simpl; assumption. }
  assert (PW : forall s, sclosed s = true -> sclosed (fst (s_wait s)) = true).
  { intros s0 C0. unfold s_wait. destruct (t_len (strk s0) =? 0); [rewrite C0; assumption|apply PP; assumption]. }
  assert (PR : sclosed (fst (s_remove s)) = true).
  { unfold s_remove. destruct (t_len (strk s) =? 0); [assumption|apply PP; assumption]. }
  destruct o.
  - apply PA.
  - simpl. rewrite C. assumption.
  - exact PR.
  - apply PW; assumption.
  - assumption.
  - reflexivity.
  - apply PA.
  - change (spec_step s OReceive) with (match s_remove s with (s', RNotOk) => s_wait s' | r => r end).
    destruct (s_remove s) as [s' r] eqn:E. simpl in PR.
    destruct r; try assumption. apply PW. assumption.
  - assumption.
Qed.

Lemma spec_close s : spec_step s OClose = (mkS (items s) (strk s) true, RErr ENil).
Proof. reflexivity. Qed.

Lemma spec_closed_adds_fail s v : sclosed s = true ->
  spec_step s (OAdd v) = (s, RErr EClosed) /\ spec_step s (OBlockingAdd v) = (s, RErr EClosed) /\
  spec_step s (OSend v) = (s, RErr EClosed).
Proof. intros C. simpl. unfold s_add. rewrite C. auto. Qed.

(* items stay removable whether or not the queue is closed; Remove/Wait/Receive hand out the oldest *)
Lemma spec_take_front s v rest : s_ok s -> items s = v :: rest ->
  let s' := mkS rest (t_remove (strk s)) (sclosed s) in
  spec_step s ORemove = (s', RItem v) /\ spec_step s OWait = (s', RItem v) /\ spec_step s OReceive = (s', RItem v).
Proof.
  intros H E. pose proof H as [A B]. rewrite E in B. simpl length in B.
  destruct (s_pop_nonempty s H) as (v' & rest' & E' & P & K); [lia|].
  rewrite E in E'. inv E'.
  assert (W : s_wait s = (mkS rest' (t_remove (strk s)) (sclosed s), RItem v')).
  { unfold s_wait. replace (t_len (strk s) =? 0) with false by lia. assumption. }
  simpl. split; [|split].
  - unfold s_remove. replace (t_len (strk s) =? 0) with false by lia. assumption.
  - assumption.
  - rewrite s_receive_eq_wait by assumption. assumption.
Qed.

Lemma spec_take_empty s : s_ok s -> items s = [] ->
  spec_step s ORemove = (s, RNotOk) /\
  spec_step s OWait = (s, if sclosed s then RErr EClosed else RBlocked) /\
  spec_step s OReceive = (s, if sclosed s then RErr EClosed else RBlocked).
Proof.
  intros H E. pose proof H as [A B]. rewrite E in B. simpl in B.
  assert (W : s_wait s = (s, if sclosed s then RErr EClosed else RBlocked)).
  { unfold s_wait. replace (t_len (strk s) =? 0) with true by lia. destruct (sclosed s); reflexivity. }
  simpl. split; [|split].
  - unfold s_remove. replace (t_len (strk s) =? 0) with true by lia. reflexivity.
  - assumption.
  - rewrite s_receive_eq_wait by assumption. assumption.
Qed.

(* ---- non-vacuity: a concrete run exercising credit, the hard limit, close and the drain *)
Example spec_example :
  match validate_opts 3 1 (PrimFloat.div f_one (z2f 2)) with
  | Some t =>
      snd (run_ops spec_try (spec_init t)
             [OAdd 1; OAdd 2; ORemove; OAdd 3; OAdd 4; OBlockingAdd 5; OLen; OClose; OAdd 6; OWait; OWait; OWait; OWait]) =
        [RErr ENil; RErr ENoCredit; RItem 1; RErr ENil; RErr ENil; RErr ECtx; RLen 2; RErr ENil;
         RErr EClosed; RItem 3; RItem 4; RErr EClosed; RErr EClosed]
  | None => False
  end.
Proof. vm_compute. reflexivity. Qed.
