(* C11 - soundness of the four log acceptors: an accepted log of observable events is the observable
   projection of a genuine trace of the transition system (so every theorem about reachable states
   applies to the states that trace goes through). *)
From FunV Require Import Base.Tac Model.OrchestratorModel Proofs.Orchestrator_base.

Section Generic.
Context {St Ev : Type}.
Variable step : St -> Ev -> option St.
Variable obs : Ev -> bool.

Lemma run_plan_internal fuel next s :
  (forall s e, next s = Some e -> obs e = false) ->
  exists tr, run step s tr = Some (run_plan step fuel next s) /\ filter obs tr = [].
Proof.
  intros Hn. revert s. induction fuel as [|f IH]; intros s; simpl.
  - exists []. auto.
  - destruct (next s) as [e|] eqn:N; [|exists []; auto].
    destruct (step s e) as [s'|] eqn:E; [|exists []; auto].
    destruct (IH s') as (tr & Htr & Hf). exists (e :: tr). simpl. rewrite E, (Hn _ _ N). auto.
Qed.

Variable fuel_of : St -> list Ev -> nat.
Variable next : list Ev -> St -> option Ev.
Hypothesis next_internal : forall rest s e, next rest s = Some e -> obs e = false.

Fixpoint gen_accepts (s : St) (log : list Ev) : bool :=
  match log with
  | [] => true
  | e :: rest =>
      match step (run_plan step (fuel_of s log) (next log) s) e with
      | Some s2 => gen_accepts s2 rest
      | None => false
      end
  end.

Lemma gen_accepts_sound log : forall s,
  forallb obs log = true -> gen_accepts s log = true ->
  exists tr s', run step s tr = Some s' /\ filter obs tr = log.
Proof.
  induction log as [|e rest IH]; intros s Ho Ha.
  - exists [], s. auto.
  - simpl in Ho. apply andb_true_iff in Ho. destruct Ho as [Oe Or]. simpl in Ha.
    destruct (run_plan_internal (fuel_of s (e :: rest)) (next (e :: rest)) s (next_internal (e :: rest)))
      as (tr1 & H1 & F1).
    destruct (step (run_plan step (fuel_of s (e :: rest)) (next (e :: rest)) s) e) as [s2|] eqn:E; [|discriminate].
    destruct (IH s2 Or Ha) as (tr2 & s' & H2 & F2).
    exists (tr1 ++ e :: tr2), s'. split.
    + rewrite run_app, H1. simpl. rewrite E. exact H2.
    + rewrite filter_app, F1. simpl. rewrite Oe, F2. reflexivity.
Qed.
End Generic.

Ltac next_internal_tac next :=
  intros rest s e H; unfold next in H;
  repeat match type of H with
         | context [match ?c with _ => _ end] => destruct c; try discriminate H
         | context [if ?c then _ else _] => destruct c; try discriminate H
         end;
  inversion H; reflexivity.

Lemma orch_accepts_sound oc log :
  Orch.accepts oc log = true ->
  exists tr s, run (Orch.step oc) Orch.init tr = Some s /\ filter Orch.observable tr = log.
Proof.
  unfold Orch.accepts. intros H. apply andb_true_iff in H. destruct H as [Ho Ha].
  apply (gen_accepts_sound (Orch.step oc) Orch.observable Orch.fuel_of (Orch.next oc)); auto.
  next_internal_tac Orch.next.
Qed.

Lemma group_accepts_sound n oc log :
  Grp.accepts n oc log = true ->
  exists tr s, run (Grp.step n oc) Grp.init tr = Some s /\ filter Grp.observable tr = log.
Proof.
  unfold Grp.accepts. intros H. apply andb_true_iff in H. destruct H as [Ho Ha].
  apply (gen_accepts_sound (Grp.step n oc) Grp.observable (Grp.fuel_of n) (Grp.next n)); auto.
  next_internal_tac Grp.next.
Qed.

Ltac destr_all H :=
  repeat match type of H with
         | context [match ?c with _ => _ end] => destruct c; try discriminate H
         | context [if ?c then _ else _] => destruct c; try discriminate H
         end.

Lemma pool_next_internal rest s e : Pool.next rest s = Some e -> Pool.observable e = false.
Proof. intros H. unfold Pool.next in H. destr_all H; inversion H; reflexivity. Qed.

Lemma pool_next_end_internal cf rest s e : Pool.next_end cf rest s = Some e -> Pool.observable e = false.
Proof.
  intros H. unfold Pool.next_end in H.
  destruct (Pool.next rest s) eqn:N; [inversion H; subst; eapply pool_next_internal; eauto|].
  destr_all H; inversion H; reflexivity.
Qed.

Lemma pool_plan_internal cf oc rest s e : Pool.plan cf oc rest s = Some e -> Pool.observable e = false.
Proof.
  intros H. unfold Pool.plan in H.
  destruct rest as [|e1 rest1]; [eapply pool_next_internal; eauto|].
  destruct e1; try (eapply pool_next_internal; eauto; fail); try (eapply pool_next_end_internal; eauto; fail).
  - destruct (Pool.closed s || Pool.bounded cf); [eapply pool_next_internal; eauto|].
    destruct (Pool.cancelled s); [inversion H; reflexivity|eapply pool_next_end_internal; eauto].
  - destruct (blocking (oc j) && negb (Pool.cancelled s || Pool.icancel s) && Pool.aborted s);
      [inversion H; reflexivity|eapply pool_next_internal; eauto].
Qed.

Lemma pool_accepts_sound cf oc log :
  Pool.accepts cf oc log = true ->
  exists tr s, run (Pool.step cf oc) Pool.init tr = Some s /\ filter Pool.observable tr = log.
Proof.
  unfold Pool.accepts. intros H. apply andb_true_iff in H. destruct H as [Ho Ha].
  apply (gen_accepts_sound (Pool.step cf oc) Pool.observable (Pool.fuel_of cf) (Pool.plan cf oc)); auto.
  intros; eapply pool_plan_internal; eauto.
Qed.

Lemma cleanup_accepts_sound oc log :
  Cln.accepts oc log = true ->
  exists tr s, run (Cln.step oc) Cln.init tr = Some s /\ filter Cln.observable tr = log.
Proof.
  unfold Cln.accepts. intros H. apply andb_true_iff in H. destruct H as [Ho Ha].
  apply (gen_accepts_sound (Cln.step oc) Cln.observable Cln.fuel_of (Cln.next)); auto.
  next_internal_tac Cln.next.
Qed.
