(* C15 — adt.Once (Do / Resolve / Called): a Do or Resolve return step is enabled only after the body's completion step. *)
From FunV Require Import Base.Tac Model.LaunchNet Proofs.Wrappers_lock Proofs.Wrappers_once_net.
Local Open Scope Z_scope.

Definition a_inb (p : apc) : bool := match p with AInBody _ | AMarked _ | AWrote _ => true | _ => false end.
Definition a_in (p : apc) : Prop := a_inb p = true.

Record ainv (R : Z) (s : astate) : Prop := {
  ai_in : forall t, a_in (a_pc s t) -> a_running s = true;
  ai_rd : a_running s = true -> a_done s = false;
  ai_uniq : forall t1 t2, a_in (a_pc s t1) -> a_in (a_pc s t2) -> t1 = t2;
  ai_free : a_running s = false -> forall t, ~ a_in (a_pc s t);
  ai_execs : a_execs s = if a_running s || a_done s then 1%nat else 0%nat;
  ai_comp : a_done s = true -> a_comp s = R;
  ai_wrote : forall t r, a_pc s t = AWrote r -> a_comp s = R;
  ai_after : forall t r, a_pc s t = AAfter r -> a_done s = true;
  ai_retd : forall t, a_pc s t = ADoneDo -> a_done s = true;
  ai_retr : forall t v, a_pc s t = ADoneRes v -> a_done s = true /\ v = R
}.

Ltac acrush :=
  intros; unfold a_in in *;
  repeat match goal with
  | H : context [upd _ ?t _ ?x] |- _ => upd_cases x t
  | |- context [upd _ ?t _ ?x] => upd_cases x t
  end;
  simpl in *;
  try solve [eauto | intuition (try discriminate; try congruence; eauto)].

Lemma ainv_init R : ainv R ainit.
Proof. constructor; simpl; acrush. Qed.

Ltac afin Iin Iuq Ifr Iex Iaf Irtd Irtr T :=
  try solve [ exact (Iin _ T)
            | apply Iuq; assumption
            | symmetry; apply Iuq; assumption
            | exfalso; eapply Ifr; eauto
            | intro; eapply Ifr; eauto
            | rewrite Iex; repeat match goal with H : _ = _ |- _ => rewrite H end; reflexivity
            | rewrite Iex, (Iin _ T); reflexivity
            | match goal with H : a_pc _ _ = AAfter _ |- _ => pose proof (Iaf _ _ H); congruence end
            | match goal with H : a_pc _ _ = ADoneDo |- _ => pose proof (Irtd _ H); congruence end
            | match goal with H : a_pc _ _ = ADoneRes _ |- _ => destruct (Irtr _ _ H); first [congruence | split; congruence] end ].

Lemma ainv_step R s l s' : ainv R s -> astep_exec false R s l = Some s' -> ainv R s'.
Proof.
  intros I H. destruct I as [Iin Ird Iuq Ifr Iex Ico Iwr Iaf Irtd Irtr].
  destruct l as [t|t|t|t|t|t|t|t|t]; simpl in H; destruct (a_pc s t) as [|r|r|r|r|r| |v] eqn:Pt; try discriminate;
    try (assert (T : a_inb (a_pc s t) = true) by (rewrite Pt; reflexivity)).
  - inv H. constructor; simpl; acrush. all: afin Iin Iuq Ifr Iex Iaf Irtd Irtr T.
  - inv H. constructor; simpl; acrush. all: afin Iin Iuq Ifr Iex Iaf Irtd Irtr T.
  - destruct (negb (a_done s) && negb (a_running s)) eqn:E; inv H.
    apply andb_prop in E. destruct E as [E2 E3]. apply negb_true_iff in E2. apply negb_true_iff in E3.
    constructor; simpl; acrush. all: afin Iin Iuq Ifr Iex Iaf Irtd Irtr T.
  - inv H. constructor; simpl; acrush. all: afin Iin Iuq Ifr Iex Iaf Irtd Irtr T.
  - inv H. constructor; simpl; acrush. all: afin Iin Iuq Ifr Iex Iaf Irtd Irtr T.
  - inv H. constructor; simpl; acrush. all: afin Iin Iuq Ifr Iex Iaf Irtd Irtr T.
  - destruct (a_done s) eqn:D; inv H. constructor; simpl; acrush. all: afin Iin Iuq Ifr Iex Iaf Irtd Irtr T.
  - destruct r; discriminate.
  - destruct r; inv H; constructor; simpl; acrush; afin Iin Iuq Ifr Iex Iaf Irtd Irtr T.
    inv H. pose proof (Iaf _ _ Pt). auto.
Qed.

Lemma ainv_reach R s : areach false R s -> ainv R s.
Proof. induction 1; eauto using ainv_init, ainv_step. Qed.

(* adt.Once as written: in every reachable state (any number of Do and Resolve callers, any interleaving) a caller that
   has returned from Do or Resolve did so after the single execution of the constructor had finished; the constructor
   ran exactly once; Resolve returned its result.  (`called` may be true much earlier: it is set before the
   constructor runs, and nothing waits on it.) *)
Theorem adt_once_do_waits_proof R s : areach false R s ->
  (a_execs s <= 1)%nat /\
  (forall t, a_pc s t = ADoneDo -> a_done s = true /\ a_execs s = 1%nat) /\
  (forall t v, a_pc s t = ADoneRes v -> a_done s = true /\ a_execs s = 1%nat /\ v = R).
Proof.
  intros Hr. apply ainv_reach in Hr. destruct Hr as [Iin Ird Iuq Ifr Iex Ico Iwr Iaf Irtd Irtr].
  split; [rewrite Iex; destruct (a_running s || a_done s); lia|]. split.
  - intros t P. pose proof (Irtd t P) as D. split; [exact D|]. rewrite Iex, D, orb_true_r. reflexivity.
  - intros t v P. destruct (Irtr t v P) as [D V]. repeat split; auto. rewrite Iex, D, orb_true_r. reflexivity.
Qed.

(* while the constructor is running, neither return path of a Do/Resolve caller is enabled, although Called() is true *)
Lemma adt_once_blocked_while_running R s t r : areach false R s -> a_running s = true -> a_pc s t = ACalled r ->
  astep_exec false R s (APass t) = None /\ astep_exec false R s (AFast t) = None /\ astep_exec false R s (AEnter t) = None.
Proof.
  intros Hr Run Pc. apply ainv_reach in Hr. simpl. rewrite Pc. rewrite (ai_rd R s Hr Run), Run. simpl.
  repeat split; destruct r; reflexivity.
Qed.

(* with an `if o.Called() { return }` fast path in front of the sync.Once the property is false: caller 2's Do returns
   while caller 1 is still inside the constructor *)
Definition adt_fast_labels : list alabel := [ACallDo 1; AEnter 1; AMark 1; ACallDo 2; AFast 2].
Definition adt_fast_state : astate :=
  match steps (astep_exec true 7) ainit adt_fast_labels with Some s => s | None => ainit end.

Lemma areach_steps fast R ls : forall s s', areach fast R s -> steps (astep_exec fast R) s ls = Some s' -> areach fast R s'.
Proof.
  induction ls as [|l ls IH]; intros s s' Hr H; simpl in H; [now inv H|].
  destruct (astep_exec fast R s l) eqn:E; [|discriminate]. eapply IH; [|exact H]. eapply areach_step; eauto.
Qed.

Theorem adt_once_fast_path_refuted :
  areach true 7 adt_fast_state /\ a_pc adt_fast_state 2 = ADoneDo /\ a_done adt_fast_state = false /\
  a_pc adt_fast_state 1 = AMarked false.
Proof.
  split.
  - apply (areach_steps true 7 adt_fast_labels ainit); [apply areach_init|]. vm_compute. reflexivity.
  - repeat split; vm_compute; reflexivity.
Qed.

(* non-vacuity: a Do caller runs the constructor, a Resolve caller and a second Do caller wait and return afterwards *)
Definition adt_example_labels : list alabel :=
  [ACallDo 1; AEnter 1; AMark 1; ACallRes 2; ACallDo 3; ABodyEnd 1; ADoEnd 1; APass 2; ARet 2; APass 3; ARet 3; ARet 1].
Definition adt_example_state : astate :=
  match steps (astep_exec false 7) ainit adt_example_labels with Some s => s | None => ainit end.

Example adt_once_nonvacuous :
  areach false 7 adt_example_state /\ a_pc adt_example_state 1 = ADoneDo /\ a_pc adt_example_state 2 = ADoneRes 7 /\
  a_pc adt_example_state 3 = ADoneDo /\ a_execs adt_example_state = 1%nat.
Proof.
  split.
  - apply (areach_steps false 7 adt_example_labels ainit); [apply areach_init|]. vm_compute. reflexivity.
  - repeat split; vm_compute; reflexivity.
Qed.

(* the adt.Once replay only takes steps of the net *)
Theorem adt_replay_sound R res evs s : replay (adt_tr R res) ainit evs = Some s -> areach false R s.
Proof.
  revert s. assert (G : forall evs s0 s, areach false R s0 -> replay (adt_tr R res) s0 evs = Some s -> areach false R s).
  { induction evs0 as [|e evs0 IH]; intros s0 s Hr H; simpl in H; [now inv H|].
    destruct (adt_tr R res s0 e) as [s1|] eqn:E; [|discriminate]. eapply IH; [|exact H].
    clear H IH. destruct e as [t|t|t v|t v|t]; unfold adt_tr in E; [| | | |discriminate].
    - eapply areach_step; eauto.
    - eapply areach_steps; eauto.
    - eapply areach_steps; eauto.
    - remember (match a_pc s0 t with
                | ACalled _ => steps (astep_exec false R) s0 [APass t; ARet t]
                | _ => astep_exec false R s0 (ARet t)
                end) as X eqn:EX.
      destruct X as [s2|]; [|discriminate].
      assert (R2 : areach false R s2).
      { symmetry in EX. destruct (a_pc s0 t); first [solve [eapply areach_step; eauto] | solve [eapply areach_steps; eauto]]. }
      destruct (a_pc s2 t); try discriminate.
      + inv E. exact R2.
      + destruct (_ =? _); inv E. exact R2. }
  intros s. apply G. apply areach_init.
Qed.

