(* C15 — adt.Once (Do / Resolve / Called): a Do or Resolve return step is enabled only after the body's completion step. *)
From FunV Require Import Base.Tac Model.LaunchNet Proofs.Wrappers_lock Proofs.Wrappers_once_net.
Local Open Scope Z_scope.

Definition a_in (p : apc) : Prop := exists r, p = AInBody r \/ p = AMarked r \/ p = AWrote r.

Record ainv (R : Z) (s : astate) : Prop := {
  ai_in : forall t, a_in (a_pc s t) -> a_running s = true;
  ai_rd : a_running s = true -> a_done s = false;
  ai_uniq : forall t1 t2, a_in (a_pc s t1) -> a_in (a_pc s t2) -> t1 = t2;
  ai_free : a_running s = false -> forall t, ~ a_in (a_pc s t);
  ai_execs : a_execs s = if a_running s || a_done s then 1%nat else 0%nat;
  ai_comp : a_done s = true -> a_comp s = R;
  ai_wrote : forall t r, a_pc s t = AWrote r -> a_comp s = R;
  ai_after : forall t r, a_pc s t = AAfter r -> a_done s = true;
  ai_retd : forall t, a_pc s t = ADoneDo -> a_done s = true;
  ai_retr : forall t v, a_pc s t = ADoneRes v -> a_done s = true /\ v = R
}.

Ltac acrush :=
  intros; unfold a_in in *;
  repeat match goal with
  | H : context [upd _ ?t _ ?x] |- _ => upd_cases x t
  | |- context [upd _ ?t _ ?x] => upd_cases x t
  end;
  repeat match goal with H : exists _, _ |- _ => destruct H end;
  try solve [eauto | intuition (try discriminate; try congruence; eauto)].

Lemma ainv_init R : ainv R ainit.
Proof. constructor; simpl; acrush. Qed.
