(* Proofs/ErrTree_base.v — structure lemmas for Model/ErrTree.v: induction principles for the nested
   inductives, the flattening specification [constituents], what Push / Add / Join / Collector compute,
   well-formedness of every value a program can build. *)
From FunV Require Import Base.Tac Base.ListX Model.ErrTree.
Local Open Scope Z_scope.

(* ------------------------------------------------------------------ induction principles *)

Section ErrInd.
Variable P : err -> Prop.
Hypothesis HNil : P Nil.
Hypothesis HConst : forall s, P (Const s).
Hypothesis HPtr : forall i, P (Ptr i).
Hypothesis HTyped : forall t i, P (Typed t i).
Hypothesis HTypedU : forall t i, P (TypedU t i).
Hypothesis HWrap : forall g e, P e -> P (Wrap1 g e).
Hypothesis HMulti : forall g es, Forall P es -> P (Multi g es).
Hypothesis HStk : forall g n es, Forall P es -> P (Stk g n es).

Fixpoint err_ind' (e : err) : P e :=
  match e with
  | Nil => HNil
  | Const s => HConst s
  | Ptr i => HPtr i
  | Typed t i => HTyped t i
  | TypedU t i => HTypedU t i
  | Wrap1 g x => HWrap g x (err_ind' x)
  | Multi g es => HMulti g es ((fix go (l : list err) : Forall P l :=
                                  match l with [] => Forall_nil P | x :: r => Forall_cons x (err_ind' x) (go r) end) es)
  | Stk g n es => HStk g n es ((fix go (l : list err) : Forall P l :=
                              match l with [] => Forall_nil P | x :: r => Forall_cons x (err_ind' x) (go r) end) es)
  end.
End ErrInd.

Section ExprInd.
Variable P : expr -> Prop.
Hypothesis H0 : P XNil.
Hypothesis H1 : forall s, P (XConst s).
Hypothesis H2 : forall i, P (XPtr i).
Hypothesis H3 : forall t i, P (XTyped t i).
Hypothesis H4 : forall g x, P x -> P (XErrorf g x).
Hypothesis H5 : forall g xs, Forall P xs -> P (XErrorsJoin g xs).
Hypothesis H6 : forall g xs, Forall P xs -> P (XMulti g xs).
Hypothesis H7 : forall g xs, Forall P xs -> P (XJoin g xs).
Hypothesis H8 : forall g a x, P x -> P (XWrap g a x).
Hypothesis H9 : forall g xs, Forall P xs -> P (XStack g xs).
Hypothesis H10 : forall g xs, Forall P xs -> P (XStackPush g xs).
Hypothesis H11 : forall g xs, Forall P xs -> P (XCollect g xs).
Hypothesis H12 : forall g x, P x -> P (XPanicErr g x).
Hypothesis H13 : forall g s, P (XPanicStr g s).
Hypothesis H14 : forall g xs, Forall P xs -> P (XPanicErrs g xs).
Hypothesis H15 : forall g i, P (XPanicOther g i).
Hypothesis H16 : forall g x, P x -> P (XUnwrap g x).
Hypothesis H17 : forall g xs, Forall P xs -> P (XJoinRemoveOk g xs).
Hypothesis H18 : forall g xs, Forall P xs -> P (XJoinAppend g xs).
Hypothesis H19 : forall t i, P (XTypedU t i).
Hypothesis H20 : forall ex x, Forall P ex -> P x -> P (XFilterExclude ex x).
Hypothesis H21 : forall g c adds pre items kinds, Forall P adds -> Forall P pre -> Forall P items -> P (XConsume g c adds pre items kinds).

Fixpoint expr_ind' (x : expr) : P x :=
  let go := fix go (l : list expr) : Forall P l :=
              match l with [] => Forall_nil P | y :: r => Forall_cons y (expr_ind' y) (go r) end in
  match x with
  | XNil => H0
  | XConst s => H1 s
  | XPtr i => H2 i
  | XTyped t i => H3 t i
  | XErrorf g y => H4 g y (expr_ind' y)
  | XErrorsJoin g xs => H5 g xs (go xs)
  | XMulti g xs => H6 g xs (go xs)
  | XJoin g xs => H7 g xs (go xs)
  | XWrap g a y => H8 g a y (expr_ind' y)
  | XStack g xs => H9 g xs (go xs)
  | XStackPush g xs => H10 g xs (go xs)
  | XCollect g xs => H11 g xs (go xs)
  | XPanicErr g y => H12 g y (expr_ind' y)
  | XPanicStr g s => H13 g s
  | XPanicErrs g xs => H14 g xs (go xs)
  | XPanicOther g i => H15 g i
  | XUnwrap g y => H16 g y (expr_ind' y)
  | XJoinRemoveOk g xs => H17 g xs (go xs)
  | XJoinAppend g xs => H18 g xs (go xs)
  | XTypedU t i => H19 t i
  | XFilterExclude ex y => H20 ex y (go ex) (expr_ind' y)
  | XConsume g c adds pre items kinds => H21 g c adds pre items kinds (go adds) (go pre) (go items)
  end.
End ExprInd.

(* ------------------------------------------------------------------ the specification side *)

(* an error that an aggregation keeps as one constituent: not nil, not flattened *)
Definition plain (e : err) : bool :=
  match e with Nil | Multi _ _ | Stk _ _ _ => false | _ => true end.

(* what an aggregation is supplied with when handed e: stacks and multis are flattened (in the order Push
   visits them: a stack head first, a multi in slice order), nils vanish, everything else is one constituent *)
Fixpoint constituents (e : err) : list err :=
  match e with
  | Nil => []
  | Multi _ es => flat_map constituents es
  | Stk _ _ es => flat_map constituents es
  | _ => [e]
  end.

Definition supplied (es : list err) : list err := flat_map constituents es.

(* every node of the tree *)
Fixpoint nodes (e : err) : list err :=
  e :: match e with
       | Wrap1 _ x => nodes x
       | Multi _ es => flat_map nodes es
       | Stk _ _ es => flat_map nodes es
       | _ => []
       end.

(* values that the API can build: the chain of a stack holds plain errors only *)
Fixpoint wf (e : err) : bool :=
  match e with
  | Wrap1 _ x => wf x
  | Multi _ es => forallb wf es
  | Stk _ _ es => forallb (fun x => plain x && wf x) es
  | _ => true
  end.

Lemma plain_constituents e : plain e = true -> constituents e = [e].
Proof. destruct e; simpl; congruence. Qed.

Lemma plain_not_nil e : plain e = true -> is_nil e = false.
Proof. destruct e; simpl; congruence. Qed.

Lemma constituents_plain e : Forall (fun c => plain c = true) (constituents e).
Proof.
  induction e using err_ind'; simpl; try (repeat constructor; fail).
  - induction H; simpl; [constructor|]. apply Forall_app. split; assumption.
  - induction H; simpl; [constructor|]. apply Forall_app. split; assumption.
Qed.

Lemma supplied_plain es : Forall (fun c => plain c = true) (supplied es).
Proof.
  unfold supplied. induction es; simpl; [constructor|]. apply Forall_app. split; [apply constituents_plain|assumption].
Qed.

Lemma supplied_app a b : supplied (a ++ b) = supplied a ++ supplied b.
Proof. unfold supplied. apply flat_map_app. Qed.

Lemma flat_map_plain l : Forall (fun c => plain c = true) l -> flat_map constituents l = l.
Proof. induction 1; simpl; [reflexivity|]. rewrite plain_constituents by assumption. simpl. congruence. Qed.

(* ------------------------------------------------------------------ Push / Add *)

Definition pushed (st : stack) (cs : list err) : stack :=
  mkStack (s_count st + Z.of_nat (length cs)) (rev cs ++ s_chain st).

Lemma pushed_nil st : pushed st [] = st.
Proof. destruct st. unfold pushed. simpl. f_equal. lia. Qed.

Lemma pushed_app st a b : pushed (pushed st a) b = pushed st (a ++ b).
Proof.
  unfold pushed. simpl. rewrite app_length, rev_app_distr, app_assoc, Nat2Z.inj_add. f_equal. lia.
Qed.

Lemma fold_push_spec es :
  Forall (fun e => forall st, push e st = pushed st (constituents e)) es ->
  forall st, fold_left (fun s x => push x s) es st = pushed st (flat_map constituents es).
Proof.
  induction 1 as [|e es He _ IH]; intros st; simpl.
  - symmetry. apply pushed_nil.
  - rewrite He, IH. apply pushed_app.
Qed.

Lemma push_spec e : forall st, push e st = pushed st (constituents e).
Proof.
  induction e using err_ind'; intros st;
    try (destruct st; unfold pushed; simpl; f_equal; lia).
  - change (push (Multi g es) st) with (fold_left (fun s x => push x s) es st). simpl constituents.
    apply fold_push_spec. assumption.
  - change (push (Stk g n es) st) with (fold_left (fun s x => push x s) es st). simpl constituents.
    apply fold_push_spec. assumption.
Qed.

Lemma stack_add_spec st es : stack_add st es = pushed st (supplied es).
Proof.
  unfold stack_add, supplied. apply fold_push_spec. apply Forall_forall. intros e _. apply push_spec.
Qed.

Lemma stack_add_zero es :
  stack_add stack_zero es = mkStack (Z.of_nat (length (supplied es))) (rev (supplied es)).
Proof. rewrite stack_add_spec. unfold pushed, stack_zero. simpl. rewrite app_nil_r. reflexivity. Qed.

(* ------------------------------------------------------------------ Join *)

Lemma join_spec tag es :
  join tag es = match supplied es with
                | [] => Nil
                | [c] => c
                | c :: d :: cs => Stk tag (Z.of_nat (length (c :: d :: cs))) (rev (c :: d :: cs))
                end.
Proof.
  unfold join. rewrite stack_add_zero. unfold stack_resolve. simpl s_count. simpl s_chain.
  destruct (supplied es) as [|c [|d cs]]; try reflexivity.
  change (length (c :: d :: cs)) with (S (S (length cs))).
  destruct (Z.of_nat (S (S (length cs))) =? 0) eqn:E0; [lia|].
  destruct (Z.of_nat (S (S (length cs))) =? 1) eqn:E1; [lia|]. reflexivity.
Qed.

(* ------------------------------------------------------------------ Unwind *)

Lemma chain_unwind_plain l : Forall (fun c => plain c = true) l -> chain_unwind l = l.
Proof. induction 1 as [|x l Hx _ IH]; simpl; [reflexivity|]. rewrite (plain_not_nil _ Hx), IH. reflexivity. Qed.

Lemma sparse_plain l : Forall (fun c => plain c = true) l -> sparse l = l.
Proof.
  unfold sparse. induction 1 as [|x l Hx _ IH]; simpl; [reflexivity|].
  rewrite (plain_not_nil _ Hx). simpl. f_equal. exact IH.
Qed.

Lemma unwind_stk_plain tag n l : Forall (fun c => plain c = true) l -> unwind (Stk tag n l) = l.
Proof. intros H. simpl. rewrite chain_unwind_plain, sparse_plain by assumption. reflexivity. Qed.

Lemma Forall_rev' {A} (P : A -> Prop) l : Forall P l -> Forall P (rev l).
Proof. intros H. apply Forall_forall. intros x Hx. apply in_rev in Hx. revert x Hx. apply Forall_forall. exact H. Qed.

(* ------------------------------------------------------------------ Collector (sequential) *)

Lemma coll_add_push c e : coll_add c e = push e c.
Proof. unfold coll_add. destruct e; reflexivity. Qed.

Lemma coll_adds_spec c es : coll_adds c es = pushed c (supplied es).
Proof.
  unfold coll_adds. rewrite <- stack_add_spec. unfold stack_add.
  revert c. induction es; intros c; simpl; [reflexivity|]. rewrite coll_add_push. apply IHes.
Qed.

Lemma coll_adds_zero es :
  coll_adds coll_zero es = mkStack (Z.of_nat (length (supplied es))) (rev (supplied es)).
Proof. rewrite coll_adds_spec. unfold pushed, coll_zero, stack_zero. simpl. rewrite app_nil_r. reflexivity. Qed.

(* ------------------------------------------------------------------ well-formedness *)

Lemma wf_constituents e : wf e = true -> Forall (fun c => wf c = true) (constituents e).
Proof.
  induction e using err_ind'; simpl; intros Hw; try (repeat constructor; assumption).
  - induction H as [|x l Hx _ IH]; simpl in *; [constructor|].
    apply andb_true_iff in Hw as [Hw1 Hw2]. apply Forall_app. split; auto.
  - induction H as [|x l Hx _ IH]; simpl in *; [constructor|].
    apply andb_true_iff in Hw as [Hw1 Hw2]. apply andb_true_iff in Hw1 as [_ Hw1]. apply Forall_app. split; auto.
Qed.

Lemma wf_supplied es : Forall (fun e => wf e = true) es -> Forall (fun c => wf c = true) (supplied es).
Proof.
  unfold supplied. induction 1; simpl; [constructor|]. apply Forall_app. split; [apply wf_constituents|]; assumption.
Qed.

Lemma wf_chain l :
  Forall (fun c => plain c = true) l -> Forall (fun c => wf c = true) l ->
  forallb (fun x => plain x && wf x) l = true.
Proof.
  intros Hp Hw. apply forallb_forall. intros x Hx.
  rewrite Forall_forall in Hp, Hw. rewrite Hp, Hw by assumption. reflexivity.
Qed.

Lemma wf_stk_supplied tag n es : Forall (fun e => wf e = true) es -> wf (Stk tag n (rev (supplied es))) = true.
Proof.
  intros H. simpl. apply wf_chain; apply Forall_rev'; [apply supplied_plain|apply wf_supplied; assumption].
Qed.

Lemma wf_join tag es : Forall (fun e => wf e = true) es -> wf (join tag es) = true.
Proof.
  intros H. rewrite join_spec. pose proof (wf_supplied es H) as Hs. pose proof (wf_stk_supplied tag (Z.of_nat (length (supplied es))) es H) as Hk.
  destruct (supplied es) as [|c [|d cs]]; [reflexivity| |exact Hk]. inv Hs. assumption.
Qed.

Lemma Forall_map_eval (xs : list expr) :
  Forall (fun x => wf (eval x) = true) xs -> Forall (fun e => wf e = true) (map eval xs).
Proof. induction 1; simpl; constructor; assumption. Qed.

Lemma wf_parse_panic tag p :
  match p with PErr e => wf e = true | PErrs es => Forall (fun e => wf e = true) es | _ => True end ->
  wf (parse_panic tag p) = true.
Proof.
  destruct p; simpl; intros H; try reflexivity.
  - destruct (is_nil e); [reflexivity|]. apply wf_join. repeat constructor. assumption.
  - apply wf_join. assumption.
Qed.

(* ------------------------------------------------------------------ Ok / RemoveOk / Unwrap *)

(* an error that reports Ok holds nothing (so treating it as nil loses nothing) *)
Lemma ok_no_constituents e : ok e = true -> constituents e = [].
Proof.
  destruct e; simpl; try discriminate; auto. destruct es; [reflexivity|].
  unfold chain_ok. rewrite andb_false_r. discriminate.
Qed.

Lemma ok_iff e : ok e = true <-> e = Nil \/ exists g n, e = Stk g n [].
Proof.
  split.
  - destruct e; simpl; try discriminate; auto. destruct es; [eauto|]. unfold chain_ok. rewrite andb_false_r. discriminate.
  - intros [->|(g & n & ->)]; reflexivity.
Qed.

Lemma supplied_remove_ok es : supplied (remove_ok es) = supplied es.
Proof.
  unfold supplied, remove_ok, is_error. induction es as [|e es IH]; simpl; [reflexivity|].
  destruct (ok e) eqn:E; simpl; rewrite IH; [rewrite (ok_no_constituents e E)|]; reflexivity.
Qed.

Lemma wf_remove_ok es : Forall (fun e => wf e = true) es -> Forall (fun e => wf e = true) (remove_ok es).
Proof.
  intros H. apply Forall_forall. intros e He. apply filter_In in He as [He _]. rewrite Forall_forall in H. auto.
Qed.

Lemma wf_unwrap1 tag e : wf e = true -> wf (unwrap1 tag e) = true.
Proof.
  destruct e; simpl; auto. destruct es as [|x [|y r]]; auto. intros H. destruct (is_nil y); [reflexivity|].
  simpl in *. apply andb_true_iff in H as [_ H]. exact H.
Qed.

(* the inner layer of a stack holds everything but the most recent constituent *)
Lemma unwrap1_stack tag g n es :
  wf (Stk g n es) = true -> (2 <= length es)%nat ->
  unwrap1 tag (Stk g n es) = Stk tag 0 (tl es) /\ constituents (unwrap1 tag (Stk g n es)) = tl es.
Proof.
  intros Hw Hl. destruct es as [|x [|y r]]; simpl in Hl; try lia. simpl in Hw.
  apply andb_true_iff in Hw as [_ Hw]. assert (Hp : Forall (fun c => plain c = true) (y :: r)).
  { apply Forall_forall. intros c Hc. change (forallb (fun x => plain x && wf x) (y :: r) = true) in Hw.
    rewrite forallb_forall in Hw. specialize (Hw c Hc). apply andb_true_iff in Hw. tauto. }
  simpl unwrap1. inversion Hp; subst. rewrite (plain_not_nil y) by assumption. split; [reflexivity|].
  simpl constituents. apply (flat_map_plain (y :: r) Hp).
Qed.

(* ------------------------------------------------------------------ erc.Consume *)

(* what the scripted source hands over: the items delivered to the collector, the error the source failed with,
   and whether the loop ended because the context was cancelled *)
Fixpoint observe_spec (steps : list (Z * err)) (cancelled : bool) : list err * list err * bool :=
  if cancelled then ([], [], true)
  else match steps with
       | [] => ([], [], false)
       | (k, e) :: r =>
           if k =? 1 then ([], [e], false)
           else match observe_spec r (k =? 2) with (d, f, cn) => (e :: d, f, cn) end
       end.

Lemma observe_loop_spec steps : forall cancelled c ist,
  observe_loop steps cancelled c ist =
  match observe_spec steps cancelled with
  | (d, f, cn) => (coll_adds c d, stack_add ist f, if cn then ctx_canceled else Nil)
  end.
Proof.
  induction steps as [|[k e] r IH]; intros cancelled c ist; destruct cancelled; try reflexivity.
  simpl. destruct (k =? 1); [reflexivity|]. rewrite IH. destruct (observe_spec r (k =? 2)) as [[d f] cn]. reflexivity.
Qed.

Lemma observe_spec_incl steps : forall cancelled d f cn,
  observe_spec steps cancelled = (d, f, cn) -> forall x, In x d \/ In x f -> In x (map snd steps).
Proof.
  induction steps as [|[k e] r IH]; intros cancelled d f cn H x Hx; destruct cancelled; simpl in H.
  - inv H. destruct Hx as [[]|[]].
  - inv H. destruct Hx as [[]|[]].
  - inv H. destruct Hx as [[]|[]].
  - destruct (k =? 1).
    + inv H. destruct Hx as [[]|[Hx|[]]]. left. assumption.
    + destruct (observe_spec r (k =? 2)) as [[d' f'] cn'] eqn:E. inv H. simpl.
      destruct Hx as [[Hx|Hx]|Hx]; auto; right; eapply IH; eauto.
Qed.

Lemma constituents_join tag es : constituents (join tag es) = rev (supplied es).
Proof.
  rewrite join_spec. pose proof (supplied_plain es) as Hp. destruct (supplied es) as [|c [|d cs]].
  - reflexivity.
  - inv Hp. simpl. apply plain_constituents. assumption.
  - simpl constituents. apply flat_map_plain, Forall_rev'. assumption.
Qed.

Lemma constituents_resolve tag st cs :
  st = mkStack (Z.of_nat (length cs)) (rev cs) -> Forall (fun c => plain c = true) cs ->
  constituents (stack_resolve tag st) = rev cs.
Proof.
  intros -> Hp. unfold stack_resolve. simpl s_count. simpl s_chain. destruct cs as [|c [|d cs]].
  - reflexivity.
  - inv Hp. simpl. apply plain_constituents. assumption.
  - change (length (c :: d :: cs)) with (S (S (length cs))).
    destruct (Z.of_nat (S (S (length cs))) =? 0) eqn:E0; [lia|].
    destruct (Z.of_nat (S (S (length cs))) =? 1) eqn:E1; [lia|].
    simpl constituents. apply flat_map_plain, Forall_rev'. assumption.
Qed.

(* what Consume leaves in the collector: the delivered items, then (deeper than the iterator's own errors, which
   come out first) the context error if the loop was cancelled, then everything the iterator carried *)
Definition consumed (pre : list err) (steps : list (Z * err)) (cancelled : bool) : list err :=
  match observe_spec steps cancelled with
  | (d, f, cn) => supplied d ++ (if cn then [ctx_canceled] else []) ++ supplied (pre ++ f)
  end.

Lemma stack_add_app st a b : stack_add (stack_add st a) b = stack_add st (a ++ b).
Proof. unfold stack_add. symmetry. apply fold_left_app. Qed.

Lemma consume_spec c pre steps cancelled :
  consume c pre steps cancelled = pushed c (consumed pre steps cancelled).
Proof.
  unfold consume, consumed. rewrite observe_loop_spec. destruct (observe_spec steps cancelled) as [[d f] cn].
  rewrite stack_add_app, stack_add_zero.
  rewrite coll_add_push, push_spec, coll_adds_spec, pushed_app. f_equal. f_equal.
  rewrite constituents_join.
  assert (Hs : forall a b, supplied [a; b; Nil] = constituents a ++ constituents b).
  { intros. unfold supplied. simpl. rewrite app_nil_r. reflexivity. }
  rewrite Hs, (constituents_resolve 0 _ (supplied (pre ++ f)) eq_refl (supplied_plain _)).
  destruct cn; simpl; rewrite ?rev_app_distr, ?rev_involutive, ?app_nil_r; reflexivity.
Qed.

Lemma wf_consumed pre steps cancelled :
  Forall (fun e => wf e = true) pre -> Forall (fun e => wf e = true) (map snd steps) ->
  Forall (fun c => wf c = true) (consumed pre steps cancelled).
Proof.
  intros Hp Hs. unfold consumed. destruct (observe_spec steps cancelled) as [[d f] cn] eqn:E.
  pose proof (observe_spec_incl _ _ _ _ _ E) as Hin. rewrite Forall_forall in Hs.
  apply Forall_app. split; [|apply Forall_app; split].
  - apply wf_supplied, Forall_forall. intros x Hx. apply Hs, Hin. auto.
  - destruct cn; repeat constructor.
  - apply wf_supplied, Forall_app. split; [assumption|]. apply Forall_forall. intros x Hx. apply Hs, Hin. auto.
Qed.

Lemma consumed_plain pre steps cancelled : Forall (fun c => plain c = true) (consumed pre steps cancelled).
Proof.
  unfold consumed. destruct (observe_spec steps cancelled) as [[d f] cn].
  apply Forall_app. split; [apply supplied_plain|]. apply Forall_app. split; [|apply supplied_plain].
  destruct cn; repeat constructor.
Qed.

Lemma wf_coll_resolve_pushed tag cs ds :
  Forall (fun c => plain c = true) cs -> Forall (fun c => wf c = true) cs ->
  Forall (fun c => plain c = true) ds -> Forall (fun c => wf c = true) ds ->
  wf (coll_resolve tag (pushed (pushed coll_zero cs) ds)) = true.
Proof.
  intros. rewrite pushed_app. unfold coll_resolve, stack_len, pushed, coll_zero, stack_zero. simpl s_count. simpl s_chain.
  simpl. destruct (Z.of_nat (length (cs ++ ds)) =? 0); [reflexivity|]. simpl. rewrite app_nil_r.
  apply wf_chain; apply Forall_rev', Forall_app; split; assumption.
Qed.

Lemma combine_snd_incl {A B} (ks : list A) (vs : list B) x : In x (map snd (combine ks vs)) -> In x vs.
Proof.
  revert vs. induction ks as [|k ks IH]; intros vs H; [destruct H|]. destruct vs as [|v vs]; [destruct H|].
  simpl in H. destruct H as [H|H]; [left; assumption|right; apply IH; assumption].
Qed.

(* every value a program can build is well-formed *)
Theorem wf_eval x : wf (eval x) = true.
Proof.
  induction x using expr_ind'; simpl; try reflexivity.
  - unfold errorf. destruct (is_nil (eval x)); [reflexivity|]. simpl. assumption.
  - unfold errors_join. apply Forall_map_eval in H.
    assert (Hs : forallb wf (sparse (map eval xs)) = true).
    { apply forallb_forall. intros e He. unfold sparse in He. apply filter_In in He as [He _].
      rewrite Forall_forall in H. auto. }
    destruct (sparse (map eval xs)); [reflexivity|]. exact Hs.
  - apply Forall_map_eval in H. apply forallb_forall. rewrite Forall_forall in H. exact H.
  - apply wf_join. apply Forall_map_eval. assumption.
  - unfold wrap. destruct (ok (eval x)); [reflexivity|]. apply wf_join. repeat constructor. assumption.
  - rewrite stack_add_zero. simpl s_chain. apply (wf_stk_supplied g 0). apply Forall_map_eval. assumption.
  - change (fold_left (fun s v => push v s) (map eval xs) stack_zero) with (stack_add stack_zero (map eval xs)).
    rewrite stack_add_zero. simpl s_chain. apply (wf_stk_supplied g 0). apply Forall_map_eval. assumption.
  - unfold coll_resolve. rewrite coll_adds_zero. unfold stack_len. simpl s_count. simpl s_chain.
    destruct (Z.of_nat (length (supplied (map eval xs))) =? 0); [reflexivity|].
    apply (wf_stk_supplied g 0). apply Forall_map_eval. assumption.
  - apply (wf_parse_panic g (PErr (eval x))). assumption.
  - apply (wf_parse_panic g (PErrs (map eval xs))). apply Forall_map_eval. assumption.
  - apply wf_unwrap1. assumption.
  - apply wf_join, wf_remove_ok, Forall_map_eval. assumption.
  - apply wf_join, wf_remove_ok, Forall_map_eval. assumption.
  - unfold filter_exclude. destruct (map eval ex); [assumption|].
    destruct (ok (eval x) || ers_is (eval x) (e :: l)); [reflexivity|assumption].
  - rewrite consume_spec, coll_adds_spec. apply Forall_map_eval in H, H0, H1.
    apply wf_coll_resolve_pushed; [apply supplied_plain|apply wf_supplied; assumption|apply consumed_plain|].
    apply wf_consumed; [assumption|]. apply Forall_forall. intros y Hy. apply combine_snd_incl in Hy.
    rewrite Forall_forall in H1. auto.
Qed.
