(* Exactly once for a subscriber that never calls Unsubscribe (lossless broker), and the refutation of
   the property's clause "...and before its Unsubscribe was called". *)
From FunV Require Import Base.Tac Model.BrokerModel Proofs.Broker_base Proofs.Broker_safety Proofs.Broker_order Proofs.Broker_live.

(* unbuffered subscription channels; channel, unlimited or blocking-bounded buffer *)
Definition lossless (c : cfg) : Prop :=
  bufsz c = 0 /\ (chanb c = true \/ dpol c = PBlock) /\ inmod c = 0 /\ outmod c = 0.

Definition pend_for (st : state) (s : sid) (m : msg) : Prop :=
  In m (dist st ++ lmsg (loop st)) \/
  exists w r v mu p, wk st w = WBusy m r v mu p /\ (In s p \/ (~ In s v /\ r = true /\ In s mu)).

Section S.
Variable c : cfg.
Variable wake : state -> nat -> bool.
Hypothesis LL : lossless c.
(* the dispatch loop of /repo: no re-check of the keys the Range yields, hence no `break` *)
Hypothesis NB : stalebreak c = false.

Record InvE (st : state) : Prop := {
  ie_sub : forall s, ~ In s (unsubcalled st) -> owed st s <> [] -> In s (subs st);
  ie_unsub : forall s, (In s (unsubq st) \/ exists k, call st k = CUnsub s) -> In s (unsubcalled st);
  ie_owed : live st = true -> forall s m, ~ In s (unsubcalled st) -> In m (owed st s) ->
            In m (log st s) \/ pend_for st s m
}.

Lemma InvE_init : InvE init.
Proof. constructor; simpl; intros; try tauto. destruct H as [[]|[k H]]; discriminate. Qed.

Lemma unsub_step : forall st e st',
  (forall s, (In s (unsubq st) \/ exists k, call st k = CUnsub s) -> In s (unsubcalled st)) ->
  step c wake st e = Some st' ->
  (forall s, (In s (unsubq st') \/ exists k, call st' k = CUnsub s) -> In s (unsubcalled st')).
Proof.
  intros st e st' UN H. step_inv H; ssimpl; auto.
  all: intros s9 [Hq|[k9 Hk]]; rewrite ?in_app_iff in *; simpl in *.
  all: try (upd_cases; try discriminate; eauto; fail).
  all: try (apply UN; eauto; fail).
  - upd_cases; [inv Hk; auto| left; eauto].
  - destruct Hq as [Hq|[<-|[]]]; eauto.
Qed.

Lemma sub_step : forall st e st',
  (forall s, (In s (unsubq st) \/ exists k, call st k = CUnsub s) -> In s (unsubcalled st)) ->
  (forall s, ~ In s (unsubcalled st) -> owed st s <> [] -> In s (subs st)) ->
  step c wake st e = Some st' ->
  (forall s, ~ In s (unsubcalled st') -> owed st' s <> [] -> In s (subs st')).
Proof.
  intros st e st' UN SU H. step_inv H; ssimpl; auto.
  all: intros s9 Hn Ho; rewrite ?in_app_iff in *; simpl in *.
  all: try (apply In_sadd; right; auto; fail).
  all: try (apply In_rem; split; [auto|]; intros ->; apply Hn; apply UN; eauto; fail).
  - apply SU; tauto.
  - unfold owe in Ho. destruct (memb s9 (subs st) && negb (memb s9 (unsubcalled st))) eqn:E; auto.
    boolp; auto.
Qed.

Lemma owed_step : forall st e st',
  (forall s, (In s (unsubq st) \/ exists k, call st k = CUnsub s) -> In s (unsubcalled st)) ->
  (forall s, ~ In s (unsubcalled st) -> owed st s <> [] -> In s (subs st)) ->
  (live st = true -> forall s m, ~ In s (unsubcalled st) -> In m (owed st s) -> In m (log st s) \/ pend_for st s m) ->
  step c wake st e = Some st' ->
  (live st' = true -> forall s m, ~ In s (unsubcalled st') -> In m (owed st' s) -> In m (log st' s) \/ pend_for st' s m).
Proof.
  intros st e st' UN SU OW H. destruct LL as (B0 & BK & I0 & O0). unfold pend_for, log in *.
  unfold step in H; rewrite ?I0, ?O0, ?NB in H; unfold passes in H; simpl in H.
  step_inv H; ssimpl.
  all: repeat match goal with
       | E : loop _ = _ |- _ => rewrite E in *
       | E : dist _ = _ |- _ => rewrite E in *
       end; simpl in *; auto; try discriminate.
  all: intros LV s9 m9 Hn Ho.
  all: try (rewrite LV in *; discriminate).
  - (* ECall Unsubscribe *)
    assert (Hn' : ~ In s9 (unsubcalled st)) by (intros Z; apply Hn; apply in_or_app; auto).
    exact (OW LV _ _ Hn' Ho).
  - (* EPub *)
    unfold owe in Ho. destruct (memb s9 (subs st) && negb (memb s9 (unsubcalled st))) eqn:E.
    + apply in_app_or in Ho as [Ho|[<-|[]]].
      * destruct (OW LV _ _ Hn Ho) as [X|[X|X]]; auto.
        right; left. rewrite app_nil_r in X. apply in_or_app; auto.
      * right; left. apply in_or_app; simpl; auto.
    + destruct (OW LV _ _ Hn Ho) as [X|[X|X]]; auto.
      right; left. rewrite app_nil_r in X. apply in_or_app; auto.
  - (* EUnsubSend, rendezvous *)
    assert (Hne : s9 <> s) by (intros ->; apply Hn, UN; eauto).
    destruct (OW LV _ _ Hn Ho) as [X|[X|(w0 & r0 & v0 & mu0 & p0 & Hw & Hc)]]; auto.
    right; right. exists w0, r0, v0, (rem s mu0), p0. rewrite Hw; simpl. split; auto.
    destruct Hc as [Hc|(A & B & C)]; auto. right. repeat split; auto. apply In_rem; auto.
  - (* ELoopUnsub *)
    assert (Hne : s9 <> s) by (intros ->; apply Hn, UN; left; left; reflexivity).
    destruct (OW LV _ _ Hn Ho) as [X|[X|(w0 & r0 & v0 & mu0 & p0 & Hw & Hc)]]; auto.
    right; right. exists w0, r0, v0, (rem s mu0), p0. rewrite Hw; simpl. split; auto.
    destruct Hc as [Hc|(A & B & C)]; auto. right. repeat split; auto. apply In_rem; auto.
  - (* ELoopPush, room *)
    destruct (OW LV _ _ Hn Ho) as [X|[X|X]]; auto. right; left. rewrite app_nil_r. auto.
  - destruct BK; congruence.
  - destruct BK; congruence.
  - destruct BK; congruence.
  - destruct BK; congruence.
  - (* ETake, channel *)
    destruct (OW LV _ _ Hn Ho) as [X|[X|(w0 & r0 & v0 & mu0 & p0 & Hw & Hc)]]; auto.
    + apply in_app_or in X as [X|[<-|[]]].
      * right; left. apply in_or_app; auto.
      * right; right. exists w, true, [], (subs st), []. rewrite upd_same. split; auto.
        right. repeat split; auto. apply SU; auto. intros Z; rewrite Z in Ho; destruct Ho.
    + right; right. exists w0, r0, v0, mu0, p0. split; auto. rewrite upd_other; auto. congruence.
  - (* ETake, buffer *)
    destruct (OW LV _ _ Hn Ho) as [X|[X|(w0 & r0 & v0 & mu0 & p0 & Hw & Hc)]]; auto.
    + destruct X as [<-|X]; auto.
      right; right. exists w, true, [], (subs st), []. rewrite upd_same. split; auto.
      right. repeat split; auto. apply SU; auto. intros Z; rewrite Z in Ho; destruct Ho.
    + right; right. exists w0, r0, v0, mu0, p0. split; auto. rewrite upd_other; auto. congruence.
  - (* EPark *)
    destruct (OW LV _ _ Hn Ho) as [X|[X|(w0 & r0 & v0 & mu0 & p0 & Hw & Hc)]]; auto.
    right; right. exists w0, r0, v0, mu0, p0. split; auto. rewrite upd_other; auto. congruence.
  - (* EWake *)
    destruct (OW LV _ _ Hn Ho) as [X|[X|(w0 & r0 & v0 & mu0 & p0 & Hw & Hc)]]; auto.
    right; right. exists w0, r0, v0, mu0, p0. split; auto. rewrite upd_other; auto. congruence.
  - (* ERangeNext *)
    destruct (OW LV _ _ Hn Ho) as [X|[X|(w0 & r0 & v0 & mu0 & p0 & Hw & Hc)]]; auto.
    right; right. destruct (Nat.eq_dec w0 w) as [->|Hne].
    + rewrite Heqw0 in Hw. inv Hw. exists w, true, (v0 ++ [s]), mu0, (p0 ++ [s]). rewrite upd_same. split; auto.
      destruct (Nat.eq_dec s9 s) as [->|Hs]; [left; apply in_or_app; simpl; auto|].
      destruct Hc as [Hc|(A & B & C)]; [left; apply in_or_app; auto|].
      right. repeat split; auto. rewrite in_app_iff; simpl. intros [Z|[Z|[]]]; auto; congruence.
    + exists w0, r0, v0, mu0, p0. split; auto. rewrite upd_other; auto.
  - (* ERangeEnd *)
    rewrite LV in Heqb0. simpl in Heqb0. apply subset_incl in Heqb0.
    destruct (OW LV _ _ Hn Ho) as [X|[X|(w0 & r0 & v0 & mu0 & p0 & Hw & Hc)]]; auto.
    right; right. destruct (Nat.eq_dec w0 w) as [->|Hne].
    + rewrite Heqw0 in Hw. inv Hw. exists w, false, v0, mu0, p0. rewrite upd_same. split; auto.
      destruct Hc as [Hc|(A & B & C)]; auto. exfalso. apply A, Heqb0, C.
    + exists w0, r0, v0, mu0, p0. split; auto. rewrite upd_other; auto.
  - (* ESend, rendezvous *)
    boolp.
    destruct (OW LV _ _ Hn Ho) as [X|[X|(w0 & r0 & v0 & mu0 & p0 & Hw & Hc)]]; auto.
    + left. upd_cases; auto. rewrite !in_app_iff in *; simpl; tauto.
    + destruct (Nat.eq_dec w0 w) as [->|Hne].
      * rewrite Heqw0 in Hw. inv Hw.
        destruct Hc as [Hc|Hc].
        -- destruct (Nat.eq_dec s9 s) as [->|Hs].
           ++ left. rewrite upd_same. rewrite !in_app_iff; simpl; auto.
           ++ right; right. exists w, r0, v0, mu0, (rem s p0). rewrite upd_same. split; auto.
              left. apply In_rem; auto.
        -- right; right. exists w, r0, v0, mu0, (rem s p0). rewrite upd_same. split; auto.
      * right; right. exists w0, r0, v0, mu0, p0. split; auto. rewrite upd_other; auto.
  - (* ESend, buffered: BufferSize = 0 *) rewrite B0 in *. discriminate.
  - (* EDropSend *) boolp. congruence.
  - (* EEnd *)
    destruct (OW LV _ _ Hn Ho) as [X|[X|(w0 & r0 & v0 & mu0 & p0 & Hw & Hc)]]; auto.
    right; right. destruct (Nat.eq_dec w0 w) as [->|Hne].
    + rewrite Heqw0 in Hw. inv Hw. exfalso. destruct Hc as [[]|(_ & B & _)]. discriminate.
    + exists w0, r0, v0, mu0, p0. split; auto. rewrite upd_other; auto.
  - (* ERecv *)
    destruct (OW LV _ _ Hn Ho) as [X|[X|X]]; auto.
    left. upd_cases; auto. rewrite Heql in X. rewrite !in_app_iff in *; simpl in *. tauto.
Qed.

Lemma InvE_step : forall st e st', InvE st -> step c wake st e = Some st' -> InvE st'.
Proof.
  intros st e st' [SU UN OW] H. constructor.
  - eapply sub_step; eauto.
  - eapply unsub_step; eauto.
  - eapply owed_step; eauto.
Qed.

Lemma inve_reach : forall st, reach c wake st -> InvE st.
Proof. induction 1; [apply InvE_init|]. eapply InvE_step; eauto. Qed.

End S.
