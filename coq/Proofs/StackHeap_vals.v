(* What the reference's loops (Attach, UnmarshalJSON, PopIterator, Append(...)) and Push/Pop amount to on the plain
   sequences of VALUES of the stacks: the "same operations on a plain slice". *)
From FunV Require Import Base.Tac Model.StackHeap Proofs.StackHeap_ref Proofs.StackHeap_wf Proofs.StackHeap_sim.
Local Open Scope Z_scope.

(* a state of the reference that some well-formed heap realises (every state reached by a guarded run is one) *)
Definition realised (r : rstate) : Prop := exists w, R w r.

Lemma owner_of_in w r x s : R w r -> r_in r x s = true -> r_owner r x = Some s.
Proof. intros HR I. rewrite (owner_sim _ _ _ HR). now apply (r_in_sim _ _ _ _ HR). Qed.

Lemma in_of_owner w r x s : R w r -> r_owner r x = Some s -> r_in r x s = true.
Proof. intros HR O. rewrite (owner_sim _ _ _ HR) in O. now apply (r_in_sim _ _ _ _ HR). Qed.

Lemma find_ext (f g : nat -> bool) l : (forall a, f a = g a) -> find f l = find g l.
Proof. intros E. induction l as [|a l IH]; simpl; [reflexivity|]. now rewrite E, IH. Qed.

Lemma r_owner_ext r r' x : (forall s, rseq r' s = rseq r s) -> (forall s, rsen r' s = rsen r s) -> rsf r' = rsf r ->
  r_owner r' x = r_owner r x.
Proof.
  intros E1 E2 E3. unfold r_owner. rewrite E3. apply find_ext. intros s. unfold r_in. now rewrite E1, E2.
Qed.

Lemma members_lt w r s x : R w r -> In x (rseq r s) -> (x < rif r)%nat.
Proof. intros HR I. rewrite <- (r_if _ _ HR). eapply wf_member_lt; [apply (r_wf _ _ HR)|exact I]. Qed.

Lemma map_rval_ext r r' l : (forall x, In x l -> rval r' x = rval r x) -> map (rval r') l = map (rval r) l.
Proof. intros E. apply map_ext_in. exact E. Qed.

(* ---- Push *)
Lemma r_push_values w r s v : R w r -> (s < sfresh w)%nat ->
  r_values (r_push r s v) s = v :: r_values r s /\ (forall t, t <> s -> r_values (r_push r s v) t = r_values r t).
Proof.
  intros HR Ls.
  assert (Q : forall t, rseq (r_push r s v) t = if Nat.eqb t s then rif (r_init r s) :: rseq r s else rseq r t).
  { intros t. unfold r_push, r_cons, r_alloc. simpl. unfold upd. rewrite !r_init_rseq. reflexivity. }
  assert (V : forall x, (x < rif r)%nat -> rval (r_push r s v) x = rval r x).
  { intros x Lx. unfold r_push, r_cons, r_alloc. simpl. pose proof (r_init_le r s) as (LE & _).
    rewrite upd_other by lia. unfold r_init. destruct (rsen r s); simpl; [reflexivity|]. now rewrite upd_other by lia. }
  split.
  - unfold r_values. rewrite Q, Nat.eqb_refl. cbn [map]. f_equal.
    + unfold r_push, r_cons, r_alloc. simpl. apply upd_same.
    + apply map_ext_in. intros x I. apply V. eapply members_lt; eassumption.
  - intros t NE. unfold r_values. rewrite Q. destruct (Nat.eqb_spec t s); [contradiction|].
    apply map_rval_ext. intros x I. apply V. eapply members_lt; eassumption.
Qed.

(* ---- Pop: the returned item carries the first value, the rest stays *)
Lemma r_pop_values w r s : R w r ->
  match rseq r s with
  | [] => r_values (fst (r_pop r s)) s = [] /\ (forall x, snd (r_pop r s) = Some x -> rok (fst (r_pop r s)) x = false)
  | x :: _ => snd (r_pop r s) = Some x /\ r_values r s = rval r x :: r_values (fst (r_pop r s)) s
  end /\ (forall t, t <> s -> r_values (fst (r_pop r s)) t = r_values r t).
Proof.
  intros HR. destruct (rseq r s) as [|x l] eqn:L.
  - rewrite (r_pop_nil _ _ L). simpl. split.
    + split; [unfold r_values; now rewrite r_init_rseq, L|].
      intros x E. unfold r_init in *. destruct (rsen r s) as [e|] eqn:Se; simpl in *.
      * rewrite Se in E. inv E. rewrite <- (r_ok _ _ HR). now apply (wf_sentinel _ _ _ (r_wf _ _ HR)) in Se.
      * rewrite upd_same in E. inv E. apply upd_same.
    + intros t NE. unfold r_values. rewrite r_init_rseq. apply map_rval_ext. intros x I.
      unfold r_init. destruct (rsen r s); simpl; [reflexivity|]. rewrite upd_other; [reflexivity|].
      pose proof (members_lt _ _ _ _ HR I). lia.
  - rewrite (r_pop_cons _ _ _ _ _ HR L). simpl. split.
    + split; [reflexivity|]. unfold r_values. simpl. rewrite upd_same, L. reflexivity.
    + intros t NE. unfold r_values. simpl. now rewrite upd_other by assumption.
Qed.

(* ---- one round of the moving loops, with its effect on the lists *)
Lemma move_step_accept w r i s t x l : R w r -> (t < sfresh w)%nat -> rseq r t = x :: l ->
  r_owner r i = Some s -> s <> t ->
  let r1 := set_rseq (set_rnx r (upd (rnx r) x (match l with y :: _ => Some y | [] => rsen r t end))) t l in
  r_pop r t = (r1, Some x) /\ r_append r1 (Some i) (Some x) = Ok (r_cons r1 s x, Some x) /\
  exists w2, R w2 (r_cons r1 s x) /\ (t < sfresh w2)%nat.
Proof.
  intros HR Lt L Oi NE r1.
  assert (NI : r_in r i t = false).
  { destruct (r_in r i t) eqn:RI; [|reflexivity]. pose proof (owner_of_in _ _ _ _ HR RI). congruence. }
  destruct (move_step _ _ _ _ _ _ HR Lt L NI) as (w1 & r1' & w2 & r2 & y & P & RP & K & IA & RA & HR2 & Y & L2 & NI2 & NX2 & SF).
  rewrite (r_pop_cons _ _ _ _ _ HR L) in RP. assert (E1 : r1' = r1) by (unfold r1; congruence). subst r1'. clear RP.
  split; [apply (r_pop_cons _ _ _ _ _ HR L)|].
  destruct (pop_sim _ _ _ HR Lt) as (_ & HR1). rewrite P, (r_pop_cons _ _ _ _ _ HR L) in HR1. cbn [fst] in HR1. fold r1 in HR1.
  assert (O1 : r_owner r1 i = Some s).
  { apply (owner_of_in _ _ _ _ HR1). pose proof (in_of_owner _ _ _ _ HR Oi) as I0.
    unfold r_in, r1 in *. simpl. now rewrite upd_other by assumption. }
  assert (Ox : r_owner r1 x = None).
  { destruct (r_owner r1 x) as [s'|] eqn:O; [|reflexivity]. exfalso.
    pose proof (in_of_owner _ _ _ _ HR1 O) as I1. unfold r_in, r1 in I1. simpl in I1.
    pose proof (r_wf _ _ HR) as W. pose proof (wf_nodup _ _ _ W t) as ND. rewrite L in ND. inv ND.
    assert (Mx : In x (rseq r t)) by (rewrite L; now left).
    unfold upd in I1. destruct (Nat.eqb_spec s' t).
    - subst s'. apply orb_true_iff in I1. destruct I1 as [I1|I1].
      + apply mem_In in I1. contradiction.
      + destruct (onat_eqb_spec (rsen r t) (Some x)) as [Q|]; [|discriminate].
        eapply (wf_sentinel_notin _ _ _ W _ _ Q). exact Mx.
    - assert (r_in r x s' = true) by exact I1. pose proof (owner_of_in _ _ _ _ HR H) as O'.
      assert (r_in r x t = true) by (unfold r_in; apply orb_true_iff; left; now apply mem_In).
      pose proof (owner_of_in _ _ _ _ HR H0). congruence. }
  assert (Kx : rok r1 x = true) by (rewrite <- (r_ok _ _ HR1); exact K).
  assert (RA' : r_append r1 (Some i) (Some x) = Ok (r_cons r1 s x, Some x)).
  { unfold r_append. now rewrite O1, Ox, Kx. }
  split; [exact RA'|]. rewrite RA' in RA. assert (E2 : r_cons r1 s x = r2) by congruence. rewrite E2.
  exists w2. split; [exact HR2|lia].
Qed.

Lemma move_all_shape f : forall l w r i s t, R w r -> (t < sfresh w)%nat -> rseq r t = l ->
  r_owner r i = Some s -> s <> t ->
  exists r', r_move_all (length l) f r (Some i) t = Ok r' /\
    rseq r' s = rev l ++ rseq r s /\ rseq r' t = [] /\ (forall u, u <> s -> u <> t -> rseq r' u = rseq r u) /\
    (forall x, (x < rif r)%nat -> rval r' x = rval r x) /\ realised r'.
Proof.
  induction l as [|x l IH]; intros w r i s t HR Lt L Oi NE; cbn [length r_move_all].
  - exists (fst (r_pop r t)). rewrite (r_pop_nil _ _ L). cbn [fst]. split; [reflexivity|].
    rewrite !r_init_rseq. split; [reflexivity|]. split; [exact L|]. split; [intros; apply r_init_rseq|]. split.
    + intros y Ly. unfold r_init. destruct (rsen r t); simpl; [reflexivity|]. now rewrite upd_other by lia.
    + destruct (pop_sim _ _ _ HR Lt) as (_ & HR1). rewrite (r_pop_nil _ _ L) in HR1. eexists. exact HR1.
  - destruct (move_step_accept _ _ _ _ _ _ _ HR Lt L Oi NE) as (P & A & w2 & HR2 & Lt2).
    set (r1 := set_rseq (set_rnx r (upd (rnx r) x (match l with y :: _ => Some y | [] => rsen r t end))) t l) in *.
    rewrite P, A. cbn [bind fst snd].
    assert (L2 : rseq (r_cons r1 s x) t = l) by (unfold r_cons, r1; simpl; rewrite upd_other by congruence; apply upd_same).
    assert (Os : forall j, (j = i \/ j = x) -> r_owner (r_cons r1 s x) j = Some s).
    { intros j J. apply (owner_of_in _ _ _ _ HR2). unfold r_in, r_cons, r1. simpl. rewrite upd_same.
      destruct J as [->| ->].
      - pose proof (in_of_owner _ _ _ _ HR Oi) as I0. unfold r_in in I0. simpl.
        rewrite upd_other by assumption. destruct (Nat.eqb i x); [reflexivity|exact I0].
      - simpl. now rewrite Nat.eqb_refl. }
    destruct (IH w2 (r_cons r1 s x) (if f then x else i) s t HR2 Lt2 L2) as (r' & M & S1 & S2 & S3 & S4 & S5); auto.
    { apply Os. destruct f; auto. }
    exists r'. split; [destruct f; exact M|]. split.
    + rewrite S1. unfold r_cons, r1. simpl. rewrite upd_same, upd_other by assumption. simpl.
      rewrite <- app_assoc. reflexivity.
    + split; [exact S2|]. split; [|split; [|exact S5]].
      * intros u N1 N2. rewrite (S3 u N1 N2). unfold r_cons, r1. simpl. now rewrite !upd_other by assumption.
      * intros y Ly. now rewrite S4 by exact Ly.
Qed.

(* ---- Item.Attach onto an item of another stack: t's values arrive reversed on top of the receiver's stack *)
Lemma r_attach_values w r i s t : R w r -> (t < sfresh w)%nat -> r_owner r i = Some s -> s <> t -> rseq r t <> [] ->
  exists r', r_attach r (Some i) (Some t) = Ok (r', true) /\
    r_values r' s = rev (r_values r t) ++ r_values r s /\ r_values r' t = [] /\
    (forall u, u <> s -> u <> t -> r_values r' u = r_values r u).
Proof.
  intros HR Lt Oi NE NN. unfold r_attach. destruct (rseq r t) as [|x l] eqn:L; [contradiction|].
  rewrite Oi. destruct (onat_eqb_spec (Some t) (Some s)) as [Q|_]; [congruence|].
  destruct (move_all_shape true (x :: l) w r i s t HR Lt L Oi NE) as (r' & M & S1 & S2 & S3 & S4 & _).
  rewrite M. cbn [bind]. exists r'. split; [reflexivity|]. unfold r_values.
  assert (V : forall u, map (rval r') (rseq r u) = map (rval r) (rseq r u)).
  { intros u. apply map_rval_ext. intros y I. apply S4. eapply members_lt; eassumption. }
  split; [|split].
  - rewrite S1, map_app, map_rev, L, <- L, !V. reflexivity.
  - now rewrite S2.
  - intros u N1 N2. now rewrite (S3 u N1 N2), V.
Qed.

(* ---- UnmarshalJSON, first loop: the decoded values are pushed on the temporary stack *)
Lemma fill_shape : forall vs w r h ns, R w r -> r_owner r h = Some ns ->
  exists r' h', r_fill r (Some h) vs = Ok (r', Some h') /\ r_owner r' h' = Some ns /\
    map (rval r') (rseq r' ns) = rev vs ++ map (rval r) (rseq r ns) /\
    (forall u, u <> ns -> rseq r' u = rseq r u) /\ (forall u, rsen r' u = rsen r u) /\
    (forall x, (x < rif r)%nat -> rval r' x = rval r x) /\ (rif r <= rif r')%nat /\ rsf r' = rsf r /\
    exists w', R w' r' /\ sfresh w' = sfresh w.
Proof.
  induction vs as [|v vs IH]; intros w r h ns HR Oh.
  - exists r, h. simpl. repeat (split; [auto|]). eauto.
  - cbn [r_fill]. destruct (alloc_sim w r 0 true HR) as (HR1 & Ex).
    destruct (r_alloc r 0 true) as (r1, e) eqn:RA. cbn [fst snd] in HR1, Ex.
    assert (e = rif r /\ r1 = mkR (rseq r) (rsen r) (upd (rval r) (rif r) 0) (upd (rok r) (rif r) true) (upd (rnx r) (rif r) None) (S (rif r)) (rsf r))
      as (-> & ->) by (unfold r_alloc in RA; inv RA; auto).
    set (r1 := mkR (rseq r) (rsen r) (upd (rval r) (rif r) 0) (upd (rok r) (rif r) true) (upd (rnx r) (rif r) None) (S (rif r)) (rsf r)) in *.
    set (w1 := fst (alloc_item w (mkItem None None true 0))) in *.
    assert (OE : forall y, r_owner r1 y = r_owner r y) by (intros y; apply r_owner_ext; reflexivity).
    assert (Oe : r_owner r (rif r) = None).
    { rewrite (owner_sim _ _ _ HR). apply (wf_ifresh _ _ _ (r_wf _ _ HR)). rewrite (r_if _ _ HR). lia. }
    assert (S1 : r_set r1 (Some (rif r)) v =
                 Ok (mkR (rseq r) (rsen r) (upd (rval r1) (rif r) v) (upd (rok r1) (rif r) true) (rnx r1) (S (rif r)) (rsf r), true)).
    { unfold r_set, r_is_sentinel. now rewrite OE, Oe. }
    rewrite S1. cbn [bind fst snd].
    set (r2 := mkR (rseq r) (rsen r) (upd (rval r1) (rif r) v) (upd (rok r1) (rif r) true) (rnx r1) (S (rif r)) (rsf r)) in *.
    pose proof (set_sim w1 r1 (Some (rif r)) v HR1) as SS. rewrite S1 in SS.
    destruct (i_set w1 (Some (rif r)) v) as [[w2 b]| |]; try contradiction. destruct SS as (_ & HR2 & SF2 & _).
    assert (OE2 : forall y, r_owner r2 y = r_owner r y) by (intros y; apply r_owner_ext; reflexivity).
    assert (A : r_append r2 (Some h) (Some (rif r)) = Ok (r_cons r2 ns (rif r), Some (rif r))).
    { unfold r_append. rewrite !OE2, Oh, Oe. simpl. now rewrite upd_same. }
    rewrite A. cbn [bind fst snd].
    assert (Ln : forall j, Some (rif r) = Some j -> (j < ifresh w2)%nat).
    { intros j E. inv E. rewrite (r_if _ _ HR2). simpl. lia. }
    pose proof (append_sim w2 r2 (Some h) (Some (rif r)) HR2 Ln) as AS. rewrite A in AS.
    destruct (i_append w2 (Some h) (Some (rif r))) as [[w3 y]| |] eqn:IA; try contradiction. destruct AS as (_ & HR3).
    assert (SF3 : sfresh w3 = sfresh w).
    { rewrite (r_sf _ _ HR3). simpl. symmetry. apply (r_sf _ _ HR). }
    assert (O3 : r_owner (r_cons r2 ns (rif r)) (rif r) = Some ns).
    { apply (owner_of_in _ _ _ _ HR3). unfold r_in, r_cons. simpl. now rewrite upd_same; simpl; rewrite Nat.eqb_refl. }
    destruct (IH w3 (r_cons r2 ns (rif r)) (rif r) ns HR3 O3) as (r' & h' & F & Oh' & V & U1 & U2 & U3 & U4 & U5 & w' & HR' & SF').
    exists r', h'. split; [exact F|]. split; [exact Oh'|]. split.
    + rewrite V. unfold r_cons. simpl. rewrite !upd_same. simpl. rewrite <- app_assoc. simpl. f_equal. f_equal.
      * now rewrite ?upd_same.
      * apply map_ext_in. intros x I. pose proof (members_lt _ _ _ _ HR I).
        now rewrite !upd_other by lia.
    + split; [intros u NE; rewrite (U1 u NE); unfold r_cons; simpl; now rewrite upd_other by assumption|].
      split; [exact U2|]. split.
      * intros x Lx. rewrite U3 by (simpl; lia). simpl. now rewrite !upd_other by lia.
      * split; [simpl in U4; lia|]. split; [exact U5|]. exists w'. split; [exact HR'|congruence].
Qed.

(* ---- UnmarshalJSON(vs) on stack s: vs ++ old values; nothing else changes *)
Lemma r_unmarshal_values w r s vs : R w r -> (s < sfresh w)%nat ->
  exists r', r_unmarshal r s vs = Ok r' /\ r_values r' s = vs ++ r_values r s /\
    (forall u, (u < rsf r)%nat -> u <> s -> r_values r' u = r_values r u).
Proof.
  intros HR Ls. unfold r_unmarshal.
  pose proof (alloc_stack_sim _ _ HR) as HR0. unfold alloc_stack in HR0. cbn [fst] in HR0.
  set (r0 := mkR (rseq r) (rsen r) (rval r) (rok r) (rnx r) (rif r) (S (rsf r))) in *.
  set (w0 := mkWorld (items w) (upd (stacks w) (sfresh w) (mkSrec None 0)) (ifresh w) (S (sfresh w))) in *.
  set (ns := rsf r). assert (Ens : ns = sfresh w) by (symmetry; apply (r_sf _ _ HR)).
  assert (L0 : (ns < sfresh w0)%nat) by (simpl; lia).
  destruct (R_rsen_fresh _ _ ns HR (Nat.le_refl _)) as (Sns & Cns).
  destruct (head_sim w0 r0 ns HR0 L0) as (E1 & HR1). unfold r_head, s_head in *. cbn [fst snd] in E1, HR1.
  destruct (lazy_init_head _ _ _ HR0 L0) as (h & Hd & T & SF1).
  set (r1 := r_init r0 ns) in *.
  assert (Oh : r_owner r1 h = Some ns).
  { rewrite (owner_sim _ _ _ HR1). now destruct (R_head_owner _ _ _ _ HR1 Hd) as (? & _). }
  rewrite T.
  destruct (fill_shape vs _ r1 h ns HR1 Oh) as (r2 & h' & F & Oh' & V & U1 & U2 & U3 & U4 & U5 & w2 & HR2 & SF2).
  rewrite F. cbn [bind fst snd].
  assert (Ls2 : (s < sfresh w2)%nat) by (rewrite SF2, SF1; simpl; lia).
  assert (Lns2 : (ns < sfresh w2)%nat) by (rewrite SF2, SF1; simpl; lia).
  pose proof (lazy_init_sim _ _ _ HR2 Ls2) as HR3.
  destruct (lazy_init_head _ _ _ HR2 Ls2) as (i & Hd3 & T3 & SF3). rewrite T3.
  set (r3 := r_init r2 s) in *.
  assert (Oi : r_owner r3 i = Some s).
  { rewrite (owner_sim _ _ _ HR3). now destruct (R_head_owner _ _ _ _ HR3 Hd3) as (? & _). }
  assert (NEs : s <> ns) by lia.
  destruct (move_all_shape false (rseq r3 ns) _ r3 i s ns HR3) as (r' & M & S1 & S2 & S3 & S4 & _); auto; try lia.
  exists r'. split; [exact M|].
  assert (Q1 : rseq r3 ns = rseq r2 ns) by apply r_init_rseq.
  assert (Q2 : rseq r1 ns = []) by (unfold r1; rewrite r_init_rseq; exact Cns).
  assert (VV : forall l, (forall x, In x l -> (x < rif r)%nat) -> map (rval r') l = map (rval r) l).
  { intros l Hl. apply map_ext_in. intros x I. specialize (Hl x I).
    assert (LE1 : (rif r <= rif r1)%nat) by (unfold r1; pose proof (r_init_le r0 ns) as (? & _); simpl in *; lia).
    assert (LE3 : (rif r2 <= rif r3)%nat) by (unfold r3; pose proof (r_init_le r2 s) as (? & _); lia).
    rewrite S4 by lia.
    assert (rval r3 x = rval r2 x) as ->.
    { unfold r3, r_init. destruct (rsen r2 s); simpl; [reflexivity|]. now rewrite upd_other by lia. }
    rewrite U3 by lia. unfold r1, r_init. destruct (rsen r0 ns); simpl; [reflexivity|]. now rewrite upd_other by lia. }
  assert (VN : map (rval r') (rseq r2 ns) = rev vs).
  { rewrite Q2 in V. simpl in V. rewrite app_nil_r in V. rewrite <- V. apply map_ext_in. intros x I.
    assert (LE3 : (rif r2 <= rif r3)%nat) by (unfold r3; pose proof (r_init_le r2 s) as (? & _); lia).
    rewrite S4 by (pose proof (members_lt _ _ _ _ HR2 I); lia).
    unfold r3, r_init. destruct (rsen r2 s); simpl; [reflexivity|].
    pose proof (members_lt _ _ _ _ HR2 I). now rewrite upd_other by lia. }
  split.
  - unfold r_values. rewrite S1, map_app, map_rev, Q1, VN, rev_involutive. f_equal.
    unfold r3. rewrite r_init_rseq, (U1 s NEs). unfold r1. rewrite r_init_rseq. simpl.
    apply VV. intros x I. eapply members_lt; eassumption.
  - intros u Lu NE. unfold r_values. assert (u <> ns) by (unfold ns; lia).
    rewrite (S3 u NE H). unfold r3. rewrite r_init_rseq, (U1 u H). unfold r1. rewrite r_init_rseq. simpl.
    apply VV. intros x I. eapply members_lt; eassumption.
Qed.

(* ---- PopIterator: yields the values and leaves the stack empty *)
Lemma r_pop_all_empty : forall l w r s, R w r -> (s < sfresh w)%nat -> rseq r s = l ->
  rseq (r_pop_all (length l) r s) s = [] /\ (forall t, t <> s -> rseq (r_pop_all (length l) r s) t = rseq r t).
Proof.
  induction l as [|x l IH]; intros w r s HR Ls L; cbn [length r_pop_all].
  - rewrite (r_pop_nil _ _ L). cbn [fst]. rewrite r_init_rseq. split; [exact L|intros; apply r_init_rseq].
  - destruct (pop_sim _ _ _ HR Ls) as (_ & HR1). pose proof (R_sfresh_pop _ _ _ HR Ls) as SF.
    rewrite (r_pop_cons _ _ _ _ _ HR L) in *. cbn [fst] in *.
    edestruct (IH _ _ s HR1) as (A & B); [lia|simpl; apply upd_same|]. split; [exact A|].
    intros t NE. rewrite (B t NE). simpl. now rewrite upd_other by assumption.
Qed.

Lemma r_popiter_values w r s : R w r -> (s < sfresh w)%nat ->
  snd (r_popiter r s) = r_values r s /\ rseq (fst (r_popiter r s)) s = [] /\
  (forall t, t <> s -> rseq (fst (r_popiter r s)) t = rseq r t).
Proof.
  intros HR Ls. unfold r_popiter. cbn [fst snd]. split; [reflexivity|]. eapply r_pop_all_empty; eauto.
Qed.

(* ---- Append(vs...) = push each *)
Lemma r_appendv_values vs : forall w r s, R w r -> (s < sfresh w)%nat ->
  r_values (r_appendv r s vs) s = rev vs ++ r_values r s /\ (forall t, t <> s -> r_values (r_appendv r s vs) t = r_values r t).
Proof.
  induction vs as [|v vs IH]; intros w r s HR Ls; simpl; [auto|].
  destruct (push_sim _ _ _ v HR Ls) as (w1 & _ & HR1 & SF). destruct (r_push_values _ _ _ v HR Ls) as (P1 & P2).
  destruct (IH w1 (r_push r s v) s HR1) as (A & B); [lia|]. split.
  - rewrite A, P1, <- app_assoc. reflexivity.
  - intros t NE. now rewrite (B t NE), (P2 t NE).
Qed.

(* ---- JSON round trip: what MarshalJSON encodes, decoded into an empty stack, is the same sequence *)
Lemma r_json_roundtrip w r s t : R w r -> (t < sfresh w)%nat -> rseq r t = [] ->
  exists r', r_unmarshal r t (snd (r_walk r s)) = Ok r' /\ r_values r' t = snd (r_walk r s).
Proof.
  intros HR Lt E. destruct (r_unmarshal_values _ _ t (snd (r_walk r s)) HR Lt) as (r' & U & V & _).
  exists r'. split; [exact U|]. rewrite V. unfold r_values. rewrite E. apply app_nil_r.
Qed.

Lemma r_walk_values w r s : R w r -> snd (r_walk r s) = r_values r s.
Proof.
  intros HR. unfold r_walk, r_values. simpl. rewrite r_init_rseq. apply map_ext_in. intros x I.
  unfold r_init. destruct (rsen r s); simpl; [reflexivity|].
  pose proof (members_lt _ _ _ _ HR I). now rewrite upd_other by lia.
Qed.
