(* C11 - Orchestrator run loop: inductive invariants and the two orchestrator theorems. *)
From FunV Require Import Base.Tac Model.OrchestratorModel Proofs.Orchestrator_base.
Import Orch.

Section Proofs.
Variable oc : nat -> outcome.
Notation step := (Orch.step oc).

Ltac open_step s e H :=
  destruct s as [c q p w gs gw v e0 ex d a r res]; destruct e; simpl in H; destr_step H;
  inversion H; subst; clear H; simpl in *.

Definition handled (s : st) (i : nat) : Prop :=
  pc s = LChk1 i \/ pc s = LChk2 i \/ In i (gstart s) \/ In i (gwait s) \/ In i (dn s).

Definition past_loop (s : st) : Prop := pc s = LJoin \/ pc s = LDone.

Definition inv_runs (s : st) : Prop :=
  forall i, (sv s i = SIdle \/ sv s i = SStarted -> runs s i = 0) /\
            (sv s i = SRunning \/ sv s i = SFinished -> runs s i = 1).
Definition inv_wg (s : st) : Prop := wg s = length (gstart s) + length (gwait s).
Definition inv_ec (s : st) : Prop := forall i, In i (ec s) -> fails (oc i) = true.
Definition inv_dn (s : st) : Prop :=
  forall i, In i (dn s) -> sv s i = SFinished /\ (fails (oc i) = true -> In i (ec s)).
Definition inv_ctx (s : st) : Prop := past_loop s -> cancelled s = true.
Definition inv_acc (s : st) : Prop :=
  forall i, In i (acc s) -> handled s i \/ (In i (queue s) /\ ~ past_loop s).
Definition inv_done (s : st) : Prop := pc s = LDone -> result s = Some (ec s) /\ wg s = 0.

Lemma inv_runs_step s e s' : inv_runs s -> step s e = Some s' -> inv_runs s'.
Proof.
  unfold inv_runs. intros R H. open_step s e H; try assumption; intros i0; specialize (R i0) as [R0 R1].
  all: phase_facts; upd_all.
  all: try (split; intros [X|X]; try discriminate X; try congruence; auto).
Qed.

Lemma inv_wg_step s e s' : inv_wg s -> step s e = Some s' -> inv_wg s'.
Proof.
  unfold inv_wg. intros W H. open_step s e H; try assumption; phase_facts; simpl; try lia.
  all: try (match goal with Hin : In ?i ?l |- context [rm1 ?i ?l] => pose proof (length_rm1 i l Hin) end; lia).
Qed.

Lemma inv_ec_step s e s' : inv_ec s -> step s e = Some s' -> inv_ec s'.
Proof.
  unfold inv_ec. intros E H. open_step s e H; try assumption; intros j Hj.
  all: apply In_add_err in Hj; destruct Hj as [[-> F]|Hj]; auto.
Qed.

Lemma inv_dn_step s e s' : inv_dn s -> step s e = Some s' -> inv_dn s'.
Proof.
  unfold inv_dn. intros D H. open_step s e H; try assumption; intros j Hj; phase_facts.
  all: try (destruct Hj as [<-|Hj]; [split; [assumption|intros F; apply In_add_err; now left]|]).
  all: try (specialize (D j Hj) as [D1 D2]; upd_all; split; try congruence; auto using In_add_err_mono; fail).
Qed.

Lemma inv_ctx_step s e s' : inv_ctx s -> step s e = Some s' -> inv_ctx s'.
Proof.
  unfold inv_ctx, past_loop. intros C H. open_step s e H; try assumption; try reflexivity.
  all: try (intros [X|X]; discriminate X).
  all: try (intros _; apply C; auto; fail).
Qed.

Lemma inv_acc_step s e s' : inv_ctx s -> inv_acc s -> step s e = Some s' -> inv_acc s'.
Proof.
  unfold inv_ctx, inv_acc, handled, past_loop. intros C A H.
  open_step s e H; try assumption; intros j Hj; phase_facts.
  all: try (destr_step Hj; simpl in Hj).
  all: try (destruct Hj as [<-|Hj]; [right; split; [apply in_or_app; right; now left|
             intros X; specialize (C X); congruence]|]).
  all: try (specialize (A j Hj)).
  all: try (destruct A as [[X|[X|[X|[X|X]]]]|[X Y]]; try discriminate X; try (inversion X; subst; clear X)).
  all: try (left; tauto).
  all: try (right; split; [try (apply in_or_app; left); assumption | intros [Z|Z]; try discriminate Z; apply Y; auto]; fail).
  all: try (simpl in X; destruct X as [<-|X]; [left; auto | right; split; [assumption|intros [Z|Z]; discriminate Z]]; fail).
  all: try (match goal with Hin : In ?jj ?l |- context [rm1 ?i ?l] =>
              destruct (In_rm1_or jj i l Hin) as [->|?]; left; simpl; tauto end; fail).
  all: try (exfalso; apply Y; auto; fail).
  all: try (simpl in X; tauto).
Qed.

Lemma inv_done_step s e s' : inv_wg s -> inv_done s -> step s e = Some s' -> inv_done s'.
Proof.
  unfold inv_wg, inv_done. intros W D H. open_step s e H; try assumption; try discriminate; phase_facts.
  all: try (intros X; specialize (D X) as [D1 D2]; subst; split; auto; fail).
  all: try (intros X; specialize (D X) as [D1 D2]; subst;
            exfalso; match goal with Hin : In _ ?l |- _ => destruct l; [inversion Hin|simpl in *; lia] end).
  all: try (intros _; split; reflexivity).
Qed.

Record inv (s : st) : Prop := {
  i_runs : inv_runs s; i_wg : inv_wg s; i_ec : inv_ec s; i_dn : inv_dn s;
  i_ctx : inv_ctx s; i_acc : inv_acc s; i_done : inv_done s }.

Lemma inv_init : inv init.
Proof.
  constructor; red; simpl; try tauto.
  - intros i. split; intros [H|H]; try discriminate H; reflexivity.
  - intros [H|H]; discriminate.
  - discriminate.
Qed.

Lemma inv_step s e s' : inv s -> step s e = Some s' -> inv s'.
Proof.
  intros [R W E D C A F] H. constructor.
  - eapply inv_runs_step; eauto.
  - eapply inv_wg_step; eauto.
  - eapply inv_ec_step; eauto.
  - eapply inv_dn_step; eauto.
  - eapply inv_ctx_step; eauto.
  - eapply inv_acc_step; eauto.
  - eapply inv_done_step; eauto.
Qed.

Lemma reach_inv s : reach oc s -> inv s.
Proof. intros (tr & Htr). eapply invariant_run; [apply inv_step|apply inv_init|exact Htr]. Qed.
End Proofs.

(* ---------------------------------------------------------------- theorems *)

(* runs s i = number of times Run of service i has been entered;  acc s = services whose Add returned
   nil before the context was cancelled;  pc s = LDone = the orchestrator's Run has returned, which is
   the only state in which Orchestrator.Wait() returns (event EWaitRet). *)
Lemma orch_started_at_most_once_and_awaited_lemma :
  forall (oc : nat -> outcome) (s : st), reach oc s ->
    (forall i, runs s i <= 1) /\
    (forall obs s', Orch.step oc s (EWaitRet obs) = Some s' ->
       forall i, In i (acc s) -> sv s i = SFinished /\ runs s i = 1).
Proof.
  intros oc s Hr. destruct (reach_inv oc s Hr) as [R W E D C A F]. split.
  - intros i. destruct (R i) as [R0 R1]. destruct (sv s i) eqn:V.
    + rewrite R0; auto.
    + rewrite R0; auto.
    + rewrite R1; auto.
    + rewrite R1; auto.
  - intros obs s' Hs i Hi.
    assert (P : pc s = LDone).
    { destruct s; simpl in *. destruct pc0; try discriminate. reflexivity. }
    destruct (F P) as [_ W0]. red in W. rewrite W0 in W.
    assert (Fin : sv s i = SFinished).
    { destruct (A i Hi) as [[X|[X|[X|[X|X]]]]|[_ Y]].
      - congruence.
      - congruence.
      - destruct (gstart s); [inversion X|simpl in W; lia].
      - destruct (gwait s); [inversion X|simpl in W; lia].
      - now apply D.
      - exfalso. apply Y. now right. }
    split; [assumption|]. apply R. now right.
Qed.

Lemma orch_wait_error_complete_lemma :
  forall (oc : nat -> outcome) (s : st), reach oc s ->
    forall obs s', Orch.step oc s (EWaitRet obs) = Some s' ->
      (forall i, In i (acc s) -> fails (oc i) = true -> In i obs) /\
      (forall i, In i obs -> fails (oc i) = true).
Proof.
  intros oc s Hr obs s' Hs. destruct (reach_inv oc s Hr) as [R W E D C A F].
  assert (P : pc s = LDone /\ same_set obs (ec s) = true).
  { destruct s; simpl in *. destruct pc0; try discriminate. destruct (F eq_refl) as [F1 _]. simpl in F1. subst.
    destruct (same_set obs ec0) eqn:X; [auto|discriminate]. }
  destruct P as [P S]. rewrite same_set_spec in S.
  destruct (F P) as [_ W0]. red in W. rewrite W0 in W.
  split.
  - intros i Hi Fi. apply S.
    destruct (A i Hi) as [[X|[X|[X|[X|X]]]]|[_ Y]].
    + congruence.
    + congruence.
    + destruct (gstart s); [inversion X|simpl in W; lia].
    + destruct (gwait s); [inversion X|simpl in W; lia].
    + now apply D.
    + exfalso. apply Y. now right.
  - intros i Hi. apply E. now apply S.
Qed.

(* non-vacuity: a run with a service added before the orchestrator starts, one added while it runs
   (failing), one blocking until the cancellation, and one added after the cancellation that is never
   picked up; Wait returns and reports exactly the failure. *)
Definition ex_oc (i : nat) : outcome := match i with 1 => Err | 2 => BlkErr | _ => Ok end.
Definition ex_trace : list ev :=
  [EAdd 0; EOrchStart; ELoopRemove; EChkRunning; EChkFinished; EGStart 0; ERunBegin 0;
   EAdd 1; EAdd 2; ELoopRemove; EChkRunning; EChkFinished; ELoopRemove; EChkRunning; EChkFinished;
   EGStart 2; EGStart 1; ERunBegin 1; ERunBegin 2; ERunEnd 1; ERunEnd 0; EGWait 0; EGWait 1;
   ELoopEmpty; ECancel; ELoopWaitCtx; EAdd 3; ERunEnd 2; EGWait 2; EJoin; EWaitRet [2; 1]].
Example orch_nonvacuous :
  exists s, run (Orch.step ex_oc) init ex_trace = Some s /\ pc s = LDone /\ acc s = [2; 1; 0]
            /\ result s = Some [2; 1] /\ queue s = [3].
Proof. eexists. split; [vm_compute; reflexivity|]. repeat split. Qed.
Example orch_accepts_example :
  Orch.accepts ex_oc (filter observable ex_trace) = true.
Proof. vm_compute. reflexivity. Qed.

(* the interleaving behind seeded change C11-ind-1: the owner of a service that was added unstarted calls
   Start after the run loop's Running()/isFinished checks and before the starter goroutine's own Start.
   The starter's Start then fails ("already started", counted in ecx) and the goroutine STILL waits for the
   service: its failure is in Wait's error.  (EEnvStart may occur at any point of any trace, so theorems
   orch_started_at_most_once_and_awaited / orch_wait_error_complete cover every such placement.) *)
Definition race_trace : list ev :=
  [EAdd 1; EOrchStart; ELoopRemove; EChkRunning; EChkFinished; EEnvStart 1; EGStart 1; ERunBegin 1; ERunEnd 1;
   EGWait 1; ELoopEmpty; ECancel; ELoopWaitCtx; EJoin; EWaitRet [1]].
Example orch_owner_start_between_check_and_start :
  exists s, run (Orch.step ex_oc) init race_trace = Some s /\ pc s = LDone /\ ecx s = 1
            /\ result s = Some [1] /\ sv s 1 = SFinished.
Proof. eexists. split; [vm_compute; reflexivity|]. repeat split. Qed.
Example orch_accepts_owner_race : Orch.accepts ex_oc (filter observable race_trace) = true.
Proof. vm_compute. reflexivity. Qed.
(* a log in which Wait returns without that service's failure (what the seeded change produces) is rejected *)
Example orch_rejects_owner_race_error_lost :
  Orch.accepts ex_oc [EAdd 1; EOrchStart; EEnvStart 1; ERunBegin 1; ERunEnd 1; ECancel; EWaitRet []] = false.
Proof. vm_compute. reflexivity. Qed.
