(* C04_finite_input_eof for a multi-worker construct: GenerateParallel (end-of-stream generator), any number
   of workers, any input, any interleaving. Deadlock freedom: a reachable state of an un-aborted run in which
   no step is enabled is terminal - every goroutine has returned (progress: in every reachable NON-terminal
   state some step is enabled). With C01_complete: at that point the consumer has seen io.EOF after a
   permutation of the whole input. *)
From FunV Require Import Base.Tac Base.ListX Model.Pipelines
  Proofs.Pipelines_conserve Proofs.Pipelines_quiesce Proofs.Pipelines_nets Proofs.Pipelines_complete Proofs.Pipelines_closer
  Proofs.Pipelines_release Proofs.Pipelines_nodrop Proofs.Pipelines_completeness.

Lemma cap_step N s l s' ch c :
  step N s l = Some s' -> nth_error (s_chans s) ch = Some c -> exists c', nth_error (s_chans s') ch = Some c' /\ c_cap c' = c_cap c.
Proof.
  intros H Hc. destruct l; cbn [step] in H.
  - destruct (cur_instr N s p) as [[[pr d] i]|]; [|discriminate].
    destruct i; cbn [exec] in H; exec_cases H; inv H; unfold start; cbv zeta; unf;
      repeat match goal with |- context [if ?b then _ else _] => destruct b end; cbn [s_chans]; eauto;
      (destruct (Nat.eq_dec ch0 ch) as [->|Hne]; [|exists c; rewrite nth_error_upd_other by auto; auto]);
      (eexists; split; [eapply nth_error_upd_same; eauto|]; cbn [c_cap]; congruence).
  - destruct (p =? q); [discriminate|].
    destruct (cur_instr N s p) as [[[pr d] i]|]; [|discriminate]. destruct i; try discriminate.
    destruct (cur_instr N s q) as [[[qr dq] iq]|]; [|discriminate]. destruct iq; try discriminate.
    exec_cases H. inv H. eauto.
  - exec_cases H. inv H. eauto.
  - inv H. eauto.
  - inv H. eauto.
  - exec_cases H; inv H; eauto.
Qed.

Lemma close_effect N s p pr d ch k arm s' :
  exec N s p pr d (IClose ch k) arm = Some s' -> nth_error (s_chans s) ch <> None -> closedb s' ch = true.
Proof.
  intros H Hn. cbn [exec] in H. destruct arm; [discriminate|]. destruct (nth_error (s_chans s) ch) as [c|] eqn:E; [|contradiction].
  inv H. unfold closedb. unf. cbn [s_chans]. now rewrite (nth_error_upd_same _ _ _ _ E).
Qed.

Lemma enabled_noguard N s p pr d i :
  cur_instr N s p = Some (pr, d, i) -> unguarded_wait i = false -> instr_guards i = [] -> exists arm s', step N s (LStep p arm) = Some s'.
Proof. intros Hc Hu Hg. apply (ctx_guarded_enabled N s p pr d i Hc Hu). rewrite Hg. intros g []. Qed.

Section GenProgress.
Variable n : nat.
Notation N := (gen_net n GEof).

Record p2 (s : state) : Prop := {
  p_cap : exists c, nth_error (s_chans s) 0 = Some c /\ c_cap c = 2 * n + 1;
  p_k : forall c, nth_error (s_procs s) 0 = Some c -> p_st c = PRun -> n + 2 <= p_pc c <= n + 5 -> started s 2;
  p_l : forall cl, nth_error (s_procs s) 2 = Some cl -> p_st cl = PDone \/ (p_st cl = PRun /\ p_pc cl = 3) -> closedb s 0 = true
}.

Lemma p2_step s l s' : g2 n s -> p2 s -> step N s l = Some s' -> p2 s'.
Proof.
  intros G P H. split.
  - destruct (p_cap _ P) as (c & Hc & E). destruct (cap_step _ _ _ _ _ _ H Hc) as (c' & Hc' & E'). exists c'. split; auto. congruence.
  - intros c' Hc' Er Hpc.
    destruct (pc_step _ _ _ _ _ _ H Hc' Er) as [Same|[(E0 & _)|[(arm & pr & d & i & -> & Hc & Hin)|[(q & pr & d & ch & g & ko & ke & kr & -> & Hc & E)|(q & pr & d & ch & g & ki & ke & kr & -> & Hc & E)]]]].
    + eapply started_mono; eauto. eapply (p_k _ P); eauto.
    + lia.
    + pose proof (cons_cur n _ _ _ _ Hc) as X. pose proof Hc as Hc0. apply cur_instr_inv in Hc as (Hp & _ & Hr & _).
      destruct X as [(E0 & ->)|[(E0 & ->)|[(E0 & ->)|[(E0 & ->)|[(E0 & ->)|[(E0 & ->)|[(E0 & ->)|(E0 & ->)]]]]]]]; cbn [targets In] in Hin;
        try lia; try (eapply started_mono; eauto; eapply (p_k _ P); eauto; lia).
      destruct (ci_closer _ _ _ _ (g_c _ _ G)) as (cl0 & Hcl0 & _). eapply spawn_started; eauto.
    + exfalso. apply (cons_cur n) in Hc. intuition discriminate.
    + pose proof (cons_cur n _ _ _ _ Hc) as X. apply cur_instr_inv in Hc as (Hp & _ & Hr & _).
      destruct X as [(_ & E1)|[(_ & E1)|[(_ & E1)|[(E0 & E1)|[(_ & E1)|[(_ & E1)|[(_ & E1)|(_ & E1)]]]]]]]; try discriminate.
      eapply started_mono; eauto. eapply (p_k _ P); eauto. lia.
  - intros cl' Hcl' Hfin.
    assert (KEEP : closedb s 0 = true -> closedb s' 0 = true) by (eapply closed_mono; eauto).
    destruct Hfin as [Ed|(Er & Epc)].
    + destruct (done_from _ _ _ _ _ _ H Hcl' Ed) as [Same|(pr & d & Hc)].
      * apply KEEP. eapply (p_l _ P); eauto.
      * apply KEEP. pose proof (cur2 N 0 (G2 n) _ _ _ _ Hc) as X. apply cur_instr_inv in Hc as (Hp & _ & Hr & _).
        apply closer_instr in X as [(_ & E)|[(_ & E)|[(_ & E)|(E3 & _)]]]; try discriminate. eapply (p_l _ P); eauto.
    + destruct (pc_step _ _ _ _ _ _ H Hcl' Er) as [Same|[(E0 & _)|[(arm & pr & d & i & -> & Hc & Hin)|[(q & pr & d & ch & g & ko & ke & kr & -> & Hc & E)|(q & pr & d & ch & g & ki & ke & kr & -> & Hc & E)]]]].
      * apply KEEP. eapply (p_l _ P); eauto.
      * lia.
      * pose proof (cur2 N 0 (G2 n) _ _ _ _ Hc) as X. cbn [step] in H. rewrite Hc in H.
        apply closer_instr in X as [(_ & ->)|[(_ & ->)|[(_ & ->)|(_ & ->)]]]; cbn [targets In] in Hin; try lia.
        eapply close_effect; eauto. destruct (p_cap _ P) as (c & Hc0 & _). congruence.
      * exfalso. apply (cur2 N 0 (G2 n)) in Hc. apply closer_instr in Hc. intuition discriminate.
      * exfalso. apply (cur2 N 0 (G2 n)) in Hc. apply closer_instr in Hc. intuition discriminate.
Qed.

Lemma p2_init input : p2 (gen_init n input).
Proof.
  unfold gen_init, fanin_init. split.
  - eexists. split; [reflexivity|reflexivity].
  - intros c Hc _ Hpc. cbn in Hc. inv Hc. cbn in Hpc. lia.
  - intros cl Hcl Hfin. cbn in Hcl. inv Hcl. destruct Hfin as [E|(E & _)]; discriminate.
Qed.

Lemma gcp_ireach input s : ireach N (gen_init n input) s -> g2 n s /\ c2 n s /\ p2 s.
Proof.
  induction 1 as [|s l s' R (G & C & P) Hi H]; [split; [apply g2_init|split; [apply c2_init|apply p2_init]]|].
  split; [eapply g2_step; eauto|split; [eapply c2_step; eauto|eapply p2_step; eauto]].
Qed.

(* deadlock freedom *)
Theorem gen_eof_deadlock_free input s :
  reach N (gen_init n input) s -> s_stopped s = false -> quiescent N s -> all_done s.
Proof.
  intros R Hs Q. destruct (gcp_ireach input s (reach_unstopped _ _ _ R Hs)) as (G & C & P).
  pose proof (ci_g _ _ _ _ (g_c _ _ G)) as I.
  assert (STUCK : forall p pr d i, cur_instr N s p = Some (pr, d, i) -> (exists arm s', step N s (LStep p arm) = Some s') -> False).
  { intros p pr d i _ (arm & s' & E). rewrite (Q (LStep p arm) eq_refl) in E. discriminate. }
  assert (CUR : forall p pr, nth_error (s_procs s) p = Some pr -> p_st pr = PRun -> exists d i, cur_instr N s p = Some (pr, d, i)).
  { intros p pr Hp Hr. destruct (nth_error (n_procs N) p) as [d|] eqn:Hd.
    - pose proof (gi_pc _ _ I p pr d Hp Hd Hr) as Hpc.
      destruct (nth_error (d_prog d) (p_pc pr)) as [i|] eqn:Ei; [|apply nth_error_None in Ei; lia].
      exists d, i. apply cur_instr_mk; auto.
    - exfalso. apply nth_error_None in Hd. rewrite <- (gi_len _ _ I) in Hd.
      assert (p < length (s_procs s)) by (apply nth_error_Some; congruence). lia. }
  destruct (p_cap _ P) as (c0 & Hc0 & Hcap).
  assert (WGZ : (forall j pr, j < n -> nth_error (s_procs s) (3 + j) = Some pr -> p_st pr <> PRun) -> s_wg s = 0).
  { intros NW. rewrite (gi_wg _ _ I). apply wgc_zero. intros p pr d Hp Hd Hw.
    apply (Gdesc n) in Hd as [(-> & ->)|[(-> & ->)|[(-> & ->)|(j & Hj & -> & ->)]]]; try discriminate.
    unfold runb. destruct (p_st pr) eqn:E; auto. exfalso. eapply NW; eauto. }
  (* the closer, once started and with the wait group at zero, can always step - unless it has returned *)
  assert (CLOSER : s_wg s = 0 -> forall cl, nth_error (s_procs s) 2 = Some cl -> p_st cl = PRun -> False).
  { intros Hwg cl Hcl Hr. destruct (CUR _ _ Hcl Hr) as (d & i & Hc). pose proof (cur2 N 0 (G2 n) _ _ _ _ Hc) as X.
    apply closer_instr in X as [(_ & ->)|[(_ & ->)|[(_ & ->)|(_ & ->)]]];
      try (eapply STUCK; eauto; apply (enabled_noguard N s _ _ _ _ Hc); reflexivity).
    eapply STUCK; eauto. exists false. eexists. cbn [step]. rewrite Hc. cbn [exec]. rewrite Hwg. reflexivity. }
  destruct (ci_cons _ _ _ _ (g_c _ _ G)) as (c & Hc & Hns & _).
  (* 1: the consumer has returned *)
  assert (Dc : p_st c = PDone).
  { destruct (p_st c) eqn:Ec; auto; [contradiction| |exfalso; eapply (c_na _ _ C); eauto]. exfalso.
    destruct (CUR _ _ Hc Ec) as (d & i & Hcur). pose proof (cons_cur n _ _ _ _ Hcur) as X.
    destruct X as [(_ & ->)|[(_ & ->)|[(_ & ->)|[(Epc & ->)|[(_ & ->)|[(_ & ->)|[(_ & ->)|(_ & ->)]]]]]]];
      try (eapply STUCK; eauto; apply (enabled_noguard N s _ _ _ _ Hcur); reflexivity).
    (* blocked in the receive: the pipe is open and empty *)
    destruct (c_buf c0) as [|x r] eqn:Eb;
      [|eapply STUCK; eauto; exists false; eexists; cbn [step]; rewrite Hcur; cbn [exec]; rewrite Hc0, Eb; reflexivity].
    destruct (c_closed c0) eqn:Ecl;
      [eapply STUCK; eauto; exists false; eexists; cbn [step]; rewrite Hcur; cbn [exec]; rewrite Hc0, Eb, Ecl; reflexivity|].
    (* so every worker that runs can step: none runs *)
    assert (NW : forall j pr, j < n -> nth_error (s_procs s) (3 + j) = Some pr -> p_st pr <> PRun).
    { intros j pr Hj Hp Hr. destruct (CUR _ _ Hp Hr) as (dw & iw & Hw).
      destruct (worker_cur n _ _ _ _ _ G Hj Hw) as [(_ & ->)|[(_ & ->)|[(_ & ->)|(_ & ->)]]];
        try (eapply STUCK; eauto; apply (enabled_noguard N s _ _ _ _ Hw); reflexivity).
      eapply STUCK; eauto. exists false. cbn [step]. rewrite Hw. cbn [exec].
      destruct (p_hand pr); [|eauto]. rewrite Hc0, Ecl, Eb, Hcap. cbn [length].
      destruct (0 <? 2 * n + 1) eqn:E; [eauto|apply Nat.ltb_ge in E; lia]. }
    (* the closer was started by the consumer, the wait group is at zero: it can step, or it has closed the pipe *)
    pose proof (WGZ NW) as Hwg.
    destruct (p_k _ P c Hc Ec) as (cl & Hcl & Hcs); [lia|].
    destruct (p_st cl) eqn:Ecl2; [contradiction|eapply CLOSER; eauto| |eapply (c_na _ _ C); eauto].
    pose proof (p_l _ P cl Hcl (or_introl Ecl2)) as Hclosed. unfold closedb in Hclosed. rewrite Hc0 in Hclosed. congruence. }
  (* 2: so the pipe is closed and every worker has returned; the closer and goroutine 1 can step if they run *)
  destruct (c_b _ _ C c Hc (or_introl Dc)) as (c1 & Hc1 & Hcl1 & _).
  assert (A : alldone n s). { apply (g_q _ _ G). right. unfold closedb. now rewrite Hc1. }
  assert (NW : forall j pr, j < n -> nth_error (s_procs s) (3 + j) = Some pr -> p_st pr <> PRun).
  { intros j pr Hj Hp Hr. destruct (A j Hj) as (w & Hw1 & Hw2). rewrite Hp in Hw1. inv Hw1. congruence. }
  pose proof (WGZ NW) as Hwg.
  assert (S3 : forall p pr, nth_error (s_procs s) p = Some pr -> p_st pr <> PRun).
  { intros p pr Hp Hr. destruct (CUR _ _ Hp Hr) as (d & i & Hcur). pose proof Hcur as Hcur0.
    apply cur_instr_inv in Hcur as (_ & Hd & _ & Hi).
    apply (Gdesc n) in Hd as [(-> & ->)|[(-> & ->)|[(-> & ->)|(j & Hj & -> & ->)]]].
    - rewrite Hc in Hp. inv Hp. congruence.
    - cbn [d_prog bg] in Hi. destruct (p_pc pr) as [|k]; [|destruct k; discriminate]. cbn in Hi. inv Hi.
      eapply STUCK; eauto. apply (enabled_noguard N s _ _ _ _ Hcur0); reflexivity.
    - eapply CLOSER; eauto.
    - eapply NW; eauto. }
  split; [exact S3|].
  destruct (s_oncew s) as [|k] eqn:Eo; auto. exfalso.
  destruct (gi_once _ _ I) as (po & Hpo & Hnsp); [lia|].
  assert (Hd : is_done s (n_once N) = true).
  { unfold is_done. rewrite Hpo. destruct (p_st po) eqn:Est; auto; [exfalso; eapply S3; eauto|exfalso; eapply (c_na _ _ C); eauto]. }
  pose proof (Q LOnceRel eq_refl) as Hs0. cbn [step] in Hs0. rewrite Eo, Hd in Hs0. discriminate.
Qed.

(* C04_finite_input_eof for GenerateParallel: an un-aborted run that can go no further has finished - nothing
   runs - and the consumer saw io.EOF after a permutation of the whole input *)
Theorem gen_eof_finite_input_eof input s :
  0 < n -> reach N (gen_init n input) s -> s_stopped s = false -> quiescent N s ->
  all_done s /\ Permutation (s_deliv s) input.
Proof.
  intros Hn R Hs Q. pose proof (gen_eof_deadlock_free input s R Hs Q) as A. split; auto. eapply gen_eof_complete; eauto.
Qed.

(* progress, in the contrapositive form: a reachable state of an un-aborted run that is not terminal has an
   enabled step *)
Corollary gen_eof_progress input s :
  reach N (gen_init n input) s -> s_stopped s = false -> ~ all_done s -> ~ quiescent N s.
Proof. intros R Hs NA Q. apply NA. eapply gen_eof_deadlock_free; eauto. Qed.

End GenProgress.
