(* Construct-specific theorems about UN-ABORTED runs (no Close / cancel / abandon):
   the single-pump networks (Buffer, Chain & co.): order, completeness, deadlock freedom, termination;
   the closer networks (Map, MergeIterators, GenerateParallel): the output is closed only after the
   wait group drained and every worker returned. *)
From FunV Require Import Base.Tac Base.ListX Model.Pipelines
  Proofs.Pipelines_conserve Proofs.Pipelines_quiesce Proofs.Pipelines_nets.

(* runs made of internal steps only *)
Inductive ireach (N : net) (s0 : state) : state -> Prop :=
| ireach_init : ireach N s0 s0
| ireach_step s l s' : ireach N s0 s -> internal l = true -> step N s l = Some s' -> ireach N s0 s'.

Lemma ireach_reach N s0 s : ireach N s0 s -> reach N s0 s.
Proof. induction 1; [constructor|econstructor; eauto]. Qed.

Ltac exec_cases H :=
  repeat match type of H with
         | (if ?b then _ else _) = Some _ => destruct b eqn:?
         | match ?x with _ => _ end = Some _ => destruct x eqn:?
         end; try discriminate.

Lemma exec_stopped N s p pr d i arm s' : exec N s p pr d i arm = Some s' -> s_stopped s' = s_stopped s.
Proof.
  intros H. destruct i; cbn [exec] in H; exec_cases H; inv H;
    unfold setp, set_procs, dropped, set_drop, set_canc, set_chans, set_srcs, set_deliv, set_oncew, set_wg, start; cbv zeta;
    repeat match goal with |- context [if ?b then _ else _] => destruct b end; reflexivity.
Qed.

Lemma step_stopped N s l s' :
  step N s l = Some s' -> (internal l = true /\ s_stopped s' = s_stopped s) \/ (internal l = false /\ s_stopped s' = true).
Proof.
  intros H. destruct l; cbn [step] in H.
  - left. split; auto. destruct (cur_instr N s p) as [[[pr d] i]|]; [|discriminate]. eapply exec_stopped; eauto.
  - left. split; auto. exec_cases H. inv H. reflexivity.
  - left. split; auto. exec_cases H. inv H. reflexivity.
  - right. inv H. auto.
  - right. inv H. auto.
  - right. exec_cases H; inv H; auto.
Qed.

(* a run that has not performed a stop action consists of internal steps *)
Lemma reach_unstopped N s0 s : reach N s0 s -> s_stopped s = false -> ireach N s0 s.
Proof.
  induction 1 as [|s l s' R IH H]; intros Hs; [constructor|].
  destruct (step_stopped _ _ _ _ H) as [[Hi E]|[_ E]]; [|congruence].
  eapply ireach_step; [apply IH; congruence|exact Hi|exact H].
Qed.

(* ================================================================ single-pump networks
   consumer (goroutine 0) + pump (goroutine 1) + one channel: Buffer (b = true: go once.Do(pump) on every
   advance) and Chain / MergeSlices / MergeSliceIterators / dt.Map / adt.Map (b = false: once.Do(go pump)) *)
Definition sp_net (b : bool) : net :=
  mkNet [usr (if b then cons_once_prog 1 0 else cons_go_prog 0); bg (pump_prog 0 0)] std_desc 1.
Definition sp_init (cap : nat) (input : list Z) : state := mk_init [running 1; idle] [cap] [input].

Lemma buffer_net_sp : buffer_net = sp_net true. Proof. reflexivity. Qed.
Lemma pump_net_sp : pump_net = sp_net false. Proof. reflexivity. Qed.

Definition cons_ok (c : proc) : Prop :=
  (p_st c = PRun /\ p_pc c <= 5 /\ (p_pc c = 3 \/ p_hand c = None)) \/ (p_st c = PDone /\ p_hand c = None).
Definition cons_fin (c : proc) : Prop := p_st c = PDone \/ (p_st c = PRun /\ p_pc c = 5).
Definition cons_late (c : proc) : Prop := p_st c = PDone \/ (p_st c = PRun /\ 4 <= p_pc c).
Definition cons_early (c : proc) : Prop := p_st c = PRun /\ p_pc c <= 1.
Definition pump_ok (p : proc) (src : list Z) (closed : bool) : Prop :=
  (p_st p = PNotStarted /\ p_hand p = None /\ closed = false)
  \/ (p_st p = PRun /\ p_ctx p = 1 /\ p_pc p <= 3 /\ (p_pc p = 1 \/ p_hand p = None) /\ (2 <= p_pc p -> src = [])
      /\ (closed = true <-> p_pc p = 3))
  \/ (p_st p = PDone /\ p_hand p = None /\ src = [] /\ closed = true).

Record sp_inv (cap : nat) (input : list Z) (s : state) (c p : proc) (buf : list Z) (closed : bool) (src : list Z) : Prop := {
  sv_procs : s_procs s = [c; p];
  sv_chans : s_chans s = [mkChan buf cap closed];
  sv_srcs : s_srcs s = [src];
  sv_drop : s_drop s = [];
  sv_order : s_deliv s ++ ol (p_hand c) ++ buf ++ ol (p_hand p) ++ src = input;
  sv_cap : length buf <= cap;
  sv_cctx : p_ctx c = 1;
  sv_cons : cons_ok c;
  sv_pump : pump_ok p src closed;
  sv_canc : s_canc s = [] \/ (s_canc s = [1] /\ cons_fin c);
  sv_late : cons_late c -> closed = true /\ buf = [];
  sv_early : p_st p = PNotStarted -> cons_early c
}.

Definition sp_invariant cap input s : Prop := exists c p buf closed src, sp_inv cap input s c p buf closed src.

Lemma sp_inv_init cap input : sp_invariant cap input (sp_init cap input).
Proof.
  exists (running 1), idle, [], false, input. split; try reflexivity; cbn.
  - lia.
  - left. cbn. repeat split; auto. lia.
  - left. auto.
  - left. reflexivity.
  - intros [H|[_ H]]; [discriminate|cbn in H; lia].
  - intros _. split; cbn; auto.
Qed.

(* ---- tactics for the finite-control case analysis ---- *)
Ltac brk :=
  repeat match goal with
         | H : _ /\ _ |- _ => destruct H
         | H : exists _, _ |- _ => destruct H
         end.

Ltac arith :=
  repeat match goal with
         | H : (_ <? _) = true |- _ => apply Nat.ltb_lt in H
         | H : (_ <? _) = false |- _ => apply Nat.ltb_ge in H
         | H : (_ =? _) = true |- _ => apply Nat.eqb_eq in H
         | H : (_ =? _) = false |- _ => apply Nat.eqb_neq in H
         | H : _ && _ = true |- _ => apply andb_prop in H as [? ?]
         end.
Ltac nilbuf :=
  try match goal with H : length ?b <= 0 |- _ => destruct b; [|cbn [length] in H; lia] end.
Ltac leaf := subst; arith; subst; nilbuf; rewrite ?app_length in *; cbn [p_hand p_st p_pc p_ctx ol app length] in *; try congruence; try lia; try discriminate;
  rewrite <- ?app_assoc in *; cbn [ol app] in *; try congruence; auto.
Ltac fwd :=
  repeat match goal with
         | H : ?A -> _ |- _ =>
             let HA := fresh in assert (HA : A) by (clear H; intuition leaf); specialize (H HA)
         end.
Ltac fin :=
  brk; subst; cbn [p_hand p_st p_pc p_ctx ol app length] in *;
  try solve [intuition leaf]; fwd; try solve [intuition leaf].

Ltac norm :=
  unfold setp, dropped, start, set_procs, set_chans, set_srcs, set_canc, set_wg, set_oncew, set_deliv, set_drop, goto, goto_h, is_wg in *;
  cbn [s_procs s_chans s_srcs s_canc s_wg s_oncew s_deliv s_drop s_stopped upd p_hand p_st p_pc p_ctx nth_error n_procs sp_net
       c_buf c_cap c_closed resolve d_wg bg usr] in *.

Ltac defs := unfold cons_ok, pump_ok, cons_fin, cons_late, cons_early in *.

Ltac lists := cbn [ol app] in *; rewrite <- ?app_assoc in *; cbn [ol app] in *; try congruence; auto.

Ltac go H :=
  cbn -[Nat.ltb Nat.leb Nat.eqb] in H; exec_cases H; inv H; norm; unfold sp_invariant; do 5 eexists;
  (split; cbn [s_procs s_chans s_srcs s_canc s_deliv s_drop];
   [reflexivity|reflexivity|reflexivity|try reflexivity|..]); defs; try solve [lists]; fin.

Lemma sp_inv_step b cap input s l s' :
  sp_invariant cap input s -> internal l = true -> step (sp_net b) s l = Some s' -> sp_invariant cap input s'.
Proof.
  intros (c & p & buf & closed & src & I) Hl H.
  destruct I as [sv_procs sv_chans sv_srcs sv_drop sv_order sv_cap sv_cctx sv_cons sv_pump sv_canc sv_late sv_early].
  destruct s as [ps cs ss canc wg ow dl dr st]. cbn [s_procs s_chans s_srcs s_drop s_deliv s_canc] in *. subst ps cs ss dr.
  destruct c as [cst cpc chd cctx]. destruct p as [pst ppc phd pctx]. cbn [p_ctx] in sv_cctx. subst cctx.
  destruct l; try discriminate; cbn [step] in H.
  - (* LStep *)
    destruct p as [|[|q]].
    + (* the consumer *)
      unfold cur_instr in H. cbn [s_procs nth_error sp_net n_procs] in H.
      destruct sv_cons as [(Hst & Hpc & Hh)|(Hst & Hh)]; cbn [p_st p_pc p_hand] in *; subst cst; [|discriminate].
      cbn [p_st p_pc usr d_prog] in H.
      do 6 (try destruct cpc as [|cpc]); try lia.
      * destruct sv_canc as [->|(-> & F)]; [|defs; fin]. destruct b; go H.
      * destruct sv_canc as [->|(-> & F)]; [|defs; fin]. destruct b; go H.
      * destruct sv_canc as [->|(-> & F)]; [|defs; fin]. destruct b; go H.
      * destruct sv_canc as [->|(-> & F)]; [|defs; fin]. destruct b; go H.
      * destruct sv_canc as [->|(-> & F)]; [|defs; fin]. destruct b; go H.
      * destruct b; go H.
    + (* the pump *)
      unfold cur_instr in H. cbn [s_procs nth_error sp_net n_procs] in H.
      destruct sv_pump as [(Hst & Hh & Hc)|[(Hst & Hx & Hpc & Hh & Hs & Hc)|(Hst & Hh & Hs & Hc)]];
        cbn [p_st p_pc p_hand p_ctx] in *; subst pst; try discriminate. subst pctx.
      cbn [p_st p_pc bg d_prog pump_prog] in H.
      do 4 (try destruct ppc as [|ppc]); try lia.
      * destruct sv_canc as [->|(-> & F)]; go H.
      * destruct sv_canc as [->|(-> & F)]; go H.
      * destruct sv_canc as [->|(-> & F)]; go H.
      * destruct sv_canc as [->|(-> & F)]; go H.
    + unfold cur_instr in H. cbn [s_procs nth_error] in H. destruct q; discriminate.
  - (* LRdv *)
    destruct (p =? q) eqn:Epq; [discriminate|].
    unfold cur_instr in H. cbn [s_procs sp_net n_procs] in H.
    destruct p as [|[|p]]; cbn [nth_error] in H.
    + (* the consumer never sends *)
      destruct sv_cons as [(Hst & Hpc & Hh)|(Hst & Hh)]; cbn [p_st p_pc p_hand] in *; subst cst; [|discriminate].
      cbn [p_st p_pc usr d_prog] in H.
      do 6 (try destruct cpc as [|cpc]); try lia; destruct b; cbn in H; discriminate.
    + destruct sv_pump as [(Hst & Hh & Hc)|[(Hst & Hx & Hpc & Hh & Hs & Hc)|(Hst & Hh & Hs & Hc)]];
        cbn [p_st p_pc p_hand p_ctx] in *; subst pst; try discriminate. subst pctx.
      cbn [p_st p_pc bg d_prog pump_prog] in H.
      do 4 (try destruct ppc as [|ppc]); try lia; cbn [nth_error] in H; try discriminate.
      destruct q as [|[|q]]; cbn [nth_error] in H; try discriminate.
      * destruct sv_cons as [(Hst & Hpc2 & Hh2)|(Hst & Hh2)]; cbn [p_st p_pc p_hand] in *; subst cst; [|discriminate].
        cbn [p_st p_pc usr d_prog] in H.
        do 6 (try destruct cpc as [|cpc]); try lia; destruct b; cbn in H; try discriminate;
          (destruct sv_canc as [->|(-> & F)]; [|defs; fin]); go H.
      * destruct q; discriminate.
    + destruct p; discriminate.
  - (* LOnceRel *)
    exec_cases H. inv H. exists (mkProc cst cpc chd 1), (mkProc pst ppc phd pctx), buf, closed, src.
    split; auto.
Qed.


Ltac none_cases H :=
  repeat match type of H with
         | (if ?b then _ else _) = None => destruct b eqn:?
         | match ?x with _ => _ end = None => destruct x eqn:?
         end; try discriminate.

Lemma sp_ireach_inv b cap input s : ireach (sp_net b) (sp_init cap input) s -> sp_invariant cap input s.
Proof. induction 1; [apply sp_inv_init|eapply sp_inv_step; eauto]. Qed.

Definition consumer_done (s : state) : Prop := exists c, nth_error (s_procs s) 0 = Some c /\ p_st c = PDone.

(* un-aborted runs of a single-pump network: nothing is ever dropped, what was delivered so far is a
   PREFIX of the input in input order, and once the consumer has returned it is the whole input *)
Theorem sp_order b cap input s :
  reach (sp_net b) (sp_init cap input) s -> s_stopped s = false ->
  s_drop s = [] /\ (exists rest, s_deliv s ++ rest = input) /\ (consumer_done s -> s_deliv s = input).
Proof.
  intros R Hs. apply reach_unstopped in R; auto. apply sp_ireach_inv in R as (c & p & buf & closed & src & I).
  destruct I as [sv_procs sv_chans sv_srcs sv_drop sv_order sv_cap sv_cctx sv_cons sv_pump sv_canc sv_late sv_early].
  split; [exact sv_drop|]. split; [eexists; exact sv_order|].
  intros (c0 & Hc0 & Hd). rewrite sv_procs in Hc0. cbn in Hc0. injection Hc0 as E0. subst c0.
  destruct (sv_late (or_introl Hd)) as (-> & ->).
  assert (p_hand c = None) by (destruct sv_cons as [(E & _)|(_ & E)]; congruence).
  assert (p_hand p = None /\ src = []) as (Hp & ->).
  { destruct sv_pump as [(_ & _ & E)|[(_ & _ & Hpc & Hh & Hsrc & Hcl)|(_ & Hh & Hsrc & _)]]; [discriminate| |auto].
    assert (p_pc p = 3) by (apply Hcl; reflexivity). split; [destruct Hh; [lia|auto]|apply Hsrc; lia]. }
  rewrite H, Hp in sv_order. cbn in sv_order. now rewrite app_nil_r in sv_order.
Qed.

(* deadlock freedom: an un-aborted run that can go no further has delivered everything, every goroutine
   has returned and nobody is parked in once.Do - i.e. the consumer saw io.EOF after exactly the input *)
Theorem sp_quiescent_done b cap input s :
  reach (sp_net b) (sp_init cap input) s -> s_stopped s = false -> quiescent (sp_net b) s ->
  all_done s /\ consumer_done s /\ s_deliv s = input.
Proof.
  intros R Hs Q. pose proof R as R0. apply reach_unstopped in R; auto.
  pose proof (sp_ireach_inv _ _ _ _ R) as (c & p & buf & closed & src & I).
  assert (G : ginv (sp_net b) s).
  { eapply ginv_reach; eauto; [destruct b; reflexivity|].
    apply ginv_init. destruct b; cbn; repeat (constructor; [iok|]); constructor. }
  destruct I as [sv_procs sv_chans sv_srcs sv_drop sv_order sv_cap sv_cctx sv_cons sv_pump sv_canc sv_late sv_early].
  assert (CD : p_st c = PDone).
  { destruct sv_cons as [(Hst & Hpc & Hh)|(Hst & _)]; auto. exfalso.
    destruct s as [ps cs ss canc wg ow dl dr st]. cbn [s_procs s_chans s_srcs s_drop s_deliv s_canc] in *. subst ps cs ss dr.
    destruct c as [cst cpc chd cctx]. destruct p as [pst ppc phd pctx]. cbn [p_st p_pc p_hand p_ctx] in *. subst cst cctx.
    pose proof (Q (LStep 0 false) eq_refl) as Q0. pose proof (Q (LStep 1 false) eq_refl) as Q1. pose proof (Q (LRdv 1 0) eq_refl) as Q2.
    do 6 (try destruct cpc as [|cpc]); try lia;
      try (destruct b; cbn -[Nat.ltb] in Q0; none_cases Q0; fail).
    (* consumer blocked in Read: the channel is open and empty *)
    assert (buf = [] /\ closed = false) as (-> & ->).
    { destruct b; cbn -[Nat.ltb] in Q0; destruct buf; try discriminate; destruct closed; try discriminate; auto. }
    destruct sv_pump as [(Hst & _)|[(Hst & Hx & Hpc2 & Hh2 & Hsrc & Hcl)|(_ & _ & _ & E)]]; [|cbn [p_st p_ctx p_pc p_hand] in *; subst pst pctx|discriminate].
    - destruct (sv_early Hst) as (_ & E). cbn in E. lia.
    - do 4 (try destruct ppc as [|ppc]); try lia.
      + destruct b; cbn -[Nat.ltb] in Q1; none_cases Q1.
      + destruct phd as [v|].
        * destruct cap as [|cap].
          -- destruct b; cbn in Q2; discriminate.
          -- destruct b; cbn in Q1; discriminate.
        * destruct b; cbn in Q1; discriminate.
      + destruct b; cbn in Q1; discriminate. }
  assert (PD : p_st p = PDone).
  { destruct (sv_late (or_introl CD)) as (-> & ->).
    destruct sv_pump as [(_ & _ & E)|[(Hst & Hx & Hpc2 & Hh2 & Hsrc & Hcl)|(E & _)]]; [discriminate| |auto]. exfalso.
    assert (Epc : p_pc p = 3) by (apply Hcl; reflexivity).
    pose proof (Q (LStep 1 false) eq_refl) as Q1. unfold step, cur_instr in Q1. rewrite sv_procs in Q1. cbn [nth_error sp_net n_procs] in Q1.
    rewrite Hst in Q1. cbn [bg d_prog pump_prog] in Q1. rewrite Epc in Q1. cbn in Q1. discriminate. }
  assert (AD : all_done s).
  { split.
    - intros q pr Hq. rewrite sv_procs in Hq. destruct q as [|[|q]]; cbn in Hq; [inv Hq; congruence|inv Hq; congruence|destruct q; discriminate].
    - destruct (s_oncew s) as [|k] eqn:Eo; auto. exfalso.
      pose proof (Q LOnceRel eq_refl) as Q3. cbn [step] in Q3. rewrite Eo in Q3. unfold is_done in Q3.
      cbn [sp_net n_once] in Q3. rewrite sv_procs in Q3. cbn [nth_error] in Q3. rewrite PD in Q3. cbn in Q3. discriminate. }
  assert (CDn : consumer_done s) by (exists c; rewrite sv_procs; auto).
  split; [exact AD|]. split; [exact CDn|].
  destruct (sp_order b cap input s R0 Hs) as (_ & _ & E). auto.
Qed.

Theorem sp_complete b cap input s :
  reach (sp_net b) (sp_init cap input) s -> s_stopped s = false -> consumer_done s -> Permutation (s_deliv s) input.
Proof. intros R Hs Hd. destruct (sp_order b cap input s R Hs) as (_ & _ & E). rewrite (E Hd). reflexivity. Qed.

(* every construct: with all hands empty, delivered + what is still in the input / in channel buffers / was
   explicitly dropped is a permutation of the input *)
Theorem complete_up_to_drops K srcs s :
  reach (net_of K) (init_of K srcs) s ->
  (forall p pr, nth_error (s_procs s) p = Some pr -> p_hand pr = None) ->
  Permutation (s_deliv s ++ concat (s_srcs s) ++ bufs (s_chans s) ++ s_drop s) (concat srcs).
Proof.
  intros R Hh. pose proof (conservation_constructs K srcs s R) as P.
  assert (E : hands (s_procs s) = []).
  { apply hands_none. intros pr Hin. apply In_nth_error in Hin as (p & Hp). eauto. }
  rewrite E in P. cbn [app] in P. etransitivity; [|exact P].
  apply perm_of_cnt. intros x. rewrite !cnt_app. lia.
Qed.

(* ================================================================ the executable scheduler only produces reachable states *)
Lemma first_enabled_step N s ls s' : first_enabled N s ls = Some s' -> exists l, step N s l = Some s'.
Proof.
  induction ls as [|l ls IH]; simpl; [discriminate|]. destruct (step N s l) eqn:E; [intros H; inv H; eauto|auto].
Qed.

Lemma run_reach N fuel rot cf k s0 s : reach N s0 s -> reach N s0 (run N fuel rot cf k s).
Proof.
  revert rot s. induction fuel as [|f IH]; intros rot s R; simpl; auto.
  destruct (match k with Some k' => k' <=? length (s_deliv s) | None => false end); auto.
  destruct (first_enabled N s (cand_labels s rot cf)) eqn:E; auto.
  apply first_enabled_step in E as (l & Hl). apply IH. eapply reach_step; eauto.
Qed.

Lemma apply_reach N ls s0 s : reach N s0 s -> reach N s0 (apply N ls s).
Proof.
  revert s. induction ls as [|l ls IH]; intros s R; simpl; auto.
  destruct (step N s l) eqn:E; auto. apply IH. eapply reach_step; eauto.
Qed.

Lemma scenario_reach N s0 fuel rot cf k stops : reach N s0 (scenario N s0 fuel rot cf k stops).
Proof. unfold scenario. apply run_reach, apply_reach, run_reach. constructor. Qed.

(* ---- non-vacuity of the theorems' hypotheses ---- *)
Definition buffer_final : state := Eval vm_compute in run buffer_net 1000 0 false None (buffer_init 2 [1; 2; 3]%Z).

Example buffer_unaborted_run_exists :
  reach buffer_net (buffer_init 2 [1; 2; 3]%Z) buffer_final /\ s_stopped buffer_final = false /\
  quiescent buffer_net buffer_final /\ consumer_done buffer_final /\ s_deliv buffer_final = [1; 2; 3]%Z.
Proof.
  split; [|split; [reflexivity|split; [apply quiescentb_sound; vm_compute; reflexivity|split; [|reflexivity]]]].
  - assert (E : buffer_final = run buffer_net 1000 0 false None (buffer_init 2 [1; 2; 3]%Z)) by (vm_compute; reflexivity).
    rewrite E. apply run_reach. constructor.
  - eexists. split; [reflexivity|reflexivity].
Qed.

Definition map_closed : state :=
  Eval vm_compute in scenario (map_net 3) (map_init 3 [1; 2; 3; 4; 5]%Z) 1000 0 false (Some 2) [LClose 1].

Example map_stop_scenario_exists :
  reach (net_of (KMap 3)) (init_of (KMap 3) [[1; 2; 3; 4; 5]%Z]) map_closed /\ stop_happened (KMap 3) map_closed /\
  quiescent (net_of (KMap 3)) map_closed /\ length (s_deliv map_closed) < 5.
Proof.
  split; [|split; [right; exists 1; split; [reflexivity|vm_compute; auto]|split; [apply quiescentb_sound; vm_compute; reflexivity|vm_compute; lia]]].
  assert (E : map_closed = scenario (map_net 3) (map_init 3 [1; 2; 3; 4; 5]%Z) 1000 0 false (Some 2) [LClose 1]) by (vm_compute; reflexivity).
  rewrite E. cbn [net_of init_of concat app]. apply scenario_reach.
Qed.
